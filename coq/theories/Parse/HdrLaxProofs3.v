(* Parse/HdrLaxProofs3.v -- assembly of the lax per-layer agreement lemmas (HdrLaxProofs.v,
   HdrLaxProofs2.v) over whole packets: LaxPacketHeaders::add_ip against the lax cursor's
   slice_ip, ARP, the VLAN / MACsec link-extension loop (induction on the remaining capacity
   of the ArrayVec, as HdrProofs3.loop_agree / LaxWireProofs.l_ether_eq), the three entry
   points of LaxPacketHeaders, never-Bug. *)
From Coq Require Import ZArith Lia ZifyN ZifyBool.
From EP Require Import Base.Bytes Parse.Types Parse.Slices Parse.Cursor Parse.View
  Parse.WireSpec Parse.Repr Parse.StrictProofs Parse.LaxSlices Parse.LaxCursor Parse.LaxView
  Parse.LaxProofs Parse.LaxFacts Parse.LaxWire Parse.LaxWireProofs
  Parse.HdrModel Parse.HdrView Parse.HdrCut Parse.HdrProofs Parse.HdrProofs2 Parse.HdrProofs3
  Parse.HdrLaxModel Parse.HdrLaxView Parse.HdrLaxProofs Parse.HdrLaxCut Parse.HdrLaxCutProofs
  Parse.HdrLaxProofs2.
Import LaxSlicedPacketCursor.

Local Open Scope N_scope.

(* ---- stop errors, offsets --------------------------------------------------------------- *)
Definition sh_stop (k : N) (e : stop_error) : stop_error := (shift k (fst e), snd e).

Lemma add_add l a b : le_add_offset (le_add_offset l a) b = le_add_offset l (b + a).
Proof. destruct l as [r n s y o]. unfold le_add_offset. cbn. f_equal. lia. Qed.

Lemma lerr_rel_fix l o k csrc :
  lerr_rel (le_add_offset (le_add_offset l o) k) (fix_len l (k + o) csrc).
Proof.
  destruct l as [r n s y o0]. unfold lerr_rel, fix_len, le_add_offset, le_set_src. cbn.
  destruct s; cbn; [right|left|left|left|left|left|left]; f_equal; lia.
Qed.

Lemma fix_len_shift l o k src : fix_len l (k + o) src = le_add_offset (fix_len l o src) k.
Proof.
  destruct l as [r n s y o0]. unfold fix_len, le_add_offset, le_set_src. cbn.
  destruct s; cbn; f_equal; lia.
Qed.

Lemma sh_stop_0 e : sh_stop 0 e = e.
Proof. destruct e as [e ly]. unfold sh_stop. cbn [fst snd]. now rewrite shift_0. Qed.

Lemma map_sh_stop_0 o : option_map (sh_stop 0) o = o.
Proof. destruct o; cbn; [now rewrite sh_stop_0|reflexivity]. Qed.

(* ---- slice_transport with a shifted running offset ------------------------------------------ *)
Definition sh_lsp (k : N) (sp : lax_sliced_packet) : lax_sliced_packet :=
  mkLaxSliced (lsp_link sp) (lsp_exts sp) (lsp_net sp) (lsp_transport sp)
              (option_map (sh_stop k) (lsp_stop_err sp)).

Lemma sh_lsp_nostop k r : has_stop r = false -> sh_lsp k r = r.
Proof.
  unfold has_stop, sh_lsp. destruct r as [l x n t [e|]]; cbn; [discriminate|reflexivity].
Qed.

Lemma slice_transport_shift k o src r p : has_stop r = false ->
  slice_transport (mkLaxCursor (k + o) src r) p =
  match slice_transport (mkLaxCursor o src r) p with Ok sp => Ok (sh_lsp k sp) | x => x end.
Proof.
  intros Hs. unfold slice_transport. cbn [lc_result lc_offset]. rewrite Hs, Bool.orb_false_r.
  assert (Hn : lsp_stop_err r = None).
  { unfold has_stop in Hs. destruct (lsp_stop_err r); [discriminate|reflexivity]. }
  assert (T : forall t, sh_lsp k (with_transport r t) = with_transport r t).
  { intros t. unfold sh_lsp, with_transport. cbn. now rewrite Hn. }
  assert (S1 : forall l ly ps, with_stop r (ELen (fix_len l (k + o) ps), ly) =
                               sh_lsp k (with_stop r (ELen (fix_len l o ps), ly))).
  { intros l ly ps. unfold sh_lsp, with_stop, sh_stop. cbn. now rewrite fix_len_shift. }
  destruct (lipp_fragmented p); [now rewrite sh_lsp_nostop|].
  destruct (lipp_number p =? IPN_ICMP).
  { destruct (Icmpv4Slice.from_slice _) as [x|[l|c]|b]; try reflexivity; [now rewrite T|now rewrite S1]. }
  destruct (lipp_number p =? IPN_UDP).
  { destruct (UdpSlice.from_slice_lax _) as [x|[l|c]|b]; try reflexivity; [now rewrite T|now rewrite S1]. }
  destruct (lipp_number p =? IPN_TCP).
  { destruct (TcpSlice.from_slice _) as [x|[l|c]|b]; try reflexivity; [now rewrite T|now rewrite S1]. }
  destruct (lipp_number p =? IPN_ICMPV6).
  { destruct (Icmpv6Slice.from_slice _) as [x|[l|c]|b]; try reflexivity; [now rewrite T|now rewrite S1]. }
  now rewrite sh_lsp_nostop.
Qed.

(* ---- the packet relation during the assembly -------------------------------------------------- *)
(* struct result still without its link header; its stop error lacks the offset k of the
   caller's buffer (from_ethernet adds 14 at the very end) *)
Definition lpk_rel (k : N) (lk : option link_slice) (h : res lhpacket) (s : res lax_sliced_packet)
  : Prop :=
  match h, s with
  | Ok p, Ok sp =>
      lh_link p = None /\ lsp_link sp = lk /\
      exists v v', lhview_of p = Ok v /\ lconv sp = Ok v' /\
        lhv_exts v = lhv_exts v' /\ lhv_net v = lhv_net v' /\ lhv_tr v = lhv_tr v' /\
        lhv_payload v = carry_src sp (lhv_payload v') /\
        stop_rel true (option_map (sh_stop k) (lhv_stop v)) (lhv_stop v')
  | _, _ => False
  end.

Lemma stop_rel_same k (e : slice_error) ly e' :
  match shift k e, e' with
  | ELen lh, ELen ls => lerr_rel lh ls
  | EContent c, EContent c' => c = c'
  | _, _ => False
  end ->
  stop_rel true (option_map (sh_stop k) (Some (e, ly))) (Some (e', ly)).
Proof. intros H. cbn. split; [reflexivity|]. left. exact H. Qed.

(* ---- behind the IP headers ---------------------------------------------------------------------- *)
Lemma lconv_ip_notr l x n p stop : lnp n = Some p ->
  lconv (mkLaxSliced l x (Some n) None stop) =
  Ok (mkLHv (match l with Some l0 => lconv_link l0 | None => None end) (map lconv_ext x)
            (Some (lconv_net n)) None (LHvpIp (lview_ipp p)) stop).
Proof.
  intros H. unfold lconv. cbn [lsp_link lsp_exts lsp_net lsp_transport lsp_stop_err].
  destruct n as [v|v|a]; cbn [lnp] in H; try discriminate; injection H as <-; reflexivity.
Qed.

Lemma lconv_ip_tr l x n p ts stop : lnp n = Some p ->
  lconv (mkLaxSliced l x (Some n) (Some ts) stop) =
  (let* r := lconv_tr (lipp_incomplete p) ts in
   Ok (mkLHv (match l with Some l0 => lconv_link l0 | None => None end) (map lconv_ext x)
             (Some (lconv_net n)) (Some (fst r)) (snd r) stop)).
Proof.
  intros H. unfold lconv. cbn [lsp_link lsp_exts lsp_net lsp_transport lsp_stop_err]. rewrite H.
  destruct (lconv_tr (lipp_incomplete p) ts); reflexivity.
Qed.

Lemma lip_tail k c s (self : lhpacket) offset ih p st i st' :
  lh_link self = None -> lh_transport self = None -> lh_stop self = None ->
  lsp_net (lc_result c) = None -> lsp_transport (lc_result c) = None ->
  lsp_stop_err (lc_result c) = None ->
  map hview_ext (lh_exts self) = map lconv_ext (lsp_exts (lc_result c)) ->
  lc_offset c = k + offset ->
  lipd_rel s (Ok (ih, p, st)) (Ok (i, st')) ->
  lpk_rel k (lsp_link (lc_result c))
    (let self1 := mkLH (lh_link self) (lh_exts self) (Some (HnIp ih)) (lh_transport self)
                       (LHpIp p) (lh_stop self) in
     match st with
     | Some e => Ok (LaxPacketHeaders.with_stop self1 (LaxPacketHeaders.ip_stop p offset e))
     | None =>
         let* d := subN (s_off (lipp_slice p)) (s_off s) in
         LaxPacketHeaders.add_transport self1 p (offset + d)
     end)
    (let r := lc_result c in
     let r1 := with_net r (net_of_ip i) in
     let r2 :=
       with_opt_stop r1
         (option_map (conv_ext_stop (is_v4 i) (fun l => fix_len l (lc_offset c) (lc_src c))) st') in
     let payload := LaxIpSlice.payload i in
     let* d := ptr_diff (lipp_slice payload) s in
     let src' := if is_slice_src (lipp_src payload) then lc_src c else lipp_src payload in
     slice_transport (mkLaxCursor (lc_offset c + d) src' r2) payload).
Proof.
  intros Hl Ht Hs Cn Ct Cs Hx Hoff (-> & Hnet & -> & Hle & Hsrc).
  cbv zeta. unfold ptr_diff. rewrite subN_ok by lia. cbn [bind].
  set (r := lc_result c) in *. set (p := LaxIpSlice.payload i) in *.
  rewrite Hl, Ht, Hs.
  assert (Hnp : lnp (net_of_ip i) = Some p) by (destruct i; reflexivity).
  set (n := net_of_ip i) in *.
  destruct st' as [e'|]; cbn [option_map with_opt_stop].
  - (* stopped in the extension headers / the authentication header *)
    unfold slice_transport. cbn [lc_result]. unfold has_stop at 1. cbn [with_stop lsp_stop_err].
    rewrite Bool.orb_true_r.
    unfold lpk_rel, LaxPacketHeaders.with_stop.
    cbn [lh_link lh_exts lh_net lh_transport lh_payload lh_stop with_stop with_net lsp_link].
    split; [reflexivity|]. split; [reflexivity|].
    unfold with_stop, with_net.
    cbn [lsp_link lsp_exts lsp_net lsp_transport lsp_stop_err]. rewrite Ct.
    rewrite (lconv_ip_notr _ _ n p _ Hnp).
    unfold lhview_of.
    cbn [lh_link lh_exts lh_net lh_transport lh_payload lh_stop].
    rewrite Hnet. cbn [bind option_map].
    eexists. eexists. split; [reflexivity|]. split; [reflexivity|].
    cbn [lhv_exts lhv_net lhv_tr lhv_payload lhv_stop lhview_payload carry_src].
    split; [exact Hx|]. split; [reflexivity|]. split; [reflexivity|]. split; [reflexivity|].
    destruct e' as [[l|ce] ly].
    + unfold LaxPacketHeaders.ip_stop. cbn [conv_ext_stop fst snd].
      apply stop_rel_same. cbn [shift].
      specialize (Hsrc l ly eq_refl). rewrite Hoff.
      replace (le_set_src (le_add_offset l offset) (lipp_src p)) with (le_add_offset l offset)
        by (destruct l as [rq nn sr y o]; cbn in Hsrc; subst sr; reflexivity).
      apply lerr_rel_fix.
    + unfold LaxPacketHeaders.ip_stop.
      destruct ce; cbn [conv_ext_stop fst snd]; apply stop_rel_same; reflexivity.
  - (* the transport layer *)
    rewrite Hoff. rewrite <- N.add_assoc.
    set (d := s_off (lipp_slice p) - s_off s).
    set (src' := if is_slice_src (lipp_src p) then lc_src c else lipp_src p).
    set (r1 := with_net r n).
    set (self1 := mkLH None (lh_exts self) (Some (HnIp ih)) None (LHpIp p) None).
    assert (Hs1 : has_stop r1 = false) by (unfold has_stop, r1; cbn; now rewrite Cs).
    rewrite (slice_transport_shift k (offset + d) src' r1 p Hs1).
    pose proof (lax_transport_agree self1 p (mkLaxCursor (offset + d) src' r1) Hs1 Ct) as T.
    cbn [lc_offset lc_result] in T. unfold ltr_rel in T.
    destruct (LaxPacketHeaders.add_transport self1 p (offset + d)) as [r'|e|b];
      destruct (slice_transport (mkLaxCursor (offset + d) src' r1) p) as [sp|e'|b']; try contradiction.
    destruct T as (T1 & T2 & T3 & T4 & T5 & T6 & T7).
    destruct r' as [rl rx rn rt rp rs]. destruct sp as [sl sx sn st0 ss].
    cbn [lh_link lh_exts lh_net lh_transport lh_payload lh_stop lsp_link lsp_exts lsp_net lsp_transport
         lsp_stop_err self1 r1 with_net lc_result] in T1, T2, T3, T4, T5, T6, T7.
    subst rl rx rn sl sx sn.
    unfold lpk_rel, sh_lsp.
    cbn [lh_link lsp_link lsp_exts lsp_net lsp_transport lsp_stop_err].
    split; [reflexivity|]. split; [reflexivity|].
    unfold lhview_of.
    cbn [lh_link lh_exts lh_net lh_transport lh_payload lh_stop].
    rewrite Hnet. cbn [bind option_map].
    destruct st0 as [ts|].
    + destruct T7 as (t & -> & Ec & -> & ->).
      rewrite (lconv_ip_tr _ _ n p ts _ Hnp). rewrite Ec. cbn [bind fst snd option_map].
      eexists. eexists. split; [reflexivity|]. split; [reflexivity|].
      cbn [lhv_exts lhv_net lhv_tr lhv_payload lhv_stop].
      split; [exact Hx|]. split; [reflexivity|]. split; [reflexivity|]. split; [|exact I].
      destruct (lhview_payload rp); try reflexivity.
      (* an ether payload cannot be the payload of a transport slice *)
      destruct ts; cbn [lconv_tr] in Ec; try discriminate.
      destruct (Icmpv4Acc.header_len s0); discriminate.
    + destruct T7 as (-> & -> & T7).
      rewrite (lconv_ip_notr _ _ n p _ Hnp).
      eexists. eexists. split; [reflexivity|]. split; [reflexivity|].
      cbn [lhv_exts lhv_net lhv_tr lhv_payload lhv_stop fst snd lhview_payload carry_src].
      split; [exact Hx|]. split; [reflexivity|]. split; [reflexivity|]. split; [reflexivity|].
      destruct ss as [[e ly]|]; rewrite T7; cbn [option_map]; [|exact I].
      unfold sh_stop. cbn [fst snd]. split; [reflexivity|]. left.
      destruct e as [l|ce]; cbn [shift]; [left|]; reflexivity.
Qed.

(* ---- ARP ------------------------------------------------------------------------------------------ *)
Lemma arp_no_content s c : ArpPacketSlice.from_slice s <> Err (EContent c).
Proof.
  unfold ArpPacketSlice.from_slice, lerr.
  destruct (s_len s <? 8) eqn:E8; [discriminate|].
  rdok s 4. rdok s 5.
  destruct (s_len s <? 8 + v * 2 + v0 * 2) eqn:El; [discriminate|].
  rewrite subU_eq by lia. discriminate.
Qed.

(* ---- the loop invariant ------------------------------------------------------------------------------ *)
Record lloop_inv (bs : bytes) (k : N) (st : LaxPacketHeaders.lstate) (c : lax_cursor)
  (ep : ether_payload) (pos lim : N) : Prop := mkLLoopInv {
  lli_et : ep_ether_type ep = LaxPacketHeaders.ls_et st;
  lli_slice : ep_slice ep = LaxPacketHeaders.ls_rest st;
  lli_repr : repr bs (LaxPacketHeaders.ls_rest st) pos lim;
  lli_off : lc_offset c = k + LaxPacketHeaders.ls_offset st;
  lli_csrc : lc_src c = LaxPacketHeaders.ls_src st;
  lli_exts : map hview_ext (lh_exts (LaxPacketHeaders.ls_result st)) =
             map lconv_ext (lsp_exts (lc_result c));
  lli_hlink : lh_link (LaxPacketHeaders.ls_result st) = None;
  lli_hnet : lh_net (LaxPacketHeaders.ls_result st) = None;
  lli_htr : lh_transport (LaxPacketHeaders.ls_result st) = None;
  lli_hstop : lh_stop (LaxPacketHeaders.ls_result st) = None;
  lli_net : lsp_net (lc_result c) = None;
  lli_tr : lsp_transport (lc_result c) = None;
  lli_stop : lsp_stop_err (lc_result c) = None;
  lli_src : lexts_src (lsp_exts (lc_result c)) LsSlice = LaxPacketHeaders.ls_src st;
  lli_payload : exists pv, lconv_ether_payload (lc_result c) = Ok pv /\
                  lhview_payload (lh_payload (LaxPacketHeaders.ls_result st)) = carry_src (lc_result c) pv }.

Import LaxPacketHeaders.

Lemma lnet_else bs k st c ep pos lim :
  lloop_inv bs k st c ep pos lim ->
  lpk_rel k (lsp_link (lc_result c)) (Ok (ls_result st)) (Ok (lc_result c)).
Proof.
  intros [I1 I2 I3 I4 I5 I6 I7 I8 I9 I10 I11 I12 I13 I14 (pv & Epv & Hpv)].
  unfold lpk_rel. split; [exact I7|]. split; [reflexivity|].
  unfold lhview_of, lconv. rewrite I8, I9, I10, I11, I12, I13, Epv. cbn [bind fst snd option_map].
  eexists. eexists. split; [reflexivity|]. split; [reflexivity|].
  cbn [lhv_exts lhv_net lhv_tr lhv_payload lhv_stop option_map].
  split; [exact I6|]. split; [reflexivity|]. split; [reflexivity|]. split; [exact Hpv|exact I].
Qed.

(* the stop error put in front of a fault of the first IP header / ARP / VLAN / MACsec header *)
Lemma lpk_stop bs k st c ep pos lim eh es ly :
  lloop_inv bs k st c ep pos lim ->
  stop_rel true (option_map (sh_stop k) (Some (eh, ly))) (Some (es, ly)) ->
  lpk_rel k (lsp_link (lc_result c))
    (Ok (LaxPacketHeaders.with_stop (ls_result st) (eh, ly)))
    (Ok (LaxSlicedPacketCursor.with_stop (lc_result c) (es, ly))).
Proof.
  intros [I1 I2 I3 I4 I5 I6 I7 I8 I9 I10 I11 I12 I13 I14 (pv & Epv & Hpv)] Hst.
  unfold lpk_rel, LaxPacketHeaders.with_stop, LaxSlicedPacketCursor.with_stop.
  cbn [lh_link lsp_link]. split; [exact I7|]. split; [reflexivity|].
  unfold lhview_of, lconv.
  cbn [lh_link lh_exts lh_net lh_transport lh_payload lh_stop lsp_link lsp_exts lsp_net lsp_transport
       lsp_stop_err].
  rewrite I8, I9, I11, I12. cbn [bind option_map].
  match goal with |- context [lconv_ether_payload ?X] =>
    assert (Epv' : lconv_ether_payload X = Ok pv) by (rewrite <- Epv; unfold lconv_ether_payload; reflexivity)
  end.
  rewrite Epv'. cbn [bind fst snd].
  eexists. eexists. split; [reflexivity|]. split; [reflexivity|].
  cbn [lhv_exts lhv_net lhv_tr lhv_payload lhv_stop].
  split; [exact I6|]. split; [reflexivity|]. split; [reflexivity|]. split; [|exact Hst].
  rewrite Hpv. destruct pv; reflexivity.
Qed.

Lemma lnet_agree bs (Hok : bytes_ok bs) k st c ep pos lim :
  lloop_inv bs k st c ep pos lim ->
  lpk_rel k (lsp_link (lc_result c)) (net_part st)
    (if ep_ether_type ep =? ET_ARP then slice_arp c (ep_slice ep)
     else if ep_ether_type ep =? ET_IPV4 then LaxCut.slice_ip true c (ep_slice ep)
     else if ep_ether_type ep =? ET_IPV6 then LaxCut.slice_ip true c (ep_slice ep)
     else Ok (lc_result c)).
Proof.
  intros Inv. pose proof Inv as [I1 I2 I3 I4 I5 I6 I7 I8 I9 I10 I11 I12 I13 I14 I15].
  rewrite I1, I2. unfold net_part.
  set (rest := ls_rest st) in *.
  pose proof (repr_bytes_ok _ _ _ _ Hok I3) as Rok.
  assert (IP : lpk_rel k (lsp_link (lc_result c))
                 (match add_ip (ls_result st) (ls_offset st) rest with
                  | Ok r => Ok r
                  | Err (ELen l) =>
                      Ok (LaxPacketHeaders.with_stop (ls_result st)
                            (ELen (le_add_offset l (ls_offset st)), LyIpHeader))
                  | Err (EContent c0) =>
                      Ok (LaxPacketHeaders.with_stop (ls_result st) (EContent c0, LyIpHeader))
                  | Bug b => Bug b
                  end) (LaxCut.slice_ip true c rest)).
  { unfold add_ip, LaxCut.slice_ip.
    assert (Class : (exists b0, rd (snd rest) 0 = Some b0 /\ N.shiftr b0 4 = 4 /\ s_len rest < 20) \/
                    (forall b0, rd (snd rest) 0 = Some b0 -> N.shiftr b0 4 = 4 -> 20 <= s_len rest)).
    { destruct (rd (snd rest) 0) as [b0|] eqn:Eb; [|right; intros; discriminate].
      destruct (N.shiftr b0 4 =? 4) eqn:V; [|right; intros b1 E1 V1; injection E1 as <-; lia].
      destruct (s_len rest <? 20) eqn:L; [left; exists b0; repeat split; lia|].
      right. intros; lia. }
    destruct Class as [(b0 & Eb & V4 & L20)|Hf].
    - (* F11: a cut-short IPv4 header, recorded differently by the two families *)
      destruct (lax_ip_f11 rest b0 true Eb V4 L20) as (e & e' & -> & -> & -> & He').
      cbn [bind]. rewrite I4.
      destruct He' as [(i & Hi & ->)|(hl & Hhl & ->)].
      + apply (lpk_stop bs k st c ep pos lim _ _ _ Inv). cbn. split; [reflexivity|]. right.
        split; [reflexivity|]. split; [reflexivity|].
        exists (s_len rest), (0 + ls_offset st + k). split; [lia|]. split; [reflexivity|].
        left. eauto.
      + apply (lpk_stop bs k st c ep pos lim _ _ _ Inv). cbn. split; [reflexivity|]. right.
        split; [reflexivity|]. split; [reflexivity|].
        exists (s_len rest), (0 + ls_offset st + k). split; [lia|]. split; [reflexivity|].
        right. exists hl, (lc_src c). split; [exact Hhl|]. unfold fix_len, le_add_offset, le_set_src. cbn.
        do 2 f_equal. lia.
    - pose proof (lax_ip_agree rest Rok Hf) as A.
      destruct (LaxIpHeaders.from_slice_lax rest) as [[[ih p] sth]|e|b];
        destruct (LaxCut.ip_from_slice true rest) as [[i st']|e'|b']; try contradiction; cbn [bind].
      + pose proof (lip_tail k c rest (ls_result st) (ls_offset st) ih p sth i st'
                      I7 I9 I10 I11 I12 I13 I6 I4 A) as T.
        cbv zeta in T.
        match type of T with lpk_rel _ _ ?X _ =>
          match goal with |- lpk_rel _ _ (match ?Y with _ => _ end) _ => change Y with X end end.
        match type of T with lpk_rel _ _ ?X ?Z => destruct X as [r'|e|b] end;
          [exact T|exfalso; exact T|exfalso; exact T].
      + cbn in A. subst e'. rewrite I4.
        destruct e as [l|ce]; apply (lpk_stop bs k st c ep pos lim _ _ _ Inv); apply stop_rel_same; cbn [shift];
          [apply lerr_rel_fix|reflexivity]. }
  destruct (ls_et st =? ET_IPV4) eqn:E4.
  { assert (Ea : (ls_et st =? ET_ARP) = false) by (unfold ET_IPV4, ET_ARP in *; lia). rewrite Ea.
    cbn [orb]. exact IP. }
  destruct (ls_et st =? ET_IPV6) eqn:E6.
  { assert (Ea : (ls_et st =? ET_ARP) = false) by (unfold ET_IPV6, ET_ARP in *; lia). rewrite Ea.
    cbn [orb]. exact IP. }
  cbn [orb].
  destruct (ls_et st =? ET_ARP) eqn:Ea; [|now apply (lnet_else bs k st c ep pos lim)].
  unfold slice_arp. pose proof (arp_no_content rest) as Nc.
  destruct (ArpPacketSlice.from_slice rest) as [a|[l|ce]|b] eqn:Earp.
  - destruct I15 as (pv & Epv & Hpv).
    unfold lpk_rel, with_net. cbn [lh_link lsp_link]. split; [exact I7|]. split; [reflexivity|].
    unfold lhview_of, lconv.
    cbn [lh_link lh_exts lh_net lh_transport lh_payload lh_stop lsp_link lsp_exts lsp_net lsp_transport
         lsp_stop_err hview_net].
    rewrite I9, I10, I12, I13. cbn [bind option_map fst snd].
    eexists. eexists. split; [reflexivity|]. split; [reflexivity|].
    cbn [lhv_exts lhv_net lhv_tr lhv_payload lhv_stop lhview_payload carry_src lconv_net].
    split; [exact I6|]. repeat split.
  - rewrite I4. apply (lpk_stop bs k st c ep pos lim _ _ _ Inv). apply stop_rel_same. cbn [shift].
    apply lerr_rel_fix.
  - now destruct (Nc ce).
  - (* ArpPacketSlice::from_slice reads inside the checked length: never Bug *)
    exfalso. revert Earp. unfold ArpPacketSlice.from_slice, lerr.
    destruct (s_len rest <? 8) eqn:E8; [discriminate|].
    rdok rest 4. rdok rest 5.
    destruct (s_len rest <? 8 + v * 2 + v0 * 2) eqn:El; [discriminate|].
    rewrite subU_eq by lia. discriminate.
Qed.

(* ---- LaxMacsecSlice::from_slice: what the loop needs ------------------------------------------ *)
Lemma lax_macsec_shape bs s pos lim : bytes_ok bs -> repr bs s pos lim ->
  match LaxMacsecSlice.from_slice s with
  | Ok m =>
      exists hl, Macsec.header_len (lms_header m) = Ok hl /\
        match lms_payload m with
        | LMpUnmodified e => exists lim', repr bs (lep_slice e) (pos + hl) lim'
        | LMpModified _ _ => True
        end
  | Err (ELen l) => le_layer l = LyMacsecHeader
  | Err (EContent _) => True
  | Bug _ => False
  end.
Proof.
  intros Hok R. rewrite (lax_macsec_from_slice_eq bs s pos lim Hok R).
  destruct (lim - pos <? 6) eqn:E6; [reflexivity|].
  destruct (128 <=? B bs pos) eqn:Ever; [exact I|].
  set (tci := B bs pos) in *.
  set (sl := B bs (pos + 1) mod 64) in *.
  set (unmod := (tci / 4) mod 4 =? 0) in *.
  set (sc := negb ((tci / 32) mod 2 =? 0)) in *.
  destruct (unmod && (sl =? 1)) eqn:Eu; [exact I|].
  set (hl := 6 + (if unmod then 2 else 0) + (if sc then 8 else 0)) in *.
  destruct (lim - pos <? hl) eqn:Eh; [reflexivity|].
  set (body := if unmod then sl - 2 else sl) in *.
  cbv zeta.
  set (inc := (0 <? sl) && (lim - pos <? hl + body)) in *.
  set (short := (0 <? sl) && negb (lim - pos <? hl + body)) in *.
  set (plen := if short then body else lim - pos - hl) in *.
  set (psrc := if short then LsMacsecShortLength else LsSlice) in *.
  assert (Hhl : hl <= lim - pos) by lia.
  assert (Hhl6 : 6 <= hl) by (subst hl; lia).
  pose proof (repr_sub bs s pos lim 0 hl R ltac:(lia)) as Rh.
  rewrite N.add_0_r, drop0 in Rh.
  set (header := (pos, take hl (snd s))) in *.
  assert (Hplen : hl + plen <= lim - pos).
  { subst plen short. destruct (0 <? sl); destruct (lim - pos <? hl + body) eqn:Eb; cbn [andb negb]; lia. }
  pose proof (repr_sub bs s pos lim hl plen R Hplen) as Rp.
  set (payload := (pos + hl, take plen (drop hl (snd s)))) in *.
  pose proof (B_lt bs pos Hok) as Ht. fold tci in Ht.
  exists hl. cbn [lms_header lms_payload]. split.
  { unfold Macsec.header_len, Macsec.sci_present, Macsec.is_unmodified, Macsec.tci_an_raw.
    rd8 Rh 0. rewrite N.add_0_r. fold tci.
    rewrite (bit32 tci Ht), (land12 tci Ht). fold sc unmod. subst hl. f_equal. lia. }
  destruct unmod; [|exact I]. cbn [lep_slice]. exists (pos + hl + plen). exact Rp.
Qed.

(* ---- the link extension loop ------------------------------------------------------------------------ *)
Definition l_run (fuel : nat) (st : lstate) : res lhpacket :=
  let* o := link_loop fuel st in
  match o with
  | LLReturn p => Ok p
  | LLBreak st' => net_part st'
  end.

Lemma l_run_S f st :
  l_run (S f) st =
  let result := ls_result st in
  if SlicedPacketCursor.is_vlan_type (ls_et st) then
    if LINK_EXTS_CAP <=? len (lh_exts result) then net_part st
    else
      match SingleVlanHeader.from_slice (ls_rest st) with
      | Err (ELen e) =>
          Ok (LaxPacketHeaders.with_stop result (ELen (le_add_offset e (ls_offset st)), LyVlanHeader))
      | Err (EContent _) => Bug SITE_UNWRAP
      | Bug b => Bug b
      | Ok (vlan, vlan_rest) =>
          let* et' := SingleVlanHeader.ether_type vlan in
          let r1 := with_payload result (LHpEther (mkLaxEp false et' (ls_src st) vlan_rest)) in
          let* r2 := LaxPacketHeaders.push_ext r1 (HxVlan vlan) in
          l_run f (mkLs r2 vlan_rest (ls_offset st + 4) et' (ls_src st))
      end
  else if ls_et st =? ET_MACSEC then
    if LINK_EXTS_CAP <=? len (lh_exts result) then net_part st
    else
      match LaxMacsecSlice.from_slice (ls_rest st) with
      | Err (ELen e) =>
          Ok (LaxPacketHeaders.with_stop result (ELen (le_add_offset e (ls_offset st)), LyMacsecHeader))
      | Err (EContent c) => Ok (LaxPacketHeaders.with_stop result (EContent c, LyMacsecHeader))
      | Bug b => Bug b
      | Ok macsec =>
          let* r1 := LaxPacketHeaders.push_ext result (HxMacsec (lms_header macsec)) in
          match lms_payload macsec with
          | LMpUnmodified l =>
              let* hl := Macsec.header_len (lms_header macsec) in
              let src := match lep_src l with LsSlice => ls_src st | s => s end in
              let r2 := with_payload r1
                          (LHpEther (mkLaxEp (lep_incomplete l) (lep_ether_type l) src (lep_slice l))) in
              l_run f (mkLs r2 (lep_slice l) (ls_offset st + hl) (lep_ether_type l) src)
          | LMpModified incomplete payload =>
              Ok (with_payload r1 (LHpMacsecMod incomplete payload))
          end
      end
  else net_part st.
Proof.
  unfold l_run. cbn [link_loop]. cbv zeta.
  destruct (SlicedPacketCursor.is_vlan_type (ls_et st)).
  { destruct (LINK_EXTS_CAP <=? len (lh_exts (ls_result st))); [reflexivity|].
    destruct (SingleVlanHeader.from_slice (ls_rest st)) as [[vlan vr]|[l|ce]|b]; try reflexivity.
    destruct (SingleVlanHeader.ether_type vlan); cbn [bind]; try reflexivity.
    destruct (LaxPacketHeaders.push_ext _ _); reflexivity. }
  destruct (ls_et st =? ET_MACSEC); [|reflexivity].
  destruct (LINK_EXTS_CAP <=? len (lh_exts (ls_result st))); [reflexivity|].
  destruct (LaxMacsecSlice.from_slice (ls_rest st)) as [m|[l|ce]|b]; try reflexivity.
  destruct (LaxPacketHeaders.push_ext _ _); cbn [bind]; try reflexivity.
  destruct (lms_payload m); [|reflexivity].
  destruct (Macsec.header_len _); reflexivity.
Qed.

Lemma lexts_src_snoc_vlan l s acc : lexts_src (l ++ [LLeVlan s]) acc = lexts_src l acc.
Proof.
  revert acc. induction l as [|x l IH]; intros acc; [reflexivity|].
  cbn [app lexts_src]. destruct x as [v|m]; [apply IH|]. destruct (lms_payload m); apply IH.
Qed.

Lemma lexts_src_snoc_macsec l m acc :
  lexts_src (l ++ [LLeMacsec m]) acc =
  match lms_payload m with
  | LMpUnmodified e => match lep_src e with LsSlice => lexts_src l acc | s => s end
  | LMpModified _ _ => lexts_src l acc
  end.
Proof.
  revert acc. induction l as [|x l IH]; intros acc.
  - cbn [app lexts_src]. destruct (lms_payload m); reflexivity.
  - cbn [app lexts_src]. destruct x as [v|m']; [apply IH|]. destruct (lms_payload m'); apply IH.
Qed.

Lemma last_some_snoc {A} (l : list A) x : last (map Some (l ++ [x])) None = Some x.
Proof. rewrite map_app. cbn [map]. apply last_last. Qed.

Lemma lloop_agree bs (Hok : bytes_ok bs) k cap :
  forall fuel st c ep pos lim,
    (cap < fuel)%nat -> N.of_nat cap + len (lsp_exts (lc_result c)) = 3 ->
    lloop_inv bs k st c ep pos lim ->
    lpk_rel k (lsp_link (lc_result c)) (l_run fuel st) (LaxCut.slice_ether_type_loop true fuel c ep).
Proof.
  induction cap as [|cap IH]; intros fuel st c ep pos lim Hf Hcap Inv;
    (destruct fuel as [|f]; [lia|]);
    pose proof Inv as [I1 I2 I3 I4 I5 I6 I7 I8 I9 I10 I11 I12 I13 I14 I15];
    pose proof (map_eq_len _ _ _ _ I6) as Hlen;
    rewrite l_run_S; cbv zeta; cbn [LaxCut.slice_ether_type_loop]; unfold is_vlan_type;
    rewrite I1, Hlen; unfold LINK_EXTS_CAP.
  - (* link_exts is full *)
    destruct (SlicedPacketCursor.is_vlan_type (ls_et st)) eqn:Ev.
    { destruct (3 <=? len (lsp_exts (lc_result c))) eqn:E3; [|lia].
      destruct (vlan_not_net _ Ev) as (_ & N4 & N6 & Na).
      unfold net_part. rewrite N4, N6, Na. cbn [orb]. now apply (lnet_else bs k st c ep pos lim). }
    destruct (ls_et st =? ET_MACSEC) eqn:Em.
    { destruct (3 <=? len (lsp_exts (lc_result c))) eqn:E3; [|lia].
      destruct (macsec_not_net _ Em) as (N4 & N6 & Na).
      unfold net_part. rewrite N4, N6, Na. cbn [orb]. now apply (lnet_else bs k st c ep pos lim). }
    rewrite <- I1. now apply (lnet_agree bs Hok k st c ep pos lim).
  - set (rest := ls_rest st) in *.
    pose proof (repr_off _ _ _ _ I3) as Ro. pose proof (repr_len _ _ _ _ I3) as Rl.
    destruct (SlicedPacketCursor.is_vlan_type (ls_et st)) eqn:Ev.
    { (* VLAN tag *)
      destruct (3 <=? len (lsp_exts (lc_result c))) eqn:E3; [lia|].
      rewrite I2. fold rest.
      unfold SingleVlanHeader.from_slice, SingleVlanSlice.from_slice.
      destruct (s_len rest <? 4) eqn:E4.
      { unfold lerr. cbn [bind]. rewrite I4.
        apply (lpk_stop bs k st c ep pos lim _ _ _ Inv). apply stop_rel_same. cbn [shift].
        left. apply add_add. }
      rewrite subU_eq by lia. cbn [bind]. rewrite idx_from_eq by lia. cbn [bind].
      unfold SingleVlanHeader.ether_type, SingleVlanSlice.payload, SingleVlanSlice.ether_type,
        SingleVlanSlice.payload_slice.
      rewrite rd16_prefix by lia.
      destruct (rd16_ok rest 2) as (et' & Eet); [lia|]. rewrite Eet. cbn [bind].
      rewrite subN_ok by lia. cbn [bind]. rewrite subU_rest by lia. cbn [bind].
      unfold LaxPacketHeaders.push_ext, LaxSlicedPacketCursor.push_ext, LINK_EXTS_CAP, with_payload.
      cbn [lh_link lh_exts lh_net lh_transport lh_payload lh_stop]. rewrite Hlen.
      destruct (len (lsp_exts (lc_result c)) <? 3) eqn:E3'; [|lia]. cbn [bind ep_ether_type ep_slice].
      set (vlan := (fst rest + 0, take 4 (drop 0 (snd rest)))).
      set (vrest := (fst rest + 4, drop 4 (snd rest))).
      assert (Rv : repr bs vrest (pos + 4) lim).
      { destruct (repr_rest bs rest pos lim 4 I3 ltac:(lia)) as (s' & Es' & Rs').
        rewrite <- Rl in Es'. rewrite subU_rest in Es' by lia. injection Es' as <-. exact Rs'. }
      match goal with |- lpk_rel _ _ _ (LaxCut.slice_ether_type_loop _ _ ?c' ?ep') =>
        apply (IH f _ c' ep' (pos + 4) lim) end;
        [lia|cbn [lc_result lsp_exts]; rewrite len_app; cbn; lia|].
      constructor; cbn [ep_ether_type ep_slice ls_et ls_rest ls_offset ls_src ls_result lc_offset lc_src
                         lc_result lh_link lh_exts lh_net lh_transport lh_payload lh_stop
                         lsp_link lsp_exts lsp_net lsp_transport lsp_stop_err]; auto.
      - unfold SingleVlanSlice.header_len. lia.
      - rewrite !map_app, I6. cbn [map hview_ext lconv_ext]. do 2 f_equal. subst vlan.
        rewrite win_sub by lia. unfold s_off. now rewrite N.add_0_r.
      - now rewrite lexts_src_snoc_vlan.
      - eexists. split.
        + unfold lconv_ether_payload. cbn [lsp_exts]. rewrite last_some_snoc.
          unfold SingleVlanSlice.payload, SingleVlanSlice.ether_type, SingleVlanSlice.payload_slice.
          rewrite Eet. cbn [bind]. rewrite subN_ok by lia. cbn [bind]. rewrite subU_rest by lia. cbn [bind].
          reflexivity.
        + cbn [lhview_payload carry_src lview_ep lep_incomplete lep_ether_type lep_src lep_slice
               lvep_incomplete lvep_type lvep_win ep_ether_type ep_slice lsp_exts].
          rewrite lexts_src_snoc_vlan, I14. reflexivity. }
    destruct (ls_et st =? ET_MACSEC) eqn:Em;
      [|rewrite <- I1; now apply (lnet_agree bs Hok k st c ep pos lim)].
    (* MACsec *)
    destruct (3 <=? len (lsp_exts (lc_result c))) eqn:E3; [lia|].
    rewrite I2. fold rest.
    pose proof (lax_macsec_shape bs rest pos lim Hok I3) as Sh.
    destruct (LaxMacsecSlice.from_slice rest) as [m|[l|ce]|b]; try contradiction.
    + destruct Sh as (hl & Ehl & Shp).
      rewrite Ehl. cbn [bind].
      unfold LaxPacketHeaders.push_ext, LaxSlicedPacketCursor.push_ext, LINK_EXTS_CAP. rewrite Hlen.
      destruct (len (lsp_exts (lc_result c)) <? 3) eqn:E3'; [|lia]. cbn [bind].
      assert (Hx : map hview_ext (lh_exts (ls_result st) ++ [HxMacsec (lms_header m)]) =
                   map lconv_ext (lsp_exts (lc_result c) ++ [LLeMacsec m])).
      { rewrite !map_app, I6. reflexivity. }
      destruct (lms_payload m) as [e|inc mp] eqn:Emp.
      * destruct Shp as (lim' & Re).
        rewrite ?Ehl. cbn [bind].
        assert (Esrc : (if negb (is_slice_src (lep_src e)) then lep_src e else lc_src c) =
                       match lep_src e with LsSlice => ls_src st | s => s end).
        { rewrite I5. destruct (lep_src e); reflexivity. }
        rewrite Esrc.
        match goal with |- lpk_rel _ _ _ (LaxCut.slice_ether_type_loop _ _ ?c' ?ep') =>
          apply (IH f _ c' ep' (pos + hl) lim') end;
          [lia|cbn [lc_result lsp_exts]; rewrite len_app; cbn; lia|].
        constructor; cbn [ep_ether_type ep_slice ls_et ls_rest ls_offset ls_src ls_result lc_offset lc_src
                           lc_result lh_link lh_exts lh_net lh_transport lh_payload lh_stop with_payload
                           lsp_link lsp_exts lsp_net lsp_transport lsp_stop_err]; auto.
        -- lia.
        -- rewrite lexts_src_snoc_macsec, Emp, I14. reflexivity.
        -- eexists. split.
           ++ unfold lconv_ether_payload. cbn [lsp_exts]. rewrite last_some_snoc. rewrite Emp. reflexivity.
           ++ cbn [lhview_payload carry_src lview_ep lep_incomplete lep_ether_type lep_src lep_slice
                   lvep_incomplete lvep_type lvep_win lsp_exts].
              rewrite lexts_src_snoc_macsec, Emp, I14. reflexivity.
      * unfold lpk_rel, with_payload.
        cbn [lh_link lsp_link lh_exts lh_net lh_transport lh_payload lh_stop].
        split; [exact I7|]. split; [reflexivity|].
        unfold lhview_of, lconv.
        cbn [lh_link lh_exts lh_net lh_transport lh_payload lh_stop lsp_link lsp_exts lsp_net lsp_transport
             lsp_stop_err].
        rewrite I8, I9, I10, I11, I12, I13. cbn [bind option_map].
        unfold lconv_ether_payload. cbn [lsp_exts]. rewrite last_some_snoc, Emp. cbn [bind fst snd].
        eexists. eexists. split; [reflexivity|]. split; [reflexivity|].
        cbn [lhv_exts lhv_net lhv_tr lhv_payload lhv_stop lhview_payload carry_src option_map].
        split; [exact Hx|]. repeat split.
    + rewrite I4. rewrite Sh.
      apply (lpk_stop bs k st c ep pos lim _ _ _ Inv). apply stop_rel_same. cbn [shift].
      left. apply add_add.
    + apply (lpk_stop bs k st c ep pos lim _ _ _ Inv). apply stop_rel_same. reflexivity.
Qed.

(* ---- entry points ---------------------------------------------------------------------------------------- *)
Lemma lhview_of_link p v l : lhview_of p = Ok v ->
  lhview_of (mkLH l (lh_exts p) (lh_net p) (lh_transport p) (lh_payload p) (lh_stop p)) =
  Ok (mkLHv (option_map lhview_link l) (lhv_exts v) (lhv_net v) (lhv_tr v) (lhv_payload v) (lhv_stop v)).
Proof.
  unfold lhview_of. cbn [lh_link lh_exts lh_net lh_transport lh_payload lh_stop].
  destruct (match lh_net p with Some n => _ | None => _ end); cbn [bind]; try discriminate.
  intros H. injection H as <-. reflexivity.
Qed.

Lemma lconv_link_field sp v : lconv sp = Ok v ->
  lhv_link v = match lsp_link sp with Some l => lconv_link l | None => None end.
Proof.
  unfold lconv.
  destruct (match lsp_transport sp with Some t => _ | None => _ end); cbn [bind]; try discriminate.
  intros H. injection H as <-. reflexivity.
Qed.

Lemma from_ether_type_slice_run et s :
  from_ether_type_slice et s =
  l_run 5 (mkLs (mkLH None [] None None (LHpEther (mkLaxEp false et LsSlice s)) None) s 0 et LsSlice).
Proof. reflexivity. Qed.

Theorem lax_hdr_agree_ether_type et bs : bytes_ok bs ->
  lhagree true (LaxPacketHeaders.from_ether_type et bs) (LaxCut.from_ether_type true et bs).
Proof.
  intros Hok.
  unfold LaxPacketHeaders.from_ether_type, LaxCut.from_ether_type, LaxCut.parse_from_ether_type,
    LaxCut.slice_ether_type.
  rewrite from_ether_type_slice_run.
  set (ep := mkEtherPayload et LsSlice (mk_slice bs)).
  set (c := mkLaxCursor 0 LsSlice (LaxSlicedPacketCursor.with_link empty (LkEtherPayload ep))).
  set (st := mkLs (mkLH None [] None None (LHpEther (mkLaxEp false et LsSlice (mk_slice bs))) None)
                  (mk_slice bs) 0 et LsSlice).
  assert (P : lpk_rel 0 (lsp_link (lc_result c)) (l_run 5 st) (LaxCut.slice_ether_type_loop true 5 c ep)).
  { apply (lloop_agree bs Hok 0 3 5 st c ep 0 (len bs)); [lia|reflexivity|].
    constructor; try reflexivity; try apply repr_whole.
    eexists. split; reflexivity. }
  unfold lpk_rel in P. unfold lhagree.
  destruct (l_run 5 st) as [p|e|b]; destruct (LaxCut.slice_ether_type_loop true 5 c ep) as [sp|e'|b'];
    try contradiction.
  destruct P as (Hl & Hlk & v & v' & Hv & Hc & Hx & Hn & Ht & Hp & Hs).
  exists v, v'. split; [exact Hv|]. split; [exact Hc|].
  unfold lhv_rel. rewrite map_sh_stop_0 in Hs. split; [|tauto].
  rewrite (lconv_link_field _ _ Hc), Hlk. cbn.
  unfold lhview_of in Hv. rewrite Hl in Hv.
  destruct (match lh_net p with Some n => _ | None => _ end); cbn [bind] in Hv; try discriminate.
  injection Hv as <-. reflexivity.
Qed.

Lemma shift_stop_view r k v : lhview_of r = Ok v ->
  lhview_of (shift_stop r k) =
  Ok (mkLHv (lhv_link v) (lhv_exts v) (lhv_net v) (lhv_tr v) (lhv_payload v)
            (option_map (sh_stop k) (lhv_stop v))).
Proof.
  unfold lhview_of, shift_stop.
  destruct (match lh_net r with Some n => _ | None => _ end) eqn:En; cbn [bind]; try discriminate.
  intros H. injection H as <-. cbn [lhv_link lhv_exts lhv_net lhv_tr lhv_payload lhv_stop].
  destruct (lh_stop r) as [[[l|ce] ly]|] eqn:Es;
    cbn [lh_link lh_exts lh_net lh_transport lh_payload lh_stop]; rewrite En; cbn [bind];
    rewrite ?Es; reflexivity.
Qed.

Theorem lax_hdr_agree_ethernet bs : bytes_ok bs ->
  lhagree true (LaxPacketHeaders.from_ethernet bs) (LaxCut.from_ethernet true bs).
Proof.
  intros Hok.
  unfold LaxPacketHeaders.from_ethernet, LaxCut.from_ethernet, LaxCut.parse_from_ethernet2,
    Ethernet2Header.from_slice, Ethernet2Slice.from_slice_without_fcs.
  set (s := mk_slice bs).
  pose proof (repr_whole bs) as R. fold s in R.
  pose proof (repr_len _ _ _ _ R) as Rl. rewrite N.sub_0_r in Rl.
  destruct (s_len s <? 14) eqn:E14.
  { unfold lerr, lhagree. cbn [bind]. reflexivity. }
  rewrite subU_eq by lia. cbn [bind]. rewrite idx_from_eq by lia. cbn [bind].
  unfold Ethernet2Header.ether_type, Ethernet2Slice.payload, Ethernet2Slice.ether_type,
    Ethernet2Slice.payload_slice.
  rewrite rd16_prefix by lia.
  destruct (rd16_ok s 12) as (et & Eet); [lia|]. rewrite Eet. cbn [bind].
  rewrite subN_ok by lia. cbn [bind]. rewrite subU_rest by lia. cbn [bind].
  set (eth := (fst s + 0, take 14 (drop 0 (snd s)))).
  set (rest := (fst s + 14, drop 14 (snd s))).
  set (ep := mkEtherPayload et LsSlice rest).
  set (c := mkLaxCursor (0 + Ethernet2Slice.header_len) LsSlice (LaxSlicedPacketCursor.with_link empty (LkEthernet2 s))).
  assert (Rr : repr bs rest 14 (len bs)).
  { destruct (repr_rest bs s 0 (len bs) 14 R ltac:(lia)) as (s' & Es' & Rs').
    rewrite N.sub_0_r, <- Rl in Es'. rewrite subU_rest in Es' by lia. injection Es' as <-. exact Rs'. }
  rewrite from_ether_type_slice_run. unfold LaxCut.slice_ether_type.
  set (st := mkLs (mkLH None [] None None (LHpEther (mkLaxEp false et LsSlice rest)) None) rest 0 et LsSlice).
  assert (P : lpk_rel 14 (lsp_link (lc_result c)) (l_run 5 st) (LaxCut.slice_ether_type_loop true 5 c ep)).
  { apply (lloop_agree bs Hok 14 3 5 st c ep 14 (len bs)); [lia|reflexivity|].
    constructor; try reflexivity; try exact Rr.
    eexists. split.
    - unfold lconv_ether_payload. cbn [c lc_result LaxSlicedPacketCursor.with_link empty lsp_exts map last lsp_link].
      unfold Ethernet2Slice.payload, Ethernet2Slice.ether_type, Ethernet2Slice.payload_slice.
      rewrite Eet. cbn [bind]. rewrite subN_ok by lia. cbn [bind]. rewrite subU_rest by lia. cbn [bind].
      reflexivity.
    - reflexivity. }
  unfold lpk_rel in P. unfold lhagree.
  destruct (l_run 5 st) as [p|e|b]; destruct (LaxCut.slice_ether_type_loop true 5 c ep) as [sp|e'|b'];
    try contradiction; cbn [bind].
  destruct P as (Hl & Hlk & v & v' & Hv & Hc & Hx & Hn & Ht & Hp & Hs).
  unfold LaxPacketHeaders.with_link.
  pose proof (lhview_of_link p v (Some (HlEthernet2 eth)) Hv) as Hv1.
  rewrite (shift_stop_view _ 14 _ Hv1).
  eexists. exists v'. split; [reflexivity|]. split; [exact Hc|].
  unfold lhv_rel. cbn [lhv_link lhv_exts lhv_net lhv_tr lhv_payload lhv_stop].
  split; [|tauto].
  rewrite (lconv_link_field _ _ Hc), Hlk. cbn [c lc_result LaxSlicedPacketCursor.with_link empty lsp_link lconv_link option_map lhview_link].
  unfold eth. rewrite win_sub by lia. unfold s_off. now rewrite N.add_0_r.
Qed.

(* ---- entry point: from_ip ------------------------------------------------------------------------------- *)
Lemma conv_ext_stop_fix0 v4 e :
  conv_ext_stop v4 (fun l => fix_len l 0 LsSlice) e = conv_ext_stop v4 (fun l => l) e.
Proof. apply conv_ext_stop_ext. intros l. apply fix_len_id. Qed.

Theorem lax_hdr_agree_ip bs : bytes_ok bs -> F11 bs = false ->
  lhagree true (LaxPacketHeaders.from_ip bs) (LaxCut.from_ip true bs).
Proof.
  intros Hok Hf. unfold LaxPacketHeaders.from_ip, LaxCut.from_ip, LaxCut.parse_from_ip, add_ip.
  set (s := mk_slice bs).
  assert (Hf' : forall b0, rd (snd s) 0 = Some b0 -> N.shiftr b0 4 = 4 -> 20 <= s_len s).
  { intros b0 Eb V. unfold s, mk_slice, s_len in *. cbn [snd] in *.
    destruct bs as [|x r]; [discriminate|]. unfold rd in Eb. cbn in Eb. injection Eb as ->.
    unfold F11 in Hf. rewrite V in Hf. cbn [andb] in Hf. change (4 =? 4) with true in Hf. cbn [andb] in Hf. lia. }
  pose proof (lax_ip_agree s Hok Hf') as A.
  destruct (LaxIpHeaders.from_slice_lax s) as [[[ih p] sth]|e|b];
    destruct (LaxCut.ip_from_slice true s) as [[i st']|e'|b']; try contradiction; cbn [bind];
    [|exact A].
  set (self := mkLH None [] None None (LHpUdp true (0, [])) None).
  set (c := mkLaxCursor 0 LsSlice empty).
  pose proof (lip_tail 0 c s self 0 ih p sth i st' eq_refl eq_refl eq_refl eq_refl eq_refl eq_refl
                eq_refl eq_refl A) as T.
  cbv zeta in T. cbn [c lc_result lc_offset lc_src self lh_link lh_exts lh_transport lh_stop] in T.
  (* the cursor form of the slicing side is parse_from_ip's *)
  assert (Es : forall d,
    slice_transport
      (mkLaxCursor (0 + d) (if is_slice_src (lipp_src (LaxIpSlice.payload i)) then LsSlice
                            else lipp_src (LaxIpSlice.payload i))
         (with_opt_stop (with_net empty (net_of_ip i))
            (option_map (conv_ext_stop (is_v4 i) (fun l => fix_len l 0 LsSlice)) st')))
      (LaxIpSlice.payload i) =
    slice_transport
      (mkLaxCursor d LsSlice
         (mkLaxSliced None [] (Some (net_of_ip i)) None (option_map (conv_ext_stop (is_v4 i) (fun l => l)) st')))
      (LaxIpSlice.payload i)).
  { intros d. rewrite N.add_0_l. unfold slice_transport. cbn [lc_result lc_offset].
    destruct st' as [e0|]; cbn [option_map with_opt_stop]; rewrite ?conv_ext_stop_fix0; reflexivity. }
  pose proof A as (Ep & _ & _ & Hle & _). subst p.
  unfold ptr_diff in T |- *. rewrite subN_ok in T |- * by lia. cbn [bind] in T |- *.
  rewrite Es in T. clear Es.
  unfold lpk_rel in T. unfold lhagree.
  match type of T with match ?X with _ => _ end =>
    match goal with |- match ?Y with _ => _ end => change Y with X end; destruct X as [r'|e|b] end;
    try contradiction.
  destruct (slice_transport _ _) as [sp|e'|b']; try contradiction.
  destruct T as (Hl & Hlk & v & v' & Hv & Hc & Hx & Hn & Ht & Hp & Hs).
  exists v, v'. split; [exact Hv|]. split; [exact Hc|].
  unfold lhv_rel. rewrite map_sh_stop_0 in Hs. split; [|tauto].
  rewrite (lconv_link_field _ _ Hc), Hlk. cbn.
  unfold lhview_of in Hv. rewrite Hl in Hv.
  destruct (match lh_net r' with Some n => _ | None => _ end); cbn [bind] in Hv; try discriminate.
  injection Hv as <-. reflexivity.
Qed.

(* F11 at the bare-IP entry point: both families return Err, the records form an F11 pair *)
Theorem lax_hdr_f11_both_err bs : F11 bs = true ->
  exists e e', LaxPacketHeaders.from_ip bs = Err e /\
    (forall cut, LaxCut.from_ip cut bs = Err e') /\ LaxSlicedPacket.from_ip bs = Err e' /\
    f11_pair e e'.
Proof.
  intros Hf. destruct bs as [|b0 r]; [discriminate|]. unfold F11 in Hf.
  apply andb_prop in Hf. destruct Hf as (V4 & L20).
  set (s := mk_slice (b0 :: r)).
  assert (Hl : s_len s = len (b0 :: r)) by reflexivity.
  assert (Eb : rd (snd s) 0 = Some b0) by reflexivity.
  assert (V : N.shiftr b0 4 = 4) by lia.
  assert (L : s_len s < 20) by lia.
  destruct (lax_ip_f11 s b0 true Eb V L) as (e & e' & E1 & E2 & -> & He').
  destruct (lax_ip_f11 s b0 false Eb V L) as (e0 & e0' & _ & E2' & _ & He0').
  assert (Ee : e0' = e').
  { (* the error does not depend on `cut` *)
    revert E2 E2'. unfold LaxCut.ip_from_slice.
    destruct (s_len s =? 0); [congruence|]. unfold rdU. rewrite Eb. cbn [bind]. rewrite V.
    change (4 =? 4) with true. cbn iota.
    destruct (N.land b0 15 <? 5); [congruence|].
    congruence. }
  subst e0'.
  exists (ELen (mkLenError 20 (s_len s) LsSlice LyIpv4Header 0)), e'.
  split. { unfold LaxPacketHeaders.from_ip, add_ip. fold s. rewrite E1. reflexivity. }
  split. { intros [|]; unfold LaxCut.from_ip, LaxCut.parse_from_ip; fold s; [rewrite E2|rewrite E2']; reflexivity. }
  split. { rewrite <- lcut_false_from_ip. unfold LaxCut.from_ip, LaxCut.parse_from_ip. fold s. rewrite E2'. reflexivity. }
  exists (s_len s), 0. split; [exact L|]. split; [reflexivity|].
  destruct He' as [(i & Hi & ->)|(hl & Hhl & ->)]; [left; eauto|right; eauto].
Qed.

(* ---- the property ------------------------------------------------------------------------------------------- *)
Theorem lax_hdr_eq_slices bs et : bytes_ok bs ->
  lhagree true (LaxPacketHeaders.from_ethernet bs) (LaxCut.from_ethernet true bs) /\
  lhagree true (LaxPacketHeaders.from_ether_type et bs) (LaxCut.from_ether_type true et bs) /\
  (F11 bs = false -> lhagree true (LaxPacketHeaders.from_ip bs) (LaxCut.from_ip true bs)) /\
  (F11 bs = true ->
     exists e e', LaxPacketHeaders.from_ip bs = Err e /\ LaxCut.from_ip true bs = Err e' /\
       LaxSlicedPacket.from_ip bs = Err e' /\ f11_pair e e').
Proof.
  intros Hok. split; [now apply lax_hdr_agree_ethernet|]. split; [now apply lax_hdr_agree_ether_type|].
  split; [now apply lax_hdr_agree_ip|].
  intros Hf. destruct (lax_hdr_f11_both_err bs Hf) as (e & e' & A & B & C & D).
  exists e, e'. auto.
Qed.

(* outside the F11 class (read off the LaxPacketHeaders result: stop error
   Len{required 20, len < 20, layer Ipv4Header} on the tag IpHeader) the stop errors are
   related without the F11 clause *)
Lemma f11_pair_stop eh es : f11_pair eh es -> f11_stop (Some (eh, LyIpHeader)) = true.
Proof.
  intros (n & off & Hn & -> & _). cbn. destruct (n <? 20) eqn:E; [reflexivity|lia].
Qed.

Lemma lhagree_strict h s : lhagree true h s -> lax_f11 h = false -> lhagree false h s.
Proof.
  unfold lhagree, lax_f11. destruct h as [p|e|b]; destruct s as [sp|e'|b']; auto.
  intros (v & v' & Hv & Hc & R) Hf. exists v, v'. split; [exact Hv|]. split; [exact Hc|].
  destruct R as (R1 & R2 & R3 & R4 & R5 & R6). repeat (split; [assumption|]).
  assert (Es : lhv_stop v = lh_stop p).
  { unfold lhview_of in Hv. destruct (match lh_net p with Some n => _ | None => _ end); cbn [bind] in Hv;
      try discriminate. injection Hv as <-. reflexivity. }
  rewrite Es in *. unfold stop_rel in *.
  destruct (lh_stop p) as [[eh ly]|]; destruct (lhv_stop v') as [[es ly']|]; auto.
  destruct R6 as (-> & [R6|(_ & -> & R6)]); split; auto.
  exfalso. apply f11_pair_stop in R6. exact (Bool.eq_true_false_abs _ R6 Hf).
Qed.

Lemma lhagree_or_exception f h c s :
  lhagree f h c -> (lax_stopped_at_ext c = false -> (forall b, c <> Bug b) -> c = s) ->
  lhagree f h s \/ (lax_stopped_at_ext c = true /\ lhagree f h c).
Proof.
  intros A Hc. destruct (lax_stopped_at_ext c) eqn:E; [right; auto|left].
  rewrite <- Hc; auto. intros b ->. unfold lhagree in A. destruct h; contradiction.
Qed.

Theorem lax_hdr_eq_slices_or_exception bs et : bytes_ok bs ->
  (lhagree true (LaxPacketHeaders.from_ethernet bs) (LaxSlicedPacket.from_ethernet bs) \/
   (lax_stopped_at_ext (LaxCut.from_ethernet true bs) = true /\
    lhagree true (LaxPacketHeaders.from_ethernet bs) (LaxCut.from_ethernet true bs))) /\
  (lhagree true (LaxPacketHeaders.from_ether_type et bs) (LaxSlicedPacket.from_ether_type et bs) \/
   (lax_stopped_at_ext (LaxCut.from_ether_type true et bs) = true /\
    lhagree true (LaxPacketHeaders.from_ether_type et bs) (LaxCut.from_ether_type true et bs))) /\
  (F11 bs = false ->
   lhagree true (LaxPacketHeaders.from_ip bs) (LaxSlicedPacket.from_ip bs) \/
   (lax_stopped_at_ext (LaxCut.from_ip true bs) = true /\
    lhagree true (LaxPacketHeaders.from_ip bs) (LaxCut.from_ip true bs))).
Proof.
  intros Hok. split; [|split].
  - apply lhagree_or_exception; [now apply lax_hdr_agree_ethernet|apply lcut_only_when_stopped_ethernet].
  - apply lhagree_or_exception; [now apply lax_hdr_agree_ether_type|apply lcut_only_when_stopped_ether_type].
  - intros Hf. apply lhagree_or_exception; [now apply lax_hdr_agree_ip|apply lcut_only_when_stopped_ip].
Qed.

(* ---- never Bug ---------------------------------------------------------------------------------------------------- *)
Lemma lhagree_nobug f h s b : lhagree f h s -> h <> Bug b /\ lhvres_of_h h <> LHBug b.
Proof.
  unfold lhagree. destruct h as [p|e|b0]; destruct s as [sp|e'|b']; try contradiction.
  - intros (v & v' & Hv & _). split; [discriminate|]. cbn. rewrite Hv. discriminate.
  - intros _. split; discriminate.
Qed.

Theorem lax_hdr_never_bug bs et b : bytes_ok bs ->
  (LaxPacketHeaders.from_ethernet bs <> Bug b /\ LaxPacketHeaders.from_ether_type et bs <> Bug b /\
   LaxPacketHeaders.from_ip bs <> Bug b) /\
  (lhvres_of_h (LaxPacketHeaders.from_ethernet bs) <> LHBug b /\
   lhvres_of_h (LaxPacketHeaders.from_ether_type et bs) <> LHBug b /\
   lhvres_of_h (LaxPacketHeaders.from_ip bs) <> LHBug b).
Proof.
  intros Hok.
  destruct (lhagree_nobug _ _ _ b (lax_hdr_agree_ethernet bs Hok)) as (A1 & A2).
  destruct (lhagree_nobug _ _ _ b (lax_hdr_agree_ether_type et bs Hok)) as (B1 & B2).
  assert (C : LaxPacketHeaders.from_ip bs <> Bug b /\ lhvres_of_h (LaxPacketHeaders.from_ip bs) <> LHBug b).
  { destruct (F11 bs) eqn:Hf.
    - destruct (lax_hdr_f11_both_err bs Hf) as (e & e' & -> & _). split; discriminate.
    - exact (lhagree_nobug _ _ _ b (lax_hdr_agree_ip bs Hok Hf)). }
  destruct C as (C1 & C2). repeat split; assumption.
Qed.
