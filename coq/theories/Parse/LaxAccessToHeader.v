(* Parse/LaxAccessToHeader.v -- IpSlice::to_header (net/ip_slice.rs) never fails on an
   IpSlice / Ipv4Slice / Ipv6Slice produced by the strict from_slice.

   The IPv6 arm re-decodes the stored extension window `s.extensions().slice()` with
   the STRUCT decoder Ipv6Extensions::from_slice (model: HdrModel.Ipv6Extensions) and
   `expect`s Ok.  The argument:
     1. the slice walker accepts the window it stored: running
        Ipv6ExtensionsSlice::from_slice again on the consumed prefix succeeds
        (exts_trunc: every header it validated is complete inside the prefix, and the
        walk ends at the same non-extension number with an EMPTY rest);
     2. the struct decoder runs in lockstep with the slice walker cut at the first
        refilled header (C04: HdrProofs2.exts_agree), and the cut walker differs from
        the plain walker only by stopping early with Ok (HdrProofs.dich_exts);
     hence the struct decoder returns Ok (possibly having stopped early at a refilled
     header -- to_header then silently drops the remaining headers, it never errs). *)
From EP Require Import Base.Bytes Parse.Types Parse.Slices Parse.Cursor Parse.Repr
  Parse.Access Parse.AccessProofs Parse.LaxAccess.
From EP Require Parse.HdrModel Parse.HdrCut Parse.HdrProofs Parse.HdrProofs2.
From Coq Require Import ZArith Lia ZifyN ZifyBool.

Local Open Scope N_scope.

(* ---- a header validated in W is validated in every prefix of W that contains it ------ *)
Lemma rd_pre u I W i b : pre u I W -> i < u -> rdU W i = Ok b -> rd (snd I) i = Some b.
Proof.
  intros P Hi E. rewrite <- (pre_rd u I W i P Hi) in E. unfold rdU in E.
  destruct (rd (snd I) i); [now injection E as ->|discriminate].
Qed.

Lemma raw_trunc u I W sl :
  pre u I W -> Ipv6RawExtHeaderSlice.from_slice W = Ok sl -> s_len sl <= u ->
  Ipv6RawExtHeaderSlice.from_slice I = Ok sl.
Proof.
  intros P H Lu. destruct (raw_inv _ _ H) as (b & E1 & Hsl & Ll).
  pose proof (subU_inv _ _ _ _ Hsl) as (_ & Lsl & _). rewrite Lsl in Lu.
  unfold Ipv6RawExtHeaderSlice.from_slice. rewrite (pre_len _ _ _ P).
  destruct (u <? 8) eqn:E8; [lia|].
  rewrite (rd_pre u I W 1 b P) by (auto; lia). cbn [bind].
  destruct (u <? (b + 1) * 8) eqn:El; [lia|].
  rewrite (pre_subU u I W 0 ((b + 1) * 8) P) by lia. exact Hsl.
Qed.

Lemma frag_trunc u I W sl :
  pre u I W -> Ipv6FragmentHeaderSlice.from_slice W = Ok sl -> s_len sl <= u ->
  Ipv6FragmentHeaderSlice.from_slice I = Ok sl.
Proof.
  intros P H Lu. destruct (frag_inv _ _ H) as (Hsl & Ll).
  pose proof (subU_inv _ _ _ _ Hsl) as (_ & Lsl & _). rewrite Lsl in Lu.
  unfold Ipv6FragmentHeaderSlice.from_slice. rewrite (pre_len _ _ _ P).
  destruct (u <? 8) eqn:E8; [lia|].
  rewrite (pre_subU u I W 0 8 P) by lia. exact Hsl.
Qed.

Lemma ah_trunc u I W sl :
  pre u I W -> IpAuthHeaderSlice.from_slice W = Ok sl -> s_len sl <= u ->
  IpAuthHeaderSlice.from_slice I = Ok sl.
Proof.
  intros P H Lu. destruct (ah_inv _ _ H) as (p & E1 & P1 & Hsl & Ll).
  pose proof (subU_inv _ _ _ _ Hsl) as (_ & Lsl & _). rewrite Lsl in Lu.
  unfold IpAuthHeaderSlice.from_slice. rewrite (pre_len _ _ _ P).
  destruct (u <? 12) eqn:E12; [lia|].
  rewrite (pre_rd u I W 1 P) by lia. rewrite E1. cbn [bind].
  destruct (p <? 1) eqn:Ep; [lia|].
  destruct (u <? (p + 2) * 4) eqn:El; [lia|].
  rewrite (pre_subU u I W 0 ((p + 2) * 4) P) by lia. exact Hsl.
Qed.

(* ---- the slice walker accepts the prefix it consumed ----------------------------------- *)
Lemma walk_trunc fuel sl0 :
  forall W nh fr Wf nhf frf,
    Ipv6ExtensionsSlice.walk fuel sl0 W nh fr = Ok (Wf, nhf, frf) ->
    forall I fuel2 sl2,
      pre (s_len W - s_len Wf) I W -> s_len W - s_len Wf <= sl2 ->
      (N.to_nat (s_len W - s_len Wf) < fuel2)%nat ->
      exists If, Ipv6ExtensionsSlice.walk fuel2 sl2 I nh fr = Ok (If, nhf, frf) /\ s_len If = 0.
Proof.
  induction fuel as [|f IH]; intros W nh fr Wf nhf frf H I fuel2 sl2 P Lsl2 Hf; [discriminate|].
  pose proof (walk_collect _ _ _ _ _ _ _ _ H) as (LWf & _ & _).
  pose proof (pre_len _ _ _ P) as LI.
  destruct fuel2 as [|f2]; [lia|].
  cbn [Ipv6ExtensionsSlice.walk] in H |- *.
  destruct (nh =? IPN_HOP_BY_HOP) eqn:E0; [discriminate|].
  (* the common tail of the three continuing arms, after the header slicer *)
  assert (Tail : forall sl W' nx fr',
            8 <= s_len sl -> s_len sl <= s_len W ->
            subU W (s_len sl) (s_len W - s_len sl) = Ok W' ->
            Ipv6ExtensionsSlice.walk f sl0 W' nx fr' = Ok (Wf, nhf, frf) ->
            s_len sl <= s_len W - s_len Wf /\
            exists I', subU I (s_len sl) (s_len I - s_len sl) = Ok I' /\
              exists If, Ipv6ExtensionsSlice.walk f2 sl2 I' nx fr' = Ok (If, nhf, frf) /\ s_len If = 0).
  { intros sl W' nx fr' L8 Ll EW' HK.
    pose proof (walk_collect _ _ _ _ _ _ _ _ HK) as (LWf' & _ & _).
    pose proof (subU_inv _ _ _ _ EW') as (_ & LW' & _).
    set (u := s_len W - s_len Wf) in *.
    assert (Lu : s_len sl <= u) by lia. split; [exact Lu|].
    destruct (subU_ok I (s_len sl) (u - s_len sl)) as (I' & EI' & _ & _); [lia|].
    rewrite LI. exists I'. split; [exact EI'|].
    apply (IH _ _ _ _ _ _ HK I' f2 sl2).
    - replace (s_len W' - s_len Wf) with (u - s_len sl) by lia.
      exact (pre_rest u I W (s_len sl) I' W' P Lu EI' EW').
    - lia.
    - lia. }
  rewrite LI. rewrite (subN_ok sl2 (s_len W - s_len Wf)) by lia.
  destruct ((nh =? IPN_DEST_OPTIONS) || (nh =? IPN_ROUTE)) eqn:Eraw.
  { binv H off Eoff. binv H sl Esl. apply map_len_err_inv in Esl.
    destruct (raw_inv _ _ Esl) as (b & E1 & Hsl & Ll). pose proof (subU_inv _ _ _ _ Hsl) as (_ & Lsl & _).
    binv H n En. apply subN_inv in En. destruct En as (Ln & ->). binv H W' EW'. binv H nx Enx.
    destruct (Tail sl W' nx fr) as (Lu & I' & EI' & If & EIf & Z); auto; try lia.
    cbn [bind]. rewrite (raw_trunc _ I W sl P Esl Lu). cbn [map_len_err bind].
    rewrite LI in EI'. rewrite subN_ok by lia. cbn [bind]. rewrite EI'. cbn [bind]. rewrite Enx. cbn [bind].
    exists If. auto. }
  destruct (nh =? IPN_FRAG) eqn:Efrag.
  { binv H off Eoff. binv H sl Esl. apply map_len_err_inv in Esl.
    destruct (frag_inv _ _ Esl) as (Hsl & Ll). pose proof (subU_inv _ _ _ _ Hsl) as (_ & Lsl & _).
    binv H n En. apply subN_inv in En. destruct En as (Ln & ->). binv H W' EW'. binv H nx Enx.
    binv H fr2 Efr.
    destruct (Tail sl W' nx (fr || fr2)) as (Lu & I' & EI' & If & EIf & Z); auto; try lia.
    cbn [bind]. rewrite (frag_trunc _ I W sl P Esl Lu). cbn [map_len_err bind].
    rewrite LI in EI'. rewrite subN_ok by lia. cbn [bind]. rewrite EI'. cbn [bind]. rewrite Enx. cbn [bind].
    rewrite Efr. cbn [bind]. exists If. auto. }
  destruct (nh =? IPN_AUTH) eqn:Eauth.
  { binv H off Eoff. binv H sl Esl.
    assert (Esl' : IpAuthHeaderSlice.from_slice W = Ok sl).
    { destruct (IpAuthHeaderSlice.from_slice W) as [a|[e|c]|b]; try discriminate; exact Esl. }
    destruct (ah_inv _ _ Esl') as (p & E1 & P1 & Hsl & Ll). pose proof (subU_inv _ _ _ _ Hsl) as (_ & Lsl & _).
    binv H n En. apply subN_inv in En. destruct En as (Ln & ->). binv H W' EW'. binv H nx Enx.
    destruct (Tail sl W' nx fr) as (Lu & I' & EI' & If & EIf & Z); auto; try lia.
    cbn [bind]. rewrite (ah_trunc _ I W sl P Esl' Lu). cbn [bind].
    rewrite LI in EI'. rewrite subN_ok by lia. cbn [bind]. rewrite EI'. cbn [bind]. rewrite Enx. cbn [bind].
    exists If. auto. }
  (* end of the chain: nothing was consumed, the prefix is empty *)
  injection H as <- <- <-. exists I. split; [reflexivity|]. rewrite LI. lia.
Qed.

(* rewrite with an equation about the walk up to the spelling of `bytes` / `list N` *)
Ltac rw_walk E :=
  match type of E with
  | _ = ?r =>
      match goal with
      | |- context [Ipv6ExtensionsSlice.walk ?a ?b ?c ?d ?e] =>
          replace (Ipv6ExtensionsSlice.walk a b c d e) with r by (symmetry; exact E)
      end
  end.

Lemma exts_trunc nh s x nx rest :
  Ipv6ExtensionsSlice.from_slice nh s = Ok (x, nx, rest) ->
  exists x' rest', Ipv6ExtensionsSlice.from_slice nh (x6_slice x) = Ok (x', nx, rest').
Proof.
  unfold Ipv6ExtensionsSlice.from_slice at 1. intros H.
  binv H st Est. destruct st as (rest0, nh0).
  binv H w Ew. destruct w as ((restf, nxf), frf).
  binv H used Eu. apply subN_inv in Eu. destruct Eu as (Lr & ->).
  binv H sl Esl.
  destruct (s_len s - s_len restf <=? s_len s) eqn:Eus; [|discriminate]. injection Esl as <-.
  injection H as <- <- <-. cbn [x6_slice].
  set (used := s_len s - s_len restf) in *.
  set (I := (fst s, take used (snd s))).
  assert (PI : pre used I s) by (apply pre_take; lia).
  assert (LI : s_len I = used) by (now apply pre_len in PI).
  assert (Fin : forall If, s_len If = 0 ->
            exists x' rest',
              (let* used' := subN (s_len I) (s_len If) in
               let* sl := (if used' <=? s_len I then Ok (fst I, take used' (snd I)) else Bug SITE_INDEX) in
               Ok (mkIpv6Exts (if negb (s_len If =? s_len I) then Some nh else None) frf sl, nxf, If))
              = Ok (x', nxf, rest')).
  { intros If Z. rewrite Z. rewrite subN_ok by lia. cbn [bind]. rewrite N.sub_0_r, N.leb_refl. cbn [bind].
    eexists _, _. reflexivity. }
  unfold Ipv6ExtensionsSlice.from_slice.
  destruct (IPN_HOP_BY_HOP =? nh) eqn:Ehbh.
  - binv Est sl0 Esl0. binv Est r0 Er0. binv Est n0 En0. injection Est as <- <-.
    destruct (s_len sl0 <=? s_len s) eqn:El0; [|discriminate]. injection Er0 as <-.
    destruct (raw_inv _ _ Esl0) as (b & E1 & Hsl0 & Ll0).
    pose proof (subU_inv _ _ _ _ Hsl0) as (_ & Lsl0 & _).
    set (l0 := s_len sl0) in *.
    assert (HW' : subU s l0 (s_len s - l0) = Ok (fst s + l0, drop l0 (snd s))) by (apply drop_as_sub; lia).
    set (W' := (fst s + l0, drop l0 (snd s))) in *.
    pose proof (subU_inv _ _ _ _ HW') as (_ & LW' & _).
    pose proof (walk_collect _ _ _ _ _ _ _ _ Ew) as (A1 & _ & _).
    assert (Lu : l0 <= used) by (subst used; lia).
    rewrite (raw_trunc used I s sl0 PI Esl0 Lu). cbn [bind]. fold l0. rewrite LI.
    destruct (l0 <=? used) eqn:El1; [|lia]. cbn [bind]. rewrite En0. cbn [bind].
    assert (HI' : subU I l0 (used - l0) = Ok (fst I + l0, drop l0 (snd I))).
    { rewrite <- LI. apply drop_as_sub. lia. }
    pose proof (pre_rest used I s l0 _ W' PI Lu HI' HW') as P'.
    replace (used - l0) with (s_len W' - s_len restf) in P' by (subst used; lia).
    destruct (walk_trunc _ _ _ _ _ _ _ _ Ew (fst I + l0, drop l0 (snd I)) (S (length (snd I))) used P')
      as (If & EIf & Z); [subst used; lia|rewrite s_len_length, LI; subst used; lia|].
    rw_walk EIf. cbn [bind]. rewrite <- LI. apply Fin. exact Z.
  - injection Est as <- <-. cbn [bind].
    destruct (walk_trunc _ _ _ _ _ _ _ _ Ew I (S (length (snd I))) (s_len I) PI)
      as (If & EIf & Z); [lia|rewrite s_len_length, LI; lia|].
    rw_walk EIf. cbn [bind]. apply Fin. exact Z.
Qed.

(* ---- the struct decoder accepts what the slice walker accepts ------------------------------- *)
Lemma struct_exts_ok nh I x' nx rest' :
  bytes_ok (snd I) -> Ipv6ExtensionsSlice.from_slice nh I = Ok (x', nx, rest') ->
  exists r, HdrModel.Ipv6Extensions.from_slice nh I = Ok r.
Proof.
  intros Hok H.
  pose proof (HdrProofs2.exts_agree nh I Hok) as R.
  pose proof (HdrProofs.dich_exts nh I) as D. rewrite HdrProofs.cut_false_exts, H in D.
  unfold HdrProofs2.exts_rel in R.
  destruct D as [E|[(v & E & _)|(b & E)]]; rewrite E in R.
  - destruct (HdrModel.Ipv6Extensions.from_slice nh I) as [r|e|b]; [eauto|contradiction|contradiction].
  - destruct (HdrModel.Ipv6Extensions.from_slice nh I) as [r|e|b]; [eauto| |];
      destruct v as ((xs, n2), r2); contradiction.
  - destruct (HdrModel.Ipv6Extensions.from_slice nh I) as [[[xx nn] rr]|e|b']; contradiction.
Qed.

(* ---- what Ipv6Slice::from_slice / IpSlice::from_slice store ----------------------------------- *)
Lemma ipv6_finish_exts s header v :
  Ipv6Slice.finish s header = Ok v ->
  v6_header v = header /\
  exists nh hp pn payload,
    rdU header 6 = Ok nh /\ sub_of hp s /\
    Ipv6ExtensionsSlice.from_slice nh hp = Ok (v6_exts v, pn, payload).
Proof.
  unfold Ipv6Slice.finish. intros H. binv H pl Epl. binv H hp Ehp. destruct hp as (hp, src).
  assert (Shp : sub_of hp s).
  { destruct ((0 =? pl) && (40 <? s_len s)).
    - binv Ehp n En. binv Ehp p Ep. injection Ehp as <- <-. now exists 40, n.
    - destruct (s_len s <? 40 + pl); unfold lerr in Ehp; [discriminate|].
      binv Ehp p Ep. injection Ehp as <- <-. now exists 40, pl. }
  binv H nh Enh. binv H x Ex. destruct x as ((exts, pn), payload). injection H as <-. cbn.
  assert (Ex' : Ipv6ExtensionsSlice.from_slice nh hp = Ok (exts, pn, payload)).
  { destruct (Ipv6ExtensionsSlice.from_slice nh hp) as [a|[e|c]|b]; try discriminate; exact Ex. }
  split; [reflexivity|]. exists nh, hp, pn, payload. auto.
Qed.

Definition from_strict (s : slice) (i : ip_slice) : Prop :=
  IpSlice.from_slice s = Ok i \/
  (exists v, Ipv4Slice.from_slice s = Ok v /\ i = IpV4 v) \/
  (exists v, Ipv6Slice.from_slice s = Ok v /\ i = IpV6 v).

Lemma from_strict_v6 s v :
  from_strict s (IpV6 v) -> exists header, wf_ipv6h header /\ Ipv6Slice.finish s header = Ok v.
Proof.
  intros [H|[(v' & H & E)|(v' & H & E)]]; [|discriminate|].
  - unfold IpSlice.from_slice in H. destruct (s_len s =? 0); unfold lerr in H; [discriminate|].
    binv H fb Efb. destruct (N.shiftr fb 4 =? 4).
    + destruct (N.land fb 15 <? 5); [discriminate|]. destruct (s_len s <? N.land fb 15 * 4); [discriminate|].
      binv H header Eh. binv H total Et.
      destruct (total <? N.land fb 15 * 4); [discriminate|]. destruct (s_len s <? total); [discriminate|].
      binv H n En. binv H hp Ehp. binv H v4 Ev. discriminate.
    + destruct (N.shiftr fb 4 =? 6); [|discriminate]. destruct (s_len s <? 40); [discriminate|].
      binv H header Eh. binv H v6 Ev. injection H as <-.
      exists header. split; [|exact Ev]. now pose proof (subU_inv _ _ _ _ Eh) as (_ & Lh & _).
  - injection E as <-. unfold Ipv6Slice.from_slice in H. binv H header Eh.
    apply ipv6h_wf in Eh. destruct Eh as (Wh & _). eauto.
Qed.

Lemma from_strict_v4 s v : from_strict s (IpV4 v) -> wf_ipv4 v /\ ipv4_in v s.
Proof.
  intros [H|[(v' & H & E)|(v' & H & E)]]; [|injection E as <-; now apply ipv4_wf|discriminate].
  exact (ip_wf _ _ H).
Qed.

Lemma ipv4h_to_header_okr h : wf_ipv4h h -> okr (Ipv4HeaderA.to_header h).
Proof.
  intros (L1 & L2). unf_ipv4h. oksteps.
  destruct (ipv4h_to_header_options_ok w) as (o & ->); [lia|]. eexists; reflexivity.
Qed.

Lemma ah_to_header_okr h : wf_ah h -> bytes_ok (snd h) -> okr (IpAuthHeaderA.to_header h).
Proof.
  intros (p & E1 & P1 & L) Hok. pose proof (rdU_byte h 1 p Hok E1) as B.
  unf_ah. oksteps.
  unfold IpAuthHeaderA.header_new, IpAuthHeaderA.MAX_ICV_LEN.
  assert (Lw : s_len w = (p - 1) * 4) by lia. rewrite Lw.
  destruct (1016 <? (p - 1) * 4) eqn:C1; [lia|].
  rewrite N.mod_mul by discriminate. rewrite N.eqb_refl. cbn [negb]. eexists; reflexivity.
Qed.

(* the `expect` of the IPv6 arm *)
Theorem v6_exts_to_header_ok s v :
  from_strict s (IpV6 v) -> bytes_ok (snd s) ->
  exists x, IpSliceToHeaderA.v6_exts_to_header v = Ok x.
Proof.
  intros F Hok. destruct (from_strict_v6 s v F) as (header & Wh & Hf).
  destruct (ipv6_finish_exts _ _ _ Hf) as (Eh & nh & hp & pn & payload & Enh & Shp & Ex).
  unfold IpSliceToHeaderA.v6_exts_to_header, Ipv6HeaderA.next_header. rewrite Eh, Enh. cbn [bind].
  destruct (exts_trunc _ _ _ _ _ Ex) as (x' & rest' & Et).
  pose proof (exts_good_from_slice _ _ _ _ _ Ex) as (_ & Sx & _).
  assert (HokI : bytes_ok (snd (x6_slice (v6_exts v)))).
  { eapply sub_of_bytes_ok; [exact Sx|]. eapply sub_of_bytes_ok; eauto. }
  destruct (struct_exts_ok _ _ _ _ _ HokI Et) as (((xx & nn) & rr) & ->). eauto.
Qed.

(* IpSlice::to_header returns normally for every strict IP slice *)
Theorem ip_slice_to_header_ok s i :
  from_strict s i -> bytes_ok (snd s) -> IpSliceToHeaderA.to_header i = Ok tt.
Proof.
  intros F Hok. destruct i as [v|v]; cbn [IpSliceToHeaderA.to_header].
  - destruct (from_strict_v4 s v F) as ((Wh & Wa) & _ & Sa & _).
    destruct (ipv4h_to_header_okr _ Wh) as (x & ->). cbn [bind].
    destruct (v4_auth v) as [a|]; [|reflexivity].
    destruct (ah_to_header_okr a Wa) as (y & ->); [eapply sub_of_bytes_ok; eauto|]. reflexivity.
  - destruct (from_strict_v6 s v F) as (header & Wh & Hf).
    destruct (ipv6_finish_exts _ _ _ Hf) as (Eh & _). rewrite Eh.
    assert (okr (Ipv6HeaderA.to_header header)) as (x & ->).
    { unfold wf_ipv6h in Wh. unf_ipv6h. oksolve. }
    cbn [bind]. destruct (v6_exts_to_header_ok s v F Hok) as (y & ->). reflexivity.
Qed.
