(* Parse/LaxWire2.v -- `pwire2_*`: the STRICT reference decoder of WireSpec.v, instrumented more
   finely than `pwire_*` (LaxWire.v).  `pwire_*` hands back, when it rejects, the layers decoded
   in front of the fault with LAYER granularity: a fault inside the network layer (IPv4
   authentication header, IPv6 extension header chain, IPv4 total length / IPv6 payload length
   larger than the data) yields a prefix WITHOUT the network layer.  `pwire2_*` closes that:

     P2RejNet p n tag e   the fault e is an authentication / extension header behind a good IP
                          header.  p = the layers in front of the network layer, n = the network
                          layer as far as it decodes: IP header window; for IPv6 the extension
                          headers completely decoded in front of the faulty one (first next-header,
                          fragmentation flag so far, window of the extension headers up to the
                          faulty header); the payload descriptor = everything from the faulty
                          header to the end of what the IP length field allows, ip number = the
                          number that announced the faulty header.  tag = the kind of the faulty
                          header.
     P2Fb p e inc resumed the fault e is the IPv4 total length / IPv6 payload length check
                          (documented fallback of lax parsing).  resumed = the same strict decoder
                          continued with the data that is there (limit = end of the enclosing
                          data, length source Slice); inc = the length field promised more than
                          is there (false only for an IPv4 total length smaller than the header
                          length: the field is unusable and ignored).
     P2Rej p e            every other rejection (p = the layers in front of the fault, as pwire).

   `to_pres` forgets the extra information; LaxPrefixNet.v proves `to_pres (pwire2_X bs) =
   pwire_X bs`, hence (pwire_sound) `forget (to_pres (pwire2_X bs)) = wire_X bs`: pwire2 accepts /
   rejects exactly like the wire format specification, with the same error record.

   The extension chain walk `wire_chain2` is `wire_chain` of WireSpec.v reporting, when it rejects,
   where it stood (position and number of the faulty header, fragmentation flag so far) and which
   kind of header was faulty. *)
From EP Require Import Base.Bytes Parse.Types Parse.Slices Parse.Cursor Parse.View Parse.WireSpec
  Parse.LaxSlices Parse.LaxCursor Parse.LaxView Parse.LaxWire.

Local Open Scope N_scope.

Inductive pres2 :=
| P2Acc (p : vpacket)
| P2Rej (p : vpacket) (e : slice_error)
| P2RejNet (p : vpacket) (n : lvnet) (tag : layer) (e : slice_error)
| P2Fb (p : vpacket) (e : slice_error) (inc : bool) (resumed : pres2)
| P2Bug (site : N).

Definition to_pres (r : pres2) : pres :=
  match r with
  | P2Acc p => PAcc p
  | P2Rej p e | P2RejNet p _ _ e | P2Fb p e _ _ => PRej p e
  | P2Bug s => PBug s
  end.

(* the error of a rejection *)
Definition rej2 (r : pres2) : option slice_error :=
  match r with
  | P2Rej _ e | P2RejNet _ _ _ e | P2Fb _ e _ _ => Some e
  | _ => None
  end.

(* the rejection happened inside the network layer, behind a good IP header *)
Definition is_net_rej (r : pres2) : bool :=
  match r with P2RejNet _ _ _ _ | P2Fb _ _ _ _ => true | _ => false end.

(* a leaf step of WireSpec that rejects right here *)
Definition pres2_of (p : vpacket) (r : vres) : pres2 :=
  match r with VOk q => P2Acc q | VErr e => P2Rej p e | VBug s => P2Bug s end.
(* ... inside the network layer n, at a header of kind tag *)
Definition pres2_net (p : vpacket) (n : lvnet) (tag : layer) (r : vres) : pres2 :=
  match r with VOk q => P2Acc q | VErr e => P2RejNet p n tag e | VBug s => P2Bug s end.

(* the errors that name a place inside the network layer: authentication header, IPv6 extension
   headers, and the two length checks of the IP packet as a whole *)
Definition in_net_layer (e : slice_error) : bool :=
  match e with
  | ELen l =>
      match le_layer l with
      | LyIpAuthHeader | LyIpv6ExtHeader | LyIpv6FragHeader | LyIpv4Packet | LyIpv6Packet => true
      | _ => false
      end
  | EContent c =>
      match c with
      | CeAuthZeroPayloadLen | CeIpv6AuthZeroPayloadLen | CeHopByHopNotAtStart => true
      | _ => false
      end
  end.

Section PWire2.
  Variable bs : bytes.
  Local Notation B := (WireSpec.B bs).
  Local Notation W := (WireSpec.W bs).

  (* ---- IPv6 extension header chain (RFC 8200 section 4), reporting where it stops ---------- *)
  Inductive chain_res2 :=
  | Ch2Ok (end_pos next : N) (frag : bool)
  | Ch2Err (at_pos nh : N) (frag : bool) (tag : layer) (r : vres).

  Definition forget_ch2 (c : chain_res2) : chain_res :=
    match c with Ch2Ok e n f => ChOk e n f | Ch2Err _ _ _ _ r => ChErr r end.

  Fixpoint wire_chain2 (fuel : nat) (src : len_source) (pos lim : N) (nh : N) (frag : bool)
    : chain_res2 :=
    match fuel with
    | O => Ch2Err pos nh frag LyIpv6ExtHeader (VBug SITE_FUEL)
    | S f =>
        let a := lim - pos in
        if nh =? 0 then Ch2Err pos nh frag LyIpv6HopByHopHeader (bad CeHopByHopNotAtStart)
        else if (nh =? 60) || (nh =? 43) then
          let tag := if nh =? 60 then LyIpv6DestOptionsHeader else LyIpv6RouteHeader in
          if a <? 8 then Ch2Err pos nh frag tag (cut 8 a src LyIpv6ExtHeader pos)
          else
            let l := (B (pos + 1) + 1) * 8 in
            if a <? l then Ch2Err pos nh frag tag (cut l a src LyIpv6ExtHeader pos)
            else wire_chain2 f src (pos + l) lim (B pos) frag
        else if nh =? 44 then
          if a <? 8 then Ch2Err pos nh frag LyIpv6FragHeader (cut 8 a src LyIpv6FragHeader pos)
          else
            let fr := negb (B (pos + 3) mod 2 =? 0) || negb (W (pos + 2) / 8 =? 0) in
            wire_chain2 f src (pos + 8) lim (B pos) (frag || fr)
        else if nh =? 51 then
          match wire_ah bs CeIpv6AuthZeroPayloadLen src pos lim with
          | AhErr r => Ch2Err pos nh frag LyIpAuthHeader r
          | AhOk l next => wire_chain2 f src (pos + l) lim next frag
          end
        else Ch2Ok pos nh frag
    end.

  Definition wire_exts2 (fuel : nat) (src : len_source) (pos lim : N) (nh : N) : chain_res2 :=
    if nh =? 0 then
      let a := lim - pos in
      if a <? 8 then Ch2Err pos nh false LyIpv6HopByHopHeader (cut 8 a src LyIpv6ExtHeader pos)
      else
        let l := (B (pos + 1) + 1) * 8 in
        if a <? l then Ch2Err pos nh false LyIpv6HopByHopHeader (cut l a src LyIpv6ExtHeader pos)
        else wire_chain2 fuel src (pos + l) lim (B pos) false
    else wire_chain2 fuel src pos lim nh false.

  (* ---- IPv4 behind the length checks ------------------------------------------------------------
     esrc = source of the limit lim' (named by errors), psrc / inc = length source and incomplete
     flag of the payload descriptor.  Strict decoding: esrc = psrc = Ipv4HeaderTotalLen, inc = false,
     lim' = pos + total length.  Resumed decoding after the total length check failed: esrc = the
     source of the enclosing limit, psrc = Slice, lim' = the enclosing limit. *)
  Definition pwire2_ipv4_tail (p : vpacket) (esrc psrc : len_source) (inc : bool) (pos hl lim' : N)
    : pres2 :=
    let frag := ipv4_fragmented bs pos in
    let proto := B (pos + 9) in
    let hp := pos + hl in
    if proto =? 51 then
      match wire_ah bs CeAuthZeroPayloadLen esrc hp lim' with
      | AhErr r =>
          (* the authentication header is the first thing of the payload (protocol 51) *)
          pres2_net p (LVIpv4 (pos, hl) None (mkLVIp inc 51 frag psrc (hp, lim' - hp))) LyIpAuthHeader r
      | AhOk ahl next =>
          let ppos := hp + ahl in
          let q := with_net p (VIpv4 (pos, hl) (Some (hp, ahl)) (mkVIp next frag psrc (ppos, lim' - ppos))) in
          pres2_of q (wire_transport bs q next frag esrc ppos lim')
      end
    else
      let q := with_net p (VIpv4 (pos, hl) None (mkVIp proto frag psrc (hp, lim' - hp))) in
      pres2_of q (wire_transport bs q proto frag esrc hp lim').

  Definition pwire2_ipv4_body (p : vpacket) (src : len_source) (pos lim hl : N) : pres2 :=
    let a := lim - pos in
    let tl := W (pos + 2) in
    if tl <? hl then
      P2Fb p (ELen (mkLenError hl tl LsIpv4HeaderTotalLen LyIpv4Packet pos)) false
        (pwire2_ipv4_tail p src LsSlice false pos hl lim)
    else if a <? tl then
      P2Fb p (ELen (mkLenError tl a src LyIpv4Packet pos)) true
        (pwire2_ipv4_tail p src LsSlice true pos hl lim)
    else pwire2_ipv4_tail p LsIpv4HeaderTotalLen LsIpv4HeaderTotalLen false pos hl (pos + tl).

  Definition pwire2_ipv4 (p : vpacket) (src : len_source) (pos lim : N) : pres2 :=
    let a := lim - pos in
    if a <? 20 then P2Rej p (ELen (mkLenError 20 a src LyIpv4Header pos))
    else
      let version := B pos / 16 in
      let ihl := B pos mod 16 in
      if negb (version =? 4) then P2Rej p (EContent (CeIpv4Version version))
      else if ihl <? 5 then P2Rej p (EContent (CeIpv4Ihl ihl))
      else if a <? ihl * 4 then P2Rej p (ELen (mkLenError (ihl * 4) a src LyIpv4Header pos))
      else pwire2_ipv4_body p src pos lim (ihl * 4).

  (* ---- IPv6 behind the length checks ------------------------------------------------------------ *)
  Definition pwire2_ipv6_tail (p : vpacket) (esrc psrc : len_source) (inc : bool) (pos lim' : N)
    : pres2 :=
    let x0 := pos + 40 in
    match wire_exts2 (S (N.to_nat (lim' - x0))) esrc x0 lim' (B (pos + 6)) with
    | Ch2Err e nh frag tag r =>
        (* e = where the faulty header starts: the extension headers in front of it are
           [x0, e); the payload is everything from e on, announced as number nh *)
        pres2_net p
          (LVIpv6 (pos, 40) (if e =? x0 then None else Some (B (pos + 6))) frag (x0, e - x0)
                  (mkLVIp inc nh frag psrc (e, lim' - e)))
          tag r
    | Ch2Ok e next frag =>
        let q := with_net p (VIpv6 (pos, 40) (if e =? x0 then None else Some (B (pos + 6))) frag
                               (x0, e - x0) (mkVIp next frag psrc (e, lim' - e))) in
        pres2_of q (wire_transport bs q next frag esrc e lim')
    end.

  Definition pwire2_ipv6_body (p : vpacket) (src : len_source) (pos lim : N) : pres2 :=
    let a := lim - pos in
    let plen := W (pos + 4) in
    if (plen =? 0) && (40 <? a) then pwire2_ipv6_tail p src LsSlice false pos lim
    else if a <? 40 + plen then
      P2Fb p (ELen (mkLenError (40 + plen) a src LyIpv6Packet pos)) true
        (pwire2_ipv6_tail p src LsSlice true pos lim)
    else pwire2_ipv6_tail p LsIpv6HeaderPayloadLen LsIpv6HeaderPayloadLen false pos (pos + 40 + plen).

  Definition pwire2_ipv6 (p : vpacket) (src : len_source) (pos lim : N) : pres2 :=
    let a := lim - pos in
    if a <? 40 then P2Rej p (ELen (mkLenError 40 a src LyIpv6Header pos))
    else if negb (B pos / 16 =? 6) then P2Rej p (EContent (CeIpv6Version (B pos / 16)))
    else pwire2_ipv6_body p src pos lim.

  Definition pwire2_ip (p : vpacket) (src : len_source) (pos lim : N) : pres2 :=
    let a := lim - pos in
    if a =? 0 then P2Rej p (ELen (mkLenError 1 a src LyIpHeader pos))
    else if B pos / 16 =? 4 then
      let ihl := B pos mod 16 in
      if ihl <? 5 then P2Rej p (EContent (CeIpIhl ihl))
      else if a <? ihl * 4 then P2Rej p (ELen (mkLenError (ihl * 4) a src LyIpv4Header pos))
      else pwire2_ipv4_body p src pos lim (ihl * 4)
    else if B pos / 16 =? 6 then
      if a <? 40 then P2Rej p (ELen (mkLenError 40 a src LyIpv6Header pos))
      else pwire2_ipv6_body p src pos lim
    else P2Rej p (EContent (CeIpUnsupportedVersion (B pos / 16))).

  Definition pwire2_net (p : vpacket) (et : N) (src : len_source) (pos lim : N) : pres2 :=
    if et =? 2054 then pres2_of p (wire_arp bs p src pos lim)
    else if et =? 2048 then pwire2_ipv4 p src pos lim
    else if et =? 34525 then pwire2_ipv6 p src pos lim
    else P2Acc p.

  (* ---- link extensions (as pwire_ether) ------------------------------------------------------------ *)
  Fixpoint pwire2_ether (cap : nat) (p : vpacket) (et : N) (src : len_source) (pos lim : N) : pres2 :=
    let a := lim - pos in
    if is_vlan et then
      match cap with
      | O => P2Acc p
      | S c =>
          if a <? 4 then P2Rej p (ELen (mkLenError 4 a src LyVlanHeader pos))
          else pwire2_ether c (with_ext p (VVlan (pos, a))) (W (pos + 2)) src (pos + 4) lim
      end
    else if et =? 35045 then
      match cap with
      | O => P2Acc p
      | S c =>
          if a <? 6 then P2Rej p (ELen (mkLenError 6 a src LyMacsecHeader pos))
          else
            let tci := B pos in
            let sl := B (pos + 1) mod 64 in
            let unmod := (tci / 4) mod 4 =? 0 in
            let sc := negb ((tci / 32) mod 2 =? 0) in
            if 128 <=? tci then P2Rej p (EContent CeMacsecVersion)
            else if unmod && (sl =? 1) then P2Rej p (EContent CeMacsecUnmodifiedShortLen)
            else
              let hl := 6 + (if unmod then 2 else 0) + (if sc then 8 else 0) in
              if a <? hl then P2Rej p (ELen (mkLenError hl a src LyMacsecHeader pos))
              else
                let body := if unmod then sl - 2 else sl in
                if (0 <? sl) && (a <? hl + body) then
                  P2Rej p (ELen (mkLenError (hl + body) a src LyMacsecPacket pos))
                else
                  let lim' := if 0 <? sl then pos + hl + body else lim in
                  let psrc := if 0 <? sl then LsMacsecShortLength else LsSlice in
                  let src' := if 0 <? sl then LsMacsecShortLength else src in
                  if unmod then
                    let et' := W (pos + hl - 2) in
                    pwire2_ether c
                      (with_ext p (VMacsec (pos, hl)
                         (VMpUnmodified (mkVEp et' psrc (pos + hl, lim' - (pos + hl))))))
                      et' src' (pos + hl) lim'
                  else
                    P2Acc (with_ext p (VMacsec (pos, hl) (VMpModified (pos + hl, lim' - (pos + hl)))))
      end
    else pwire2_net p et src pos lim.

  (* ---- entry points ---------------------------------------------------------------------------------- *)
  Definition pwire2_ethernet : pres2 :=
    if n_bs bs <? 14 then
      P2Rej empty_packet (ELen (mkLenError 14 (n_bs bs) LsSlice LyEthernet2Header 0))
    else
      pwire2_ether 3 (mkVPacket (Some (VEthernet2 (0, n_bs bs))) [] None None)
        (W 12) LsSlice 14 (n_bs bs).

  Definition pwire2_ether_type (et : N) : pres2 :=
    pwire2_ether 3
      (mkVPacket (Some (VEtherPayload (mkVEp et LsSlice (0, n_bs bs)))) [] None None)
      et LsSlice 0 (n_bs bs).

  Definition pwire2_from_ip : pres2 := pwire2_ip empty_packet LsSlice 0 (n_bs bs).
End PWire2.

(* ==================================================================================== *)
(* ---- what the lax result must look like, given the verdict of pwire2 -------------------- *)
Definition net_flags (n : lvnet) : option (bool * len_source) :=
  match n with
  | LVIpv4 _ _ p | LVIpv6 _ _ _ _ p => Some (lvip_incomplete p, lvip_src p)
  | LVArp _ => None
  end.

(* a fault inside the network layer n at a header of kind tag: the network layer of the lax result
   is exactly n, the stop error is exactly (e, tag), no transport layer is decoded *)
Definition stopped_in_net (q : lvpacket) (n : lvnet) (tag : layer) (e : slice_error) : Prop :=
  lv_net q = Some n /\ lv_stop q = Some (e, tag) /\ lv_transport q = None.

Definition net_outcome (behind : slice_error -> lvpacket -> Prop) (pw : pres2) (q : lvpacket) : Prop :=
  match pw with
  | P2RejNet _ n tag e => stopped_in_net q n tag e
  | P2Fb _ _ inc resumed =>
      (* length fallback: the network layer is the one of the resumed strict decoding, flagged
         incomplete as `inc` says, length source Slice *)
      exists n, lv_net q = Some n /\ net_flags n = Some (inc, LsSlice) /\
        match resumed with
        | P2RejNet _ n' tag e' => n' = n /\ stopped_in_net q n tag e'
        | P2Acc q' => v_net q' = Some (strictify_net n)
        | P2Rej q' e' => v_net q' = Some (strictify_net n) /\ behind e' q
        | _ => False
        end
  | _ => True
  end.
