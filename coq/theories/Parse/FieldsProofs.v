(* Parse/FieldsProofs.v -- C03 field values: the accessor models of Parse/Access.v on
   the slices of a strict result return the RFC field at the layer's absolute
   position (Parse/Fields.v: fields_of_packet p = Ok (spec_fields bs (view p))). *)
From Coq Require Import ZArith Lia ZifyN ZifyBool.
From EP Require BitFields.Spec BitFields.Model BitFields.BitLemmas BitFields.Proofs2.
From EP Require Import Base.Bytes Parse.Types Parse.Slices Parse.Cursor Parse.View Parse.WireSpec
  Parse.Repr Parse.StrictProofs Parse.Access Parse.AccessProofs Parse.Fields.

Local Open Scope N_scope.

Local Notation bfield := BitFields.Spec.field.
Local Notation bits_of := BitFields.Spec.bits_of.

(* ---- windows of the buffer ---------------------------------------------------- *)
Lemma in_buf_repr bs s : in_buf bs s -> repr bs s (s_off s) (s_off s + s_len s).
Proof.
  intros (pos & lim & R). pose proof (repr_off _ _ _ _ R) as O. pose proof (repr_len _ _ _ _ R) as L.
  pose proof R as (_ & P1 & P2). rewrite O, L. replace (pos + (lim - pos)) with lim by lia. exact R.
Qed.

Lemma skipn_cons_nth {A} (l : list A) k d :
  (k < length l)%nat -> skipn k l = nth k l d :: skipn (S k) l.
Proof.
  revert k. induction l as [|x l IH]; intros k H; cbn [length] in H; [lia|].
  destruct k as [|k]; [reflexivity|]. cbn [skipn nth]. apply IH. lia.
Qed.

Lemma take_drop_bytes_at bs n : forall p,
  p + N.of_nat n <= len bs -> take (N.of_nat n) (drop p bs) = bytes_at bs p n.
Proof.
  unfold take, drop, len. rewrite Nnat.Nat2N.id.
  induction n as [|n IH]; intros p H; [reflexivity|].
  rewrite (skipn_cons_nth bs (N.to_nat p) 0) by lia. cbn [firstn bytes_at]. f_equal.
  specialize (IH (p + 1)). replace (N.to_nat (p + 1)) with (S (N.to_nat p)) in IH by lia.
  apply IH. lia.
Qed.

Lemma repr_snd bs s pos lim : repr bs s pos lim -> snd s = bytes_n bs pos (lim - pos).
Proof.
  intros (-> & P1 & P2). cbn [snd]. unfold bytes_n.
  rewrite <- take_drop_bytes_at by lia. now rewrite N2Nat.id.
Qed.

Lemma repr_rd_arr bs s pos lim n : forall i,
  repr bs s pos lim -> i + N.of_nat n <= lim - pos -> rd_arr s i n = Ok (bytes_at bs (pos + i) n).
Proof.
  induction n as [|n IH]; intros i R H; [reflexivity|].
  cbn [rd_arr bytes_at]. rewrite (repr_rdU _ _ _ _ i R) by lia. cbn [bind].
  rewrite (IH (i + 1) R) by lia. cbn [bind]. now rewrite N.add_assoc.
Qed.

Lemma be32_num a b c d : be32 a b c d = be_num [a; b; c; d].
Proof. unfold be32, be_num. cbn [fold_left]. lia. Qed.
Lemma be16_num a b : be16 a b = be_num [a; b].
Proof. unfold be16, be_num. cbn [fold_left]. lia. Qed.

Lemma repr_rd32 bs s pos lim i :
  repr bs s pos lim -> i + 3 < lim - pos -> rd32 s i = Ok (num_at bs (pos + i) 4).
Proof.
  intros R H. unfold rd32.
  rewrite (repr_rdU _ _ _ _ i R) by lia. cbn [bind].
  rewrite (repr_rdU _ _ _ _ (i + 1) R) by lia. cbn [bind].
  rewrite (repr_rdU _ _ _ _ (i + 2) R) by lia. cbn [bind].
  rewrite (repr_rdU _ _ _ _ (i + 3) R) by lia. cbn [bind].
  rewrite be32_num. unfold num_at. cbn [bytes_at]. do 4 f_equal.
  - f_equal. lia.
  - f_equal; [f_equal; lia|]. f_equal. f_equal. lia.
Qed.

(* the sub-slice [k, k+n) of a representing slice holds the buffer's octets *)
Lemma repr_subU_bytes bs s pos lim k n :
  repr bs s pos lim -> k + n <= lim - pos ->
  exists w, subU s k n = Ok w /\ snd w = bytes_n bs (pos + k) n.
Proof.
  intros R H. destruct (repr_subU bs s pos lim k n R H) as (w & E & Rw).
  exists w. split; [exact E|]. rewrite (repr_snd _ _ _ _ Rw). f_equal. lia.
Qed.

(* ---- reading through a representing slice ---------------------------------------- *)
Ltac rd_step R :=
  match goal with
  | |- context[rdU ?s ?i] => rewrite (repr_rdU _ s _ _ i R) by lia
  | |- context[rd16 ?s ?i] => rewrite (repr_rd16 _ s _ _ i R) by lia
  | |- context[rd32 ?s ?i] => rewrite (repr_rd32 _ s _ _ i R) by lia
  | |- context[rd_arr ?s ?i ?n] => rewrite (repr_rd_arr _ s _ _ n i R) by (cbn [N.of_nat Pos.of_succ_nat Pos.succ]; lia)
  end; cbn [bind].
Ltac reads R := repeat rd_step R.

(* closed numeral arithmetic in addresses *)
Ltac norm_addr :=
  rewrite ?N.add_0_r;
  repeat match goal with
  | |- context[?p + N.pos ?a + N.pos ?b] =>
      let v := eval vm_compute in (N.pos a + N.pos b) in
      replace (p + N.pos a + N.pos b) with (p + v) by lia
  end.

(* ---- bits ------------------------------------------------------------------------- *)
Lemma flag_of_b2n t f : BitFields.Spec.b2n t = f -> (f =? 1) = t.
Proof. intros <-. now destruct t. Qed.

Lemma bitset_nonzero b m : bitset b m = BitFields.Model.nonzero (N.land b m).
Proof. reflexivity. Qed.

(* complete octet sweeps for the shifts and masks C15 does not name *)
Definition byte_chk (b : N) : bool :=
  (N.shiftr b 4 =? bfield (bits_of [b]) 0 4) &&
  (N.land b 15 =? bfield (bits_of [b]) 4 4) &&
  (N.shiftr (N.land b 240) 4 =? bfield (bits_of [b]) 0 4) &&
  Bool.eqb (bitset b 128) (bfield (bits_of [b]) 0 1 =? 1) &&
  Bool.eqb (bitset b 64) (bfield (bits_of [b]) 1 1 =? 1) &&
  Bool.eqb (bitset b 32) (bfield (bits_of [b]) 2 1 =? 1) &&
  Bool.eqb (bitset b 16) (bfield (bits_of [b]) 3 1 =? 1) &&
  Bool.eqb (bitset b 8) (bfield (bits_of [b]) 4 1 =? 1) &&
  Bool.eqb (bitset b 4) (bfield (bits_of [b]) 5 1 =? 1) &&
  Bool.eqb (bitset b 2) (bfield (bits_of [b]) 6 1 =? 1) &&
  Bool.eqb (bitset b 1) (bfield (bits_of [b]) 7 1 =? 1) &&
  (N.land b 3 =? bfield (bits_of [b]) 6 2) &&
  (N.land b 63 =? bfield (bits_of [b]) 2 6).

Lemma byte_chk_all : forallb byte_chk (BitFields.BitLemmas.range 256) = true.
Proof. vm_compute. reflexivity. Qed.

Lemma byte_facts b : b < 256 ->
  N.shiftr b 4 = bfield (bits_of [b]) 0 4 /\
  N.land b 15 = bfield (bits_of [b]) 4 4 /\
  N.shiftr (N.land b 240) 4 = bfield (bits_of [b]) 0 4 /\
  bitset b 128 = (bfield (bits_of [b]) 0 1 =? 1) /\
  bitset b 64 = (bfield (bits_of [b]) 1 1 =? 1) /\
  bitset b 32 = (bfield (bits_of [b]) 2 1 =? 1) /\
  bitset b 16 = (bfield (bits_of [b]) 3 1 =? 1) /\
  bitset b 8 = (bfield (bits_of [b]) 4 1 =? 1) /\
  bitset b 4 = (bfield (bits_of [b]) 5 1 =? 1) /\
  bitset b 2 = (bfield (bits_of [b]) 6 1 =? 1) /\
  bitset b 1 = (bfield (bits_of [b]) 7 1 =? 1) /\
  N.land b 3 = bfield (bits_of [b]) 6 2 /\
  N.land b 63 = bfield (bits_of [b]) 2 6.
Proof.
  intros H. pose proof (BitFields.BitLemmas.sweep 256 byte_chk byte_chk_all b H) as C.
  unfold byte_chk in C.
  repeat match type of C with (_ && _) = true => apply andb_prop in C; destruct C as [C ?] end.
  repeat match goal with
         | X : (_ =? _) = true |- _ => apply N.eqb_eq in X
         | X : Bool.eqb _ _ = true |- _ => apply Bool.eqb_prop in X
         end.
  repeat split; assumption.
Qed.

(* RFC 8200 flow label: bits 12..31 of the first four octets *)
Lemma flow_bits b0 b1 b2 b3 : b2 < 256 -> b3 < 256 ->
  be32 0 (N.land b1 15) b2 b3 = bfield (bits_of [b0; b1; b2; b3]) 12 20.
Proof.
  intros H2 H3. unfold BitFields.Spec.bits_of. cbn [flat_map]. rewrite app_nil_r.
  change 8%nat with (4 + 4)%nat at 2. rewrite (BitFields.BitLemmas.nbits_split 4 4 b1).
  set (x := BitFields.Spec.nbits 8 b0 ++ BitFields.Spec.nbits 4 (b1 / 2 ^ N.of_nat 4)).
  set (m := BitFields.Spec.nbits 4 b1 ++ BitFields.Spec.nbits 8 b2 ++ BitFields.Spec.nbits 8 b3).
  pose proof (BitFields.BitLemmas.field_mid x m []) as F.
  assert (Lx : length x = 12%nat) by (unfold x; rewrite app_length, !BitFields.BitLemmas.nbits_length; reflexivity).
  assert (Lm : length m = 20%nat) by (unfold m; rewrite !app_length, !BitFields.BitLemmas.nbits_length; reflexivity).
  rewrite Lx, Lm, app_nil_r in F.
  replace (BitFields.Spec.nbits 8 b0 ++ (BitFields.Spec.nbits 4 (b1 / 2 ^ N.of_nat 4) ++ BitFields.Spec.nbits 4 b1) ++
           BitFields.Spec.nbits 8 b2 ++ BitFields.Spec.nbits 8 b3) with (x ++ m)
    by (unfold x, m; now rewrite <- !app_assoc).
  rewrite F. unfold m. rewrite !BitFields.BitLemmas.bits_val_app, !BitFields.BitLemmas.bits_val_nbits.
  rewrite !app_length, !BitFields.BitLemmas.nbits_length.
  change (N.land b1 15) with (N.land b1 (N.ones 4)). rewrite N.land_ones.
  change (2 ^ N.of_nat 4) with 16. change (2 ^ N.of_nat 8) with 256. change (2 ^ N.of_nat (8 + 8)) with 65536.
  rewrite (N.mod_small b2 256), (N.mod_small b3 256) by assumption.
  unfold be32. lia.
Qed.

Section Link.
  Variable bs : bytes.
  Hypothesis Hok : bytes_ok bs.

  Lemma eth_fields_ok s : in_buf bs s -> 14 <= s_len s -> eth_fields s = Ok (eth_spec bs (s_off s)).
  Proof.
    intros I L. pose proof (in_buf_repr _ _ I) as R.
    unfold eth_fields, Ethernet2A.destination, Ethernet2A.source, Ethernet2A.ether_type. cbn [e2_slice].
    reads R. unfold eth_spec, num_at. now rewrite N.add_0_r.
  Qed.

  Lemma vlan_fields_ok s : in_buf bs s -> 4 <= s_len s -> vlan_fields s = Ok (vlan_spec bs (s_off s)).
  Proof.
    intros I L. pose proof (in_buf_repr _ _ I) as R.
    unfold vlan_fields, SingleVlanA.priority_code_point, SingleVlanA.drop_eligible_indicator,
      SingleVlanA.vlan_identifier, SingleVlanA.ether_type.
    reads R. rewrite !N.add_0_r. unfold vlan_spec, flag, bits. cbn [bytes_at].
    set (a := B bs (s_off s)). set (b := B bs (s_off s + 1)).
    destruct (BitFields.Proofs2.raw_fields_tci a b (B_lt _ _ Hok) (B_lt _ _ Hok)) as (E1 & E2 & E3).
    rewrite <- E1, <- E3, (flag_of_b2n _ _ E2). reflexivity.
  Qed.

  Lemma udp_fields_ok s : in_buf bs s -> 8 <= s_len s -> udp_fields s = Ok (udp_spec bs (s_off s)).
  Proof.
    intros I L. pose proof (in_buf_repr _ _ I) as R.
    unfold udp_fields, UdpA.source_port, UdpA.destination_port, UdpA.length, UdpA.checksum.
    reads R. unfold udp_spec. now rewrite N.add_0_r.
  Qed.

  Lemma ipv4_fields_ok h :
    in_buf bs h -> 20 <= s_len h ->
    ipv4_fields h = Ok (ipv4_spec bs (s_off h) (s_len h)).
  Proof.
    intros I L. pose proof (in_buf_repr _ _ I) as R.
    unfold ipv4_fields, Ipv4HeaderA.version, Ipv4HeaderA.ihl, Ipv4HeaderA.dcp, Ipv4HeaderA.ecn,
      Ipv4HeaderA.total_len, Ipv4HeaderA.identification, Ipv4HeaderA.dont_fragment,
      Ipv4HeaderA.more_fragments, Ipv4HeaderA.fragments_offset, Ipv4HeaderA.ttl, Ipv4HeaderA.protocol,
      Ipv4HeaderA.header_checksum, Ipv4HeaderA.source, Ipv4HeaderA.destination, Ipv4HeaderA.options.
    reads R. rewrite subN_ok by lia. cbn [bind].
    destruct (repr_subU_bytes bs h _ _ 20 (s_len h - 20) R) as (w & Ew & Sw); [lia|].
    rewrite Ew. cbn [bind]. rewrite Sw, !N.add_0_r.
    unfold ipv4_spec, flag, bits, num_at. cbn [bytes_at].
    set (p := s_off h).
    destruct (byte_facts (B bs p) (B_lt _ _ Hok)) as (E1 & E2 & _).
    destruct (BitFields.Proofs2.raw_fields_ipv4_1 (B bs (p + 1)) (B_lt _ _ Hok)) as (E3 & E4).
    destruct (BitFields.Proofs2.raw_fields_ipv4_67 (B bs (p + 6)) (B bs (p + 6 + 1))
                (B_lt _ _ Hok) (B_lt _ _ Hok)) as (E5 & E6 & E7).
    rewrite <- E1, <- E2, <- E3, <- E4, <- E7.
    rewrite !bitset_nonzero, <- (flag_of_b2n _ _ E5), <- (flag_of_b2n _ _ E6).
    replace (p + 6 + 1) with (p + 7) by lia. reflexivity.
  Qed.

  Lemma tcp_fields_ok hl s :
    in_buf bs s -> 20 <= hl -> hl <= s_len s ->
    tcp_fields (hl, s) = Ok (tcp_spec bs (s_off s) hl).
  Proof.
    intros I L1 L2. pose proof (in_buf_repr _ _ I) as R.
    unfold tcp_fields, TcpFieldsA.source_port, TcpFieldsA.destination_port, TcpFieldsA.sequence_number,
      TcpFieldsA.acknowledgment_number, TcpFieldsA.data_offset, TcpFieldsA.ns, TcpFieldsA.cwr,
      TcpFieldsA.ece, TcpFieldsA.urg, TcpFieldsA.ack, TcpFieldsA.psh, TcpFieldsA.rst, TcpFieldsA.syn,
      TcpFieldsA.fin, TcpFieldsA.window_size, TcpFieldsA.checksum, TcpFieldsA.urgent_pointer,
      TcpSliceA.options.
    cbn [fst snd]. reads R.
    rewrite idx_range_subU by lia.
    destruct (repr_subU_bytes bs s _ _ 20 (hl - 20) R) as (w & Ew & Sw); [lia|].
    rewrite Ew. cbn [bind]. rewrite Sw, !N.add_0_r.
    unfold tcp_spec, flag, bits, W. cbn [bytes_at].
    set (p := s_off s).
    destruct (byte_facts (B bs (p + 12)) (B_lt _ _ Hok)) as (_ & _ & E3 & _ & _ & _ & _ & _ & _ & _ & E11 & _).
    destruct (byte_facts (B bs (p + 13)) (B_lt _ _ Hok))
      as (_ & _ & _ & F0 & F1 & F2 & F3 & F4 & F5 & F6 & F7 & _).
    rewrite E3, E11, F0, F1, F2, F3, F4, F5, F6, F7. unfold be16.
    replace (p + 14 + 1) with (p + 15) by lia.
    replace (p + 16 + 1) with (p + 17) by lia.
    replace (p + 18 + 1) with (p + 19) by lia. reflexivity.
  Qed.

  Lemma icmp4_fields_ok s : in_buf bs s -> 8 <= s_len s -> icmp4_fields s = Ok (icmp_spec bs (s_off s)).
  Proof.
    intros I L. pose proof (in_buf_repr _ _ I) as R.
    unfold icmp4_fields, Icmpv4A.type_u8, Icmpv4A.code_u8, Icmpv4A.checksum, Icmpv4A.bytes5to8.
    reads R. rewrite !N.add_0_r. unfold icmp_spec. cbn [bytes_at]. set (p := s_off s).
    replace (p + 4 + 1) with (p + 5) by lia. replace (p + 5 + 1) with (p + 6) by lia.
    replace (p + 6 + 1) with (p + 7) by lia. reflexivity.
  Qed.

  Lemma icmp6_fields_ok s : in_buf bs s -> 8 <= s_len s -> icmp6_fields s = Ok (icmp_spec bs (s_off s)).
  Proof.
    intros I L. pose proof (in_buf_repr _ _ I) as R.
    unfold icmp6_fields, Icmpv6A.type_u8, Icmpv6A.code_u8, Icmpv6A.checksum, Icmpv6A.bytes5to8.
    reads R. rewrite !N.add_0_r. unfold icmp_spec. cbn [bytes_at]. set (p := s_off s).
    replace (p + 4 + 1) with (p + 5) by lia. replace (p + 5 + 1) with (p + 6) by lia.
    replace (p + 6 + 1) with (p + 7) by lia. reflexivity.
  Qed.

  Lemma ipv6_fields_ok h : in_buf bs h -> s_len h = 40 -> ipv6_fields h = Ok (ipv6_spec bs (s_off h)).
  Proof.
    intros I L. pose proof (in_buf_repr _ _ I) as R.
    unfold ipv6_fields, Ipv6HeaderA.version, Ipv6HeaderA.traffic_class, Ipv6HeaderA.flow_label,
      Ipv6HeaderA.payload_length, Ipv6HeaderA.next_header, Ipv6HeaderA.hop_limit, Ipv6HeaderA.source,
      Ipv6HeaderA.destination.
    reads R. rewrite !N.add_0_r.
    unfold ipv6_spec, bits. cbn [bytes_at]. set (p := s_off h).
    destruct (byte_facts (B bs p) (B_lt _ _ Hok)) as (E1 & _).
    destruct (BitFields.Proofs2.raw_fields_ipv6_01 (B bs p) (B bs (p + 1)) (B_lt _ _ Hok) (B_lt _ _ Hok))
      as (E2 & _).
    unfold BitFields.Model.shl8 in E2.
    rewrite E1, E2.
    rewrite (flow_bits (B bs p) (B bs (p + 1)) (B bs (p + 2)) (B bs (p + 3)) (B_lt _ _ Hok) (B_lt _ _ Hok)).
    replace (p + 1 + 1) with (p + 2) by lia. replace (p + 2 + 1) with (p + 3) by lia. reflexivity.
  Qed.

  Lemma frag_fields_ok h : in_buf bs h -> s_len h = 8 -> frag_fields h = Ok (frag_spec bs (s_off h)).
  Proof.
    intros I L. pose proof (in_buf_repr _ _ I) as R.
    unfold frag_fields, Ipv6FragmentHeaderA.next_header, Ipv6FragmentHeaderA.fragment_offset,
      Ipv6FragmentHeaderA.more_fragments, Ipv6FragmentHeaderA.identification.
    reads R. rewrite !N.add_0_r. unfold frag_spec, flag, bits. cbn [bytes_at]. set (p := s_off h).
    destruct (BitFields.Proofs2.raw_fields_frag (B bs (p + 2)) (B bs (p + 2 + 1)) (B_lt _ _ Hok) (B_lt _ _ Hok))
      as (E1 & E2).
    replace (p + 3) with (p + 2 + 1) by lia.
    rewrite bitset_nonzero, <- (flag_of_b2n _ _ E2), <- E1. reflexivity.
  Qed.

  (* authentication header: wf_ah = what from_slice established *)
  Lemma ah_fields_ok h : in_buf bs h -> wf_ah h -> ah_fields h = Ok (ah_spec bs (s_off h) (s_len h)).
  Proof.
    intros I (q & Eq & Q1 & L). pose proof (in_buf_repr _ _ I) as R.
    assert (Eq' : q = B bs (s_off h + 1)).
    { rewrite (repr_rdU _ _ _ _ 1 R) in Eq by lia. now injection Eq as <-. }
    pose proof (B_lt bs (s_off h + 1) Hok) as Hq. rewrite <- Eq' in Hq.
    unfold ah_fields, IpAuthHeaderA.to_header, IpAuthHeaderA.next_header, IpAuthHeaderA.spi,
      IpAuthHeaderA.sequence_number, IpAuthHeaderA.raw_icv, idx_from.
    reads R. rewrite idx_range_subU by lia.
    destruct (repr_subU bs h _ _ 12 (s_len h - 12) R) as (w & Ew & Rw); [lia|].
    rewrite Ew. cbn [bind].
    pose proof (repr_len _ _ _ _ Rw) as Lw. pose proof (repr_snd _ _ _ _ Rw) as Sw.
    unfold IpAuthHeaderA.header_new, IpAuthHeaderA.MAX_ICV_LEN.
    assert (Lw' : s_len w = (q - 1) * 4) by lia. rewrite Lw'.
    destruct (1016 <? (q - 1) * 4) eqn:C1; [lia|].
    rewrite N.mod_mul by discriminate. rewrite N.eqb_refl. cbn [negb].
    rewrite N.div_mul by discriminate. rewrite (N.mod_small (q - 1) 256) by lia.
    cbn [bind]. rewrite Sw. rewrite !N.add_0_r. unfold ah_spec.
    replace (q - 1 + 1) with q by lia. rewrite Eq'.
    replace (s_off h + 12 + (s_len h - 12) - (s_off h + 12)) with (s_len h - 12) by lia.
    reflexivity.
  Qed.

  Lemma raw_ext_fields_ok h :
    in_buf bs h -> wf_raw h -> raw_ext_fields h = Ok (raw_ext_spec bs (s_off h) (s_len h)).
  Proof.
    intros I (q & Eq & L). pose proof (in_buf_repr _ _ I) as R.
    assert (Eq' : q = B bs (s_off h + 1)).
    { rewrite (repr_rdU _ _ _ _ 1 R) in Eq by lia. now injection Eq as <-. }
    pose proof (B_lt bs (s_off h + 1) Hok) as Hq. rewrite <- Eq' in Hq.
    unfold raw_ext_fields, Ipv6RawExtHeaderA.to_header, Ipv6RawExtHeaderA.next_header,
      Ipv6RawExtHeaderA.payload.
    reads R. rewrite subN_ok by lia. cbn [bind].
    destruct (repr_subU bs h _ _ 2 (s_len h - 2) R) as (w & Ew & Rw); [lia|].
    rewrite Ew. cbn [bind].
    pose proof (repr_len _ _ _ _ Rw) as Lw. pose proof (repr_snd _ _ _ _ Rw) as Sw.
    unfold Ipv6RawExtHeaderA.new_raw, Ipv6RawExtHeaderA.MIN_PAYLOAD_LEN, Ipv6RawExtHeaderA.MAX_PAYLOAD_LEN.
    assert (Lw' : s_len w = q * 8 + 6) by lia. rewrite Lw'.
    destruct (q * 8 + 6 <? 6) eqn:C1; [lia|]. destruct (2046 <? q * 8 + 6) eqn:C2; [lia|].
    replace (q * 8 + 6 + 2) with ((q + 1) * 8) by lia.
    rewrite N.mod_mul by discriminate. rewrite N.eqb_refl. cbn [negb].
    replace (q * 8 + 6 - 6) with (q * 8) by lia.
    rewrite N.div_mul by discriminate. rewrite (N.mod_small q 256) by lia.
    cbn [bind]. rewrite Sw, !N.add_0_r. unfold raw_ext_spec. rewrite Eq'.
    replace (s_off h + 2 + (s_len h - 2) - (s_off h + 2)) with (s_len h - 2) by lia.
    reflexivity.
  Qed.

  Lemma macsec_fields_ok h :
    in_buf bs h -> wf_macsech h -> macsec_fields h = Ok (macsec_spec bs (s_off h)).
  Proof.
    intros I (t & Et & L). pose proof (in_buf_repr _ _ I) as R.
    assert (L6 : 6 <= s_len h) by lia.
    assert (Et' : t = B bs (s_off h)).
    { rewrite (repr_rdU _ _ _ _ 0 R) in Et by lia. rewrite N.add_0_r in Et. now injection Et as <-. }
    subst t. set (p := s_off h) in *.
    unfold macsec_fields, MacsecHeaderA.endstation_id, MacsecHeaderA.sci_present, MacsecHeaderA.tci_scb,
      MacsecHeaderA.encrypted, MacsecHeaderA.userdata_changed, MacsecHeaderA.an, MacsecHeaderA.short_len,
      MacsecHeaderA.packet_nr, MacsecHeaderA.sci, MacsecHeaderA.sci_present, MacsecHeaderA.tci_an_raw.
    rewrite !(repr_rdU _ _ _ _ 0 R) by lia. cbn [bind]. rewrite !N.add_0_r. fold p.
    rewrite (repr_rdU _ _ _ _ 1 R), (repr_rdU _ _ _ _ 2 R), (repr_rdU _ _ _ _ 3 R),
      (repr_rdU _ _ _ _ 4 R), (repr_rdU _ _ _ _ 5 R) by lia. cbn [bind]. fold p.
    destruct (byte_facts (B bs p) (B_lt _ _ Hok)) as (_ & _ & _ & F0 & F1 & F2 & F3 & F4 & F5 & _ & _ & F67 & _).
    destruct (byte_facts (B bs (p + 1)) (B_lt _ _ Hok)) as (_ & _ & _ & _ & _ & _ & _ & _ & _ & _ & _ & _ & G).
    unfold macsec_spec, flag, bits, num_at. cbn [bytes_at].
    rewrite <- F0, <- F1, <- F2, <- F3, <- F4, <- F5, <- F67, <- G, be32_num.
    replace (p + 2 + 1) with (p + 3) by lia. replace (p + 3 + 1) with (p + 4) by lia.
    replace (p + 4 + 1) with (p + 5) by lia.
    destruct (bitset (B bs p) 32) eqn:SC.
    - assert (L14 : 14 <= s_len h) by (destruct (N.land (B bs p) 12 =? 0); lia).
      rewrite (repr_rdU _ _ _ _ 6 R), (repr_rdU _ _ _ _ 7 R), (repr_rdU _ _ _ _ 8 R),
        (repr_rdU _ _ _ _ 9 R), (repr_rdU _ _ _ _ 10 R), (repr_rdU _ _ _ _ 11 R),
        (repr_rdU _ _ _ _ 12 R), (repr_rdU _ _ _ _ 13 R) by lia. cbn [bind]. fold p.
      replace (p + 6 + 1) with (p + 7) by lia. replace (p + 7 + 1) with (p + 8) by lia.
      replace (p + 8 + 1) with (p + 9) by lia. replace (p + 9 + 1) with (p + 10) by lia.
      replace (p + 10 + 1) with (p + 11) by lia. replace (p + 11 + 1) with (p + 12) by lia.
      replace (p + 12 + 1) with (p + 13) by lia. reflexivity.
    - cbn [bind]. reflexivity.
  Qed.

  Lemma arp_fields_ok a : in_buf bs a -> wf_arp a -> arp_fields a = Ok (arp_spec bs (s_off a)).
  Proof.
    intros I (hw & pr & Eh & Ep & L). pose proof (in_buf_repr _ _ I) as R.
    assert (Eh' : hw = B bs (s_off a + 4)).
    { rewrite (repr_rdU _ _ _ _ 4 R) in Eh by lia. now injection Eh as <-. }
    assert (Ep' : pr = B bs (s_off a + 5)).
    { rewrite (repr_rdU _ _ _ _ 5 R) in Ep by lia. now injection Ep as <-. }
    set (p := s_off a) in *.
    unfold arp_fields, ArpPacketA.hw_addr_type, ArpPacketA.proto_addr_type, ArpPacketA.operation,
      ArpPacketA.sender_hw_addr, ArpPacketA.sender_protocol_addr, ArpPacketA.target_hw_addr,
      ArpPacketA.target_protocol_addr, ArpPacketA.hw_addr_size, ArpPacketA.proto_addr_size.
    rewrite !(repr_rdU _ _ _ _ 0 R), !(repr_rdU _ _ _ _ 1 R), !(repr_rdU _ _ _ _ 2 R),
      !(repr_rdU _ _ _ _ 3 R), !(repr_rdU _ _ _ _ 4 R), !(repr_rdU _ _ _ _ 5 R),
      !(repr_rdU _ _ _ _ 6 R), !(repr_rdU _ _ _ _ 7 R) by lia. cbn [bind]. fold p.
    rewrite <- Eh', <- Ep'.
    destruct (repr_subU_bytes bs a _ _ 8 hw R) as (w1 & E1 & S1); [lia|].
    destruct (repr_subU_bytes bs a _ _ (8 + hw) pr R) as (w2 & E2 & S2); [lia|].
    destruct (repr_subU_bytes bs a _ _ (8 + hw + pr) hw R) as (w3 & E3 & S3); [lia|].
    destruct (repr_subU_bytes bs a _ _ (8 + hw * 2 + pr) pr R) as (w4 & E4 & S4); [lia|].
    rewrite E1, E2, E3, E4. cbn [bind]. fold p in S1, S2, S3, S4. rewrite S1, S2, S3, S4.
    unfold arp_spec, W, be16. rewrite <- Eh', <- Ep', !N.add_0_r.
    replace (p + 2 + 1) with (p + 3) by lia. replace (p + 6 + 1) with (p + 7) by lia.
    replace (p + (8 + hw)) with (p + 8 + hw) by lia.
    replace (p + (8 + hw + pr)) with (p + 8 + hw + pr) by lia.
    replace (p + (8 + hw * 2 + pr)) with (p + 8 + hw + pr + hw) by lia.
    reflexivity.
  Qed.

  Lemma sll_proto_raw_ok hw pr v : LinuxSll.protocol_type_try_from hw pr = Ok v -> sll_proto_raw v = pr.
  Proof.
    unfold LinuxSll.protocol_type_try_from.
    repeat match goal with |- context[if ?c then _ else _] => destruct c end;
      intros E; try discriminate; injection E as <-; reflexivity.
  Qed.

  Lemma sll_fields_ok h : in_buf bs h -> wf_sllh h -> sll_fields h = Ok (sll_spec bs (s_off h)).
  Proof.
    intros I (L & pt & hw & pr & v & E0 & P7 & E2 & E14 & Ev). pose proof (in_buf_repr _ _ I) as R.
    unfold sll_fields, LinuxSllHeaderA.protocol_type, LinuxSllHeaderA.packet_type,
      LinuxSllHeaderA.arp_hardware_type, LinuxSllHeaderA.sender_address_valid_length,
      LinuxSllHeaderA.sender_address_full.
    rewrite E0, E2, E14. cbn [bind]. rewrite Ev.
    unfold LinuxSll.packet_type_try_from. destruct (pt <=? 7) eqn:C; [|lia].
    rewrite (repr_rd16 _ _ _ _ 0 R) in E0 by lia. rewrite (repr_rd16 _ _ _ _ 2 R) in E2 by lia.
    rewrite (repr_rd16 _ _ _ _ 14 R) in E14 by lia.
    injection E0 as <-. injection E2 as <-. injection E14 as <-.
    reads R. rewrite (sll_proto_raw_ok _ _ _ Ev). unfold sll_spec. rewrite !N.add_0_r. reflexivity.
  Qed.

  (* ---- IPv6 extension headers: the iterator walks the chain the format describes ---------- *)
  Import Ipv6ExtIterA.

  Lemma arm_step I pos lim nh0 mk nhf wrap o :
    repr bs I pos lim ->
    arm (mkExtIter nh0 I) mk nhf wrap = Ok o ->
    (forall sl, mk I = Ok sl -> exists l', subU I 0 l' = Ok sl) ->
    (forall sl, nhf sl = rdU sl 0) ->
    exists sl rest',
      o = Some (wrap sl, mkExtIter (B bs pos) rest') /\
      repr bs sl pos (pos + s_len sl) /\ repr bs rest' (pos + s_len sl) lim.
  Proof.
    intros R H Hmk Hnh. unfold arm in H. cbn [xi_rest] in H.
    binv H sl Esl. binv H n En. binv H rest' Er. binv H nx Enx. injection H as <-.
    destruct (Hmk sl Esl) as (l' & El').
    pose proof (subU_repr _ _ _ _ _ _ _ R El') as Rsl. rewrite N.add_0_r in Rsl.
    pose proof (subU_inv _ _ _ _ El') as (_ & Lsl & _). rewrite <- Lsl in Rsl.
    apply subN_inv in En. destruct En as (En1 & ->).
    pose proof (subU_repr _ _ _ _ _ _ _ R Er) as Rr.
    rewrite (repr_len _ _ _ _ R) in Rr, En1. destruct R as (_ & P1 & P2).
    replace (pos + s_len sl + (lim - pos - s_len sl)) with lim in Rr by lia.
    rewrite Hnh in Enx. pose proof (rdU_inv _ _ _ Enx) as L0.
    rewrite (repr_rdU _ _ _ _ 0 Rsl) in Enx by lia. rewrite N.add_0_r in Enx. injection Enx as <-.
    exists sl, rest'. auto.
  Qed.

  Lemma raw_mk_prefix I sl :
    Ipv6RawExtHeaderA.from_slice_unchecked I = Ok sl -> exists l', subU I 0 l' = Ok sl.
  Proof. unfold Ipv6RawExtHeaderA.from_slice_unchecked. intros H. binv H b Eb. eauto. Qed.
  Lemma frag_mk_prefix I sl :
    Ipv6FragmentHeaderA.from_slice_unchecked I = Ok sl -> exists l', subU I 0 l' = Ok sl.
  Proof. unfold Ipv6FragmentHeaderA.from_slice_unchecked. eauto. Qed.
  Lemma auth_mk_prefix I sl :
    auth_from_slice_unchecked I = Ok sl -> exists l', subU I 0 l' = Ok sl.
  Proof. unfold auth_from_slice_unchecked. intros H. binv H b Eb. eauto. Qed.

  Lemma raw_len_spec sl pos : repr bs sl pos (pos + s_len sl) -> wf_raw sl -> s_len sl = (B bs (pos + 1) + 1) * 8.
  Proof.
    intros R (q & Eq & L). rewrite (repr_rdU _ _ _ _ 1 R) in Eq by lia. injection Eq as <-. exact L.
  Qed.
  Lemma ah_len_spec sl pos : repr bs sl pos (pos + s_len sl) -> wf_ah sl -> s_len sl = (B bs (pos + 1) + 2) * 4.
  Proof.
    intros R (q & Eq & _ & L). rewrite (repr_rdU _ _ _ _ 1 R) in Eq by lia. injection Eq as <-. exact L.
  Qed.

  Lemma repr_in_buf s pos lim : repr bs s pos lim -> in_buf bs s.
  Proof. intros R. now exists pos, lim. Qed.

  Lemma chain_fields_ok fuel : forall nh I pos lim l,
    repr bs I pos lim -> collect fuel (mkExtIter nh I) = Ok l -> Forall item_wf l ->
    mapM item_fields l = Ok (chain_spec bs fuel nh pos lim).
  Proof.
    induction fuel as [|f IH]; intros nh I pos lim l R H Wl; [discriminate|].
    cbn [collect] in H. cbn [chain_spec]. binv H o Eo.
    unfold next in Eo. cbn [xi_rest xi_next_header] in Eo.
    rewrite (repr_len _ _ _ _ R) in Eo. pose proof R as (_ & P1 & P2).
    destruct (lim - pos =? 0) eqn:E0.
    { injection Eo as <-. injection H as <-. destruct (lim <=? pos) eqn:C; [reflexivity|lia]. }
    destruct (lim <=? pos) eqn:C; [lia|].
    change IPN_HOP_BY_HOP with 0 in Eo. change IPN_ROUTE with 43 in Eo.
    change IPN_DEST_OPTIONS with 60 in Eo. change IPN_FRAG with 44 in Eo. change IPN_AUTH with 51 in Eo.
    assert (RAW : forall wrap tag,
      (forall s, item_wf (wrap s) = wf_raw s) -> (forall s, ext_item_slice (wrap s) = s) ->
      (forall s, item_fields (wrap s) = let* g := raw_ext_fields s in Ok (tag, g)) ->
      arm (mkExtIter nh I) Ipv6RawExtHeaderA.from_slice_unchecked Ipv6RawExtHeaderA.next_header wrap = Ok o ->
      mapM item_fields l =
      Ok ((tag, raw_ext_spec bs pos ((B bs (pos + 1) + 1) * 8)) ::
          chain_spec bs f (B bs pos) (pos + (B bs (pos + 1) + 1) * 8) lim)).
    { intros wrap tag Hw Hs Hf Ea.
      destruct (arm_step _ _ _ _ _ _ _ _ R Ea (raw_mk_prefix I) (fun _ => eq_refl)) as (sl & rest' & -> & Rsl & Rr).
      binv H r Er. injection H as <-. inversion Wl as [|? ? Wx Wr]; subst.
      rewrite Hw in Wx. rewrite <- (raw_len_spec _ _ Rsl Wx).
      cbn [mapM]. rewrite Hf.
      rewrite (raw_ext_fields_ok sl (repr_in_buf _ _ _ Rsl) Wx). cbn [bind].
      rewrite (repr_off _ _ _ _ Rsl).
      rewrite (IH _ _ _ _ _ Rr Er Wr). reflexivity. }
    destruct (nh =? 0).
    { apply (RAW XHopByHop LHopByHop); auto. }
    destruct (nh =? 43).
    { apply (RAW XRouting LRouting); auto. }
    destruct (nh =? 60).
    { apply (RAW XDestinationOptions LDestOpts); auto. }
    clear RAW.
    destruct (nh =? 44).
    { destruct (arm_step _ _ _ _ _ _ _ _ R Eo (frag_mk_prefix I) (fun _ => eq_refl)) as (sl & rest' & -> & Rsl & Rr).
      binv H r Er. injection H as <-. inversion Wl as [|? ? Wx Wr]; subst.
      cbn [item_wf] in Wx. unfold wf_frag in Wx. rewrite Wx in *.
      cbn [mapM item_fields].
      rewrite (frag_fields_ok sl (repr_in_buf _ _ _ Rsl) Wx). cbn [bind].
      rewrite (repr_off _ _ _ _ Rsl).
      rewrite (IH _ _ _ _ _ Rr Er Wr). reflexivity. }
    destruct (nh =? 51).
    { destruct (arm_step _ _ _ _ _ _ _ _ R Eo (auth_mk_prefix I) (fun _ => eq_refl)) as (sl & rest' & -> & Rsl & Rr).
      binv H r Er. injection H as <-. inversion Wl as [|? ? Wx Wr]; subst.
      cbn [item_wf] in Wx. rewrite <- (ah_len_spec _ _ Rsl Wx).
      cbn [mapM item_fields].
      rewrite (ah_fields_ok sl (repr_in_buf _ _ _ Rsl) Wx). cbn [bind].
      rewrite (repr_off _ _ _ _ Rsl).
      rewrite (IH _ _ _ _ _ Rr Er Wr). reflexivity. }
    injection Eo as <-. injection H as <-. reflexivity.
  Qed.

  (* ---- the start of the chain: Ipv6ExtensionsSlice.first_header ------------------------------ *)
  Lemma exts_first nh s x nx rest :
    Ipv6ExtensionsSlice.from_slice nh s = Ok (x, nx, rest) ->
    x6_first x = Some nh \/ (x6_first x = None /\ s_len (x6_slice x) = 0).
  Proof.
    unfold Ipv6ExtensionsSlice.from_slice. intros H.
    binv H st Est. destruct st as (rest0, nh0).
    binv H w Ew. destruct w as ((restf, nxf), frf).
    binv H used Eu. apply subN_inv in Eu. destruct Eu as (Lr & ->).
    binv H sl Esl.
    destruct (s_len s - s_len restf <=? s_len s) eqn:Eus; [|discriminate]. injection Esl as <-.
    injection H as <- <- <-. cbn [x6_slice x6_first].
    destruct (s_len restf =? s_len s) eqn:E; cbn [negb]; [right|left; reflexivity].
    split; [reflexivity|]. unfold s_len at 1. cbn [snd]. rewrite len_take.
    assert (s_len restf = s_len s) by lia. lia.
  Qed.

  Lemma ipv6_finish_first s header v :
    Ipv6Slice.finish s header = Ok v ->
    v6_header v = header /\
    exists nh, rdU header 6 = Ok nh /\
      (x6_first (v6_exts v) = Some nh \/
       (x6_first (v6_exts v) = None /\ s_len (x6_slice (v6_exts v)) = 0)).
  Proof.
    unfold Ipv6Slice.finish. intros H. binv H pl Epl. binv H hp Ehp. destruct hp as (hp, src).
    binv H nh Enh. binv H x Ex. destruct x as ((exts, pn), payload). injection H as <-. cbn.
    assert (Ex' : Ipv6ExtensionsSlice.from_slice nh hp = Ok (exts, pn, payload)).
    { destruct (Ipv6ExtensionsSlice.from_slice nh hp) as [a|[e|c]|b]; try discriminate; exact Ex. }
    split; [reflexivity|]. exists nh. split; [exact Enh|]. exact (exts_first _ _ _ _ _ Ex').
  Qed.

  Lemma ipv6_first src v :
    Ipv6Slice.from_slice src = Ok v \/ IpSlice.from_slice src = Ok (IpV6 v) ->
    exists nh, rdU (v6_header v) 6 = Ok nh /\
      (x6_first (v6_exts v) = Some nh \/
       (x6_first (v6_exts v) = None /\ s_len (x6_slice (v6_exts v)) = 0)).
  Proof.
    intros [H|H].
    - unfold Ipv6Slice.from_slice in H. binv H header Eh.
      destruct (ipv6_finish_first _ _ _ H) as (-> & X). exact X.
    - unfold IpSlice.from_slice in H. destruct (s_len src =? 0); unfold lerr in H; [discriminate|].
      binv H fb Efb. destruct (N.shiftr fb 4 =? 4).
      + destruct (N.land fb 15 <? 5); [discriminate|].
        destruct (s_len src <? N.land fb 15 * 4); [discriminate|].
        binv H header Eh. binv H total Et.
        destruct (total <? N.land fb 15 * 4); [discriminate|].
        destruct (s_len src <? total); [discriminate|].
        binv H n En. binv H hp Ehp. binv H v' Ev. discriminate.
      + destruct (N.shiftr fb 4 =? 6); [|discriminate].
        destruct (s_len src <? 40); [discriminate|].
        binv H header Eh. binv H v' Ev. injection H as ->.
        destruct (ipv6_finish_first _ _ _ Ev) as (-> & X). exact X.
  Qed.

  Lemma chain_spec_empty fuel nh pos : chain_spec bs (S fuel) nh pos pos = [].
  Proof. cbn [chain_spec]. destruct (pos <=? pos) eqn:C; [reflexivity|lia]. Qed.

  (* ---- components ------------------------------------------------------------------------------ *)
  Lemma link_fields_ok l : link_prov bs l -> link_fields l = Ok (spec_link bs (view_link l)).
  Proof.
    destruct l as [s|h w|e]; cbn [link_prov link_fields view_link spec_link].
    - intros (src & I & H). apply eth2_plain_wf in H. destruct H as (-> & (_ & L)). cbn [e2_fcs_len e2_slice] in L.
      rewrite (eth_fields_ok src I) by lia. reflexivity.
    - intros (src & I & H). apply sll_wf in H. destruct H as ((Wh & _) & _ & S). cbn [fst snd] in *.
      rewrite (sll_fields_ok h (sub_of_in_buf _ _ _ I S) Wh). reflexivity.
    - reflexivity.
  Qed.

  Lemma ext_fields_ok x : ext_prov bs x -> ext_fields x = Ok (spec_ext bs (view_ext x)).
  Proof.
    destruct x as [s|m]; cbn [ext_prov ext_fields view_ext spec_ext].
    - intros (src & I & H). apply vlan_wf in H. destruct H as (-> & L). unfold wf_vlan in L.
      rewrite (vlan_fields_ok src I L). reflexivity.
    - intros (src & I & H). apply macsec_wf in H. destruct H as (Wm & S & _). unfold wf_macsec in Wm.
      rewrite (macsec_fields_ok _ (sub_of_in_buf _ _ _ I S) Wm). reflexivity.
  Qed.

  Lemma ipv4_layers_ok src v :
    in_buf bs src -> wf_ipv4 v /\ ipv4_in v src -> net_fields (NtIpv4 v) = Ok (spec_net bs (view_net (NtIpv4 v))).
  Proof.
    intros I ((Wh & Wa) & (Sh & Sa & _)). cbn [net_fields view_net spec_net].
    destruct Wh as (L1 & L2).
    rewrite (ipv4_fields_ok _ (sub_of_in_buf _ _ _ I Sh) L1). cbn [bind].
    destruct (v4_auth v) as [a|]; cbn [option_map bind].
    - rewrite (ah_fields_ok a (sub_of_in_buf _ _ _ I Sa) Wa). reflexivity.
    - reflexivity.
  Qed.

  Lemma ipv6_layers_ok src v :
    in_buf bs src -> wf_ipv6 v /\ ipv6_in v src ->
    (exists nh, rdU (v6_header v) 6 = Ok nh /\
      (x6_first (v6_exts v) = Some nh \/
       (x6_first (v6_exts v) = None /\ s_len (x6_slice (v6_exts v)) = 0))) ->
    net_fields (NtIpv6 v) = Ok (spec_net bs (view_net (NtIpv6 v))).
  Proof.
    intros I ((Wh & (l & El & G)) & (Sh & Sx & _)) (nh & Enh & F).
    cbn [net_fields view_net spec_net]. unfold wf_ipv6h in Wh.
    pose proof (sub_of_in_buf _ _ _ I Sh) as Ih. pose proof (sub_of_in_buf _ _ _ I Sx) as Ix.
    rewrite (ipv6_fields_ok _ Ih Wh). cbn [bind]. rewrite El. cbn [bind].
    pose proof (in_buf_repr _ _ Ih) as Rh. pose proof (in_buf_repr _ _ Ix) as Rx.
    rewrite (repr_rdU _ _ _ _ 6 Rh) in Enh by lia. injection Enh as <-.
    destruct G as (_ & _ & Wl & _).
    unfold Ipv6ExtIterA.items, Ipv6ExtIterA.into_iter in El. rewrite s_len_length in El.
    unfold win_of. cbn [fst snd].
    destruct F as [F|(F & L0)]; rewrite F in El.
    - rewrite (chain_fields_ok _ _ _ _ _ _ Rx El Wl). reflexivity.
    - rewrite L0 in *. rewrite N.add_0_r in *.
      rewrite (chain_fields_ok _ _ _ _ _ _ Rx El Wl). cbn [N.to_nat]. rewrite !chain_spec_empty. reflexivity.
  Qed.

  Lemma net_fields_ok n : net_prov bs n -> net_fields n = Ok (spec_net bs (view_net n)).
  Proof.
    destruct n as [v|v|a]; cbn [net_prov].
    - intros (src & I & H). apply (ipv4_layers_ok src v I).
      destruct H as [H|H]; [now apply ipv4_wf|exact (ip_wf _ _ H)].
    - intros (src & I & H). apply (ipv6_layers_ok src v I).
      + destruct H as [H|H]; [now apply ipv6_wf|exact (ip_wf _ _ H)].
      + exact (ipv6_first src v H).
    - intros (src & I & H). apply arp_wf in H. destruct H as (Wa & S).
      cbn [net_fields view_net spec_net].
      rewrite (arp_fields_ok a (sub_of_in_buf _ _ _ I S) Wa). reflexivity.
  Qed.

  Lemma transport_fields_ok t : transport_prov bs t -> transport_fields t = Ok (spec_tr bs (view_tr t)).
  Proof.
    destruct t as [s|hl s|s|s]; cbn [transport_prov transport_fields view_tr spec_tr].
    - intros (src & I & H). apply udp_wf in H. destruct H as (L & S). unfold wf_udp in L.
      rewrite (udp_fields_ok s (sub_of_in_buf _ _ _ I S) L). reflexivity.
    - intros (src & I & H). apply tcp_wf in H. destruct H as ((L1 & L2 & _) & E). cbn [fst snd] in *. subst src.
      rewrite (tcp_fields_ok hl s I L1 L2). reflexivity.
    - intros (src & I & H). apply icmp4_wf in H. destruct H as (-> & (L & _)).
      rewrite (icmp4_fields_ok src I L). reflexivity.
    - intros (src & I & H). apply icmp6_wf in H. destruct H as (-> & L). unfold wf_icmp6 in L.
      rewrite (icmp6_fields_ok src I L). reflexivity.
  Qed.

  Lemma mapM_ext_ok xs : Forall (ext_prov bs) xs -> mapM ext_fields xs = Ok (map (spec_ext bs) (map view_ext xs)).
  Proof.
    induction 1 as [|x xs Hx _ IH]; [reflexivity|].
    cbn [mapM map]. rewrite (ext_fields_ok x Hx). cbn [bind]. rewrite IH. reflexivity.
  Qed.

  Theorem fields_of_wf p : sliced_wf bs p -> fields_of_packet p = Ok (spec_fields bs (view p)).
  Proof.
    intros (A & X & C & D). unfold fields_of_packet, spec_fields, view.
    cbn [v_link v_exts v_net v_transport].
    assert (EA : ropt link_fields (sp_link p) = Ok (sopt (spec_link bs) (option_map view_link (sp_link p)))).
    { destruct (sp_link p) as [l|]; cbn [ropt sopt option_map optP] in *; [now apply link_fields_ok|reflexivity]. }
    assert (EC : ropt net_fields (sp_net p) = Ok (sopt (spec_net bs) (option_map view_net (sp_net p)))).
    { destruct (sp_net p) as [n|]; cbn [ropt sopt option_map optP] in *; [now apply net_fields_ok|reflexivity]. }
    assert (ED : ropt transport_fields (sp_transport p) =
                 Ok (sopt (spec_tr bs) (option_map view_tr (sp_transport p)))).
    { destruct (sp_transport p) as [t|]; cbn [ropt sopt option_map optP] in *;
        [now apply transport_fields_ok|reflexivity]. }
    rewrite EA. cbn [bind]. rewrite (mapM_ext_ok _ X). cbn [bind]. rewrite EC. cbn [bind]. rewrite ED.
    reflexivity.
  Qed.
End Link.

(* ---- the four strict entry points -------------------------------------------------------------- *)
Theorem fields_from_ethernet bs p : bytes_ok bs ->
  SlicedPacket.from_ethernet bs = Ok p -> fields_of_packet p = Ok (spec_fields bs (view p)).
Proof. intros Hok H. apply (fields_of_wf bs Hok). apply (sliced_wf_entry bs 0 p). auto. Qed.

Theorem fields_from_linux_sll bs p : bytes_ok bs ->
  SlicedPacket.from_linux_sll bs = Ok p -> fields_of_packet p = Ok (spec_fields bs (view p)).
Proof. intros Hok H. apply (fields_of_wf bs Hok). apply (sliced_wf_entry bs 0 p). auto. Qed.

Theorem fields_from_ether_type bs et p : bytes_ok bs ->
  SlicedPacket.from_ether_type et bs = Ok p -> fields_of_packet p = Ok (spec_fields bs (view p)).
Proof. intros Hok H. apply (fields_of_wf bs Hok). apply (sliced_wf_entry bs et p). auto. Qed.

Theorem fields_from_ip bs p : bytes_ok bs ->
  SlicedPacket.from_ip bs = Ok p -> fields_of_packet p = Ok (spec_fields bs (view p)).
Proof. intros Hok H. apply (fields_of_wf bs Hok). apply (sliced_wf_entry bs 0 p). auto. Qed.

(* ---- together with the C03 refinement: the layers whose fields are listed are the layers
   of the reference decoder (Parse/WireSpec.v), at its windows ------------------------------- *)
Lemma ok_view_eq (r : res sliced_packet) (w : vres) p :
  StrictProofs.res_rel (vres_of r) w -> r = Ok p -> w = VOk (view p).
Proof.
  intros H ->. cbn [vres_of] in H. unfold StrictProofs.res_rel in H.
  destruct w as [v|e|b]; [now subst v|contradiction|contradiction].
Qed.

Theorem fields_wire_from_ethernet bs p : bytes_ok bs -> SlicedPacket.from_ethernet bs = Ok p ->
  wire_ethernet bs = VOk (view p) /\ fields_of_packet p = Ok (spec_fields bs (view p)).
Proof.
  intros Hok H. split; [|now apply fields_from_ethernet].
  exact (ok_view_eq _ _ _ (StrictProofs.from_ethernet_rel bs Hok) H).
Qed.

Theorem fields_wire_from_linux_sll bs p : bytes_ok bs -> SlicedPacket.from_linux_sll bs = Ok p ->
  wire_linux_sll bs = VOk (view p) /\ fields_of_packet p = Ok (spec_fields bs (view p)).
Proof.
  intros Hok H. split; [|now apply fields_from_linux_sll].
  exact (ok_view_eq _ _ _ (StrictProofs.from_linux_sll_rel bs Hok) H).
Qed.

Theorem fields_wire_from_ether_type bs et p : bytes_ok bs -> SlicedPacket.from_ether_type et bs = Ok p ->
  wire_ether_type bs et = VOk (view p) /\ fields_of_packet p = Ok (spec_fields bs (view p)).
Proof.
  intros Hok H. split; [|now apply (fields_from_ether_type bs et)].
  exact (ok_view_eq _ _ _ (StrictProofs.from_ether_type_rel bs et Hok) H).
Qed.

Theorem fields_wire_from_ip bs p : bytes_ok bs -> SlicedPacket.from_ip bs = Ok p ->
  wire_from_ip bs = VOk (view p) /\ fields_of_packet p = Ok (spec_fields bs (view p)).
Proof.
  intros Hok H. split; [|now apply fields_from_ip].
  exact (ok_view_eq _ _ _ (StrictProofs.from_ip_rel bs Hok) H).
Qed.
