(* Parse/HdrLaxModel.v -- transliteration of the lax struct ("owned header") decoders:
     lax_packet_headers.rs  LaxPacketHeaders::{from_ethernet, from_ether_type, from_ip,
                            from_linux_sll, add_ip (incl. the transport part and the
                            closure add_len_source)}, the stop_err field
     net/ip_headers.rs      IpHeaders::from_slice_lax
     net/ipv6_exts.rs       Ipv6Extensions::from_slice_lax (stops WITHOUT error at the
                            first extension header whose slot is already filled)
     net/ipv4_exts.rs       Ipv4Extensions::from_slice_lax
     link/linux_sll_header.rs  LinuxSllHeader::from_slice
   as the code is after commit d79cab6 (payload = Empty behind an ARP packet).

   Conventions as in HdrModel.v: a decoded header struct is the sub-slice it was
   decoded from; functions the Rust code shares with the slicing family
   (LaxMacsecSlice::from_slice, UdpSlice::from_slice_lax, Icmpv4Slice::from_slice,
   Ipv4ExtensionsSlice::from_slice_lax, ...) are the models of Slices.v /
   LaxSlices.v; what the struct family implements again (total length / payload
   length fall-backs, the extension loop, running `offset`, error conversions)
   is written out here as in the source.  Error enums are embedded into
   Types.slice_error as in LaxSlices.v. *)
From EP Require Import Base.Bytes Parse.Types Parse.Slices Parse.Cursor Parse.LaxSlices
  Parse.HdrModel.

Local Open Scope N_scope.

(* ---- Ipv4Extensions::from_slice_lax --------------------------------------------- *)
Module LaxIpv4Extensions.
  (* Ipv4ExtensionsSlice::from_slice_lax(..) then slice.to_header() *)
  Definition from_slice_lax (start_ip_number : N) (start_slice : slice)
    : res (option slice * N * slice * option slice_error) :=
    let* x := LaxIpv4Exts.from_slice_lax start_ip_number start_slice in
    let '(a, nh, rest, e) := x in
    let* a' := (match a with
                | Some h => let* h' := auth_to_header h in Ok (Some h')
                | None => Ok None
                end) in
    Ok (a', nh, rest, e).
End LaxIpv4Extensions.

(* ---- Ipv6Extensions::from_slice_lax ---------------------------------------------- *)
Module LaxIpv6Extensions.
  (* `Len(err.add_offset(slice.len() - rest.len()))` *)
  Definition len_stop (slice rest : Types.slice) (e : len_error) (ly : layer) : res stop_error :=
    let* off := subN (s_len slice) (s_len rest) in
    Ok (ELen (le_add_offset e off), ly).

  (* the Ok arm of the raw extension header blocks:
     rest = &rest[slice.slice().len()..]; next_header = slice.next_header(); .. = Some(slice.to_header()) *)
  Definition raw_ok (rest sl : Types.slice) : res (Types.slice * Types.slice * N) :=
    let* rest' := idx_from rest (s_len sl) in
    let* nh := Ipv6RawExtHeaderSlice.next_header sl in
    let* h := raw_ext_to_header sl in
    Ok (h, rest', nh).

  Fixpoint loop (fuel : nat) (slice : Types.slice) (result : exts6) (rest : Types.slice) (next_header : N)
    : res (exts6 * N * Types.slice * option stop_error) :=
    match fuel with
    | O => Bug SITE_FUEL
    | S f =>
        if next_header =? IPN_HOP_BY_HOP then
          Ok (result, next_header, rest, Some (EContent CeHopByHopNotAtStart, LyIpv6HopByHopHeader))
        else if next_header =? IPN_DEST_OPTIONS then
          match x_route result with
          | Some _ =>
              if is_some (x_fdest result) then Ok (result, next_header, rest, None)
              else
                match Ipv6RawExtHeaderSlice.from_slice rest with
                | Ok sl =>
                    let* r := raw_ok rest sl in
                    let '(h, rest', nh) := r in
                    loop f slice (mkExts6 (x_hbh result) (x_dest result) (x_route result) (Some h)
                                    (x_frag result) (x_auth result)) rest' nh
                | Err (ELen e) =>
                    let* st := len_stop slice rest e LyIpv6DestOptionsHeader in
                    Ok (result, next_header, rest, Some st)
                | Err (EContent _) => Bug SITE_UNWRAP    (* the Rust type is LenError *)
                | Bug b => Bug b
                end
          | None =>
              if is_some (x_dest result) then Ok (result, next_header, rest, None)
              else
                match Ipv6RawExtHeaderSlice.from_slice rest with
                | Ok sl =>
                    let* r := raw_ok rest sl in
                    let '(h, rest', nh) := r in
                    loop f slice (mkExts6 (x_hbh result) (Some h) (x_route result) (x_fdest result)
                                    (x_frag result) (x_auth result)) rest' nh
                | Err (ELen e) =>
                    let* st := len_stop slice rest e LyIpv6DestOptionsHeader in
                    Ok (result, next_header, rest, Some st)
                | Err (EContent _) => Bug SITE_UNWRAP
                | Bug b => Bug b
                end
          end
        else if next_header =? IPN_ROUTE then
          if is_some (x_route result) then Ok (result, next_header, rest, None)
          else
            match Ipv6RawExtHeaderSlice.from_slice rest with
            | Ok sl =>
                let* r := raw_ok rest sl in
                let '(h, rest', nh) := r in
                loop f slice (mkExts6 (x_hbh result) (x_dest result) (Some h) None
                                (x_frag result) (x_auth result)) rest' nh
            | Err (ELen e) =>
                let* st := len_stop slice rest e LyIpv6RouteHeader in
                Ok (result, next_header, rest, Some st)
            | Err (EContent _) => Bug SITE_UNWRAP
            | Bug b => Bug b
            end
        else if next_header =? IPN_FRAG then
          if is_some (x_frag result) then Ok (result, next_header, rest, None)
          else
            match Ipv6FragmentHeaderSlice.from_slice rest with
            | Ok sl =>
                let* rest' := idx_from rest (s_len sl) in
                let* nh := Ipv6FragmentHeaderSlice.next_header sl in
                loop f slice (mkExts6 (x_hbh result) (x_dest result) (x_route result) (x_fdest result)
                                (Some sl) (x_auth result)) rest' nh
            | Err (ELen e) =>
                let* st := len_stop slice rest e LyIpv6FragHeader in
                Ok (result, next_header, rest, Some st)
            | Err (EContent _) => Bug SITE_UNWRAP
            | Bug b => Bug b
            end
        else if next_header =? IPN_AUTH then
          if is_some (x_auth result) then Ok (result, next_header, rest, None)
          else
            match IpAuthHeaderSlice.from_slice rest with
            | Ok sl =>
                let* rest' := idx_from rest (s_len sl) in
                let* nh := IpAuthHeaderSlice.next_header sl in
                let* h := auth_to_header sl in
                loop f slice (mkExts6 (x_hbh result) (x_dest result) (x_route result) (x_fdest result)
                                (x_frag result) (Some h)) rest' nh
            | Err (ELen e) =>
                let* st := len_stop slice rest e LyIpAuthHeader in
                Ok (result, next_header, rest, Some st)
            | Err (EContent _) =>
                Ok (result, next_header, rest, Some (EContent CeIpv6AuthZeroPayloadLen, LyIpAuthHeader))
            | Bug b => Bug b
            end
        else Ok (result, next_header, rest, None)
    end.

  Definition from_slice_lax (start_ip_number : N) (slice : Types.slice)
    : res (exts6 * N * Types.slice * option stop_error) :=
    if IPN_HOP_BY_HOP =? start_ip_number then
      match Ipv6RawExtHeaderSlice.from_slice slice with
      | Ok sl =>
          let* r := raw_ok slice sl in
          let '(h, rest, nh) := r in
          loop (S (length (snd slice))) slice (mkExts6 (Some h) None None None None None) rest nh
      | Err (ELen e) =>
          Ok (exts6_empty, start_ip_number, slice, Some (ELen e, LyIpv6HopByHopHeader))
      | Err (EContent _) => Bug SITE_UNWRAP
      | Bug b => Bug b
      end
    else loop (S (length (snd slice))) slice exts6_empty slice start_ip_number.
End LaxIpv6Extensions.

(* ---- IpHeaders::from_slice_lax ---------------------------------------------------- *)
Module LaxIpHeaders.
  Definition from_slice_lax (s : slice) : res (ip_headers * lax_ip_payload * option stop_error) :=
    if s_len s =? 0 then lerr 1 (s_len s) LsSlice LyIpHeader
    else
      (* slice[0]: checked *)
      let* b0 := (match rd (snd s) 0 with Some v => Ok v | None => Bug SITE_INDEX end) in
      let ver := N.shiftr b0 4 in
      if ver =? 4 then
        if s_len s <? 20 then lerr 20 (s_len s) LsSlice LyIpv4Header
        else
          let* b0' := rdU s 0 in
          let ihl := N.land b0' 15 in
          if ihl <? 5 then Err (EContent (CeIpIhl ihl))
          else
            let header_len := ihl * 4 in
            if s_len s <? header_len then lerr header_len (s_len s) LsSlice LyIpv4Header
            else
              let* header := subU s 0 header_len in
              let* total_len := Ipv4HeaderSlice.total_len header in
              let* t :=
                (if total_len <? header_len then
                   let* n := subN (s_len s) header_len in
                   let* p := subU s header_len n in
                   Ok (LsSlice, p, false)
                 else if s_len s <? total_len then
                   let* n := subN (s_len s) header_len in
                   let* p := subU s header_len n in
                   Ok (LsSlice, p, true)
                 else
                   let* n := subN total_len header_len in
                   let* p := subU s header_len n in
                   Ok (LsIpv4HeaderTotalLen, p, false)) in
              let '(src, rest, incomplete) := t in
              let* proto := Ipv4HeaderSlice.protocol header in
              let* x := LaxIpv4Extensions.from_slice_lax proto rest in
              let '(auth, next_protocol, rest', stop) := x in
              let stop' :=
                match stop with
                | Some (ELen l) =>
                    Some (ELen (le_set_src (le_add_offset l header_len) src), LyIpAuthHeader)
                | Some (EContent c) => Some (EContent c, LyIpAuthHeader)
                | None => None
                end in
              let* fragmented := Ipv4HeaderSlice.is_fragmenting_payload header in
              Ok (IhV4 header auth, mkLaxIpp incomplete next_protocol fragmented src rest', stop')
      else if ver =? 6 then
        if s_len s <? 40 then lerr 40 (s_len s) LsSlice LyIpv6Header
        else
          let* header := subU s 0 40 in
          let* pl := Ipv6HeaderSlice.payload_length header in
          let* t :=
            (if (0 =? pl) && (40 <? s_len s) then
               let* n := subN (s_len s) 40 in
               let* p := subU s 40 n in
               Ok (p, LsSlice, false)
             else
               (* `(slice.len() - Ipv6Header::LEN) < payload_len` *)
               let* d := subN (s_len s) 40 in
               if d <? pl then
                 let* n := subN (s_len s) 40 in
                 let* p := subU s 40 n in
                 Ok (p, LsSlice, true)
               else
                 let* p := subU s 40 pl in
                 Ok (p, LsIpv6HeaderPayloadLen, false)) in
          let '(header_payload, src, incomplete) := t in
          let* nh0 := Ipv6HeaderSlice.next_header header in
          let* x := LaxIpv6Extensions.from_slice_lax nh0 header_payload in
          let '(exts, next_header, rest, stop) := x in
          let stop' :=
            match stop with
            | Some (ELen l, ly) => Some (ELen (le_set_src (le_add_offset l 40) src), ly)
            | o => o
            end in
          let* fragmented := Ipv6Extensions.is_fragmenting_payload exts in
          Ok (IhV6 header exts, mkLaxIpp incomplete next_header fragmented src rest, stop')
      else Err (EContent (CeIpUnsupportedVersion ver)).
End LaxIpHeaders.

(* ---- LaxPacketHeaders ------------------------------------------------------------- *)
Inductive hlink := HlEthernet2 (h : slice) | HlLinuxSll (h : slice).

Inductive lhpayload :=
| LHpEmpty
| LHpEther (e : lax_ether_payload)
| LHpMacsecMod (incomplete : bool) (s : slice)
| LHpIp (p : lax_ip_payload)
| LHpUdp (incomplete : bool) (s : slice)
| LHpTcp (incomplete : bool) (s : slice)
| LHpIcmpv4 (incomplete : bool) (s : slice)
| LHpIcmpv6 (incomplete : bool) (s : slice)
| LHpLinuxSll (pt : sll_protocol_type) (s : slice).

Record lhpacket := mkLH {
  lh_link : option hlink;
  lh_exts : list hlink_ext;
  lh_net : option hnet;
  lh_transport : option htransport;
  lh_payload : lhpayload;
  lh_stop : option stop_error }.

Module LaxPacketHeaders.
  Import SlicedPacketCursor.

  Definition with_stop (r : lhpacket) (e : stop_error) : lhpacket :=
    mkLH (lh_link r) (lh_exts r) (lh_net r) (lh_transport r) (lh_payload r) (Some e).
  Definition with_payload (r : lhpacket) (p : lhpayload) : lhpacket :=
    mkLH (lh_link r) (lh_exts r) (lh_net r) (lh_transport r) p (lh_stop r).
  Definition with_transport (r : lhpacket) (t : htransport) (p : lhpayload) : lhpacket :=
    mkLH (lh_link r) (lh_exts r) (lh_net r) (Some t) p (lh_stop r).
  Definition with_link (r : lhpacket) (l : hlink) : lhpacket :=
    mkLH (Some l) (lh_exts r) (lh_net r) (lh_transport r) (lh_payload r) (lh_stop r).

  (* the closure in add_ip: the offset is only added when the length source is
     still "slice" *)
  Definition add_len_source (p : lax_ip_payload) (offset : N) (e : len_error) : slice_error :=
    match le_src e with
    | LsSlice => ELen (le_add_offset (le_set_src e (lipp_src p)) offset)
    | _ => ELen e
    end.

  (* the "decode transport layer" block of add_ip (inline in the Rust source; a
     separate definition here so that it can be related to the lax cursor's
     slice_transport on its own): `self1` = self with net and the IP payload set,
     `offset'` = the offset updated with the IP headers *)
  Definition add_transport (self1 : lhpacket) (ip_payload : lax_ip_payload) (offset' : N) : res lhpacket :=
    let inc := lipp_incomplete ip_payload in
    if lipp_fragmented ip_payload then Ok self1
    else if lipp_number ip_payload =? IPN_ICMP then
      match Icmpv4Slice.from_slice (lipp_slice ip_payload) with
      | Ok i =>
          let* h := Icmpv4Acc.header i in
          let* pl := Icmpv4Acc.payload i in
          Ok (with_transport self1 (HtIcmpv4 h) (LHpIcmpv4 inc pl))
      | Err (ELen e) => Ok (with_stop self1 (add_len_source ip_payload offset' e, LyIcmpv4))
      | Err (EContent _) => Bug SITE_UNWRAP    (* Rust type: LenError *)
      | Bug b => Bug b
      end
    else if lipp_number ip_payload =? IPN_ICMPV6 then
      match Icmpv6Slice.from_slice (lipp_slice ip_payload) with
      | Ok i =>
          let* h := Icmpv6Acc.header i in
          let* pl := Icmpv6Acc.payload i in
          Ok (with_transport self1 (HtIcmpv6 h) (LHpIcmpv6 inc pl))
      | Err (ELen e) => Ok (with_stop self1 (add_len_source ip_payload offset' e, LyIcmpv6))
      | Err (EContent _) => Bug SITE_UNWRAP
      | Bug b => Bug b
      end
    else if lipp_number ip_payload =? IPN_UDP then
      match UdpSlice.from_slice_lax (lipp_slice ip_payload) with
      | Ok u =>
          let* h := UdpAcc.to_header u in
          let* pl := UdpAcc.payload u in
          Ok (with_transport self1 (HtUdp h) (LHpUdp inc pl))
      | Err (ELen e) => Ok (with_stop self1 (add_len_source ip_payload offset' e, LyUdpHeader))
      | Err (EContent _) => Bug SITE_UNWRAP
      | Bug b => Bug b
      end
    else if lipp_number ip_payload =? IPN_TCP then
      match TcpHeader.from_slice (lipp_slice ip_payload) with
      | Ok t => Ok (with_transport self1 (HtTcp (fst t)) (LHpTcp inc (snd t)))
      | Err (ELen e) => Ok (with_stop self1 (add_len_source ip_payload offset' e, LyTcpHeader))
      | Err (EContent c) => Ok (with_stop self1 (EContent c, LyTcpHeader))
      | Bug b => Bug b
      end
    else Ok self1.

  (* the conversion of the extension stop error in add_ip *)
  Definition ip_stop (ip_payload : lax_ip_payload) (offset : N) (e : stop_error) : stop_error :=
    (match fst e with
     | ELen l => ELen (le_set_src (le_add_offset l offset) (lipp_src ip_payload))
     | EContent c => EContent c
     end, snd e).

  (* add_ip: Err = the `?` on IpHeaders::from_slice_lax (self is then unchanged) *)
  Definition add_ip (self : lhpacket) (offset : N) (s : slice) : res lhpacket :=
    let* x := LaxIpHeaders.from_slice_lax s in
    let '(ip, ip_payload, stop_err) := x in
    let self1 := mkLH (lh_link self) (lh_exts self) (Some (HnIp ip)) (lh_transport self)
                      (LHpIp ip_payload) (lh_stop self) in
    match stop_err with
    | Some e => Ok (with_stop self1 (ip_stop ip_payload offset e))
    | None =>
        (* (ip_payload.payload.as_ptr() as usize) - (slice.as_ptr() as usize) *)
        let* d := subN (s_off (lipp_slice ip_payload)) (s_off s) in
        add_transport self1 ip_payload (offset + d)
    end.

  (* state of the `loop` in from_ether_type *)
  Record lstate := mkLs {
    ls_result : lhpacket;
    ls_rest : slice;
    ls_offset : N;
    ls_et : N;
    ls_src : len_source }.

  Inductive lloop_out := LLReturn (p : lhpacket) | LLBreak (st : lstate).

  Definition push_ext (r : lhpacket) (x : hlink_ext) : res lhpacket :=
    if len (lh_exts r) <? LINK_EXTS_CAP then
      Ok (mkLH (lh_link r) (lh_exts r ++ [x]) (lh_net r) (lh_transport r) (lh_payload r) (lh_stop r))
    else Bug SITE_PUSH.

  Fixpoint link_loop (fuel : nat) (st : lstate) : res lloop_out :=
    match fuel with
    | O => Bug SITE_FUEL
    | S f =>
        let result := ls_result st in
        let rest := ls_rest st in
        let et := ls_et st in
        if is_vlan_type et then
          if LINK_EXTS_CAP <=? len (lh_exts result) then Ok (LLBreak st)
          else
            match SingleVlanHeader.from_slice rest with
            | Err (ELen e) =>
                Ok (LLReturn (with_stop result (ELen (le_add_offset e (ls_offset st)), LyVlanHeader)))
            | Err (EContent _) => Bug SITE_UNWRAP
            | Bug b => Bug b
            | Ok (vlan, vlan_rest) =>
                let* et' := SingleVlanHeader.ether_type vlan in
                let r1 := with_payload result
                            (LHpEther (mkLaxEp false et' (ls_src st) vlan_rest)) in
                let* r2 := push_ext r1 (HxVlan vlan) in
                link_loop f (mkLs r2 vlan_rest (ls_offset st + 4) et' (ls_src st))
            end
        else if et =? ET_MACSEC then
          if LINK_EXTS_CAP <=? len (lh_exts result) then Ok (LLBreak st)
          else
            match LaxMacsecSlice.from_slice rest with
            | Err (ELen e) =>
                Ok (LLReturn (with_stop result (ELen (le_add_offset e (ls_offset st)), LyMacsecHeader)))
            | Err (EContent c) => Ok (LLReturn (with_stop result (EContent c, LyMacsecHeader)))
            | Bug b => Bug b
            | Ok macsec =>
                let* r1 := push_ext result (HxMacsec (lms_header macsec)) in
                match lms_payload macsec with
                | LMpUnmodified l =>
                    let* hl := Macsec.header_len (lms_header macsec) in
                    let src := match lep_src l with LsSlice => ls_src st | s => s end in
                    let r2 := with_payload r1
                                (LHpEther (mkLaxEp (lep_incomplete l) (lep_ether_type l) src (lep_slice l))) in
                    link_loop f (mkLs r2 (lep_slice l) (ls_offset st + hl) (lep_ether_type l) src)
                | LMpModified incomplete payload =>
                    Ok (LLReturn (with_payload r1 (LHpMacsecMod incomplete payload)))
                end
            end
        else Ok (LLBreak st)
    end.

  (* "parse ip or arp" *)
  Definition net_part (st : lstate) : res lhpacket :=
    let result := ls_result st in
    let et := ls_et st in
    if (et =? ET_IPV4) || (et =? ET_IPV6) then
      match add_ip result (ls_offset st) (ls_rest st) with
      | Ok r => Ok r
      | Err (ELen l) => Ok (with_stop result (ELen (le_add_offset l (ls_offset st)), LyIpHeader))
      | Err (EContent c) => Ok (with_stop result (EContent c, LyIpHeader))
      | Bug b => Bug b
      end
    else if et =? ET_ARP then
      match ArpPacketSlice.from_slice (ls_rest st) with
      | Ok arp =>
          Ok (mkLH (lh_link result) (lh_exts result) (Some (HnArp arp)) (lh_transport result)
                   LHpEmpty (lh_stop result))
      | Err (ELen e) => Ok (with_stop result (ELen (le_add_offset e (ls_offset st)), LyArp))
      | Err (EContent _) => Bug SITE_UNWRAP
      | Bug b => Bug b
      end
    else Ok result.

  Definition from_ether_type_slice (ether_type : N) (slice : Types.slice) : res lhpacket :=
    let result := mkLH None [] None None (LHpEther (mkLaxEp false ether_type LsSlice slice)) None in
    let* o := link_loop 5 (mkLs result slice 0 ether_type LsSlice) in
    match o with
    | LLReturn p => Ok p
    | LLBreak st => net_part st
    end.

  Definition from_ether_type (ether_type : N) (data : bytes) : res lhpacket :=
    from_ether_type_slice ether_type (mk_slice data).

  (* `if let Some((SliceError::Len(l), _)) = result.stop_err.as_mut() { l.layer_start_offset += k }` *)
  Definition shift_stop (r : lhpacket) (k : N) : lhpacket :=
    match lh_stop r with
    | Some (ELen l, ly) =>
        mkLH (lh_link r) (lh_exts r) (lh_net r) (lh_transport r) (lh_payload r)
             (Some (ELen (le_add_offset l k), ly))
    | _ => r
    end.

  Definition from_ethernet (data : bytes) : res lhpacket :=
    let slice := mk_slice data in
    let* er := Ethernet2Header.from_slice slice in      (* `?`: the LenError is returned *)
    let '(ethernet, rest) := er in
    let* et := Ethernet2Header.ether_type ethernet in
    let* result := from_ether_type_slice et rest in
    Ok (shift_stop (with_link result (HlEthernet2 ethernet)) 14).

  Definition from_ip (data : bytes) : res lhpacket :=
    let result := mkLH None [] None None (LHpUdp true (0, [])) None in
    add_ip result 0 (mk_slice data).

  (* LinuxSllHeader::from_slice: LinuxSllHeaderSlice::from_slice(slice)?.to_header(),
     &slice[16..]; to_header() reads packet_type() and protocol_type() (unwrap_unchecked
     on the validated conversions) *)
  Definition linux_sll_header_from_slice (s : slice) : res (slice * sll_protocol_type * slice) :=
    let* h := LinuxSll.header_from_slice s in
    let* _ := LinuxSll.packet_type h in
    let* pt := LinuxSll.protocol_type h in
    let* rest := idx_from s 16 in
    Ok (h, pt, rest).

  Definition from_linux_sll (data : bytes) : res lhpacket :=
    let slice := mk_slice data in
    let* x := linux_sll_header_from_slice slice in
    let '(linux_sll, pt, payload) := x in
    match pt with
    | SllEtherType ether_type =>
        let* result := from_ether_type_slice ether_type payload in
        Ok (with_link (shift_stop result 16) (HlLinuxSll linux_sll))
    | _ =>
        Ok (mkLH (Some (HlLinuxSll linux_sll)) [] None None (LHpLinuxSll pt payload) None)
    end.
End LaxPacketHeaders.
