(* Parse/LaxAccessProofs.v -- the accessors, conversions and iterators of
   Parse/Access.v / Parse/LaxAccess.v never hit `Bug` on a component of a LAX
   slicing result, and every window they store or hand back lies inside the input.
   Structure (mirrors Parse/AccessProofs.v):
     A. every lax single-layer constructor establishes the per-type invariants of
        AccessProofs.v (wf_macsech, wf_ipv4h, wf_ah, wf_ipv6h, exts_good, wf_udp ...);
        in particular Ipv6ExtensionsSlice::from_slice_lax stores a slice that holds
        only COMPLETE headers, whatever made the walk stop (lax_exts_good);
     B. provenance of every component of a LaxSlicedPacket (lax_sliced_wf);
     C. accessor / window safety from provenance;
     D. the packet-level accessors vlan_ids / ether_payload;
     E. summary theorems used by Props/C01.v and Props/C02.v. *)
From EP Require Import Base.Bytes Parse.Types Parse.Slices Parse.Cursor Parse.Repr
  Parse.LaxSlices Parse.LaxCursor Parse.Access Parse.AccessProofs Parse.LaxAccess.
From Coq Require Import ZArith Lia ZifyN ZifyBool.
Import LaxSlicedPacketCursor.

Local Open Scope N_scope.

(* ================================================================================= *)
(* A. lax single-layer constructors                                                   *)
(* ================================================================================= *)

(* ---- LaxMacsecSlice::from_slice --------------------------------------------------- *)
Lemma lax_macsec_wf s m :
  LaxMacsecSlice.from_slice s = Ok m ->
  wf_macsech (lms_header m) /\ sub_of (lms_header m) s /\ sub_of (LaxMacsecA.payload_slice m) s.
Proof.
  unfold LaxMacsecSlice.from_slice. intros H. binv H header Eh. binv H epl Eepl. binv H t Et.
  destruct t as ((inc, ps), src). binv H net Enet.
  apply macsech_wf in Eh. destruct Eh as (Wh & Sh).
  assert (Sp : sub_of ps s).
  { destruct epl as [req|].
    - binv Et hl Ehl. destruct (s_len s <? hl + req).
      + binv Et n En. binv Et p Ep. injection Et as _ <- _. now exists (s_len header), n.
      + binv Et p Ep. injection Et as _ <- _. now exists (s_len header), req.
    - binv Et n En. binv Et p Ep. injection Et as _ <- _. now exists (s_len header), n. }
  destruct net as [et|]; injection H as <-; unfold LaxMacsecA.payload_slice; cbn; auto.
Qed.

(* ---- IPv6 extension chain, lax: the stored slice holds only complete headers -------- *)
Import Ipv6ExtIterA.

(* the walk stopped where it stands (end of chain, or any stop error): nothing was
   consumed, the iterator on the empty prefix yields nothing *)
Lemma collect_stop W nh :
  s_len W <= s_len W /\ sub_of W W /\
  forall I fuel2, pre (s_len W - s_len W) I W -> (N.to_nat (s_len W - s_len W) < fuel2)%nat ->
    exists items, collect fuel2 (mkExtIter nh I) = Ok items /\
                  chain_good (s_off W) I (s_len W - s_len W) items.
Proof.
  split; [lia|]. split; [apply sub_of_refl|].
  intros I fuel2 P Hf. rewrite N.sub_diag in *. destruct fuel2 as [|f2]; [lia|].
  cbn [collect]. rewrite next_empty by (now apply pre_len in P). cbn [bind].
  exists []. split; [reflexivity|]. unfold chain_good. cbn. repeat split; auto; lia.
Qed.

(* the lax analogue of AccessProofs.walk_collect: whatever `error` the lax walk ends
   with, the iterator started on the consumed prefix I = W[0 .. len W - len Wf]
   re-walks exactly the headers the walk validated and then stops because its rest
   is EMPTY (this is the check added by the fix d1e93b9: the next_header of the last
   complete header may well name another extension header) *)
Lemma lax_walk_collect fuel start_len :
  forall W nh fr Wf nhf frf err,
    LaxIpv6Exts.walk fuel start_len W nh fr = Ok (Wf, nhf, frf, err) ->
    s_len Wf <= s_len W /\ sub_of Wf W /\
    forall I fuel2, pre (s_len W - s_len Wf) I W -> (N.to_nat (s_len W - s_len Wf) < fuel2)%nat ->
      exists items, collect fuel2 (mkExtIter nh I) = Ok items /\
                    chain_good (s_off W) I (s_len W - s_len Wf) items.
Proof.
  induction fuel as [|f IH]; intros W nh fr Wf nhf frf err H; [discriminate|].
  cbn [LaxIpv6Exts.walk] in H.
  change IPN_HOP_BY_HOP with 0 in H. change IPN_DEST_OPTIONS with 60 in H.
  change IPN_ROUTE with 43 in H. change IPN_FRAG with 44 in H. change IPN_AUTH with 51 in H.
  destruct (nh =? 0) eqn:E0.
  { injection H as <- _ _ _. apply collect_stop. }
  (* the common part of the three continuing arms *)
  assert (Step : forall sl l nx fr' mk wrap,
            subU W 0 l = Ok sl -> 8 <= l -> l <= s_len W ->
            (forall I u, pre u I W -> l <= u -> mk I = Ok sl) ->
            rdU sl 0 = Ok nx -> item_wf (wrap sl) -> ext_item_slice (wrap sl) = sl ->
            (forall I, next (mkExtIter nh I) =
                       if s_len I =? 0 then Ok None else arm (mkExtIter nh I) mk (fun s => rdU s 0) wrap) ->
            (let* n := subN (s_len W) (s_len sl) in
             let* rest' := subU W (s_len sl) n in
             let* nh' := Ok nx in
             LaxIpv6Exts.walk f start_len rest' nh' fr') = Ok (Wf, nhf, frf, err) ->
            s_len Wf <= s_len W /\ sub_of Wf W /\
            forall I fuel2, pre (s_len W - s_len Wf) I W -> (N.to_nat (s_len W - s_len Wf) < fuel2)%nat ->
              exists items, collect fuel2 (mkExtIter nh I) = Ok items /\
                            chain_good (s_off W) I (s_len W - s_len Wf) items).
  { intros sl l nx fr' mk wrap Hsl L8 Ll Hmk Hnx Hwf Hsl' Hnext HK.
    pose proof (subU_inv _ _ _ _ Hsl) as (_ & Lsl & _).
    rewrite Lsl in HK. rewrite subN_ok in HK by lia. cbn [bind] in HK.
    binv HK W' EW'. cbn [bind] in HK.
    pose proof (subU_inv _ _ _ _ EW') as (_ & LW' & OW' & _).
    destruct (IH _ _ _ _ _ _ _ HK) as (A1 & A2 & A3).
    split; [lia|]. split; [eapply sub_of_trans; [exact A2|now exists l, (s_len W - l)]|].
    intros I fuel2 P Hf. set (u := s_len W - s_len Wf) in *.
    assert (Lu : l <= u) by (subst u; lia).
    destruct fuel2 as [|f2]; [lia|]. cbn [collect].
    rewrite Hnext. rewrite (pre_len _ _ _ P). destruct (u =? 0) eqn:Eu; [lia|].
    destruct (arm_ok I W u l sl W' mk (fun s => rdU s 0) wrap nx nh P Lu Hsl (Hmk I u P Lu) Hnx EW')
      as (I' & -> & P' & SI). cbn [bind].
    replace (u - l) with (s_len W' - s_len Wf) in P' by (subst u; lia).
    destruct (A3 I' f2 P') as (r & -> & G); [subst u; lia|]. cbn [bind].
    eexists. split; [reflexivity|].
    eapply (chain_good_cons I I' W sl l u); eauto.
    rewrite <- OW'. replace (u - l) with (s_len W' - s_len Wf) by (subst u; lia). exact G. }
  destruct ((nh =? 60) || (nh =? 43)) eqn:Eraw.
  { destruct (Ipv6RawExtHeaderSlice.from_slice W) as [sl|[e|c]|b] eqn:Esl; try discriminate.
    2:{ binv H off Eoff. injection H as <- _ _ _. apply collect_stop. }
    destruct (raw_inv _ _ Esl) as (b & E1 & Hsl & Ll).
    pose proof (raw_wf _ _ Esl) as (Wsl & _).
    binv H n En. binv H rest' Er. binv H nx Enx. unfold Ipv6RawExtHeaderSlice.next_header in Enx.
    destruct (nh =? 43) eqn:E43.
    - apply (Step sl ((b + 1) * 8) nx fr Ipv6RawExtHeaderA.from_slice_unchecked XRouting); auto; try lia.
      + intros I u P Lu. unfold Ipv6RawExtHeaderA.from_slice_unchecked.
        rewrite (pre_rd u I W 1 P) by lia. rewrite E1. cbn [bind]. rewrite (pre_subU u I W 0 ((b + 1) * 8) P) by lia. exact Hsl.
      + intros I. unfold next. cbn [xi_rest xi_next_header].
        change IPN_HOP_BY_HOP with 0. change IPN_ROUTE with 43. rewrite E0, E43. reflexivity.
      + rewrite En. cbn [bind]. rewrite Er. cbn [bind]. exact H.
    - assert (E60 : (nh =? 60) = true) by lia.
      apply (Step sl ((b + 1) * 8) nx fr Ipv6RawExtHeaderA.from_slice_unchecked XDestinationOptions); auto; try lia.
      + intros I u P Lu. unfold Ipv6RawExtHeaderA.from_slice_unchecked.
        rewrite (pre_rd u I W 1 P) by lia. rewrite E1. cbn [bind]. rewrite (pre_subU u I W 0 ((b + 1) * 8) P) by lia. exact Hsl.
      + intros I. unfold next. cbn [xi_rest xi_next_header].
        change IPN_HOP_BY_HOP with 0. change IPN_ROUTE with 43. change IPN_DEST_OPTIONS with 60.
        rewrite E0, E43, E60. reflexivity.
      + rewrite En. cbn [bind]. rewrite Er. cbn [bind]. exact H. }
  destruct (nh =? 44) eqn:Efrag.
  { destruct (Ipv6FragmentHeaderSlice.from_slice W) as [sl|[e|c]|b] eqn:Esl; try discriminate.
    2:{ binv H off Eoff. injection H as <- _ _ _. apply collect_stop. }
    destruct (frag_inv _ _ Esl) as (Hsl & Ll).
    pose proof (frag_wf _ _ Esl) as (Wsl & _).
    binv H n En. binv H rest' Er. binv H nx Enx. unfold Ipv6FragmentHeaderSlice.next_header in Enx.
    binv H fr2 Efr.
    apply (Step sl 8 nx (fr || fr2) Ipv6FragmentHeaderA.from_slice_unchecked XFragment); auto; try lia.
    + intros I u P Lu. unfold Ipv6FragmentHeaderA.from_slice_unchecked.
      rewrite (pre_subU u I W 0 8 P) by lia. exact Hsl.
    + intros I. unfold next. cbn [xi_rest xi_next_header].
      change IPN_HOP_BY_HOP with 0. change IPN_ROUTE with 43. change IPN_DEST_OPTIONS with 60.
      change IPN_FRAG with 44.
      assert ((nh =? 43) = false) as -> by lia. assert ((nh =? 60) = false) as -> by lia.
      rewrite E0, Efrag. reflexivity.
    + rewrite En. cbn [bind]. rewrite Er. cbn [bind]. exact H. }
  destruct (nh =? 51) eqn:Eauth.
  { destruct (IpAuthHeaderSlice.from_slice W) as [sl|[e|c]|b] eqn:Esl; try discriminate.
    2:{ binv H off Eoff. injection H as <- _ _ _. apply collect_stop. }
    2:{ injection H as <- _ _ _. apply collect_stop. }
    destruct (ah_inv _ _ Esl) as (p & E1 & P1 & Hsl & Ll).
    pose proof (ah_wf _ _ Esl) as (Wsl & _).
    binv H n En. binv H rest' Er. binv H nx Enx. unfold IpAuthHeaderSlice.next_header in Enx.
    apply (Step sl ((p + 2) * 4) nx fr auth_from_slice_unchecked XAuthentication); auto; try lia.
    + intros I u P Lu. unfold auth_from_slice_unchecked.
      rewrite (pre_rd u I W 1 P) by lia. rewrite E1. cbn [bind]. rewrite (pre_subU u I W 0 ((p + 2) * 4) P) by lia. exact Hsl.
    + intros I. unfold next. cbn [xi_rest xi_next_header].
      change IPN_HOP_BY_HOP with 0. change IPN_ROUTE with 43. change IPN_DEST_OPTIONS with 60.
      change IPN_FRAG with 44. change IPN_AUTH with 51.
      assert ((nh =? 43) = false) as -> by lia. assert ((nh =? 60) = false) as -> by lia.
      rewrite E0, Efrag, Eauth. reflexivity.
    + rewrite En. cbn [bind]. rewrite Er. cbn [bind]. exact H. }
  (* end of the chain *)
  injection H as <- _ _ _. apply collect_stop.
Qed.

Lemma exts_good_nil o fr s : s_len s = 0 -> exts_good (mkIpv6Exts o fr s).
Proof.
  intros L. unfold exts_good, items, into_iter. cbn [x6_slice x6_first collect].
  rewrite next_empty by exact L. cbn [bind]. exists []. split; [reflexivity|].
  rewrite L. unfold chain_good. cbn. repeat split; auto; lia.
Qed.

(* Ipv6ExtensionsSlice::from_slice_lax establishes what the iterator needs, for EVERY
   start number, slice and stop error *)
Lemma lax_exts_good nh s x nx rest err :
  LaxIpv6Exts.from_slice_lax nh s = Ok (x, nx, rest, err) ->
  exts_good x /\ sub_of (x6_slice x) s /\ sub_of rest s.
Proof.
  unfold LaxIpv6Exts.from_slice_lax. intros H.
  binv H st Est. destruct st as ((rest0, nh0), err0).
  binv H w Ew. destruct w as (((restf, nxf), frf), errf).
  binv H used Eu. apply subN_inv in Eu. destruct Eu as (Lr & ->).
  binv H sl Esl.
  destruct (s_len s - s_len restf <=? s_len s) eqn:Eus; [|discriminate]. injection Esl as <-.
  injection H as <- _ <- _. cbn [x6_slice].
  assert (SI : sub_of (fst s, take (s_len s - s_len restf) (snd s)) s)
    by (exists 0, (s_len s - s_len restf); apply take_as_sub; lia).
  change IPN_HOP_BY_HOP with 0 in Est.
  (* the walk was not entered: hop-by-hop header announced but not complete *)
  assert (Stopped : restf = s -> exts_good
             (mkIpv6Exts (if negb (s_len restf =? s_len s) then Some nh else None) frf
                (fst s, take (s_len s - s_len restf) (snd s))) /\
           sub_of (fst s, take (s_len s - s_len restf) (snd s)) s /\ sub_of restf s).
  { intros ->. split; [|split; [exact SI|apply sub_of_refl]].
    apply exts_good_nil. unfold s_len. cbn [snd]. rewrite len_take. unfold s_len. lia. }
  set (used := s_len s - s_len restf) in *.
  set (I := (fst s, take used (snd s))) in *.
  assert (PI : pre used I s) by (apply pre_take; lia).
  assert (LI : s_len I = used) by (now apply pre_len in PI).
  destruct (0 =? nh) eqn:Ehbh.
  - (* hop-by-hop header first *)
    assert (nh = 0) by lia. subst nh.
    destruct (Ipv6RawExtHeaderSlice.from_slice s) as [sl0|[e|c]|b] eqn:Esl0; try discriminate.
    2:{ injection Est as <- <- <-. injection Ew as <- _ _ _. now apply Stopped. }
    binv Est r0 Er0. binv Est n0 En0. injection Est as <- <- <-.
    destruct (s_len sl0 <=? s_len s) eqn:El0; [|discriminate]. injection Er0 as <-.
    destruct (raw_inv _ _ Esl0) as (b & E1 & Hsl0 & Ll0).
    pose proof (raw_wf _ _ Esl0) as (Wsl0 & _).
    pose proof (subU_inv _ _ _ _ Hsl0) as (_ & Lsl0 & _). rewrite Lsl0 in *.
    set (l0 := (b + 1) * 8) in *.
    assert (HW' : subU s l0 (s_len s - l0) = Ok (fst s + l0, drop l0 (snd s))) by (apply drop_as_sub; lia).
    set (W' := (fst s + l0, drop l0 (snd s))) in *.
    pose proof (subU_inv _ _ _ _ HW') as (_ & LW' & OW' & _).
    destruct (lax_walk_collect _ _ _ _ _ _ _ _ _ Ew) as (A1 & A2 & A3).
    assert (L8 : 8 <= l0) by (subst l0; lia).
    assert (Lu : l0 <= used) by (subst used; lia).
    split; [|split; [exact SI|eapply sub_of_trans; [exact A2|now exists l0, (s_len s - l0)]]].
    unfold exts_good, items, into_iter. cbn [x6_slice x6_first].
    assert ((s_len restf =? s_len s) = false) as -> by lia. cbn [negb].
    rewrite s_len_length, LI. cbn [collect].
    unfold next at 1. cbn [xi_rest xi_next_header]. rewrite LI.
    destruct (used =? 0) eqn:Eu0; [lia|]. change IPN_HOP_BY_HOP with 0. rewrite N.eqb_refl.
    unfold Ipv6RawExtHeaderSlice.next_header in En0.
    destruct (arm_ok I s used l0 sl0 W' Ipv6RawExtHeaderA.from_slice_unchecked Ipv6RawExtHeaderA.next_header
                XHopByHop n0 0 PI Lu Hsl0) as (I' & -> & P' & SI'); auto.
    { unfold Ipv6RawExtHeaderA.from_slice_unchecked. rewrite (pre_rd used I s 1 PI) by lia.
      rewrite E1. cbn [bind]. fold l0. rewrite (pre_subU used I s 0 l0 PI) by lia. exact Hsl0. }
    cbn [bind].
    replace (used - l0) with (s_len W' - s_len restf) in P' by (subst used; lia).
    destruct (A3 I' (N.to_nat used) P') as (r & -> & G); [subst used; lia|]. cbn [bind].
    eexists. split; [reflexivity|].
    change (s_off I) with (s_off s).
    eapply (chain_good_cons I I' s sl0 l0 used); eauto.
    rewrite <- OW'. replace (used - l0) with (s_len W' - s_len restf) by (subst used; lia). exact G.
  - injection Est as <- <- <-.
    destruct (lax_walk_collect _ _ _ _ _ _ _ _ _ Ew) as (A1 & A2 & A3).
    split; [|split; [exact SI|exact A2]].
    destruct (s_len restf =? s_len s) eqn:Eall; cbn [negb].
    + apply exts_good_nil. rewrite LI. subst used. lia.
    + unfold exts_good, items, into_iter. cbn [x6_slice x6_first].
      rewrite s_len_length, LI. change (s_off I) with (s_off s).
      destruct (A3 I (S (N.to_nat used)) PI) as (r & E & G); [lia|]. exists r. split; [exact E|exact G].
Qed.

(* ---- lax IPv4 ---------------------------------------------------------------------- *)
Lemma lax_select_payload_sub s hl tl hp src inc :
  LaxIpv4Slice.select_payload s hl tl = Ok (hp, src, inc) -> sub_of hp s.
Proof.
  unfold LaxIpv4Slice.select_payload. intros H.
  destruct (tl <? hl); [|destruct (s_len s <? tl)];
    binv H n En; binv H p Ep; injection H as <- _ _; now exists hl, n.
Qed.

Lemma lax_ipv4_finish_wf header hp src inc v stop :
  LaxIpv4Slice.finish header hp src inc = Ok (v, stop) ->
  lv4_header v = header /\
  match lv4_auth v with Some a => wf_ah a /\ sub_of a hp | None => True end /\
  sub_of (lipp_slice (lv4_payload v)) hp.
Proof.
  unfold LaxIpv4Slice.finish. intros H. binv H fr Efr. binv H proto Ep.
  destruct (proto =? IPN_AUTH).
  - destruct (IpAuthHeaderSlice.from_slice hp) as [auth|e|b] eqn:Ea; try discriminate.
    + binv H n En. binv H payload Epl. binv H ipn Eipn. injection H as <- _. cbn.
      apply ah_wf in Ea. destruct Ea as (Wa & Sa). repeat split; auto.
      now exists (s_len auth), n.
    + injection H as <- _. cbn. repeat split; auto. apply sub_of_refl.
  - injection H as <- _. cbn. repeat split; auto. apply sub_of_refl.
Qed.

Lemma lax_ipv4_pack v header hp s :
  wf_ipv4h header -> sub_of header s -> sub_of hp s -> lv4_header v = header ->
  match lv4_auth v with Some a => wf_ah a /\ sub_of a hp | None => True end ->
  sub_of (lipp_slice (lv4_payload v)) hp -> wf_ipv4 (strict_v4 v) /\ ipv4_in (strict_v4 v) s.
Proof.
  intros Wh Sh Shp E1 E2 E3. apply (ipv4_pack (strict_v4 v) header hp s); auto.
Qed.

Lemma lax_ipv4_wf s v stop :
  LaxIpv4Slice.from_slice s = Ok (v, stop) -> wf_ipv4 (strict_v4 v) /\ ipv4_in (strict_v4 v) s.
Proof.
  unfold LaxIpv4Slice.from_slice. intros H. binv H header Eh. binv H total Et.
  binv H t Esel. destruct t as ((hp, src), inc).
  apply ipv4h_wf in Eh. destruct Eh as (Wh & Sh).
  pose proof (lax_select_payload_sub _ _ _ _ _ _ Esel) as Shp.
  apply lax_ipv4_finish_wf in H. destruct H as (E1 & E2 & E3).
  eapply lax_ipv4_pack; eauto.
Qed.

(* ---- lax IPv6 ---------------------------------------------------------------------- *)
Lemma lax_ipv6_finish_wf header hp src inc v stop :
  LaxIpv6Slice.finish header hp src inc = Ok (v, stop) ->
  lv6_header v = header /\ exts_good (lv6_exts v) /\
  sub_of (x6_slice (lv6_exts v)) hp /\ sub_of (lipp_slice (lv6_payload v)) hp.
Proof.
  unfold LaxIpv6Slice.finish. intros H. binv H nh Enh. binv H x Ex.
  destruct x as (((exts, pn), payload), es). injection H as <- _. cbn.
  apply lax_exts_good in Ex. tauto.
Qed.

Lemma lax_ipv6_pack v header hp s :
  wf_ipv6h header -> sub_of header s -> sub_of hp s ->
  lv6_header v = header /\ exts_good (lv6_exts v) /\
  sub_of (x6_slice (lv6_exts v)) hp /\ sub_of (lipp_slice (lv6_payload v)) hp ->
  wf_ipv6 (strict_v6 v) /\ ipv6_in (strict_v6 v) s.
Proof.
  intros Wh Sh Shp (E1 & E2 & E3 & E4). unfold wf_ipv6, ipv6_in, strict_v6. cbn. rewrite E1.
  pose proof (sub_of_trans _ _ _ E3 Shp). pose proof (sub_of_trans _ _ _ E4 Shp). tauto.
Qed.

Lemma lax_ipv6_wf s v stop :
  LaxIpv6Slice.from_slice s = Ok (v, stop) -> wf_ipv6 (strict_v6 v) /\ ipv6_in (strict_v6 v) s.
Proof.
  unfold LaxIpv6Slice.from_slice. intros H. binv H header Eh. binv H pl Epl.
  binv H t Et. destruct t as ((hp, src), inc).
  apply ipv6h_wf in Eh. destruct Eh as (Wh & Sh).
  assert (Shp : sub_of hp s).
  { destruct ((0 =? pl) && (40 <? s_len s)).
    - binv Et n En. binv Et p Ep. injection Et as <- _ _. now exists 40, n.
    - destruct (s_len s <? 40 + pl).
      + binv Et n En. binv Et p Ep. injection Et as <- _ _. now exists 40, n.
      + binv Et p Ep. injection Et as <- _ _. now exists 40, pl. }
  apply lax_ipv6_finish_wf in H. eapply lax_ipv6_pack; eauto.
Qed.

(* ---- LaxIpSlice::from_slice -------------------------------------------------------- *)
Definition lax_ip_good (i : lax_ip_slice) (s : slice) : Prop :=
  match i with
  | LIpV4 v => wf_ipv4 (strict_v4 v) /\ ipv4_in (strict_v4 v) s
  | LIpV6 v => wf_ipv6 (strict_v6 v) /\ ipv6_in (strict_v6 v) s
  end.

Lemma lax_ip_wf s i stop : LaxIpSlice.from_slice s = Ok (i, stop) -> lax_ip_good i s.
Proof.
  unfold LaxIpSlice.from_slice. destruct (s_len s =? 0); unfold lerr; [discriminate|]. intros H.
  binv H fb Efb. destruct (N.shiftr fb 4 =? 4).
  - destruct (N.land fb 15 <? 5) eqn:Ei; [discriminate|].
    destruct (s_len s <? N.land fb 15 * 4) eqn:El; [discriminate|].
    binv H header Eh. binv H total Et. binv H t Esel. destruct t as ((hp, src), inc).
    binv H r Er. destruct r as (v, st). injection H as <- _.
    pose proof (subU_inv _ _ _ _ Eh) as (_ & Lh & _). pose proof (land15_le fb).
    assert (Wh : wf_ipv4h header) by (unfold wf_ipv4h; lia).
    assert (Sh : sub_of header s) by (now exists 0, (N.land fb 15 * 4)).
    pose proof (lax_select_payload_sub _ _ _ _ _ _ Esel) as Shp.
    apply lax_ipv4_finish_wf in Er. destruct Er as (E1 & E2 & E3).
    cbn [lax_ip_good]. eapply lax_ipv4_pack; eauto.
  - destruct (N.shiftr fb 4 =? 6); [|discriminate].
    destruct (s_len s <? 40) eqn:El; [discriminate|].
    binv H header Eh. binv H pl Epl. binv H t Et. destruct t as ((hp, src), inc).
    binv H r Er. destruct r as (v, st). injection H as <- _.
    pose proof (subU_inv _ _ _ _ Eh) as (_ & Lh & _).
    assert (Wh : wf_ipv6h header) by exact Lh.
    assert (Sh : sub_of header s) by (now exists 0, 40).
    assert (Shp : sub_of hp s).
    { destruct ((0 =? pl) && (40 <? s_len s)).
      - binv Et n En. binv Et p Ep. injection Et as <- _ _. now exists 40, n.
      - binv Et d Ed. destruct (d <? pl).
        + binv Et n En. binv Et p Ep. injection Et as <- _ _. now exists 40, n.
        + binv Et p Ep. injection Et as <- _ _. now exists 40, pl. }
    apply lax_ipv6_finish_wf in Er. cbn [lax_ip_good]. eapply lax_ipv6_pack; eauto.
Qed.

