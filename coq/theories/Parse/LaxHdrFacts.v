(* Parse/LaxHdrFacts.v -- (c) for the lax header-struct family (LaxPacketHeaders, model
   Parse/HdrLaxModel.v of the C04 check, imported read-only): Err exactly when the very first
   header is undecodable; behind it every fault is kept inside an Ok result. *)
From EP Require Import Base.Bytes Parse.Types Parse.Slices Parse.Cursor Parse.View Parse.WireSpec Parse.Repr
  Parse.StrictProofs Parse.LaxSlices Parse.LaxCursor Parse.LaxView Parse.LaxProofs Parse.LaxFacts
  Parse.HdrModel Parse.HdrLaxModel.
From Coq Require Import ZArith Lia ZifyN ZifyBool.
Local Open Scope N_scope.

(* ---- "never Err", compositionally ------------------------------------------------------------ *)
Definition no_err {A} (r : res A) : Prop := forall e, r <> Err e.

Lemma ne_ok {A} (a : A) : no_err (Ok a). Proof. intros e; discriminate. Qed.
Lemma ne_bug {A} b : no_err (@Bug A b). Proof. intros e; discriminate. Qed.
Lemma ne_bind {A B} (r : res A) (f : A -> res B) :
  no_err r -> (forall a, no_err (f a)) -> no_err (bind r f).
Proof. intros H1 H2 e. destruct r as [a|e0|b]; cbn [bind]; [apply H2|intros E; exact (H1 e0 eq_refl)|discriminate]. Qed.

Lemma ne_rdU s i : no_err (rdU s i).
Proof. intros e H. exact (rdU_not_err _ _ _ H). Qed.
Lemma ne_rd16 s i : no_err (rd16 s i).
Proof. intros e H. exact (rd16_not_err _ _ _ H). Qed.
Lemma ne_subU s k n : no_err (subU s k n).
Proof. intros e H. exact (subU_not_err _ _ _ _ H). Qed.
Lemma ne_subN a b : no_err (subN a b).
Proof. intros e H. exact (subN_not_err _ _ _ H). Qed.
Lemma ne_idx s k : no_err (idx_from s k).
Proof. unfold idx_from. destruct (k <=? s_len s); [apply ne_ok|apply ne_bug]. Qed.

Ltac ne :=
  repeat first
    [ apply ne_ok | apply ne_bug | apply ne_rdU | apply ne_rd16 | apply ne_subU | apply ne_subN
    | apply ne_idx | assumption
    | apply ne_bind; [|intros ?]
    | match goal with |- no_err (match ?x with _ => _ end) => destruct x eqn:? end ].

(* ---- the lax struct decoders behind the first header ---------------------------------------------- *)
Lemma ne_auth_to_header s : no_err (auth_to_header s).
Proof. unfold auth_to_header. ne. Qed.
Lemma ne_raw_to_header s : no_err (raw_ext_to_header s).
Proof. unfold raw_ext_to_header. ne. Qed.

Lemma ne_laxexts4 nh s : no_err (LaxIpv4Exts.from_slice_lax nh s).
Proof. intros e. apply lax_ipv4_exts_never_err. Qed.

Lemma ne_hexts4 nh s : no_err (LaxIpv4Extensions.from_slice_lax nh s).
Proof.
  unfold LaxIpv4Extensions.from_slice_lax. apply ne_bind; [intros e; apply lax_ipv4_exts_never_err|].
  intros [[[a n] r] st]. destruct a; ne; try apply ne_auth_to_header.
Qed.

Lemma ne_hexts6_loop fuel : forall slice result rest nh,
  no_err (LaxIpv6Extensions.loop fuel slice result rest nh).
Proof.
  induction fuel as [|f IH]; intros slice result rest nh; cbn [LaxIpv6Extensions.loop]; [apply ne_bug|].
  unfold LaxIpv6Extensions.raw_ok, LaxIpv6Extensions.len_stop, IpAuthHeaderSlice.next_header,
    Ipv6RawExtHeaderSlice.next_header, Ipv6FragmentHeaderSlice.next_header.
  ne; try apply IH; try apply ne_raw_to_header; try apply ne_auth_to_header.
Qed.

Lemma ne_hexts6 nh s : no_err (LaxIpv6Extensions.from_slice_lax nh s).
Proof.
  unfold LaxIpv6Extensions.from_slice_lax, LaxIpv6Extensions.raw_ok, Ipv6RawExtHeaderSlice.next_header.
  ne; try apply ne_hexts6_loop; try apply ne_raw_to_header.
Qed.

Lemma ne_frag6 x : no_err (Ipv6Extensions.is_fragmenting_payload x).
Proof.
  unfold Ipv6Extensions.is_fragmenting_payload, Ipv6FragmentHeaderSlice.is_fragmenting_payload,
    Ipv6FragmentHeaderSlice.more_fragments, Ipv6FragmentHeaderSlice.fragment_offset. ne.
Qed.

Lemma ne_add_transport self1 p off : no_err (LaxPacketHeaders.add_transport self1 p off).
Proof.
  unfold LaxPacketHeaders.add_transport, Icmpv4Acc.header, Icmpv4Acc.payload, Icmpv4Acc.header_len,
    Icmpv6Acc.header, Icmpv6Acc.payload, UdpAcc.to_header, UdpAcc.payload.
  ne.
Qed.

(* the IP header as such is undecodable, as IpHeaders::from_slice_lax reports it (finding F11:
   not the record LaxIpSlice gives for a cut-short IPv4 header, cf. ip_header_fault) *)
Definition hdr_ip_header_fault (bs : bytes) : option slice_error :=
  if len bs =? 0 then Some (ELen (mkLenError 1 (len bs) LsSlice LyIpHeader 0))
  else
    let ver := B bs 0 / 16 in
    if ver =? 4 then
      if len bs <? 20 then Some (ELen (mkLenError 20 (len bs) LsSlice LyIpv4Header 0))
      else
        let ihl := B bs 0 mod 16 in
        if ihl <? 5 then Some (EContent (CeIpIhl ihl))
        else if len bs <? ihl * 4 then Some (ELen (mkLenError (ihl * 4) (len bs) LsSlice LyIpv4Header 0))
        else None
    else if ver =? 6 then
      if len bs <? 40 then Some (ELen (mkLenError 40 (len bs) LsSlice LyIpv6Header 0)) else None
    else Some (EContent (CeIpUnsupportedVersion ver)).

Lemma rd_whole bs i : i < len bs -> rd bs i = Some (B bs i).
Proof.
  intros H. pose proof (repr_rd bs (mk_slice bs) 0 (len bs) i (repr_whole bs) ltac:(lia)) as X.
  now rewrite N.add_0_l in X.
Qed.

Theorem hdr_lax_ip_err_iff bs e :
  LaxIpHeaders.from_slice_lax (mk_slice bs) = Err e <-> hdr_ip_header_fault bs = Some e.
Proof.
  unfold LaxIpHeaders.from_slice_lax, hdr_ip_header_fault, lerr. rewrite s_len_whole.
  destruct (len bs =? 0) eqn:E0. { rewrite err_inj, some_inj. reflexivity. }
  change (snd (mk_slice bs)) with bs. rewrite rd_whole by lia. cbn [bind].
  rewrite shr4_div16.
  destruct (B bs 0 / 16 =? 4).
  { destruct (len bs <? 20) eqn:E20. { rewrite err_inj, some_inj. reflexivity. }
    rewrite rdU_whole by lia. cbn [bind]. rewrite land15_mod.
    destruct (B bs 0 mod 16 <? 5). { rewrite err_inj, some_inj. reflexivity. }
    destruct (len bs <? B bs 0 mod 16 * 4). { rewrite err_inj, some_inj. reflexivity. }
    split; [|discriminate]. intros H. exfalso. revert H.
    match goal with |- ?X = Err e -> False => assert (NE : no_err X); [|exact (NE e)] end.
    unfold Ipv4HeaderSlice.total_len, Ipv4HeaderSlice.protocol, Ipv4HeaderSlice.is_fragmenting_payload,
      Ipv4HeaderSlice.more_fragments, Ipv4HeaderSlice.fragments_offset.
    ne; try apply ne_hexts4; try apply ne_laxexts4; try apply ne_auth_to_header. }
  destruct (B bs 0 / 16 =? 6); [|rewrite err_inj, some_inj; reflexivity].
  destruct (len bs <? 40). { rewrite err_inj, some_inj. reflexivity. }
  split; [|discriminate]. intros H. exfalso. revert H.
  match goal with |- ?X = Err e -> False => assert (NE : no_err X); [|exact (NE e)] end.
  unfold Ipv6HeaderSlice.payload_length, Ipv6HeaderSlice.next_header.
  ne; try apply ne_hexts6; try apply ne_frag6.
Qed.

Lemma ne_link_loop fuel : forall st, no_err (LaxPacketHeaders.link_loop fuel st).
Proof.
  induction fuel as [|f IH]; intros st; cbn [LaxPacketHeaders.link_loop]; [apply ne_bug|].
  unfold SingleVlanHeader.from_slice, SingleVlanHeader.ether_type, LaxPacketHeaders.push_ext, lerr,
    Macsec.header_len, Macsec.sci_present, Macsec.is_unmodified, Macsec.tci_an_raw.
  ne; try apply IH.
  all: try (intros e H; discriminate).
Qed.

Lemma add_ip_err self off s e :
  LaxPacketHeaders.add_ip self off s = Err e -> LaxIpHeaders.from_slice_lax s = Err e.
Proof.
  unfold LaxPacketHeaders.add_ip.
  destruct (LaxIpHeaders.from_slice_lax s) as [[[ip p] st]|e0|b]; cbn [bind]; [|intros H; injection H as ->; reflexivity|discriminate].
  intros H. exfalso. revert H.
  match goal with |- ?X = Err e -> False => assert (NE : no_err X); [|exact (NE e)] end.
  ne; try apply ne_add_transport.
Qed.

Lemma ne_net_part st : no_err (LaxPacketHeaders.net_part st).
Proof. unfold LaxPacketHeaders.net_part. ne. Qed.

Lemma ne_from_ether_type_slice et s : no_err (LaxPacketHeaders.from_ether_type_slice et s).
Proof.
  unfold LaxPacketHeaders.from_ether_type_slice. apply ne_bind; [apply ne_link_loop|].
  intros [p|st]; [apply ne_ok|apply ne_net_part].
Qed.

(* (c) for LaxPacketHeaders *)
Theorem hdr_lax_err_only_first bs et e :
  (LaxPacketHeaders.from_ethernet bs = Err e <->
     (len bs < 14 /\ e = ELen (mkLenError 14 (len bs) LsSlice LyEthernet2Header 0))) /\
  LaxPacketHeaders.from_ether_type et bs <> Err e /\
  (LaxPacketHeaders.from_ip bs = Err e <-> hdr_ip_header_fault bs = Some e).
Proof.
  split; [|split].
  - unfold LaxPacketHeaders.from_ethernet, Ethernet2Header.from_slice, lerr. rewrite s_len_whole.
    destruct (len bs <? 14) eqn:E14; cbn [bind].
    + split; [intros H; injection H as <-; split; [lia|reflexivity]|intros (_ & ->); reflexivity].
    + split; [|intros (H & _); lia]. intros H. exfalso. revert H.
      match goal with |- ?X = Err e -> False => assert (NE : no_err X); [|exact (NE e)] end.
      unfold Ethernet2Header.ether_type. ne; try apply ne_from_ether_type_slice; try apply ne_link_loop; try apply ne_net_part.
  - apply ne_from_ether_type_slice.
  - rewrite <- hdr_lax_ip_err_iff. unfold LaxPacketHeaders.from_ip. split; [apply add_ip_err|].
    intros H. unfold LaxPacketHeaders.add_ip. rewrite H. reflexivity.
Qed.
