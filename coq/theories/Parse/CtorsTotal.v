(* Parse/CtorsTotal.v -- the strict single-layer constructors of Parse/Slices.v (and the two
   of Parse/Access.v) are TOTAL on every slice value: for an arbitrary standalone slice
   (any pointer offset, any contents, any length -- accepted or rejected) the run returns
   Ok or Err, never Bug: no failing unchecked read / from_raw_parts / checked index /
   usize subtraction / unwrap, and the fuel of the extension walk is never exhausted.
   No byte-range hypothesis is needed: every length the constructors compute from the
   contents is compared with the slice length before it is used. *)
From EP Require Import Base.Bytes Parse.Types Parse.Slices Parse.Cursor Parse.Repr Parse.Access
  Parse.AccessProofs.
From Coq Require Import ZArith Lia ZifyN ZifyBool.

Local Open Scope N_scope.

(* ---- outcomes -------------------------------------------------------------------------- *)
(* the run returns: Ok or Err *)
Definition returns {A} (r : res A) : Prop := (exists v, r = Ok v) \/ (exists e, r = Err e).

Lemma nobug_returns {A} (r : res A) : nobug r -> returns r.
Proof. destruct r as [v|e|b]; intros H; [left; eauto|right; eauto|exfalso; now apply (H b)]. Qed.

Lemma returns_nobug {A} (r : res A) : returns r -> nobug r.
Proof. intros [(v & ->)|(e & ->)] b; discriminate. Qed.

Lemma nobug_Ok {A} (x : A) : nobug (Ok x). Proof. intros b; discriminate. Qed.
Lemma nobug_Err {A} e : nobug (@Err A e). Proof. intros b; discriminate. Qed.
Lemma nobug_lerr {A} a b c d : nobug (@lerr A a b c d). Proof. intros x; discriminate. Qed.

Lemma nobug_bind {A B} (r : res A) (f : A -> res B) :
  nobug r -> (forall x, r = Ok x -> nobug (f x)) -> nobug (bind r f).
Proof.
  destruct r as [x|e|b]; cbn [bind]; intros H K; [now apply K|apply nobug_Err|].
  exfalso. now apply (H b).
Qed.

Lemma nobug_map_len_err {A} f (r : res A) : nobug r -> nobug (map_len_err f r).
Proof. destruct r as [x|[e|c]|b]; cbn; intros H; try exact H; apply nobug_Err. Qed.

Lemma okr_nobug' {A} (r : res A) x : r = Ok x -> nobug r.
Proof. intros ->. apply nobug_Ok. Qed.

(* close a goal `nobug t` where t is built from if / Ok / Err / lerr and primitives whose
   preconditions follow (by lia) from the tests passed so far *)
Ltac nbfin := first [ apply nobug_Ok | apply nobug_Err | apply nobug_lerr ].
Ltac nbstep :=
  match goal with
  | |- nobug (if ?c then _ else _) => let C := fresh "C" in destruct c eqn:C; try (exfalso; lia)
  | |- nobug (bind (rdU ?s ?i) _) =>
      let x := fresh "x" in let E := fresh "E" in
      destruct (rdU_ok s i) as (x & E); [lia|]; rewrite E; cbn [bind]
  | |- nobug (bind (rd16 ?s ?i) _) =>
      let x := fresh "x" in let E := fresh "E" in
      destruct (rd16_ok s i) as (x & E); [lia|]; rewrite E; cbn [bind]
  | |- nobug (bind (subN ?a ?b) _) => rewrite (subN_ok a b) by lia; cbn [bind]
  | |- nobug (bind (subU ?s ?k ?n) _) =>
      let w := fresh "w" in let E := fresh "E" in let L := fresh "L" in let O := fresh "O" in
      destruct (subU_ok s k n) as (w & E & L & O); [lia|]; rewrite E; cbn [bind]
  | |- nobug (subU ?s ?k ?n) =>
      let w := fresh "w" in let E := fresh "E" in
      destruct (subU_ok s k n) as (w & E & _ & _); [lia|]; rewrite E
  | |- nobug (bind (Ok _) _) => cbn [bind]
  | |- nobug (bind (if ?c then _ else _) _) =>
      let C := fresh "C" in destruct c eqn:C; try (exfalso; lia)
  | |- nobug (bind (Err _) _) => cbn [bind]
  | |- nobug (bind (bind _ _) _) => apply nobug_bind; [|intros ? _]
  | |- nobug (bind (lerr _ _ _ _) _) => unfold lerr; cbn [bind]
  end.
Ltac nb := repeat nbstep; try nbfin.

(* ---- link layer ------------------------------------------------------------------------ *)
Lemma nb_eth2 s : nobug (Ethernet2Slice.from_slice_without_fcs s).
Proof. unfold Ethernet2Slice.from_slice_without_fcs. nb. Qed.

Lemma nb_eth2a s : nobug (Ethernet2A.from_slice_without_fcs s).
Proof. unfold Ethernet2A.from_slice_without_fcs, Ethernet2Slice.from_slice_without_fcs. nb. Qed.

Lemma nb_eth2a_fcs s : nobug (Ethernet2A.from_slice_with_crc32_fcs s).
Proof. unfold Ethernet2A.from_slice_with_crc32_fcs. cbv zeta. nb. Qed.

Lemma nb_vlan s : nobug (SingleVlanSlice.from_slice s).
Proof. unfold SingleVlanSlice.from_slice. nb. Qed.

Lemma nb_sllh s : nobug (LinuxSll.header_from_slice s).
Proof.
  unfold LinuxSll.header_from_slice. nb.
  unfold LinuxSll.packet_type_try_from. nb.
  unfold LinuxSll.protocol_type_try_from. nb.
Qed.

Lemma nb_sll s : nobug (LinuxSll.from_slice s).
Proof.
  unfold LinuxSll.from_slice. nb.
  apply nobug_bind; [apply nb_sllh|intros; apply nobug_Ok].
Qed.

Lemma nb_macsech s : nobug (Macsec.header_from_slice s).
Proof. unfold Macsec.header_from_slice. cbv zeta. nb. Qed.

Lemma nb_macsec s : nobug (Macsec.from_slice s).
Proof.
  unfold Macsec.from_slice. apply nobug_bind; [apply nb_macsech|]. intros h Eh.
  apply macsech_wf in Eh. destruct Eh as ((t & E0 & L) & S).
  pose proof (sub_of_len _ _ S) as Lh.
  assert (L6 : 6 <= s_len h) by lia.
  unfold Macsec.expected_payload_len, Macsec.short_len, Macsec.tci_an_raw.
  destruct (rdU_ok h 1) as (b1 & E1); [lia|]. rewrite E1, E0. cbn [bind].
  assert (NE : nobug (Macsec.next_ether_type h)).
  { unfold Macsec.next_ether_type, Macsec.tci_an_raw. rewrite E0. cbn [bind].
    change (Macsec.bit t 32) with (bitset t 32).
    destruct (N.land t 12 =? 0) eqn:C12; cbn [negb]; [|apply nobug_Ok].
    destruct (bitset t 32) eqn:C32; nb. }
  assert (K : forall pls : slice * len_source,
             nobug (let '(payload_slice, src) := pls in
                    let* net := Macsec.next_ether_type h in
                    match net with
                    | Some et => Ok (mkMacsecSlice h (MpUnmodified (mkEtherPayload et src payload_slice)))
                    | None => Ok (mkMacsecSlice h (MpModified payload_slice))
                    end)).
  { intros (ps, src). apply nobug_bind; [exact NE|]. intros [et|] _; apply nobug_Ok. }
  repeat match goal with
         | |- nobug (bind (if ?c then _ else _) _) => destruct c eqn:?
         end;
    repeat (nbstep; try apply K); try nbfin.
Qed.

(* ---- net layer -------------------------------------------------------------------------- *)
Lemma nb_arp s : nobug (ArpPacketSlice.from_slice s).
Proof. unfold ArpPacketSlice.from_slice. cbv zeta. nb. Qed.

Lemma nb_ipv4h s : nobug (Ipv4HeaderSlice.from_slice s).
Proof. unfold Ipv4HeaderSlice.from_slice. cbv zeta. nb. Qed.

Lemma nb_ah s : nobug (IpAuthHeaderSlice.from_slice s).
Proof. unfold IpAuthHeaderSlice.from_slice. cbv zeta. nb. Qed.

Lemma nb_ipv6h s : nobug (Ipv6HeaderSlice.from_slice s).
Proof. unfold Ipv6HeaderSlice.from_slice. cbv zeta. nb. Qed.

Lemma nb_raw s : nobug (Ipv6RawExtHeaderSlice.from_slice s).
Proof.
  unfold Ipv6RawExtHeaderSlice.from_slice. destruct (s_len s <? 8) eqn:C; [nbfin|].
  destruct (rdU_ok s 1) as (b & E); [lia|]. unfold rdU in E.
  destruct (rd (snd s) 1) as [v|]; [|discriminate]. cbn [bind]. cbv zeta. nb.
Qed.

Lemma nb_frag s : nobug (Ipv6FragmentHeaderSlice.from_slice s).
Proof. unfold Ipv6FragmentHeaderSlice.from_slice. nb. Qed.

(* Ipv4Slice: the shared tail *)
Lemma nb_ipv4_finish header hp : 20 <= s_len header -> nobug (Ipv4Slice.finish header hp).
Proof.
  intros L. unfold Ipv4Slice.finish, Ipv4HeaderSlice.is_fragmenting_payload,
    Ipv4HeaderSlice.more_fragments, Ipv4HeaderSlice.fragments_offset, Ipv4HeaderSlice.protocol.
  nb.
  apply nobug_bind.
  { pose proof (nb_ah hp) as H. destruct (IpAuthHeaderSlice.from_slice hp) as [a|[e|c]|b]; try nbfin. exact H. }
  intros auth Ea.
  assert (Ea' : IpAuthHeaderSlice.from_slice hp = Ok auth).
  { destruct (IpAuthHeaderSlice.from_slice hp) as [a|[e|c]|b]; try discriminate; exact Ea. }
  apply ah_wf in Ea'. destruct Ea' as ((p & E1 & P1 & La) & Sa).
  pose proof (sub_of_len _ _ Sa) as Lh.
  unfold IpAuthHeaderSlice.next_header. nb.
Qed.

Lemma nb_ipv4 s : nobug (Ipv4Slice.from_slice s).
Proof.
  unfold Ipv4Slice.from_slice. apply nobug_bind; [apply nb_ipv4h|]. intros h Eh.
  apply ipv4h_wf in Eh. destruct Eh as ((L20 & L60) & S).
  pose proof (sub_of_len _ _ S) as Lh.
  unfold Ipv4HeaderSlice.total_len. nb. apply nb_ipv4_finish. lia.
Qed.

(* Ipv6ExtensionsSlice: the walk consumes at least 8 bytes per continuing iteration, so a
   fuel above the length of the rest is never exhausted *)
Lemma nb_walk fuel start_len : forall rest nh fr,
  (N.to_nat (s_len rest) < fuel)%nat -> s_len rest <= start_len ->
  nobug (Ipv6ExtensionsSlice.walk fuel start_len rest nh fr).
Proof.
  induction fuel as [|f IH]; intros rest nh fr Hf Hs; [lia|].
  cbn [Ipv6ExtensionsSlice.walk].
  assert (Step : forall (r : res slice) (k : slice -> slice -> res (slice * N * bool)),
            nobug r ->
            (forall sl, r = Ok sl -> 8 <= s_len sl /\ s_len sl <= s_len rest) ->
            (forall sl rest', 8 <= s_len sl -> s_len sl <= s_len rest ->
               s_len rest' = s_len rest - s_len sl -> nobug (k sl rest')) ->
            nobug (let* sl := r in
                   let* n := subN (s_len rest) (s_len sl) in
                   let* rest' := subU rest (s_len sl) n in k sl rest')).
  { intros r k Hr Hl Hk. apply nobug_bind; [exact Hr|]. intros sl Esl.
    destruct (Hl sl Esl) as (A & B). nb. apply (Hk sl w); auto. }
  nb.
  - (* destination options / routing *)
    apply (Step _ (fun sl rest' => let* nh := Ipv6RawExtHeaderSlice.next_header sl in
                                   Ipv6ExtensionsSlice.walk f start_len rest' nh fr)).
    + apply nobug_map_len_err, nb_raw.
    + intros sl Esl. apply map_len_err_inv in Esl.
      pose proof (raw_wf _ _ Esl) as ((b & _ & Lb) & S). pose proof (sub_of_len _ _ S). lia.
    + intros sl rest' A B D. unfold Ipv6RawExtHeaderSlice.next_header. nb. apply IH; lia.
  - (* fragment *)
    apply (Step _ (fun sl rest' =>
                     let* nh := Ipv6FragmentHeaderSlice.next_header sl in
                     let* fr2 := Ipv6FragmentHeaderSlice.is_fragmenting_payload sl in
                     Ipv6ExtensionsSlice.walk f start_len rest' nh (fr || fr2))).
    + apply nobug_map_len_err, nb_frag.
    + intros sl Esl. apply map_len_err_inv in Esl.
      pose proof (frag_wf _ _ Esl) as (W & S). unfold wf_frag in W. pose proof (sub_of_len _ _ S). lia.
    + intros sl rest' A B D.
      unfold Ipv6FragmentHeaderSlice.next_header, Ipv6FragmentHeaderSlice.is_fragmenting_payload,
        Ipv6FragmentHeaderSlice.more_fragments, Ipv6FragmentHeaderSlice.fragment_offset.
      nb. apply IH; lia.
  - (* authentication *)
    apply (Step _ (fun sl rest' => let* nh := IpAuthHeaderSlice.next_header sl in
                                   Ipv6ExtensionsSlice.walk f start_len rest' nh fr)).
    + pose proof (nb_ah rest) as H. destruct (IpAuthHeaderSlice.from_slice rest) as [a|[e|c]|b]; try nbfin. exact H.
    + intros sl Esl.
      assert (Esl' : IpAuthHeaderSlice.from_slice rest = Ok sl).
      { destruct (IpAuthHeaderSlice.from_slice rest) as [a|[e|c]|b]; try discriminate; exact Esl. }
      pose proof (ah_wf _ _ Esl') as ((p & _ & P1 & Lp) & S). pose proof (sub_of_len _ _ S). lia.
    + intros sl rest' A B D. unfold IpAuthHeaderSlice.next_header. nb. apply IH; lia.
Qed.

Lemma nb_exts nh s : nobug (Ipv6ExtensionsSlice.from_slice nh s).
Proof.
  unfold Ipv6ExtensionsSlice.from_slice.
  assert (K : forall rest0 nh0, s_len rest0 <= s_len s ->
            nobug (let* w := Ipv6ExtensionsSlice.walk (S (length (snd s))) (s_len s) rest0 nh0 false in
                   let '(rest, next_header, fragmented) := w in
                   let* used := subN (s_len s) (s_len rest) in
                   let* sl := (if used <=? s_len s then Ok (fst s, take used (snd s)) else Bug SITE_INDEX) in
                   Ok (mkIpv6Exts (if negb (s_len rest =? s_len s) then Some nh else None) fragmented sl,
                       next_header, rest))).
  { intros rest0 nh0 L0. apply nobug_bind.
    - apply nb_walk; [rewrite s_len_length; lia|exact L0].
    - intros ((restf, nxf), frf) Ew.
      destruct (walk_collect _ _ _ _ _ _ _ _ Ew) as (A1 & _). nb. }
  destruct (IPN_HOP_BY_HOP =? nh) eqn:Eh.
  - apply nobug_bind.
    + apply nobug_bind; [apply nb_raw|]. intros sl Esl.
      pose proof (raw_wf _ _ Esl) as ((b & _ & Lb) & S). pose proof (sub_of_len _ _ S).
      unfold Ipv6RawExtHeaderSlice.next_header. nb.
    + intros (rest0, nh0) Est.
      binv Est sl Esl. binv Est r0 Er0. binv Est n0 En0. injection Est as <- <-.
      destruct (s_len sl <=? s_len s) eqn:El; [|discriminate]. injection Er0 as <-.
      apply K. unfold s_len at 1. cbn [snd]. rewrite len_drop. unfold s_len. lia.
  - cbn [bind]. apply K. lia.
Qed.

(* Ipv6Slice: the shared tail *)
Lemma nb_ipv6_finish s header : 40 <= s_len header -> nobug (Ipv6Slice.finish s header).
Proof.
  intros L. unfold Ipv6Slice.finish, Ipv6HeaderSlice.payload_length, Ipv6HeaderSlice.next_header.
  destruct (rd16_ok header 4) as (pl & Epl); [lia|]. rewrite Epl. cbn [bind].
  assert (K : forall hp : slice * len_source,
            nobug (let '(header_payload, src) := hp in
                   let* nh := rdU header 6 in
                   let* x :=
                     match Ipv6ExtensionsSlice.from_slice nh header_payload with
                     | Err (ELen e) => Err (ELen (le_add_offset (le_set_src e src) 40))
                     | r => r
                     end in
                   let '(exts, payload_ip_number, payload) := x in
                   Ok (mkIpv6Slice header exts
                         (mkIpPayload payload_ip_number (x6_fragmented exts) src payload)))).
  { intros (hp, src). nb. apply nobug_bind.
    - pose proof (nb_exts x hp) as H.
      destruct (Ipv6ExtensionsSlice.from_slice x hp) as [a|[e|c]|b]; try nbfin. exact H.
    - intros ((exts, pn), payload) _. apply nobug_Ok. }
  cbv zeta. nb; apply K.
Qed.

Lemma nb_ipv6 s : nobug (Ipv6Slice.from_slice s).
Proof.
  unfold Ipv6Slice.from_slice. apply nobug_bind; [apply nb_ipv6h|]. intros h Eh.
  apply ipv6h_wf in Eh. destruct Eh as (W & _). unfold wf_ipv6h in W. apply nb_ipv6_finish. lia.
Qed.

Lemma nb_ip s : nobug (IpSlice.from_slice s).
Proof.
  unfold IpSlice.from_slice. cbv zeta. unfold Ipv4HeaderSlice.total_len.
  destruct (s_len s =? 0) eqn:C0; [nbfin|]. nbstep.
  pose proof (land15_le x) as L15.
  destruct (N.shiftr x 4 =? 4) eqn:C4.
  - nb. apply nobug_bind; [apply nb_ipv4_finish; lia|]. intros; apply nobug_Ok.
  - nb. apply nobug_bind; [apply nb_ipv6_finish; lia|]. intros; apply nobug_Ok.
Qed.

(* ---- transport layer ------------------------------------------------------------------------ *)
Lemma nb_udph s : nobug (UdpSlice.header_from_slice s).
Proof. unfold UdpSlice.header_from_slice. nb. Qed.

Lemma nb_udp s : nobug (UdpSlice.from_slice s).
Proof.
  unfold UdpSlice.from_slice. apply nobug_bind; [apply nb_udph|]. intros h Eh.
  apply udph_wf in Eh. destruct Eh as (W & _). unfold wf_udph in W. unfold UdpSlice.length. nb.
Qed.

Lemma nb_udp_lax s : nobug (UdpSlice.from_slice_lax s).
Proof.
  unfold UdpSlice.from_slice_lax. apply nobug_bind; [apply nb_udph|]. intros h Eh.
  apply udph_wf in Eh. destruct Eh as (W & _). unfold wf_udph in W. unfold UdpSlice.length. nb.
Qed.

Lemma nb_tcp s : nobug (TcpSlice.from_slice s).
Proof. unfold TcpSlice.from_slice. cbv zeta. nb. Qed.

Lemma nb_tcph s : nobug (TcpHeaderSliceA.from_slice s).
Proof. unfold TcpHeaderSliceA.from_slice. cbv zeta. nb. Qed.

Lemma nb_icmp4 s : nobug (Icmpv4Slice.from_slice s).
Proof. unfold Icmpv4Slice.from_slice. nb. Qed.

Lemma nb_icmp6 s : nobug (Icmpv6Slice.from_slice s).
Proof. unfold Icmpv6Slice.from_slice. nb. Qed.

(* ---- summary: every strict single-layer constructor, every slice ------------------------------ *)
Theorem single_layer_ctor_no_bug : forall s,
  nobug (Ethernet2A.from_slice_without_fcs s) /\ nobug (Ethernet2A.from_slice_with_crc32_fcs s) /\
  nobug (LinuxSll.header_from_slice s) /\ nobug (LinuxSll.from_slice s) /\
  nobug (SingleVlanSlice.from_slice s) /\
  nobug (Macsec.header_from_slice s) /\ nobug (Macsec.from_slice s) /\
  nobug (ArpPacketSlice.from_slice s) /\
  nobug (Ipv4HeaderSlice.from_slice s) /\ nobug (Ipv4Slice.from_slice s) /\
  nobug (Ipv6HeaderSlice.from_slice s) /\ nobug (Ipv6Slice.from_slice s) /\
  nobug (IpSlice.from_slice s) /\
  nobug (IpAuthHeaderSlice.from_slice s) /\ nobug (Ipv6RawExtHeaderSlice.from_slice s) /\
  nobug (Ipv6FragmentHeaderSlice.from_slice s) /\
  (forall nh, nobug (Ipv6ExtensionsSlice.from_slice nh s)) /\
  nobug (UdpSlice.header_from_slice s) /\ nobug (UdpSlice.from_slice s) /\
  nobug (UdpSlice.from_slice_lax s) /\
  nobug (TcpHeaderSliceA.from_slice s) /\ nobug (TcpSlice.from_slice s) /\
  nobug (Icmpv4Slice.from_slice s) /\ nobug (Icmpv6Slice.from_slice s).
Proof.
  intros s.
  repeat match goal with |- _ /\ _ => split end;
    first [ apply nb_eth2a | apply nb_eth2a_fcs | apply nb_sllh | apply nb_sll | apply nb_vlan
          | apply nb_macsech | apply nb_macsec | apply nb_arp | apply nb_ipv4h | apply nb_ipv4
          | apply nb_ipv6h | apply nb_ipv6 | apply nb_ip | apply nb_ah | apply nb_raw | apply nb_frag
          | (intros nh; apply nb_exts) | apply nb_udph | apply nb_udp | apply nb_udp_lax
          | apply nb_tcph | apply nb_tcp | apply nb_icmp4 | apply nb_icmp6 ].
Qed.

(* the totality reading (C02): each run returns Ok or Err *)
Theorem single_layer_ctor_returns : forall s,
  returns (Ethernet2A.from_slice_without_fcs s) /\ returns (Ethernet2A.from_slice_with_crc32_fcs s) /\
  returns (LinuxSll.header_from_slice s) /\ returns (LinuxSll.from_slice s) /\
  returns (SingleVlanSlice.from_slice s) /\
  returns (Macsec.header_from_slice s) /\ returns (Macsec.from_slice s) /\
  returns (ArpPacketSlice.from_slice s) /\
  returns (Ipv4HeaderSlice.from_slice s) /\ returns (Ipv4Slice.from_slice s) /\
  returns (Ipv6HeaderSlice.from_slice s) /\ returns (Ipv6Slice.from_slice s) /\
  returns (IpSlice.from_slice s) /\
  returns (IpAuthHeaderSlice.from_slice s) /\ returns (Ipv6RawExtHeaderSlice.from_slice s) /\
  returns (Ipv6FragmentHeaderSlice.from_slice s) /\
  (forall nh, returns (Ipv6ExtensionsSlice.from_slice nh s)) /\
  returns (UdpSlice.header_from_slice s) /\ returns (UdpSlice.from_slice s) /\
  returns (UdpSlice.from_slice_lax s) /\
  returns (TcpHeaderSliceA.from_slice s) /\ returns (TcpSlice.from_slice s) /\
  returns (Icmpv4Slice.from_slice s) /\ returns (Icmpv6Slice.from_slice s).
Proof.
  intros s. pose proof (single_layer_ctor_no_bug s) as H.
  repeat match type of H with _ /\ _ => let A := fresh "A" in destruct H as (A & H) end.
  repeat match goal with |- _ /\ _ => split end;
    try (apply nobug_returns; assumption).
  intros nh. apply nobug_returns. auto.
Qed.

(* ---- window containment of the values the constructors store ------------------------------------ *)
(* every slice stored in the value a strict single-layer constructor returns is a
   from_raw_parts-window of the input slice (sub_of w s: exists k n, subU s k n = Ok w) *)
Theorem single_layer_stored_windows :
  (forall s e, Ethernet2A.from_slice_without_fcs s = Ok e \/ Ethernet2A.from_slice_with_crc32_fcs s = Ok e ->
     e2_slice e = s) /\
  (forall s h, LinuxSll.header_from_slice s = Ok h -> sub_of h s) /\
  (forall s x, LinuxSll.from_slice s = Ok x -> sub_of (fst x) s /\ snd x = s) /\
  (forall s v, SingleVlanSlice.from_slice s = Ok v -> v = s) /\
  (forall s h, Macsec.header_from_slice s = Ok h -> sub_of h s) /\
  (forall s m, Macsec.from_slice s = Ok m ->
     sub_of (ms_header m) s /\ sub_of (macsec_payload_slice m) s) /\
  (forall s a, ArpPacketSlice.from_slice s = Ok a -> sub_of a s) /\
  (forall s h, Ipv4HeaderSlice.from_slice s = Ok h -> sub_of h s) /\
  (forall s v, Ipv4Slice.from_slice s = Ok v \/ IpSlice.from_slice s = Ok (IpV4 v) ->
     sub_of (v4_header v) s /\ (forall a, v4_auth v = Some a -> sub_of a s) /\
     sub_of (ipp_slice (v4_payload v)) s /\ Forall (win_ok s) (Ipv4SliceA.windows v)) /\
  (forall s h, Ipv6HeaderSlice.from_slice s = Ok h -> sub_of h s) /\
  (forall s v, Ipv6Slice.from_slice s = Ok v \/ IpSlice.from_slice s = Ok (IpV6 v) ->
     sub_of (v6_header v) s /\ sub_of (x6_slice (v6_exts v)) s /\ sub_of (ipp_slice (v6_payload v)) s) /\
  (forall s h, IpAuthHeaderSlice.from_slice s = Ok h -> sub_of h s) /\
  (forall s h, Ipv6RawExtHeaderSlice.from_slice s = Ok h -> sub_of h s) /\
  (forall s h, Ipv6FragmentHeaderSlice.from_slice s = Ok h -> sub_of h s) /\
  (forall nh s x nx rest, Ipv6ExtensionsSlice.from_slice nh s = Ok (x, nx, rest) ->
     sub_of (x6_slice x) s /\ sub_of rest s) /\
  (forall s h, UdpSlice.header_from_slice s = Ok h -> sub_of h s) /\
  (forall s u, UdpSlice.from_slice s = Ok u \/ UdpSlice.from_slice_lax s = Ok u -> sub_of u s) /\
  (forall s h, TcpHeaderSliceA.from_slice s = Ok h -> sub_of h s) /\
  (forall s x, TcpSlice.from_slice s = Ok x -> snd x = s) /\
  (forall s v, Icmpv4Slice.from_slice s = Ok v -> v = s) /\
  (forall s v, Icmpv6Slice.from_slice s = Ok v -> v = s).
Proof.
  repeat match goal with |- _ /\ _ => split end.
  - intros s e [H|H]; [apply eth2_wf_without_fcs in H|apply eth2_wf_with_fcs in H]; tauto.
  - intros s h H. now apply sllh_wf in H.
  - intros s x H. apply sll_wf in H. tauto.
  - intros s v H. now apply vlan_wf in H.
  - intros s h H. now apply macsech_wf in H.
  - intros s m H. apply macsec_wf in H. tauto.
  - intros s a H. now apply arp_wf in H.
  - intros s h H. now apply ipv4h_wf in H.
  - intros s v H.
    assert (X : wf_ipv4 v /\ ipv4_in v s) by (destruct H as [H|H]; [now apply ipv4_wf|exact (ip_wf _ _ H)]).
    destruct X as (W & Sh & Sa & Sp). split; [exact Sh|]. split; [|split; [exact Sp|]].
    + intros a Ea. now rewrite Ea in Sa.
    + pose proof (ipv4_windows_ok v W) as F. eapply Forall_impl; [|exact F].
      intros r (w & E & [Sw|Sw]); exists w; (split; [exact E|]).
      * eapply sub_of_trans; eauto.
      * destruct (v4_auth v) as [a|]; [|contradiction]. eapply sub_of_trans; eauto.
  - intros s h H. now apply ipv6h_wf in H.
  - intros s v H.
    assert (X : wf_ipv6 v /\ ipv6_in v s) by (destruct H as [H|H]; [now apply ipv6_wf|exact (ip_wf _ _ H)]).
    destruct X as (_ & X). exact X.
  - intros s h H. now apply ah_wf in H.
  - intros s h H. now apply raw_wf in H.
  - intros s h H. now apply frag_wf in H.
  - intros nh s x nx rest H. apply exts_good_from_slice in H. tauto.
  - intros s h H. now apply udph_wf in H.
  - intros s u [H|H]; [now apply udp_wf in H|now apply udp_lax_wf in H].
  - intros s h H. now apply tcph_wf in H.
  - intros s x H. now apply tcp_wf in H.
  - intros s v H. now apply icmp4_wf in H.
  - intros s v H. now apply icmp6_wf in H.
Qed.
