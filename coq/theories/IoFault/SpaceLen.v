(* IoFault/SpaceLen.v -- property C16 (audit round 3, top-12 item 10, second part):
   the two hypotheses of the "space errors state the length really required"
   clause are discharged.

   C16_slice_space has the hypothesis `len enc = LEN` (LEN, layer and the encoding
   are parameters of IoFault/Model.v `header_write_to_slice`), C16_builder_space
   the hypothesis `bcfg_wf c` (every part's declared length = length of its bytes).

   (i)  Ethernet2Header / LinuxSllHeader: the encoders of C08 (Roundtrip/Eth.v
        `eth_to_bytes`, Roundtrip/Sll.v `sll_to_bytes`, read-only here) give 14 / 16
        bytes for every header value whose address arrays have their type's
        length ([u8;6], [u8;6] / [u8;8]) - no range or consistency condition is
        needed, `wf_eth` / `wf_sll` imply it.  So write_to_slice of the two
        headers, in the C16 model with LEN = 14 / 16 and the C08 encoding, answers
        Ok iff the slice has LEN bytes and its error names LEN = the true length;
        and the C08 model of the same Rust function (`eth_write_to_slice`,
        `sll_write_to_slice`: no error value, no untouched-slice clause) agrees.
   (ii) builder: for EVERY builder configuration `c` (Builder/Model.v), endianness
        and payload, the C16 configuration `bcfg_of e c payload` of
        Builder/ProofsSinks.v satisfies bcfg_wf (`bcfg_of_wf`), so all conjuncts of
        C16_builder_space hold without hypothesis; for a well-formed configuration
        (`cfg_wf`, the type invariants of the crate's structs) the reserved size is
        Builder's `final_size` and the program writes `build_run`'s bytes with its
        verdict (`size_bridge`, `bridge`).
   Only composition of existing models; nothing is newly modelled. *)
From EP Require Import Base.Bytes IoFault.Spec IoFault.Model IoFault.Proofs.
From EP Require Roundtrip.Common Roundtrip.Eth Roundtrip.EthProofs Roundtrip.Sll Roundtrip.SllProofs.
From EP Require Checksum.Model ExtChain.Model Roundtrip.Ipv4
  Builder.Model Builder.Spec Builder.ProofsSinks.
From Coq Require Import Lia.
Local Open Scope N_scope.

Module RC := EP.Roundtrip.Common.
Module ETH := EP.Roundtrip.Eth.
Module ETHP := EP.Roundtrip.EthProofs.
Module SLL := EP.Roundtrip.Sll.
Module SLLP := EP.Roundtrip.SllProofs.
Module BM := EP.Builder.Model.
Module BSP := EP.Builder.Spec.
Module BK := EP.Builder.ProofsSinks.

(* ------------------------------------------------------------------ (i) *)
Lemma len_u16_to_be v : len (RC.u16_to_be v) = 2.
Proof. reflexivity. Qed.

(* the array types alone *)
Definition eth_arrays (h : ETH.Ethernet2Header) : Prop :=
  len (ETH.eth_source h) = 6 /\ len (ETH.eth_destination h) = 6.
Definition sll_arrays (h : SLL.LinuxSllHeader) : Prop := len (SLL.sll_sender_address h) = 8.

Lemma eth_len_14 h : eth_arrays h -> len (ETH.eth_to_bytes h) = 14.
Proof.
  intros [Hs Hd]. unfold ETH.eth_to_bytes. rewrite !len_app, Hs, Hd, len_u16_to_be. reflexivity.
Qed.

Lemma sll_len_16 h : sll_arrays h -> len (SLL.sll_to_bytes h) = 16.
Proof.
  intros Hs. unfold sll_arrays in Hs. unfold SLL.sll_to_bytes. rewrite !len_app, Hs, !len_u16_to_be. reflexivity.
Qed.

Lemma wf_eth_arrays h : ETH.wf_eth h = true -> eth_arrays h.
Proof. intros W. destruct (ETHP.eth_wf_facts h W) as (A & _ & B & _). split; assumption. Qed.

Lemma wf_sll_arrays h : SLL.wf_sll h = true -> sll_arrays h.
Proof.
  intros W. unfold sll_arrays. pose proof (SLLP.len_sll_to_bytes h W) as L.
  unfold SLL.sll_to_bytes in L. rewrite !len_app, !len_u16_to_be in L. lia.
Qed.

Lemma eth_write_to_slice_space h slice : eth_arrays h ->
  let enc := ETH.eth_to_bytes h in
  len enc = 14 /\
  (len slice < 14 ->
     header_write_to_slice 14 L_ETH enc slice = (SErr (mk_slice_err 14 (len slice) L_ETH 0), slice)) /\
  (14 <= len slice ->
     header_write_to_slice 14 L_ETH enc slice = (SOk 14 (len slice - 14), enc ++ drop 14 slice)) /\
  snd (header_write_to_slice 14 L_ETH enc slice) = snd (spec_slice_write enc slice) /\
  (fst (spec_slice_write enc slice) = None <-> 14 <= len slice) /\
  (* the C08 model of the same function *)
  (len slice < 14 -> ETH.eth_write_to_slice slice h = RC.Err RC.ELen) /\
  (14 <= len slice ->
     ETH.eth_write_to_slice slice h = RC.Ok (snd (header_write_to_slice 14 L_ETH enc slice), drop 14 slice)).
Proof.
  intros Ha enc. pose proof (eth_len_14 h Ha) as L. fold enc in L.
  destruct (header_write_to_slice_spec 14 L_ETH enc slice L) as (S1 & S2 & S3 & S4).
  split; [exact L|]. split; [exact S1|]. split; [exact S2|]. split; [exact S3|]. split; [exact S4|].
  split.
  - intros H. unfold ETH.eth_write_to_slice. apply N.ltb_lt in H. rewrite H. reflexivity.
  - intros H. rewrite (S2 H). cbn [snd]. unfold ETH.eth_write_to_slice. fold enc. rewrite L.
    replace (len slice <? 14) with false by (symmetry; apply N.ltb_ge; exact H). reflexivity.
Qed.

Lemma sll_write_to_slice_space h slice : sll_arrays h ->
  let enc := SLL.sll_to_bytes h in
  len enc = 16 /\
  (len slice < 16 ->
     header_write_to_slice 16 L_SLL enc slice = (SErr (mk_slice_err 16 (len slice) L_SLL 0), slice)) /\
  (16 <= len slice ->
     header_write_to_slice 16 L_SLL enc slice = (SOk 16 (len slice - 16), enc ++ drop 16 slice)) /\
  snd (header_write_to_slice 16 L_SLL enc slice) = snd (spec_slice_write enc slice) /\
  (fst (spec_slice_write enc slice) = None <-> 16 <= len slice) /\
  (len slice < 16 -> SLL.sll_write_to_slice slice h = RC.Err RC.ELen) /\
  (16 <= len slice ->
     SLL.sll_write_to_slice slice h = RC.Ok (snd (header_write_to_slice 16 L_SLL enc slice), drop 16 slice)).
Proof.
  intros Ha enc. pose proof (sll_len_16 h Ha) as L. fold enc in L.
  destruct (header_write_to_slice_spec 16 L_SLL enc slice L) as (S1 & S2 & S3 & S4).
  split; [exact L|]. split; [exact S1|]. split; [exact S2|]. split; [exact S3|]. split; [exact S4|].
  split.
  - intros H. unfold SLL.sll_write_to_slice. apply N.ltb_lt in H. rewrite H. reflexivity.
  - intros H. rewrite (S2 H). cbn [snd]. unfold SLL.sll_write_to_slice. fold enc. rewrite L.
    replace (len slice <? 16) with false by (symmetry; apply N.ltb_ge; exact H). reflexivity.
Qed.

(* the hypothesis was needed: an address array of the wrong length is the
   copy_from_slice panic of the model, not a space error *)
Lemma slice_len_hyp_needed :
  header_write_to_slice 14 L_ETH (repeat 1 13) (repeat 255 20) = (SPanic, repeat 255 20).
Proof. vm_compute. reflexivity. Qed.

(* ------------------------------------------------------------------ (ii) *)
Lemma builder_space_cfg (e : EP.Checksum.Model.endian) (c : BM.cfg) (payload buffer : bytes) :
  let b := BK.bcfg_of e c payload in
  let required := final_size b (len payload) in
  let p := final_write_with_net b payload in
  bcfg_wf b /\
  (len buffer < required -> final_write_to_slice b buffer payload = (BSpace required, buffer)) /\
  (required <= len buffer ->
     final_write_to_slice b buffer payload =
       (bres_of required (wprog_verdict p), wprog_bytes p ++ drop (len (wprog_bytes p)) buffer)) /\
  (wprog_verdict p = VOk -> len (wprog_bytes p) = required) /\
  len (wprog_bytes p) <= required /\
  verdict_ok (wprog_verdict p) /\
  (BSP.cfg_wf c = true ->
     required = BM.final_size c (len payload) /\
     wprog_bytes p = snd (BM.build_run e c payload) /\
     wprog_verdict p = BK.verdict_of (fst (BM.build_run e c payload))).
Proof.
  intros b required p. pose proof (BK.bcfg_of_wf e c payload) as W. fold b in W.
  destruct (final_write_to_slice_spec b buffer payload W) as (S1 & S2 & S3 & S4 & S5).
  split; [exact W|]. split; [exact S1|]. split; [exact S2|]. split; [exact S3|].
  split; [exact S4|]. split; [exact S5|].
  intros Hc. split; [apply (BK.size_bridge e c payload (len payload) Hc)|].
  exact (BK.bridge e c payload Hc).
Qed.

(* non-vacuity: the crate's documentation example (ethernet2 / ipv4 / udp, 8 byte payload) *)
Definition ex_b_ip4 : EP.Roundtrip.Ipv4.Ipv4Header :=
  EP.Roundtrip.Ipv4.Build_Ipv4Header 0 0 0 0 true false 0 20 255 0 [192; 168; 1; 1] [192; 168; 1; 2]
    (EP.Roundtrip.Ipv4.Build_Ipv4Options 0 (repeat 0 40)).
Definition ex_b_cfg : BM.cfg :=
  BM.mkCfg (BM.LkEthernet2 [1; 2; 3; 4; 5; 6] [7; 8; 9; 10; 11; 12]) BM.VlNone
           (BM.NtIpv4 ex_b_ip4 (EP.ExtChain.Model.mkExts4 None)) (BM.TrUdp 21 1234).
Definition ex_b_payload : bytes := [1; 2; 3; 4; 5; 6; 7; 8].
