(* IoFault/WriterBytes.v -- property C16 (audit round 1): the parts of the
   two-part writers are not only parameters.

   In IoFault/Model.v the bytes of each `write_all` call are parameters
   (`two_part`), so "the complete encoding" of C16_write_fault is whatever the
   harness passes in.  Here the parts are instantiated with the byte-level model
   of property C08 (Roundtrip/*.v, imported read-only) and the concatenation of
   the program's writes is proved to be the C08 `to_bytes` of the header, for
   every well-formed header value:

     Ipv4Header::write_raw    fixed 20 bytes (stored checksum) ; options slice
     IpAuthHeader::write      12 fixed bytes ; raw_icv()
     Ipv6RawExtHeader::write  [next_header, header_length] ; payload()
     TcpHeader::write         20 fixed bytes ; options (second call only if non-empty)

   (`write` and `to_bytes` are two separately coded serialisers in the crate;
   their agreement on the byte level is C08's theorem `*_ser_agree`, used here.) *)
From EP Require Import Base.Bytes IoFault.Spec IoFault.Model IoFault.Proofs.
From EP Require Roundtrip.Common Roundtrip.CommonProofs
  Roundtrip.Tcp Roundtrip.TcpProofs Roundtrip.Ipv4 Roundtrip.Ipv4Proofs
  Roundtrip.Auth Roundtrip.AuthProofs Roundtrip.RawExt Roundtrip.RawExtProofs.
Local Open Scope N_scope.

Module T := EP.Roundtrip.Tcp.
Module TP := EP.Roundtrip.TcpProofs.
Module I4 := EP.Roundtrip.Ipv4.
Module I4P := EP.Roundtrip.Ipv4Proofs.
Module AH := EP.Roundtrip.Auth.
Module AHP := EP.Roundtrip.AuthProofs.
Module RX := EP.Roundtrip.RawExt.
Module RXP := EP.Roundtrip.RawExtProofs.

Lemma two_bytes_of f v :
  wprog_bytes (ipv4_header_write (mk_two f v)) = f ++ v /\
  wprog_bytes (ip_auth_header_write (mk_two f v)) = f ++ v /\
  wprog_bytes (ipv6_raw_ext_header_write (mk_two f v)) = f ++ v /\
  wprog_bytes (tcp_header_write (mk_two f v)) = f ++ v.
Proof.
  destruct (two_part_writers (mk_two f v)) as ((A & _) & (B & _) & (C & _) & (D & _) & _).
  unfold two_bytes in *. cbn [tp_fixed tp_var] in *. auto.
Qed.

Lemma tcp_write_bytes (h : T.TcpHeader) : T.wf_tcp h = true ->
  exists o e,
    T.opt_as_slice (T.options h) = Some o /\ T.to_bytes h = Some e /\
    len (T.fixed_bytes h) = 20 /\
    wprog_bytes (tcp_header_write (mk_two (T.fixed_bytes h) o)) = e /\
    wprog_verdict (tcp_header_write (mk_two (T.fixed_bytes h) o)) = VOk /\
    (forall out, T.write out h = Some (out ++ e)).
Proof.
  intros W. eexists. eexists.
  split; [apply TP.as_slice_wf; exact W|]. split; [apply TP.to_bytes_wf; exact W|].
  split; [apply TP.len_fixed|].
  destruct (two_bytes_of (T.fixed_bytes h) (take (T.o_len (T.options h)) (T.o_buf (T.options h)))) as (_ & _ & _ & D).
  split; [exact D|]. split.
  - unfold tcp_header_write. cbn [tp_var]. destruct (take _ _); reflexivity.
  - intros out. destruct (TP.tcp_ser_agree h out W) as (e & E1 & E2 & _).
    rewrite (TP.to_bytes_wf h W) in E1. apply Roundtrip.CommonProofs.Some_inj in E1. subst e. exact E2.
Qed.

Lemma ipv4_write_bytes (h : I4.Ipv4Header) : I4.wf_ip4 h = true ->
  exists f o e,
    I4.ip4_fixed h (I4.i4_header_checksum h) = Some f /\
    I4.i4o_as_slice (I4.i4_options h) = Some o /\ I4.ip4_to_bytes h = Some e /\
    len f = 20 /\
    wprog_bytes (ipv4_header_write (mk_two f o)) = e /\
    (forall out, I4.ip4_write_raw out h = Some (out ++ e)).
Proof.
  intros W. destruct (I4P.ip4_to_bytes_wf h W) as (f & EF & ET).
  destruct (I4P.wf_ip4_facts h W) as (_ & _ & _ & WO).
  destruct (I4P.fixed_wf h (I4.i4_header_checksum h) W) as (f' & EF' & LF & _).
  rewrite EF in EF'. apply Roundtrip.CommonProofs.Some_inj in EF'. subst f'.
  exists f. eexists. eexists. split; [exact EF|]. split; [apply I4P.i4o_as_slice_wf; exact WO|].
  split; [exact ET|]. split; [exact LF|].
  destruct (two_bytes_of f (take (I4.i4o_len (I4.i4_options h)) (I4.i4o_buf (I4.i4_options h)))) as (A & _).
  split; [exact A|].
  intros out. unfold I4.ip4_write_raw, I4.ip4_write_internal. rewrite EF, (I4P.i4o_as_slice_wf _ WO). reflexivity.
Qed.

Lemma auth_write_bytes (h : AH.IpAuthHeader) : AH.wf_ah h = true ->
  exists f icv e,
    AH.ah_fixed h = Some f /\ AH.ah_raw_icv h = Some icv /\ AH.ah_to_bytes h = Some e /\
    len f = 12 /\
    wprog_bytes (ip_auth_header_write (mk_two f icv)) = e /\
    (forall out, AH.ah_write out h = Some (out ++ e)).
Proof.
  intros W. exists (AHP.ah_fix h), (AHP.ah_icv h), (AHP.ah_fix h ++ AHP.ah_icv h).
  split; [apply AHP.ah_fixed_wf; exact W|]. split; [apply AHP.ah_raw_icv_wf; exact W|].
  split; [apply AHP.ah_to_bytes_wf; exact W|]. split; [apply AHP.len_ah_fix|].
  destruct (two_bytes_of (AHP.ah_fix h) (AHP.ah_icv h)) as (_ & B & _). split; [exact B|].
  intros out. unfold AH.ah_write. rewrite (AHP.ah_fixed_wf h W), (AHP.ah_raw_icv_wf h W). reflexivity.
Qed.

Lemma raw_ext_write_bytes (h : RX.Ipv6RawExtHeader) : RX.wf_rx h = true ->
  exists p e,
    RX.rx_payload h = Some p /\ RX.rx_to_bytes h = Some e /\
    wprog_bytes (ipv6_raw_ext_header_write (mk_two [RX.rx_next_header h; RX.rx_header_length h] p)) = e /\
    (forall out, RX.rx_write out h = Some (out ++ e)).
Proof.
  intros W. exists (RXP.rx_pl h), (RXP.rx_enc h).
  split; [apply RXP.rx_payload_wf; exact W|]. split; [apply RXP.rx_to_bytes_wf; exact W|].
  destruct (two_bytes_of [RX.rx_next_header h; RX.rx_header_length h] (RXP.rx_pl h)) as (_ & _ & C & _).
  split; [exact C|].
  intros out. unfold RX.rx_write. rewrite (RXP.rx_payload_wf h W). reflexivity.
Qed.

Lemma header_writers_bytes :
  (forall h, I4.wf_ip4 h = true ->
     exists f o e,
       I4.ip4_fixed h (I4.i4_header_checksum h) = Some f /\
       I4.i4o_as_slice (I4.i4_options h) = Some o /\ I4.ip4_to_bytes h = Some e /\
       len f = 20 /\
       wprog_bytes (ipv4_header_write (mk_two f o)) = e /\
       (forall out, I4.ip4_write_raw out h = Some (out ++ e))) /\
  (forall h, AH.wf_ah h = true ->
     exists f icv e,
       AH.ah_fixed h = Some f /\ AH.ah_raw_icv h = Some icv /\ AH.ah_to_bytes h = Some e /\
       len f = 12 /\
       wprog_bytes (ip_auth_header_write (mk_two f icv)) = e /\
       (forall out, AH.ah_write out h = Some (out ++ e))) /\
  (forall h, RX.wf_rx h = true ->
     exists p e,
       RX.rx_payload h = Some p /\ RX.rx_to_bytes h = Some e /\
       wprog_bytes (ipv6_raw_ext_header_write (mk_two [RX.rx_next_header h; RX.rx_header_length h] p)) = e /\
       (forall out, RX.rx_write out h = Some (out ++ e))) /\
  (forall h, T.wf_tcp h = true ->
     exists o e,
       T.opt_as_slice (T.options h) = Some o /\ T.to_bytes h = Some e /\
       len (T.fixed_bytes h) = 20 /\
       wprog_bytes (tcp_header_write (mk_two (T.fixed_bytes h) o)) = e /\
       wprog_verdict (tcp_header_write (mk_two (T.fixed_bytes h) o)) = VOk /\
       (forall out, T.write out h = Some (out ++ e))).
Proof.
  split; [exact ipv4_write_bytes|]. split; [exact auth_write_bytes|].
  split; [exact raw_ext_write_bytes | exact tcp_write_bytes].
Qed.
