(* IoFault/ReadPropagate.v -- property C16 (audit round 3, top-12 item 10): the
   crate's READERS in the explicit error-propagation language.

   IoFault/Propagate.v section E has the language `yprog` (YReadThen n k: the
   continuation sees Ok(bytes) / Err(Io) / Err(Len)), the propagating fragment
   and one refuted mutant, but the crate's readers were only given as `rprog`,
   where `PRead` IS `read_exact(..)?` - "the reader returns that I/O error" was a
   property of the interpreter `run_r`.  Here every `read` / `read_limited` of the
   crate is written as the Rust source writes it:

     reader.read_exact(&mut buf)?                       ytry_map m_from n k
     reader.read_exact(&mut buf).map_err(Io)?           ytry_map m_io n k
     reader.read_exact(&mut buf).map_err(map_err)?      ytry_map m_limited n k
     let h = Callee::read(reader).map_err(f)?; k h      ycall callee (yq_call f k)
     Callee::read(reader).map(..).map_err(f)            ycall callee (yq_call f YRet)
     return Callee::read(reader)                        the callee's program

   The `map_err` closure `f` and the `match` behind `?` are PROGRAM TEXT: a
   closure that turns Io into something else, a `let _ = ..`, an `.ok()`, an
   `Err(_) => Ok(default)` are all expressible (section F) and fall outside the
   fragment.  A call is a node of its own (`ycall`): the caller sees the callee's
   Result (Ok(value) / Err(Io) / Err(Len) / Err(Content)) and decides.

   Contents
     A  pointwise equality `req` of read programs (rprog contains functions;
        Leibniz equality of `fun bs => ..` bodies would need functional
        extensionality, which is not assumed), run_r respects it
     B  errors as values, map_err closures, ytry_map, ycall, rcall
     C  agrees_r y p := propagating_r y /\ req (strip_r y) p; composition lemmas
     D  the crate's readers in explicit form
     E  each agrees with its Model.v transliteration (14 plain readers, the
        three standalone read/read_limited pairs, Ipv4Extensions / Ipv6Extensions
        ::read / ::read_limited); hence run_y = run_r on every state and the
        read-fault theorem + totality hold for the explicit programs
     F  a caller that swallows the callee's error: expressible, outside the
        fragment, answers Ok on a source that failed

   Residual (said in notes/round3_c16rp.md): `LimitedReader::read_exact` itself
   contains `self.reader.read_exact(buf).map_err(Io)?`; that one `?` stays inside
   `lr_read_exact` (Model.v), i.e. in the interpreter of YReadThen.  That a crate
   function IS the program given here is transliteration, tied to the code by
   the fault-injection run (which now also executes these explicit programs). *)
From EP Require Import Base.Bytes IoFault.Spec IoFault.Model IoFault.Proofs IoFault.ReadFault
  IoFault.Propagate.
Local Open Scope N_scope.

(* ================================================================ A *)
Inductive req : rprog -> rprog -> Prop :=
  | req_ret a : req (PRet a) (PRet a)
  | req_fail c : req (PFail c) (PFail c)
  | req_lenerr e : req (PLenErr e) (PLenErr e)
  | req_bad : req PBad PBad
  | req_fuel : req PFuelOut PFuelOut
  | req_read n k k' : (forall bs, req (k bs) (k' bs)) -> req (PRead n k) (PRead n k')
  | req_start layer k k' : req k k' -> req (PStart layer k) (PStart layer k')
  | req_limit m ls off layer k k' : req k k' -> req (PLimit m ls off layer k) (PLimit m ls off layer k').

Lemma req_refl p : req p p.
Proof.
  induction p as [a|c|e| | |n k IH|layer k IH|m ls off layer k IH]; constructor; auto.
Qed.

Lemma req_of_eq p q : p = q -> req p q.
Proof. intros ->. apply req_refl. Qed.

Lemma req_sym p q : req p q -> req q p.
Proof. induction 1; constructor; auto. Qed.

Lemma req_trans p q : req p q -> forall r, req q r -> req p r.
Proof.
  induction 1 as [a|c|e| | |n k k' Hk IH|layer k k' Hk IH|m ls off layer k k' Hk IH];
    intros r Hr; try exact Hr.
  - inversion Hr as [ | | | | |n0 k0 k'' Hk'| | ]; subst. constructor. intros bs. apply IH, Hk'.
  - inversion Hr as [ | | | | | |layer0 k0 k'' Hk'| ]; subst. constructor. apply IH, Hk'.
  - inversion Hr as [ | | | | | | |m0 ls0 off0 layer0 k0 k'' Hk']; subst. constructor. apply IH, Hk'.
Qed.

Lemma req_run p q : req p q -> forall st, run_r p st = run_r q st.
Proof.
  induction 1 as [a|c|e| | |n k k' Hk IH|layer k k' Hk IH|m ls off layer k k' Hk IH];
    intros st; cbn [run_r]; try reflexivity.
  - destruct (rs_lim st) as [r|].
    + destruct (lr_read_exact r (rs_src st) n) as [[[bs|e|e|c| | | ] r'] s']; try reflexivity. apply IH.
    + destruct (io_read_exact (rs_src st) n) as [[bs|e| | ] s']; try reflexivity. apply IH.
  - destruct (rs_lim st) as [r|]; [|reflexivity]. destruct (lr_start_layer r layer); [apply IH | reflexivity].
  - destruct (rs_lim st) as [r|]; [reflexivity | apply IH].
Qed.

(* ================================================================ B *)
(* the error half of a Result as a value *)
Inductive yerr := EIo (k : iokind) | ELen (e : lenerr) | EContent (c : cerr).

(* return Err(e) *)
Definition yraise (e : yerr) : yprog :=
  match e with EIo k => YIoErr k | ELen l => YLenErr l | EContent c => YFail c end.

(* the map_err closures of the crate (cerr has no nesting: Content(IpAuth(err)),
   Content(Ipv4Ext(err)), Content(Ipv6Ext(err)) keep the inner error) *)
(* `?` alone: From::from, the error type stays / is wrapped variant by variant *)
Definition m_from (e : yerr) : yerr := e.
(* .map_err(Io): the operand's error type is std::io::Error *)
Definition m_io (e : yerr) : yerr := match e with EIo k => EIo k | o => o end.
(* fn map_err / map_limited_err (LimitedReadError): I::Io(err) => Io(err), I::Len(err) => Len(err) *)
Definition m_limited (e : yerr) : yerr :=
  match e with EIo k => EIo k | ELen l => ELen l | o => o end.
(* |err| match err { I::Io(err) => Io(err), I::Len(err) => Len(err), I::Content(err) => Content(Wrap(err)) } *)
Definition m_content (e : yerr) : yerr :=
  match e with EIo k => EIo k | ELen l => ELen l | EContent c => EContent c end.

(* a closure that keeps every error what it is *)
Definition m_ok (f : yerr -> yerr) : Prop := forall e, f e = e.
Lemma m_from_ok : m_ok m_from. Proof. intros e. reflexivity. Qed.
Lemma m_io_ok : m_ok m_io. Proof. intros [k|l|c]; reflexivity. Qed.
Lemma m_limited_ok : m_ok m_limited. Proof. intros [k|l|c]; reflexivity. Qed.
Lemma m_content_ok : m_ok m_content. Proof. intros [k|l|c]; reflexivity. Qed.

(* what read_exact returned, as a Result *)
Definition rd_result (r : rdres) : bytes + yerr :=
  match r with DOk bs => inl bs | DIo e => inr (EIo e) | DLen e => inr (ELen e) end.

(* reader.read_exact(&mut buf[..n]).map_err(f)?; k buf *)
Definition ytry_map (f : yerr -> yerr) (n : N) (k : bytes -> yprog) : yprog :=
  YReadThen n (fun r => match rd_result r with inl bs => k bs | inr e => yraise (f e) end).

(* match callee(reader) { r => k r }: every leaf of the callee is a returned Result *)
Fixpoint ycall (a : yprog) (k : list N + yerr -> yprog) : yprog :=
  match a with
  | YRet v => k (inl v)
  | YFail c => k (inr (EContent c))
  | YLenErr e => k (inr (ELen e))
  | YIoErr e => k (inr (EIo e))
  | YBad => YBad
  | YFuelOut => YFuelOut
  | YReadThen n g => YReadThen n (fun r => ycall (g r) k)
  | YStart layer p => YStart layer (ycall p k)
  | YLimit m ls off layer p => YLimit m ls off layer (ycall p k)
  end.

(* callee(reader).map_err(f)?  followed by k *)
Definition yq_call (f : yerr -> yerr) (k : list N -> yprog) : list N + yerr -> yprog :=
  fun r => match r with inl v => k v | inr e => yraise (f e) end.

(* the same on read programs: only the Ok leaves continue *)
Fixpoint rcall (p : rprog) (k : list N -> rprog) : rprog :=
  match p with
  | PRet v => k v
  | PFail c => PFail c
  | PLenErr e => PLenErr e
  | PBad => PBad
  | PFuelOut => PFuelOut
  | PRead n g => PRead n (fun bs => rcall (g bs) k)
  | PStart layer q => PStart layer (rcall q k)
  | PLimit m ls off layer q => PLimit m ls off layer (rcall q k)
  end.

Lemma rcall_req p p' : req p p' -> forall k k', (forall v, req (k v) (k' v)) ->
  req (rcall p k) (rcall p' k').
Proof.
  induction 1 as [a|c|e| | |n g g' Hg IH|layer g g' Hg IH|m ls off layer g g' Hg IH];
    intros k k' Hk; cbn [rcall]; try (constructor; auto; fail).
  apply Hk.
Qed.

Lemma rcall_ret p : req (rcall p PRet) p.
Proof.
  induction p as [a|c|e| | |n k IH|layer k IH|m ls off layer k IH]; cbn [rcall]; constructor; auto.
Qed.

(* ================================================================ C *)
(* in the fragment, and the success path is (pointwise) the Model.v program *)
Definition agrees_r (y : yprog) (p : rprog) : Prop := propagating_r y /\ req (strip_r y) p.

Lemma agrees_r_run y p : agrees_r y p -> forall st, run_y y st = run_r p st.
Proof. intros [H1 H2] st. rewrite (run_y_strip y H1). apply req_run. exact H2. Qed.

Lemma agrees_r_req y p q : agrees_r y p -> req p q -> agrees_r y q.
Proof. intros [H1 H2] H. split; [exact H1 | exact (req_trans _ _ H2 _ H)]. Qed.

Lemma agrees_r_ret a : agrees_r (YRet a) (PRet a).
Proof. split; constructor. Qed.
Lemma agrees_r_fail c : agrees_r (YFail c) (PFail c).
Proof. split; constructor. Qed.
Lemma agrees_r_lenerr e : agrees_r (YLenErr e) (PLenErr e).
Proof. split; constructor. Qed.
Lemma agrees_r_bad : agrees_r YBad PBad.
Proof. split; constructor. Qed.
Lemma agrees_r_fuel : agrees_r YFuelOut PFuelOut.
Proof. split; constructor. Qed.

Lemma agrees_r_try f n k k' : m_ok f -> (forall bs, agrees_r (k bs) (k' bs)) ->
  agrees_r (ytry_map f n k) (PRead n k').
Proof.
  intros Hf Hk. unfold ytry_map. split.
  - apply propr_read.
    + intros e. cbn [rd_result]. rewrite Hf. reflexivity.
    + intros e. cbn [rd_result]. rewrite Hf. reflexivity.
    + intros bs. cbn [rd_result]. apply Hk.
  - cbn [strip_r rd_result]. apply req_read. intros bs. apply Hk.
Qed.

Lemma agrees_r_start layer k k' : agrees_r k k' -> agrees_r (YStart layer k) (PStart layer k').
Proof. intros [H1 H2]. split; [constructor; exact H1 | cbn [strip_r]; constructor; exact H2]. Qed.

Lemma agrees_r_limit m ls off layer k k' : agrees_r k k' ->
  agrees_r (YLimit m ls off layer k) (PLimit m ls off layer k').
Proof. intros [H1 H2]. split; [constructor; exact H1 | cbn [strip_r]; constructor; exact H2]. Qed.

(* checked index into a buffer that was just filled *)
Definition y_at (bs : bytes) (i : N) (k : N -> yprog) : yprog :=
  match rd bs i with Some v => k v | None => YBad end.

Lemma agrees_r_at bs i k k' : (forall v, agrees_r (k v) (k' v)) -> agrees_r (y_at bs i k) (at_ bs i k').
Proof. intros H. unfold y_at, at_. destruct (rd bs i); [apply H | apply agrees_r_bad]. Qed.

(* the value a callee returns is a list; the callers use its first entry (the
   header's next_header) *)
Definition y_hd (v : list N) (k : N -> yprog) : yprog :=
  match v with nh :: _ => k nh | [] => YBad end.
Definition r_hd (v : list N) (k : N -> rprog) : rprog :=
  match v with nh :: _ => k nh | [] => PBad end.

Lemma agrees_r_hd k k' : (forall nh, agrees_r (k nh) (k' nh)) -> forall v, agrees_r (y_hd v k) (r_hd v k').
Proof. intros H [|nh t]; [apply agrees_r_bad | apply H]. Qed.

(* calls *)
Lemma propr_ycall a : propagating_r a -> forall f k, m_ok f -> (forall v, propagating_r (k v)) ->
  propagating_r (ycall a (yq_call f k)).
Proof.
  induction 1 as [v|c|e| | |n g Hio Hlen Hg IH|layer g Hg IH|m ls off layer g Hg IH];
    intros f k Hf Hk; cbn [ycall yq_call].
  - apply Hk.
  - rewrite Hf. constructor.
  - rewrite Hf. constructor.
  - constructor.
  - constructor.
  - apply propr_read.
    + intros e. rewrite Hio. cbn [ycall yq_call]. rewrite Hf. reflexivity.
    + intros e. rewrite Hlen. cbn [ycall yq_call]. rewrite Hf. reflexivity.
    + intros bs. apply IH; assumption.
  - constructor. apply IH; assumption.
  - constructor. apply IH; assumption.
Qed.

Lemma strip_ycall a : propagating_r a -> forall f k, m_ok f ->
  req (strip_r (ycall a (yq_call f k))) (rcall (strip_r a) (fun v => strip_r (k v))).
Proof.
  induction 1 as [v|c|e| | |n g Hio Hlen Hg IH|layer g Hg IH|m ls off layer g Hg IH];
    intros f k Hf; cbn [ycall yq_call strip_r rcall].
  - apply req_refl.
  - rewrite Hf. constructor.
  - rewrite Hf. constructor.
  - constructor.
  - constructor.
  - constructor. intros bs. apply IH. exact Hf.
  - constructor. apply IH. exact Hf.
  - constructor. apply IH. exact Hf.
Qed.

(* callee(reader).map_err(f)?; k  --  pa the callee's Model.v program, kr the
   caller's continuation, q the Model.v program of the whole (in continuation-
   passing form there) *)
Lemma agrees_r_call a pa f k kr q : agrees_r a pa -> m_ok f -> (forall v, agrees_r (k v) (kr v)) ->
  req (rcall pa kr) q -> agrees_r (ycall a (yq_call f k)) q.
Proof.
  intros [A1 A2] Hf Hk Hq. split.
  - apply propr_ycall; [exact A1 | exact Hf | intros v; apply Hk].
  - apply (req_trans _ _ (strip_ycall a A1 f k Hf)).
    apply (req_trans _ (rcall pa kr)); [|exact Hq].
    apply rcall_req; [exact A2 | intros v; apply Hk].
Qed.

(* the two halves of agrees_r_call as one statement about an arbitrary callee *)
Lemma call_propagates a f k : propagating_r a -> m_ok f -> (forall v, propagating_r (k v)) ->
  propagating_r (ycall a (yq_call f k)) /\
  req (strip_r (ycall a (yq_call f k))) (rcall (strip_r a) (fun v => strip_r (k v))).
Proof.
  intros Ha Hf Hk. split; [apply propr_ycall; assumption | apply strip_ycall; assumption].
Qed.

(* req is an equivalence that contains equality and is respected by run_r *)
Lemma req_equiv_run :
  (forall p, req p p) /\ (forall p q, req p q -> req q p) /\
  (forall p q r, req p q -> req q r -> req p r) /\
  (forall p q, req p q -> forall st, run_r p st = run_r q st).
Proof.
  split; [exact req_refl|]. split; [exact req_sym|]. split; [|exact req_run].
  intros p q r H1 H2. exact (req_trans p q H1 r H2).
Qed.

(* ================================================================ D *)
(* Ethernet2Header(14) SingleVlanHeader(4) LinuxSllHeader(16; the content check
   of from_bytes is not part of read_fixed) Ipv6FragmentHeader(8) UdpHeader(8)
   Icmpv6Header(8) ::read:
       let mut buffer = [0; LEN]; reader.read_exact(&mut buffer)?; Ok(..) *)
Definition y_read_fixed (n : N) : yprog := ytry_map m_from n (fun _ => YRet []).

(* Ipv4Header::read_without_version:
       reader.read_exact(&mut header_raw[1..]).map_err(Io)?;
       if ihl < 5 { return Err(Content(..)) }
       if false == options.is_empty() { reader.read_exact(options.as_mut()).map_err(Io)?; } *)
Definition y_ipv4_read_without_version (first_byte : N) : yprog :=
  ytry_map m_io 19 (fun _ =>
    let ihl := first_byte mod 16 in
    if ihl <? 5 then YFail CIhl
    else
      let options_len := (ihl - 5) * 4 in
      if options_len =? 0 then YRet [20]
      else ytry_map m_io options_len (fun _ => YRet [20 + options_len])).

(* Ipv4Header::read:
       reader.read_exact(&mut first_byte).map_err(Io)?;
       if 4 != version_number { return Err(Content(UnexpectedVersion)) }
       Ipv4Header::read_without_version(reader, first_byte[0])        (returned) *)
Definition y_ipv4_header_read : yprog :=
  ytry_map m_io 1 (fun b => y_at b 0 (fun v =>
    if v / 16 =? 4 then y_ipv4_read_without_version v else YFail CVersion)).

(* Ipv6Header::read_without_version: reader.read_exact(&mut buffer[..])?; Ok(Ipv6Header{..})
   (the value is the 39-byte buffer) *)
Definition y_ipv6_read_without_version : yprog := ytry_map m_from 39 (fun buffer => YRet buffer).

(* Ipv6Header::read:
       reader.read_exact(&mut value).map_err(Io)?;
       if 6 != version_number { return Err(Content(..)) }
       Ipv6Header::read_without_version(reader, value[0] & 0xf).map_err(Io) *)
Definition y_ipv6_header_read : yprog :=
  ytry_map m_io 1 (fun b => y_at b 0 (fun v =>
    if v / 16 =? 6 then ycall y_ipv6_read_without_version (yq_call m_io (fun _ => YRet [40]))
    else YFail CVersion)).

(* TcpHeader::read:
       reader.read_exact(&mut raw).map_err(Io)?;
       if data_offset < 5 { return Err(Content(..)) }
       if options.len > 0 { reader.read_exact(&mut options.buf[..len]).map_err(Io)?; } *)
Definition y_tcp_header_read : yprog :=
  ytry_map m_io 20 (fun raw => y_at raw 12 (fun v =>
    let data_offset := v / 16 in
    if data_offset <? 5 then YFail CDataOffset
    else
      let olen := (data_offset - 5) * 4 in
      if 0 <? olen then ytry_map m_io olen (fun _ => YRet [20 + olen]) else YRet [20])).

(* Icmpv4Header::read:
       reader.read_exact(&mut bytes[..8])?;
       TYPE_TIMESTAMP_REPLY | TYPE_TIMESTAMP if 0 == bytes[1] =>
         reader.read_exact(&mut bytes[8..20])?; *)
Definition y_icmpv4_header_read : yprog :=
  ytry_map m_from 8 (fun bytes => y_at bytes 0 (fun ty => y_at bytes 1 (fun code =>
    if (ty =? 14) || (ty =? 13) then
      if code =? 0 then ytry_map m_from 12 (fun _ => YRet [20]) else YRet [8]
    else YRet [8]))).

(* MacsecHeader::read:
       reader.read_exact(&mut bytes[..6]).map_err(Io)?;   two content checks;
       if required_len > 6 { reader.read_exact(&mut bytes[6..required_len]).map_err(Io)?; } *)
Definition y_macsec_header_read : yprog :=
  ytry_map m_io 6 (fun bytes => y_at bytes 0 (fun tci_an => y_at bytes 1 (fun b1 =>
    if N.testbit tci_an 7 then YFail CMacsecVersion
    else
      let unmodified := N.land tci_an 12 =? 0 in
      if unmodified && (b1 mod 64 =? 1) then YFail CMacsecShortLen
      else
        let required_len := 6 + (if unmodified then 2 else 0) + (if N.testbit tci_an 5 then 8 else 0) in
        if 6 <? required_len then ytry_map m_io (required_len - 6) (fun _ => YRet [required_len])
        else YRet [required_len]))).

(* ArpPacket::read: five times  reader.read_exact(..)?; *)
Definition y_arp_packet_read : yprog :=
  ytry_map m_from 8 (fun start => y_at start 4 (fun hw => y_at start 5 (fun proto =>
    ytry_map m_from hw (fun _ => ytry_map m_from proto (fun _ =>
    ytry_map m_from hw (fun _ => ytry_map m_from proto (fun _ =>
      YRet [8 + 2 * hw + 2 * proto]))))))).

(* reader.start_layer(layer)  in the read_limited variants *)
Definition y_with_start (lim : bool) (layer : N) (k : yprog) : yprog :=
  if lim then YStart layer k else k.

(* IpAuthHeader::read (lim = false):   reader.read_exact(&mut start).map_err(Io)?; ..
                                        reader.read_exact(&mut buffer[..]).map_err(Io)?
   IpAuthHeader::read_limited (true):  reader.start_layer(Layer::IpAuthHeader);
                                        reader.read_exact(&mut start).map_err(map_err)?; ..
                                        reader.read_exact(&mut buffer[..]).map_err(map_err)?
   value: [next_header] *)
Definition m_auth (lim : bool) : yerr -> yerr := if lim then m_limited else m_io.

Definition y_ip_auth_read (lim : bool) : yprog :=
  y_with_start lim L_AUTH
    (ytry_map (m_auth lim) 12 (fun start => y_at start 0 (fun next_header => y_at start 1 (fun payload_len =>
      if payload_len <? 1 then YFail CAuthZeroLen
      else ytry_map (m_auth lim) ((payload_len - 1) * 4) (fun _ => YRet [next_header]))))).

(* Ipv6RawExtHeader::read / read_limited: reader.read_exact(&mut d)?;
       reader.read_exact(&mut buffer[..usize::from(header_length) * 8 + 6])?; *)
Definition y_ipv6_raw_ext_read (lim : bool) : yprog :=
  y_with_start lim L_IPV6EXT
    (ytry_map m_from 2 (fun d => y_at d 0 (fun next_header => y_at d 1 (fun header_length =>
      ytry_map m_from (header_length * 8 + 6) (fun _ => YRet [next_header]))))).

(* Ipv6FragmentHeader::read / read_limited: reader.read_exact(&mut buffer)?; *)
Definition y_ipv6_frag_read (lim : bool) : yprog :=
  y_with_start lim L_IPV6FRAG
    (ytry_map m_from 8 (fun b => y_at b 0 (fun next_header => YRet [next_header]))).

(* Ipv4Extensions::read / read_limited:
       if AUTH == start_ip_number { let header = IpAuthHeader::read(reader)?; .. } *)
Definition y_x4_read (lim : bool) (start_ip_number : N) : yprog :=
  if AUTH =? start_ip_number then
    ycall (y_ip_auth_read lim) (yq_call m_from (fun v => y_hd v (fun next => YRet [next; 1])))
  else YRet [start_ip_number; 0].

(* Ipv6Extensions::read:          Ipv6RawExtHeader::read(reader).map_err(Io)?
                                  Ipv6FragmentHeader::read(reader).map_err(Io)?
                                  IpAuthHeader::read(reader).map_err(|err| match err {
                                     I::Io(err) => Io(err), I::Content(err) => Content(IpAuth(err)) })?
   Ipv6Extensions::read_limited:  ..::read_limited(reader).map_err(map_limited_err)?
                                  IpAuthHeader::read_limited(reader).map_err(|err| match err {
                                     I::Io(err) => Io(err), I::Len(err) => Len(err),
                                     I::Content(err) => Content(IpAuth(err)) })? *)
Definition m_x6 (lim : bool) : yerr -> yerr := if lim then m_limited else m_io.

Fixpoint y_x6_read_loop (fuel : nat) (lim : bool) (s : slots) (next_protocol : N) : yprog :=
  match fuel with
  | O => YFuelOut
  | S f =>
    let done := YRet [next_protocol; slots_mask s] in
    if next_protocol =? IPV6_HOP_BY_HOP then YFail CHopNotAtStart
    else if next_protocol =? IPV6_DEST_OPTIONS then
      if s_route s then
        if s_final s then done
        else ycall (y_ipv6_raw_ext_read lim) (yq_call (m_x6 lim) (fun v => y_hd v (fun nh =>
               y_x6_read_loop f lim (mk_slots (s_hop s) (s_dest s) (s_route s) true (s_frag s) (s_auth s)) nh)))
      else if s_dest s then done
      else ycall (y_ipv6_raw_ext_read lim) (yq_call (m_x6 lim) (fun v => y_hd v (fun nh =>
             y_x6_read_loop f lim (mk_slots (s_hop s) true (s_route s) (s_final s) (s_frag s) (s_auth s)) nh)))
    else if next_protocol =? IPV6_ROUTE then
      if s_route s then done
      else ycall (y_ipv6_raw_ext_read lim) (yq_call (m_x6 lim) (fun v => y_hd v (fun nh =>
             y_x6_read_loop f lim (mk_slots (s_hop s) (s_dest s) true (s_final s) (s_frag s) (s_auth s)) nh)))
    else if next_protocol =? IPV6_FRAG then
      if s_frag s then done
      else ycall (y_ipv6_frag_read lim) (yq_call (m_x6 lim) (fun v => y_hd v (fun nh =>
             y_x6_read_loop f lim (mk_slots (s_hop s) (s_dest s) (s_route s) (s_final s) true (s_auth s)) nh)))
    else if next_protocol =? AUTH then
      if s_auth s then done
      else ycall (y_ip_auth_read lim) (yq_call m_content (fun v => y_hd v (fun nh =>
             y_x6_read_loop f lim (mk_slots (s_hop s) (s_dest s) (s_route s) (s_final s) (s_frag s) true) nh)))
    else done
  end.

Definition y_x6_read (lim : bool) (start_ip_number : N) : yprog :=
  if IPV6_HOP_BY_HOP =? start_ip_number then
    ycall (y_ipv6_raw_ext_read lim) (yq_call (m_x6 lim) (fun v => y_hd v (fun nh =>
      y_x6_read_loop X6_READ_FUEL lim (mk_slots true false false false false false) nh)))
  else y_x6_read_loop X6_READ_FUEL lim no_slots start_ip_number.

(* IpHeaders::read:
       reader.read_exact(&mut buf).map_err(Io)?;
       4 => if ihl < 5 { return Err(Content(..)) }
            reader.read_exact(&mut buffer[1..header_len]).map_err(Io)?;
            if total_len < header_len { return Err(Len(..)) } else { LimitedReader::new(..) };
            Ipv4Extensions::read_limited(&mut reader, header.protocol).map(..).map_err(|err| match err {
               I::Io(err) => Io(err), I::Len(err) => Len(err), I::Content(err) => Content(Ipv4Ext(err)) })
       6 => let header = Ipv6Header::read_without_version(reader, value & 0xf).map_err(Io)?;
            LimitedReader::new(..);
            Ipv6Extensions::read_limited(&mut reader, header.next_header).map(..).map_err(|err| ..)
       _ => Err(Content(Ip(UnsupportedIpVersion))) *)
Definition y_ip_headers_read : yprog :=
  ytry_map m_io 1 (fun buf => y_at buf 0 (fun value =>
    if value / 16 =? 4 then
      let ihl := value mod 16 in
      if ihl <? 5 then YFail CIhl
      else
        let header_len := ihl * 4 in
        ytry_map m_io (header_len - 1) (fun rest =>
          y_at rest 1 (fun t0 => y_at rest 2 (fun t1 => y_at rest 8 (fun protocol =>
            let total_len := t0 * 256 + t1 in
            if total_len <? header_len then
              YLenErr (mk_lenerr header_len total_len LS_IPV4_TOTAL L_IPV4PKT 0)
            else
              YLimit (total_len - header_len) LS_IPV4_TOTAL header_len L_IPV4H
                     (ycall (y_x4_read true protocol) (yq_call m_content YRet))))))
    else if value / 16 =? 6 then
      ycall y_ipv6_read_without_version (yq_call m_io (fun buffer =>
        y_at buffer 3 (fun p0 => y_at buffer 4 (fun p1 => y_at buffer 5 (fun next_header =>
          YLimit (p0 * 256 + p1) LS_IPV6_PAYLOAD 40 L_IPV6H
                 (ycall (y_x6_read true next_header) (yq_call m_content YRet)))))))
    else YFail CVersion)).

(* every reader of the crate on a plain source, in the order of `plain_readers` *)
Definition y_plain_readers : list yprog :=
  [y_read_fixed 14; y_read_fixed 4; y_read_fixed 16; y_read_fixed 8;
   y_ipv4_header_read; y_ipv6_header_read; y_tcp_header_read; y_icmpv4_header_read;
   y_macsec_header_read; y_arp_packet_read; y_ip_headers_read;
   y_ip_auth_read false; y_ipv6_raw_ext_read false; y_ipv6_frag_read false].

(* ================================================================ E *)
Lemma agrees_r_with_start lim layer k k' : agrees_r k k' ->
  agrees_r (y_with_start lim layer k) (with_start lim layer k').
Proof. intros H. unfold y_with_start, with_start. destruct lim; [apply agrees_r_start|]; exact H. Qed.

Lemma m_auth_ok lim : m_ok (m_auth lim).
Proof. destruct lim; [apply m_limited_ok | apply m_io_ok]. Qed.
Lemma m_x6_ok lim : m_ok (m_x6 lim).
Proof. destruct lim; [apply m_limited_ok | apply m_io_ok]. Qed.

Lemma agrees_read_fixed n : agrees_r (y_read_fixed n) (read_fixed n).
Proof. apply agrees_r_try; [apply m_from_ok | intros; apply agrees_r_ret]. Qed.

Lemma agrees_ipv4_rwv v : agrees_r (y_ipv4_read_without_version v) (ipv4_read_without_version v).
Proof.
  unfold y_ipv4_read_without_version, ipv4_read_without_version.
  apply agrees_r_try; [apply m_io_ok|]. intros _. cbv zeta.
  destruct (v mod 16 <? 5); [apply agrees_r_fail|].
  destruct ((v mod 16 - 5) * 4 =? 0); [apply agrees_r_ret|].
  apply agrees_r_try; [apply m_io_ok | intros; apply agrees_r_ret].
Qed.

Lemma agrees_ipv4_header_read : agrees_r y_ipv4_header_read ipv4_header_read.
Proof.
  apply agrees_r_try; [apply m_io_ok|]. intros b. apply agrees_r_at. intros v.
  destruct (v / 16 =? 4); [apply agrees_ipv4_rwv | apply agrees_r_fail].
Qed.

Lemma agrees_ipv6_rwv : agrees_r y_ipv6_read_without_version (ipv6_read_without_version PRet).
Proof. apply agrees_r_try; [apply m_from_ok | intros; apply agrees_r_ret]. Qed.

(* a call of read_without_version followed by k = the Model.v program in
   continuation-passing form *)
Lemma agrees_call_ipv6_rwv f k k' : m_ok f -> (forall b, agrees_r (k b) (k' b)) ->
  agrees_r (ycall y_ipv6_read_without_version (yq_call f k)) (ipv6_read_without_version k').
Proof.
  intros Hf Hk. apply (agrees_r_call _ _ f k k' _ agrees_ipv6_rwv Hf Hk).
  unfold ipv6_read_without_version. cbn [rcall]. apply req_refl.
Qed.

Lemma agrees_ipv6_header_read : agrees_r y_ipv6_header_read ipv6_header_read.
Proof.
  apply agrees_r_try; [apply m_io_ok|]. intros b. apply agrees_r_at. intros v.
  destruct (v / 16 =? 6); [|apply agrees_r_fail].
  apply agrees_call_ipv6_rwv; [apply m_io_ok | intros; apply agrees_r_ret].
Qed.

Lemma agrees_tcp_header_read : agrees_r y_tcp_header_read tcp_header_read.
Proof.
  apply agrees_r_try; [apply m_io_ok|]. intros raw. apply agrees_r_at. intros v. cbv zeta.
  destruct (v / 16 <? 5); [apply agrees_r_fail|].
  destruct (0 <? (v / 16 - 5) * 4); [|apply agrees_r_ret].
  apply agrees_r_try; [apply m_io_ok | intros; apply agrees_r_ret].
Qed.

Lemma agrees_icmpv4_header_read : agrees_r y_icmpv4_header_read icmpv4_header_read.
Proof.
  apply agrees_r_try; [apply m_from_ok|]. intros bytes. apply agrees_r_at. intros ty.
  apply agrees_r_at. intros code.
  destruct ((ty =? 14) || (ty =? 13)); [|apply agrees_r_ret].
  destruct (code =? 0); [|apply agrees_r_ret].
  apply agrees_r_try; [apply m_from_ok | intros; apply agrees_r_ret].
Qed.

Lemma agrees_macsec_header_read : agrees_r y_macsec_header_read macsec_header_read.
Proof.
  apply agrees_r_try; [apply m_io_ok|]. intros bytes. apply agrees_r_at. intros tci.
  apply agrees_r_at. intros b1. cbv zeta.
  destruct (N.testbit tci 7); [apply agrees_r_fail|].
  destruct ((N.land tci 12 =? 0) && (b1 mod 64 =? 1)); [apply agrees_r_fail|].
  destruct (6 <? 6 + (if N.land tci 12 =? 0 then 2 else 0) + (if N.testbit tci 5 then 8 else 0));
    [|apply agrees_r_ret].
  apply agrees_r_try; [apply m_io_ok | intros; apply agrees_r_ret].
Qed.

Lemma agrees_arp_packet_read : agrees_r y_arp_packet_read arp_packet_read.
Proof.
  apply agrees_r_try; [apply m_from_ok|]. intros start. apply agrees_r_at. intros hw.
  apply agrees_r_at. intros proto.
  repeat (apply agrees_r_try; [apply m_from_ok|]; intros _). apply agrees_r_ret.
Qed.

(* the three readers that exist as read / read_limited and are called by the
   extension readers: in continuation-passing form for every continuation *)
Lemma agrees_ip_auth_read_k lim k k' : (forall nh, agrees_r (k nh) (k' nh)) ->
  agrees_r (y_with_start lim L_AUTH
     (ytry_map (m_auth lim) 12 (fun start => y_at start 0 (fun next_header => y_at start 1 (fun payload_len =>
        if payload_len <? 1 then YFail CAuthZeroLen
        else ytry_map (m_auth lim) ((payload_len - 1) * 4) (fun _ => k next_header))))))
    (ip_auth_read lim k').
Proof.
  intros Hk. unfold ip_auth_read. apply agrees_r_with_start.
  apply agrees_r_try; [apply m_auth_ok|]. intros start. apply agrees_r_at. intros nh.
  apply agrees_r_at. intros pl. destruct (pl <? 1); [apply agrees_r_fail|].
  apply agrees_r_try; [apply m_auth_ok|]. intros _. apply Hk.
Qed.

Lemma agrees_ip_auth_read lim : agrees_r (y_ip_auth_read lim) (ip_auth_read lim (fun nh => PRet [nh])).
Proof. apply agrees_ip_auth_read_k. intros nh. apply agrees_r_ret. Qed.

Lemma agrees_ipv6_raw_ext_read lim :
  agrees_r (y_ipv6_raw_ext_read lim) (ipv6_raw_ext_read lim (fun nh => PRet [nh])).
Proof.
  unfold y_ipv6_raw_ext_read, ipv6_raw_ext_read. apply agrees_r_with_start.
  apply agrees_r_try; [apply m_from_ok|]. intros d. apply agrees_r_at. intros nh.
  apply agrees_r_at. intros hl. apply agrees_r_try; [apply m_from_ok|]. intros _. apply agrees_r_ret.
Qed.

Lemma agrees_ipv6_frag_read lim :
  agrees_r (y_ipv6_frag_read lim) (ipv6_frag_read lim (fun nh => PRet [nh])).
Proof.
  unfold y_ipv6_frag_read, ipv6_frag_read. apply agrees_r_with_start.
  apply agrees_r_try; [apply m_from_ok|]. intros b. apply agrees_r_at. intros nh. apply agrees_r_ret.
Qed.

(* rcall of the continuation-passing Model.v readers: the continuation moves in *)
Lemma rcall_at bs i g k : rcall (at_ bs i g) k = at_ bs i (fun v => rcall (g v) k).
Proof. unfold at_. destruct (rd bs i); reflexivity. Qed.

Lemma rcall_with_start lim layer p k :
  rcall (with_start lim layer p) k = with_start lim layer (rcall p k).
Proof. unfold with_start. destruct lim; reflexivity. Qed.

Lemma req_at bs i g g' : (forall v, req (g v) (g' v)) -> req (at_ bs i g) (at_ bs i g').
Proof. intros H. unfold at_. destruct (rd bs i); [apply H | constructor]. Qed.

Lemma req_with_start lim layer p p' : req p p' -> req (with_start lim layer p) (with_start lim layer p').
Proof. intros H. unfold with_start. destruct lim; [constructor|]; exact H. Qed.

Lemma rcall_ip_auth lim k :
  req (rcall (ip_auth_read lim (fun nh => PRet [nh])) (fun v => r_hd v k)) (ip_auth_read lim k).
Proof.
  unfold ip_auth_read. rewrite rcall_with_start. apply req_with_start. cbn [rcall].
  apply req_read. intros start. rewrite rcall_at. apply req_at. intros nh.
  rewrite rcall_at. apply req_at. intros pl.
  destruct (pl <? 1); cbn [rcall]; [constructor|]. apply req_read. intros _. cbn [rcall r_hd]. apply req_refl.
Qed.

Lemma rcall_raw_ext lim k :
  req (rcall (ipv6_raw_ext_read lim (fun nh => PRet [nh])) (fun v => r_hd v k)) (ipv6_raw_ext_read lim k).
Proof.
  unfold ipv6_raw_ext_read. rewrite rcall_with_start. apply req_with_start. cbn [rcall].
  apply req_read. intros d. rewrite rcall_at. apply req_at. intros nh.
  rewrite rcall_at. apply req_at. intros hl. cbn [rcall]. apply req_read. intros _.
  cbn [rcall r_hd]. apply req_refl.
Qed.

Lemma rcall_frag lim k :
  req (rcall (ipv6_frag_read lim (fun nh => PRet [nh])) (fun v => r_hd v k)) (ipv6_frag_read lim k).
Proof.
  unfold ipv6_frag_read. rewrite rcall_with_start. apply req_with_start. cbn [rcall].
  apply req_read. intros b. rewrite rcall_at. apply req_at. intros nh. cbn [rcall r_hd]. apply req_refl.
Qed.

Lemma agrees_call_auth lim f k k' : m_ok f -> (forall nh, agrees_r (k nh) (k' nh)) ->
  agrees_r (ycall (y_ip_auth_read lim) (yq_call f (fun v => y_hd v k))) (ip_auth_read lim k').
Proof.
  intros Hf Hk.
  apply (agrees_r_call _ _ f _ (fun v => r_hd v k') _ (agrees_ip_auth_read lim) Hf (agrees_r_hd k k' Hk)).
  apply rcall_ip_auth.
Qed.

Lemma agrees_call_raw_ext lim f k k' : m_ok f -> (forall nh, agrees_r (k nh) (k' nh)) ->
  agrees_r (ycall (y_ipv6_raw_ext_read lim) (yq_call f (fun v => y_hd v k))) (ipv6_raw_ext_read lim k').
Proof.
  intros Hf Hk.
  apply (agrees_r_call _ _ f _ (fun v => r_hd v k') _ (agrees_ipv6_raw_ext_read lim) Hf (agrees_r_hd k k' Hk)).
  apply rcall_raw_ext.
Qed.

Lemma agrees_call_frag lim f k k' : m_ok f -> (forall nh, agrees_r (k nh) (k' nh)) ->
  agrees_r (ycall (y_ipv6_frag_read lim) (yq_call f (fun v => y_hd v k))) (ipv6_frag_read lim k').
Proof.
  intros Hf Hk.
  apply (agrees_r_call _ _ f _ (fun v => r_hd v k') _ (agrees_ipv6_frag_read lim) Hf (agrees_r_hd k k' Hk)).
  apply rcall_frag.
Qed.

Lemma agrees_x4_read lim start : agrees_r (y_x4_read lim start) (x4_read lim start).
Proof.
  unfold y_x4_read, x4_read. destruct (AUTH =? start); [|apply agrees_r_ret].
  apply agrees_call_auth; [apply m_from_ok | intros; apply agrees_r_ret].
Qed.

Lemma agrees_x6_read_loop fuel lim : forall s next,
  agrees_r (y_x6_read_loop fuel lim s next) (x6_read_loop fuel lim s next).
Proof.
  induction fuel as [|f IH]; intros s next; cbn [y_x6_read_loop x6_read_loop]; [apply agrees_r_fuel|].
  cbv zeta.
  destruct (next =? IPV6_HOP_BY_HOP); [apply agrees_r_fail|].
  destruct (next =? IPV6_DEST_OPTIONS).
  { destruct (s_route s).
    - destruct (s_final s); [apply agrees_r_ret|].
      apply agrees_call_raw_ext; [apply m_x6_ok | intros; apply IH].
    - destruct (s_dest s); [apply agrees_r_ret|].
      apply agrees_call_raw_ext; [apply m_x6_ok | intros; apply IH]. }
  destruct (next =? IPV6_ROUTE).
  { destruct (s_route s); [apply agrees_r_ret|].
    apply agrees_call_raw_ext; [apply m_x6_ok | intros; apply IH]. }
  destruct (next =? IPV6_FRAG).
  { destruct (s_frag s); [apply agrees_r_ret|].
    apply agrees_call_frag; [apply m_x6_ok | intros; apply IH]. }
  destruct (next =? AUTH).
  { destruct (s_auth s); [apply agrees_r_ret|].
    apply agrees_call_auth; [apply m_content_ok | intros; apply IH]. }
  apply agrees_r_ret.
Qed.

Lemma agrees_x6_read lim start : agrees_r (y_x6_read lim start) (x6_read lim start).
Proof.
  unfold y_x6_read, x6_read. destruct (IPV6_HOP_BY_HOP =? start); [|apply agrees_x6_read_loop].
  apply agrees_call_raw_ext; [apply m_x6_ok | intros; apply agrees_x6_read_loop].
Qed.

(* callee(reader).map(..).map_err(f)  returned as it is *)
Lemma agrees_call_tail a pa f : agrees_r a pa -> m_ok f -> agrees_r (ycall a (yq_call f YRet)) pa.
Proof.
  intros Ha Hf. apply (agrees_r_call a pa f YRet PRet pa Ha Hf); [intros; apply agrees_r_ret|].
  apply rcall_ret.
Qed.

Lemma agrees_ip_headers_read : agrees_r y_ip_headers_read ip_headers_read.
Proof.
  apply agrees_r_try; [apply m_io_ok|]. intros buf. apply agrees_r_at. intros value.
  destruct (value / 16 =? 4).
  { cbv zeta. destruct (value mod 16 <? 5); [apply agrees_r_fail|].
    apply agrees_r_try; [apply m_io_ok|]. intros rest.
    apply agrees_r_at. intros t0. apply agrees_r_at. intros t1. apply agrees_r_at. intros protocol.
    destruct (t0 * 256 + t1 <? value mod 16 * 4); [apply agrees_r_lenerr|].
    apply agrees_r_limit. apply agrees_call_tail; [apply agrees_x4_read | apply m_content_ok]. }
  destruct (value / 16 =? 6); [|apply agrees_r_fail].
  apply agrees_call_ipv6_rwv; [apply m_io_ok|]. intros buffer.
  apply agrees_r_at. intros p0. apply agrees_r_at. intros p1. apply agrees_r_at. intros nh.
  apply agrees_r_limit. apply agrees_call_tail; [apply agrees_x6_read | apply m_content_ok].
Qed.

(* everything at once, for Props/C16.v *)
Lemma crate_readers_propagate :
  Forall2 agrees_r y_plain_readers plain_readers /\
  (forall lim,
     agrees_r (y_ip_auth_read lim) (ip_auth_read lim (fun nh => PRet [nh])) /\
     agrees_r (y_ipv6_raw_ext_read lim) (ipv6_raw_ext_read lim (fun nh => PRet [nh])) /\
     agrees_r (y_ipv6_frag_read lim) (ipv6_frag_read lim (fun nh => PRet [nh]))) /\
  (forall lim start,
     agrees_r (y_x6_read lim start) (x6_read lim start) /\
     agrees_r (y_x4_read lim start) (x4_read lim start)).
Proof.
  split; [|split].
  - unfold y_plain_readers, plain_readers.
    repeat (apply Forall2_cons; [
      first [ apply agrees_read_fixed | apply agrees_ipv4_header_read | apply agrees_ipv6_header_read
            | apply agrees_tcp_header_read | apply agrees_icmpv4_header_read
            | apply agrees_macsec_header_read | apply agrees_arp_packet_read
            | apply agrees_ip_headers_read | apply agrees_ip_auth_read
            | apply agrees_ipv6_raw_ext_read | apply agrees_ipv6_frag_read ] |]).
    apply Forall2_nil.
  - intros lim. split; [apply agrees_ip_auth_read|].
    split; [apply agrees_ipv6_raw_ext_read | apply agrees_ipv6_frag_read].
  - intros lim start. split; [apply agrees_x6_read | apply agrees_x4_read].
Qed.

(* what it buys: the read-fault theorem and totality, stated of the EXPLICIT
   programs and their interpreter run_y (which hands every Result to the program) *)
Lemma Forall2_in_l {A B} (R : A -> B -> Prop) l l' : Forall2 R l l' ->
  forall a, In a l -> exists b, In b l' /\ R a b.
Proof.
  induction 1 as [|a b l l' Hab Hl IH]; intros x Hx; [contradiction|].
  destruct Hx as [<-|Hx].
  - exists b. split; [left; reflexivity | exact Hab].
  - destruct (IH x Hx) as (b' & Hb & Hr). exists b'. split; [right; exact Hb | exact Hr].
Qed.

Lemma crate_readers_explicit_fault :
  (forall y d c e j, In y y_plain_readers -> 1 <= c ->
     let r := run_y y (start_st d c e None) in
     let rj := run_y y (start_st (take j d) c e None) in
     good (fst r) /\
     (j < src_pulled (rs_src (snd r)) -> fst rj = QIo (io_kind e) /\ src_pulled (rs_src (snd rj)) = j) /\
     (src_pulled (rs_src (snd r)) <= j -> fst rj = fst r /\ src_pulled (rs_src (snd rj)) = src_pulled (rs_src (snd r)))) /\
  (forall (lim : bool) start lr d c e j, 1 <= c -> lr_read lr <= lr_max lr ->
     let l := if lim then Some lr else None in
     (let r := run_y (y_x6_read lim start) (start_st d c e l) in
      let rj := run_y (y_x6_read lim start) (start_st (take j d) c e l) in
      good (fst r) /\
      (j < src_pulled (rs_src (snd r)) -> fst rj = QIo (io_kind e) /\ src_pulled (rs_src (snd rj)) = j) /\
      (src_pulled (rs_src (snd r)) <= j -> fst rj = fst r /\ src_pulled (rs_src (snd rj)) = src_pulled (rs_src (snd r)))) /\
     (let r := run_y (y_x4_read lim start) (start_st d c e l) in
      let rj := run_y (y_x4_read lim start) (start_st (take j d) c e l) in
      good (fst r) /\
      (j < src_pulled (rs_src (snd r)) -> fst rj = QIo (io_kind e) /\ src_pulled (rs_src (snd rj)) = j) /\
      (src_pulled (rs_src (snd r)) <= j -> fst rj = fst r /\ src_pulled (rs_src (snd rj)) = src_pulled (rs_src (snd r))))).
Proof.
  destruct crate_readers_propagate as (HP & _ & HX).
  destruct crate_readers_fault as (F1 & F2).
  split.
  - intros y d c e j Hin Hc. cbv zeta.
    destruct (Forall2_in_l _ _ _ HP y Hin) as (p & Hp & Ha).
    rewrite !(agrees_r_run y p Ha). exact (F1 p d c e j Hp Hc).
  - intros lim start lr d c e j Hc Hi. cbv zeta.
    destruct (HX lim start) as (A6 & A4).
    rewrite !(agrees_r_run _ _ A6), !(agrees_r_run _ _ A4).
    exact (F2 lim start lr d c e j Hc Hi).
Qed.

(* ================================================================ F *)
(* a caller that swallows the callee's error: Ipv4Extensions::read written as
       match IpAuthHeader::read(reader) {
         Ok(header) => Ok((Ipv4Extensions{auth: Some(header)}, header.next_header)),
         Err(_)     => Ok((Default::default(), start_ip_number)) }
   Every read_exact inside the callee propagates; the defect is in the caller. *)
Definition swallowing_x4_read (start_ip_number : N) : yprog :=
  if AUTH =? start_ip_number then
    ycall (y_ip_auth_read false)
      (fun r => match r with
                | inl v => y_hd v (fun next => YRet [next; 1])
                | inr _ => YRet [start_ip_number; 0]
                end)
  else YRet [start_ip_number; 0].

(* an authentication header of 16 bytes (payload_len 2: 4 ICV bytes) *)
Definition ex_auth : bytes := [6; 2; 0; 0; 0; 0; 0; 1; 0; 0; 0; 2; 9; 9; 9; 9].

Lemma swallow_call_refuted :
  ~ propagating_r (swallowing_x4_read AUTH) /\
  propagating_r (y_x4_read false AUTH) /\
  (let r := run_y (swallowing_x4_read AUTH) (start_st ex_auth 3 false None) in
   fst r = QOk [6; 1] /\ src_pulled (rs_src (snd r)) = 16) /\
  (let r := run_y (swallowing_x4_read AUTH) (start_st (take 14 ex_auth) 3 false None) in
   fst r = QOk [AUTH; 0] /\ src_pulled (rs_src (snd r)) = 14) /\
  (let r := run_y (y_x4_read false AUTH) (start_st (take 14 ex_auth) 3 false None) in
   fst r = QIo KEof /\ src_pulled (rs_src (snd r)) = 14).
Proof.
  split; [|split; [apply agrees_x4_read|]].
  - intros H. unfold swallowing_x4_read in H. change (AUTH =? AUTH) with true in H. cbv iota in H.
    unfold y_ip_auth_read, y_with_start, ytry_map in H. cbn [ycall] in H.
    inversion H as [ | | | | |n k Hio Hlen Hk| | ]; subst.
    specialize (Hio KEof). cbn [rd_result yraise m_auth m_io ycall] in Hio. discriminate Hio.
  - repeat split; vm_compute; reflexivity.
Qed.
