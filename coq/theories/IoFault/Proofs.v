(* IoFault/Proofs.v -- lemmas for property C16 (see Props/C16.v for the statements
   that matter).  Sections:
     A  std::io::Write::write_all over the instrumented sink = closed form
     B  std::io::Read::read_exact over the instrumented source = closed form
     C  any write program against a sink failing at byte k
     D  the IPv6 extension walk is total (no unwrap panic, fuel suffices)
     E  SliceCoreWrite
     F  builder: final_size is the true length; final_write_to_slice
     G  write_to_slice of a header
     H  LimitedReader invariants for every read program
     I  Len error of the LimitedReader
     J  the read programs never reach an impossible index / run out of fuel *)
From EP Require Import Base.Bytes IoFault.Spec IoFault.Model.
Local Open Scope N_scope.


(* ---------- list helpers (N-indexed take/drop) *)
Lemma firstn_plus {A} (a b : nat) (l : list A) :
  firstn (a + b) l = firstn a l ++ firstn b (skipn a l).
Proof.
  revert l. induction a as [|a IH]; intros l; cbn [plus firstn skipn app]; [reflexivity|].
  destruct l as [|x l]; cbn [firstn skipn app].
  - now rewrite firstn_nil.
  - now rewrite IH.
Qed.

Lemma take_add {A} (a b : N) (l : list A) : take (a + b) l = take a l ++ take b (drop a l).
Proof. unfold take, drop. rewrite N2Nat.inj_add. apply firstn_plus. Qed.

Lemma take_0 {A} (l : list A) : take 0 l = [].
Proof. reflexivity. Qed.

Lemma drop_0 {A} (l : list A) : drop 0 l = l.
Proof. reflexivity. Qed.

Lemma take_all {A} (n : N) (l : list A) : len l <= n -> take n l = l.
Proof. unfold take, len. intros H. apply firstn_all2. lia. Qed.

Lemma drop_all {A} (n : N) (l : list A) : len l <= n -> drop n l = [].
Proof. unfold drop, len. intros H. apply skipn_all2. lia. Qed.

Lemma take_app_l {A} (n : N) (a b : list A) : n <= len a -> take n (a ++ b) = take n a.
Proof.
  unfold take, len. intros H. rewrite firstn_app.
  replace (N.to_nat n - length a)%nat with 0%nat by lia. cbn [firstn]. now rewrite app_nil_r.
Qed.

Lemma take_app_r {A} (n : N) (a b : list A) : len a <= n -> take n (a ++ b) = a ++ take (n - len a) b.
Proof.
  unfold take, len. intros H. rewrite firstn_app. rewrite firstn_all2 by lia.
  f_equal. f_equal. lia.
Qed.

Lemma drop_app_r {A} (n : N) (a b : list A) : len a <= n -> drop n (a ++ b) = drop (n - len a) b.
Proof.
  unfold drop, len. intros H. rewrite skipn_app. rewrite skipn_all2 by lia.
  cbn [app]. f_equal. lia.
Qed.

Lemma drop_drop {A} (a b : N) (l : list A) : drop a (drop b l) = drop (b + a) l.
Proof.
  unfold drop. rewrite N2Nat.inj_add. generalize (N.to_nat a) (N.to_nat b). clear.
  intros x y. revert l. induction y as [|y IH]; intros l; cbn [plus skipn]; [reflexivity|].
  destruct l as [|h l]; [now rewrite skipn_nil | apply IH].
Qed.

Lemma len_nonempty {A} (x : A) l : 1 <= len (x :: l).
Proof. rewrite len_cons. lia. Qed.

Lemma len_0_nil {A} (l : list A) : len l = 0 -> l = [].
Proof. destruct l; [reflexivity|]. rewrite len_cons. lia. Qed.

Lemma len_length {A} (l : list A) : N.to_nat (len l) = length l.
Proof. unfold len. lia. Qed.

(* ---------- A: std write_all on the instrumented sink *)
Definition wres_of (o : option iokind) : wres iokind :=
  match o with None => ROk | Some k => RIo k end.

Lemma std_write_all_spec fuel : forall s buf,
  1 <= fs_chunk s -> (length buf < fuel)%nat ->
  std_write_all fuel s buf = (wres_of (fst (spec_write_all s buf)), snd (spec_write_all s buf)).
Proof.
  induction fuel as [|f IH]; intros s buf Hc Hf; [lia|].
  destruct buf as [|b0 r].
  - cbn [std_write_all]. unfold spec_write_all. rewrite len_nil.
    replace (0 <=? fs_budget s) with true by (symmetry; apply N.leb_le; lia).
    cbn [fst snd wres_of]. destruct s as [bu ch z g]. cbn [fs_budget fs_chunk fs_zero fs_got].
    now rewrite N.sub_0_r, app_nil_r.
  - cbn [std_write_all]. set (buf := b0 :: r) in *.
    assert (Hlen : 1 <= len buf) by apply len_nonempty.
    unfold fs_write, spec_write_all.
    destruct (fs_budget s =? 0) eqn:Eb.
    + apply N.eqb_eq in Eb. rewrite Eb.
      replace (len buf <=? 0) with false by (symmetry; apply N.leb_gt; lia).
      cbn [fst snd wres_of]. unfold fs_kind. rewrite take_0, app_nil_r.
      destruct s as [bu ch z g]. cbn [fs_budget fs_chunk fs_zero fs_got] in *. subst bu.
      destruct z; cbn; reflexivity.
    + apply N.eqb_neq in Eb.
      set (n := N.min (N.min (fs_budget s) (fs_chunk s)) (len buf)).
      assert (Hn1 : 1 <= n) by (unfold n; repeat apply N.min_glb; try lia).
      assert (Hn2 : n <= len buf) by (unfold n; apply N.le_min_r).
      assert (Hn3 : n <= fs_budget s).
      { unfold n. etransitivity; [apply N.le_min_l|apply N.le_min_l]. }
      replace (n =? 0) with false by (symmetry; apply N.eqb_neq; lia).
      replace (len buf <? n) with false by (symmetry; apply N.ltb_ge; lia).
      rewrite IH.
      2:{ cbn [fs_chunk]. exact Hc. }
      2:{ unfold drop. rewrite skipn_length. subst buf. cbn [length] in *.
          assert (0 < N.to_nat n)%nat by lia. lia. }
      unfold spec_write_all. cbn [fs_budget fs_chunk fs_zero fs_got]. rewrite len_drop.
      destruct (len buf <=? fs_budget s) eqn:El.
      * apply N.leb_le in El.
        replace (len buf - n <=? fs_budget s - n) with true by (symmetry; apply N.leb_le; lia).
        cbn [fst snd wres_of]. f_equal. f_equal.
        -- lia.
        -- now rewrite <- app_assoc, take_drop.
      * apply N.leb_gt in El.
        replace (len buf - n <=? fs_budget s - n) with false by (symmetry; apply N.leb_gt; lia).
        cbn [fst snd wres_of]. unfold fs_kind. cbn [fs_zero]. f_equal. f_equal.
        rewrite <- app_assoc. f_equal.
        replace (fs_budget s) with (n + (fs_budget s - n)) at 2 by lia.
        now rewrite take_add.
Qed.

Lemma io_write_all_spec s buf : 1 <= fs_chunk s ->
  io_write_all s buf = (wres_of (fst (spec_write_all s buf)), snd (spec_write_all s buf)).
Proof. intros H. unfold io_write_all. apply std_write_all_spec; [exact H | lia]. Qed.


(* ---------- C: a write program against the faulting sink *)
Definition sink_after (s : fsink) (enc : bytes) : fsink :=
  if len enc <=? fs_budget s
  then mk_fsink (fs_budget s - len enc) (fs_chunk s) (fs_zero s) (fs_got s ++ enc)
  else mk_fsink 0 (fs_chunk s) (fs_zero s) (fs_got s ++ take (fs_budget s) enc).

Lemma run_io_spec p : forall s, 1 <= fs_chunk s ->
  run_w io_write_all p s =
    ((if len (wprog_bytes p) <=? fs_budget s then ret_of (wprog_verdict p) else RIo (fs_kind s)),
     sink_after s (wprog_bytes p)).
Proof.
  induction p as [v|b k IH]; intros s Hc.
  - cbn [run_w wprog_bytes wprog_verdict]. unfold sink_after. rewrite len_nil.
    replace (0 <=? fs_budget s) with true by (symmetry; apply N.leb_le; lia).
    destruct s as [bu ch z g]. cbn [fs_budget fs_chunk fs_zero fs_got].
    now rewrite N.sub_0_r, app_nil_r.
  - cbn [run_w wprog_bytes wprog_verdict]. rewrite io_write_all_spec by exact Hc.
    unfold spec_write_all. destruct (len b <=? fs_budget s) eqn:Eb.
    + apply N.leb_le in Eb. cbn [fst snd wres_of]. rewrite IH by exact Hc.
      unfold sink_after. cbn [fs_budget fs_chunk fs_zero fs_got]. rewrite len_app.
      destruct (len (wprog_bytes k) <=? fs_budget s - len b) eqn:Ek.
      * apply N.leb_le in Ek.
        replace (len b + len (wprog_bytes k) <=? fs_budget s) with true by (symmetry; apply N.leb_le; lia).
        f_equal. f_equal; [lia | now rewrite app_assoc].
      * apply N.leb_gt in Ek.
        replace (len b + len (wprog_bytes k) <=? fs_budget s) with false by (symmetry; apply N.leb_gt; lia).
        unfold fs_kind. cbn [fs_zero]. f_equal. f_equal.
        rewrite <- app_assoc. f_equal. now rewrite take_app_r by exact Eb.
    + apply N.leb_gt in Eb. cbn [fst snd wres_of].
      unfold sink_after. rewrite len_app.
      replace (len b + len (wprog_bytes k) <=? fs_budget s) with false by (symmetry; apply N.leb_gt; lia).
      f_equal. f_equal. f_equal. rewrite take_app_l by lia. reflexivity.
Qed.

Definition fresh_sink (k chunk : N) (zero : bool) : fsink := mk_fsink k chunk zero [].

Definition verdict_ok (v : verdict) : Prop :=
  match v with VOk | VContent _ => True | _ => False end.

(* the full C16 statement for any write program *)
Lemma write_fault_any p k chunk zero : 1 <= chunk ->
  let enc := wprog_bytes p in
  let r := run_w io_write_all p (fresh_sink k chunk zero) in
  (k < len enc ->
     fst r = RIo (if zero then KWriteZero else KOther) /\ fs_got (snd r) = take k enc
     /\ is_prefix (fs_got (snd r)) enc) /\
  (len enc <= k -> fst r = ret_of (wprog_verdict p) /\ fs_got (snd r) = enc) /\
  (fst (spec_fault_write enc k) = true <-> len enc <= k) /\
  fs_got (snd r) = snd (spec_fault_write enc k).
Proof.
  intros Hc enc r. unfold r. rewrite run_io_spec by exact Hc. fold enc.
  unfold sink_after, fresh_sink, spec_fault_write. cbn [fst snd fs_budget fs_chunk fs_zero fs_got app].
  repeat split.
  - replace (len enc <=? k) with false by (symmetry; apply N.leb_gt; lia). reflexivity.
  - replace (len enc <=? k) with false by (symmetry; apply N.leb_gt; lia). reflexivity.
  - replace (len enc <=? k) with false by (symmetry; apply N.leb_gt; lia). cbn [fs_got].
    exists (drop k enc). now rewrite take_drop.
  - replace (len enc <=? k) with true by (symmetry; apply N.leb_le; lia). reflexivity.
  - replace (len enc <=? k) with true by (symmetry; apply N.leb_le; lia). reflexivity.
  - apply N.leb_le.
  - apply N.leb_le.
  - destruct (len enc <=? k) eqn:E; cbn [fs_got]; [|reflexivity].
    apply N.leb_le in E. now rewrite take_all.
Qed.

(* wseq *)
Lemma wseq_bytes_ok a b : wprog_verdict a = VOk ->
  wprog_bytes (wseq a b) = wprog_bytes a ++ wprog_bytes b /\ wprog_verdict (wseq a b) = wprog_verdict b.
Proof.
  induction a as [v|p k IH]; cbn [wseq wprog_bytes wprog_verdict]; intros H.
  - subst v. cbn. auto.
  - destruct (IH H) as [H1 H2]. rewrite H1, H2. now rewrite app_assoc.
Qed.

Lemma wseq_bytes_err a b : wprog_verdict a <> VOk ->
  wprog_bytes (wseq a b) = wprog_bytes a /\ wprog_verdict (wseq a b) = wprog_verdict a.
Proof.
  induction a as [v|p k IH]; cbn [wseq wprog_bytes wprog_verdict]; intros H.
  - destruct v; try congruence; cbn; auto.
  - destruct (IH H) as [H1 H2]. now rewrite H1, H2.
Qed.

Lemma verdict_eq_dec (v : verdict) : {v = VOk} + {v <> VOk}.
Proof. destruct v; [left; reflexivity | right; discriminate ..]. Qed.

Lemma wseq_len_le a b : len (wprog_bytes (wseq a b)) <= len (wprog_bytes a) + len (wprog_bytes b).
Proof.
  destruct (verdict_eq_dec (wprog_verdict a)) as [H|H].
  - destruct (wseq_bytes_ok a b H) as [-> _]. rewrite len_app. lia.
  - destruct (wseq_bytes_err a b H) as [-> _]. lia.
Qed.

Lemma wseq_verdict_ok a b : verdict_ok (wprog_verdict a) -> verdict_ok (wprog_verdict b) ->
  verdict_ok (wprog_verdict (wseq a b)).
Proof.
  intros Ha Hb. destruct (verdict_eq_dec (wprog_verdict a)) as [H|H].
  - destruct (wseq_bytes_ok a b H) as [_ ->]. exact Hb.
  - destruct (wseq_bytes_err a b H) as [_ ->]. exact Ha.
Qed.

Lemma wseq_ok_inv a b : wprog_verdict (wseq a b) = VOk -> wprog_verdict a = VOk /\ wprog_verdict b = VOk.
Proof.
  intros H. destruct (verdict_eq_dec (wprog_verdict a)) as [Ha|Ha].
  - destruct (wseq_bytes_ok a b Ha) as [_ E]. rewrite E in H. auto.
  - destruct (wseq_bytes_err a b Ha) as [_ E]. rewrite E in H. congruence.
Qed.

(* ---------- D: the IPv6 extension walk never panics, never runs out of fuel *)
Definition consistent (x : exts6) (nw : needs) : Prop :=
  (n_dest nw = true -> x6_dest x <> None) /\
  (n_route nw = true -> x6_routing x <> None) /\
  (n_frag nw = true -> x6_frag x <> None) /\
  (n_auth nw = true -> x6_auth x <> None) /\
  (n_final nw = true -> exists r h, x6_routing x = Some (r, Some h)).

Definition b2nat (b : bool) : nat := if b then 1%nat else 0%nat.
Definition pending (nw : needs) : nat :=
  (b2nat (n_dest nw) + b2nat (n_route nw) + b2nat (n_frag nw) + b2nat (n_auth nw) + b2nat (n_final nw))%nat.

Lemma x6_final_ok nw : verdict_ok (x6_final nw).
Proof. unfold x6_final. repeat match goal with |- context [if ?b then _ else _] => destruct b end; exact I. Qed.

Lemma consistent_needs x : consistent x (x6_needs x).
Proof.
  unfold consistent, x6_needs. cbn [n_dest n_route n_frag n_auth n_final].
  repeat split; try (intros H; destruct (_ x); [discriminate | discriminate H]).
  intros H. destruct (x6_routing x) as [[r [h|]]|]; try discriminate H. eauto.
Qed.

Ltac cons_tac H :=
  destruct H as (Kd & Kr & Kf & Ka & Kfi);
  unfold consistent; cbn [n_dest n_route n_frag n_auth n_final set_hop set_dest set_route set_frag set_auth set_final];
  repeat split; auto; try discriminate.

Lemma x6_loop_verdict fuel : forall x nw next rw,
  consistent x nw -> (pending nw < fuel)%nat ->
  verdict_ok (wprog_verdict (x6_loop fuel x nw next rw)).
Proof.
  induction fuel as [|f IH]; intros x nw next rw Hc Hp; [lia|].
  cbn [x6_loop].
  destruct (next =? IPV6_HOP_BY_HOP).
  { destruct (n_hop nw); cbn [wprog_verdict]; [exact I | apply x6_final_ok]. }
  destruct (next =? IPV6_DEST_OPTIONS).
  { destruct rw.
    - destruct (n_final nw) eqn:Ef; [|cbn [wprog_verdict]; apply x6_final_ok].
      pose proof Hc as Hc'. destruct Hc' as (_ & _ & _ & _ & Hfi).
      destruct (Hfi Ef) as (r & h & ->). cbn [wprog_verdict]. apply IH.
      + cons_tac Hc.
      + unfold pending in *. cbn [n_dest n_route n_frag n_auth n_final set_final]. rewrite Ef in Hp. cbn [b2nat] in *. lia.
    - destruct (n_dest nw) eqn:Ed; [|cbn [wprog_verdict]; apply x6_final_ok].
      pose proof Hc as Hc'. destruct Hc' as (Hd & _).
      destruct (x6_dest x) as [h|] eqn:Ex; [|exfalso; now apply (Hd Ed)].
      cbn [wprog_verdict]. apply IH.
      + cons_tac Hc.
      + unfold pending in *. cbn [n_dest n_route n_frag n_auth n_final set_dest]. rewrite Ed in Hp. cbn [b2nat] in *. lia. }
  destruct (next =? IPV6_ROUTE).
  { destruct (n_route nw) eqn:Er; [|cbn [wprog_verdict]; apply x6_final_ok].
    pose proof Hc as Hc'. destruct Hc' as (_ & Hr & _).
    destruct (x6_routing x) as [[h fo]|] eqn:Ex; [|exfalso; now apply (Hr Er)].
    cbn [wprog_verdict]. apply IH.
    + cons_tac Hc.
    + unfold pending in *. cbn [n_dest n_route n_frag n_auth n_final set_route]. rewrite Er in Hp. cbn [b2nat] in *. lia. }
  destruct (next =? IPV6_FRAG).
  { destruct (n_frag nw) eqn:Er; [|cbn [wprog_verdict]; apply x6_final_ok].
    pose proof Hc as Hc'. destruct Hc' as (_ & _ & Hr & _).
    destruct (x6_frag x) as [h|] eqn:Ex; [|exfalso; now apply (Hr Er)].
    cbn [wprog_verdict]. apply IH.
    + cons_tac Hc.
    + unfold pending in *. cbn [n_dest n_route n_frag n_auth n_final set_frag]. rewrite Er in Hp. cbn [b2nat] in *. lia. }
  destruct (next =? AUTH).
  { destruct (n_auth nw) eqn:Er; [|cbn [wprog_verdict]; apply x6_final_ok].
    pose proof Hc as Hc'. destruct Hc' as (_ & _ & _ & Hr & _).
    destruct (x6_auth x) as [h|] eqn:Ex; [|exfalso; now apply (Hr Er)].
    cbn [wprog_verdict]. apply IH.
    + cons_tac Hc.
    + unfold pending in *. cbn [n_dest n_route n_frag n_auth n_final set_auth]. rewrite Er in Hp. cbn [b2nat] in *. lia. }
  cbn [wprog_verdict]. apply x6_final_ok.
Qed.

Lemma pending_le5 nw : (pending nw <= 5)%nat.
Proof. unfold pending. destruct (n_dest nw), (n_route nw), (n_frag nw), (n_auth nw), (n_final nw); cbn; lia. Qed.

Lemma x6_write_internal_verdict x first : verdict_ok (wprog_verdict (x6_write_internal x first)).
Proof.
  unfold x6_write_internal.
  assert (Hc := consistent_needs x).
  destruct (IPV6_HOP_BY_HOP =? first).
  - destruct (x6_hop x) as [h|].
    + cbn [wprog_verdict]. apply x6_loop_verdict.
      * cons_tac Hc.
      * unfold X6_FUEL. pose proof (pending_le5 (set_hop (x6_needs x))). lia.
    + apply x6_loop_verdict; [exact Hc|]. unfold X6_FUEL. pose proof (pending_le5 (x6_needs x)). lia.
  - apply x6_loop_verdict; [exact Hc|]. unfold X6_FUEL. pose proof (pending_le5 (x6_needs x)). lia.
Qed.

Lemma x4_write_internal_verdict x start : verdict_ok (wprog_verdict (x4_write_internal x start)).
Proof.
  unfold x4_write_internal. destruct (x4_auth x); [|exact I].
  destruct (AUTH =? start); exact I.
Qed.


(* ---------- E: SliceCoreWrite *)
Lemma sw_write_fit s b : sw_pos s + len b <= len (sw_buf s) ->
  sw_write_all s b =
    (ROk, mk_slicew (take (sw_pos s) (sw_buf s) ++ b ++ drop (sw_pos s + len b) (sw_buf s))
                    (sw_pos s + len b)).
Proof.
  intros H. unfold sw_write_all.
  replace (len (sw_buf s) <? sw_pos s) with false by (symmetry; apply N.ltb_ge; lia).
  replace (len (sw_buf s) - sw_pos s <? len b) with false by (symmetry; apply N.ltb_ge; lia).
  reflexivity.
Qed.

(* all-or-nothing per part: a part that does not fit leaves the writer untouched and
   reports required_len = pos + part length, len = buffer length *)
Lemma sw_write_short s b : len (sw_buf s) < sw_pos s + len b ->
  sw_write_all s b = (RIo (mk_space (sw_pos s + len b) (len (sw_buf s))), s).
Proof.
  intros H. unfold sw_write_all.
  destruct (len (sw_buf s) <? sw_pos s) eqn:E1; [reflexivity|].
  apply N.ltb_ge in E1.
  replace (len (sw_buf s) - sw_pos s <? len b) with true by (symmetry; apply N.ltb_lt; lia).
  reflexivity.
Qed.

Lemma take_len_app {A} (a c : list A) : take (len a) (a ++ c) = a.
Proof. rewrite take_app_l by lia. apply take_all. lia. Qed.

Lemma run_slice_fit p : forall w, sw_pos w + len (wprog_bytes p) <= len (sw_buf w) ->
  run_w sw_write_all p w =
    (ret_of (wprog_verdict p),
     mk_slicew (take (sw_pos w) (sw_buf w) ++ wprog_bytes p
                ++ drop (sw_pos w + len (wprog_bytes p)) (sw_buf w))
               (sw_pos w + len (wprog_bytes p))).
Proof.
  induction p as [v|b k IH]; intros w H; cbn [run_w wprog_bytes wprog_verdict] in *.
  - rewrite len_nil, N.add_0_r. cbn [app]. rewrite take_drop. destruct w; reflexivity.
  - rewrite len_app in H. rewrite sw_write_fit by lia.
    set (a := take (sw_pos w) (sw_buf w)).
    assert (Ha : len a = sw_pos w) by (unfold a; rewrite len_take; lia).
    rewrite IH; cbn [sw_buf sw_pos].
    2:{ rewrite !len_app, len_drop. fold a. lia. }
    f_equal. rewrite len_app. f_equal; [|lia].
    set (d := drop (sw_pos w + len b) (sw_buf w)).
    assert (E1 : take (sw_pos w + len b) (a ++ b ++ d) = a ++ b).
    { replace (sw_pos w + len b) with (len (a ++ b)) by (rewrite len_app; lia).
      rewrite app_assoc. apply take_len_app. }
    assert (E2 : drop (sw_pos w + len b + len (wprog_bytes k)) (a ++ b ++ d)
                 = drop (sw_pos w + (len b + len (wprog_bytes k))) (sw_buf w)).
    { rewrite app_assoc. rewrite drop_app_r by (rewrite len_app; lia).
      unfold d. rewrite drop_drop. f_equal. rewrite len_app. lia. }
    rewrite E1, E2. now rewrite <- !app_assoc.
Qed.

(* ---------- F: declared lengths against encodings *)
Definition part_wf (p : part) : Prop := p_len p = len (p_enc p).
Definition ext_wf (e : ext) : Prop := e_len e = len (e_enc e).
Definition opt_wf {A} (P : A -> Prop) (o : option A) : Prop :=
  match o with Some a => P a | None => True end.
Definition exts4_wf (x : exts4) : Prop := opt_wf ext_wf (x4_auth x).
Definition exts6_wf (x : exts6) : Prop :=
  opt_wf ext_wf (x6_hop x) /\ opt_wf ext_wf (x6_dest x) /\
  (match x6_routing x with Some (r, f) => ext_wf r /\ opt_wf ext_wf f | None => True end) /\
  opt_wf ext_wf (x6_frag x) /\ opt_wf ext_wf (x6_auth x).
Definition bcfg_wf (c : bcfg) : Prop :=
  opt_wf part_wf (b_link c) /\ Forall part_wf (b_vlan c) /\
  (match b_net c with
   | BIpv4 h _ x => part_wf h /\ exts4_wf x
   | BIpv6 h _ x => part_wf h /\ exts6_wf x
   | BArp p => part_wf p
   end) /\ opt_wf part_wf (b_transport c).

Definition sized (p : wprog) (n : N) : Prop :=
  len (wprog_bytes p) <= n /\ (wprog_verdict p = VOk -> len (wprog_bytes p) = n).

Lemma sized_wseq a b n m : sized a n -> sized b m -> sized (wseq a b) (n + m).
Proof.
  intros [Ha1 Ha2] [Hb1 Hb2]. destruct (verdict_eq_dec (wprog_verdict a)) as [H|H].
  - destruct (wseq_bytes_ok a b H) as [E1 E2]. unfold sized. rewrite E1, E2, len_app.
    specialize (Ha2 H). split; [lia|]. intros Hv. specialize (Hb2 Hv). lia.
  - destruct (wseq_bytes_err a b H) as [E1 E2]. unfold sized. rewrite E1, E2.
    split; [lia|]. intros Hv. congruence.
Qed.

Lemma sized_eq p n m : sized p n -> n = m -> sized p m.
Proof. now intros H <-. Qed.

Lemma sized_w1 b : sized (w1 b) (len b).
Proof. unfold sized, w1. cbn [wprog_bytes wprog_verdict]. rewrite app_nil_r. split; [lia|auto]. Qed.

Lemma sized_cerr o : sized (cerr_w o) 0.
Proof. unfold sized. destruct o; cbn -[len]; rewrite len_nil; split; try lia; auto. Qed.

Lemma sized_opt o : opt_wf part_wf o -> sized (opt_w o) (opt_plen o).
Proof.
  destruct o as [p|]; cbn [opt_wf opt_w opt_plen]; intros H.
  - rewrite H. apply sized_w1.
  - unfold sized. cbn -[len]. rewrite len_nil. split; [lia|auto].
Qed.

Lemma sized_parts ps : Forall part_wf ps -> sized (parts_w ps) (parts_len ps).
Proof.
  induction 1 as [|p r Hp Hr IH]; cbn [parts_w parts_len].
  - unfold sized. cbn -[len]. rewrite len_nil. split; [lia|auto].
  - destruct IH as [I1 I2]. unfold sized. cbn [wprog_bytes wprog_verdict]. rewrite len_app.
    rewrite Hp. split; [lia|]. intros Hv. specialize (I2 Hv). lia.
Qed.

Lemma sized_x4 x start : exts4_wf x -> sized (x4_write_internal x start) (x4_header_len x).
Proof.
  unfold exts4_wf, x4_write_internal, x4_header_len. destruct (x4_auth x) as [h|]; cbn [opt_wf]; intros H.
  - destruct (AUTH =? start).
    + rewrite H. apply sized_w1.
    + unfold sized. cbn -[len]. rewrite len_nil. split; [lia|discriminate].
  - unfold sized. cbn -[len]. rewrite len_nil. split; [lia|auto].
Qed.

(* bytes still owed by the walk *)
Definition needs_len (x : exts6) (nw : needs) : N :=
  (if n_hop nw then opt_len (x6_hop x) else 0)
  + (if n_dest nw then opt_len (x6_dest x) else 0)
  + (if n_route nw then match x6_routing x with Some (r, _) => e_len r | None => 0 end else 0)
  + (if n_frag nw then opt_len (x6_frag x) else 0)
  + (if n_auth nw then opt_len (x6_auth x) else 0)
  + (if n_final nw then match x6_routing x with Some (_, f) => opt_len f | None => 0 end else 0).

Lemma x6_final_sized x nw : sized (WRet (x6_final nw)) (needs_len x nw).
Proof.
  unfold sized. cbn [wprog_bytes wprog_verdict]. rewrite len_nil. split; [lia|].
  unfold x6_final, needs_len.
  destruct (n_hop nw); [discriminate|]. destruct (n_dest nw); [discriminate|].
  destruct (n_route nw); [discriminate|]. destruct (n_frag nw); [discriminate|].
  destruct (n_auth nw); [discriminate|]. destruct (n_final nw); [discriminate|]. reflexivity.
Qed.

Lemma sized_not_ok v n : v <> VOk -> sized (WRet v) n.
Proof. intros H. unfold sized. cbn -[len]. rewrite len_nil. split; [lia|congruence]. Qed.

Lemma sized_write b k n m : sized k n -> len b + n = m -> sized (WWrite b k) m.
Proof.
  intros [H1 H2] <-. unfold sized. cbn [wprog_bytes wprog_verdict]. rewrite len_app.
  split; [lia|]. intros Hv. specialize (H2 Hv). lia.
Qed.

Lemma x6_loop_sized fuel : forall x nw next rw, exts6_wf x ->
  sized (x6_loop fuel x nw next rw) (needs_len x nw).
Proof.
  induction fuel as [|f IH]; intros x nw next rw Hwf; cbn [x6_loop].
  { apply sized_not_ok. discriminate. }
  pose proof Hwf as (Wh & Wd & Wr & Wf & Wa).
  destruct (next =? IPV6_HOP_BY_HOP).
  { destruct (n_hop nw); [apply sized_not_ok; discriminate | apply x6_final_sized]. }
  destruct (next =? IPV6_DEST_OPTIONS).
  { destruct rw.
    - destruct (n_final nw) eqn:Ef; [|apply x6_final_sized].
      destruct (x6_routing x) as [[r [h|]]|] eqn:Ex; try (apply sized_not_ok; discriminate).
      eapply sized_write; [apply IH; exact Hwf|].
      unfold needs_len. cbn [n_hop n_dest n_route n_frag n_auth n_final set_final]. rewrite Ef, Ex.
      cbn [opt_len opt_wf] in *. destruct Wr as [_ Wr]. rewrite Wr. lia.
    - destruct (n_dest nw) eqn:Ed; [|apply x6_final_sized].
      destruct (x6_dest x) as [h|] eqn:Ex; try (apply sized_not_ok; discriminate).
      eapply sized_write; [apply IH; exact Hwf|].
      unfold needs_len. cbn [n_hop n_dest n_route n_frag n_auth n_final set_dest]. rewrite Ed, Ex.
      cbn [opt_len opt_wf] in *. rewrite Wd. lia. }
  destruct (next =? IPV6_ROUTE).
  { destruct (n_route nw) eqn:Er; [|apply x6_final_sized].
    destruct (x6_routing x) as [[h fo]|] eqn:Ex; try (apply sized_not_ok; discriminate).
    eapply sized_write; [apply IH; exact Hwf|].
    unfold needs_len. cbn [n_hop n_dest n_route n_frag n_auth n_final set_route]. rewrite Er, Ex.
    destruct Wr as [Wr _]. rewrite Wr. lia. }
  destruct (next =? IPV6_FRAG).
  { destruct (n_frag nw) eqn:Er; [|apply x6_final_sized].
    destruct (x6_frag x) as [h|] eqn:Ex; try (apply sized_not_ok; discriminate).
    eapply sized_write; [apply IH; exact Hwf|].
    unfold needs_len. cbn [n_hop n_dest n_route n_frag n_auth n_final set_frag]. rewrite Er, Ex.
    cbn [opt_len opt_wf] in *. rewrite Wf. lia. }
  destruct (next =? AUTH).
  { destruct (n_auth nw) eqn:Er; [|apply x6_final_sized].
    destruct (x6_auth x) as [h|] eqn:Ex; try (apply sized_not_ok; discriminate).
    eapply sized_write; [apply IH; exact Hwf|].
    unfold needs_len. cbn [n_hop n_dest n_route n_frag n_auth n_final set_auth]. rewrite Er, Ex.
    cbn [opt_len opt_wf] in *. rewrite Wa. lia. }
  apply x6_final_sized.
Qed.

Lemma needs_len_init x : needs_len x (x6_needs x) = x6_header_len x.
Proof.
  unfold needs_len, x6_needs, x6_header_len. cbn [n_hop n_dest n_route n_frag n_auth n_final].
  destruct (x6_hop x), (x6_dest x), (x6_routing x) as [[r [h|]]|], (x6_frag x), (x6_auth x);
    cbn [is_some opt_len]; lia.
Qed.

Lemma sized_x6 x first : exts6_wf x -> sized (x6_write_internal x first) (x6_header_len x).
Proof.
  intros Hwf. rewrite <- needs_len_init. unfold x6_write_internal.
  destruct (IPV6_HOP_BY_HOP =? first); [|apply x6_loop_sized; exact Hwf].
  destruct (x6_hop x) as [h|] eqn:Ex; [|apply x6_loop_sized; exact Hwf].
  eapply sized_write; [apply x6_loop_sized; exact Hwf|].
  destruct Hwf as (Wh & _). rewrite Ex in Wh. cbn [opt_wf] in Wh.
  unfold needs_len, x6_needs. cbn [n_hop n_dest n_route n_frag n_auth n_final set_hop].
  rewrite Ex. cbn [is_some opt_len]. rewrite Wh. lia.
Qed.

Lemma sized_final c payload : bcfg_wf c ->
  sized (final_write_with_net c payload) (final_size c (len payload)).
Proof.
  intros (Wl & Wv & Wn & Wt). unfold final_write_with_net, final_size.
  eapply sized_eq.
  - apply sized_wseq; [apply sized_opt; exact Wl|].
    apply sized_wseq; [apply sized_parts; exact Wv|].
    apply sized_wseq; [|apply sized_wseq; [apply sized_opt; exact Wt | apply sized_w1]].
    instantiate (1 := match b_net c with
                      | BIpv4 h _ x => p_len h + x4_header_len x
                      | BIpv6 h _ x => p_len h + x6_header_len x
                      | BArp p => p_len p end).
    destruct (b_net c) as [h pr x|h nh x|p].
    + destruct Wn as [Wh Wx]. eapply sized_eq.
      * apply sized_wseq; [apply sized_cerr|]. apply sized_wseq; [apply sized_w1|].
        apply sized_wseq; [apply sized_x4; exact Wx | apply sized_cerr].
      * rewrite Wh. lia.
    + destruct Wn as [Wh Wx]. eapply sized_eq.
      * apply sized_wseq; [apply sized_cerr|]. apply sized_wseq; [apply sized_w1|].
        apply sized_wseq; [apply sized_x6; exact Wx | apply sized_cerr].
      * rewrite Wh. lia.
    + rewrite Wn. apply sized_w1.
  - lia.
Qed.

Lemma cerr_w_ok o : verdict_ok (wprog_verdict (cerr_w o)).
Proof. destruct o; exact I. Qed.
Lemma opt_w_ok o : verdict_ok (wprog_verdict (opt_w o)).
Proof. destruct o; exact I. Qed.
Lemma parts_w_ok ps : verdict_ok (wprog_verdict (parts_w ps)).
Proof. induction ps; cbn [parts_w wprog_verdict]; [exact I | assumption]. Qed.

Lemma final_verdict_ok c payload : verdict_ok (wprog_verdict (final_write_with_net c payload)).
Proof.
  unfold final_write_with_net.
  apply wseq_verdict_ok; [apply opt_w_ok|].
  apply wseq_verdict_ok; [apply parts_w_ok|].
  apply wseq_verdict_ok; [|apply wseq_verdict_ok; [apply opt_w_ok|exact I]].
  destruct (b_net c).
  - apply wseq_verdict_ok; [apply cerr_w_ok|]. apply wseq_verdict_ok; [exact I|].
    apply wseq_verdict_ok; [apply x4_write_internal_verdict | apply cerr_w_ok].
  - apply wseq_verdict_ok; [apply cerr_w_ok|]. apply wseq_verdict_ok; [exact I|].
    apply wseq_verdict_ok; [apply x6_write_internal_verdict | apply cerr_w_ok].
  - exact I.
Qed.

Lemma drop_take_drop {A} (m r : N) (l : list A) : m <= r -> r <= len l ->
  drop m (take r l) ++ drop r l = drop m l.
Proof.
  intros H1 H2. rewrite <- (take_drop r l) at 3.
  unfold drop at 3. rewrite skipn_app.
  replace (N.to_nat m - length (take r l))%nat with 0%nat.
  2:{ pose proof (len_take r l) as E. rewrite N.min_l in E by exact H2. unfold len in E. lia. }
  reflexivity.
Qed.

Definition bres_of (required : N) (v : verdict) : bres :=
  match v with VOk => BOk required | VContent e => BContent e | VPanic => BPanic | VFuel => BFuel end.

Lemma final_write_to_slice_spec c buffer payload : bcfg_wf c ->
  let required := final_size c (len payload) in
  let p := final_write_with_net c payload in
  (len buffer < required -> final_write_to_slice c buffer payload = (BSpace required, buffer)) /\
  (required <= len buffer ->
     final_write_to_slice c buffer payload =
       (bres_of required (wprog_verdict p), wprog_bytes p ++ drop (len (wprog_bytes p)) buffer)) /\
  (wprog_verdict p = VOk -> len (wprog_bytes p) = required) /\
  len (wprog_bytes p) <= required /\
  verdict_ok (wprog_verdict p).
Proof.
  intros Hwf required p. pose proof (sized_final c payload Hwf) as [S1 S2]. fold p required in S1, S2.
  split; [|split; [|split; [exact S2 | split; [exact S1 | apply final_verdict_ok]]]].
  - intros H. unfold final_write_to_slice. fold required.
    replace (len buffer <? required) with true by (symmetry; apply N.ltb_lt; lia). reflexivity.
  - intros H. unfold final_write_to_slice. fold required p.
    replace (len buffer <? required) with false by (symmetry; apply N.ltb_ge; lia).
    rewrite run_slice_fit; cbn [sw_buf sw_pos].
    2:{ rewrite len_take. lia. }
    rewrite take_0, N.add_0_l. cbn [app].
    assert (E : (wprog_bytes p ++ drop (len (wprog_bytes p)) (take required buffer)) ++ drop required buffer
                = wprog_bytes p ++ drop (len (wprog_bytes p)) buffer).
    { rewrite <- app_assoc. f_equal. apply drop_take_drop; lia. }
    destruct (wprog_verdict p); cbn [ret_of bres_of]; now rewrite E.
Qed.

(* ---------- G: write_to_slice of a header *)
Lemma header_write_to_slice_spec LEN layer enc slice : len enc = LEN ->
  (len slice < LEN ->
     header_write_to_slice LEN layer enc slice = (SErr (mk_slice_err LEN (len slice) layer 0), slice)) /\
  (LEN <= len slice ->
     header_write_to_slice LEN layer enc slice = (SOk LEN (len slice - LEN), enc ++ drop LEN slice)) /\
  snd (header_write_to_slice LEN layer enc slice) = snd (spec_slice_write enc slice) /\
  (fst (spec_slice_write enc slice) = None <-> LEN <= len slice).
Proof.
  intros He. unfold header_write_to_slice, spec_slice_write. rewrite He, N.eqb_refl.
  repeat split.
  - intros H. replace (len slice <? LEN) with true by (symmetry; apply N.ltb_lt; lia). reflexivity.
  - intros H. replace (len slice <? LEN) with false by (symmetry; apply N.ltb_ge; lia). reflexivity.
  - destruct (len slice <? LEN) eqn:E.
    + apply N.ltb_lt in E. replace (LEN <=? len slice) with false by (symmetry; apply N.leb_gt; lia). reflexivity.
    + apply N.ltb_ge in E. replace (LEN <=? len slice) with true by (symmetry; apply N.leb_le; lia). reflexivity.
  - destruct (LEN <=? len slice) eqn:E; cbn [fst]; intros H; [apply N.leb_le; exact E | discriminate].
  - intros H. apply N.leb_le in H. rewrite H. reflexivity.
Qed.


(* ---------- B: std read_exact on the instrumented source *)
Definition xres_of (acc : bytes) (r : bytes + iokind) : xres :=
  match r with inl bs => XOk (acc ++ bs) | inr k => XIo k end.

Lemma std_read_exact_spec fuel : forall s n acc,
  1 <= src_chunk s -> (N.to_nat n < fuel)%nat ->
  std_read_exact fuel s n acc = (xres_of acc (fst (spec_read_exact s n)), snd (spec_read_exact s n)).
Proof.
  induction fuel as [|f IH]; intros s n acc Hc Hf; [lia|].
  cbn [std_read_exact]. destruct (n =? 0) eqn:En.
  - apply N.eqb_eq in En. subst n. unfold spec_read_exact.
    replace (0 <=? len (src_data s)) with true by (symmetry; apply N.leb_le; lia).
    cbn [fst snd xres_of]. unfold take, drop. cbn [N.to_nat firstn skipn]. rewrite app_nil_r, N.add_0_r. destruct s; reflexivity.
  - apply N.eqb_neq in En. unfold src_read, spec_read_exact.
    destruct (src_data s) as [|d0 dr] eqn:Ed.
    + change (@len N []) with 0. replace (n <=? 0) with false by (symmetry; apply N.leb_gt; lia).
      cbn [fst snd xres_of]. unfold src_kind. rewrite N.add_0_r.
      destruct s as [da ch er pu]. cbn [src_data src_chunk src_err src_pulled] in *. subst da.
      destruct er; cbn -[len]; reflexivity.
    + rewrite <- Ed. assert (Hlen : 1 <= len (src_data s)) by (rewrite Ed; apply len_nonempty).
      set (m := N.min (N.min (len (src_data s)) (src_chunk s)) n).
      assert (Hm1 : 1 <= m) by (unfold m; repeat apply N.min_glb; try lia).
      assert (Hm2 : m <= n) by (unfold m; apply N.le_min_r).
      assert (Hm3 : m <= len (src_data s)).
      { unfold m. etransitivity; [apply N.le_min_l|apply N.le_min_l]. }
      assert (Hlt : len (take m (src_data s)) = m) by (rewrite len_take; lia).
      rewrite Hlt.
      replace (m =? 0) with false by (symmetry; apply N.eqb_neq; lia).
      replace (n <? m) with false by (symmetry; apply N.ltb_ge; lia).
      rewrite IH; [| exact Hc | lia].
      unfold spec_read_exact. cbn [src_data src_chunk src_err src_pulled]. rewrite len_drop.
      destruct (n <=? len (src_data s)) eqn:El.
      * apply N.leb_le in El.
        replace (n - m <=? len (src_data s) - m) with true by (symmetry; apply N.leb_le; lia).
        cbn [fst snd xres_of]. f_equal.
        -- f_equal. rewrite <- app_assoc. f_equal.
           replace n with (m + (n - m)) at 2 by lia. now rewrite take_add.
        -- f_equal; [|lia]. rewrite drop_drop. f_equal. lia.
      * apply N.leb_gt in El.
        replace (n - m <=? len (src_data s) - m) with false by (symmetry; apply N.leb_gt; lia).
        cbn [fst snd xres_of]. unfold src_kind. cbn [src_err]. f_equal. f_equal. lia.
Qed.

Lemma io_read_exact_spec s n : 1 <= src_chunk s ->
  io_read_exact s n = (xres_of [] (fst (spec_read_exact s n)), snd (spec_read_exact s n)).
Proof. intros H. unfold io_read_exact. apply std_read_exact_spec; [exact H | lia]. Qed.

(* both outcomes spelled out *)
Lemma io_read_exact_ok s n : 1 <= src_chunk s -> n <= len (src_data s) ->
  io_read_exact s n =
    (XOk (take n (src_data s)),
     mk_fsource (drop n (src_data s)) (src_chunk s) (src_err s) (src_pulled s + n)).
Proof.
  intros Hc H. rewrite io_read_exact_spec by exact Hc. unfold spec_read_exact.
  replace (n <=? len (src_data s)) with true by (symmetry; apply N.leb_le; lia). reflexivity.
Qed.

Lemma io_read_exact_fail s n : 1 <= src_chunk s -> len (src_data s) < n ->
  io_read_exact s n =
    (XIo (src_kind s),
     mk_fsource [] (src_chunk s) (src_err s) (src_pulled s + len (src_data s))).
Proof.
  intros Hc H. rewrite io_read_exact_spec by exact Hc. unfold spec_read_exact.
  replace (n <=? len (src_data s)) with false by (symmetry; apply N.leb_gt; lia). reflexivity.
Qed.

(* ---------- I: a request beyond the budget *)
Lemma lr_read_exact_len r s n : lr_read r <= lr_max r -> lr_max r - lr_read r < n ->
  lr_read_exact r s n =
    (QLen (mk_lenerr (lr_read r + n) (lr_max r) (lr_source r) (lr_layer r) (lr_off r)), r, s).
Proof.
  intros Hi H. unfold lr_read_exact, checked_sub.
  replace (lr_read r <=? lr_max r) with true by (symmetry; apply N.leb_le; lia).
  replace (lr_max r - lr_read r <? n) with true by (symmetry; apply N.ltb_lt; lia). reflexivity.
Qed.

(* a request within the budget is exactly the inner read_exact *)
Lemma lr_read_exact_within r s n : 1 <= src_chunk s -> lr_read r <= lr_max r -> n <= lr_max r - lr_read r ->
  lr_read_exact r s n =
    if n <=? len (src_data s)
    then (QOk (take n (src_data s)),
          mk_limrd (lr_max r) (lr_source r) (lr_layer r) (lr_off r) (lr_read r + n),
          mk_fsource (drop n (src_data s)) (src_chunk s) (src_err s) (src_pulled s + n))
    else (QIo (src_kind s), r,
          mk_fsource [] (src_chunk s) (src_err s) (src_pulled s + len (src_data s))).
Proof.
  intros Hc Hi H. unfold lr_read_exact, checked_sub.
  replace (lr_read r <=? lr_max r) with true by (symmetry; apply N.leb_le; lia).
  replace (lr_max r - lr_read r <? n) with false by (symmetry; apply N.ltb_ge; lia).
  destruct (n <=? len (src_data s)) eqn:E.
  - apply N.leb_le in E. rewrite io_read_exact_ok by assumption. reflexivity.
  - apply N.leb_gt in E. rewrite io_read_exact_fail by assumption. reflexivity.
Qed.

(* ---------- H: invariants of every read program *)
Definition st_inv (st : rstate) : Prop :=
  1 <= src_chunk (rs_src st) /\
  match rs_lim st with Some r => lr_read r <= lr_max r | None => True end.

(* bytes already pulled plus what the budget still allows (and the source still has) *)
Definition slack (st : rstate) : N :=
  match rs_lim st with
  | Some r => src_pulled (rs_src st) + N.min (lr_max r - lr_read r) (len (src_data (rs_src st)))
  | None => 0
  end.

Definition limited (st : rstate) : Prop := rs_lim st <> None.

Lemma run_r_inv p : forall st, st_inv st ->
  fst (run_r p st) <> QUnderflow /\
  st_inv (snd (run_r p st)) /\
  src_pulled (rs_src st) <= src_pulled (rs_src (snd (run_r p st))) /\
  (limited st -> limited (snd (run_r p st)) /\ slack (snd (run_r p st)) <= slack st).
Proof.
  induction p as [a|c|e| | |n k IH|layer k IH|m ls off layer k IH]; intros st Hinv.
  1-5: cbn [run_r fst snd]; repeat split; try discriminate; try apply Hinv; try lia; auto.
  - (* PRead *)
    destruct st as [s lim]. destruct Hinv as [Hc Hl]. cbn [rs_src rs_lim] in *.
    cbn [run_r rs_lim rs_src]. destruct lim as [r|].
    + (* limited *)
      destruct (N.lt_ge_cases (lr_max r - lr_read r) n) as [Hn|Hn].
      * rewrite lr_read_exact_len by assumption. cbn [fst snd rs_src rs_lim].
        repeat split; try discriminate; auto; try lia; try (cbn; discriminate).
      * rewrite lr_read_exact_within by assumption.
        destruct (n <=? len (src_data s)) eqn:E.
        -- apply N.leb_le in E.
           match goal with |- context [run_r (k ?b) ?st'] =>
             specialize (IH b st'); destruct IH as (I1 & I2 & I3 & I4) end.
           { split; cbn [rs_src rs_lim src_chunk lr_read lr_max]; [exact Hc | lia]. }
           cbn [rs_src src_pulled] in I3.
           split; [exact I1|]. split; [exact I2|]. split; [lia|].
           intros _. destruct I4 as [I4 I5]; [cbn; discriminate|]. split; [exact I4|].
           etransitivity; [exact I5|]. unfold slack. cbn [rs_lim rs_src src_pulled src_data lr_max lr_read].
           rewrite len_drop. 
           assert (N.min (lr_max r - (lr_read r + n)) (len (src_data s) - n) + n
                   = N.min (lr_max r - lr_read r) (len (src_data s))).
           { destruct (N.le_ge_cases (lr_max r - lr_read r) (len (src_data s))).
             - rewrite !N.min_l by lia. lia.
             - rewrite !N.min_r by lia. lia. }
           lia.
        -- apply N.leb_gt in E. cbn [fst snd rs_src rs_lim src_chunk src_pulled].
           repeat split; try discriminate; auto; try lia; try (cbn; discriminate).
           unfold slack. cbn [rs_lim rs_src src_pulled src_data]. rewrite len_nil.
           rewrite N.min_0_r. rewrite (N.min_r (lr_max r - lr_read r)) by lia. lia.
    + (* plain reader *)
      destruct (N.le_gt_cases n (len (src_data s))) as [E|E].
      * rewrite io_read_exact_ok by assumption.
        match goal with |- context [run_r (k ?b) ?st'] =>
          specialize (IH b st'); destruct IH as (I1 & I2 & I3 & I4) end.
        { split; cbn [rs_src rs_lim src_chunk]; [exact Hc | exact I]. }
        cbn [rs_src src_pulled] in I3.
        split; [exact I1|]. split; [exact I2|]. split; [lia|].
        intros Hl'. exfalso. apply Hl'. reflexivity.
      * rewrite io_read_exact_fail by assumption. cbn [fst snd rs_src rs_lim src_chunk src_pulled].
        repeat split; try discriminate; auto; try lia.
        all: try (intros Hl'; exfalso; apply Hl'; reflexivity).
  - (* PStart *)
    destruct st as [s lim]. destruct Hinv as [Hc Hl]. cbn [rs_src rs_lim] in *.
    cbn [run_r rs_lim rs_src]. destruct lim as [r|].
    + unfold lr_start_layer, checked_sub.
      replace (lr_read r <=? lr_max r) with true by (symmetry; apply N.leb_le; lia).
      match goal with |- context [run_r k ?st'] =>
        specialize (IH st'); destruct IH as (I1 & I2 & I3 & I4) end.
      { split; cbn [rs_src rs_lim src_chunk lr_read lr_max]; [exact Hc | lia]. }
      cbn [rs_src] in I3.
      split; [exact I1|]. split; [exact I2|]. split; [exact I3|].
      intros _. destruct I4 as [I4 I5]; [cbn; discriminate|]. split; [exact I4|].
      etransitivity; [exact I5|]. unfold slack. cbn [rs_lim rs_src lr_max lr_read].
      rewrite N.sub_0_r. lia.
    + cbn [fst snd rs_src rs_lim]. repeat split; try discriminate; auto; try lia.
      all: try (intros Hl'; exfalso; apply Hl'; reflexivity).
  - (* PLimit *)
    destruct st as [s lim]. destruct Hinv as [Hc Hl]. cbn [rs_src rs_lim] in *.
    cbn [run_r rs_lim rs_src]. destruct lim as [r|].
    + cbn [fst snd rs_src rs_lim]. repeat split; try discriminate; auto; try lia; try (cbn; discriminate).
    + match goal with |- context [run_r k ?st'] =>
        specialize (IH st'); destruct IH as (I1 & I2 & I3 & I4) end.
      { split; cbn [rs_src rs_lim src_chunk lr_read lr_max lr_new]; [exact Hc | lia]. }
      cbn [rs_src] in I3.
      split; [exact I1|]. split; [exact I2|]. split; [exact I3|].
      intros Hl'. exfalso. apply Hl'. reflexivity.
Qed.

(* the bound on the inner reader, for a program started on a LimitedReader *)
Lemma limited_pull_bound p s r : 1 <= src_chunk s -> lr_read r <= lr_max r ->
  let st' := snd (run_r p (mk_rstate s (Some r))) in
  fst (run_r p (mk_rstate s (Some r))) <> QUnderflow /\
  (exists r', rs_lim st' = Some r' /\ lr_read r' <= lr_max r') /\
  src_pulled s <= src_pulled (rs_src st') /\
  src_pulled (rs_src st') - src_pulled s <= lr_max r - lr_read r.
Proof.
  intros Hc Hi st'.
  destruct (run_r_inv p (mk_rstate s (Some r))) as (I1 & I2 & I3 & I4).
  { split; [exact Hc | exact Hi]. }
  fold st' in I2, I3, I4. cbn [rs_src] in I3.
  destruct I4 as [I4 I5]; [cbn; discriminate|].
  split; [exact I1|]. split.
  - destruct I2 as [_ I2]. unfold limited in I4. destruct (rs_lim st') as [r'|]; [|congruence]. eauto.
  - split; [exact I3|]. unfold slack in I5. cbn [rs_lim rs_src] in I5.
    unfold limited in I4. destruct (rs_lim st') as [r'|]; [|congruence].
    assert (N.min (lr_max r - lr_read r) (len (src_data s)) <= lr_max r - lr_read r) by apply N.le_min_l.
    lia.
Qed.

(* LimitedReader::new in the middle of a plain read (IpHeaders::read) *)
Lemma limit_pull_bound m ls off layer k s : 1 <= src_chunk s ->
  let st' := snd (run_r (PLimit m ls off layer k) (mk_rstate s None)) in
  fst (run_r (PLimit m ls off layer k) (mk_rstate s None)) <> QUnderflow /\
  src_pulled (rs_src st') - src_pulled s <= m.
Proof.
  intros Hc. cbn [run_r rs_lim rs_src].
  destruct (limited_pull_bound k s (lr_new m ls off layer) Hc) as (I1 & _ & I3 & I4).
  { cbn. lia. }
  cbn [lr_new lr_max lr_read] in I4. rewrite N.sub_0_r in I4. split; assumption.
Qed.


(* ---------- J: the read programs never reach an impossible index / run out of fuel *)
Inductive safe : bool -> rprog -> Prop :=
  | safe_ret l a : safe l (PRet a)
  | safe_fail l c : safe l (PFail c)
  | safe_lenerr l e : safe l (PLenErr e)
  | safe_read l n k : (forall bs, len bs = n -> safe l (k bs)) -> safe l (PRead n k)
  | safe_start layer k : safe true k -> safe true (PStart layer k)
  | safe_limit m ls off layer k : safe true k -> safe false (PLimit m ls off layer k).

Definition good {A} (q : qres A) : Prop :=
  match q with QBad | QFuel | QUnderflow => False | _ => True end.

Lemma run_r_safe l p : safe l p -> forall st, st_inv st ->
  (l = true <-> limited st) -> good (fst (run_r p st)).
Proof.
  induction 1 as [l a|l c|l e|l n k Hk IH|layer k Hk IH|m ls off layer k Hk IH]; intros st Hinv Hl.
  1-3: exact I.
  - destruct st as [s lim]. destruct Hinv as [Hc Hi]. cbn [rs_src rs_lim] in *.
    cbn [run_r rs_lim rs_src]. destruct lim as [r|].
    + destruct (N.lt_ge_cases (lr_max r - lr_read r) n) as [Hn|Hn].
      * rewrite lr_read_exact_len by assumption. exact I.
      * rewrite lr_read_exact_within by assumption.
        destruct (n <=? len (src_data s)) eqn:E; [|exact I].
        apply N.leb_le in E. apply IH.
        -- rewrite len_take. lia.
        -- split; cbn [rs_src rs_lim src_chunk lr_read lr_max]; [exact Hc | lia].
        -- unfold limited in *. cbn [rs_lim] in *. split; intros; [discriminate | apply Hl; discriminate].
    + destruct (N.le_gt_cases n (len (src_data s))) as [E|E].
      * rewrite io_read_exact_ok by assumption. apply IH.
        -- rewrite len_take. lia.
        -- split; cbn [rs_src rs_lim src_chunk]; [exact Hc | exact I].
        -- exact Hl.
      * rewrite io_read_exact_fail by assumption. exact I.
  - destruct st as [s lim]. destruct Hinv as [Hc Hi]. cbn [rs_src rs_lim] in *.
    cbn [run_r rs_lim rs_src]. destruct lim as [r|].
    + unfold lr_start_layer, checked_sub.
      replace (lr_read r <=? lr_max r) with true by (symmetry; apply N.leb_le; lia).
      apply IH.
      * split; cbn [rs_src rs_lim src_chunk lr_read lr_max]; [exact Hc | lia].
      * unfold limited. cbn [rs_lim]. split; intros; [discriminate | reflexivity].
    + exfalso. destruct Hl as [Hl _]. apply (Hl eq_refl). reflexivity.
  - destruct st as [s lim]. destruct Hinv as [Hc Hi]. cbn [rs_src rs_lim] in *.
    cbn [run_r rs_lim rs_src]. destruct lim as [r|].
    + exfalso. destruct Hl as [_ Hl]. unfold limited in Hl. cbn [rs_lim] in Hl.
      assert (false = true) by (apply Hl; discriminate). discriminate.
    + apply IH.
      * split; cbn [rs_src rs_lim src_chunk lr_read lr_max lr_new]; [exact Hc | lia].
      * unfold limited. cbn [rs_lim]. split; intros; [discriminate | reflexivity].
Qed.

Ltac n_facts :=
  repeat match goal with
         | H : (_ <? _) = false |- _ => apply N.ltb_ge in H
         | H : (_ <? _) = true |- _ => apply N.ltb_lt in H
         end.

Ltac safe_step :=
  match goal with
  | |- safe _ (PRet _) => constructor
  | |- safe _ (PFail _) => constructor
  | |- safe _ (PLenErr _) => constructor
  | |- safe _ (PRead _ _) => constructor; intros ?bs ?Hbs
  | |- safe true (PStart _ _) => constructor
  | |- safe false (PLimit _ _ _ _ _) => constructor
  | |- safe _ (at_ ?bs ?i _) =>
    let v := fresh "v" in let E := fresh "E" in
    destruct (rd_lt_Some bs i) as [v E]; [ n_facts; lia | unfold at_ at 1; rewrite E ]
  | |- safe _ (if ?b then _ else _) => destruct b eqn:?
  | |- safe _ (with_start ?l _ _) => unfold with_start
  end.

Lemma safe_read_fixed l n : safe l (read_fixed n).
Proof. unfold read_fixed. repeat safe_step. Qed.

Lemma safe_ipv4_header_read : safe false ipv4_header_read.
Proof. unfold ipv4_header_read, ipv4_read_without_version. repeat safe_step. Qed.

Lemma safe_ipv6_header_read : safe false ipv6_header_read.
Proof. unfold ipv6_header_read, ipv6_read_without_version. repeat safe_step. Qed.

Lemma safe_tcp_header_read : safe false tcp_header_read.
Proof. unfold tcp_header_read. repeat safe_step. Qed.

Lemma safe_icmpv4_header_read : safe false icmpv4_header_read.
Proof. unfold icmpv4_header_read. repeat safe_step. Qed.

Lemma safe_macsec_header_read : safe false macsec_header_read.
Proof. unfold macsec_header_read. repeat safe_step. Qed.

Lemma safe_arp_packet_read : safe false arp_packet_read.
Proof. unfold arp_packet_read. repeat safe_step. Qed.

Lemma safe_ip_auth_read lim k : (forall nh, safe lim (k nh)) -> safe lim (ip_auth_read lim k).
Proof. intros H. unfold ip_auth_read. destruct lim; repeat safe_step; apply H. Qed.

Lemma safe_raw_ext_read lim k : (forall nh, safe lim (k nh)) -> safe lim (ipv6_raw_ext_read lim k).
Proof. intros H. unfold ipv6_raw_ext_read. destruct lim; repeat safe_step; apply H. Qed.

Lemma safe_frag_read lim k : (forall nh, safe lim (k nh)) -> safe lim (ipv6_frag_read lim k).
Proof. intros H. unfold ipv6_frag_read. destruct lim; repeat safe_step; apply H. Qed.

Lemma safe_x4_read lim start : safe lim (x4_read lim start).
Proof.
  unfold x4_read. destruct (AUTH =? start); [|constructor].
  apply safe_ip_auth_read. intros nh. constructor.
Qed.

Definition unfilled (s : slots) : nat :=
  (b2nat (negb (s_dest s)) + b2nat (negb (s_route s)) + b2nat (negb (s_final s))
   + b2nat (negb (s_frag s)) + b2nat (negb (s_auth s)))%nat.

Lemma safe_x6_read_loop fuel : forall lim s next,
  (unfilled s < fuel)%nat -> safe lim (x6_read_loop fuel lim s next).
Proof.
  induction fuel as [|f IH]; intros lim s next Hf; [lia|].
  cbn [x6_read_loop].
  destruct (next =? IPV6_HOP_BY_HOP); [constructor|].
  destruct (next =? IPV6_DEST_OPTIONS).
  { destruct (s_route s) eqn:Er.
    - destruct (s_final s) eqn:Ef; [constructor|].
      apply safe_raw_ext_read. intros nh. apply IH.
      unfold unfilled in *. cbn [s_dest s_route s_final s_frag s_auth]. rewrite Ef, Er in Hf. cbn [negb b2nat] in *. lia.
    - destruct (s_dest s) eqn:Ed; [constructor|].
      apply safe_raw_ext_read. intros nh. apply IH.
      unfold unfilled in *. cbn [s_dest s_route s_final s_frag s_auth]. rewrite Ed, Er in Hf. cbn [negb b2nat] in *. lia. }
  destruct (next =? IPV6_ROUTE).
  { destruct (s_route s) eqn:Er; [constructor|].
    apply safe_raw_ext_read. intros nh. apply IH.
    unfold unfilled in *. cbn [s_dest s_route s_final s_frag s_auth]. rewrite Er in Hf. cbn [negb b2nat] in *. lia. }
  destruct (next =? IPV6_FRAG).
  { destruct (s_frag s) eqn:Er; [constructor|].
    apply safe_frag_read. intros nh. apply IH.
    unfold unfilled in *. cbn [s_dest s_route s_final s_frag s_auth]. rewrite Er in Hf. cbn [negb b2nat] in *. lia. }
  destruct (next =? AUTH).
  { destruct (s_auth s) eqn:Er; [constructor|].
    apply safe_ip_auth_read. intros nh. apply IH.
    unfold unfilled in *. cbn [s_dest s_route s_final s_frag s_auth]. rewrite Er in Hf. cbn [negb b2nat] in *. lia. }
  constructor.
Qed.

Lemma safe_x6_read lim start : safe lim (x6_read lim start).
Proof.
  unfold x6_read. destruct (IPV6_HOP_BY_HOP =? start).
  - apply safe_raw_ext_read. intros nh. apply safe_x6_read_loop. unfold unfilled, X6_READ_FUEL, no_slots. cbn. lia.
  - apply safe_x6_read_loop. unfold unfilled, X6_READ_FUEL, no_slots. cbn. lia.
Qed.

Lemma safe_ip_headers_read : safe false ip_headers_read.
Proof.
  unfold ip_headers_read, ipv6_read_without_version.
  constructor. intros b Hb. safe_step.
  destruct (v / 16 =? 4).
  - destruct (v mod 16 <? 5) eqn:Ei; [constructor|].
    constructor. intros rest Hrest. repeat safe_step; apply safe_x4_read.
  - destruct (v / 16 =? 6); [|constructor].
    constructor. intros buffer Hbuf. repeat safe_step. apply safe_x6_read.
Qed.


(* ---------- K: statements used by Props/C16.v *)

(* the hand-duplicated two-part writers emit exactly fixed ++ variable part *)
Lemma two_part_writers h :
  (wprog_bytes (ipv4_header_write h) = two_bytes h /\ wprog_verdict (ipv4_header_write h) = VOk) /\
  (wprog_bytes (ip_auth_header_write h) = two_bytes h /\ wprog_verdict (ip_auth_header_write h) = VOk) /\
  (wprog_bytes (ipv6_raw_ext_header_write h) = two_bytes h /\ wprog_verdict (ipv6_raw_ext_header_write h) = VOk) /\
  (wprog_bytes (tcp_header_write h) = two_bytes h /\ wprog_verdict (tcp_header_write h) = VOk) /\
  (forall b, wprog_bytes (single_write b) = b /\ wprog_verdict (single_write b) = VOk).
Proof.
  unfold ipv4_header_write, ip_auth_header_write, ipv6_raw_ext_header_write, tcp_header_write,
    single_write, w1, two_bytes.
  cbn [wprog_bytes wprog_verdict]. rewrite !app_nil_r.
  repeat split; try reflexivity.
  - destruct (tp_var h); cbn [wprog_bytes]; now rewrite ?app_nil_r.
  - destruct (tp_var h); reflexivity.
  - apply app_nil_r.
Qed.

Lemma write_all_closed_form s buf : 1 <= fs_chunk s ->
  io_write_all s buf =
    (match fst (spec_write_all s buf) with None => ROk | Some k => RIo k end,
     snd (spec_write_all s buf)).
Proof. intros H. rewrite io_write_all_spec by exact H. reflexivity. Qed.

Lemma read_exact_closed_form s n : 1 <= src_chunk s ->
  io_read_exact s n =
    (match fst (spec_read_exact s n) with inl bs => XOk bs | inr k => XIo k end,
     snd (spec_read_exact s n)).
Proof.
  intros H. rewrite io_read_exact_spec by exact H. unfold xres_of.
  destruct (fst (spec_read_exact s n)); reflexivity.
Qed.

(* walks are total *)
Lemma walks_total :
  (forall x first, verdict_ok (wprog_verdict (x6_write_internal x first))) /\
  (forall x start, verdict_ok (wprog_verdict (x4_write_internal x start))) /\
  (forall h proto x, verdict_ok (wprog_verdict (ip_headers_write_v4 h proto x))) /\
  (forall h nh x, verdict_ok (wprog_verdict (ip_headers_write_v6 h nh x))) /\
  (forall c payload, verdict_ok (wprog_verdict (final_write_with_net c payload))).
Proof.
  split; [exact x6_write_internal_verdict|]. split; [exact x4_write_internal_verdict|].
  split; [|split].
  - intros. unfold ip_headers_write_v4. apply wseq_verdict_ok; [exact I | apply x4_write_internal_verdict].
  - intros. unfold ip_headers_write_v6. apply wseq_verdict_ok; [exact I | apply x6_write_internal_verdict].
  - exact final_verdict_ok.
Qed.

(* the extension walk writes each header at most once: never more than header_len() *)
Lemma walks_sized :
  (forall x first, exts6_wf x ->
     len (wprog_bytes (x6_write_internal x first)) <= x6_header_len x /\
     (wprog_verdict (x6_write_internal x first) = VOk ->
        len (wprog_bytes (x6_write_internal x first)) = x6_header_len x)) /\
  (forall x start, exts4_wf x ->
     len (wprog_bytes (x4_write_internal x start)) <= x4_header_len x /\
     (wprog_verdict (x4_write_internal x start) = VOk ->
        len (wprog_bytes (x4_write_internal x start)) = x4_header_len x)).
Proof. split; intros; [apply sized_x6 | apply sized_x4]; assumption. Qed.

Lemma slice_writer_parts :
  (forall s b, len (sw_buf s) < sw_pos s + len b ->
     sw_write_all s b = (RIo (mk_space (sw_pos s + len b) (len (sw_buf s))), s)) /\
  (forall p w, sw_pos w + len (wprog_bytes p) <= len (sw_buf w) ->
     run_w sw_write_all p w =
       (ret_of (wprog_verdict p),
        mk_slicew (take (sw_pos w) (sw_buf w) ++ wprog_bytes p
                   ++ drop (sw_pos w + len (wprog_bytes p)) (sw_buf w))
                  (sw_pos w + len (wprog_bytes p)))).
Proof. split; [exact sw_write_short | exact run_slice_fit]. Qed.

(* builder against a faulting io::Write *)
Lemma builder_write_fault c payload k chunk zero : 1 <= chunk ->
  let enc := wprog_bytes (final_write_with_net c payload) in
  let r := builder_write c payload (fresh_sink k chunk zero) in
  (k < len enc ->
     fst r = RIo (if zero then KWriteZero else KOther) /\ fs_got (snd r) = take k enc
     /\ is_prefix (fs_got (snd r)) enc) /\
  (len enc <= k -> fst r = ret_of (wprog_verdict (final_write_with_net c payload)) /\ fs_got (snd r) = enc) /\
  (fst (spec_fault_write enc k) = true <-> len enc <= k) /\
  fs_got (snd r) = snd (spec_fault_write enc k).
Proof. intros H. unfold builder_write. apply write_fault_any. exact H. Qed.

(* every reader of the crate, run on a plain source *)
Definition plain_readers : list rprog :=
  [read_fixed 14; read_fixed 4; read_fixed 16; read_fixed 8;
   ipv4_header_read; ipv6_header_read; tcp_header_read; icmpv4_header_read;
   macsec_header_read; arp_packet_read; ip_headers_read;
   ip_auth_read false (fun nh => PRet [nh]);
   ipv6_raw_ext_read false (fun nh => PRet [nh]);
   ipv6_frag_read false (fun nh => PRet [nh])].

Lemma plain_readers_good p s : In p plain_readers -> 1 <= src_chunk s ->
  good (fst (run_r p (mk_rstate s None))).
Proof.
  intros Hin Hc.
  assert (Hs : safe false p).
  { unfold plain_readers in Hin. cbn [In] in Hin.
    repeat (destruct Hin as [<-|Hin]; [
      first [ apply safe_read_fixed | apply safe_ipv4_header_read | apply safe_ipv6_header_read
            | apply safe_tcp_header_read | apply safe_icmpv4_header_read | apply safe_macsec_header_read
            | apply safe_arp_packet_read | apply safe_ip_headers_read
            | apply safe_ip_auth_read; intros; constructor
            | apply safe_raw_ext_read; intros; constructor
            | apply safe_frag_read; intros; constructor ] |]).
    contradiction. }
  apply (run_r_safe false p Hs).
  - split; [exact Hc | exact I].
  - unfold limited. cbn [rs_lim]. split; intros; [discriminate | congruence].
Qed.

Lemma ext_readers_good (lim : bool) start s r : 1 <= src_chunk s -> lr_read r <= lr_max r ->
  let st := mk_rstate s (if lim then Some r else None) in
  good (fst (run_r (x6_read lim start) st)) /\ good (fst (run_r (x4_read lim start) st)).
Proof.
  intros Hc Hi st. split.
  - apply (run_r_safe lim _ (safe_x6_read lim start)).
    + unfold st. split; [exact Hc|]. destruct lim; cbn; [exact Hi | exact I].
    + unfold limited, st. destruct lim; cbn [rs_lim]; split; intros; try discriminate; try reflexivity; congruence.
  - apply (run_r_safe lim _ (safe_x4_read lim start)).
    + unfold st. split; [exact Hc|]. destruct lim; cbn; [exact Hi | exact I].
    + unfold limited, st. destruct lim; cbn [rs_lim]; split; intros; try discriminate; try reflexivity; congruence.
Qed.

Lemma no_underflow p st : st_inv st ->
  fst (run_r p st) <> QUnderflow /\ st_inv (snd (run_r p st)).
Proof. intros H. destruct (run_r_inv p st H) as (I1 & I2 & _). split; assumption. Qed.
