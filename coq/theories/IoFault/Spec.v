(* IoFault/Spec.v -- property C16: the faulting devices and what the property
   demands of an operation running against them.  Independent of the crate:
   nothing here mentions a header type.

   Devices (exactly the instrumented std::io::Write / std::io::Read
   implementations of harness/src/bin/c16.rs):

   * fsink   : a writer that accepts `fs_budget` more bytes in total, at most
               `fs_chunk` per call to `write` (short counts), and afterwards
               either returns an error (kind Other) or the count 0.
   * fsource : a reader that delivers the bytes `src_data` (the first k bytes of
               the input), at most `src_chunk` per call to `read`, and afterwards
               either returns an error (kind Other) or the count 0 (end of file).
               Both are fail-stop: once the end is reached nothing more is
               accepted / delivered.
   * a slice of n bytes is simply a `bytes` of length n (bytes outside the slice
     do not exist in the model; the harness checks the canaries of the real one).

   Requirements (the oracle of the correspondence run):

   * spec_fault_write enc k : an operation whose complete encoding is `enc`
     run against a sink failing at byte k must report Ok iff len enc <= k and
     the sink must have received exactly `take k enc` (a prefix of enc).
   * spec_slice_write enc buf : Ok iff len enc <= len buf; on Ok the buffer is
     enc followed by the untouched rest; on Err the required length reported is
     len enc, the reported length is len buf and the buffer is unchanged.
   * spec_fault_read : a source truncated at k never delivers more than k bytes.
   Real OS error kinds are NOT modelled: only the three kinds the instrumented
   devices can produce (Other, WriteZero, UnexpectedEof). *)
From EP Require Import Base.Bytes.
Local Open Scope N_scope.

Inductive iokind := KOther | KWriteZero | KEof.

(* ---------------------------------------------------------------- fsink *)
Record fsink := mk_fsink {
  fs_budget : N;        (* bytes still accepted *)
  fs_chunk : N;         (* at most this many bytes per write call *)
  fs_zero : bool;       (* exhausted: true = return Ok(0), false = return Err(Other) *)
  fs_got : bytes        (* everything received so far *)
}.

Inductive wret := WOk (n : N) | WErr.

(* one call of <fsink as std::io::Write>::write(buf) *)
Definition fs_write (s : fsink) (buf : bytes) : wret * fsink :=
  if fs_budget s =? 0 then ((if fs_zero s then WOk 0 else WErr), s)
  else
    let n := N.min (N.min (fs_budget s) (fs_chunk s)) (len buf) in
    (WOk n, mk_fsink (fs_budget s - n) (fs_chunk s) (fs_zero s) (fs_got s ++ take n buf)).

Definition fs_kind (s : fsink) : iokind := if fs_zero s then KWriteZero else KOther.

(* what write_all must do on such a sink (closed form) *)
Definition spec_write_all (s : fsink) (buf : bytes) : option iokind * fsink :=
  if len buf <=? fs_budget s
  then (None, mk_fsink (fs_budget s - len buf) (fs_chunk s) (fs_zero s) (fs_got s ++ buf))
  else (Some (fs_kind s), mk_fsink 0 (fs_chunk s) (fs_zero s) (fs_got s ++ take (fs_budget s) buf)).

(* the property's demand on a whole operation with complete encoding enc *)
Definition spec_fault_write (enc : bytes) (k : N) : bool * bytes :=
  (len enc <=? k, take k enc).

Definition is_prefix (a b : bytes) : Prop := exists r, b = a ++ r.

(* ---------------------------------------------------------------- slices *)
Record space_req := mk_space { sp_required : N; sp_len : N }.

Definition spec_slice_write (enc buf : bytes) : (option space_req) * bytes :=
  if len enc <=? len buf then (None, enc ++ drop (len enc) buf)
  else (Some (mk_space (len enc) (len buf)), buf).

(* ---------------------------------------------------------------- fsource *)
Record fsource := mk_fsource {
  src_data : bytes;     (* bytes that will still be delivered *)
  src_chunk : N;        (* at most this many bytes per read call *)
  src_err : bool;       (* exhausted: true = Err(Other), false = Ok(0) i.e. EOF *)
  src_pulled : N        (* bytes delivered so far *)
}.

Inductive rret := RdOk (bs : bytes) | RdErr.

(* one call of <fsource as std::io::Read>::read(buf) with buf.len() = n *)
Definition src_read (s : fsource) (n : N) : rret * fsource :=
  match src_data s with
  | [] => ((if src_err s then RdErr else RdOk []), s)
  | _ =>
    let m := N.min (N.min (len (src_data s)) (src_chunk s)) n in
    (RdOk (take m (src_data s)),
     mk_fsource (drop m (src_data s)) (src_chunk s) (src_err s) (src_pulled s + m))
  end.

Definition src_kind (s : fsource) : iokind := if src_err s then KOther else KEof.

(* what read_exact(n) must do on such a source (closed form) *)
Definition spec_read_exact (s : fsource) (n : N) : (bytes + iokind) * fsource :=
  if n <=? len (src_data s)
  then (inl (take n (src_data s)),
        mk_fsource (drop n (src_data s)) (src_chunk s) (src_err s) (src_pulled s + n))
  else (inr (src_kind s),
        mk_fsource [] (src_chunk s) (src_err s) (src_pulled s + len (src_data s))).
