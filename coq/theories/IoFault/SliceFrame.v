(* IoFault/SliceFrame.v -- property C16 (audit round 1): "never writes outside
   the given slice".

   In Model.v a slice of n bytes is a `bytes` of length n and a function that
   writes into it returns the new contents.  Bytes outside do not exist there.
   Here the slice is a window [off, off+n) of a flat memory `mem`; the contents a
   function returns are laid down starting at `off` (`place`): a model function
   whose result were LONGER than the window would overwrite what follows it, a
   shorter one would shift it - both are expressible, and excluded by the
   theorems below for

     * Ethernet2Header / LinuxSllHeader ::write_to_slice   (header_write_to_slice)
     * SliceCoreWrite::write_all, and every write program / every explicit
       program of IoFault/Propagate.v run over it (also one that swallows errors)
     * the builder's final_write_to_slice

   on every outcome: success, space error, content error, and the modelled
   panics.  No hypothesis on LEN, the encodings or the configuration is needed.
   What makes this true in the Rust code are the bounds checks of safe slice
   indexing (`slice[..LEN]`, `get_mut(pos..)`, `get_mut(..len)`,
   `copy_from_slice`'s length check); the model transliterates exactly those
   checks (SPanic / the RIo branches of sw_write_all).  None of the three
   functions contains `unsafe`.  The canary bytes of the harness remain the only
   tie to the compiled code. *)
From EP Require Import Base.Bytes IoFault.Spec IoFault.Model IoFault.Proofs IoFault.ReadFault
  IoFault.Propagate.
Local Open Scope N_scope.

(* lay `w` down in memory starting at `off` *)
Definition place (mem : bytes) (off : N) (w : bytes) : bytes :=
  take off mem ++ w ++ drop (off + len w) mem.

(* the window *)
Definition window (mem : bytes) (off n : N) : bytes := take n (drop off mem).

Lemma len_window mem off n : off + n <= len mem -> len (window mem off n) = n.
Proof. intros H. unfold window. rewrite len_take, len_drop. lia. Qed.

(* placing contents of exactly the window's length touches nothing else *)
Lemma place_frame mem off n w : off + n <= len mem -> len w = n ->
  let mem' := place mem off w in
  len mem' = len mem /\
  take off mem' = take off mem /\
  drop (off + n) mem' = drop (off + n) mem /\
  window mem' off n = w.
Proof.
  intros Hb Hw mem'. unfold mem', place. rewrite Hw.
  assert (Lt : len (take off mem) = off) by (rewrite len_take; lia).
  split; [|split; [|split]].
  - rewrite !len_app, Lt, Hw, len_drop. lia.
  - rewrite take_app_l by lia. apply take_all. lia.
  - rewrite app_assoc. rewrite drop_app_r by (rewrite len_app; lia).
    rewrite len_app, Lt, Hw. replace (off + n - (off + n)) with 0 by lia. apply drop_0.
  - unfold window. rewrite drop_app_r by lia. rewrite Lt. replace (off - off) with 0 by lia.
    rewrite drop_0. rewrite take_app_l by lia. apply take_all. lia.
Qed.

(* putting the unchanged window back changes nothing *)
Lemma place_same mem off n : off + n <= len mem -> place mem off (window mem off n) = mem.
Proof.
  intros H. unfold place. rewrite len_window by exact H. unfold window.
  rewrite <- (take_drop off mem) at 4. f_equal.
  rewrite <- (take_drop n (drop off mem)) at 2. f_equal. now rewrite drop_drop.
Qed.

(* ---------- the three functions keep the length of what they are given *)
Lemma header_write_to_slice_len LEN layer enc slice :
  len (snd (header_write_to_slice LEN layer enc slice)) = len slice.
Proof.
  unfold header_write_to_slice. destruct (len slice <? LEN) eqn:E1; [reflexivity|].
  apply N.ltb_ge in E1. destruct (len enc =? LEN) eqn:E2; [|reflexivity].
  apply N.eqb_eq in E2. cbn [snd]. rewrite len_app, len_drop. lia.
Qed.

Lemma sw_write_all_len s b : len (sw_buf (snd (sw_write_all s b))) = len (sw_buf s).
Proof.
  unfold sw_write_all. destruct (len (sw_buf s) <? sw_pos s) eqn:E1; [reflexivity|].
  apply N.ltb_ge in E1. destruct (len (sw_buf s) - sw_pos s <? len b) eqn:E2; [reflexivity|].
  apply N.ltb_ge in E2. cbn [snd sw_buf]. rewrite !len_app, len_take, len_drop. lia.
Qed.

Lemma run_w_slice_len p : forall w, len (sw_buf (snd (run_w sw_write_all p w))) = len (sw_buf w).
Proof.
  induction p as [v|b k IH]; intros w; cbn [run_w]; [reflexivity|].
  pose proof (sw_write_all_len w b) as H. destruct (sw_write_all w b) as [[ |e|c| | ] w']; cbn [snd] in *;
    try exact H. rewrite IH. exact H.
Qed.

Lemma run_x_slice_len (p : xprog space_req) : forall w,
  len (sw_buf (snd (run_x sw_write_all p w))) = len (sw_buf w).
Proof.
  induction p as [v|e|b k IH]; intros w; cbn [run_x]; try reflexivity.
  pose proof (sw_write_all_len w b) as H. destruct (sw_write_all w b) as [[ |e|c| | ] w']; cbn [snd] in *;
    try exact H; rewrite IH; exact H.
Qed.

Lemma final_write_to_slice_len c buffer payload :
  len (snd (final_write_to_slice c buffer payload)) = len buffer.
Proof.
  unfold final_write_to_slice. set (required := final_size c (len payload)).
  destruct (len buffer <? required) eqn:E; [reflexivity|]. apply N.ltb_ge in E.
  pose proof (run_w_slice_len (final_write_with_net c payload) (mk_slicew (take required buffer) 0)) as H.
  cbn [sw_buf] in H. rewrite len_take in H.
  destruct (run_w sw_write_all (final_write_with_net c payload) (mk_slicew (take required buffer) 0))
    as [[ |e|ce| | ] w]; cbn [snd] in *; rewrite len_app, H, len_drop; lia.
Qed.

(* ---------- the statement of Props/C16.v *)
Definition untouched_outside (mem mem' : bytes) (off n : N) : Prop :=
  len mem' = len mem /\ take off mem' = take off mem /\ drop (off + n) mem' = drop (off + n) mem.

Lemma slice_frame mem off n : off + n <= len mem ->
  let win := window mem off n in
  (* Ethernet2Header / LinuxSllHeader ::write_to_slice *)
  (forall LEN layer enc,
     let r := header_write_to_slice LEN layer enc win in
     untouched_outside mem (place mem off (snd r)) off n /\
     window (place mem off (snd r)) off n = snd r /\
     (match fst r with SOk _ _ => True | _ => place mem off (snd r) = mem end)) /\
  (* every write program / explicit program over a SliceCoreWrite on the window *)
  (forall p pos,
     let r := run_w sw_write_all p (mk_slicew win pos) in
     untouched_outside mem (place mem off (sw_buf (snd r))) off n) /\
  (forall (p : xprog space_req) pos,
     let r := run_x sw_write_all p (mk_slicew win pos) in
     untouched_outside mem (place mem off (sw_buf (snd r))) off n) /\
  (* the builder's write_to_slice *)
  (forall c payload,
     let r := final_write_to_slice c win payload in
     untouched_outside mem (place mem off (snd r)) off n /\
     window (place mem off (snd r)) off n = snd r /\
     (n < final_size c (len payload) -> fst r = BSpace (final_size c (len payload)) /\ place mem off (snd r) = mem)).
Proof.
  intros Hb win. assert (Lw : len win = n) by (apply len_window; exact Hb).
  split; [|split; [|split]].
  - intros LEN layer enc r.
    assert (Lr : len (snd r) = n) by (unfold r; rewrite header_write_to_slice_len; exact Lw).
    destruct (place_frame mem off n (snd r) Hb Lr) as (P1 & P2 & P3 & P4).
    split; [repeat split; assumption|]. split; [exact P4|].
    unfold r, header_write_to_slice. destruct (len win <? LEN); cbn [fst snd].
    + apply place_same. exact Hb.
    + destruct (len enc =? LEN); cbn [fst snd]; [exact I | apply place_same; exact Hb].
  - intros p pos r.
    assert (Lr : len (sw_buf (snd r)) = n) by (unfold r; rewrite run_w_slice_len; exact Lw).
    destruct (place_frame mem off n _ Hb Lr) as (P1 & P2 & P3 & P4). repeat split; assumption.
  - intros p pos r.
    assert (Lr : len (sw_buf (snd r)) = n) by (unfold r; rewrite run_x_slice_len; exact Lw).
    destruct (place_frame mem off n _ Hb Lr) as (P1 & P2 & P3 & P4). repeat split; assumption.
  - intros c payload r.
    assert (Lr : len (snd r) = n) by (unfold r; rewrite final_write_to_slice_len; exact Lw).
    destruct (place_frame mem off n (snd r) Hb Lr) as (P1 & P2 & P3 & P4).
    split; [repeat split; assumption|]. split; [exact P4|].
    intros Hn. unfold r, final_write_to_slice.
    replace (len win <? final_size c (len payload)) with true by (symmetry; apply N.ltb_lt; lia).
    cbn [fst snd]. split; [reflexivity | apply place_same; exact Hb].
Qed.

(* what would be a violation is expressible: contents one byte longer than the
   window overwrite the byte behind it *)
Lemma place_overrun_visible :
  let mem := [9; 9; 1; 2; 3; 7; 7] in
  window mem 2 3 = [1; 2; 3] /\
  place mem 2 [4; 5; 6] = [9; 9; 4; 5; 6; 7; 7] /\
  place mem 2 [4; 5; 6; 0] = [9; 9; 4; 5; 6; 0; 7] /\
  ~ untouched_outside mem (place mem 2 [4; 5; 6; 0]) 2 3.
Proof.
  cbn zeta. repeat split; try (vm_compute; reflexivity).
  intros (_ & _ & H). vm_compute in H. discriminate H.
Qed.
