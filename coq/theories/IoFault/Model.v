(* IoFault/Model.v -- property C16: transliteration of the writer / reader
   plumbing of etherparse.

   What is modelled (one definition per Rust function, same names):
     writer.rs            IoWriter::write_all (= std::io::Write::write_all default
                          loop over the instrumented sink), VecWriter::write_all,
                          SliceCoreWrite::write_all
     every `write`        as a *write program*: the sequence of write_all calls the
                          function performs, each followed by `?`, and the value it
                          returns when all of them succeed.  The bytes of each part
                          (to_bytes() of a header, the fixed 20 bytes, the options
                          ...) are parameters: C16 is about sequencing and error
                          propagation, not about bit layout.
     Ipv6Extensions::write_internal   the next-header walk with its needs_write
                          flags, its unwrap()s (VPanic) and its loop (fuel, VFuel)
     packet_builder.rs    final_size, final_write_with_net, final_write_to_slice
     Ethernet2Header / LinuxSllHeader ::write_to_slice
     io/limited_reader.rs LimitedReader::{new,start_layer,read_exact}; the usize
                          subtractions are checked: underflow = QUnderflow
     every `read`         as a *read program* over read_exact / start_layer /
                          LimitedReader::new, with the length fields they parse
   usize is unbounded N (64-bit sums of lengths < 2^32 cannot wrap;
   `saturating_add` in SliceCoreWrite therefore never saturates). *)
From EP Require Import Base.Bytes IoFault.Spec.
Local Open Scope N_scope.

(* ------------------------------------------------------------------ results *)
Inductive cerr :=
  | CHopNotAtStart | CNotReferenced (ipnum : N) | CPayloadLen | CIcmpv6InIpv4
  | CVersion | CIhl | CDataOffset | CAuthZeroLen | CMacsecVersion | CMacsecShortLen.

Inductive wres (E : Type) := ROk | RIo (e : E) | RContent (c : cerr) | RPanic | RFuel.
Arguments ROk {E}. Arguments RIo {E} e. Arguments RContent {E} c.
Arguments RPanic {E}. Arguments RFuel {E}.

(* ------------------------------------------------------------------ writer.rs *)
(* std::io::Write::write_all (library/std/src/io/mod.rs):
     while !buf.is_empty() { match self.write(buf) {
         Ok(0) => return Err(WriteZero), Ok(n) => buf = &buf[n..],
         Err(e) if interrupted => {}, Err(e) => return Err(e) } }  Ok(())
   (the instrumented sink never returns Interrupted) *)
Fixpoint std_write_all (fuel : nat) (s : fsink) (buf : bytes) : wres iokind * fsink :=
  match buf with
  | [] => (ROk, s)
  | _ =>
    match fuel with
    | O => (RFuel, s)
    | S f =>
      match fs_write s buf with
      | (WErr, s') => (RIo KOther, s')
      | (WOk n, s') =>
        if n =? 0 then (RIo KWriteZero, s')
        else if len buf <? n then (RPanic, s')           (* &buf[n..] out of range *)
        else std_write_all f s' (drop n buf)
      end
    end
  end.

(* IoWriter::write_all *)
Definition io_write_all (s : fsink) (buf : bytes) : wres iokind * fsink :=
  std_write_all (S (length buf)) s buf.

(* VecWriter::write_all (Error = Infallible) *)
Definition vec_write_all (v : bytes) (buf : bytes) : wres Empty_set * bytes :=
  (ROk, v ++ buf).

(* SliceCoreWrite *)
Record slicew := mk_slicew { sw_buf : bytes; sw_pos : N }.

Definition sw_write_all (s : slicew) (slice : bytes) : wres space_req * slicew :=
  let buf_len := len (sw_buf s) in
  let required_len := sw_pos s + len slice in
  (* self.buf.get_mut(self.pos..) *)
  if buf_len <? sw_pos s then (RIo (mk_space required_len buf_len), s)
  (* tail.get_mut(..slice.len()) *)
  else if (buf_len - sw_pos s) <? len slice then (RIo (mk_space required_len buf_len), s)
  else (ROk, mk_slicew (take (sw_pos s) (sw_buf s) ++ slice ++ drop required_len (sw_buf s))
                       required_len).

(* ------------------------------------------------------------------ write programs *)
Inductive verdict := VOk | VContent (c : cerr) | VPanic | VFuel.

Inductive wprog := WRet (v : verdict) | WWrite (p : bytes) (k : wprog).

(* `a?; b` *)
Fixpoint wseq (a b : wprog) : wprog :=
  match a with
  | WRet VOk => b
  | WRet v => WRet v
  | WWrite p k => WWrite p (wseq k b)
  end.

Definition w1 (b : bytes) : wprog := WWrite b (WRet VOk).

Definition ret_of {E} (v : verdict) : wres E :=
  match v with VOk => ROk | VContent c => RContent c | VPanic => RPanic | VFuel => RFuel end.

Section Run.
  Context {W E : Type}.
  Variable wall : W -> bytes -> wres E * W.
  Fixpoint run_w (p : wprog) (w : W) : wres E * W :=
    match p with
    | WRet v => (ret_of v, w)
    | WWrite b k =>
      match wall w b with
      | (ROk, w') => run_w k w'
      | (r, w') => (r, w')
      end
    end.
End Run.

(* everything a program writes when nothing fails, and its final value *)
Fixpoint wprog_bytes (p : wprog) : bytes :=
  match p with WRet _ => [] | WWrite b k => b ++ wprog_bytes k end.
Fixpoint wprog_verdict (p : wprog) : verdict :=
  match p with WRet v => v | WWrite _ k => wprog_verdict k end.

(* ------------------------------------------------------------------ header writers *)
(* Ethernet2Header, LinuxSllHeader, LinkHeader, MacsecHeader, SingleVlanHeader,
   ArpPacket, Ipv6Header, Ipv6FragmentHeader, UdpHeader, Icmpv4Header,
   Icmpv6Header, TransportHeader, Icmpv6Payload ::write:
   `writer.write_all(&self.to_bytes())` *)
Definition single_write (to_bytes : bytes) : wprog := w1 to_bytes.

(* Ipv4Header::write / write_raw -> write_ipv4_header_internal:
   write_all(&header_raw)?; write_all(&self.options)?; Ok(()) *)
Record two_part := mk_two { tp_fixed : bytes; tp_var : bytes }.
Definition two_bytes (h : two_part) : bytes := tp_fixed h ++ tp_var h.

Definition ipv4_header_write (h : two_part) : wprog :=
  WWrite (tp_fixed h) (WWrite (tp_var h) (WRet VOk)).
(* IpAuthHeader::write: 12 fixed bytes, then raw_icv() *)
Definition ip_auth_header_write (h : two_part) : wprog :=
  WWrite (tp_fixed h) (WWrite (tp_var h) (WRet VOk)).
(* Ipv6RawExtHeader::write: [next_header, header_length], then payload() *)
Definition ipv6_raw_ext_header_write (h : two_part) : wprog :=
  WWrite (tp_fixed h) (WWrite (tp_var h) (WRet VOk)).
(* TcpHeader::write: 20 fixed bytes; options only `if false == options.is_empty()` *)
Definition tcp_header_write (h : two_part) : wprog :=
  WWrite (tp_fixed h)
    (match tp_var h with [] => WRet VOk | _ => WWrite (tp_var h) (WRet VOk) end).

(* one extension header as the walkers see it *)
Record ext := mk_ext { e_nh : N;        (* its next_header field *)
                       e_len : N;       (* header_len() *)
                       e_enc : bytes }. (* to_bytes() *)

(* Ipv4Extensions::write_internal *)
Record exts4 := mk_exts4 { x4_auth : option ext }.
Definition AUTH := 51.
Definition IPV6_HOP_BY_HOP := 0.
Definition IPV6_ROUTE := 43.
Definition IPV6_FRAG := 44.
Definition IPV6_DEST_OPTIONS := 60.

Definition x4_write_internal (x : exts4) (start_ip_number : N) : wprog :=
  match x4_auth x with
  | Some header =>
    if AUTH =? start_ip_number then w1 (e_enc header)
    else WRet (VContent (CNotReferenced AUTH))
  | None => WRet VOk
  end.
Definition x4_header_len (x : exts4) : N :=
  match x4_auth x with Some h => e_len h | None => 0 end.

(* Ipv6Extensions::write_internal *)
Record exts6 := mk_exts6 {
  x6_hop : option ext;
  x6_dest : option ext;
  x6_routing : option (ext * option ext);   (* routing, final_destination_options *)
  x6_frag : option ext;
  x6_auth : option ext }.

Record needs := mk_needs { n_hop : bool; n_dest : bool; n_route : bool;
                           n_frag : bool; n_auth : bool; n_final : bool }.

Definition is_some {A} (o : option A) : bool := match o with Some _ => true | None => false end.

Definition x6_needs (x : exts6) : needs :=
  mk_needs (is_some (x6_hop x)) (is_some (x6_dest x)) (is_some (x6_routing x))
           (is_some (x6_frag x)) (is_some (x6_auth x))
           (match x6_routing x with Some (_, f) => is_some f | None => false end).

(* "check that all header have been written" *)
Definition x6_final (nw : needs) : verdict :=
  if n_hop nw then VContent (CNotReferenced IPV6_HOP_BY_HOP)
  else if n_dest nw then VContent (CNotReferenced IPV6_DEST_OPTIONS)
  else if n_route nw then VContent (CNotReferenced IPV6_ROUTE)
  else if n_frag nw then VContent (CNotReferenced IPV6_FRAG)
  else if n_auth nw then VContent (CNotReferenced AUTH)
  else if n_final nw then VContent (CNotReferenced IPV6_DEST_OPTIONS)
  else VOk.

Definition set_hop (nw : needs) := mk_needs false (n_dest nw) (n_route nw) (n_frag nw) (n_auth nw) (n_final nw).
Definition set_dest (nw : needs) := mk_needs (n_hop nw) false (n_route nw) (n_frag nw) (n_auth nw) (n_final nw).
Definition set_route (nw : needs) := mk_needs (n_hop nw) (n_dest nw) false (n_frag nw) (n_auth nw) (n_final nw).
Definition set_frag (nw : needs) := mk_needs (n_hop nw) (n_dest nw) (n_route nw) false (n_auth nw) (n_final nw).
Definition set_auth (nw : needs) := mk_needs (n_hop nw) (n_dest nw) (n_route nw) (n_frag nw) false (n_final nw).
Definition set_final (nw : needs) := mk_needs (n_hop nw) (n_dest nw) (n_route nw) (n_frag nw) (n_auth nw) false.

(* the `loop { match next_header { ... } }`; `break` = WRet (x6_final nw);
   `.unwrap()` on an absent header = VPanic *)
Fixpoint x6_loop (fuel : nat) (x : exts6) (nw : needs) (next_header : N)
         (route_written : bool) : wprog :=
  match fuel with
  | O => WRet VFuel
  | S f =>
    if next_header =? IPV6_HOP_BY_HOP then
      if n_hop nw then WRet (VContent CHopNotAtStart) else WRet (x6_final nw)
    else if next_header =? IPV6_DEST_OPTIONS then
      if route_written then
        if n_final nw then
          match x6_routing x with
          | Some (_, Some header) =>
            WWrite (e_enc header) (x6_loop f x (set_final nw) (e_nh header) route_written)
          | _ => WRet VPanic
          end
        else WRet (x6_final nw)
      else if n_dest nw then
        match x6_dest x with
        | Some header =>
          WWrite (e_enc header) (x6_loop f x (set_dest nw) (e_nh header) route_written)
        | None => WRet VPanic
        end
      else WRet (x6_final nw)
    else if next_header =? IPV6_ROUTE then
      if n_route nw then
        match x6_routing x with
        | Some (header, _) =>
          WWrite (e_enc header) (x6_loop f x (set_route nw) (e_nh header) true)
        | None => WRet VPanic
        end
      else WRet (x6_final nw)
    else if next_header =? IPV6_FRAG then
      if n_frag nw then
        match x6_frag x with
        | Some header =>
          WWrite (e_enc header) (x6_loop f x (set_frag nw) (e_nh header) route_written)
        | None => WRet VPanic
        end
      else WRet (x6_final nw)
    else if next_header =? AUTH then
      if n_auth nw then
        match x6_auth x with
        | Some header =>
          WWrite (e_enc header) (x6_loop f x (set_auth nw) (e_nh header) route_written)
        | None => WRet VPanic
        end
      else WRet (x6_final nw)
    else WRet (x6_final nw)
  end.

Definition X6_FUEL : nat := 7.

Definition x6_write_internal (x : exts6) (first_header : N) : wprog :=
  let nw := x6_needs x in
  if IPV6_HOP_BY_HOP =? first_header then
    match x6_hop x with
    | Some header =>
      WWrite (e_enc header) (x6_loop X6_FUEL x (set_hop nw) (e_nh header) false)
    | None => x6_loop X6_FUEL x nw first_header false
    end
  else x6_loop X6_FUEL x nw first_header false.

Definition opt_len (o : option ext) : N := match o with Some h => e_len h | None => 0 end.
Definition x6_header_len (x : exts6) : N :=
  opt_len (x6_hop x) + opt_len (x6_dest x)
  + (match x6_routing x with Some (r, f) => e_len r + opt_len f | None => 0 end)
  + opt_len (x6_frag x) + opt_len (x6_auth x).

(* IpHeaders::write: header.write(writer)?; extensions.write(writer, header.protocol) *)
Definition ip_headers_write_v4 (h : two_part) (protocol : N) (x : exts4) : wprog :=
  wseq (ipv4_header_write h) (x4_write_internal x protocol).
Definition ip_headers_write_v6 (h : bytes) (next_header : N) (x : exts6) : wprog :=
  wseq (single_write h) (x6_write_internal x next_header).

(* ------------------------------------------------------------------ write_to_slice of a header *)
Record slice_err := mk_slice_err { se_required : N; se_len : N; se_layer : N; se_off : N }.
Inductive sres := SOk (rest_off rest_len : N) | SErr (e : slice_err) | SPanic.

Definition L_ETH := 1.
Definition L_SLL := 2.
Definition L_IPV4H := 3.
Definition L_IPV4PKT := 4.
Definition L_AUTH := 5.
Definition L_IPV6H := 6.
Definition L_IPV6EXT := 7.
Definition L_IPV6FRAG := 8.

(* Ethernet2Header::write_to_slice (LEN = 14, layer Ethernet2Header),
   LinuxSllHeader::write_to_slice (LEN = 16, layer LinuxSllHeader) *)
Definition header_write_to_slice (LEN layer : N) (to_bytes slice : bytes) : sres * bytes :=
  if len slice <? LEN then (SErr (mk_slice_err LEN (len slice) layer 0), slice)
  else if len to_bytes =? LEN                 (* copy_from_slice: equal lengths or panic *)
       then (SOk LEN (len slice - LEN), to_bytes ++ drop LEN slice)
       else (SPanic, slice).

(* ------------------------------------------------------------------ packet_builder.rs *)
Record part := mk_part { p_len : N;        (* what header_len() / LEN says *)
                         p_enc : bytes }.  (* what to_bytes() gives *)

Inductive bnet :=
  | BIpv4 (h : part) (protocol : N) (x : exts4)
  | BIpv6 (h : part) (next_header : N) (x : exts6)
  | BArp (p : part).

Record bcfg := mk_bcfg {
  b_link : option part;
  b_vlan : list part;              (* Single = 1 part, Double = 2 parts *)
  b_net : bnet;
  b_pre : option cerr;             (* set_payload_len / set_payload_length error *)
  b_mid : option cerr;             (* update_checksum_ipv4/6 error (after the ip header went out) *)
  b_transport : option part }.

Definition opt_w (o : option part) : wprog :=
  match o with Some p => w1 (p_enc p) | None => WRet VOk end.
Fixpoint parts_w (ps : list part) : wprog :=
  match ps with [] => WRet VOk | p :: r => WWrite (p_enc p) (parts_w r) end.
Definition cerr_w (o : option cerr) : wprog :=
  match o with Some c => WRet (VContent c) | None => WRet VOk end.

Definition final_write_with_net (c : bcfg) (payload : bytes) : wprog :=
  wseq (opt_w (b_link c))
  (wseq (parts_w (b_vlan c))
  (wseq (match b_net c with
         | BIpv4 ip protocol exts =>
           wseq (cerr_w (b_pre c))
           (wseq (w1 (p_enc ip))
           (wseq (x4_write_internal exts protocol) (cerr_w (b_mid c))))
         | BIpv6 ip next_header exts =>
           wseq (cerr_w (b_pre c))
           (wseq (w1 (p_enc ip))
           (wseq (x6_write_internal exts next_header) (cerr_w (b_mid c))))
         | BArp arp => w1 (p_enc arp)
         end)
  (wseq (opt_w (b_transport c))
        (w1 payload)))).

Definition opt_plen (o : option part) : N := match o with Some p => p_len p | None => 0 end.
Fixpoint parts_len (ps : list part) : N :=
  match ps with [] => 0 | p :: r => p_len p + parts_len r end.

Definition final_size (c : bcfg) (payload_size : N) : N :=
  opt_plen (b_link c) + parts_len (b_vlan c)
  + (match b_net c with
     | BIpv4 h _ x => p_len h + x4_header_len x
     | BIpv6 h _ x => p_len h + x6_header_len x
     | BArp p => p_len p
     end)
  + opt_plen (b_transport c) + payload_size.

Inductive bres := BOk (written : N) | BSpace (required : N) | BContent (c : cerr) | BPanic | BFuel.

Definition final_write_to_slice (c : bcfg) (buffer payload : bytes) : bres * bytes :=
  let required := final_size c (len payload) in
  if len buffer <? required then (BSpace required, buffer)     (* buffer.get_mut(..required) *)
  else
    let rest := drop required buffer in
    match run_w sw_write_all (final_write_with_net c payload) (mk_slicew (take required buffer) 0) with
    | (ROk, w) => (BOk required, sw_buf w ++ rest)
    | (RIo e, w) => (BSpace (sp_required e), sw_buf w ++ rest)
    | (RContent e, w) => (BContent e, sw_buf w ++ rest)
    | (RPanic, w) => (BPanic, sw_buf w ++ rest)
    | (RFuel, w) => (BFuel, sw_buf w ++ rest)
    end.

(* PacketBuilderStep::write (std::io::Write) *)
Definition builder_write (c : bcfg) (payload : bytes) (s : fsink) : wres iokind * fsink :=
  run_w io_write_all (final_write_with_net c payload) s.

(* ------------------------------------------------------------------ readers *)
(* std::io::Read::read_exact default (default_read_exact):
     while !buf.is_empty() { match this.read(buf) { Ok(0) => break,
        Ok(n) => buf = &mut buf[n..], Err(interrupted) => {}, Err(e) => return Err(e) } }
     if !buf.is_empty() { Err(UnexpectedEof) } else { Ok(()) }
   returns the bytes placed into buf on success *)
Inductive xres := XOk (bs : bytes) | XIo (k : iokind) | XPanic | XFuel.

Fixpoint std_read_exact (fuel : nat) (s : fsource) (n : N) (acc : bytes) : xres * fsource :=
  if n =? 0 then (XOk acc, s)
  else
    match fuel with
    | O => (XFuel, s)
    | S f =>
      match src_read s n with
      | (RdErr, s') => (XIo KOther, s')
      | (RdOk got, s') =>
        if len got =? 0 then (XIo KEof, s')
        else if n <? len got then (XPanic, s')          (* &mut buf[n..] out of range *)
        else std_read_exact f s' (n - len got) (acc ++ got)
      end
    end.

Definition io_read_exact (s : fsource) (n : N) : xres * fsource :=
  std_read_exact (S (N.to_nat n)) s n [].

(* err::LenError *)
Record lenerr := mk_lenerr { le_required : N; le_len : N; le_source : N; le_layer : N; le_off : N }.

Definition LS_SLICE := 0.
Definition LS_IPV4_TOTAL := 1.
Definition LS_IPV6_PAYLOAD := 2.

(* LimitedReader (the inner reader is kept beside it) *)
Record limrd := mk_limrd { lr_max : N; lr_source : N; lr_layer : N; lr_off : N; lr_read : N }.

Definition lr_new (max_len len_source layer_offset layer : N) : limrd :=
  mk_limrd max_len len_source layer layer_offset 0.

(* usize `a - b`: panics in debug, wraps in release; both are "underflow" here *)
Definition checked_sub (a b : N) : option N := if b <=? a then Some (a - b) else None.

(* start_layer: layer_offset += read_len; max_len -= read_len; read_len = 0; layer = l *)
Definition lr_start_layer (r : limrd) (layer : N) : option limrd :=
  match checked_sub (lr_max r) (lr_read r) with
  | None => None
  | Some m => Some (mk_limrd m (lr_source r) layer (lr_off r + lr_read r) 0)
  end.

Inductive qres (A : Type) :=
  | QOk (a : A) | QIo (k : iokind) | QLen (e : lenerr) | QContent (c : cerr)
  | QUnderflow       (* usize subtraction underflow inside LimitedReader *)
  | QBad             (* a leaf of the transliteration that stands for an impossible index *)
  | QFuel.
Arguments QOk {A} a. Arguments QIo {A} k. Arguments QLen {A} e. Arguments QContent {A} c.
Arguments QUnderflow {A}. Arguments QBad {A}. Arguments QFuel {A}.

(* read_exact of the LimitedReader *)
Definition lr_read_exact (r : limrd) (s : fsource) (n : N) : qres bytes * limrd * fsource :=
  match checked_sub (lr_max r) (lr_read r) with
  | None => (QUnderflow, r, s)
  | Some remaining =>
    if remaining <? n then
      (QLen (mk_lenerr (lr_read r + n) (lr_max r) (lr_source r) (lr_layer r) (lr_off r)), r, s)
    else
      match io_read_exact s n with
      | (XOk bs, s') =>
        (QOk bs, mk_limrd (lr_max r) (lr_source r) (lr_layer r) (lr_off r) (lr_read r + n), s')
      | (XIo k, s') => (QIo k, r, s')
      | (XPanic, s') => (QBad, r, s')
      | (XFuel, s') => (QFuel, r, s')
      end
  end.

(* read programs: what a `read` / `read_limited` function does with its reader *)
Inductive rprog :=
  | PRet (summary : list N)
  | PFail (c : cerr)
  | PLenErr (e : lenerr)                     (* a LenError the function builds itself *)
  | PBad
  | PFuelOut
  | PRead (n : N) (k : bytes -> rprog)        (* reader.read_exact(&mut buf[..n])?; *)
  | PStart (layer : N) (k : rprog)            (* reader.start_layer(layer); *)
  | PLimit (max_len len_source layer_offset layer : N) (k : rprog).   (* LimitedReader::new(reader, ..) *)

Record rstate := mk_rstate { rs_src : fsource; rs_lim : option limrd }.

Fixpoint run_r (p : rprog) (st : rstate) : qres (list N) * rstate :=
  match p with
  | PRet a => (QOk a, st)
  | PFail c => (QContent c, st)
  | PLenErr e => (QLen e, st)
  | PBad => (QBad, st)
  | PFuelOut => (QFuel, st)
  | PRead n k =>
    match rs_lim st with
    | None =>
      match io_read_exact (rs_src st) n with
      | (XOk bs, s') => run_r (k bs) (mk_rstate s' None)
      | (XIo e, s') => (QIo e, mk_rstate s' None)
      | (XPanic, s') => (QBad, mk_rstate s' None)
      | (XFuel, s') => (QFuel, mk_rstate s' None)
      end
    | Some r =>
      match lr_read_exact r (rs_src st) n with
      | (QOk bs, r', s') => run_r (k bs) (mk_rstate s' (Some r'))
      | (QIo e, r', s') => (QIo e, mk_rstate s' (Some r'))
      | (QLen e, r', s') => (QLen e, mk_rstate s' (Some r'))
      | (QContent c, r', s') => (QContent c, mk_rstate s' (Some r'))
      | (QUnderflow, r', s') => (QUnderflow, mk_rstate s' (Some r'))
      | (QBad, r', s') => (QBad, mk_rstate s' (Some r'))
      | (QFuel, r', s') => (QFuel, mk_rstate s' (Some r'))
      end
    end
  | PStart layer k =>
    match rs_lim st with
    | None => (QBad, st)                       (* start_layer exists only on a LimitedReader *)
    | Some r =>
      match lr_start_layer r layer with
      | None => (QUnderflow, st)
      | Some r' => run_r k (mk_rstate (rs_src st) (Some r'))
      end
    end
  | PLimit m ls off layer k =>
    match rs_lim st with
    | None => run_r k (mk_rstate (rs_src st) (Some (lr_new m ls off layer)))
    | Some _ => (QBad, st)                     (* never nested in the crate *)
    end
  end.

(* checked index into a buffer that was just filled *)
Definition at_ (bs : bytes) (i : N) (k : N -> rprog) : rprog :=
  match rd bs i with Some v => k v | None => PBad end.

(* Ethernet2Header(14) SingleVlanHeader(4) LinuxSllHeader(16, valid contents)
   Ipv6FragmentHeader(8) UdpHeader(8) Icmpv6Header(8) ::read *)
Definition read_fixed (n : N) : rprog := PRead n (fun _ => PRet []).

(* Ipv4Header::read_without_version *)
Definition ipv4_read_without_version (first_byte : N) : rprog :=
  PRead 19 (fun _ =>
    let ihl := first_byte mod 16 in
    if ihl <? 5 then PFail CIhl
    else
      let options_len := (ihl - 5) * 4 in
      if options_len =? 0 then PRet [20]
      else PRead options_len (fun _ => PRet [20 + options_len])).

(* Ipv4Header::read *)
Definition ipv4_header_read : rprog :=
  PRead 1 (fun b => at_ b 0 (fun v =>
    if v / 16 =? 4 then ipv4_read_without_version v else PFail CVersion)).

(* Ipv6Header::read_without_version / read *)
Definition ipv6_read_without_version (k : bytes -> rprog) : rprog := PRead 39 k.
Definition ipv6_header_read : rprog :=
  PRead 1 (fun b => at_ b 0 (fun v =>
    if v / 16 =? 6 then ipv6_read_without_version (fun _ => PRet [40]) else PFail CVersion)).

(* TcpHeader::read *)
Definition tcp_header_read : rprog :=
  PRead 20 (fun raw => at_ raw 12 (fun v =>
    let data_offset := v / 16 in
    if data_offset <? 5 then PFail CDataOffset
    else
      let olen := (data_offset - 5) * 4 in
      if 0 <? olen then PRead olen (fun _ => PRet [20 + olen]) else PRet [20])).

(* Icmpv4Header::read *)
Definition icmpv4_header_read : rprog :=
  PRead 8 (fun bytes => at_ bytes 0 (fun ty => at_ bytes 1 (fun code =>
    if (ty =? 14) || (ty =? 13) then
      if code =? 0 then PRead 12 (fun _ => PRet [20]) else PRet [8]
    else PRet [8]))).

(* MacsecHeader::read *)
Definition macsec_header_read : rprog :=
  PRead 6 (fun bytes => at_ bytes 0 (fun tci_an => at_ bytes 1 (fun b1 =>
    if N.testbit tci_an 7 then PFail CMacsecVersion
    else
      let unmodified := N.land tci_an 12 =? 0 in
      if unmodified && (b1 mod 64 =? 1) then PFail CMacsecShortLen
      else
        let required_len := 6 + (if unmodified then 2 else 0) + (if N.testbit tci_an 5 then 8 else 0) in
        if 6 <? required_len then PRead (required_len - 6) (fun _ => PRet [required_len])
        else PRet [required_len]))).

(* ArpPacket::read *)
Definition arp_packet_read : rprog :=
  PRead 8 (fun start => at_ start 4 (fun hw => at_ start 5 (fun proto =>
    PRead hw (fun _ => PRead proto (fun _ => PRead hw (fun _ => PRead proto (fun _ =>
      PRet [8 + 2 * hw + 2 * proto]))))))).

(* IpAuthHeader::read (lim = false) / read_limited (lim = true); returns next_header *)
Definition with_start (lim : bool) (layer : N) (k : rprog) : rprog :=
  if lim then PStart layer k else k.

Definition ip_auth_read (lim : bool) (k : N -> rprog) : rprog :=
  with_start lim L_AUTH
    (PRead 12 (fun start => at_ start 0 (fun next_header => at_ start 1 (fun payload_len =>
      if payload_len <? 1 then PFail CAuthZeroLen
      else PRead ((payload_len - 1) * 4) (fun _ => k next_header))))).

(* Ipv6RawExtHeader::read / read_limited *)
Definition ipv6_raw_ext_read (lim : bool) (k : N -> rprog) : rprog :=
  with_start lim L_IPV6EXT
    (PRead 2 (fun d => at_ d 0 (fun next_header => at_ d 1 (fun header_length =>
      PRead (header_length * 8 + 6) (fun _ => k next_header))))).

(* Ipv6FragmentHeader::read / read_limited *)
Definition ipv6_frag_read (lim : bool) (k : N -> rprog) : rprog :=
  with_start lim L_IPV6FRAG (PRead 8 (fun b => at_ b 0 (fun next_header => k next_header))).

(* Ipv4Extensions::read / read_limited *)
Definition x4_read (lim : bool) (start_ip_number : N) : rprog :=
  if AUTH =? start_ip_number then ip_auth_read lim (fun next => PRet [next; 1])
  else PRet [start_ip_number; 0].

(* Ipv6Extensions::read / read_limited: which slots are already filled *)
Record slots := mk_slots { s_hop : bool; s_dest : bool; s_route : bool; s_final : bool;
                           s_frag : bool; s_auth : bool }.
Definition b2n (b : bool) : N := if b then 1 else 0.
Definition slots_mask (s : slots) : N :=
  b2n (s_hop s) + 2 * b2n (s_dest s) + 4 * b2n (s_route s) + 8 * b2n (s_final s)
  + 16 * b2n (s_frag s) + 32 * b2n (s_auth s).

Fixpoint x6_read_loop (fuel : nat) (lim : bool) (s : slots) (next_protocol : N) : rprog :=
  match fuel with
  | O => PFuelOut
  | S f =>
    let done := PRet [next_protocol; slots_mask s] in
    if next_protocol =? IPV6_HOP_BY_HOP then PFail CHopNotAtStart
    else if next_protocol =? IPV6_DEST_OPTIONS then
      if s_route s then
        if s_final s then done
        else ipv6_raw_ext_read lim (fun nh =>
               x6_read_loop f lim (mk_slots (s_hop s) (s_dest s) (s_route s) true (s_frag s) (s_auth s)) nh)
      else if s_dest s then done
      else ipv6_raw_ext_read lim (fun nh =>
             x6_read_loop f lim (mk_slots (s_hop s) true (s_route s) (s_final s) (s_frag s) (s_auth s)) nh)
    else if next_protocol =? IPV6_ROUTE then
      if s_route s then done
      else ipv6_raw_ext_read lim (fun nh =>
             x6_read_loop f lim (mk_slots (s_hop s) (s_dest s) true (s_final s) (s_frag s) (s_auth s)) nh)
    else if next_protocol =? IPV6_FRAG then
      if s_frag s then done
      else ipv6_frag_read lim (fun nh =>
             x6_read_loop f lim (mk_slots (s_hop s) (s_dest s) (s_route s) (s_final s) true (s_auth s)) nh)
    else if next_protocol =? AUTH then
      if s_auth s then done
      else ip_auth_read lim (fun nh =>
             x6_read_loop f lim (mk_slots (s_hop s) (s_dest s) (s_route s) (s_final s) (s_frag s) true) nh)
    else done
  end.

Definition X6_READ_FUEL : nat := 7.
Definition no_slots := mk_slots false false false false false false.

Definition x6_read (lim : bool) (start_ip_number : N) : rprog :=
  if IPV6_HOP_BY_HOP =? start_ip_number then
    ipv6_raw_ext_read lim (fun nh =>
      x6_read_loop X6_READ_FUEL lim (mk_slots true false false false false false) nh)
  else x6_read_loop X6_READ_FUEL lim no_slots start_ip_number.

(* IpHeaders::read *)
Definition ip_headers_read : rprog :=
  PRead 1 (fun buf => at_ buf 0 (fun value =>
    if value / 16 =? 4 then
      let ihl := value mod 16 in
      if ihl <? 5 then PFail CIhl
      else
        let header_len := ihl * 4 in
        PRead (header_len - 1) (fun rest =>
          (* buffer = value :: rest; total_len = bytes 2,3; protocol = byte 9 *)
          at_ rest 1 (fun t0 => at_ rest 2 (fun t1 => at_ rest 8 (fun protocol =>
            let total_len := t0 * 256 + t1 in
            if total_len <? header_len then
              PLenErr (mk_lenerr header_len total_len LS_IPV4_TOTAL L_IPV4PKT 0)
            else
              PLimit (total_len - header_len) LS_IPV4_TOTAL header_len L_IPV4H
                     (x4_read true protocol)))))
    else if value / 16 =? 6 then
      ipv6_read_without_version (fun buffer =>
        at_ buffer 3 (fun p0 => at_ buffer 4 (fun p1 => at_ buffer 5 (fun next_header =>
          PLimit (p0 * 256 + p1) LS_IPV6_PAYLOAD 40 L_IPV6H (x6_read true next_header)))))
    else PFail CVersion)).
