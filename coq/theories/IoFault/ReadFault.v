(* IoFault/ReadFault.v -- property C16, reader half (audit round 1):
   "every point at which the underlying reader fails ... returns that I/O error -
   neither panics nor reports success".

   For EVERY read program (any data-dependent sequence of read_exact / start_layer /
   LimitedReader::new), every data, every chunk size >= 1, both end-of-data
   behaviours (Err(Other) / Ok(0) = UnexpectedEof) and every starting state
   (plain or inside a LimitedReader):

     let the run on the data d consume k bytes with outcome q.  Then
       * the outcome depends on the first k bytes only: on every source that ends
         at j >= k the run gives the same outcome q, the same LimitedReader state
         and has consumed the same k bytes;
       * on every source that ends at j < k the run answers QIo with the error
         kind of the source (never QOk, never Len/Content, never QBad / QFuel /
         QUnderflow) and has consumed exactly the j bytes there were.

   The statement is about `run_r` + std's `read_exact` loop: that a crate reader
   propagates every error of `read_exact` is part of the transliteration
   (PRead = `reader.read_exact(..)?`), see IoFault/Propagate.v for the language
   in which swallowing is expressible. *)
From EP Require Import Base.Bytes IoFault.Spec IoFault.Model IoFault.Proofs.
Local Open Scope N_scope.

(* the source that ends after j (more) bytes *)
Definition cut_src (j : N) (s : fsource) : fsource :=
  mk_fsource (take j (src_data s)) (src_chunk s) (src_err s) (src_pulled s).
Definition cut_st (j : N) (st : rstate) : rstate :=
  mk_rstate (cut_src j (rs_src st)) (rs_lim st).

(* the source after k bytes were delivered *)
Definition adv_src (k : N) (s : fsource) : fsource :=
  mk_fsource (drop k (src_data s)) (src_chunk s) (src_err s) (src_pulled s + k).
(* the source after it failed having delivered its j bytes *)
Definition dead_src (j : N) (s : fsource) : fsource :=
  mk_fsource [] (src_chunk s) (src_err s) (src_pulled s + j).

(* ---------- list helpers *)
Lemma firstn_firstn_le {A} (a b : nat) (l : list A) : (a <= b)%nat -> firstn a (firstn b l) = firstn a l.
Proof. intros H. rewrite firstn_firstn. f_equal. lia. Qed.

Lemma take_take_le {A} (a b : N) (l : list A) : a <= b -> take a (take b l) = take a l.
Proof. intros H. unfold take. apply firstn_firstn_le. lia. Qed.

Lemma skipn_firstn_sub {A} (a b : nat) (l : list A) : skipn a (firstn b l) = firstn (b - a) (skipn a l).
Proof.
  revert b l. induction a as [|a IH]; intros b l; cbn [skipn].
  - now rewrite Nat.sub_0_r.
  - destruct b as [|b]; cbn [firstn Nat.sub].
    + destruct l; reflexivity.
    + destruct l as [|x l]; cbn [firstn skipn]; [now rewrite firstn_nil | apply IH].
Qed.

Lemma drop_take_sub {A} (a b : N) (l : list A) : drop a (take b l) = take (b - a) (drop a l).
Proof. unfold drop, take. rewrite skipn_firstn_sub. f_equal. lia. Qed.

Lemma take_nil {A} (n : N) : take n (@nil A) = [].
Proof. unfold take. apply firstn_nil. Qed.

Lemma cut_src_all j s : len (src_data s) <= j -> cut_src j s = s.
Proof. intros H. unfold cut_src. rewrite take_all by exact H. destruct s; reflexivity. Qed.

Lemma adv_src_0 s : adv_src 0 s = s.
Proof. unfold adv_src. rewrite drop_0, N.add_0_r. destruct s; reflexivity. Qed.

Lemma adv_adv a b s : adv_src b (adv_src a s) = adv_src (a + b) s.
Proof.
  unfold adv_src. cbn [src_data src_chunk src_err src_pulled]. rewrite drop_drop. f_equal. lia.
Qed.

Lemma cut_adv j k s : k <= j -> cut_src (j - k) (adv_src k s) = adv_src k (cut_src j s).
Proof.
  intros H. unfold cut_src, adv_src. cbn [src_data src_chunk src_err src_pulled].
  now rewrite drop_take_sub.
Qed.

(* ---------- read_exact on a cut source *)
Lemma io_read_exact_cut_ok s n j : 1 <= src_chunk s -> n <= len (src_data s) -> n <= j ->
  io_read_exact (cut_src j s) n = (XOk (take n (src_data s)), cut_src (j - n) (adv_src n s)).
Proof.
  intros Hc Hn Hj. rewrite io_read_exact_ok.
  - unfold cut_src at 1 2 3 4 5. cbn [src_data src_chunk src_err src_pulled].
    rewrite take_take_le by exact Hj. rewrite cut_adv by exact Hj. reflexivity.
  - exact Hc.
  - unfold cut_src. cbn [src_data]. rewrite len_take. lia.
Qed.

Lemma io_read_exact_cut_fail s n j : 1 <= src_chunk s -> j <= len (src_data s) -> j < n ->
  io_read_exact (cut_src j s) n = (XIo (src_kind s), dead_src j s).
Proof.
  intros Hc Hj Hn. rewrite io_read_exact_fail.
  - unfold cut_src, dead_src, src_kind. cbn [src_data src_chunk src_err src_pulled].
    rewrite len_take. rewrite N.min_l by exact Hj. reflexivity.
  - exact Hc.
  - unfold cut_src. cbn [src_data]. rewrite len_take. lia.
Qed.

(* ---------- the cut theorem *)
(* what the claim says about one program from one state, for one end position j *)
Definition cut_claim (p : rprog) (st : rstate) (j : N) : Prop :=
  exists k,
    k <= len (src_data (rs_src st)) /\
    rs_src (snd (run_r p st)) = adv_src k (rs_src st) /\
    (j < k ->
       fst (run_r p (cut_st j st)) = QIo (src_kind (rs_src st)) /\
       rs_src (snd (run_r p (cut_st j st))) = dead_src j (rs_src st)) /\
    (k <= j ->
       run_r p (cut_st j st) = (fst (run_r p st), cut_st (j - k) (snd (run_r p st)))).

(* a step that does not touch the source *)
Lemma cut_claim_notouch p st j q l :
  (forall s, run_r p (mk_rstate s (rs_lim st)) = (q, mk_rstate s l)) -> cut_claim p st j.
Proof.
  intros H. exists 0. destruct st as [s lim]. cbn [rs_src rs_lim] in *.
  split; [lia|]. split; [rewrite H; cbn [snd rs_src]; now rewrite adv_src_0|].
  split; [lia|]. intros _. unfold cut_st. cbn [rs_src rs_lim]. rewrite !H. cbn [fst snd rs_src rs_lim].
  now rewrite N.sub_0_r.
Qed.

(* the read step, common to the plain and the limited reader: `after bs s'` is the
   rest of the run once the n bytes are there *)
Lemma cut_claim_read (s : fsource) (n j : N)
      (after : bytes -> fsource -> qres (list N) * rstate) (lim : option limrd) :
  1 <= src_chunk s ->
  (n <= len (src_data s) -> forall j1,
     exists k1, k1 <= len (src_data (adv_src n s)) /\
       rs_src (snd (after (take n (src_data s)) (adv_src n s))) = adv_src k1 (adv_src n s) /\
       (j1 < k1 ->
          fst (after (take n (src_data s)) (cut_src j1 (adv_src n s))) = QIo (src_kind s) /\
          rs_src (snd (after (take n (src_data s)) (cut_src j1 (adv_src n s)))) = dead_src j1 (adv_src n s)) /\
       (k1 <= j1 ->
          after (take n (src_data s)) (cut_src j1 (adv_src n s))
          = (fst (after (take n (src_data s)) (adv_src n s)),
             cut_st (j1 - k1) (snd (after (take n (src_data s)) (adv_src n s)))))) ->
  let step (src : fsource) :=
    match io_read_exact src n with
    | (XOk bs, s') => after bs s'
    | (XIo e, s') => (QIo e, mk_rstate s' lim)
    | (XPanic, s') => (QBad, mk_rstate s' lim)
    | (XFuel, s') => (QFuel, mk_rstate s' lim)
    end in
  exists k, k <= len (src_data s) /\
    rs_src (snd (step s)) = adv_src k s /\
    (j < k -> fst (step (cut_src j s)) = QIo (src_kind s) /\
              rs_src (snd (step (cut_src j s))) = dead_src j s) /\
    (k <= j -> step (cut_src j s) = (fst (step s), cut_st (j - k) (snd (step s)))).
Proof.
  intros Hc IH step.
  destruct (N.le_gt_cases n (len (src_data s))) as [E|E].
  - (* the full source has the n bytes *)
    destruct (IH E (j - n)) as (k1 & K1 & K2 & K3 & K4).
    assert (Hlen : len (src_data (adv_src n s)) = len (src_data s) - n).
    { unfold adv_src. cbn [src_data]. now rewrite len_drop. }
    exists (n + k1). split; [lia|].
    assert (Hs : step s = after (take n (src_data s)) (adv_src n s)).
    { unfold step. rewrite io_read_exact_ok by assumption. reflexivity. }
    split; [rewrite Hs, K2; apply adv_adv|].
    split.
    + intros Hj. destruct (N.lt_ge_cases j n) as [Hjn|Hjn].
      * unfold step. rewrite io_read_exact_cut_fail by (try assumption; lia). cbn [fst snd rs_src]. auto.
      * unfold step. rewrite io_read_exact_cut_ok by assumption.
        destruct K3 as [K3a K3b]; [lia|]. split; [exact K3a|]. rewrite K3b.
        unfold dead_src, adv_src. cbn [src_chunk src_err src_pulled]. f_equal. lia.
    + intros Hj. unfold step at 1. rewrite io_read_exact_cut_ok by (try assumption; lia).
      rewrite K4 by lia. rewrite Hs. f_equal. f_equal. lia.
  - (* the full source fails in this read_exact *)
    exists (len (src_data s)). split; [lia|].
    assert (Hs : step s = (QIo (src_kind s), mk_rstate (dead_src (len (src_data s)) s) lim)).
    { unfold step. rewrite io_read_exact_fail by assumption. reflexivity. }
    split.
    { rewrite Hs. cbn [snd rs_src]. unfold dead_src, adv_src. now rewrite drop_all by lia. }
    split.
    + intros Hj. unfold step. rewrite io_read_exact_cut_fail by (try assumption; lia).
      cbn [fst snd rs_src]. auto.
    + intros Hj. rewrite cut_src_all by exact Hj. rewrite Hs. cbn [fst snd].
      unfold cut_st, cut_src, dead_src. cbn [rs_src rs_lim src_data src_chunk src_err src_pulled].
      now rewrite take_nil.
Qed.

Lemma run_r_cut p : forall st j, 1 <= src_chunk (rs_src st) -> cut_claim p st j.
Proof.
  induction p as [a|c|e| | |n k IH|layer k IH|m ls off layer k IH]; intros st j Hc.
  1-5: eapply cut_claim_notouch; intros s; cbn [run_r]; reflexivity.
  - (* PRead *)
    destruct st as [s lim]. cbn [rs_src] in Hc. unfold cut_claim, cut_st. cbn [rs_src rs_lim].
    destruct lim as [r|].
    + (* LimitedReader::read_exact *)
      cbn [run_r rs_lim rs_src]. unfold lr_read_exact.
      destruct (checked_sub (lr_max r) (lr_read r)) as [remaining|].
      2:{ exists 0. split; [lia|]. cbn [fst snd rs_src]. rewrite adv_src_0. split; [reflexivity|].
          split; [lia|]. intros _. now rewrite N.sub_0_r. }
      destruct (remaining <? n).
      { exists 0. split; [lia|]. cbn [fst snd rs_src]. rewrite adv_src_0. split; [reflexivity|].
        split; [lia|]. intros _. now rewrite N.sub_0_r. }
      set (r' := mk_limrd (lr_max r) (lr_source r) (lr_layer r) (lr_off r) (lr_read r + n)).
      pose proof (cut_claim_read s n j (fun bs s' => run_r (k bs) (mk_rstate s' (Some r'))) (Some r) Hc) as Hrd.
      cbn zeta in Hrd.
      assert (Hgen : forall src,
        match (let (p0, s') := io_read_exact src n in
               match p0 with
               | XOk bs => (QOk bs, r', s') | XIo k0 => (QIo k0, r, s')
               | XPanic => (QBad, r, s') | XFuel => (QFuel, r, s') end) with
        | (QOk bs, r'0, s') => run_r (k bs) (mk_rstate s' (Some r'0))
        | (QIo e, r'0, s') => (QIo e, mk_rstate s' (Some r'0))
        | (QLen e, r'0, s') => (QLen e, mk_rstate s' (Some r'0))
        | (QContent c, r'0, s') => (QContent c, mk_rstate s' (Some r'0))
        | (QUnderflow, r'0, s') => (QUnderflow, mk_rstate s' (Some r'0))
        | (QBad, r'0, s') => (QBad, mk_rstate s' (Some r'0))
        | (QFuel, r'0, s') => (QFuel, mk_rstate s' (Some r'0))
        end =
        match io_read_exact src n with
        | (XOk bs, s') => run_r (k bs) (mk_rstate s' (Some r'))
        | (XIo e, s') => (QIo e, mk_rstate s' (Some r))
        | (XPanic, s') => (QBad, mk_rstate s' (Some r))
        | (XFuel, s') => (QFuel, mk_rstate s' (Some r))
        end).
      { intros src. destruct (io_read_exact src n) as [[bs|e| |] s']; reflexivity. }
      rewrite !Hgen. apply Hrd.
      intros Hn j1. destruct (IH (take n (src_data s)) (mk_rstate (adv_src n s) (Some r')) j1) as (k1 & K1 & K2 & K3 & K4).
      { cbn [rs_src]. unfold adv_src. cbn [src_chunk]. exact Hc. }
      exists k1. cbn [rs_src rs_lim] in *. unfold cut_st in K3, K4. cbn [rs_src rs_lim] in K3, K4.
      split; [exact K1|]. split; [exact K2|]. split; [|exact K4].
      intros Hj. destruct (K3 Hj) as [K3a K3b]. split; [exact K3a | exact K3b].
    + (* plain reader *)
      cbn [run_r rs_lim rs_src].
      pose proof (cut_claim_read s n j (fun bs s' => run_r (k bs) (mk_rstate s' None)) None Hc) as Hrd.
      cbn zeta in Hrd. apply Hrd.
      intros Hn j1. destruct (IH (take n (src_data s)) (mk_rstate (adv_src n s) None) j1) as (k1 & K1 & K2 & K3 & K4).
      { cbn [rs_src]. unfold adv_src. cbn [src_chunk]. exact Hc. }
      exists k1. cbn [rs_src rs_lim] in *. unfold cut_st in K3, K4. cbn [rs_src rs_lim] in K3, K4.
      split; [exact K1|]. split; [exact K2|]. split; [|exact K4].
      intros Hj. destruct (K3 Hj) as [K3a K3b]. split; [exact K3a | exact K3b].
  - (* PStart *)
    destruct st as [s lim]. cbn [rs_src] in Hc. destruct lim as [r|].
    + destruct (lr_start_layer r layer) as [r'|] eqn:Es.
      * destruct (IH (mk_rstate s (Some r')) j Hc) as (k1 & K1 & K2 & K3 & K4).
        exists k1. unfold cut_st in *. cbn [run_r rs_src rs_lim] in *. rewrite Es.
        split; [exact K1|]. split; [exact K2|]. split; [exact K3 | exact K4].
      * eapply cut_claim_notouch. intros s0. cbn [run_r rs_lim rs_src]. rewrite Es. reflexivity.
    + eapply cut_claim_notouch. intros s0. cbn [run_r rs_lim]. reflexivity.
  - (* PLimit *)
    destruct st as [s lim]. cbn [rs_src] in Hc. destruct lim as [r|].
    + eapply cut_claim_notouch. intros s0. cbn [run_r rs_lim]. reflexivity.
    + destruct (IH (mk_rstate s (Some (lr_new m ls off layer))) j Hc) as (k1 & K1 & K2 & K3 & K4).
      exists k1. unfold cut_st in *. cbn [run_r rs_src rs_lim] in *.
      split; [exact K1|]. split; [exact K2|]. split; [exact K3 | exact K4].
Qed.

(* ---------- the statements of Props/C16.v *)
Definition start_st (d : bytes) (c : N) (e : bool) (lim : option limrd) : rstate :=
  mk_rstate (mk_fsource d c e 0) lim.
Definition io_kind (e : bool) : iokind := if e then KOther else KEof.

(* any outcome *)
Lemma read_fault_any p d c e lim : 1 <= c ->
  let r := run_r p (start_st d c e lim) in
  let k := src_pulled (rs_src (snd r)) in
  k <= len d /\ src_data (rs_src (snd r)) = drop k d /\
  (forall j, j < k ->
     let rj := run_r p (start_st (take j d) c e lim) in
     fst rj = QIo (io_kind e) /\ src_pulled (rs_src (snd rj)) = j /\ src_data (rs_src (snd rj)) = []) /\
  (forall j, k <= j ->
     let rj := run_r p (start_st (take j d) c e lim) in
     fst rj = fst r /\ src_pulled (rs_src (snd rj)) = k /\ rs_lim (snd rj) = rs_lim (snd r)
     /\ src_data (rs_src (snd rj)) = drop k (take j d)).
Proof.
  intros Hc r k.
  assert (Hk : forall j, exists k0, k0 = k /\ cut_claim p (start_st d c e lim) j
                 /\ rs_src (snd r) = adv_src k (mk_fsource d c e 0)).
  { intros j. destruct (run_r_cut p (start_st d c e lim) j Hc) as (k0 & K1 & K2 & K3 & K4).
    assert (E : k0 = k).
    { unfold k, r. rewrite K2. unfold adv_src, start_st. cbn [rs_src src_pulled]. lia. }
    exists k0. split; [exact E|]. split.
    - exists k0. auto.
    - subst k0. exact K2. }
  destruct (Hk 0) as (k0 & -> & _ & Hsrc).
  destruct (run_r_cut p (start_st d c e lim) 0 Hc) as (k1 & K1 & K2 & _).
  assert (E1 : k1 = k).
  { unfold k, r. rewrite K2. unfold adv_src, start_st. cbn [rs_src src_pulled]. lia. }
  subst k1. cbn [start_st rs_src src_data] in K1.
  split; [exact K1|]. split; [rewrite Hsrc; reflexivity|].
  split.
  - intros j Hj rj. destruct (run_r_cut p (start_st d c e lim) j Hc) as (k1 & _ & K2' & K3 & _).
    assert (E1 : k1 = k).
    { unfold k, r. rewrite K2'. unfold adv_src, start_st. cbn [rs_src src_pulled]. lia. }
    subst k1. destruct (K3 Hj) as [K3a K3b].
    change (cut_st j (start_st d c e lim)) with (start_st (take j d) c e lim) in K3a, K3b.
    fold rj in K3a, K3b. split; [exact K3a|]. rewrite K3b.
    unfold dead_src, start_st. cbn [rs_src src_pulled src_data]. split; [lia | reflexivity].
  - intros j Hj rj. destruct (run_r_cut p (start_st d c e lim) j Hc) as (k1 & _ & K2' & _ & K4).
    assert (E1 : k1 = k).
    { unfold k, r. rewrite K2'. unfold adv_src, start_st. cbn [rs_src src_pulled]. lia. }
    subst k1. specialize (K4 Hj).
    change (cut_st j (start_st d c e lim)) with (start_st (take j d) c e lim) in K4.
    fold rj r in K4. rewrite K4. cbn [fst snd]. unfold cut_st. cbn [rs_src rs_lim].
    fold r in Hsrc. rewrite Hsrc. unfold cut_src, adv_src. cbn [src_pulled src_data].
    split; [reflexivity|]. split; [lia|]. split; [reflexivity|]. now rewrite drop_take_sub.
Qed.

(* the auditor's form: a successful run *)
Lemma read_fault_ok p d c e lim a st' : 1 <= c ->
  run_r p (start_st d c e lim) = (QOk a, st') ->
  let k := src_pulled (rs_src st') in
  k <= len d /\ src_data (rs_src st') = drop k d /\
  (forall j, j < k ->
     let rj := run_r p (start_st (take j d) c e lim) in
     fst rj = QIo (io_kind e) /\ src_pulled (rs_src (snd rj)) = j) /\
  (exists st'', run_r p (start_st (take k d) c e lim) = (QOk a, st'')
                /\ src_pulled (rs_src st'') = k /\ src_data (rs_src st'') = [] /\ rs_lim st'' = rs_lim st').
Proof.
  intros Hc Hrun k. pose proof (read_fault_any p d c e lim Hc) as H. cbn zeta in H.
  rewrite Hrun in H. cbn [fst snd] in H. fold k in H. destruct H as (H1 & H2 & H3 & H4).
  split; [exact H1|]. split; [exact H2|]. split.
  - intros j Hj rj. destruct (H3 j Hj) as (A & B & _). split; assumption.
  - destruct (H4 k (N.le_refl k)) as (A & B & C & D).
    destruct (run_r p (start_st (take k d) c e lim)) as [q st''] eqn:E. cbn [fst snd] in *.
    exists st''. subst q. split; [reflexivity|]. split; [exact B|]. split; [|exact C].
    rewrite D. apply drop_all. rewrite len_take. lia.
Qed.

(* every reader of the crate that is modelled, from every starting point the
   crate uses: the plain readers on a plain reader, the extension readers on a
   plain reader or inside a LimitedReader with read_len <= max_len *)
Lemma crate_readers_fault :
  (forall p d c e j, In p plain_readers -> 1 <= c ->
     let r := run_r p (start_st d c e None) in
     let rj := run_r p (start_st (take j d) c e None) in
     good (fst r) /\
     (j < src_pulled (rs_src (snd r)) -> fst rj = QIo (io_kind e) /\ src_pulled (rs_src (snd rj)) = j) /\
     (src_pulled (rs_src (snd r)) <= j -> fst rj = fst r /\ src_pulled (rs_src (snd rj)) = src_pulled (rs_src (snd r)))) /\
  (forall (lim : bool) start lr d c e j, 1 <= c -> lr_read lr <= lr_max lr ->
     let l := if lim then Some lr else None in
     (let r := run_r (x6_read lim start) (start_st d c e l) in
      let rj := run_r (x6_read lim start) (start_st (take j d) c e l) in
      good (fst r) /\
      (j < src_pulled (rs_src (snd r)) -> fst rj = QIo (io_kind e) /\ src_pulled (rs_src (snd rj)) = j) /\
      (src_pulled (rs_src (snd r)) <= j -> fst rj = fst r /\ src_pulled (rs_src (snd rj)) = src_pulled (rs_src (snd r)))) /\
     (let r := run_r (x4_read lim start) (start_st d c e l) in
      let rj := run_r (x4_read lim start) (start_st (take j d) c e l) in
      good (fst r) /\
      (j < src_pulled (rs_src (snd r)) -> fst rj = QIo (io_kind e) /\ src_pulled (rs_src (snd rj)) = j) /\
      (src_pulled (rs_src (snd r)) <= j -> fst rj = fst r /\ src_pulled (rs_src (snd rj)) = src_pulled (rs_src (snd r))))).
Proof.
  split.
  - intros p d c e j Hin Hc r rj.
    pose proof (read_fault_any p d c e None Hc) as H. cbn zeta in H. fold r in H.
    destruct H as (_ & _ & H3 & H4).
    split; [apply plain_readers_good; [exact Hin | exact Hc]|].
    split.
    + intros Hj. destruct (H3 j Hj) as (A & B & _). split; assumption.
    + intros Hj. destruct (H4 j Hj) as (A & B & _). split; assumption.
  - intros lim start lr d c e j Hc Hi l.
    destruct (ext_readers_good lim start (mk_fsource d c e 0) lr Hc Hi) as [G6 G4]. cbn zeta in G6, G4.
    split.
    + intros r rj.
      pose proof (read_fault_any (x6_read lim start) d c e l Hc) as H. cbn zeta in H. fold r in H.
      destruct H as (_ & _ & H3 & H4).
      split; [exact G6|]. split.
      * intros Hj. destruct (H3 j Hj) as (A & B & _). split; assumption.
      * intros Hj. destruct (H4 j Hj) as (A & B & _). split; assumption.
    + intros r rj.
      pose proof (read_fault_any (x4_read lim start) d c e l Hc) as H. cbn zeta in H. fold r in H.
      destruct H as (_ & _ & H3 & H4).
      split; [exact G4|]. split.
      * intros Hj. destruct (H3 j Hj) as (A & B & _). split; assumption.
      * intros Hj. destruct (H4 j Hj) as (A & B & _). split; assumption.
Qed.

(* LimitedReader::new inside a plain read, with the monotonicity conjunct *)
Lemma limit_pull_bound_mono m ls off layer k s : 1 <= src_chunk s ->
  let st' := snd (run_r (PLimit m ls off layer k) (mk_rstate s None)) in
  fst (run_r (PLimit m ls off layer k) (mk_rstate s None)) <> QUnderflow /\
  src_pulled s <= src_pulled (rs_src st') /\
  src_pulled (rs_src st') - src_pulled s <= m.
Proof.
  intros Hc. cbn [run_r rs_lim rs_src].
  destruct (limited_pull_bound k s (lr_new m ls off layer) Hc) as (I1 & _ & I3 & I4).
  { cbn. lia. }
  cbn [lr_new lr_max lr_read] in I4. rewrite N.sub_0_r in I4. split; [|split]; assumption.
Qed.
