(* IoFault/Propagate.v -- property C16 (audit round 1): error propagation made
   expressible.

   In IoFault/Model.v a write program is a list of `write_all` calls and the
   interpreter `run_w` returns the first failure: `writer.write_all(..)?` is the
   ONLY thing a `wprog` can say, a writer that drops an error
   (`let _ = writer.write_all(..);`) has no counterpart.  "Never Ok on a fault"
   was therefore a theorem about the interpreter, whatever was transliterated.

   Here the language has an explicit result-handling node:

       XWriteThen buf k        match writer.write_all(buf) { r => k r }

   where the continuation sees the Result (None = Ok(()), Some e = Err(e)), and a
   leaf `XErr e` (= `return Err(WriteError::Io(e))`).  Both `?` (xtry) and
   swallowing are programs.  Contents:

     A  run_x; the embedding of the old language (WWrite = xtry) commutes with the
        interpreters, for every device
     B  the propagating fragment (every write_all result is matched with
        `Err(e) => return Err(e)`): run_x = run_w of the stripped program, hence
        every theorem about write programs (fault positions, slice writer,
        builder) holds for it
     C  exactly which programs satisfy the fault property on the fail-stop sink:
        fault_ok p <-> handles p  (after every write that can fail, the error
        branch ends in Err(Io(that kind))), and a program that swallows an error
        as refuting witness (mutant 1 of notes/C16.md: TcpHeader::write with
        `let _ = writer.write_all(options);`)
     D  the crate's writers as they are written in the Rust source (each
        `writer.write_all(..)?` / `.map_err(WriteError::Io)?` / a returned
        Result), polymorphic in the writer's error type; each is in the
        propagating fragment and strips to its Model.v transliteration
     E  the same for readers: YReadThen n k (the continuation sees Ok(bytes) /
        Err(Io) / Err(Len)), embedding, propagating fragment, refuting witness
        (seeded defect C16_3: IpHeaders::read swallows the I/O error)

   That a crate function really is the program given in D is, as for every model
   in this development, tied to the code by the fault-injection run only. *)
From EP Require Import Base.Bytes IoFault.Spec IoFault.Model IoFault.Proofs IoFault.ReadFault.
Local Open Scope N_scope.

(* ================================================================ A *)
Inductive xprog (E : Type) :=
  | XRet (v : verdict)                               (* Ok(()) / Err(Content(..)) / panic / fuel *)
  | XErr (e : E)                                     (* return Err(Io(e)) *)
  | XWriteThen (b : bytes) (k : option E -> xprog E).  (* match writer.write_all(b) { r => k r } *)
Arguments XRet {E} v. Arguments XErr {E} e. Arguments XWriteThen {E} b k.

Section RunX.
  Context {W E : Type}.
  Variable wall : W -> bytes -> wres E * W.
  Fixpoint run_x (p : xprog E) (w : W) : wres E * W :=
    match p with
    | XRet v => (ret_of v, w)
    | XErr e => (RIo e, w)
    | XWriteThen b k =>
      match wall w b with
      | (ROk, w') => run_x (k None) w'
      | (RIo e, w') => run_x (k (Some e)) w'
      | (r, w') => (r, w')               (* a panic inside write_all is not a value *)
      end
    end.
End RunX.

(* `Err(e) => return Err(e)`, `Ok(()) => k` *)
Definition xq {E} (k : xprog E) : option E -> xprog E :=
  fun r => match r with None => k | Some e => XErr e end.
(* writer.write_all(b)?; k      (also: .map_err(WriteError::Io)?, .map_err(E::from)?) *)
Definition xtry {E} (b : bytes) (k : xprog E) : xprog E := XWriteThen b (xq k).

Fixpoint embed {E} (p : wprog) : xprog E :=
  match p with WRet v => XRet v | WWrite b k => xtry b (embed k) end.

Lemma run_x_embed {W E} (wall : W -> bytes -> wres E * W) p : forall w,
  run_x wall (embed p) w = run_w wall p w.
Proof.
  induction p as [v|b k IH]; intros w; cbn [embed run_x run_w xtry]; [reflexivity|].
  destruct (wall w b) as [[ |e|c| | ] w']; cbn [xq run_x]; try reflexivity. apply IH.
Qed.

(* ================================================================ B *)
Inductive propagating {E} : xprog E -> Prop :=
  | prop_ret v : propagating (XRet v)
  | prop_write b k : (forall e, k (Some e) = XErr e) -> propagating (k None) ->
                     propagating (XWriteThen b k).

(* the success path *)
Fixpoint strip {E} (p : xprog E) : wprog :=
  match p with
  | XRet v => WRet v
  | XErr _ => WRet VPanic                 (* not in the fragment *)
  | XWriteThen b k => WWrite b (strip (k None))
  end.

Lemma run_x_strip {W E} (wall : W -> bytes -> wres E * W) (p : xprog E) :
  propagating p -> forall w, run_x wall p w = run_w wall (strip p) w.
Proof.
  induction 1 as [v|b k He Hk IH]; intros w; cbn [run_x strip run_w]; [reflexivity|].
  destruct (wall w b) as [[ |e|c| | ] w']; try reflexivity.
  - apply IH.
  - rewrite He. reflexivity.
Qed.

Lemma prop_xtry {E} b (k : xprog E) : propagating k -> propagating (xtry b k).
Proof. intros H. apply prop_write; [reflexivity | exact H]. Qed.

Lemma prop_embed {E} p : propagating (@embed E p) /\ strip (@embed E p) = p.
Proof.
  induction p as [v|b k [IH1 IH2]]; cbn [embed]; split; try constructor; try reflexivity; try exact IH1.
  cbn [strip xtry xq]. now rewrite IH2.
Qed.

(* the fault theorem for the fragment *)
Lemma propagating_fault (p : xprog iokind) k chunk zero : propagating p -> 1 <= chunk ->
  let enc := wprog_bytes (strip p) in
  let r := run_x io_write_all p (fresh_sink k chunk zero) in
  (k < len enc ->
     fst r = RIo (if zero then KWriteZero else KOther) /\ fs_got (snd r) = take k enc
     /\ is_prefix (fs_got (snd r)) enc) /\
  (len enc <= k -> fst r = ret_of (wprog_verdict (strip p)) /\ fs_got (snd r) = enc) /\
  (fst (spec_fault_write enc k) = true <-> len enc <= k) /\
  fs_got (snd r) = snd (spec_fault_write enc k).
Proof.
  intros Hp Hc. cbn zeta. rewrite (run_x_strip io_write_all p Hp).
  apply (write_fault_any (strip p) k chunk zero Hc).
Qed.

(* ================================================================ C *)
Fixpoint xprog_bytes {E} (p : xprog E) : bytes :=
  match p with XRet _ | XErr _ => [] | XWriteThen b k => b ++ xprog_bytes (k None) end.
Fixpoint xprog_result {E} (p : xprog E) : wres E :=
  match p with XRet v => ret_of v | XErr e => RIo e | XWriteThen _ k => xprog_result (k None) end.

Definition wkind (zero : bool) : iokind := if zero then KWriteZero else KOther.

(* the fault property of one program (first two conjuncts of C16_write_fault) *)
Definition fault_from (g : bytes) (p : xprog iokind) : Prop :=
  forall k chunk zero, 1 <= chunk ->
    let enc := xprog_bytes p in
    let r := run_x io_write_all p (mk_fsink k chunk zero g) in
    (k < len enc -> fst r = RIo (wkind zero) /\ fs_got (snd r) = g ++ take k enc) /\
    (len enc <= k -> fst r = xprog_result p /\ fs_got (snd r) = g ++ enc).
Definition fault_ok (p : xprog iokind) : Prop := fault_from [] p.

(* the program on a sink that accepts nothing more: every non-empty write fails *)
Fixpoint dead_run (kd : iokind) (p : xprog iokind) : wres iokind :=
  match p with
  | XRet v => ret_of v
  | XErr e => RIo e
  | XWriteThen b k => match b with [] => dead_run kd (k None) | _ => dead_run kd (k (Some kd)) end
  end.

(* after every write that can fail, the error branch ends in Err(Io(kind)) *)
Fixpoint handles (p : xprog iokind) : Prop :=
  match p with
  | XRet _ | XErr _ => True
  | XWriteThen b k =>
    handles (k None) /\
    (b <> [] -> forall zero, dead_run (wkind zero) (k (Some (wkind zero))) = RIo (wkind zero))
  end.

Lemma io_write_all_cases B c z g b : 1 <= c ->
  io_write_all (mk_fsink B c z g) b =
    if len b <=? B then (ROk, mk_fsink (B - len b) c z (g ++ b))
    else (RIo (wkind z), mk_fsink 0 c z (g ++ take B b)).
Proof.
  intros Hc. rewrite io_write_all_spec by exact Hc. unfold spec_write_all.
  cbn [fs_budget fs_chunk fs_zero fs_got]. destruct (len b <=? B); reflexivity.
Qed.

Lemma run_dead p : forall c z g, 1 <= c ->
  run_x io_write_all p (mk_fsink 0 c z g) = (dead_run (wkind z) p, mk_fsink 0 c z g).
Proof.
  induction p as [v|e|b k IH]; intros c z g Hc; cbn [run_x dead_run]; try reflexivity.
  rewrite io_write_all_cases by exact Hc. destruct b as [|b0 bt].
  - rewrite len_nil. cbn [N.leb]. change (0 <=? 0) with true. cbv iota.
    rewrite N.sub_0_r, app_nil_r. apply IH. exact Hc.
  - replace (len (b0 :: bt) <=? 0) with false
      by (symmetry; apply N.leb_gt; pose proof (len_nonempty b0 bt); lia).
    rewrite take_0, app_nil_r. apply IH. exact Hc.
Qed.

Lemma handles_fault p : forall g, handles p -> fault_from g p.
Proof.
  induction p as [v|e|b k IH]; intros g Hh B c z Hc; cbn zeta.
  - cbn [xprog_bytes run_x xprog_result fst snd fs_got]. rewrite len_nil, app_nil_r. split; [lia|auto].
  - cbn [xprog_bytes run_x xprog_result fst snd fs_got]. rewrite len_nil, app_nil_r. split; [lia|auto].
  - destruct Hh as [Hn He]. cbn [xprog_bytes run_x xprog_result]. rewrite len_app.
    rewrite io_write_all_cases by exact Hc. destruct (len b <=? B) eqn:Eb.
    + apply N.leb_le in Eb.
      destruct (IH None (g ++ b) Hn (B - len b) c z Hc) as [I1 I2]. split.
      * intros Hk. destruct I1 as [I1a I1b]; [lia|]. split; [exact I1a|].
        rewrite I1b, <- app_assoc. f_equal. now rewrite take_app_r by exact Eb.
      * intros Hk. destruct I2 as [I2a I2b]; [lia|]. split; [exact I2a|].
        rewrite I2b. now rewrite app_assoc.
    + apply N.leb_gt in Eb. rewrite run_dead by exact Hc. cbn [fst snd fs_got].
      assert (Hb : b <> []) by (intros ->; rewrite len_nil in Eb; lia).
      split; [|lia]. intros _. split; [apply He; exact Hb|].
      f_equal. now rewrite take_app_l by lia.
Qed.

Lemma fault_handles p : forall g, fault_from g p -> handles p.
Proof.
  induction p as [v|e|b k IH]; intros g Hf; cbn [handles]; auto.
  split.
  - apply (IH None (g ++ b)). intros B c z Hc. cbn zeta.
    specialize (Hf (len b + B) c z Hc). cbn zeta in Hf.
    cbn [xprog_bytes run_x xprog_result] in Hf. rewrite len_app in Hf.
    rewrite io_write_all_cases in Hf by exact Hc.
    replace (len b <=? len b + B) with true in Hf by (symmetry; apply N.leb_le; lia).
    replace (len b + B - len b) with B in Hf by lia.
    destruct Hf as [F1 F2]. split.
    + intros Hk. destruct F1 as [F1a F1b]; [lia|]. split; [exact F1a|].
      rewrite F1b, <- app_assoc. f_equal. rewrite take_app_r by lia. f_equal. f_equal. lia.
    + intros Hk. destruct F2 as [F2a F2b]; [lia|]. split; [exact F2a|].
      rewrite F2b. now rewrite app_assoc.
  - intros Hb zero. specialize (Hf 0 1 zero (N.le_refl 1)). cbn zeta in Hf.
    cbn [xprog_bytes run_x] in Hf. rewrite len_app in Hf.
    rewrite io_write_all_cases in Hf by lia.
    destruct b as [|b0 bt]; [congruence|].
    replace (len (b0 :: bt) <=? 0) with false in Hf
      by (symmetry; apply N.leb_gt; pose proof (len_nonempty b0 bt); lia).
    rewrite run_dead in Hf by lia. cbn [fst] in Hf.
    destruct Hf as [[F _] _]; [pose proof (len_nonempty b0 bt); lia | exact F].
Qed.

Lemma fault_iff_handles p : fault_ok p <-> handles p.
Proof. split; [apply fault_handles | apply handles_fault]. Qed.

Lemma propagating_handles p : propagating p -> handles p.
Proof.
  induction 1 as [v|b k He Hk IH]; cbn [handles]; [exact I|].
  split; [exact IH|]. intros _ zero. rewrite He. reflexivity.
Qed.

Lemma propagating_bytes {E} (p : xprog E) : propagating p ->
  xprog_bytes p = wprog_bytes (strip p) /\ xprog_result p = ret_of (wprog_verdict (strip p)).
Proof.
  induction 1 as [v|b k He Hk [IH1 IH2]]; cbn [xprog_bytes xprog_result strip wprog_bytes wprog_verdict].
  - auto.
  - rewrite IH1, IH2. auto.
Qed.

(* mutant 1 of notes/C16.md: TcpHeader::write with `let _ = writer.write_all(options);` *)
Definition swallowing_tcp_write (h : two_part) : xprog iokind :=
  xtry (tp_fixed h)
    (match tp_var h with
     | [] => XRet VOk
     | _ => XWriteThen (tp_var h) (fun _ => XRet VOk)
     end).

Definition ex_tcp : two_part := mk_two (repeat 1 20) [2; 4; 5; 180].

Lemma swallow_refuted :
  ~ fault_ok (swallowing_tcp_write ex_tcp) /\
  run_x io_write_all (swallowing_tcp_write ex_tcp) (fresh_sink 21 3 false)
    = (ROk, mk_fsink 0 3 false (repeat 1 20 ++ [2])) /\
  len (xprog_bytes (swallowing_tcp_write ex_tcp)) = 24.
Proof.
  split; [|split; vm_compute; reflexivity].
  intros H. specialize (H 21 3 false). cbn zeta in H. destruct H as [H _]; [vm_compute; discriminate|].
  destruct H as [H _]; [vm_compute; reflexivity|]. vm_compute in H. discriminate H.
Qed.

(* ================================================================ D *)
(* `a?; b` *)
Fixpoint xseq {E} (a b : xprog E) : xprog E :=
  match a with
  | XRet VOk => b
  | XRet v => XRet v
  | XErr e => XErr e
  | XWriteThen p k => XWriteThen p (fun r => xseq (k r) b)
  end.

Lemma prop_xseq {E} (a b : xprog E) : propagating a -> propagating b -> propagating (xseq a b).
Proof.
  induction 1 as [v|p k He Hk IH]; intros Hb; cbn [xseq].
  - destruct v; try constructor. exact Hb.
  - constructor; [|apply IH; exact Hb]. intros e. now rewrite He.
Qed.

Lemma strip_xseq {E} (a b : xprog E) : propagating a -> strip (xseq a b) = wseq (strip a) (strip b).
Proof.
  induction 1 as [v|p k He Hk IH]; cbn [xseq strip wseq].
  - destruct v; reflexivity.
  - now rewrite IH.
Qed.

Section Crate.
  Context {E : Type}.

  (* Ethernet2Header, LinuxSllHeader, LinkHeader, MacsecHeader, SingleVlanHeader,
     ArpPacket, Ipv6Header, Ipv6FragmentHeader, UdpHeader, Icmpv4Header,
     Icmpv6Header, TransportHeader, Icmpv6Payload ::write:
       writer.write_all(&self.to_bytes())        -- the Result is returned as it is
     (ArpPacket, UdpHeader: `writer.write_all(&self.to_bytes())?; Ok(())`) *)
  Definition x_single_write (to_bytes : bytes) : xprog E :=
    XWriteThen to_bytes (fun r => match r with None => XRet VOk | Some e => XErr e end).

  (* Ipv4Header::write_ipv4_header_internal:
       write.write_all(&header_raw)?; write.write_all(&self.options)?; Ok(()) *)
  Definition x_ipv4_header_write (h : two_part) : xprog E :=
    xtry (tp_fixed h) (xtry (tp_var h) (XRet VOk)).
  (* IpAuthHeader::write: writer.write_all(&[..12 bytes..])?; writer.write_all(self.raw_icv())?; Ok(()) *)
  Definition x_ip_auth_header_write (h : two_part) : xprog E :=
    xtry (tp_fixed h) (xtry (tp_var h) (XRet VOk)).
  (* Ipv6RawExtHeader::write: writer.write_all(&[nh, len])?; writer.write_all(self.payload())?; Ok(()) *)
  Definition x_ipv6_raw_ext_header_write (h : two_part) : xprog E :=
    xtry (tp_fixed h) (xtry (tp_var h) (XRet VOk)).
  (* TcpHeader::write: writer.write_all(&[..20 bytes..])?;
       if !options.is_empty() { writer.write_all(options)?; }  Ok(()) *)
  Definition x_tcp_header_write (h : two_part) : xprog E :=
    xtry (tp_fixed h)
      (match tp_var h with [] => XRet VOk | _ => xtry (tp_var h) (XRet VOk) end).

  (* Ipv4Extensions::write_internal:
       writer.write_all(&header.to_bytes()).map_err(WriteError::Io)   (returned) *)
  Definition x_x4_write_internal (x : exts4) (start_ip_number : N) : xprog E :=
    match x4_auth x with
    | Some header =>
      if AUTH =? start_ip_number then x_single_write (e_enc header)
      else XRet (VContent (CNotReferenced AUTH))
    | None => XRet VOk
    end.

  (* Ipv6Extensions::write_internal: every arm is
       writer.write_all(&header.to_bytes()).map_err(WriteError::Io)?;
       next_header = header.next_header; needs_write.<slot> = false; *)
  Fixpoint x_x6_loop (fuel : nat) (x : exts6) (nw : needs) (next_header : N)
           (route_written : bool) : xprog E :=
    match fuel with
    | O => XRet VFuel
    | S f =>
      if next_header =? IPV6_HOP_BY_HOP then
        if n_hop nw then XRet (VContent CHopNotAtStart) else XRet (x6_final nw)
      else if next_header =? IPV6_DEST_OPTIONS then
        if route_written then
          if n_final nw then
            match x6_routing x with
            | Some (_, Some header) =>
              xtry (e_enc header) (x_x6_loop f x (set_final nw) (e_nh header) route_written)
            | _ => XRet VPanic
            end
          else XRet (x6_final nw)
        else if n_dest nw then
          match x6_dest x with
          | Some header =>
            xtry (e_enc header) (x_x6_loop f x (set_dest nw) (e_nh header) route_written)
          | None => XRet VPanic
          end
        else XRet (x6_final nw)
      else if next_header =? IPV6_ROUTE then
        if n_route nw then
          match x6_routing x with
          | Some (header, _) =>
            xtry (e_enc header) (x_x6_loop f x (set_route nw) (e_nh header) true)
          | None => XRet VPanic
          end
        else XRet (x6_final nw)
      else if next_header =? IPV6_FRAG then
        if n_frag nw then
          match x6_frag x with
          | Some header =>
            xtry (e_enc header) (x_x6_loop f x (set_frag nw) (e_nh header) route_written)
          | None => XRet VPanic
          end
        else XRet (x6_final nw)
      else if next_header =? AUTH then
        if n_auth nw then
          match x6_auth x with
          | Some header =>
            xtry (e_enc header) (x_x6_loop f x (set_auth nw) (e_nh header) route_written)
          | None => XRet VPanic
          end
        else XRet (x6_final nw)
      else XRet (x6_final nw)
    end.

  Definition x_x6_write_internal (x : exts6) (first_header : N) : xprog E :=
    let nw := x6_needs x in
    if IPV6_HOP_BY_HOP =? first_header then
      match x6_hop x with
      | Some header =>
        xtry (e_enc header) (x_x6_loop X6_FUEL x (set_hop nw) (e_nh header) false)
      | None => x_x6_loop X6_FUEL x nw first_header false
      end
    else x_x6_loop X6_FUEL x nw first_header false.

  (* IpHeaders::write: header.write(writer)?; extensions.write(writer, header.protocol) *)
  Definition x_ip_headers_write_v4 (h : two_part) (protocol : N) (x : exts4) : xprog E :=
    xseq (x_ipv4_header_write h) (x_x4_write_internal x protocol).
  Definition x_ip_headers_write_v6 (h : bytes) (next_header : N) (x : exts6) : xprog E :=
    xseq (x_single_write h) (x_x6_write_internal x next_header).

  (* packet_builder.rs final_write_with_net: every call is
       writer.write_all(&<part>.to_bytes()).map_err(E::from)?; *)
  Definition x_opt_w (o : option part) : xprog E :=
    match o with Some p => xtry (p_enc p) (XRet VOk) | None => XRet VOk end.
  Fixpoint x_parts_w (ps : list part) : xprog E :=
    match ps with [] => XRet VOk | p :: r => xtry (p_enc p) (x_parts_w r) end.
  Definition x_cerr_w (o : option cerr) : xprog E :=
    match o with Some c => XRet (VContent c) | None => XRet VOk end.

  Definition x_final_write_with_net (c : bcfg) (payload : bytes) : xprog E :=
    xseq (x_opt_w (b_link c))
    (xseq (x_parts_w (b_vlan c))
    (xseq (match b_net c with
           | BIpv4 ip protocol exts =>
             xseq (x_cerr_w (b_pre c))
             (xseq (xtry (p_enc ip) (XRet VOk))
             (xseq (x_x4_write_internal exts protocol) (x_cerr_w (b_mid c))))
           | BIpv6 ip next_header exts =>
             xseq (x_cerr_w (b_pre c))
             (xseq (xtry (p_enc ip) (XRet VOk))
             (xseq (x_x6_write_internal exts next_header) (x_cerr_w (b_mid c))))
           | BArp arp => xtry (p_enc arp) (XRet VOk)
           end)
    (xseq (x_opt_w (b_transport c))
          (xtry payload (XRet VOk))))).

  (* in the fragment, and the success path is the Model.v transliteration *)
  Definition agrees (p : xprog E) (q : wprog) : Prop := propagating p /\ strip p = q.

  Lemma agrees_ret v : agrees (XRet v) (WRet v).
  Proof. split; [constructor | reflexivity]. Qed.

  Lemma agrees_xtry b p q : agrees p q -> agrees (xtry b p) (WWrite b q).
  Proof. intros [H1 H2]. split; [apply prop_xtry; exact H1 | cbn [strip xtry xq]; now rewrite H2]. Qed.

  Lemma agrees_xseq a b qa qb : agrees a qa -> agrees b qb -> agrees (xseq a b) (wseq qa qb).
  Proof.
    intros [A1 A2] [B1 B2]. split; [apply prop_xseq; assumption|].
    rewrite strip_xseq by exact A1. now rewrite A2, B2.
  Qed.

  Lemma agrees_single b : agrees (x_single_write b) (single_write b).
  Proof. apply (agrees_xtry b (XRet VOk) (WRet VOk)). apply agrees_ret. Qed.

  Lemma agrees_two h :
    agrees (x_ipv4_header_write h) (ipv4_header_write h) /\
    agrees (x_ip_auth_header_write h) (ip_auth_header_write h) /\
    agrees (x_ipv6_raw_ext_header_write h) (ipv6_raw_ext_header_write h) /\
    agrees (x_tcp_header_write h) (tcp_header_write h).
  Proof.
    repeat split; try (repeat apply prop_xtry; constructor); try reflexivity.
    - unfold x_tcp_header_write. apply prop_xtry. destruct (tp_var h); [constructor | apply prop_xtry; constructor].
    - unfold x_tcp_header_write, tcp_header_write. destruct (tp_var h); reflexivity.
  Qed.

  Lemma agrees_x4 x start : agrees (x_x4_write_internal x start) (x4_write_internal x start).
  Proof.
    unfold x_x4_write_internal, x4_write_internal. destruct (x4_auth x); [|apply agrees_ret].
    destruct (AUTH =? start); [apply agrees_single | apply agrees_ret].
  Qed.

  Lemma agrees_x6_loop fuel : forall x nw next rw,
    agrees (x_x6_loop fuel x nw next rw) (x6_loop fuel x nw next rw).
  Proof.
    induction fuel as [|f IH]; intros x nw next rw; cbn [x_x6_loop x6_loop]; [apply agrees_ret|].
    destruct (next =? IPV6_HOP_BY_HOP); [destruct (n_hop nw); apply agrees_ret|].
    destruct (next =? IPV6_DEST_OPTIONS).
    { destruct rw.
      - destruct (n_final nw); [|apply agrees_ret].
        destruct (x6_routing x) as [[r [h|]]|]; try apply agrees_ret. apply agrees_xtry, IH.
      - destruct (n_dest nw); [|apply agrees_ret].
        destruct (x6_dest x) as [h|]; [apply agrees_xtry, IH | apply agrees_ret]. }
    destruct (next =? IPV6_ROUTE).
    { destruct (n_route nw); [|apply agrees_ret].
      destruct (x6_routing x) as [[h fo]|]; [apply agrees_xtry, IH | apply agrees_ret]. }
    destruct (next =? IPV6_FRAG).
    { destruct (n_frag nw); [|apply agrees_ret].
      destruct (x6_frag x) as [h|]; [apply agrees_xtry, IH | apply agrees_ret]. }
    destruct (next =? AUTH).
    { destruct (n_auth nw); [|apply agrees_ret].
      destruct (x6_auth x) as [h|]; [apply agrees_xtry, IH | apply agrees_ret]. }
    apply agrees_ret.
  Qed.

  Lemma agrees_x6 x first : agrees (x_x6_write_internal x first) (x6_write_internal x first).
  Proof.
    unfold x_x6_write_internal, x6_write_internal.
    destruct (IPV6_HOP_BY_HOP =? first); [|apply agrees_x6_loop].
    destruct (x6_hop x); [apply agrees_xtry|]; apply agrees_x6_loop.
  Qed.

  Lemma agrees_opt o : agrees (x_opt_w o) (opt_w o).
  Proof. destruct o; [apply (agrees_xtry _ (XRet VOk) (WRet VOk))|]; apply agrees_ret. Qed.
  Lemma agrees_parts ps : agrees (x_parts_w ps) (parts_w ps).
  Proof. induction ps; cbn [x_parts_w parts_w]; [apply agrees_ret | apply agrees_xtry; assumption]. Qed.
  Lemma agrees_cerr o : agrees (x_cerr_w o) (cerr_w o).
  Proof. destruct o; apply agrees_ret. Qed.

  Lemma agrees_final c payload : agrees (x_final_write_with_net c payload) (final_write_with_net c payload).
  Proof.
    unfold x_final_write_with_net, final_write_with_net.
    apply agrees_xseq; [apply agrees_opt|].
    apply agrees_xseq; [apply agrees_parts|].
    apply agrees_xseq.
    - destruct (b_net c).
      + apply agrees_xseq; [apply agrees_cerr|].
        apply agrees_xseq; [apply (agrees_xtry _ (XRet VOk) (WRet VOk)), agrees_ret|].
        apply agrees_xseq; [apply agrees_x4 | apply agrees_cerr].
      + apply agrees_xseq; [apply agrees_cerr|].
        apply agrees_xseq; [apply (agrees_xtry _ (XRet VOk) (WRet VOk)), agrees_ret|].
        apply agrees_xseq; [apply agrees_x6 | apply agrees_cerr].
      + apply (agrees_xtry _ (XRet VOk) (WRet VOk)), agrees_ret.
    - apply agrees_xseq; [apply agrees_opt|].
      apply (agrees_xtry _ (XRet VOk) (WRet VOk)), agrees_ret.
  Qed.
End Crate.

(* everything at once, for Props/C16.v *)
Lemma crate_writers_propagate (E : Type) :
  (forall b, @agrees E (x_single_write b) (single_write b)) /\
  (forall h, @agrees E (x_ipv4_header_write h) (ipv4_header_write h) /\
             @agrees E (x_ip_auth_header_write h) (ip_auth_header_write h) /\
             @agrees E (x_ipv6_raw_ext_header_write h) (ipv6_raw_ext_header_write h) /\
             @agrees E (x_tcp_header_write h) (tcp_header_write h)) /\
  (forall x start, @agrees E (x_x4_write_internal x start) (x4_write_internal x start)) /\
  (forall x first, @agrees E (x_x6_write_internal x first) (x6_write_internal x first)) /\
  (forall h proto x, @agrees E (x_ip_headers_write_v4 h proto x) (ip_headers_write_v4 h proto x)) /\
  (forall h nh x, @agrees E (x_ip_headers_write_v6 h nh x) (ip_headers_write_v6 h nh x)) /\
  (forall c payload, @agrees E (x_final_write_with_net c payload) (final_write_with_net c payload)).
Proof.
  split; [exact agrees_single|]. split; [exact agrees_two|]. split; [exact agrees_x4|].
  split; [exact agrees_x6|]. split; [|split].
  - intros. apply agrees_xseq; [apply agrees_two | apply agrees_x4].
  - intros. apply agrees_xseq; [apply agrees_single | apply agrees_x6].
  - exact agrees_final.
Qed.

(* what `agrees` buys: on every device the explicit program runs like the
   write program of Model.v *)
Lemma agrees_run {W E} (wall : W -> bytes -> wres E * W) p q :
  agrees p q -> forall w, run_x wall p w = run_w wall q w.
Proof. intros [H1 <-]. apply run_x_strip. exact H1. Qed.

(* ================================================================ E: readers *)
(* what `reader.read_exact(..)` of a plain reader / of a LimitedReader returns *)
Inductive rdres := DOk (bs : bytes) | DIo (k : iokind) | DLen (e : lenerr).

Inductive yprog :=
  | YRet (summary : list N)
  | YFail (c : cerr)
  | YLenErr (e : lenerr)
  | YIoErr (k : iokind)                        (* return Err(Io(e)) *)
  | YBad
  | YFuelOut
  | YReadThen (n : N) (k : rdres -> yprog)      (* match reader.read_exact(&mut buf[..n]) { r => k r } *)
  | YStart (layer : N) (k : yprog)
  | YLimit (max_len len_source layer_offset layer : N) (k : yprog).

Fixpoint run_y (p : yprog) (st : rstate) : qres (list N) * rstate :=
  match p with
  | YRet a => (QOk a, st)
  | YFail c => (QContent c, st)
  | YLenErr e => (QLen e, st)
  | YIoErr e => (QIo e, st)
  | YBad => (QBad, st)
  | YFuelOut => (QFuel, st)
  | YReadThen n k =>
    match rs_lim st with
    | None =>
      match io_read_exact (rs_src st) n with
      | (XOk bs, s') => run_y (k (DOk bs)) (mk_rstate s' None)
      | (XIo e, s') => run_y (k (DIo e)) (mk_rstate s' None)
      | (XPanic, s') => (QBad, mk_rstate s' None)
      | (XFuel, s') => (QFuel, mk_rstate s' None)
      end
    | Some r =>
      match lr_read_exact r (rs_src st) n with
      | (QOk bs, r', s') => run_y (k (DOk bs)) (mk_rstate s' (Some r'))
      | (QIo e, r', s') => run_y (k (DIo e)) (mk_rstate s' (Some r'))
      | (QLen e, r', s') => run_y (k (DLen e)) (mk_rstate s' (Some r'))
      | (QContent c, r', s') => (QContent c, mk_rstate s' (Some r'))
      | (QUnderflow, r', s') => (QUnderflow, mk_rstate s' (Some r'))
      | (QBad, r', s') => (QBad, mk_rstate s' (Some r'))
      | (QFuel, r', s') => (QFuel, mk_rstate s' (Some r'))
      end
    end
  | YStart layer k =>
    match rs_lim st with
    | None => (QBad, st)
    | Some r =>
      match lr_start_layer r layer with
      | None => (QUnderflow, st)
      | Some r' => run_y k (mk_rstate (rs_src st) (Some r'))
      end
    end
  | YLimit m ls off layer k =>
    match rs_lim st with
    | None => run_y k (mk_rstate (rs_src st) (Some (lr_new m ls off layer)))
    | Some _ => (QBad, st)
    end
  end.

(* reader.read_exact(..)?; (LimitedReader: .map_err(..)? keeps Io as Io and Len as Len) *)
Definition yq (k : bytes -> yprog) : rdres -> yprog :=
  fun r => match r with DOk bs => k bs | DIo e => YIoErr e | DLen e => YLenErr e end.

Fixpoint embed_r (p : rprog) : yprog :=
  match p with
  | PRet a => YRet a
  | PFail c => YFail c
  | PLenErr e => YLenErr e
  | PBad => YBad
  | PFuelOut => YFuelOut
  | PRead n k => YReadThen n (yq (fun bs => embed_r (k bs)))
  | PStart layer k => YStart layer (embed_r k)
  | PLimit m ls off layer k => YLimit m ls off layer (embed_r k)
  end.

Lemma run_y_embed p : forall st, run_y (embed_r p) st = run_r p st.
Proof.
  induction p as [a|c|e| | |n k IH|layer k IH|m ls off layer k IH]; intros st;
    cbn [embed_r run_y run_r]; try reflexivity.
  - destruct (rs_lim st) as [r|].
    + destruct (lr_read_exact r (rs_src st) n) as [[[bs|e|e|c| | | ] r'] s']; cbn [yq run_y]; try reflexivity.
      apply IH.
    + destruct (io_read_exact (rs_src st) n) as [[bs|e| | ] s']; cbn [yq run_y]; try reflexivity. apply IH.
  - destruct (rs_lim st) as [r|]; [|reflexivity]. destruct (lr_start_layer r layer); [apply IH | reflexivity].
  - destruct (rs_lim st) as [r|]; [reflexivity | apply IH].
Qed.

Inductive propagating_r : yprog -> Prop :=
  | propr_ret a : propagating_r (YRet a)
  | propr_fail c : propagating_r (YFail c)
  | propr_lenerr e : propagating_r (YLenErr e)
  | propr_bad : propagating_r YBad
  | propr_fuel : propagating_r YFuelOut
  | propr_read n k : (forall e, k (DIo e) = YIoErr e) -> (forall e, k (DLen e) = YLenErr e) ->
                     (forall bs, propagating_r (k (DOk bs))) -> propagating_r (YReadThen n k)
  | propr_start layer k : propagating_r k -> propagating_r (YStart layer k)
  | propr_limit m ls off layer k : propagating_r k -> propagating_r (YLimit m ls off layer k).

Fixpoint strip_r (p : yprog) : rprog :=
  match p with
  | YRet a => PRet a
  | YFail c => PFail c
  | YLenErr e => PLenErr e
  | YIoErr _ => PBad                      (* not in the fragment *)
  | YBad => PBad
  | YFuelOut => PFuelOut
  | YReadThen n k => PRead n (fun bs => strip_r (k (DOk bs)))
  | YStart layer k => PStart layer (strip_r k)
  | YLimit m ls off layer k => PLimit m ls off layer (strip_r k)
  end.

Lemma run_y_strip p : propagating_r p -> forall st, run_y p st = run_r (strip_r p) st.
Proof.
  induction 1 as [a|c|e| | |n k Hio Hlen Hk IH|layer k Hk IH|m ls off layer k Hk IH]; intros st;
    cbn [strip_r run_y run_r]; try reflexivity.
  - destruct (rs_lim st) as [r|].
    + destruct (lr_read_exact r (rs_src st) n) as [[[bs|e|e|c| | | ] r'] s']; try reflexivity.
      * apply IH.
      * rewrite Hio. reflexivity.
      * rewrite Hlen. reflexivity.
    + destruct (io_read_exact (rs_src st) n) as [[bs|e| | ] s']; try reflexivity.
      * apply IH.
      * rewrite Hio. reflexivity.
  - destruct (rs_lim st) as [r|]; [|reflexivity]. destruct (lr_start_layer r layer); [apply IH | reflexivity].
  - destruct (rs_lim st) as [r|]; [reflexivity | apply IH].
Qed.

Lemma propr_embed p : propagating_r (embed_r p).
Proof.
  induction p as [a|c|e| | |n k IH|layer k IH|m ls off layer k IH]; cbn [embed_r]; try constructor; auto.
Qed.

(* the read-fault theorem for the fragment *)
Lemma propagating_read_fault p d c e lim : propagating_r p -> 1 <= c ->
  let r := run_y p (start_st d c e lim) in
  let k := src_pulled (rs_src (snd r)) in
  k <= len d /\
  (forall j, j < k ->
     let rj := run_y p (start_st (take j d) c e lim) in
     fst rj = QIo (io_kind e) /\ src_pulled (rs_src (snd rj)) = j) /\
  (forall j, k <= j ->
     let rj := run_y p (start_st (take j d) c e lim) in
     fst rj = fst r /\ src_pulled (rs_src (snd rj)) = k).
Proof.
  intros Hp Hc. cbn zeta. rewrite (run_y_strip p Hp).
  pose proof (read_fault_any (strip_r p) d c e lim Hc) as H. cbn zeta in H.
  destruct H as (H1 & _ & H3 & H4). split; [exact H1|]. split.
  - intros j Hj. rewrite (run_y_strip p Hp). destruct (H3 j Hj) as (A & B & _). split; assumption.
  - intros j Hj. rewrite (run_y_strip p Hp). destruct (H4 j Hj) as (A & B & _). split; assumption.
Qed.

(* seeded defect C16_3 (IpHeaders::read swallows an I/O error): the error of the
   second read_exact (the rest of the IPv4 header) is dropped *)
Definition swallowing_ip_headers_read : yprog :=
  YReadThen 1 (yq (fun _ => YReadThen 19 (fun _ => YRet [20]))).

Lemma swallow_read_refuted :
  ~ propagating_r swallowing_ip_headers_read /\
  (let r := run_y swallowing_ip_headers_read (start_st (repeat 69 20) 3 false None) in
   fst r = QOk [20] /\ src_pulled (rs_src (snd r)) = 20) /\
  (let r := run_y swallowing_ip_headers_read (start_st (take 5 (repeat 69 20)) 3 false None) in
   fst r = QOk [20] /\ src_pulled (rs_src (snd r)) = 5).
Proof.
  split; [|split; split; vm_compute; reflexivity].
  intros H. inversion H as [ | | | | |n k Hio Hlen Hk| | ]; subst.
  specialize (Hk []). cbn [yq] in Hk.
  inversion Hk as [ | | | | |n' k' Hio' Hlen' Hk'| | ]; subst.
  specialize (Hio' KEof). discriminate Hio'.
Qed.
