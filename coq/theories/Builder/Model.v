(* Builder/Model.v -- property C10: transliteration of etherparse/src/packet_builder.rs

   What is modelled (same names as the Rust code):
     the builder steps        as the configuration record `cfg` (what the typestate
                              API lets a caller assemble: link x vlan x net x transport)
     final_size               `final_size`
     final_write_with_net     `build_run` : the verdict AND the bytes that reached an
                              infallible sink (Vec) -- on an error these are the bytes
                              written before the error was detected
     Ipv4Header::set_payload_len / max_payload_len, Ipv6Header::set_payload_length
     TransportHeader::update_checksum_ipv4 / update_checksum_ipv6 with the range
     checks of UdpHeader / TcpHeader / Icmpv6Type ::calc_checksum_*
     UdpHeader::to_bytes, Ethernet2Header / LinuxSllHeader / ArpPacket ::to_bytes

   Re-used models of other checks (imported, not re-modelled):
     Checksum.Model           Sum16BitWords call sequences (`checksum64 e pieces`)      C09
     Roundtrip.Ipv4 / Tcp     Ipv4Header / TcpHeader records, to_bytes,
                              calc_header_checksum                                     C08
     Roundtrip.Icmp4 / Icmp6  Icmpv4Header / Icmpv6Header ::to_bytes, header_len         C08
     CtlMsg.Spec              Icmpv4Type / Icmpv6Type and their parts                    C17
     Checksum.Proto           Icmpv4Type / Icmpv6Type ::calc_checksum                    C09
     ExtChain.Model           Ipv6Extensions / Ipv4Extensions: set_next_headers,
                              write(_internal), header_len                             C12
     BitFields.Model          SingleVlanHeader / Ipv6Header ::to_bytes                 C15

   Conventions: usize is unbounded N; every `as u16` / `as u32` and every u16/u32
   addition is an explicit `mod 2^k`; every operation that can panic (u16
   subtraction underflow, fixed-size array access, to_bytes of a struct whose
   type invariant is broken, the unwraps inside the extension walk) yields
   `VdPanic site`; the theorems show it unreachable for well-formed values.

   ICMP: EVERY Icmpv4Type / Icmpv6Type variant that PacketBuilderStep::icmpv4(..) /
   icmpv6(..) accept (icmpv4_raw / icmpv6_raw = Unknown, the echo helpers = EchoRequest /
   EchoReply).  Nothing is re-transliterated here: the value vocabulary is the one of
   CtlMsg/Spec.v (C17), Icmpv4Header::to_bytes / header_len and Icmpv6Header::to_bytes /
   header_len are the C08 models Roundtrip/Icmp4.v / Icmp6.v (20-byte timestamp messages
   included), Icmpv4Type::calc_checksum / Icmpv6Type::calc_checksum are the C09 models of
   Checksum/Proto.v; `c09_icmp4` / `c09_icmp6` translate between the two vocabularies
   (C09 merges the fifteen payload-free DestinationUnreachable arms into one constructor
   carrying the CODE_DST_UNREACH_* constant). *)
From EP Require Import Base.Bytes Checksum.Model.
From EP Require Roundtrip.Common Roundtrip.Tcp Roundtrip.Ipv4 ExtChain.Model BitFields.Model.
From EP Require CtlMsg.Spec Roundtrip.Icmp4 Roundtrip.Icmp6 Checksum.ProtoTypes Checksum.Proto.
Local Open Scope N_scope.


Notation u16_to_be := EP.Roundtrip.Common.u16_to_be.
Notation u32_to_be := EP.Roundtrip.Common.u32_to_be.
Definition as_u16 (a : N) : N := a mod 65536.
Definition as_u32 (a : N) : N := a mod 4294967296.

(* ------------------------------------------------------------------ configuration *)
Inductive link_cfg :=
| LkNone                                          (* PacketBuilder::ip / ipv4 / ipv6 *)
| LkEthernet2 (source destination : bytes)        (* PacketBuilder::ethernet2 *)
| LkLinuxSll (packet_type sender_address_valid_length : N) (sender_address : bytes).

Inductive vlan_cfg :=
| VlNone
| VlSingle (v : BitFields.Model.SingleVlanHeader)               (* .single_vlan / .vlan(Single) *)
| VlDouble (outer inner : BitFields.Model.SingleVlanHeader).    (* .double_vlan / .vlan(Double) *)

Record ArpPacket := mkArp {
  arp_hw_addr_type : N; arp_proto_addr_type : N; arp_operation : N;
  arp_sender_hw : bytes; arp_sender_proto : bytes;
  arp_target_hw : bytes; arp_target_proto : bytes }.

Inductive net_cfg :=
| NtIpv4 (h : Ipv4.Ipv4Header) (x : ExtChain.Model.Exts4)
| NtIpv6 (h : BitFields.Model.Ipv6Header) (x : ExtChain.Model.Exts6)
| NtArp (a : ArpPacket).

Inductive transport_cfg :=
| TrNone (last_next_header : N)   (* PacketBuilderStep<IpHeaders>::write(ip_number, payload);
                                     ignored for ARP *)
| TrUdp (source_port destination_port : N)
| TrTcp (h : Tcp.TcpHeader)
| TrIcmpv4 (t : CtlMsg.Spec.Icmpv4Type)     (* .icmpv4(type) / icmpv4_raw / icmpv4_echo_request / _reply *)
| TrIcmpv6 (t : CtlMsg.Spec.Icmpv6Type).    (* .icmpv6(type) / icmpv6_raw / icmpv6_echo_request / _reply *)

Record cfg := mkCfg {
  c_link : link_cfg; c_vlan : vlan_cfg; c_net : net_cfg; c_transport : transport_cfg }.

(* ------------------------------------------------------------------ results *)
Inductive value_type :=
| VtIpv4PayloadLength | VtIpv6PayloadLength
| VtUdpPayloadLengthIpv4 | VtUdpPayloadLengthIpv6
| VtTcpPayloadLengthIpv4 | VtTcpPayloadLengthIpv6
| VtIcmpv6PayloadLength.

Inductive build_error :=
| EPayloadLen (actual max_allowed : N) (vt : value_type)
| EIpv4Exts (w : ExtChain.Model.walk_error)
| EIpv6Exts (w : ExtChain.Model.walk_error)
| EIcmpv6InIpv4.

Inductive verdict := VdOk | VdErr (e : build_error) | VdPanic (site : N).

(* ------------------------------------------------------------------ encoders *)
(* Ethernet2Header::to_bytes *)
Definition eth_to_bytes (source destination : bytes) (ether_type : N) : bytes :=
  destination ++ source ++ u16_to_be ether_type.

(* LinuxSllHeader::to_bytes; arp_hrd_type = ArpHardwareId::ETHERNET (1) *)
Definition sll_to_bytes (packet_type valid_len : N) (addr : bytes) (protocol_type : N) : bytes :=
  u16_to_be packet_type ++ u16_to_be 1 ++ u16_to_be valid_len ++ addr ++ u16_to_be protocol_type.

Definition vlan_set_ether_type (v : BitFields.Model.SingleVlanHeader) (et : N) : BitFields.Model.SingleVlanHeader :=
  BitFields.Model.mkVlan (BitFields.Model.vlan_pcp v) (BitFields.Model.vlan_dei v) (BitFields.Model.vlan_id v) et.

(* ArpPacket::to_bytes / packet_len; hw_addr_size / proto_addr_size are the sizes of
   the sender addresses (the setters keep sender and target sizes equal) *)
Definition arp_to_bytes (a : ArpPacket) : bytes :=
  u16_to_be (arp_hw_addr_type a) ++ u16_to_be (arp_proto_addr_type a)
  ++ [len (arp_sender_hw a); len (arp_sender_proto a)] ++ u16_to_be (arp_operation a)
  ++ arp_sender_hw a ++ arp_sender_proto a ++ arp_target_hw a ++ arp_target_proto a.
Definition arp_packet_len (a : ArpPacket) : N :=
  8 + len (arp_sender_hw a) * 2 + len (arp_sender_proto a) * 2.

(* UdpHeader::to_bytes *)
Definition udp_to_bytes (sp dp length ck : N) : bytes :=
  u16_to_be sp ++ u16_to_be dp ++ u16_to_be length ++ u16_to_be ck.

(* ------------------------------------------------------------------ ICMP: the C17 values as C09 inputs *)
(* DestUnreachableHeader::code_u8 (the CODE_DST_UNREACH_* constants) *)
Definition du_code_u8 (d : CtlMsg.Spec.DestUnreachableHeader) : N :=
  match d with
  | CtlMsg.Spec.DuNetwork => 0 | CtlMsg.Spec.DuHost => 1 | CtlMsg.Spec.DuProtocol => 2
  | CtlMsg.Spec.DuPort => 3 | CtlMsg.Spec.DuFragmentationNeeded _ => 4
  | CtlMsg.Spec.DuSourceRouteFailed => 5 | CtlMsg.Spec.DuNetworkUnknown => 6
  | CtlMsg.Spec.DuHostUnknown => 7 | CtlMsg.Spec.DuIsolated => 8
  | CtlMsg.Spec.DuNetworkProhibited => 9 | CtlMsg.Spec.DuHostProhibited => 10
  | CtlMsg.Spec.DuTosNetwork => 11 | CtlMsg.Spec.DuTosHost => 12
  | CtlMsg.Spec.DuFilterProhibited => 13 | CtlMsg.Spec.DuHostPrecedenceViolation => 14
  | CtlMsg.Spec.DuPrecedenceCutoff => 15
  end.

(* the argument of Icmpv4Type::calc_checksum in the vocabulary of Checksum/ProtoTypes.v *)
Definition c09_icmp4 (t : CtlMsg.Spec.Icmpv4Type) : ProtoTypes.icmp4_type :=
  match t with
  | CtlMsg.Spec.V4Unknown ty c b4 b5 b6 b7 => ProtoTypes.I4Unknown ty c b4 b5 b6 b7
  | CtlMsg.Spec.V4EchoReply id seq => ProtoTypes.I4EchoReply id seq
  | CtlMsg.Spec.V4DestinationUnreachable (CtlMsg.Spec.DuFragmentationNeeded m) => ProtoTypes.I4FragNeeded m
  | CtlMsg.Spec.V4DestinationUnreachable d => ProtoTypes.I4DestUnreach (du_code_u8 d)
  | CtlMsg.Spec.V4Redirect c g0 g1 g2 g3 =>
      ProtoTypes.I4Redirect (Icmp4.icmp4_redirect_code_u8 c) (g0, g1, g2, g3)
  | CtlMsg.Spec.V4EchoRequest id seq => ProtoTypes.I4EchoRequest id seq
  | CtlMsg.Spec.V4TimeExceeded c => ProtoTypes.I4TimeExceeded (Icmp4.icmp4_time_exceeded_code_u8 c)
  | CtlMsg.Spec.V4ParameterProblem (CtlMsg.Spec.PointerIndicatesError p) => ProtoTypes.I4ParamPointer p
  | CtlMsg.Spec.V4ParameterProblem CtlMsg.Spec.MissingRequiredOption => ProtoTypes.I4ParamOther 1
  | CtlMsg.Spec.V4ParameterProblem CtlMsg.Spec.BadLength => ProtoTypes.I4ParamOther 2
  | CtlMsg.Spec.V4TimestampRequest m =>
      ProtoTypes.I4TimestampRequest (CtlMsg.Spec.ts_id m) (CtlMsg.Spec.ts_seq m) (CtlMsg.Spec.ts_originate m)
        (CtlMsg.Spec.ts_receive m) (CtlMsg.Spec.ts_transmit m)
  | CtlMsg.Spec.V4TimestampReply m =>
      ProtoTypes.I4TimestampReply (CtlMsg.Spec.ts_id m) (CtlMsg.Spec.ts_seq m) (CtlMsg.Spec.ts_originate m)
        (CtlMsg.Spec.ts_receive m) (CtlMsg.Spec.ts_transmit m)
  end.

(* the argument of Icmpv6Type::calc_checksum *)
Definition c09_icmp6 (t : CtlMsg.Spec.Icmpv6Type) : ProtoTypes.icmp6_type :=
  match t with
  | CtlMsg.Spec.V6Unknown ty c b4 b5 b6 b7 => ProtoTypes.I6Unknown ty c b4 b5 b6 b7
  | CtlMsg.Spec.V6DestinationUnreachable c => ProtoTypes.I6DestUnreach (Icmp6.icmp6_du_code_u8 c)
  | CtlMsg.Spec.V6PacketTooBig mtu => ProtoTypes.I6PacketTooBig mtu
  | CtlMsg.Spec.V6TimeExceeded c => ProtoTypes.I6TimeExceeded (Icmp6.icmp6_te_code_u8 c)
  | CtlMsg.Spec.V6ParameterProblem c p => ProtoTypes.I6ParamProblem (Icmp6.icmp6_pp_code_u8 c) p
  | CtlMsg.Spec.V6EchoRequest id seq => ProtoTypes.I6EchoRequest id seq
  | CtlMsg.Spec.V6EchoReply id seq => ProtoTypes.I6EchoReply id seq
  | CtlMsg.Spec.V6RouterSolicitation => ProtoTypes.I6RouterSolicitation
  | CtlMsg.Spec.V6RouterAdvertisement chl m o lt => ProtoTypes.I6RouterAdvertisement chl m o lt
  | CtlMsg.Spec.V6NeighborSolicitation => ProtoTypes.I6NeighborSolicitation
  | CtlMsg.Spec.V6NeighborAdvertisement r s o => ProtoTypes.I6NeighborAdvertisement r s o
  | CtlMsg.Spec.V6Redirect => ProtoTypes.I6Redirect
  end.

(* TransportHeader::Icmpv4(h): h.update_checksum(payload), later h.to_bytes() *)
Definition icmp4_emit (e : endian) (t : CtlMsg.Spec.Icmpv4Type) (payload : bytes) : option bytes :=
  Icmp4.icmp4_to_bytes
    {| Icmp4.icmp4_type := t;
       Icmp4.icmp4_checksum := Checksum.Proto.icmp4_calc_checksum e (c09_icmp4 t) payload |}.

(* ------------------------------------------------------------------ checksum call sequences *)
Definition p2be (v : N) : piece := P2 ((v / 256) mod 256) (v mod 256).
Definition p4be (v : N) : piece :=
  P4 ((v / 256 / 256 / 256) mod 256) ((v / 256 / 256) mod 256) ((v / 256) mod 256) (v mod 256).
(* add_4bytes(source: [u8;4]) / add_16bytes(source: [u8;16]): fixed-size arrays *)
Definition p4_of (l : bytes) : option piece :=
  match l with [a; b; c; d] => Some (P4 a b c d) | _ => None end.
Definition p16_of (l : bytes) : option piece :=
  if len l =? 16 then Some (P16 l) else None.

(* UdpHeader::calc_checksum_post_ip *)
Definition udp_post (sp dp length : N) (payload : bytes) : list piece :=
  [p2be sp; p2be dp; p2be length; PSlice payload].
(* TcpHeader::calc_checksum_post_ip *)
Definition tcp_post (t : Tcp.TcpHeader) (opts payload : bytes) : list piece :=
  [p2be (Tcp.source_port t); p2be (Tcp.destination_port t);
   p4be (Tcp.sequence_number t); p4be (Tcp.acknowledgment_number t);
   P2 (Tcp.byte12 t) (Tcp.byte13 t);
   p2be (Tcp.window_size t); p2be (Tcp.urgent_pointer t);
   PSlice opts; PSlice payload].

Definition tcp_set_checksum (t : Tcp.TcpHeader) (ck : N) : Tcp.TcpHeader :=
  {| Tcp.source_port := Tcp.source_port t; Tcp.destination_port := Tcp.destination_port t;
     Tcp.sequence_number := Tcp.sequence_number t;
     Tcp.acknowledgment_number := Tcp.acknowledgment_number t;
     Tcp.ns := Tcp.ns t; Tcp.fin := Tcp.fin t; Tcp.syn := Tcp.syn t; Tcp.rst := Tcp.rst t;
     Tcp.psh := Tcp.psh t; Tcp.ack := Tcp.ack t; Tcp.urg := Tcp.urg t; Tcp.ece := Tcp.ece t;
     Tcp.cwr := Tcp.cwr t; Tcp.window_size := Tcp.window_size t; Tcp.checksum := ck;
     Tcp.urgent_pointer := Tcp.urgent_pointer t; Tcp.options := Tcp.options t |}.

(* ------------------------------------------------------------------ header lengths *)
(* TransportHeader::header_len *)
Definition tr_header_len (t : transport_cfg) : N :=
  match t with
  | TrNone _ => 0
  | TrUdp _ _ => 8
  | TrTcp h => Tcp.header_len h
  | TrIcmpv4 t => Icmp4.icmp4_type_header_len t     (* 20 for TimestampRequest / TimestampReply, else 8 *)
  | TrIcmpv6 t => Icmp6.icmp6_type_header_len t     (* 8 for every variant *)
  end.

(* the ip number handed to set_next_headers *)
Definition tr_ip_number (t : transport_cfg) : N :=
  match t with
  | TrNone n => n
  | TrUdp _ _ => 17
  | TrTcp _ => 6
  | TrIcmpv4 _ => 1
  | TrIcmpv6 _ => 58
  end.

(* ------------------------------------------------------------------ transport checksums *)
Inductive tres := TOk (b : bytes) | TErr (e : build_error) | TPanic (site : N).

Definition tcp_finish (t : Tcp.TcpHeader) (ck : N) : tres :=
  match Tcp.to_bytes (tcp_set_checksum t ck) with
  | Some b => TOk b
  | None => TPanic 10
  end.

(* TransportHeader::update_checksum_ipv4 followed by to_bytes *)
Definition tr_ipv4 (e : endian) (source destination : bytes) (t : transport_cfg)
           (udp_length : N) (payload : bytes) : tres :=
  match t with
  | TrNone _ => TOk []
  | TrUdp sp dp =>
      (* calc_checksum_ipv4_raw: MAX_PAYLOAD_LENGTH = u16::MAX - UdpHeader::LEN *)
      if 65527 <? len payload then TErr (EPayloadLen (len payload) 65527 VtUdpPayloadLengthIpv4)
      else match p4_of source, p4_of destination with
           | Some ps, Some pd =>
               TOk (udp_to_bytes sp dp udp_length
                      (checksum64_no_zero e
                         ([ps; pd; P2 0 17; p2be udp_length] ++ udp_post sp dp udp_length payload)))
           | _, _ => TPanic 11
           end
  | TrTcp h =>
      if 65535 <? Tcp.header_len h then TPanic 12        (* usize::from(u16::MAX) - header_len() *)
      else
      let max_payload := 65535 - Tcp.header_len h in
      if max_payload <? len payload then
        TErr (EPayloadLen (len payload) max_payload VtTcpPayloadLengthIpv4)
      else
        (* header_len_u16() + (payload.len() as u16) : u16 addition *)
        let tcp_len := as_u16 (Tcp.header_len h + as_u16 (len payload)) in
        match p4_of source, p4_of destination, Tcp.opt_as_slice (Tcp.options h) with
        | Some ps, Some pd, Some o =>
            tcp_finish h (checksum64 e ([ps; pd; P2 0 6; p2be tcp_len] ++ tcp_post h o payload))
        | _, _, _ => TPanic 13
        end
  | TrIcmpv4 t =>
      match icmp4_emit e t payload with
      | Some b => TOk b
      | None => TPanic 14            (* ArrayVec::set_len beyond the capacity *)
      end
  | TrIcmpv6 _ => TErr EIcmpv6InIpv4
  end.

(* TransportHeader::update_checksum_ipv6 followed by to_bytes *)
Definition tr_ipv6 (e : endian) (source destination : bytes) (t : transport_cfg)
           (udp_length : N) (payload : bytes) : tres :=
  match t with
  | TrNone _ => TOk []
  | TrUdp sp dp =>
      (* calc_checksum_ipv6_raw: MAX_PAYLOAD_LENGTH = u32::MAX - UdpHeader::LEN *)
      if 4294967287 <? len payload then
        TErr (EPayloadLen (len payload) 4294967287 VtUdpPayloadLengthIpv6)
      else match p16_of source, p16_of destination with
           | Some ps, Some pd =>
               TOk (udp_to_bytes sp dp udp_length
                      (checksum64_no_zero e
                         ([ps; pd; P2 0 17; p2be udp_length] ++ udp_post sp dp udp_length payload)))
           | _, _ => TPanic 15
           end
  | TrTcp h =>
      if 4294967295 <? Tcp.header_len h then TPanic 16
      else
      let max_payload := 4294967295 - Tcp.header_len h in
      if max_payload <? len payload then
        TErr (EPayloadLen (len payload) max_payload VtTcpPayloadLengthIpv6)
      else
        (* u32::from(header_len_u16()) + (payload.len() as u32) : u32 addition *)
        let tcp_len := as_u32 (Tcp.header_len h + as_u32 (len payload)) in
        match p16_of source, p16_of destination, Tcp.opt_as_slice (Tcp.options h) with
        | Some ps, Some pd, Some o =>
            tcp_finish h (checksum64 e ([ps; pd; p4be tcp_len; P2 0 6] ++ tcp_post h o payload))
        | _, _, _ => TPanic 17
        end
  | TrIcmpv4 t =>
      match icmp4_emit e t payload with
      | Some b => TOk b
      | None => TPanic 18
      end
  | TrIcmpv6 t =>
      (* Icmpv6Header::update_checksum(source: [u8;16], destination: [u8;16], payload):
         Icmpv6Type::calc_checksum (max_payload_len = u32::MAX - header_len()), then to_bytes *)
      match p16_of source, p16_of destination with
      | Some _, Some _ =>
          match Checksum.Proto.icmp6_calc_checksum e (c09_icmp6 t) source destination payload with
          | ProtoTypes.COk ck =>
              match Icmp6.icmp6_to_bytes {| Icmp6.icmp6_type := t; Icmp6.icmp6_checksum := ck |} with
              | Some b => TOk b
              | None => TPanic 20
              end
          | ProtoTypes.CErrTooBig a m => TErr (EPayloadLen a m VtIcmpv6PayloadLength)
          | ProtoTypes.CPanic => TPanic 21
          end
      | _, _ => TPanic 19
      end
  end.

(* ------------------------------------------------------------------ net header *)
Definition ip4_set_len_proto (h : Ipv4.Ipv4Header) (tl proto : N) : Ipv4.Ipv4Header :=
  {| Ipv4.i4_dscp := Ipv4.i4_dscp h; Ipv4.i4_ecn := Ipv4.i4_ecn h; Ipv4.i4_total_len := tl;
     Ipv4.i4_identification := Ipv4.i4_identification h;
     Ipv4.i4_dont_fragment := Ipv4.i4_dont_fragment h;
     Ipv4.i4_more_fragments := Ipv4.i4_more_fragments h;
     Ipv4.i4_fragment_offset := Ipv4.i4_fragment_offset h;
     Ipv4.i4_time_to_live := Ipv4.i4_time_to_live h; Ipv4.i4_protocol := proto;
     Ipv4.i4_header_checksum := Ipv4.i4_header_checksum h; Ipv4.i4_source := Ipv4.i4_source h;
     Ipv4.i4_destination := Ipv4.i4_destination h; Ipv4.i4_options := Ipv4.i4_options h |}.

Definition ip6_set_len_next (h : BitFields.Model.Ipv6Header) (pl nh : N) : BitFields.Model.Ipv6Header :=
  BitFields.Model.mkIpv6 (BitFields.Model.v6_traffic_class h) (BitFields.Model.v6_flow_label h) pl nh (BitFields.Model.v6_hop_limit h)
            (BitFields.Model.v6_source h) (BitFields.Model.v6_destination h).

(* result of the net + transport part: verdict, bytes of the net header and the
   extension headers that were written, bytes of the transport header *)
Definition ipv4_part (e : endian) (h : Ipv4.Ipv4Header) (x : ExtChain.Model.Exts4) (t : transport_cfg)
           (payload : bytes) : verdict * bytes * bytes :=
  (* udp.length = (UdpHeader::LEN + payload.len()) as u16 *)
  let udp_length := as_u16 (8 + len payload) in
  let value := ExtChain.Model.header_len4 x + tr_header_len t + len payload in
  let olen := Ipv4.i4o_len (Ipv4.i4_options h) in
  (* max_payload_len(): u16::MAX - u16::from(options.len_u8()) - 20 *)
  if 65515 <? olen then (VdPanic 1, [], [])
  else
  let max_allowed := 65535 - olen - 20 in
  if max_allowed <? value then
    (VdErr (EPayloadLen value max_allowed VtIpv4PayloadLength), [], [])
  else
    (* self.total_len = (self.header_len() + value) as u16 *)
    let total_len := as_u16 (Ipv4.ip4_header_len h + value) in
    let x1 := fst (ExtChain.Model.set_next_headers4 x (tr_ip_number t)) in
    let protocol := snd (ExtChain.Model.set_next_headers4 x (tr_ip_number t)) in
    let h1 := ip4_set_len_proto h total_len protocol in
    match Ipv4.ip4_calc_checksum e h1 with
    | None => (VdPanic 2, [], [])
    | Some ck =>
      let h2 := Ipv4.ip4_set_checksum h1 ck in
      match Ipv4.ip4_to_bytes h2 with
      | None => (VdPanic 3, [], [])
      | Some hb =>
        match ExtChain.Model.write4 x1 protocol with
        | (xb, ExtChain.Model.Ok _) =>
          match tr_ipv4 e (Ipv4.i4_source h2) (Ipv4.i4_destination h2) t udp_length payload with
          | TOk tb => (VdOk, hb ++ xb, tb)
          | TErr er => (VdErr er, hb ++ xb, [])
          | TPanic s => (VdPanic s, hb ++ xb, [])
          end
        | (xb, ExtChain.Model.Err w) => (VdErr (EIpv4Exts w), hb ++ xb, [])
        | (xb, _) => (VdPanic 4, hb ++ xb, [])
        end
      end
    end.

Definition ipv6_part (e : endian) (h : BitFields.Model.Ipv6Header) (x : ExtChain.Model.Exts6) (t : transport_cfg)
           (payload : bytes) : verdict * bytes * bytes :=
  let udp_length := as_u16 (8 + len payload) in
  let size := ExtChain.Model.header_len x + tr_header_len t + len payload in
  (* set_payload_length: MAX_PAYLOAD_LENGTH = u16::MAX *)
  if 65535 <? size then
    (VdErr (EPayloadLen size 65535 VtIpv6PayloadLength), [], [])
  else
    let x1 := fst (ExtChain.Model.set_next_headers x (tr_ip_number t)) in
    let next_header := snd (ExtChain.Model.set_next_headers x (tr_ip_number t)) in
    let h1 := ip6_set_len_next h (as_u16 size) next_header in
    let hb := BitFields.Model.Ipv6Header_to_bytes h1 in
    match ExtChain.Model.write x1 next_header with
    | (xb, ExtChain.Model.Ok _) =>
      match tr_ipv6 e (BitFields.Model.v6_source h1) (BitFields.Model.v6_destination h1) t udp_length payload with
      | TOk tb => (VdOk, hb ++ xb, tb)
      | TErr er => (VdErr er, hb ++ xb, [])
      | TPanic s => (VdPanic s, hb ++ xb, [])
      end
    | (xb, ExtChain.Model.Err w) => (VdErr (EIpv6Exts w), hb ++ xb, [])
    | (xb, _) => (VdPanic 5, hb ++ xb, [])
    end.

(* ------------------------------------------------------------------ final_write_with_net *)
Definition net_ether_type (n : net_cfg) : N :=
  match n with NtIpv4 _ _ => 2048 | NtIpv6 _ _ => 34525 | NtArp _ => 2054 end.

Definition link_bytes (c : cfg) : bytes :=
  let net_et := net_ether_type (c_net c) in
  match c_link c with
  | LkNone => []
  | LkEthernet2 s d =>
      eth_to_bytes s d (match c_vlan c with
                        | VlSingle _ => 33024      (* VLAN_TAGGED_FRAME 0x8100 *)
                        | VlDouble _ _ => 34984    (* PROVIDER_BRIDGING 0x88a8 *)
                        | VlNone => net_et
                        end)
  | LkLinuxSll pt vl a => sll_to_bytes pt vl a net_et
  end.

Definition vlan_bytes (c : cfg) : bytes :=
  let net_et := net_ether_type (c_net c) in
  match c_vlan c with
  | VlNone => []
  | VlSingle v => BitFields.Model.SingleVlanHeader_to_bytes (vlan_set_ether_type v net_et)
  | VlDouble o i =>
      BitFields.Model.SingleVlanHeader_to_bytes (vlan_set_ether_type o 33024)
      ++ BitFields.Model.SingleVlanHeader_to_bytes (vlan_set_ether_type i net_et)
  end.

(* verdict and the bytes that reached the sink *)
Definition build_run (e : endian) (c : cfg) (payload : bytes) : verdict * bytes :=
  let pre := link_bytes c ++ vlan_bytes c in
  match c_net c with
  | NtArp a => (VdOk, pre ++ arp_to_bytes a ++ payload)
  | NtIpv4 h x =>
      match ipv4_part e h x (c_transport c) payload with
      | (VdOk, nb, tb) => (VdOk, pre ++ nb ++ tb ++ payload)
      | (v, nb, _) => (v, pre ++ nb)
      end
  | NtIpv6 h x =>
      match ipv6_part e h x (c_transport c) payload with
      | (VdOk, nb, tb) => (VdOk, pre ++ nb ++ tb ++ payload)
      | (v, nb, _) => (v, pre ++ nb)
      end
  end.

Inductive bres := BOk (bs : bytes) | BErr (e : build_error) | BPanic (site : N).
Definition build (e : endian) (c : cfg) (payload : bytes) : bres :=
  match build_run e c payload with
  | (VdOk, bs) => BOk bs
  | (VdErr er, _) => BErr er
  | (VdPanic s, _) => BPanic s
  end.

(* ------------------------------------------------------------------ final_size *)
Definition link_len (c : cfg) : N :=
  match c_link c with LkNone => 0 | LkEthernet2 _ _ => 14 | LkLinuxSll _ _ _ => 16 end.
Definition vlan_len (c : cfg) : N :=
  match c_vlan c with VlNone => 0 | VlSingle _ => 4 | VlDouble _ _ => 4 * 2 end.
Definition net_len (c : cfg) : N :=
  match c_net c with
  | NtIpv4 h x => Ipv4.ip4_header_len h + ExtChain.Model.header_len4 x
  | NtIpv6 _ x => 40 + ExtChain.Model.header_len x
  | NtArp a => arp_packet_len a
  end.
Definition transport_len (c : cfg) : N :=
  match c_net c with
  | NtArp _ => 0                    (* PacketBuilderStep<ArpPacket>: transport_header is None *)
  | _ => tr_header_len (c_transport c)
  end.
Definition final_size (c : cfg) (payload_size : N) : N :=
  link_len c + vlan_len c + net_len c + transport_len c + payload_size.

(* write_to_slice(buffer): Space(size) when the buffer is shorter than size, otherwise
   the verdict of final_write_with_net over the first `size` bytes (C16 shows that
   the inner slice writer can not fail then) and the number of bytes = size *)
Inductive sres := SOk (n : N) | SSpace (required : N) | SErr (e : build_error) | SPanic (site : N).
Definition write_to_slice (e : endian) (c : cfg) (buffer_len : N) (payload : bytes) : sres :=
  let required := final_size c (len payload) in
  if buffer_len <? required then SSpace required
  else match build_run e c payload with
       | (VdOk, _) => SOk required
       | (VdErr er, _) => SErr er
       | (VdPanic s, _) => SPanic s
       end.
