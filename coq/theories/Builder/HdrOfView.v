(* Builder/HdrOfView.v -- the Parse-side half of C10_headers_parse_back (no builder model in scope):

     hv_of_view / conv_of_view    the to_header() conversion `conv` (Parse/HdrView.v) of a slicing result is a
                                  function of its observer view `view` (Parse/View.v), except for the ICMPv4
                                  header length, which is read from the first two octets of the message;
     icmp4_hl_in_buf              that length for a slice of the caller's buffer;
     build_chain                  a byte-level chain description `chain_full` (Builder/SpecX.v) over the first u
                                  bytes of a header payload hp gives a `chain` of hp (Parse/HdrSlots.v) with the
                                  same kinds;
     exts_indep_of_chain          hence `exts_indep` (Builder/CutFree.v) for a slicing result whose IPv6 header
                                  and extension area sit where the byte-level chain lies, when the kinds meet no
                                  filled slot. *)
From Coq Require Import ZArith Lia ZifyN ZifyBool List.
From EP Require Import Base.Bytes Parse.Types Parse.Slices Parse.Cursor Parse.View
  Parse.WireSpec Parse.Repr Parse.StrictProofs Parse.Access
  Parse.HdrModel Parse.HdrView Parse.HdrCut Parse.HdrProofs Parse.HdrProofs2 Parse.HdrProofs3.
From EP Require Import Parse.AccessProofs Parse.HdrSlots Parse.HdrSlots2.
From EP Require Parse.HdrLaxC05.
From EP Require ExtChain.Spec Builder.SpecX Builder.ProofsWire.
From EP Require Import Builder.CutFree.
Import ListNotations.
Import SlicedPacketCursor.
Import Ipv6ExtIterA.

Local Open Scope N_scope.

Module XS := EP.ExtChain.Spec.
Module SX := EP.Builder.SpecX.
Module PW := EP.Builder.ProofsWire.

Definition ext_hdr := Parse.HdrLaxC05.ext_hdr.
Definition net_hdr := Parse.HdrLaxC05.net_hdr.

(* ---- conv as a function of view ------------------------------------------------------------------------- *)
(* header() / to_header() and payload() of a transport slice seen through its window; hl4 = the ICMPv4
   header length (8, or 20 for a timestamp / timestamp reply message) *)
Definition tr_hdr (hl4 : N) (t : vtransport) : hvtr * hvpayload :=
  match t with
  | VUdp w => (HvUdp (fst w, 8), HvpUdp (fst w + 8, snd w - 8))
  | VTcp hl w => (HvTcp (fst w, hl), HvpTcp (fst w + hl, snd w - hl))
  | VIcmpv4 w => (HvIcmpv4 (fst w, hl4), HvpIcmpv4 (fst w + hl4, snd w - hl4))
  | VIcmpv6 w => (HvIcmpv6 (fst w, 8), HvpIcmpv6 (fst w + 8, snd w - 8))
  end.

Definition net_payload (n : option vnet) : hvpayload :=
  match n with
  | Some (VIpv4 _ _ p) | Some (VIpv6 _ _ _ _ p) => HvpIp p
  | _ => HvpEmpty
  end.

Definition link_hdr (l : option vlink) : option window :=
  match l with
  | Some (VEthernet2 w) => Some (fst w, 14)
  | Some (VLinuxSll h _) => Some h
  | _ => None
  end.

(* what PacketHeaders shows of a packet whose slicing result has the observer view x: header windows of
   every layer, and the innermost payload (of the transport header if there is one, else the IP payload) *)
Definition hv_of_view (hl4 : N) (x : vpacket) : hview :=
  mkHv (link_hdr (v_link x)) (map ext_hdr (v_exts x)) (option_map net_hdr (v_net x))
       (option_map (fun t => fst (tr_hdr hl4 t)) (v_transport x))
       (match v_transport x with
        | Some t => snd (tr_hdr hl4 t)
        | None => net_payload (v_net x)
        end).

Lemma conv_of_view sp hl4 :
  sp_net sp <> None ->
  (forall s, sp_transport sp = Some (TrIcmpv4 s) -> Icmpv4Acc.header_len s = Ok hl4) ->
  conv sp = Ok (hv_of_view hl4 (view sp)).
Proof.
  destruct sp as [l x n t]. unfold conv, view, hv_of_view.
  cbn [sp_link sp_exts sp_net sp_transport v_link v_exts v_net v_transport]. intros Hn H4.
  assert (El : match l with Some l0 => conv_link l0 | None => None end = link_hdr (option_map view_link l))
    by (destruct l as [[s|h w|e]|]; reflexivity).
  assert (Ex : map conv_ext x = map ext_hdr (map view_ext x)).
  { rewrite map_map. apply map_ext. intros [s|m]; reflexivity. }
  assert (En : option_map conv_net n = option_map net_hdr (option_map view_net n))
    by (destruct n as [[v|v|a]|]; reflexivity).
  rewrite El, Ex, En.
  destruct t as [[s|hl s|s|s]|]; cbn [conv_tr bind fst snd option_map view_tr tr_hdr]; try reflexivity.
  - rewrite (H4 s eq_refl). cbn [bind fst snd]. reflexivity.
  - destruct n as [[v|v|a]|]; cbn [bind fst snd option_map view_net net_payload]; try reflexivity.
    now destruct Hn.
Qed.

(* ---- provenance: the slices of a slicing result are windows of the input ---------------------------- *)
Lemma in_buf_rdU bs s i : in_buf bs s -> i < s_len s -> rdU s i = Ok (B bs (s_off s + i)).
Proof.
  intros (pos & lim & R) Hi. rewrite (repr_off _ _ _ _ R).
  apply (repr_rdU bs s pos lim i R). now rewrite <- (repr_len _ _ _ _ R).
Qed.

Lemma icmp4_hl_in_buf bs s : in_buf bs s -> 2 <= s_len s ->
  Icmpv4Acc.header_len s =
    Ok (if ((B bs (s_off s) =? 13) || (B bs (s_off s) =? 14)) && (0 =? B bs (s_off s + 1)) then 20 else 8).
Proof.
  intros I L. unfold Icmpv4Acc.header_len.
  rewrite (in_buf_rdU bs s 0 I) by lia. rewrite (in_buf_rdU bs s 1 I) by lia. cbn [bind].
  now rewrite N.add_0_r.
Qed.

Lemma v6_in_buf bs sp v : sliced_wf bs sp -> sp_net sp = Some (NtIpv6 v) ->
  in_buf bs (v6_header v) /\ in_buf bs (x6_slice (v6_exts v)).
Proof.
  intros (_ & _ & Wn & _) Hn. rewrite Hn in Wn. cbn [optP net_prov] in Wn.
  destruct Wn as (src & I & [E|E]).
  - apply ipv6_wf in E. destruct E as (_ & S1 & S2 & _).
    split; eapply sub_of_in_buf; eauto.
  - apply ip_wf in E. destruct E as (_ & S1 & S2 & _).
    split; eapply sub_of_in_buf; eauto.
Qed.

Lemma icmp4_in_buf bs sp s : sliced_wf bs sp -> sp_transport sp = Some (TrIcmpv4 s) -> in_buf bs s.
Proof.
  intros (_ & _ & _ & Wt) Ht. rewrite Ht in Wt. cbn [optP transport_prov] in Wt.
  destruct Wt as (src & I & E). apply icmp4_wf in E. destruct E as (-> & _). exact I.
Qed.

(* ---- from bytes to a chain of the header payload ---------------------------------------------------- *)
Definition item_of (k : XS.ext_kind) (s : slice) : ext_item :=
  match k with
  | XS.KHopByHop => XHopByHop s
  | XS.KDestOpts | XS.KFinalDestOpts => XDestinationOptions s
  | XS.KRouting => XRouting s
  | XS.KFragment => XFragment s
  | XS.KAuth => XAuthentication s
  end.

Definition kinds (l : list (XS.ext_kind * (N * bool))) : list N :=
  map (fun e => XS.ip_number_of (fst e)) l.

Section BuildChain.
  Variables (bs : bytes) (hp : slice) (p0 u : N).
  Hypothesis Hrd : forall i, i < u -> rdU hp i = Ok (B bs (p0 + i)).
  Hypothesis Hu : u <= s_len hp.

  Lemma build_chain : forall l k first last,
    SX.chain_full (B bs) (p0 + k) first l last -> k + PW.sum_len l <= u ->
    exists L, chain hp k first L (k + PW.sum_len l) last /\ map item_kind L = kinds l.
  Proof.
    induction l as [|[kd [hl fr]] r IH]; intros k first last CH LE.
    - cbn [SX.chain_full] in CH. subst last. exists []. cbn [chain map kinds PW.sum_len fold_right].
      split; [split; [lia|reflexivity]|reflexivity].
    - cbn [SX.chain_full] in CH. destruct CH as (E1 & HA & CH).
      cbn [PW.sum_len fold_right fst snd] in LE |- *. fold (PW.sum_len r) in LE |- *.
      assert (L8 : 8 <= hl) by (destruct kd; cbn [SX.ext_hdr_at] in HA; lia).
      set (s := (fst hp + k, take hl (drop k (snd hp)))).
      assert (Hs : subU hp k hl = Ok s).
      { unfold subU. destruct (k + hl <=? s_len hp) eqn:E; [reflexivity|lia]. }
      assert (Ls : s_len s = hl) by (apply (s_len_sub _ hp k hl); lia).
      assert (Rd : forall i, i < hl -> rdU s i = Ok (B bs (p0 + k + i))).
      { intros i Hi. rewrite (subU_rd hp k hl s i Hs Hi). rewrite Hrd by lia. now rewrite N.add_assoc. }
      rewrite <- N.add_assoc in CH.
      destruct (IH (k + hl) (B bs (p0 + k)) last CH ltac:(lia)) as (L & C & M).
      exists (item_of kd s :: L). split.
      + cbn [chain].
        assert (Es : ext_item_slice (item_of kd s) = s) by (destruct kd; reflexivity).
        rewrite Es, Ls. split; [subst first; destruct kd; reflexivity|].
        split.
        { destruct kd; cbn [item_of item_wf SX.ext_hdr_at] in *.
          - destruct HA as (HL & _). exists (B bs (p0 + k + 1)). split; [apply Rd; lia|]. now rewrite Ls.
          - destruct HA as (HL & _). exists (B bs (p0 + k + 1)). split; [apply Rd; lia|]. now rewrite Ls.
          - destruct HA as (HL & _). exists (B bs (p0 + k + 1)). split; [apply Rd; lia|]. now rewrite Ls.
          - destruct HA as (HL & _). unfold wf_frag. now rewrite Ls.
          - destruct HA as (NZ & HL & _). exists (B bs (p0 + k + 1)). split; [apply Rd; lia|].
            split; [lia|now rewrite Ls].
          - destruct HA as (HL & _). exists (B bs (p0 + k + 1)). split; [apply Rd; lia|]. now rewrite Ls. }
        split; [exact Hs|]. exists (B bs (p0 + k)). split.
        { rewrite (Rd 0) by lia. now rewrite N.add_0_r. }
        rewrite N.add_assoc. exact C.
      + cbn [map kinds fst]. f_equal; [destruct kd; reflexivity|exact M].
  Qed.
End BuildChain.

(* ---- the cut never happens when the byte-level chain meets no filled slot --------------------------- *)
Lemma exts_indep_of_chain bs sp pn l last :
  sliced_wf bs sp ->
  (forall v, sp_net sp = Some (NtIpv6 v) ->
     win_of (v6_header v) = (pn, 40) /\ win_of (x6_slice (v6_exts v)) = (pn + 40, PW.sum_len l)) ->
  SX.chain_full (B bs) (pn + 40) (B bs (pn + 6)) l last ->
  norefill fill_none (kinds l) = true ->
  is_ext_number last = false -> last <> IPN_HOP_BY_HOP ->
  exts_indep sp.
Proof.
  intros Wf Hwin CH NR FN N0 v nh hp Hnet Hnh Hex.
  destruct (Hwin v Hnet) as (Wh & Wx).
  destruct (v6_in_buf bs sp v Wf Hnet) as (Ih & Ix).
  (* the announced first number *)
  assert (Enh : nh = B bs (pn + 6)).
  { unfold Ipv6HeaderSlice.next_header in Hnh. unfold win_of in Wh. injection Wh as Wo Wl.
    rewrite (in_buf_rdU bs _ 6 Ih) in Hnh by lia. rewrite Wo in Hnh. now injection Hnh as <-. }
  subst nh.
  (* the extension area is the first `used` bytes of hp *)
  pose proof Hex as Hex'. unfold Cut.exts_from_slice in Hex'.
  binv Hex' st Est. destruct st as (rest0, nh0). binv Hex' w Ew. destruct w as ((ra, na), fa).
  binv Hex' used Eu. apply subN_inv in Eu. destruct Eu as (La & ->).
  binv Hex' s1 Es1. destruct (s_len hp - s_len ra <=? s_len hp) eqn:Eus; [|discriminate]. injection Es1 as <-.
  injection Hex' as Hxs _ _.
  set (used := s_len hp - s_len ra) in *.
  assert (EI : x6_slice (v6_exts v) = (fst hp, take used (snd hp))) by (rewrite <- Hxs; reflexivity).
  assert (Lu : used <= s_len hp) by lia.
  pose proof (pre_take hp used Lu) as PI. rewrite <- EI in PI.
  pose proof (pre_len _ _ _ PI) as LI.
  unfold win_of in Wx. injection Wx as Xo Xl. rewrite LI in Xl.
  assert (Hrd : forall i, i < used -> rdU hp i = Ok (B bs (pn + 40 + i))).
  { intros i Hi. rewrite <- (pre_rd used _ hp i PI Hi). rewrite (in_buf_rdU bs _ i Ix) by lia. now rewrite Xo. }
  destruct (build_chain bs hp (pn + 40) used Hrd Lu l 0 (B bs (pn + 6)) last) as (L & C & M).
  { now rewrite N.add_0_r. }
  { lia. }
  apply (exts_cutfree _ hp L _ last C); auto. now rewrite M.
Qed.

(* ---- assembly ---------------------------------------------------------------------------------------- *)
Lemma hagree_ok_view h cut sp hv : hagree h cut -> cut = Ok sp -> conv sp = Ok hv -> hvres_of_h h = HOk hv.
Proof. intros (A & _) -> Hc. rewrite A. cbn [hvres_of_s]. now rewrite Hc. Qed.
