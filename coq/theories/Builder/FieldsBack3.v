(* Builder/FieldsBack3.v -- property C10, audit round 3 (item 9), part 3: ARP, the IPv4 authentication
   header, the list `cfg_fields` of configured field values and the composition
     C10_crate_parse_back  o  C03_fields_from_*  o  evaluation of the field specification. *)
From Coq Require Import ZArith Lia ZifyN ZifyBool List.
From EP Require Import Base.Bytes Checksum.Spec Checksum.Model Checksum.Proofs.
From EP Require Import Checksum.ProtoTypes Checksum.ProtoSpec.
From EP Require Import Roundtrip.Common Roundtrip.CommonProofs.
From EP Require Roundtrip.Spec Roundtrip.SpecLinkNet Roundtrip.Tcp Roundtrip.TcpProofs Roundtrip.Ipv4 Roundtrip.Ipv4Proofs.
From EP Require CtlMsg.Spec CtlMsg.Model Roundtrip.Icmp4 Roundtrip.Icmp6.
From EP Require ExtChain.Spec ExtChain.Model ExtChain.View ExtChain.Proofs BitFields.Model.
From EP Require Import Parse.Types Parse.Slices Parse.Cursor Parse.View Parse.WireSpec.
From EP Require Parse.StrictProofs Parse.FieldsProofs Parse.Fields2 Parse.Fields2Proofs.
From EP Require Import Builder.Model Builder.Spec Builder.Proofs Builder.ProofsCk Builder.SpecX Builder.ProofsTr
  Builder.ProofsNx Builder.ProofsPb Builder.ProofsVal Builder.ProofsEx Builder.ProofsCrate.
From EP Require Import Parse.Fields.
From EP Require Import Builder.FieldsBack Builder.FieldsBack2.
Import ListNotations.
Local Open Scope N_scope.

Module XM := EP.ExtChain.Model.
Module XS := EP.ExtChain.Spec.
Module XV := EP.ExtChain.View.

(* ------------------------------------------------------------------ ARP *)
Definition arp_cfg (a : ArpPacket) : fl :=
  [(Fhw_type, FvN (arp_hw_addr_type a)); (Fproto_type, FvN (arp_proto_addr_type a));
   (Fhw_size, FvN (len (arp_sender_hw a))); (Fproto_size, FvN (len (arp_sender_proto a)));
   (Foperation, FvN (arp_operation a));
   (Fsender_hw, FvBytes (arp_sender_hw a)); (Fsender_proto, FvBytes (arp_sender_proto a));
   (Ftarget_hw, FvBytes (arp_target_hw a)); (Ftarget_proto, FvBytes (arp_target_proto a))].

Lemma bytes_n_pre_i (pre tl : bytes) p i n : p = len pre -> bytes_n (pre ++ tl) (p + i) n = bytes_n tl i n.
Proof.
  intros ->. unfold bytes_n. rewrite <- bytes_at_drop. rewrite ProofsCk.drop_front by reflexivity. reflexivity.
Qed.

Lemma arp_raw b0 b1 b2 b3 h q b6 b7 tl :
  arp_spec (b0 :: b1 :: b2 :: b3 :: h :: q :: b6 :: b7 :: tl) 0 =
  [(Fhw_type, FvN (be16 b0 b1)); (Fproto_type, FvN (be16 b2 b3)); (Fhw_size, FvN h); (Fproto_size, FvN q);
   (Foperation, FvN (be16 b6 b7)); (Fsender_hw, FvBytes (bytes_n tl 0 h)); (Fsender_proto, FvBytes (bytes_n tl (0 + h) q));
   (Ftarget_hw, FvBytes (bytes_n tl (0 + h + q) h)); (Ftarget_proto, FvBytes (bytes_n tl (0 + h + q + h) q))].
Proof.
  rewrite <- (bytes_n_pre_i [b0; b1; b2; b3; h; q; b6; b7] tl 8 0 h eq_refl).
  rewrite <- (bytes_n_pre_i [b0; b1; b2; b3; h; q; b6; b7] tl 8 (0 + h) q eq_refl).
  rewrite <- (bytes_n_pre_i [b0; b1; b2; b3; h; q; b6; b7] tl 8 (0 + h + q) h eq_refl).
  rewrite <- (bytes_n_pre_i [b0; b1; b2; b3; h; q; b6; b7] tl 8 (0 + h + q + h) q eq_refl).
  unfold arp_spec. cbv zeta. rewrite !N.add_assoc. reflexivity.
Qed.

Lemma arp_eval a rest : arp_wf a = true -> arp_spec (arp_to_bytes a ++ rest) 0 = arp_cfg a.
Proof.
  intros W. unfold arp_wf in W. bsplit W.
  unfold arp_to_bytes, u16_to_be. rewrite <- !app_assoc. cbn [app]. rewrite arp_raw.
  repeat match goal with X : _ < 65536 |- _ => rewrite (be16_u16 _ X); clear X end.
  set (sha := arp_sender_hw a) in *. set (spa := arp_sender_proto a) in *.
  set (tha := arp_target_hw a) in *. set (tpa := arp_target_proto a) in *.
  rewrite !N.add_0_l.
  rewrite (bytes_n_front sha) by reflexivity.
  rewrite (bytes_n_mid sha spa) by reflexivity.
  replace (sha ++ spa ++ tha ++ tpa ++ rest) with ((sha ++ spa) ++ tha ++ tpa ++ rest) by (now rewrite <- app_assoc).
  rewrite (bytes_n_mid (sha ++ spa) tha) by (rewrite ?len_app; lia).
  replace ((sha ++ spa) ++ tha ++ tpa ++ rest) with ((sha ++ spa ++ tha) ++ tpa ++ rest) by (now rewrite <- !app_assoc).
  rewrite (bytes_n_mid (sha ++ spa ++ tha) tpa) by (rewrite ?len_app; lia).
  reflexivity.
Qed.

(* ------------------------------------------------------------------ IP authentication header (RFC 4302) *)
Definition ah_cfg (a : XM.AuthH) : fl :=
  [(Fnext_header, FvN (XM.a_next_header a)); (Fpayload_len, FvN (XM.a_raw_icv_len a + 1));
   (Fspi, FvN (XM.a_spi a)); (Fseq, FvN (XM.a_sequence_number a)); (Ficv, FvBytes (XM.a_raw_icv a))].

Lemma ah_raw b0 b1 b2 b3 b4 b5 b6 b7 b8 b9 b10 b11 tl l :
  ah_spec (b0 :: b1 :: b2 :: b3 :: b4 :: b5 :: b6 :: b7 :: b8 :: b9 :: b10 :: b11 :: tl) 0 l =
  [(Fnext_header, FvN b0); (Fpayload_len, FvN b1); (Fspi, FvN (be_num [b4; b5; b6; b7]));
   (Fseq, FvN (be_num [b8; b9; b10; b11])); (Ficv, FvBytes (bytes_n tl 0 (l - 12)))].
Proof.
  rewrite <- (bytes_n_pre [b0; b1; b2; b3; b4; b5; b6; b7; b8; b9; b10; b11] tl 12 (l - 12) eq_refl).
  reflexivity.
Qed.

Lemma be_num_wire_u32 v : v < 4294967296 -> be_num (XS.wire_u32 v) = v.
Proof.
  intros H. unfold XS.wire_u32. rewrite <- (N.mod_small (v / 16777216) 256).
  - apply (be_num_u32 v H).
  - apply N.div_lt_upper_bound; lia.
Qed.

Lemma ah_eval a rest : XM.auth_valid a = true ->
  ah_spec (XV.auth_wire_bytes a ++ rest) 0 (XM.auth_header_len a) = ah_cfg a.
Proof.
  intros V. unfold XM.auth_valid in V. bsplit V.
  pose proof (be_num_wire_u32 (XM.a_spi a) ltac:(assumption)) as S1.
  pose proof (be_num_wire_u32 (XM.a_sequence_number a) ltac:(assumption)) as S2.
  unfold XV.auth_wire_bytes, XS.wire_auth_header, XS.wire_u32 in *. rewrite <- !app_assoc. cbn [app].
  rewrite ah_raw, S1, S2. unfold XM.auth_header_len.
  match goal with L : len (XM.a_raw_icv a) = _ |- _ => rename L into LI end.
  replace (12 + XM.a_raw_icv_len a * 4 - 12) with (len (XM.a_raw_icv a)) by lia.
  rewrite bytes_n_front by reflexivity. rewrite LI.
  replace ((12 + XM.a_raw_icv_len a * 4) / 4 - 2) with (XM.a_raw_icv_len a + 1).
  - reflexivity.
  - replace (12 + XM.a_raw_icv_len a * 4) with ((XM.a_raw_icv_len a + 3) * 4) by lia.
    rewrite N.div_mul by discriminate. lia.
Qed.

(* ------------------------------------------------------------------ the configured field values of a whole packet *)
Definition cfg_link_fields (c : cfg) : layers :=
  match c_link c with
  | LkNone => []
  | LkEthernet2 s d => [(LEth, eth_cfg s d (link_announces c))]
  | LkLinuxSll pt vl a => [(LSll, sll_cfg pt vl a (net_ether_type (c_net c)))]
  end.
Definition cfg_vlan_fields (c : cfg) : layers :=
  match c_vlan c with
  | VlNone => []
  | VlSingle v => [(LVlan, vlan_cfgf v (net_ether_type (c_net c)))]
  | VlDouble o i => [(LVlan, vlan_cfgf o 33024); (LVlan, vlan_cfgf i (net_ether_type (c_net c)))]
  end.
(* xf = the layers of the IPv6 extension headers *)
Definition cfg_net_fields (e : endian) (c : cfg) (plen : N) (xf : layers) : layers :=
  match c_net c with
  | NtIpv4 h x =>
      (LIpv4, ipv4_cfg (v4_final e h x (c_transport c) plen)) ::
      match XM.auth4 x with
      | Some a => [(LAuth, ah_cfg (XM.auth_set_next_header a (tr_ip_number (c_transport c))))]
      | None => []
      end
  | NtIpv6 h x => (LIpv6, ipv6_cfg (v6_final h x (c_transport c) plen)) :: xf
  | NtArp a => [(LArp, arp_cfg a)]
  end.
(* ck = the transport checksum (characterised by C10_checksums_verify) *)
Definition cfg_tr_fields (c : cfg) (plen ck : N) : layers :=
  match c_net c with
  | NtArp _ => []
  | _ =>
    if is_fragmented_x c then []
    else match c_transport c with
         | TrNone _ => []
         | TrUdp sp dp => [(LUdp, udp_cfg sp dp (8 + plen) ck)]
         | TrTcp t => [(LTcp, tcp_cfg t ck)]
         | TrIcmpv4 t => [(LIcmp4, icmp_cfg (icmp4_wire (c09_icmp4 t) 0) ck)]
         | TrIcmpv6 t => [(LIcmp6, icmp_cfg (icmp6_wire (c09_icmp6 t) 0) ck)]
         end
  end.
Definition cfg_fields (e : endian) (c : cfg) (plen ck : N) (xf : layers) : layers :=
  cfg_link_fields c ++ cfg_vlan_fields c ++ cfg_net_fields e c plen xf ++ cfg_tr_fields c plen ck.

(* the C03 field specification of the IPv6 extension area of a built packet: the chain walk from the
   number the IPv6 header announces, over [off_exts, off_exts + header_len) *)
Definition ext6_fields (bs : bytes) (c : cfg) : layers :=
  match c_net c with
  | NtIpv6 h x =>
      chain_spec bs (S (N.to_nat (XM.header_len x))) (snd (XM.set_next_headers x (tr_ip_number (c_transport c))))
                 (off_exts c) (off_exts c + XM.header_len x)
  | _ => []
  end.

Lemma at_enc (bs : bytes) off n : drop off bs = take n (drop off bs) ++ drop n (drop off bs).
Proof. symmetry. apply take_drop. Qed.

(* ------------------------------------------------------------------ the four parts *)
Lemma link_part e c p bs : cfg_wf c = true -> build e c p = BOk bs ->
  sopt (spec_link bs) (exp_link c (final_size c (len p))) = cfg_link_fields c.
Proof.
  intros W E. destruct (cfg_wf_inv c W) as (WL & WV & WN & WT & WS).
  destruct (layers_as_configured e c p bs W E) as (TL & _). cbv zeta in TL.
  pose proof (net_et_lt (c_net c)) as NE.
  unfold exp_link, cfg_link_fields, link_bytes, link_len in *.
  destruct (c_link c) as [|s d|pt vl a]; [reflexivity| |]; cbn [sopt spec_link fst]; cbn [link_wf] in WL; bsplit WL.
  - rewrite eth_shift, (at_enc bs 0 14), !drop_0, TL.
    rewrite eth_eval; [reflexivity|assumption|assumption|].
    unfold link_announces. destruct (c_vlan c); lia.
  - rewrite sll_shift, (at_enc bs 0 16), !drop_0, TL.
    rewrite sll_eval; [reflexivity|lia|assumption|assumption|exact NE].
Qed.

Lemma vlan_part e c p bs : cfg_wf c = true -> build e c p = BOk bs ->
  map (spec_ext bs) (exp_exts c (final_size c (len p))) = cfg_vlan_fields c.
Proof.
  intros W E. destruct (cfg_wf_inv c W) as (WL & WV & WN & WT & WS).
  destruct (layers_as_configured e c p bs W E) as (_ & TV & _). cbv zeta in TV.
  pose proof (net_et_lt (c_net c)) as NE.
  unfold exp_exts, cfg_vlan_fields, vlan_bytes, vlan_len in *.
  destruct (c_vlan c) as [|v|o i]; [reflexivity| |]; cbn [map spec_ext fst]; cbn [vlan_wf] in WV.
  - rewrite vlan_shift, (at_enc bs (off_vlan c) 4), TV.
    rewrite vlan_eval; [reflexivity|exact WV|exact NE].
  - apply andb_true_iff in WV. destruct WV as [WO WI].
    rewrite (vlan_shift bs (off_vlan c)), (vlan_shift bs (off_vlan c + 4)).
    assert (D4 : drop (off_vlan c + 4) bs = drop 4 (drop (off_vlan c) bs)) by (now rewrite drop_drop).
    rewrite D4. rewrite (at_enc bs (off_vlan c) (4 * 2)), TV. rewrite <- app_assoc.
    rewrite vlan_eval by (try exact WO; lia).
    rewrite ProofsCk.drop_front by reflexivity.
    rewrite vlan_eval by (try exact WI; exact NE). reflexivity.
Qed.

Lemma net_part e c p bs : cfg_wf c = true -> build e c p = BOk bs ->
  sopt (spec_net bs) (exp_net_x c (final_size c (len p))) = cfg_net_fields e c (len p) (ext6_fields bs c).
Proof.
  intros W E. destruct (cfg_wf_inv c W) as (WL & WV & WN & WT & WS).
  pose proof (tr_ip_number_lt _ WT) as NL.
  pose proof (layers_as_configured e c p bs W E) as LC. cbv zeta in LC. destruct LC as (_ & _ & LN & _).
  unfold exp_net_x, cfg_net_fields, ext6_fields.
  destruct (c_net c) as [h x|h x|a] eqn:EN; cbn [sopt spec_net fst snd]; cbn [net_wf] in WN.
  - apply andb_true_iff in WN. destruct WN as [WH WX].
    destruct (ipv4_consistent e c p bs h x W E EN) as (WF & EB & _ & _ & _ & _ & _ & _ & _ & _ & _ & _ & _ & OP & _).
    cbv zeta in WF, EB, OP.
    set (hf := v4_final e h x (c_transport c) (len p)) in *.
    assert (HL : Ipv4.ip4_header_len h = Ipv4.ip4_header_len hf) by (unfold Ipv4.ip4_header_len; now rewrite OP).
    f_equal.
    + f_equal. rewrite ipv4_shift, (at_enc bs (off_net c) (Ipv4.ip4_header_len h)). rewrite HL in *.
      apply (ipv4_eval hf _ _ WF EB).
    + destruct LN as (LX & _). unfold XM.exts4_valid in WX. unfold XM.header_len4, XM.set_next_headers4 in LX.
      destruct (XM.auth4 x) as [a|] eqn:EA; [|reflexivity]. cbn [XM.opt_valid] in WX. cbn [fst] in LX.
      pose proof (auth_set_valid a _ WX NL) as VA.
      set (a' := XM.auth_set_next_header a (tr_ip_number (c_transport c))) in *.
      change (XV.rfc_order_bytes4 (XM.mkExts4 (Some a'))) with (XV.auth_wire_bytes a' ++ []) in LX.
      rewrite app_nil_r in LX.
      cbn [fst snd]. rewrite ah_shift, (at_enc bs (off_exts c) (XM.auth_header_len a)), LX.
      change (XM.auth_header_len a) with (XM.auth_header_len a').
      rewrite (ah_eval a' _ VA). reflexivity.
  - apply andb_true_iff in WN. destruct WN as [WH WX].
    destruct (ipv6_consistent e c p bs h x W E EN) as (T40 & _ & PL & LT & NH & _). cbv zeta in T40, PL, NH.
    destruct (ip6_built_fields e c p bs h x W E EN) as (_ & _ & B6 & _).
    destruct (snh6_facts x _ WX NL) as (_ & SL & _).
    set (hf := v6_final h x (c_transport c) (len p)) in *.
    assert (WF : ip6_wf hf = true) by exact WH.
    f_equal.
    + f_equal. rewrite ipv6_shift, (at_enc bs (off_net c) 40), T40.
      apply ipv6_eval; [exact WF|rewrite PL; exact LT|rewrite NH; exact SL].
    + rewrite B6. reflexivity.
  - rewrite arp_shift, (at_enc bs (off_net c) (arp_packet_len a)), LN.
    rewrite (arp_eval a _ WN). reflexivity.
Qed.

Lemma tr_part e c p bs : cfg_wf c = true -> bytes_ok p -> build e c p = BOk bs ->
  exists ck, ck < 65536 /\
    (ck_pseudo c (len (drop (off_transport c) bs)) <> None -> is_fragmented_x c = false ->
     ck = W bs (off_transport c + ck_field_off (c_transport c))) /\
    sopt (spec_tr bs)
      (match c_net c with
       | NtArp _ => None
       | _ => if is_fragmented_x c then None else exp_transport c (final_size c (len p))
       end) = cfg_tr_fields c (len p) ck.
Proof.
  intros WFc OKP E. destruct (cfg_wf_inv c WFc) as (WL & WV & WN & WT & WS).
  pose proof (transport_is_rfc_layout e c p bs WFc E) as TL.
  pose proof (udp_consistent e c p bs) as UC.
  unfold cfg_tr_fields, exp_transport, ck_pseudo.
  assert (NA : (forall a, c_net c <> NtArp a) ->
    match th_of (c_transport c) (8 + len p) with
    | None => drop (off_transport c) bs = p
    | Some th => exists ck, ck < 65536 /\ drop (off_transport c) bs = th_wire th ck ++ p
    end).
  { intros H. destruct (c_net c); [exact TL|exact TL|exfalso; eapply H; reflexivity]. }
  assert (U8 : forall sp dp, c_transport c = TrUdp sp dp -> (forall a, c_net c <> NtArp a) -> 8 + len p < 65536).
  { intros sp dp ET H. specialize (UC sp dp WFc OKP E ET). destruct (c_net c); [exact (proj1 UC)|exact (proj1 UC)|].
    exfalso; eapply H; reflexivity. }
  assert (MAIN : (forall a, c_net c <> NtArp a) -> exists ck, ck < 65536 /\
     (match c_transport c with TrNone _ => False | _ => True end ->
      ck = W bs (off_transport c + ck_field_off (c_transport c))) /\
     sopt (spec_tr bs)
       (match c_transport c with
        | TrNone _ => None
        | TrUdp _ _ => Some (VUdp (off_transport c, final_size c (len p) - off_transport c))
        | TrTcp h => Some (VTcp (Tcp.header_len h) (off_transport c, final_size c (len p) - off_transport c))
        | TrIcmpv4 _ => Some (VIcmpv4 (off_transport c, final_size c (len p) - off_transport c))
        | TrIcmpv6 _ => Some (VIcmpv6 (off_transport c, final_size c (len p) - off_transport c))
        end) =
     match c_transport c with
     | TrNone _ => []
     | TrUdp sp dp => [(LUdp, udp_cfg sp dp (8 + len p) ck)]
     | TrTcp t => [(LTcp, tcp_cfg t ck)]
     | TrIcmpv4 t => [(LIcmp4, icmp_cfg (icmp4_wire (c09_icmp4 t) 0) ck)]
     | TrIcmpv6 t => [(LIcmp6, icmp_cfg (icmp6_wire (c09_icmp6 t) 0) ck)]
     end).
  { intros H. specialize (NA H).
    destruct (c_transport c) as [n|sp dp|t|k|k] eqn:ET; cbn [th_of icmp4_of icmp6_of option_map] in NA;
      cbn [sopt spec_tr fst tr_wf ck_field_off] in *.
    - exists 0. split; [lia|]. split; [intros []|reflexivity].
    - destruct NA as (ck & CK & D). exists ck. split; [exact CK|]. bsplit WT.
      pose proof (U8 sp dp eq_refl H) as L8. split.
      + intros _. rewrite <- W_drop, D. unfold th_wire, udp_wire, w16, to_be16. cbn [app u_sport u_dport u_length].
        unfold W. change (B _ 6) with ((ck / 256) mod 256). change (B _ (6 + 1)) with (ck mod 256).
        symmetry. apply (be16_u16 _ CK).
      + rewrite udp_shift, D. cbn [th_wire]. rewrite udp_eval by assumption. reflexivity.
    - destruct NA as (ck & CK & D). exists ck. split; [exact CK|]. split.
      + intros _. rewrite <- W_drop, D. cbn [th_wire]. unfold tcp_wire, w16, w32, to_be16, to_be32.
        rewrite <- !app_assoc. cbn [app]. unfold W. change (B _ 16) with ((ck / 256) mod 256).
        change (B _ (16 + 1)) with (ck mod 256). symmetry. apply (be16_u16 _ CK).
      + rewrite tcp_shift, D. cbn [th_wire]. rewrite (tcp_eval t ck p WT CK). reflexivity.
    - destruct NA as (ck & CK & D). exists ck. split; [exact CK|]. split.
      + intros _. rewrite <- W_drop, D. cbn [th_wire].
        pose proof (icmp4_eval (c09_icmp4 k) ck p CK) as EV.
        unfold icmp_spec, icmp_cfg in EV. injection EV as _ _ EV _.
        symmetry. exact EV.
      + rewrite icmp_shift, D. cbn [th_wire]. rewrite (icmp4_eval _ ck p CK). reflexivity.
    - destruct NA as (ck & CK & D). exists ck. split; [exact CK|]. split.
      + intros _. rewrite <- W_drop, D. cbn [th_wire].
        pose proof (icmp6_eval (c09_icmp6 k) ck p CK) as EV.
        unfold icmp_spec, icmp_cfg in EV. injection EV as _ _ EV _.
        symmetry. exact EV.
      + rewrite icmp_shift, D. cbn [th_wire]. rewrite (icmp6_eval _ ck p CK). reflexivity. }
  destruct (c_net c) as [h x|h x|a] eqn:EN.
  - destruct (MAIN ltac:(intros a; discriminate)) as (ck & CK & CW & M). exists ck. split; [exact CK|]. split.
    + intros PS FR. apply CW. destruct (c_transport c); try exact I. exfalso. apply PS. reflexivity.
    + destruct (is_fragmented_x c); [reflexivity|exact M].
  - destruct (MAIN ltac:(intros a; discriminate)) as (ck & CK & CW & M). exists ck. split; [exact CK|]. split.
    + intros PS FR. apply CW. destruct (c_transport c); try exact I. exfalso. apply PS. reflexivity.
    + destruct (is_fragmented_x c); [reflexivity|exact M].
  - exists 0. split; [lia|]. split; [|reflexivity]. intros PS. exfalso. apply PS. reflexivity.
Qed.

(* ------------------------------------------------------------------ the field specification on a built packet *)
Theorem spec_fields_built e c p bs : cfg_wf c = true -> bytes_ok p -> build e c p = BOk bs ->
  exists ck, ck < 65536 /\
    (ck_pseudo c (len (drop (off_transport c) bs)) <> None -> is_fragmented_x c = false ->
     ck = WireSpec.W bs (off_transport c + ck_field_off (c_transport c))) /\
    spec_fields bs (expected_x c (len p)) = cfg_fields e c (len p) ck (ext6_fields bs c).
Proof.
  intros WFc OKP E. destruct (tr_part e c p bs WFc OKP E) as (ck & CK & CW & TP).
  exists ck. split; [exact CK|]. split; [exact CW|].
  unfold spec_fields, expected_x, cfg_fields. cbv zeta. cbn [v_link v_exts v_net v_transport].
  rewrite (link_part e c p bs WFc E), (vlan_part e c p bs WFc E), (net_part e c p bs WFc E), TP. reflexivity.
Qed.

(* no IPv6 extension headers configured *)
Definition v6_exts_len (c : cfg) : N :=
  match c_net c with NtIpv6 _ x => XM.header_len x | _ => 0 end.

Lemma ext6_fields_none bs c : v6_exts_len c = 0 -> ext6_fields bs c = [].
Proof.
  unfold v6_exts_len, ext6_fields. destruct (c_net c) as [h x|h x|a]; try reflexivity.
  intros ->. cbn [N.to_nat chain_spec]. rewrite N.add_0_r.
  destruct (off_exts c <=? off_exts c) eqn:C; [reflexivity|]. apply N.leb_gt in C. lia.
Qed.

(* the transport checksum value: the RFC 1071 value over pseudo header ++ segment with the field zeroed *)
Definition ck_is_rfc (c : cfg) (bs : bytes) (ck : N) : Prop :=
  let seg := drop (off_transport c) bs in
  forall ph, ck_pseudo c (len seg) = Some ph -> is_fragmented_x c = false ->
    ck = ck_value (c_transport c) (rfc1071 (ph ++ zero16_at (ck_field_off (c_transport c)) seg)).

Lemma ck_rfc e c p bs ck : cfg_wf c = true -> bytes_ok p -> build e c p = BOk bs ->
  (ck_pseudo c (len (drop (off_transport c) bs)) <> None -> is_fragmented_x c = false ->
   ck = WireSpec.W bs (off_transport c + ck_field_off (c_transport c))) ->
  ck_is_rfc c bs ck.
Proof.
  intros WFc OKP E CW. unfold ck_is_rfc. cbv zeta. intros ph PH FR.
  pose proof (checksums_verify e c p bs WFc OKP E) as CV. cbv zeta in CV. rewrite PH in CV.
  destruct CV as (_ & _ & _ & _ & CV). rewrite <- CV. apply CW; [rewrite PH; discriminate|exact FR].
Qed.

(* ------------------------------------------------------------------ composition with C03 and C10_crate_parse_back *)
Theorem crate_fields_back_partial e c p bs :
  cfg_wf c = true -> bytes_ok p -> payload_admitted c (len p) = true -> build e c p = BOk bs ->
  exists sp ck, crate_entry c bs = Ok sp /\ view sp = expected_x c (len p) /\
    ck < 65536 /\ ck_is_rfc c bs ck /\
    fields_of_packet sp = Ok (cfg_fields e c (len p) ck (ext6_fields bs c)).
Proof.
  intros WFc OKP PA E. pose proof (build_bytes_ok e c p bs WFc OKP E) as OKB.
  destruct (crate_parse_back e c p bs WFc OKP PA E) as (sp & CE & V).
  destruct (spec_fields_built e c p bs WFc OKP E) as (ck & CK & CW & SF).
  exists sp, ck. split; [exact CE|]. split; [exact V|]. split; [exact CK|].
  split; [exact (ck_rfc e c p bs ck WFc OKP E CW)|].
  rewrite <- SF, <- V. unfold crate_entry in CE.
  destruct (c_link c).
  - exact (Parse.FieldsProofs.fields_from_ip bs sp OKB CE).
  - exact (Parse.FieldsProofs.fields_from_ethernet bs sp OKB CE).
  - exact (Parse.FieldsProofs.fields_from_linux_sll bs sp OKB CE).
Qed.

Theorem crate_fields_back e c p bs :
  cfg_wf c = true -> bytes_ok p -> payload_admitted c (len p) = true -> build e c p = BOk bs ->
  v6_exts_len c = 0 ->
  exists sp ck, crate_entry c bs = Ok sp /\ view sp = expected_x c (len p) /\
    ck < 65536 /\ ck_is_rfc c bs ck /\
    fields_of_packet sp = Ok (cfg_fields e c (len p) ck []).
Proof.
  intros WFc OKP PA E NX. destruct (crate_fields_back_partial e c p bs WFc OKP PA E) as (sp & ck & H).
  exists sp, ck. rewrite (ext6_fields_none bs c NX) in H. exact H.
Qed.

(* the fourth entry point: a packet built without link layer through SlicedPacket::from_ether_type *)
Theorem crate_fields_back_ether_type e c p bs :
  cfg_wf c = true -> bytes_ok p -> payload_admitted c (len p) = true -> build e c p = BOk bs ->
  c_link c = LkNone ->
  exists sp ck, SlicedPacket.from_ether_type (net_ether_type (c_net c)) bs = Ok sp /\
    ck < 65536 /\ ck_is_rfc c bs ck /\
    fields_of_packet sp = Ok (cfg_fields e c (len p) ck (ext6_fields bs c)).
Proof.
  intros WFc OKP PA E LK. pose proof (build_bytes_ok e c p bs WFc OKP E) as OKB.
  destruct (crate_parse_back_ether_type e c p bs WFc OKP PA E LK) as (sp & CE & V). cbv zeta in V.
  destruct (spec_fields_built e c p bs WFc OKP E) as (ck & CK & CW & SF).
  exists sp, ck. split; [exact CE|]. split; [exact CK|].
  split; [exact (ck_rfc e c p bs ck WFc OKP E CW)|].
  rewrite (Parse.FieldsProofs.fields_from_ether_type bs _ sp OKB CE), V, <- SF.
  unfold spec_fields, expected_x, exp_link. cbv zeta. cbn [v_link v_exts v_net v_transport]. rewrite LK. reflexivity.
Qed.
