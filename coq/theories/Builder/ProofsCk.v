(* Builder/ProofsCk.v -- property C10, part 2: every checksum the builder stores
   verifies at a receiver (RFC 1071: the one's complement sum over the covered
   bytes, pseudo header included, folds to 0xffff), a computed UDP checksum is
   never transmitted as 0, and the length fields are not truncated.
   The stored values are Sum16BitWords call sequences; C09 (checksum64_rfc1071)
   turns them into rfc1071 of the bytes the calls cover. *)
From EP Require Import Base.Bytes Checksum.Spec Checksum.Model Checksum.Proofs.
From EP Require Import Roundtrip.Common Roundtrip.CommonProofs.
From EP Require Roundtrip.Tcp Roundtrip.TcpProofs Roundtrip.Ipv4 Roundtrip.Ipv4Proofs.
From EP Require ExtChain.Spec ExtChain.Model ExtChain.Proofs BitFields.Model.
From EP Require Import Builder.Model Builder.Spec Builder.Proofs.
From Coq Require Import ZArith Lia ZifyN ZifyBool.
Local Open Scope N_scope.

(* hide div/mod terms from lia *)
Ltac absdm :=
  repeat match goal with
         | |- context [?x mod 256] => let v := fresh "v" in set (v := x mod 256) in *; clearbody v
         | H : context [?x mod 256] |- _ => let v := fresh "v" in set (v := x mod 256) in *; clearbody v
         end.

(* ------------------------------------------------------------------ RFC 1071 arithmetic *)
Lemma fold16_complement Sm : fold16 (Sm + (65535 - fold16 Sm)) = 65535.
Proof.
  unfold fold16. destruct (N.eqb_spec Sm 0) as [E|E].
  - subst Sm. reflexivity.
  - destruct (N.eqb_spec (Sm + (65535 - ((Sm - 1) mod 65535 + 1))) 0) as [E2|E2]; dmlia.
Qed.
Lemma fold16_ffff_plus Sm : fold16 Sm = 65535 -> fold16 (Sm + 65535) = 65535.
Proof.
  unfold fold16. destruct (N.eqb_spec Sm 0) as [E|E]; [lia|].
  destruct (N.eqb_spec (Sm + 65535) 0) as [E2|E2]; dmlia.
Qed.

Lemma even_len_explicit2 a b (r : bytes) : even_len r -> even_len (a :: b :: r).
Proof. unfold even_len. cbn [length Nat.even]. auto. Qed.
Lemma even_len_nil : even_len []. Proof. reflexivity. Qed.
Lemma even_len_of_len (l : bytes) n : len l = 2 * n -> even_len l.
Proof.
  unfold even_len, len. intros H. assert (E : length l = (2 * N.to_nat n)%nat) by lia.
  rewrite E. rewrite Nat.even_mul. reflexivity.
Qed.

Lemma sum_u16 v : v < 65536 -> sum_be16 (u16_to_be v) = v.
Proof. intros H. unfold u16_to_be. rewrite sum2. apply u16_be_roundtrip. exact H. Qed.

(* a stored checksum that is the RFC value over the other words (or its
   non-zero stand-in 0xffff) makes the receiver's sum fold to 0xffff *)
Lemma verifies_of_stored pre tl ck : even_len pre -> ck < 65536 ->
  (ck = 65535 - fold16 (sum_be16 pre + sum_be16 tl) \/
   (ck = 65535 /\ fold16 (sum_be16 pre + sum_be16 tl) = 65535)) ->
  folds_to_ffff (pre ++ u16_to_be ck ++ tl) = true.
Proof.
  intros E L H. unfold folds_to_ffff. apply N.eqb_eq.
  rewrite sum_be16_app by exact E.
  rewrite sum_be16_app by reflexivity. rewrite sum_u16 by exact L.
  replace (sum_be16 pre + (ck + sum_be16 tl)) with ((sum_be16 pre + sum_be16 tl) + ck) by lia.
  destruct H as [H|[H1 H2]].
  - rewrite H. apply fold16_complement.
  - rewrite H1. apply fold16_ffff_plus. exact H2.
Qed.

(* the two forms in which the builder stores a checksum *)
Lemma stored_plain e ps Sm : Forall piece_ok ps -> pieces_aligned ps -> sum_be16 (pieces_bytes ps) = Sm ->
  checksum64 e ps = 65535 - fold16 Sm.
Proof. intros A B C. rewrite (checksum64_rfc1071 e ps A B). unfold rfc1071. rewrite C. reflexivity. Qed.
Lemma stored_no_zero e ps Sm : Forall piece_ok ps -> pieces_aligned ps -> sum_be16 (pieces_bytes ps) = Sm ->
  let ck := checksum64_no_zero e ps in
  ck <> 0 /\ (ck = 65535 - fold16 Sm \/ (ck = 65535 /\ fold16 Sm = 65535)).
Proof.
  intros A B C. cbv zeta. rewrite (checksum64_no_zero_spec e ps A B). unfold rfc1071. rewrite C.
  pose proof (fold16_range Sm) as R.
  destruct (N.eqb_spec (65535 - fold16 Sm) 0) as [E|E].
  - split; [lia|]. right. split; [reflexivity|lia].
  - split; [exact E|]. left. reflexivity.
Qed.

Lemma byte_hi v : (v / 256) mod 256 < 256. Proof. apply N.mod_lt. lia. Qed.
Lemma byte_lo v : v mod 256 < 256. Proof. apply N.mod_lt. lia. Qed.
Lemma piece_ok_p2be v : piece_ok (p2be v).
Proof.
  unfold p2be, piece_ok. split; [|exact I]. cbn [piece_bytes].
  repeat (apply bytes_ok_explicit_cons; [first [apply byte_hi|apply byte_lo]|]). apply bytes_ok_nil.
Qed.
Lemma piece_ok_p2 a b : a < 256 -> b < 256 -> piece_ok (P2 a b).
Proof.
  intros A B. split; [|exact I]. cbn [piece_bytes].
  repeat (apply bytes_ok_explicit_cons; [assumption|]). apply bytes_ok_nil.
Qed.
Lemma piece_ok_p4 a b c d : a < 256 -> b < 256 -> c < 256 -> d < 256 -> piece_ok (P4 a b c d).
Proof.
  intros A B C D. split; [|exact I]. cbn [piece_bytes].
  repeat (apply bytes_ok_explicit_cons; [assumption|]). apply bytes_ok_nil.
Qed.
Lemma piece_ok_slice bs : bytes_ok bs -> piece_ok (PSlice bs).
Proof. intros H. split; [exact H|exact I]. Qed.
Lemma piece_ok_p16 bs : bytes_ok bs -> len bs = 16 -> piece_ok (P16 bs).
Proof. intros H L. split; [exact H|]. unfold len in L. lia. Qed.

Lemma sum_p2be v : v < 65536 -> sum_be16 [(v / 256) mod 256; v mod 256] = v.
Proof. intros H. rewrite sum2. apply u16_be_roundtrip. exact H. Qed.

(* ------------------------------------------------------------------ UDP (RFC 768) *)
Section Udp.
  Variables (e : endian) (sp dp l : N) (p : bytes).
  Hypothesis (Hsp : sp < 65536) (Hdp : dp < 65536) (Hl : l < 65536) (Hp : bytes_ok p).

  Lemma udp4_verifies s0 s1 s2 s3 d0 d1 d2 d3 :
    bytes_ok [s0; s1; s2; s3] -> bytes_ok [d0; d1; d2; d3] ->
    let ck := checksum64_no_zero e ([P4 s0 s1 s2 s3; P4 d0 d1 d2 d3; P2 0 17; p2be l] ++ udp_post sp dp l p) in
    ck <> 0 /\
    folds_to_ffff (pseudo4 [s0; s1; s2; s3] [d0; d1; d2; d3] 17 l ++ udp_to_bytes sp dp l ck ++ p) = true.
  Proof.
    intros BS BD. cbv zeta.
    set (ps := [P4 s0 s1 s2 s3; P4 d0 d1 d2 d3; P2 0 17; p2be l] ++ udp_post sp dp l p).
    set (Sm := be16 s0 s1 + be16 s2 s3 + (be16 d0 d1 + be16 d2 d3) + 17 + l + sp + dp + l + sum_be16 p).
    assert (OK : Forall piece_ok ps).
    { subst ps. unfold udp_post. cbn [app]. bytes_ok_split BS. bytes_ok_split BD.
      repeat (apply Forall_cons); try apply piece_ok_p2be; try (apply piece_ok_p4; assumption);
        try (apply piece_ok_p2; lia); try (apply piece_ok_slice; assumption). apply Forall_nil. }
    assert (AL : pieces_aligned ps).
    { subst ps. unfold udp_post. cbn. intuition reflexivity. }
    assert (SUM : sum_be16 (pieces_bytes ps) = Sm).
    { subst ps Sm. unfold udp_post, pieces_bytes, p2be. cbn [app map concat piece_bytes].
      rewrite !sum_be16_cons2. rewrite app_nil_r.
      pose proof (u16_be_roundtrip l Hl) as R1. pose proof (u16_be_roundtrip sp Hsp) as R2.
      pose proof (u16_be_roundtrip dp Hdp) as R3. unfold be16 in *. absdm. clear - R1 R2 R3. lia. }
    destruct (stored_no_zero e ps Sm OK AL SUM) as (NZ & ST). split; [exact NZ|].
    set (ck := checksum64_no_zero e ps) in *.
    unfold pseudo4, udp_to_bytes, be16b.
    replace (([s0; s1; s2; s3] ++ [d0; d1; d2; d3] ++ [0; 17] ++ [(l / 256) mod 256; l mod 256]) ++
             (u16_to_be sp ++ u16_to_be dp ++ u16_to_be l ++ u16_to_be ck) ++ p)
      with (([s0; s1; s2; s3; d0; d1; d2; d3; 0; 17; (l / 256) mod 256; l mod 256] ++
             u16_to_be sp ++ u16_to_be dp ++ u16_to_be l) ++ u16_to_be ck ++ p)
      by (cbn [app u16_to_be]; reflexivity).
    apply verifies_of_stored.
    - reflexivity.
    - pose proof (checksum64_no_zero_le e ps). subst ck. lia.
    - replace (sum_be16 ([s0; s1; s2; s3; d0; d1; d2; d3; 0; 17; (l / 256) mod 256; l mod 256] ++
                         u16_to_be sp ++ u16_to_be dp ++ u16_to_be l) + sum_be16 p) with Sm; [exact ST|].
      subst Sm. cbn [app u16_to_be]. rewrite !sum_be16_cons2. cbn [sum_be16].
      pose proof (u16_be_roundtrip l Hl) as R1. pose proof (u16_be_roundtrip sp Hsp) as R2.
      pose proof (u16_be_roundtrip dp Hdp) as R3. rewrite ?sum_u16 by assumption. unfold be16 in *. absdm. lia.
  Qed.
End Udp.

(* ------------------------------------------------------------------ UDP over IPv6 (RFC 8200 8.1) *)
Lemma sum_be32b l : l < 65536 -> sum_be16 (be32b l) = l.
Proof.
  intros H. unfold be32b. rewrite sum4.
  replace ((l / 16777216) mod 256) with 0 by (symmetry; dmlia).
  replace ((l / 65536) mod 256) with 0 by (symmetry; dmlia).
  pose proof (u16_be_roundtrip l H) as R. unfold be16 in *. lia.
Qed.

Lemma udp6_verifies e sp dp l p s d :
  sp < 65536 -> dp < 65536 -> l < 65536 -> bytes_ok p ->
  bytes_ok s -> bytes_ok d -> len s = 16 -> len d = 16 ->
  let ck := checksum64_no_zero e ([P16 s; P16 d; P2 0 17; p2be l] ++ udp_post sp dp l p) in
  ck <> 0 /\ folds_to_ffff (pseudo6 s d l 17 ++ udp_to_bytes sp dp l ck ++ p) = true.
Proof.
  intros Hsp Hdp Hl Hp BS BD LS LD. cbv zeta.
  set (ps := [P16 s; P16 d; P2 0 17; p2be l] ++ udp_post sp dp l p).
  set (Sm := sum_be16 s + sum_be16 d + 17 + l + sp + dp + l + sum_be16 p).
  assert (ES : even_len s) by (apply (even_len_of_len s 8); rewrite LS; reflexivity).
  assert (ED : even_len d) by (apply (even_len_of_len d 8); rewrite LD; reflexivity).
  assert (OK : Forall piece_ok ps).
  { subst ps. unfold udp_post. cbn [app].
    repeat (apply Forall_cons); try apply piece_ok_p2be; try (apply piece_ok_p16; assumption);
      try (apply piece_ok_p2; lia); try (apply piece_ok_slice; assumption). apply Forall_nil. }
  assert (AL : pieces_aligned ps).
  { subst ps. unfold udp_post. cbn [app pieces_aligned piece_bytes p2be]. intuition (try reflexivity; assumption). }
  assert (SUM : sum_be16 (pieces_bytes ps) = Sm).
  { subst ps Sm. unfold udp_post, pieces_bytes, p2be. cbn [app map concat piece_bytes].
    rewrite (sum_be16_app s) by exact ES. rewrite (sum_be16_app d) by exact ED.
    cbn [app]. rewrite !sum_be16_cons2. rewrite app_nil_r.
    pose proof (u16_be_roundtrip l Hl) as R1. pose proof (u16_be_roundtrip sp Hsp) as R2.
    pose proof (u16_be_roundtrip dp Hdp) as R3. unfold be16 in *. absdm. lia. }
  destruct (stored_no_zero e ps Sm OK AL SUM) as (NZ & ST). split; [exact NZ|].
  set (ck := checksum64_no_zero e ps) in *.
  unfold pseudo6, udp_to_bytes.
  replace ((s ++ d ++ be32b l ++ [0; 0; 0; 17]) ++
           (u16_to_be sp ++ u16_to_be dp ++ u16_to_be l ++ u16_to_be ck) ++ p)
    with ((s ++ d ++ be32b l ++ [0; 0; 0; 17] ++ u16_to_be sp ++ u16_to_be dp ++ u16_to_be l)
          ++ u16_to_be ck ++ p)
    by (rewrite <- !app_assoc; reflexivity).
  apply verifies_of_stored.
  - unfold even_len. rewrite !app_length. unfold len in LS, LD.
    replace (length s) with 16%nat by lia. replace (length d) with 16%nat by lia. reflexivity.
  - pose proof (checksum64_no_zero_le e ps). subst ck. lia.
  - replace (sum_be16 (s ++ d ++ be32b l ++ [0; 0; 0; 17] ++ u16_to_be sp ++ u16_to_be dp ++ u16_to_be l)
             + sum_be16 p) with Sm; [exact ST|].
    subst Sm. rewrite (sum_be16_app s) by exact ES. rewrite (sum_be16_app d) by exact ED.
    rewrite (sum_be16_app (be32b l)) by reflexivity. rewrite sum_be32b by exact Hl.
    rewrite (sum_be16_app [0; 0; 0; 17]) by reflexivity.
    rewrite (sum_be16_app (u16_to_be sp)) by reflexivity.
    rewrite (sum_be16_app (u16_to_be dp)) by reflexivity.
    rewrite !sum_u16 by assumption. rewrite sum4. unfold be16. lia.
Qed.

(* ------------------------------------------------------------------ IPv4 header checksum (RFC 791) *)
Import Roundtrip.Ipv4 Roundtrip.Ipv4Proofs.

Lemma ip4_header_verifies e h : wf_ip4 h = true ->
  exists ck hb, ip4_calc_checksum e h = Some ck /\ ck < 65536 /\
    ip4_to_bytes (ip4_set_checksum h ck) = Some hb /\ folds_to_ffff hb = true.
Proof.
  intros W. destruct (wf_ip4_facts h W) as ((R1 & R2 & R3 & R4) & (R5 & R6 & R7 & R8) & (LS & OS & LD & OD) & WO).
  destruct (wf_i4o_facts _ WO) as (OL & OM & BL & BO).
  destruct (len4_explicit _ LS OS) as (s0 & s1 & s2 & s3 & ES & S0 & S1 & S2 & S3).
  destruct (len4_explicit _ LD OD) as (d0 & d1 & d2 & d3 & ED & D0 & D1 & D2 & D3).
  destruct (ip4_calc_checksum_some e h W) as (ck & ECK & LCK).
  pose proof (wf_set_checksum h ck W LCK) as W2.
  destruct (ip4_to_bytes_wf _ W2) as (f & EF & ET).
  destruct (fixed_wf (ip4_set_checksum h ck) ck W2) as (f' & EF' & _ & t0 & t1 & t2 & t3 & u0 & u1 & u2 & u3 & ES' & ED' & FX).
  cbn [ip4_set_checksum i4_header_checksum] in EF. rewrite EF in EF'. apply Some_inj in EF'. subst f'.
  cbn [ip4_set_checksum i4_source i4_destination] in ES', ED'. rewrite ES in ES'. rewrite ED in ED'.
  inversion ES'; inversion ED'; subst t0 t1 t2 t3 u0 u1 u2 u3.
  exists ck. eexists. split; [exact ECK|]. split; [exact LCK|]. split; [exact ET|].
  set (o := take (i4o_len (i4_options h)) (i4o_buf (i4_options h))).
  assert (LO : len o = i4o_len (i4_options h)) by (apply len_take_i4o; exact WO).
  assert (EO : even_len o).
  { apply (even_len_of_len o (i4o_len (i4_options h) / 2)). rewrite LO. clear - OM. dmlia. }
  assert (BOo : bytes_ok o) by (apply bytes_ok_take; exact BO).
  (* byte ranges of the packed bytes *)
  destruct (b0_dec (i4o_len (i4_options h)) OL OM) as (_ & _ & _ & A4 & _).
  destruct (b1_dec (i4_dscp h) (i4_ecn h) R1 R2) as (_ & _ & B3 & _).
  pose proof (frag_hi _ R5) as HI.
  destruct (b6_dec (i4_dont_fragment h) (i4_more_fragments h) _ HI) as (_ & _ & _ & C4 & _).
  rewrite <- byte0_is in A4. rewrite <- byte1_is in B3. rewrite <- byte6_is in C4. cbv zeta in *.
  assert (B7 : ip4_byte7 h < 256) by (unfold ip4_byte7; apply N.mod_lt; lia).
  (* the stored value *)
  unfold ip4_calc_checksum in ECK. rewrite ES, ED, (i4o_as_slice_wf _ WO) in ECK. fold o in ECK.
  apply Some_inj in ECK.
  set (ps := [P2 (ip4_byte0 h) (ip4_byte1 h);
              P2 ((i4_total_len h / 256) mod 256) (i4_total_len h mod 256);
              P2 ((i4_identification h / 256) mod 256) (i4_identification h mod 256);
              P2 (ip4_byte6 h) (ip4_byte7 h); P2 (i4_time_to_live h) (i4_protocol h);
              P4 s0 s1 s2 s3; P4 d0 d1 d2 d3; PSlice o]) in *.
  set (pre := [ip4_byte0 h; ip4_byte1 h; (i4_total_len h / 256) mod 256; i4_total_len h mod 256;
               (i4_identification h / 256) mod 256; i4_identification h mod 256;
               ip4_byte6 h; ip4_byte7 h; i4_time_to_live h; i4_protocol h]).
  set (tl := [s0; s1; s2; s3; d0; d1; d2; d3] ++ o).
  assert (OK : Forall piece_ok ps).
  { subst ps. repeat (apply Forall_cons); try (apply piece_ok_p2; first [assumption|apply byte_hi|apply byte_lo]);
      try (apply piece_ok_p4; assumption); try (apply piece_ok_slice; assumption). apply Forall_nil. }
  assert (AL : pieces_aligned ps).
  { subst ps. cbn [pieces_aligned piece_bytes]. intuition reflexivity. }
  assert (SUM : sum_be16 (pieces_bytes ps) = sum_be16 pre + sum_be16 tl).
  { subst ps pre tl. unfold pieces_bytes. cbn [map concat piece_bytes app].
    rewrite app_nil_r. rewrite !sum_be16_cons2. cbn [sum_be16]. lia. }
  pose proof (stored_plain e ps _ OK AL SUM) as ST. rewrite ECK in ST.
  rewrite FX. cbn [ip4_set_checksum i4_total_len i4_identification i4_time_to_live i4_protocol].
  change (ip4_byte0 (ip4_set_checksum h ck)) with (ip4_byte0 h).
  change (ip4_byte1 (ip4_set_checksum h ck)) with (ip4_byte1 h).
  change (ip4_byte6 (ip4_set_checksum h ck)) with (ip4_byte6 h).
  change (ip4_byte7 (ip4_set_checksum h ck)) with (ip4_byte7 h).
  cbn [ip4_set_checksum i4_options]. fold o.
  change ([ip4_byte0 h; ip4_byte1 h; (i4_total_len h / 256) mod 256; i4_total_len h mod 256;
           (i4_identification h / 256) mod 256; i4_identification h mod 256; ip4_byte6 h; ip4_byte7 h;
           i4_time_to_live h; i4_protocol h; (ck / 256) mod 256; ck mod 256;
           s0; s1; s2; s3; d0; d1; d2; d3] ++ o)
    with (pre ++ u16_to_be ck ++ tl).
  apply verifies_of_stored; [reflexivity|exact LCK|left; exact ST].
Qed.

(* ------------------------------------------------------------------ the bytes of a successful build *)
Lemma build_ok_shape e c p bs : cfg_wf c = true -> build e c p = BOk bs ->
  let t := c_transport c in
  let pre := link_bytes c ++ vlan_bytes c in
  len pre = off_net c /\
  match c_net c with
  | NtIpv4 h x =>
      v4_value x t (len p) <= v4_max h /\
      exists hb xb tb, bs = pre ++ hb ++ xb ++ tb ++ p /\
        ip4_to_bytes (v4_final e h x t (len p)) = Some hb /\ len hb = ip4_header_len h /\
        len xb = XM.header_len4 x /\ len tb = tr_header_len t /\
        tr_ipv4 e (i4_source h) (i4_destination h) t (as_u16 (8 + len p)) p = TOk tb
  | NtIpv6 h x =>
      v6_size x t (len p) <= 65535 /\
      exists xb tb, bs = pre ++ BitFields.Model.Ipv6Header_to_bytes (v6_final h x t (len p)) ++ xb ++ tb ++ p /\
        len xb = XM.header_len x /\ len tb = tr_header_len t /\
        tr_ipv6 e (BitFields.Model.v6_source h) (BitFields.Model.v6_destination h) t (as_u16 (8 + len p)) p = TOk tb
  | NtArp a => bs = pre ++ arp_to_bytes a ++ p
  end.
Proof.
  intros W E. cbv zeta. destruct (cfg_wf_inv c W) as (WL & WV & WN & WT & WS).
  split. { rewrite len_app, (link_bytes_len c WL), (vlan_bytes_len c). reflexivity. }
  unfold build, build_run in E.
  destruct (c_net c) as [h x|h x|a] eqn:EN; cbn [net_wf] in WN.
  - apply andb_true_iff in WN. destruct WN as [WH WX].
    destruct (v4_max h <? v4_value x (c_transport c) (len p)) eqn:EF.
    + apply N.ltb_lt in EF. rewrite (ipv4_part_too_big e h x _ p WH EF) in E. discriminate.
    + apply N.ltb_ge in EF. split; [exact EF|].
      destruct (ipv4_part_fits e h x (c_transport c) p WH WX WT EF) as (hb & xb & EB & LH & _ & LX & EP).
      rewrite EP in E. clear EP.
      destruct (tr_ipv4 e (i4_source h) (i4_destination h) (c_transport c) (as_u16 (8 + len p)) p) as [tb|er|s] eqn:ET;
        try discriminate.
      injection E as E'. rewrite <- E'. exists hb, xb, tb. rewrite <- !app_assoc. split; [reflexivity|].
      split; [exact EB|]. split; [exact LH|]. split; [exact LX|]. split; [|reflexivity].
      destruct (wf_ip4_facts h WH) as (_ & _ & (LS & OS & LD & OD) & _).
      destruct (len4_explicit _ LS OS) as (s0 & s1 & s2 & s3 & ES & _).
      destruct (len4_explicit _ LD OD) as (d0 & d1 & d2 & d3 & ED & _).
      rewrite ES, ED in ET.
      destruct (is_icmpv6 (c_transport c)) eqn:EI.
      { destruct (c_transport c); try discriminate. }
      assert (B : tr_header_len (c_transport c) + len p <= 65515) by (unfold v4_value, v4_max in EF; lia).
      destruct (tr_ipv4_ok e s0 s1 s2 s3 d0 d1 d2 d3 (c_transport c) (as_u16 (8 + len p)) p WT EI B) as (tb' & ET' & LT).
      rewrite ET in ET'. inversion ET'. subst tb'. exact LT.
  - apply andb_true_iff in WN. destruct WN as [WH WX].
    destruct (65535 <? v6_size x (c_transport c) (len p)) eqn:EF.
    + apply N.ltb_lt in EF. rewrite (ipv6_part_too_big e h x _ p EF) in E. discriminate.
    + apply N.ltb_ge in EF. split; [exact EF|].
      pose proof (ipv6_part_fits e h x (c_transport c) p WX WT EF) as PF. cbv zeta in PF.
      destruct (XM.next_header _ _) as [n|w| |]; try contradiction.
      * destruct PF as (xb & _ & LX & EP). rewrite EP in E. clear EP.
        destruct (tr_ipv6 e _ _ (c_transport c) (as_u16 (8 + len p)) p) as [tb|er|s] eqn:ET; try discriminate.
        set (H6 := BitFields.Model.Ipv6Header_to_bytes (v6_final h x (c_transport c) (len p))) in *.
        clearbody H6.
        injection E as E'. rewrite <- E'. exists xb, tb. rewrite <- !app_assoc. split; [reflexivity|]. split; [exact LX|].
        split; [|reflexivity].
        unfold ip6_wf in WH. bsplit WH.
        assert (B : tr_header_len (c_transport c) + len p <= 65535) by (unfold v6_size in EF; lia).
        match goal with
        | H1 : len (BitFields.Model.v6_source h) = 16, H2 : len (BitFields.Model.v6_destination h) = 16 |- _ =>
          destruct (tr_ipv6_ok e _ _ (c_transport c) (as_u16 (8 + len p)) p H1 H2 WT B) as (tb' & ET' & LT)
        end.
        rewrite ET in ET'. inversion ET'. subst tb'. exact LT.
      * destruct PF as (xb & EP). rewrite EP in E. discriminate.
  - set (AB := arp_to_bytes a) in *. clearbody AB.
    injection E as E'. rewrite <- E'. rewrite <- !app_assoc. reflexivity.
Qed.

(* ------------------------------------------------------------------ consistency of the emitted packet *)
Lemma drop_front {A} (a b : list A) n : n = len a -> drop n (a ++ b) = b.
Proof. intros H. apply drop_app_len. exact H. Qed.

(* IPv4: the header at off_net is the RFC 791 encoding (C08: ip4_spec) of the
   configured header with total length = the actual length, protocol = the number
   of what follows, and a header checksum that verifies *)
Theorem ipv4_consistent e c p bs h x : cfg_wf c = true -> build e c p = BOk bs -> c_net c = NtIpv4 h x ->
  let hf := v4_final e h x (c_transport c) (len p) in
  wf_ip4 hf = true /\
  ip4_to_bytes hf = Some (take (ip4_header_len h) (drop (off_net c) bs)) /\
  verifies (take (ip4_header_len h) (drop (off_net c) bs)) /\
  i4_total_len hf = len bs - off_net c /\ off_net c + ip4_header_len h <= len bs /\ len bs - off_net c < 65536 /\
  i4_protocol hf = snd (XM.set_next_headers4 x (tr_ip_number (c_transport c))) /\
  i4_source hf = i4_source h /\ i4_destination hf = i4_destination h /\
  i4_time_to_live hf = i4_time_to_live h /\ i4_identification hf = i4_identification h /\
  i4_dscp hf = i4_dscp h /\ i4_ecn hf = i4_ecn h /\ i4_options hf = i4_options h /\
  i4_dont_fragment hf = i4_dont_fragment h /\ i4_more_fragments hf = i4_more_fragments h /\
  i4_fragment_offset hf = i4_fragment_offset h.
Proof.
  intros W E EN. cbv zeta. destruct (cfg_wf_inv c W) as (WL & WV & WN & WT & WS).
  pose proof (build_ok_shape e c p bs W E) as SH. cbv zeta in SH. rewrite EN in SH.
  set (pre := link_bytes c ++ vlan_bytes c) in *. clearbody pre.
  destruct SH as (LP & EF & hb & xb & tb & EB & ET & LH & LX & LT & _).
  rewrite EN in WN. cbn [net_wf] in WN. apply andb_true_iff in WN. destruct WN as [WH WX].
  destruct (v4_final_wf e h x (c_transport c) (len p) WH WX WT) as (WF & ck & ECK & LCK).
  pose proof (i4o_len_le h WH) as OL.
  assert (TK : take (ip4_header_len h) (drop (off_net c) bs) = hb).
  { rewrite EB. rewrite drop_front by (symmetry; exact LP). apply take_app_len. symmetry. exact LH. }
  rewrite TK. split; [exact WF|]. split; [exact ET|].
  assert (LEN : len bs = off_net c + ip4_header_len h + v4_value x (c_transport c) (len p)).
  { rewrite EB. rewrite !len_app, LP, LH, LX, LT. unfold v4_value. lia. }
  assert (FIT : ip4_header_len h + v4_value x (c_transport c) (len p) < 65536).
  { unfold v4_max, ip4_header_len in *. lia. }
  split.
  { (* the stored header checksum *)
    destruct (snh4_facts x _ WX (tr_ip_number_lt _ WT)) as (_ & P & _).
    pose proof (wf_set_len_proto h _ _ WH (as_u16_lt (ip4_header_len h + v4_value x (c_transport c) (len p))) P) as W1.
    destruct (ip4_header_verifies e _ W1) as (ck' & hb' & ECK' & _ & EB' & V).
    rewrite ECK in ECK'. apply Some_inj in ECK'. subst ck'.
    unfold v4_final in ET. rewrite ECK in ET. rewrite ET in EB'. apply Some_inj in EB'. subst hb'. exact V. }
  unfold v4_final. rewrite ECK.
  cbn [ip4_set_checksum ip4_set_len_proto i4_total_len i4_protocol i4_source i4_destination i4_time_to_live
       i4_identification i4_dscp i4_ecn i4_options i4_dont_fragment i4_more_fragments i4_fragment_offset].
  rewrite (as_u16_small _ FIT).
  repeat split; try reflexivity; lia.
Qed.

(* UDP: the length field is the actual length (not truncated), the checksum is
   never 0 and verifies with the pseudo header of the enclosing IP header *)
Theorem udp_consistent e c p bs sp dp : cfg_wf c = true -> bytes_ok p -> build e c p = BOk bs ->
  c_transport c = TrUdp sp dp ->
  match c_net c with
  | NtArp _ => True
  | NtIpv4 h _ =>
      8 + len p < 65536 /\ exists ck, ck <> 0 /\ ck < 65536 /\
        drop (off_transport c) bs = udp_to_bytes sp dp (8 + len p) ck ++ p /\
        verifies (pseudo4 (i4_source h) (i4_destination h) 17 (8 + len p) ++ drop (off_transport c) bs)
  | NtIpv6 h _ =>
      8 + len p < 65536 /\ exists ck, ck <> 0 /\ ck < 65536 /\
        drop (off_transport c) bs = udp_to_bytes sp dp (8 + len p) ck ++ p /\
        verifies (pseudo6 (BitFields.Model.v6_source h) (BitFields.Model.v6_destination h) (8 + len p) 17
                  ++ drop (off_transport c) bs)
  end.
Proof.
  intros W BP E ET. destruct (cfg_wf_inv c W) as (WL & WV & WN & WT & WS).
  pose proof (build_ok_shape e c p bs W E) as SH. cbv zeta in SH.
  set (pre := link_bytes c ++ vlan_bytes c) in *. clearbody pre.
  rewrite ET in WT. cbn [tr_wf] in WT. apply andb_true_iff in WT. destruct WT as [Wsp Wdp].
  apply N.ltb_lt in Wsp, Wdp.
  unfold off_transport, net_len.
  destruct (c_net c) as [h x|h x|a] eqn:EN; [| |exact I]; cbn [net_wf] in WN;
    apply andb_true_iff in WN; destruct WN as [WH WX].
  - destruct SH as (LP & EF & hb & xb & tb & EB & _ & LH & LX & LT & ETR).
    rewrite ET in EF, ETR, LT. cbn [tr_header_len] in *. unfold v4_value, v4_max in EF. cbn [tr_header_len] in EF.
    pose proof (i4o_len_le h WH) as OL.
    assert (F : 8 + len p < 65536) by lia. split; [exact F|].
    destruct (wf_ip4_facts h WH) as (_ & _ & (LS & OS & LD & OD) & _).
    destruct (len4_explicit _ LS OS) as (s0 & s1 & s2 & s3 & ES & _).
    destruct (len4_explicit _ LD OD) as (d0 & d1 & d2 & d3 & ED & _).
    rewrite ES, ED in *. cbn [tr_ipv4 p4_of] in ETR.
    replace (65527 <? len p) with false in ETR by (symmetry; apply N.ltb_ge; lia).
    rewrite (as_u16_small _ F) in ETR. injection ETR as ETB.
    destruct (udp4_verifies e sp dp (8 + len p) p Wsp Wdp F BP s0 s1 s2 s3 d0 d1 d2 d3 OS OD) as (NZ & V).
    eexists. split; [exact NZ|]. split; [pose proof (checksum64_no_zero_le e) as Q; eapply N.le_lt_trans; [apply Q|lia]|].
    assert (DR : drop (off_net c + (ip4_header_len h + XM.header_len4 x)) bs = tb ++ p).
    { rewrite EB. rewrite !app_assoc. rewrite <- (app_assoc _ tb p). apply drop_front.
      rewrite !len_app, LP, LH, LX. lia. }
    rewrite DR. rewrite <- ETB. split; [reflexivity|exact V].
  - destruct SH as (LP & EF & xb & tb & EB & LX & LT & ETR).
    rewrite ET in EF, ETR, LT, EB. cbn [tr_header_len] in *. unfold v6_size in EF. cbn [tr_header_len] in EF.
    assert (F : 8 + len p < 65536) by lia. split; [exact F|].
    unfold ip6_wf in WH. bsplit WH.
    repeat match goal with H : bytes_okb _ = true |- _ => apply bytes_okb_spec in H end.
    match goal with
    | L1 : len (BitFields.Model.v6_source h) = 16, L2 : len (BitFields.Model.v6_destination h) = 16,
      B1 : bytes_ok (BitFields.Model.v6_source h), B2 : bytes_ok (BitFields.Model.v6_destination h) |- _ =>
      cbn [tr_ipv6] in ETR; rewrite !p16_of_len in ETR by assumption;
      destruct (udp6_verifies e sp dp (8 + len p) p _ _ Wsp Wdp F BP B1 B2 L1 L2) as (NZ & V);
      assert (LH6 : len (BitFields.Model.Ipv6Header_to_bytes (v6_final h x (TrUdp sp dp) (len p))) = 40)
        by (unfold BitFields.Model.Ipv6Header_to_bytes, v6_final, ip6_set_len_next;
            cbn [BitFields.Model.v6_source BitFields.Model.v6_destination]; rewrite !len_app, L1, L2; reflexivity)
    end.
    replace (4294967287 <? len p) with false in ETR by (symmetry; apply N.ltb_ge; lia).
    rewrite (as_u16_small _ F) in ETR. injection ETR as ETB.
    eexists. split; [exact NZ|]. split; [pose proof (checksum64_no_zero_le e) as Q; eapply N.le_lt_trans; [apply Q|lia]|].
    assert (DR : drop (off_net c + (40 + XM.header_len x)) bs = tb ++ p).
    { rewrite EB. rewrite !app_assoc. rewrite <- (app_assoc _ tb p). apply drop_front.
      rewrite !len_app, LP, LH6, LX. lia. }
    rewrite DR. rewrite <- ETB. split; [reflexivity|exact V].
Qed.

(* IPv6: payload length = actual length behind the fixed header, next header =
   the first header of the chain (or the transport number) *)
Theorem ipv6_consistent e c p bs h x : cfg_wf c = true -> build e c p = BOk bs -> c_net c = NtIpv6 h x ->
  let hf := v6_final h x (c_transport c) (len p) in
  take 40 (drop (off_net c) bs) = BitFields.Model.Ipv6Header_to_bytes hf /\
  off_net c + 40 <= len bs /\
  BitFields.Model.v6_payload_length hf = len bs - off_net c - 40 /\ len bs - off_net c - 40 < 65536 /\
  BitFields.Model.v6_next_header hf = snd (XM.set_next_headers x (tr_ip_number (c_transport c))) /\
  BitFields.Model.v6_source hf = BitFields.Model.v6_source h /\
  BitFields.Model.v6_destination hf = BitFields.Model.v6_destination h /\
  BitFields.Model.v6_hop_limit hf = BitFields.Model.v6_hop_limit h /\
  BitFields.Model.v6_traffic_class hf = BitFields.Model.v6_traffic_class h /\
  BitFields.Model.v6_flow_label hf = BitFields.Model.v6_flow_label h.
Proof.
  intros W E EN. cbv zeta. destruct (cfg_wf_inv c W) as (WL & WV & WN & WT & WS).
  pose proof (build_ok_shape e c p bs W E) as SH. cbv zeta in SH. rewrite EN in SH.
  set (pre := link_bytes c ++ vlan_bytes c) in *. clearbody pre.
  destruct SH as (LP & EF & xb & tb & EB & LX & LT & _).
  rewrite EN in WN. cbn [net_wf] in WN. apply andb_true_iff in WN. destruct WN as [WH WX].
  unfold ip6_wf in WH. bsplit WH.
  assert (LH6 : len (BitFields.Model.Ipv6Header_to_bytes (v6_final h x (c_transport c) (len p))) = 40).
  { unfold BitFields.Model.Ipv6Header_to_bytes, v6_final, ip6_set_len_next.
    cbn [BitFields.Model.v6_source BitFields.Model.v6_destination]. rewrite !len_app.
    repeat match goal with H : len _ = 16 |- _ => rewrite H; clear H end. reflexivity. }
  set (H6 := BitFields.Model.Ipv6Header_to_bytes (v6_final h x (c_transport c) (len p))) in *.
  assert (LEN : len bs = off_net c + 40 + v6_size x (c_transport c) (len p)).
  { rewrite EB. rewrite !len_app, LP, LH6, LX, LT. unfold v6_size. lia. }
  split. { rewrite EB. rewrite drop_front by (symmetry; exact LP). apply take_app_len. symmetry. exact LH6. }
  split; [lia|].
  unfold v6_final, ip6_set_len_next.
  cbn [BitFields.Model.v6_payload_length BitFields.Model.v6_next_header BitFields.Model.v6_source
       BitFields.Model.v6_destination BitFields.Model.v6_hop_limit BitFields.Model.v6_traffic_class
       BitFields.Model.v6_flow_label].
  rewrite as_u16_small by lia. repeat split; try reflexivity; lia.
Qed.

(* ------------------------------------------------------------------ decoding what was built (C08) *)
(* the crate's IPv4 header decoder (Roundtrip model, C08) applied at off_net returns the
   configured header with the derived fields filled in, and the rest of the packet *)
Theorem ipv4_header_decodes e c p bs h x : cfg_wf c = true -> build e c p = BOk bs -> c_net c = NtIpv4 h x ->
  ip4_from_slice (drop (off_net c) bs)
  = Ok (ip4_norm (v4_final e h x (c_transport c) (len p)),
        drop (off_net c + ip4_header_len h) bs).
Proof.
  intros W E EN.
  destruct (ipv4_consistent e c p bs h x W E EN) as (WF & ET & _ & _ & LE & _).
  destruct (ip4_dec_enc _ (drop (off_net c + ip4_header_len h) bs) WF) as (enc & EE & DEC & _).
  rewrite ET in EE. apply Some_inj in EE. subst enc.
  replace (drop (off_net c + ip4_header_len h) bs) with (drop (ip4_header_len h) (drop (off_net c) bs)) in DEC |- *
    by (apply drop_drop).
  rewrite take_drop in DEC. exact DEC.
Qed.

(* TCP: the header behind the IP layer decodes (C08) to the configured header
   (ports, sequence numbers, flags, window, urgent pointer, options) and the payload *)
Lemma tcp_tb e c p bs t : cfg_wf c = true -> build e c p = BOk bs -> c_transport c = TrTcp t ->
  match c_net c with
  | NtArp _ => True
  | _ => exists ck, ck < 65536 /\
           drop (off_transport c) bs = Tcp.fixed_bytes (tcp_set_checksum t ck)
              ++ take (Tcp.o_len (Tcp.options t)) (Tcp.o_buf (Tcp.options t)) ++ p
  end.
Proof.
  intros W E ET. destruct (cfg_wf_inv c W) as (WL & WV & WN & WT & WS).
  pose proof (build_ok_shape e c p bs W E) as SH. cbv zeta in SH.
  set (pre := link_bytes c ++ vlan_bytes c) in *. clearbody pre.
  rewrite ET in WT. cbn [tr_wf] in WT. pose proof (tcp_header_len_le t WT) as HL.
  unfold off_transport, net_len.
  destruct (c_net c) as [h x|h x|a] eqn:EN; [| |exact I]; cbn [net_wf] in WN;
    apply andb_true_iff in WN; destruct WN as [WH WX].
  - destruct SH as (LP & EF & hb & xb & tb & EB & _ & LH & LX & LT & ETR).
    rewrite ET in EF, ETR, LT. cbn [tr_header_len] in *. unfold v4_value, v4_max in EF. cbn [tr_header_len] in EF.
    pose proof (i4o_len_le h WH) as OL.
    destruct (wf_ip4_facts h WH) as (_ & _ & (LS & OS & LD & OD) & _).
    destruct (len4_explicit _ LS OS) as (s0 & s1 & s2 & s3 & ES & _).
    destruct (len4_explicit _ LD OD) as (d0 & d1 & d2 & d3 & ED & _).
    rewrite ES, ED in *. cbn [tr_ipv4 p4_of] in ETR.
    replace (65535 <? Tcp.header_len t) with false in ETR by (symmetry; apply N.ltb_ge; lia).
    replace (65535 - Tcp.header_len t <? len p) with false in ETR by (symmetry; apply N.ltb_ge; lia).
    rewrite (TcpProofs.as_slice_wf t WT) in ETR.
    rewrite tcp_finish_ok in ETR by (try assumption; apply checksum64_le). injection ETR as ETB.
    eexists. split; [eapply N.le_lt_trans; [apply checksum64_le|lia]|].
    rewrite EB. rewrite !app_assoc. rewrite <- (app_assoc _ tb p). rewrite drop_front.
    + rewrite <- ETB. rewrite <- app_assoc. reflexivity.
    + rewrite !len_app, LP, LH, LX. lia.
  - destruct SH as (LP & EF & xb & tb & EB & LX & LT & ETR).
    rewrite ET in EF, ETR, LT, EB. cbn [tr_header_len] in *. unfold v6_size in EF. cbn [tr_header_len] in EF.
    unfold ip6_wf in WH. bsplit WH.
    assert (LH6 : len (BitFields.Model.Ipv6Header_to_bytes (v6_final h x (TrTcp t) (len p))) = 40).
    { unfold BitFields.Model.Ipv6Header_to_bytes, v6_final, ip6_set_len_next.
      cbn [BitFields.Model.v6_source BitFields.Model.v6_destination]. rewrite !len_app.
      repeat match goal with H : len _ = 16 |- _ => rewrite H end. reflexivity. }
    cbn [tr_ipv6] in ETR. rewrite !p16_of_len in ETR by assumption.
    replace (4294967295 <? Tcp.header_len t) with false in ETR by (symmetry; apply N.ltb_ge; lia).
    replace (4294967295 - Tcp.header_len t <? len p) with false in ETR by (symmetry; apply N.ltb_ge; lia).
    rewrite (TcpProofs.as_slice_wf t WT) in ETR.
    rewrite tcp_finish_ok in ETR by (try assumption; apply checksum64_le). injection ETR as ETB.
    eexists. split; [eapply N.le_lt_trans; [apply checksum64_le|lia]|].
    rewrite EB. rewrite !app_assoc. rewrite <- (app_assoc _ tb p). rewrite drop_front.
    + rewrite <- ETB. rewrite <- app_assoc. reflexivity.
    + rewrite !len_app, LP, LH6, LX. lia.
Qed.

Theorem tcp_decodes e c p bs t : cfg_wf c = true -> build e c p = BOk bs -> c_transport c = TrTcp t ->
  match c_net c with
  | NtArp _ => True
  | _ => exists ck, ck < 65536 /\
           Tcp.from_slice (drop (off_transport c) bs) = Ok (Tcp.norm (tcp_set_checksum t ck), p)
  end.
Proof.
  intros W E ET. pose proof (tcp_tb e c p bs t W E ET) as TB.
  destruct (cfg_wf_inv c W) as (_ & _ & _ & WT & _). rewrite ET in WT. cbn [tr_wf] in WT.
  destruct (c_net c); [| |exact I]; destruct TB as (ck & L & D); exists ck; (split; [exact L|]);
    pose proof (wf_tcp_set_checksum t ck WT L) as W2;
    destruct (TcpProofs.tcp_dec_enc _ p W2) as (enc & EE & DEC & _);
    rewrite (TcpProofs.to_bytes_wf _ W2) in EE; apply Some_inj in EE; subst enc;
    rewrite D; rewrite app_assoc; exact DEC.
Qed.
