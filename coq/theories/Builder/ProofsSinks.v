(* Builder/ProofsSinks.v -- property C10, audit follow-up part 2: the three sinks.
   C16 (IoFault/Model.v) models final_write_with_net as a WRITE PROGRAM over abstract part
   encodings (`bcfg`) and proves what write(io::Write), write_to_vec and write_to_slice make of
   such a program.  This file is the bridge that was missing: `bcfg_of e c p` instantiates the
   parts of a C16 builder configuration with the encodings of THIS model (Builder/Model.v), and
     bridge        : the write program of C16 writes exactly `snd (build_run e c p)` and ends
                     with the verdict `fst (build_run e c p)` -- for EVERY well-formed
                     configuration, error outcomes included (the IPv6 extension walk of C12,
                     ExtChain.Model.write, and the one of C16, x6_write_internal, are two
                     transliterations of the same Rust loop: `x6_bridge` shows they agree);
     bcfg_of_wf    : header_len() / LEN of every part equals the length of its encoding;
     size_bridge   : C16's final_size = this model's final_size;
     three_sinks   : hence write_to_vec, write (into a sink that does not fail before the end)
                     and write_to_slice (into a buffer of at least size() bytes) all deliver
                     `build_run`'s bytes and verdict; write_to_slice refuses every shorter
                     buffer untouched with Space(size()).
   Parts behind an error are never written; they are represented by a placeholder of the
   declared length (`fit`), which is not observable. *)
From EP Require Import Base.Bytes Checksum.Spec Checksum.Model Checksum.Proofs.
From EP Require Import Roundtrip.Common Roundtrip.CommonProofs.
From EP Require Roundtrip.Tcp Roundtrip.TcpProofs Roundtrip.Ipv4 Roundtrip.Ipv4Proofs.
From EP Require CtlMsg.Spec Roundtrip.Icmp4 Roundtrip.Icmp6.
From EP Require ExtChain.Spec ExtChain.Model ExtChain.View ExtChain.Proofs BitFields.Model.
From EP Require IoFault.Spec IoFault.Model IoFault.Proofs.
From EP Require Import Builder.Model Builder.Spec Builder.Proofs Builder.ProofsCk Builder.SpecX Builder.ProofsTr
  Builder.ProofsNx.
From Coq Require Import ZArith Lia ZifyN ZifyBool.
Local Open Scope N_scope.

Module IO := EP.IoFault.Model.
Module IOS := EP.IoFault.Spec.
Module IOP := EP.IoFault.Proofs.

(* ------------------------------------------------------------------ parts *)
Definition fit (n : N) (b : bytes) : bytes := if len b =? n then b else zeros n.
Lemma fit_len n b : len (fit n b) = n.
Proof. unfold fit. destruct (len b =? n) eqn:E; [apply N.eqb_eq; exact E|apply len_zeros]. Qed.
Lemma fit_eq n b : len b = n -> fit n b = b.
Proof. intros H. unfold fit. rewrite H, N.eqb_refl. reflexivity. Qed.

Definition part_n (n : N) (b : bytes) : IO.part := IO.mk_part n (fit n b).
Lemma part_n_wf n b : IOP.part_wf (part_n n b).
Proof. unfold IOP.part_wf, part_n. cbn. symmetry. apply fit_len. Qed.

Definition opt_bytes (o : option bytes) : bytes := match o with Some b => b | None => [] end.

(* extension headers as the walkers of C16 see them: next_header field, header_len(), to_bytes() *)
Definition raw_ext (h : XM.RawExt) : IO.ext :=
  IO.mk_ext (XM.r_next_header h) (XM.raw_header_len h) (fit (XM.raw_header_len h) (opt_bytes (XM.raw_to_bytes h))).
Definition frag_ext (h : XM.Frag) : IO.ext :=
  IO.mk_ext (XM.f_next_header h) (XM.frag_header_len h) (XM.frag_to_bytes h).
Definition auth_ext (h : XM.AuthH) : IO.ext :=
  IO.mk_ext (XM.a_next_header h) (XM.auth_header_len h) (fit (XM.auth_header_len h) (opt_bytes (XM.auth_to_bytes h))).

Definition x6_of (e : XM.Exts6) : IO.exts6 :=
  IO.mk_exts6 (option_map raw_ext (XM.hop_by_hop_options e)) (option_map raw_ext (XM.destination_options e))
    (option_map (fun r => (raw_ext (XM.rt_routing r), option_map raw_ext (XM.rt_final_destination_options r)))
                (XM.routing e))
    (option_map frag_ext (XM.fragment e)) (option_map auth_ext (XM.auth e)).
Definition x4_of (e : XM.Exts4) : IO.exts4 := IO.mk_exts4 (option_map auth_ext (XM.auth4 e)).

Definition needs_of (f : XM.Flags) : IO.needs :=
  IO.mk_needs (XM.fl_hop_by_hop_options f) (XM.fl_destination_options f) (XM.fl_routing f)
              (XM.fl_fragment f) (XM.fl_auth f) (XM.fl_final_destination_options f).

Lemma raw_ext_enc h bs : XM.raw_valid h = true -> XM.raw_to_bytes h = Some bs -> IO.e_enc (raw_ext h) = bs.
Proof.
  intros V E. unfold raw_ext. cbn [IO.e_enc]. rewrite E. cbn [opt_bytes].
  apply fit_eq. exact (XP.raw_to_bytes_len h bs V E).
Qed.
Lemma auth_ext_enc h bs : XM.auth_valid h = true -> XM.auth_to_bytes h = Some bs -> IO.e_enc (auth_ext h) = bs.
Proof.
  intros V E. unfold auth_ext. cbn [IO.e_enc]. rewrite E. cbn [opt_bytes].
  apply fit_eq. exact (XP.auth_to_bytes_len h bs V E).
Qed.

Lemma raw_ext_wf h : IOP.ext_wf (raw_ext h).
Proof. unfold IOP.ext_wf, raw_ext. cbn. symmetry. apply fit_len. Qed.
Lemma auth_ext_wf h : IOP.ext_wf (auth_ext h).
Proof. unfold IOP.ext_wf, auth_ext. cbn. symmetry. apply fit_len. Qed.
Lemma frag_ext_wf h : IOP.ext_wf (frag_ext h).
Proof. reflexivity. Qed.

Lemma x6_of_wf e : IOP.exts6_wf (x6_of e).
Proof.
  unfold IOP.exts6_wf, x6_of. cbn [IO.x6_hop IO.x6_dest IO.x6_routing IO.x6_frag IO.x6_auth].
  destruct e as [[h|] [d|] [[rt [fd|]]|] [fr|] [a|]]; cbn; repeat split;
    first [apply raw_ext_wf | apply auth_ext_wf | apply frag_ext_wf | exact I].
Qed.
Lemma x4_of_wf e : IOP.exts4_wf (x4_of e).
Proof. unfold IOP.exts4_wf, x4_of. destruct e as [[a|]]; cbn; [apply auth_ext_wf|exact I]. Qed.

Lemma x6_of_len e : IO.x6_header_len (x6_of e) = XM.header_len e.
Proof.
  unfold IO.x6_header_len, XM.header_len, x6_of.
  destruct e as [[h|] [d|] [[rt [fd|]]|] [fr|] [a|]]; cbn; lia.
Qed.
Lemma x4_of_len e : IO.x4_header_len (x4_of e) = XM.header_len4 e.
Proof. destruct e as [[a|]]; reflexivity. Qed.

Lemma x6_needs_of e : IO.x6_needs (x6_of e) = needs_of (XM.flags_init e).
Proof. destruct e as [[h|] [d|] [[rt [fd|]]|] [fr|] [a|]]; reflexivity. Qed.

Lemma x6_hop_of e : IO.x6_hop (x6_of e) = option_map raw_ext (XM.hop_by_hop_options e).
Proof. reflexivity. Qed.

(* ------------------------------------------------------------------ verdicts *)
Definition cerr_of_walk (w : XM.walk_error) : IO.cerr :=
  match w with XM.HopByHopNotAtStart => IO.CHopNotAtStart | XM.ExtNotReferenced n => IO.CNotReferenced n end.
Definition cerr_of (er : build_error) : IO.cerr :=
  match er with
  | EPayloadLen _ _ _ => IO.CPayloadLen
  | EIpv4Exts w | EIpv6Exts w => cerr_of_walk w
  | EIcmpv6InIpv4 => IO.CIcmpv6InIpv4
  end.
Definition verdict_of (v : verdict) : IO.verdict :=
  match v with VdOk => IO.VOk | VdErr er => IO.VContent (cerr_of er) | VdPanic _ => IO.VPanic end.
Definition wverd {A} (r : XM.res XM.walk_error A) : IO.verdict :=
  match r with
  | XM.Ok _ => IO.VOk
  | XM.Err w => IO.VContent (cerr_of_walk w)
  | XM.Panic => IO.VPanic
  | XM.OutOfFuel => IO.VFuel
  end.

Lemma check_all_done_final {A} f (a : A) : wverd (XM.check_all_done f a) = IO.x6_final (needs_of f).
Proof. unfold XM.check_all_done, IO.x6_final, needs_of. destruct f as [[] [] [] [] [] []]; reflexivity. Qed.

(* ------------------------------------------------------------------ the two IPv6 extension walks agree *)
Lemma loop_lockstep f1 : forall f2 e nw next rw w,
  XM.exts6_valid e = true ->
  snd (XM.write_loop f1 e nw next rw w) <> XM.OutOfFuel ->
  IO.wprog_verdict (IO.x6_loop f2 (x6_of e) (needs_of nw) next rw) <> IO.VFuel ->
  fst (XM.write_loop f1 e nw next rw w) = w ++ IO.wprog_bytes (IO.x6_loop f2 (x6_of e) (needs_of nw) next rw) /\
  wverd (snd (XM.write_loop f1 e nw next rw w)) = IO.wprog_verdict (IO.x6_loop f2 (x6_of e) (needs_of nw) next rw).
Proof.
  induction f1 as [|f1 IH]; intros f2 e nw next rw w V NF1 NF2; [exfalso; apply NF1; reflexivity|].
  destruct f2 as [|f2]; [exfalso; apply NF2; reflexivity|].
  pose proof (XP.exts6_valid_inv e V) as (Vh & Vd & Vr & Vf & Va).
  assert (FIN : forall (w0 : bytes),
    fst (w0, XM.check_all_done nw tt) = w0 ++ IO.wprog_bytes (IO.WRet (IO.x6_final (needs_of nw))) /\
    wverd (snd (w0, XM.check_all_done nw tt)) = IO.wprog_verdict (IO.WRet (IO.x6_final (needs_of nw)))).
  { intros w0. cbn [fst snd IO.wprog_bytes IO.wprog_verdict]. rewrite app_nil_r. split; [reflexivity|apply check_all_done_final]. }
  revert NF1 NF2. cbn [XM.write_loop IO.x6_loop].
  change (IO.n_hop (needs_of nw)) with (XM.fl_hop_by_hop_options nw).
  change (IO.n_dest (needs_of nw)) with (XM.fl_destination_options nw).
  change (IO.n_route (needs_of nw)) with (XM.fl_routing nw).
  change (IO.n_frag (needs_of nw)) with (XM.fl_fragment nw).
  change (IO.n_auth (needs_of nw)) with (XM.fl_auth nw).
  change (IO.n_final (needs_of nw)) with (XM.fl_final_destination_options nw).
  change (IO.set_final (needs_of nw)) with (needs_of (XM.clr_final nw)).
  change (IO.set_dest (needs_of nw)) with (needs_of (XM.clr_dst nw)).
  change (IO.set_route (needs_of nw)) with (needs_of (XM.clr_routing nw)).
  change (IO.set_frag (needs_of nw)) with (needs_of (XM.clr_frag nw)).
  change (IO.set_auth (needs_of nw)) with (needs_of (XM.clr_auth nw)).
  unfold XM.arm_of, IO.IPV6_HOP_BY_HOP, IO.IPV6_DEST_OPTIONS, IO.IPV6_ROUTE, IO.IPV6_FRAG, IO.AUTH,
    XM.IPV6_HOP_BY_HOP, XM.IPV6_DEST_OPTIONS, XM.IPV6_ROUTE, XM.IPV6_FRAG, XM.AUTH.
  destruct (next =? 0).
  { intros _ _. destruct (XM.fl_hop_by_hop_options nw); [|apply FIN].
    cbn [fst snd IO.wprog_bytes IO.wprog_verdict wverd cerr_of_walk]. rewrite app_nil_r. split; reflexivity. }
  destruct (next =? 60).
  { destruct rw.
    - destruct (XM.fl_final_destination_options nw); [|intros _ _; apply FIN].
      unfold x6_of at 1 3 5. cbn [IO.x6_routing].
      destruct (XM.routing e) as [r|] eqn:ER; cbn [option_map].
      2:{ intros _ _. cbn. rewrite app_nil_r. split; reflexivity. }
      cbn [XM.opt_valid] in Vr. apply XP.routing_valid_inv in Vr. destruct Vr as [Vrt Vfd].
      destruct (XM.rt_final_destination_options r) as [hd|] eqn:EF; cbn [option_map].
      2:{ intros _ _. cbn. rewrite app_nil_r. split; reflexivity. }
      cbn [XM.opt_valid] in Vfd. rewrite (XP.raw_to_bytes_valid hd Vfd).
      rewrite (raw_ext_enc hd _ Vfd (XP.raw_to_bytes_valid hd Vfd)).
      cbn [IO.wprog_bytes IO.wprog_verdict IO.e_nh raw_ext].
      intros NF1 NF2. destruct (IH f2 e (XM.clr_final nw) (XM.r_next_header hd) true
                                  (w ++ XM.r_next_header hd :: XM.r_header_length hd :: XM.r_payload hd) V NF1 NF2) as (A & B').
      rewrite A, B', <- app_assoc. split; reflexivity.
    - destruct (XM.fl_destination_options nw); [|intros _ _; apply FIN].
      unfold x6_of at 1 3 5. cbn [IO.x6_dest].
      destruct (XM.destination_options e) as [hd|] eqn:ED; cbn [option_map].
      2:{ intros _ _. cbn. rewrite app_nil_r. split; reflexivity. }
      cbn [XM.opt_valid] in Vd. rewrite (XP.raw_to_bytes_valid hd Vd).
      rewrite (raw_ext_enc hd _ Vd (XP.raw_to_bytes_valid hd Vd)).
      cbn [IO.wprog_bytes IO.wprog_verdict IO.e_nh raw_ext].
      intros NF1 NF2. destruct (IH f2 e (XM.clr_dst nw) (XM.r_next_header hd) false
                                  (w ++ XM.r_next_header hd :: XM.r_header_length hd :: XM.r_payload hd) V NF1 NF2) as (A & B').
      rewrite A, B', <- app_assoc. split; reflexivity. }
  destruct (next =? 43).
  { destruct (XM.fl_routing nw); [|intros _ _; apply FIN].
    unfold x6_of at 1 3 5. cbn [IO.x6_routing].
    destruct (XM.routing e) as [r|] eqn:ER; cbn [option_map].
    2:{ intros _ _. cbn. rewrite app_nil_r. split; reflexivity. }
    cbn [XM.opt_valid] in Vr. apply XP.routing_valid_inv in Vr. destruct Vr as [Vrt Vfd].
    cbv zeta. rewrite (XP.raw_to_bytes_valid _ Vrt).
    rewrite (raw_ext_enc _ _ Vrt (XP.raw_to_bytes_valid _ Vrt)).
    cbn [IO.wprog_bytes IO.wprog_verdict IO.e_nh raw_ext].
    intros NF1 NF2. destruct (IH f2 e (XM.clr_routing nw) (XM.r_next_header (XM.rt_routing r)) true
        (w ++ XM.r_next_header (XM.rt_routing r) :: XM.r_header_length (XM.rt_routing r) :: XM.r_payload (XM.rt_routing r))
        V NF1 NF2) as (A & B').
    rewrite A, B', <- app_assoc. split; reflexivity. }
  destruct (next =? 44).
  { destruct (XM.fl_fragment nw); [|intros _ _; apply FIN].
    unfold x6_of at 1 3 5. cbn [IO.x6_frag].
    destruct (XM.fragment e) as [hd|] eqn:EF; cbn [option_map].
    2:{ intros _ _. cbn. rewrite app_nil_r. split; reflexivity. }
    cbn [IO.wprog_bytes IO.wprog_verdict IO.e_nh IO.e_enc frag_ext].
    intros NF1 NF2. destruct (IH f2 e (XM.clr_frag nw) (XM.f_next_header hd) rw (w ++ XM.frag_to_bytes hd) V NF1 NF2) as (A & B').
    rewrite A, B', <- app_assoc. split; reflexivity. }
  destruct (next =? 51).
  { destruct (XM.fl_auth nw); [|intros _ _; apply FIN].
    unfold x6_of at 1 3 5. cbn [IO.x6_auth].
    destruct (XM.auth e) as [hd|] eqn:EA; cbn [option_map].
    2:{ intros _ _. cbn. rewrite app_nil_r. split; reflexivity. }
    cbn [XM.opt_valid] in Va. rewrite (XP.auth_to_bytes_valid hd Va).
    rewrite (auth_ext_enc hd _ Va (XP.auth_to_bytes_valid hd Va)).
    cbn [IO.wprog_bytes IO.wprog_verdict IO.e_nh auth_ext].
    intros NF1 NF2. destruct (IH f2 e (XM.clr_auth nw) (XM.a_next_header hd) rw (w ++ XP.auth_bytes hd) V NF1 NF2) as (A & B').
    rewrite A, B', <- app_assoc. split; reflexivity. }
  intros _ _. apply FIN.
Qed.

Lemma not_fuel_of_ok v : IOP.verdict_ok v -> v <> IO.VFuel.
Proof. destruct v; cbn; intros H; try discriminate; destruct H. Qed.

(* Ipv6Extensions::write_internal: C12's model and C16's write program *)
Lemma x6_bridge e first : XM.exts6_valid e = true ->
  IO.wprog_bytes (IO.x6_write_internal (x6_of e) first) = fst (XM.write e first) /\
  IO.wprog_verdict (IO.x6_write_internal (x6_of e) first) = wverd (snd (XM.write e first)).
Proof.
  intros V. pose proof (XP.exts6_valid_inv e V) as (Vh & _).
  pose proof (IOP.x6_write_internal_verdict (x6_of e) first) as OKV. apply not_fuel_of_ok in OKV.
  assert (NF : snd (XM.write e first) <> XM.OutOfFuel).
  { pose proof (XP.write_iff_walk e first V) as WW.
    destruct (XM.next_header e first); try contradiction; rewrite WW; discriminate. }
  revert OKV NF. unfold IO.x6_write_internal, XM.write. rewrite x6_needs_of.
  unfold IO.IPV6_HOP_BY_HOP, XM.IPV6_HOP_BY_HOP.
  destruct (0 =? first).
  - rewrite x6_hop_of.
    destruct (XM.hop_by_hop_options e) as [hd|] eqn:EH; cbn [option_map].
    + cbn [XM.opt_valid] in Vh. rewrite (XP.raw_to_bytes_valid hd Vh).
      rewrite (raw_ext_enc hd _ Vh (XP.raw_to_bytes_valid hd Vh)).
      cbn [IO.wprog_bytes IO.wprog_verdict IO.e_nh raw_ext].
      change (IO.set_hop (needs_of (XM.flags_init e))) with (needs_of (XM.clr_hop (XM.flags_init e))).
      intros OKV NF.
      destruct (loop_lockstep XM.LOOP_FUEL IO.X6_FUEL e _ _ false _ V NF OKV) as (A & B').
      rewrite A, B'. split; reflexivity.
    + intros OKV NF. destruct (loop_lockstep XM.LOOP_FUEL IO.X6_FUEL e _ _ false [] V NF OKV) as (A & B').
      rewrite A, B'. split; reflexivity.
  - intros OKV NF. destruct (loop_lockstep XM.LOOP_FUEL IO.X6_FUEL e _ _ false [] V NF OKV) as (A & B').
    rewrite A, B'. split; reflexivity.
Qed.

Lemma x4_bridge e first : XM.exts4_valid e = true ->
  IO.wprog_bytes (IO.x4_write_internal (x4_of e) first) = fst (XM.write4 e first) /\
  IO.wprog_verdict (IO.x4_write_internal (x4_of e) first) = wverd (snd (XM.write4 e first)).
Proof.
  unfold XM.exts4_valid, IO.x4_write_internal, XM.write4, x4_of. cbn [IO.x4_auth].
  destruct (XM.auth4 e) as [a|]; cbn [XM.opt_valid option_map]; intros V; [|split; reflexivity].
  unfold IO.AUTH, XM.AUTH. destruct (51 =? first); [|split; reflexivity].
  rewrite (XP.auth_to_bytes_valid a V).
  cbn [IO.w1 IO.wprog_bytes IO.wprog_verdict fst snd wverd].
  rewrite (auth_ext_enc a _ V (XP.auth_to_bytes_valid a V)), app_nil_r. split; reflexivity.
Qed.

(* ------------------------------------------------------------------ the C16 configuration of a C10 configuration *)
Definition tr_part (t : transport_cfg) (r : tres) : option IO.part :=
  match t with
  | TrNone _ => None                      (* PacketBuilderStep<IpHeaders>::write(ip_number, ..): transport_header = None *)
  | _ => Some (part_n (tr_header_len t) (match r with TOk tb => tb | _ => [] end))
  end.
Definition tr_mid (r : tres) : option IO.cerr :=
  match r with TErr er => Some (cerr_of er) | _ => None end.

Definition link_part (c : cfg) : option IO.part :=
  match c_link c with LkNone => None | _ => Some (part_n (link_len c) (link_bytes c)) end.
Definition vlan_parts (c : cfg) : list IO.part :=
  let net_et := net_ether_type (c_net c) in
  match c_vlan c with
  | VlNone => []
  | VlSingle v => [part_n 4 (BitFields.Model.SingleVlanHeader_to_bytes (vlan_set_ether_type v net_et))]
  | VlDouble o i =>
      [part_n 4 (BitFields.Model.SingleVlanHeader_to_bytes (vlan_set_ether_type o 33024));
       part_n 4 (BitFields.Model.SingleVlanHeader_to_bytes (vlan_set_ether_type i net_et))]
  end.

Definition bcfg_of (e : endian) (c : cfg) (p : bytes) : IO.bcfg :=
  let t := c_transport c in
  match c_net c with
  | NtArp a =>
      IO.mk_bcfg (link_part c) (vlan_parts c) (IO.BArp (part_n (arp_packet_len a) (arp_to_bytes a))) None None None
  | NtIpv4 h x =>
      let s := XM.set_next_headers4 x (tr_ip_number t) in
      let r := tr_ipv4 e (Ipv4.i4_source h) (Ipv4.i4_destination h) t (as_u16 (8 + len p)) p in
      IO.mk_bcfg (link_part c) (vlan_parts c)
        (IO.BIpv4 (part_n (Ipv4.ip4_header_len h) (opt_bytes (Ipv4.ip4_to_bytes (v4_final e h x t (len p)))))
                  (snd s) (x4_of (fst s)))
        (if v4_max h <? v4_value x t (len p) then Some IO.CPayloadLen else None)
        (tr_mid r) (tr_part t r)
  | NtIpv6 h x =>
      let s := XM.set_next_headers x (tr_ip_number t) in
      let r := tr_ipv6 e (BitFields.Model.v6_source h) (BitFields.Model.v6_destination h) t (as_u16 (8 + len p)) p in
      IO.mk_bcfg (link_part c) (vlan_parts c)
        (IO.BIpv6 (part_n 40 (BitFields.Model.Ipv6Header_to_bytes (v6_final h x t (len p))))
                  (snd s) (x6_of (fst s)))
        (if 65535 <? v6_size x t (len p) then Some IO.CPayloadLen else None)
        (tr_mid r) (tr_part t r)
  end.

Lemma tr_part_wf t r : IOP.opt_wf IOP.part_wf (tr_part t r).
Proof. destruct t; cbn; try exact I; apply part_n_wf. Qed.
Lemma link_part_wf c : IOP.opt_wf IOP.part_wf (link_part c).
Proof. unfold link_part. destruct (c_link c); cbn; try exact I; apply part_n_wf. Qed.
Lemma vlan_parts_wf c : Forall IOP.part_wf (vlan_parts c).
Proof. unfold vlan_parts. destruct (c_vlan c); repeat constructor; apply part_n_wf. Qed.

Theorem bcfg_of_wf e c p : IOP.bcfg_wf (bcfg_of e c p).
Proof.
  unfold IOP.bcfg_wf, bcfg_of. destruct (c_net c) as [h x|h x|a]; cbn [IO.b_link IO.b_vlan IO.b_net IO.b_transport].
  - split; [apply link_part_wf|]. split; [apply vlan_parts_wf|]. split; [|apply tr_part_wf].
    split; [apply part_n_wf|apply x4_of_wf].
  - split; [apply link_part_wf|]. split; [apply vlan_parts_wf|]. split; [|apply tr_part_wf].
    split; [apply part_n_wf|apply x6_of_wf].
  - split; [apply link_part_wf|]. split; [apply vlan_parts_wf|]. split; [apply part_n_wf|exact I].
Qed.

Lemma tr_part_len t r : IO.opt_plen (tr_part t r) = tr_header_len t.
Proof. destruct t; reflexivity. Qed.

Theorem size_bridge e c p n : cfg_wf c = true -> IO.final_size (bcfg_of e c p) n = final_size c n.
Proof.
  intros W. destruct (cfg_wf_inv c W) as (WL & WV & WN & WT & WS).
  unfold IO.final_size, final_size, bcfg_of, net_len, transport_len.
  assert (L1 : IO.opt_plen (link_part c) = link_len c).
  { unfold link_part, link_len. destruct (c_link c); reflexivity. }
  assert (L2 : IO.parts_len (vlan_parts c) = vlan_len c).
  { unfold vlan_parts, vlan_len. destruct (c_vlan c); reflexivity. }
  destruct (c_net c) as [h x|h x|a]; cbn [net_wf] in WN;
    cbn [IO.b_link IO.b_vlan IO.b_net IO.b_transport IO.p_len part_n]; rewrite L1, L2.
  - apply andb_true_iff in WN. destruct WN as [WH WX].
    destruct (snh4_facts x _ WX (tr_ip_number_lt _ WT)) as (_ & _ & HL).
    rewrite x4_of_len, HL, tr_part_len. reflexivity.
  - apply andb_true_iff in WN. destruct WN as [WH WX].
    destruct (snh6_facts x _ WX (tr_ip_number_lt _ WT)) as (_ & _ & HL).
    rewrite x6_of_len, HL, tr_part_len. reflexivity.
  - cbn [IO.opt_plen]. reflexivity.
Qed.

(* ------------------------------------------------------------------ running a write program: verdict and bytes of a sequence *)
Lemma wseq_run a b :
  IO.wprog_verdict (IO.wseq a b) = (match IO.wprog_verdict a with IO.VOk => IO.wprog_verdict b | v => v end) /\
  IO.wprog_bytes (IO.wseq a b)
  = IO.wprog_bytes a ++ (match IO.wprog_verdict a with IO.VOk => IO.wprog_bytes b | _ => [] end).
Proof.
  destruct (IOP.verdict_eq_dec (IO.wprog_verdict a)) as [H|H].
  - destruct (IOP.wseq_bytes_ok a b H) as [E1 E2]. rewrite E1, E2, H. split; reflexivity.
  - destruct (IOP.wseq_bytes_err a b H) as [E1 E2]. rewrite E1, E2.
    destruct (IO.wprog_verdict a); try (rewrite app_nil_r; split; reflexivity). exfalso. apply H. reflexivity.
Qed.

Lemma link_part_run c : link_wf (c_link c) = true ->
  IO.wprog_verdict (IO.opt_w (link_part c)) = IO.VOk /\ IO.wprog_bytes (IO.opt_w (link_part c)) = link_bytes c.
Proof.
  intros WL. pose proof (link_bytes_len c WL) as LL. unfold link_part.
  assert (G : IO.wprog_verdict (IO.opt_w (Some (part_n (link_len c) (link_bytes c)))) = IO.VOk /\
              IO.wprog_bytes (IO.opt_w (Some (part_n (link_len c) (link_bytes c)))) = link_bytes c).
  { cbn. rewrite app_nil_r. split; [reflexivity|apply fit_eq; exact LL]. }
  unfold link_bytes in *. destruct (c_link c); [split; reflexivity|exact G|exact G].
Qed.

Lemma vlan_parts_run c :
  IO.wprog_verdict (IO.parts_w (vlan_parts c)) = IO.VOk /\ IO.wprog_bytes (IO.parts_w (vlan_parts c)) = vlan_bytes c.
Proof.
  unfold vlan_parts, vlan_bytes. destruct (c_vlan c) as [|v|o i]; cbn; rewrite ?app_nil_r; split; reflexivity.
Qed.

Lemma tr_part_run t r tb : r = TOk tb -> len tb = tr_header_len t -> (forall n, t = TrNone n -> tb = []) ->
  IO.wprog_verdict (IO.opt_w (tr_part t r)) = IO.VOk /\ IO.wprog_bytes (IO.opt_w (tr_part t r)) = tb.
Proof.
  intros -> L NN. destruct t as [n| | | |]; cbn; rewrite ?app_nil_r;
    try (split; [reflexivity|apply fit_eq; exact L]).
  split; [reflexivity|]. symmetry. apply (NN n). reflexivity.
Qed.

Lemma ipv6_part_err e h x t p w : v6_size x t (len p) <= 65535 ->
  snd (XM.write (fst (XM.set_next_headers x (tr_ip_number t))) (snd (XM.set_next_headers x (tr_ip_number t)))) = XM.Err w ->
  ipv6_part e h x t p =
    (VdErr (EIpv6Exts w),
     BitFields.Model.Ipv6Header_to_bytes (v6_final h x t (len p))
     ++ fst (XM.write (fst (XM.set_next_headers x (tr_ip_number t))) (snd (XM.set_next_headers x (tr_ip_number t)))), []).
Proof.
  intros F WW. unfold ipv6_part. unfold v6_size in F.
  replace (65535 <? XM.header_len x + tr_header_len t + len p) with false by (symmetry; apply N.ltb_ge; lia).
  cbv zeta. destruct (XM.write _ _) as [xb r]. cbn [fst snd] in *. subst r. reflexivity.
Qed.

(* ------------------------------------------------------------------ the bridge *)
Theorem bridge e c p : cfg_wf c = true ->
  let prog := IO.final_write_with_net (bcfg_of e c p) p in
  IO.wprog_bytes prog = snd (build_run e c p) /\
  IO.wprog_verdict prog = verdict_of (fst (build_run e c p)).
Proof.
  intros W. cbv zeta. destruct (cfg_wf_inv c W) as (WL & WV & WN & WT & WS).
  destruct (link_part_run c WL) as (LV1 & LB1). destruct (vlan_parts_run c) as (LV2 & LB2).
  unfold IO.final_write_with_net, build_run, bcfg_of.
  destruct (c_net c) as [h x|h x|a] eqn:EN; cbn [net_wf] in WN;
    cbn [IO.b_link IO.b_vlan IO.b_net IO.b_pre IO.b_mid IO.b_transport].
  - (* IPv4 *)
    apply andb_true_iff in WN. destruct WN as [WH WX].
    destruct (v4_max h <? v4_value x (c_transport c) (len p)) eqn:EF.
    + apply N.ltb_lt in EF. rewrite (ipv4_part_too_big e h x _ p WH EF).
      repeat (rewrite ?(proj1 (wseq_run _ _)), ?(proj2 (wseq_run _ _))).
      rewrite LV1, LV2, LB1, LB2. cbn. rewrite !app_nil_r. split; reflexivity.
    + apply N.ltb_ge in EF.
      destruct (ipv4_part_fits e h x (c_transport c) p WH WX WT EF) as (hb & xb & EB & LH & EWR & LX & EP).
      rewrite EP. clear EP. rewrite EB. cbn [opt_bytes].
      destruct (snh4_facts x _ WX (tr_ip_number_lt _ WT)) as (V1 & _ & _).
      destruct (x4_bridge _ (snd (XM.set_next_headers4 x (tr_ip_number (c_transport c)))) V1) as (XB & XV).
      rewrite EWR in XB, XV. cbn [fst snd wverd] in XB, XV.
      destruct (Ipv4Proofs.wf_ip4_facts h WH) as (_ & _ & (LS & OS & LD & OD) & _).
      destruct (Ipv4Proofs.len4_explicit _ LS OS) as (s0 & s1 & s2 & s3 & ES & _).
      destruct (Ipv4Proofs.len4_explicit _ LD OD) as (d0 & d1 & d2 & d3 & ED & _).
      rewrite ES, ED.
      assert (HB : IO.wprog_verdict (IO.w1 (IO.p_enc (part_n (Ipv4.ip4_header_len h) hb))) = IO.VOk /\
                   IO.wprog_bytes (IO.w1 (IO.p_enc (part_n (Ipv4.ip4_header_len h) hb))) = hb).
      { cbn. rewrite app_nil_r. split; [reflexivity|apply fit_eq; exact LH]. }
      destruct HB as (HV & HB).
      destruct (is_icmpv6 (c_transport c)) eqn:EI.
      * destruct (c_transport c) as [n|sp dp|t|k|k]; try discriminate. cbn [tr_ipv4 tr_mid tr_part].
        repeat (rewrite ?(proj1 (wseq_run _ _)), ?(proj2 (wseq_run _ _))).
        rewrite LV1, LV2, LB1, LB2, HV, HB, XV, XB. cbn. rewrite !app_nil_r, <- !app_assoc. split; reflexivity.
      * assert (B : tr_header_len (c_transport c) + len p <= 65515) by (unfold v4_value, v4_max in EF; lia).
        destruct (tr_ipv4_ok e s0 s1 s2 s3 d0 d1 d2 d3 (c_transport c) (as_u16 (8 + len p)) p WT EI B) as (tb & ET & LT).
        rewrite ET. cbn [tr_mid].
        destruct (tr_part_run (c_transport c) (TOk tb) tb eq_refl LT) as (TV & TB).
        { intros n0 En. rewrite En in ET. cbn in ET. injection ET as <-. reflexivity. }
        repeat (rewrite ?(proj1 (wseq_run _ _)), ?(proj2 (wseq_run _ _))).
        rewrite LV1, LV2, LB1, LB2, HV, HB, XV, XB, TV, TB. cbn. rewrite !app_nil_r, <- !app_assoc. split; reflexivity.
  - (* IPv6 *)
    apply andb_true_iff in WN. destruct WN as [WH WX].
    destruct (65535 <? v6_size x (c_transport c) (len p)) eqn:EF.
    + apply N.ltb_lt in EF. rewrite (ipv6_part_too_big e h x _ p EF).
      repeat (rewrite ?(proj1 (wseq_run _ _)), ?(proj2 (wseq_run _ _))).
      rewrite LV1, LV2, LB1, LB2. cbn. rewrite !app_nil_r. split; reflexivity.
    + apply N.ltb_ge in EF.
      pose proof (ipv6_part_fits e h x (c_transport c) p WX WT EF) as PF. cbv zeta in PF.
      destruct (snh6_facts x _ WX (tr_ip_number_lt _ WT)) as (V1 & _ & _).
      destruct (x6_bridge _ (snd (XM.set_next_headers x (tr_ip_number (c_transport c)))) V1) as (XB & XV).
      pose proof (len_ip6_bytes (v6_final h x (c_transport c) (len p)) WH) as L6.
      set (H6 := BitFields.Model.Ipv6Header_to_bytes (v6_final h x (c_transport c) (len p))) in *.
      assert (HB : IO.wprog_verdict (IO.w1 (IO.p_enc (part_n 40 H6))) = IO.VOk /\
                   IO.wprog_bytes (IO.w1 (IO.p_enc (part_n 40 H6))) = H6).
      { cbn. rewrite app_nil_r. split; [reflexivity|apply fit_eq; exact L6]. }
      destruct HB as (HV & HB).
      destruct (XM.next_header _ _) as [n|w| |] eqn:ENH; try contradiction.
      * destruct PF as (xb & EWR & LX & EP). rewrite EP. clear EP.
        rewrite EWR in XB, XV. cbn [fst snd wverd] in XB, XV.
        unfold ip6_wf in WH. bsplit WH.
        assert (B : tr_header_len (c_transport c) + len p <= 65535) by (unfold v6_size in EF; lia).
        match goal with
        | H1 : len (BitFields.Model.v6_source h) = 16, H2 : len (BitFields.Model.v6_destination h) = 16 |- _ =>
          destruct (tr_ipv6_ok e _ _ (c_transport c) (as_u16 (8 + len p)) p H1 H2 WT B) as (tb & ET & LT)
        end.
        rewrite ET. cbn [tr_mid].
        destruct (tr_part_run (c_transport c) (TOk tb) tb eq_refl LT) as (TV & TB).
        { intros n0 En. rewrite En in ET. cbn in ET. injection ET as <-. reflexivity. }
        repeat (rewrite ?(proj1 (wseq_run _ _)), ?(proj2 (wseq_run _ _))).
        rewrite LV1, LV2, LB1, LB2, HV, HB, XV, XB, TV, TB. cbn. rewrite !app_nil_r, <- !app_assoc. split; reflexivity.
      * clear PF. pose proof (XP.write_iff_walk _ (snd (XM.set_next_headers x (tr_ip_number (c_transport c)))) V1) as WW.
        rewrite ENH in WW.
        rewrite (ipv6_part_err e h x (c_transport c) p w EF WW). fold H6.
        rewrite WW in XV. cbn [wverd] in XV.
        repeat (rewrite ?(proj1 (wseq_run _ _)), ?(proj2 (wseq_run _ _))).
        rewrite LV1, LV2, LB1, LB2, HV, HB, XV, XB. cbn. rewrite !app_nil_r, <- !app_assoc. split; reflexivity.
  - (* ARP *)
    pose proof (arp_bytes_len a WN) as LA.
    repeat (rewrite ?(proj1 (wseq_run _ _)), ?(proj2 (wseq_run _ _))).
    rewrite LV1, LV2, LB1, LB2.
    change (IO.p_enc (part_n (arp_packet_len a) (arp_to_bytes a))) with (fit (arp_packet_len a) (arp_to_bytes a)).
    rewrite (fit_eq _ _ LA). cbn [IO.wprog_bytes IO.wprog_verdict IO.w1 IO.opt_w fst snd verdict_of app].
    rewrite !app_nil_r, <- !app_assoc. split; reflexivity.
Qed.

(* ------------------------------------------------------------------ the three sinks *)
(* VecWriter (write_to_vec): every write_all succeeds and appends *)
Lemma run_vec p : forall v,
  IO.run_w IO.vec_write_all p v = (IO.ret_of (IO.wprog_verdict p), v ++ IO.wprog_bytes p).
Proof.
  induction p as [r|b k IH]; intros v; cbn [IO.run_w IO.wprog_verdict IO.wprog_bytes].
  - rewrite app_nil_r. reflexivity.
  - unfold IO.vec_write_all at 1. rewrite IH, <- app_assoc. reflexivity.
Qed.

(* For EVERY well-formed configuration and payload (error outcomes included), with
   (v, out) = build_run e c p -- the verdict and the bytes of this model:
     write_to_vec   appends exactly `out` and returns v;
     write          into a sink that fails at byte k: k >= |out| -> returns v, the sink got `out`;
                    k < |out| -> an Io error, the sink got the first k bytes of `out`;
     write_to_slice a buffer shorter than size() is refused untouched with Space(size());
                    otherwise returns v (Ok carries size()), the buffer starts with `out` and
                    everything behind it is untouched; on success |out| = size(). *)
Theorem three_sinks e c p : cfg_wf c = true ->
  let b := bcfg_of e c p in
  let out := snd (build_run e c p) in
  let v := verdict_of (fst (build_run e c p)) in
  let size := final_size c (len p) in
  IO.run_w IO.vec_write_all (IO.final_write_with_net b p) [] = (IO.ret_of v, out) /\
  (forall k chunk zero, 1 <= chunk ->
     let r := IO.builder_write b p (IOP.fresh_sink k chunk zero) in
     (len out <= k -> fst r = IO.ret_of v /\ IOS.fs_got (snd r) = out) /\
     (k < len out -> fst r = IO.RIo (if zero then IOS.KWriteZero else IOS.KOther) /\
                     IOS.fs_got (snd r) = take k out)) /\
  (forall buffer,
     (len buffer < size -> IO.final_write_to_slice b buffer p = (IO.BSpace size, buffer)) /\
     (size <= len buffer ->
        IO.final_write_to_slice b buffer p = (IOP.bres_of size v, out ++ drop (len out) buffer))) /\
  len out <= size /\ (v = IO.VOk -> len out = size).
Proof.
  intros W. cbv zeta. destruct (bridge e c p W) as (BB & BV). cbv zeta in BB, BV.
  pose proof (size_bridge e c p (len p) W) as SZ.
  split; [|split; [|split]].
  - rewrite run_vec, BB, BV. reflexivity.
  - intros k chunk zero HC. cbv zeta.
    destruct (IOP.builder_write_fault (bcfg_of e c p) p k chunk zero HC) as (F1 & F2 & _). cbv zeta in F1, F2.
    rewrite BB, BV in *. split.
    + intros H. exact (F2 H).
    + intros H. destruct (F1 H) as (A & B' & _). split; assumption.
  - intros buffer.
    destruct (IOP.final_write_to_slice_spec (bcfg_of e c p) buffer p (bcfg_of_wf e c p)) as (S1 & S2 & _).
    cbv zeta in S1, S2. rewrite SZ, BB, BV in *. split; assumption.
  - destruct (IOP.final_write_to_slice_spec (bcfg_of e c p) [] p (bcfg_of_wf e c p)) as (_ & _ & S3 & S4 & _).
    cbv zeta in S3, S4. rewrite SZ, BB, BV in *. split; assumption.
Qed.

(* the successful case in one line per sink: all three deliver `bs`; write_to_slice needs
   exactly size() = |bs| bytes *)
Corollary three_sinks_ok e c p bs : cfg_wf c = true -> build e c p = BOk bs ->
  let b := bcfg_of e c p in
  let size := final_size c (len p) in
  len bs = size /\
  IO.run_w IO.vec_write_all (IO.final_write_with_net b p) [] = (IO.ROk, bs) /\
  (forall k chunk zero, 1 <= chunk -> size <= k ->
     let r := IO.builder_write b p (IOP.fresh_sink k chunk zero) in fst r = IO.ROk /\ IOS.fs_got (snd r) = bs) /\
  (forall buffer,
     (len buffer < size -> IO.final_write_to_slice b buffer p = (IO.BSpace size, buffer)) /\
     (size <= len buffer -> IO.final_write_to_slice b buffer p = (IO.BOk size, bs ++ drop size buffer))).
Proof.
  intros W E. cbv zeta. pose proof (build_size e c p bs W E) as LS.
  destruct (three_sinks e c p W) as (T1 & T2 & T3 & _). cbv zeta in T1, T2, T3.
  unfold build in E. destruct (build_run e c p) as [[|er|s] out]; try discriminate. injection E as ->.
  cbn [fst snd verdict_of IO.ret_of IOP.bres_of] in *.
  split; [exact LS|]. split; [exact T1|]. split.
  - intros k chunk zero HC HK. destruct (T2 k chunk zero HC) as (A & _). apply A. rewrite LS. exact HK.
  - intros buffer. destruct (T3 buffer) as (A & B'). split; [exact A|]. rewrite LS in B'. exact B'.
Qed.

(* Builder.Model.write_to_slice (the abstract of write_to_slice in Model.v: result value only)
   is the result component of C16's final_write_to_slice on the bridged configuration *)
Definition sres_of (r : IO.bres) (c : cfg) (e : endian) (p : bytes) : sres :=
  match r with
  | IO.BOk n => SOk n
  | IO.BSpace n => SSpace n
  | IO.BContent _ => match fst (build_run e c p) with VdErr er => SErr er | _ => SPanic 0 end
  | IO.BPanic | IO.BFuel => SPanic 0
  end.

Theorem model_write_to_slice_is_c16 e c p buffer : cfg_wf c = true ->
  write_to_slice e c (len buffer) p = sres_of (fst (IO.final_write_to_slice (bcfg_of e c p) buffer p)) c e p.
Proof.
  intros W. destruct (three_sinks e c p W) as (_ & _ & T3 & _). cbv zeta in T3.
  destruct (T3 buffer) as (A & B'). unfold write_to_slice.
  destruct (len buffer <? final_size c (len p)) eqn:EL.
  - apply N.ltb_lt in EL. rewrite (A EL). reflexivity.
  - apply N.ltb_ge in EL. rewrite (B' EL). cbn [fst].
    pose proof (build_never_panics e c p) as NP. unfold build in NP. unfold sres_of.
    destruct (build_run e c p) as [[|er|s] out]; cbn [fst verdict_of IOP.bres_of]; try reflexivity.
    exfalso. eapply NP; [exact W|reflexivity].
Qed.
