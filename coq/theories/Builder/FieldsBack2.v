(* Builder/FieldsBack2.v -- property C10, audit round 3 (item 9), part 2: the layers with sub-octet
   fields (802.1Q tag, IPv6, IPv4, TCP) -- the C03 field specification evaluated on the encoders. *)
From Coq Require Import ZArith Lia ZifyN ZifyBool List.
From EP Require Import Base.Bytes Checksum.Spec Checksum.Model Checksum.Proofs.
From EP Require Import Checksum.ProtoTypes Checksum.ProtoSpec.
From EP Require Import Roundtrip.Common Roundtrip.CommonProofs.
From EP Require Roundtrip.Spec Roundtrip.SpecLinkNet Roundtrip.Tcp Roundtrip.TcpProofs Roundtrip.Ipv4 Roundtrip.Ipv4Proofs.
From EP Require BitFields.Model BitFields.Spec BitFields.Fields BitFields.BitLemmas BitFields.Proofs BitFields.Proofs2.
From EP Require Import Parse.Types Parse.Slices Parse.Cursor Parse.View Parse.WireSpec.
From EP Require Parse.StrictProofs Parse.FieldsProofs Parse.Access.
From EP Require Import Builder.Model Builder.Spec Builder.Proofs Builder.ProofsCk Builder.SpecX Builder.ProofsTr.
From EP Require Import Parse.Fields.
From EP Require Import Builder.FieldsBack.
Import ListNotations.
Local Open Scope N_scope.

Local Notation bfield := BitFields.Spec.field.
Local Notation bits_of := BitFields.Spec.bits_of.
Ltac dmlia := zify; Z.div_mod_to_equations; lia.

(* ------------------------------------------------------------------ IEEE 802.1Q tag *)
Definition vlan_cfgf (v : BitFields.Model.SingleVlanHeader) (et : N) : fl :=
  [(Fpcp, FvN (BitFields.Model.vlan_pcp v)); (Fdei, FvB (BitFields.Model.vlan_dei v));
   (Fvid, FvN (BitFields.Model.vlan_id v)); (Fether_type, FvN et)].

Lemma vlan_raw b0 b1 b2 b3 rest :
  vlan_spec (b0 :: b1 :: b2 :: b3 :: rest) 0 =
  [(Fpcp, FvN (bfield (bits_of [b0; b1]) 0 3)); (Fdei, FvB (bfield (bits_of [b0; b1]) 3 1 =? 1));
   (Fvid, FvN (bfield (bits_of [b0; b1]) 4 12)); (Fether_type, FvN (be16 b2 b3))].
Proof. reflexivity. Qed.

Lemma vlan_eval v et rest : vlan1_wf v = true -> et < 65536 ->
  vlan_spec (BitFields.Model.SingleVlanHeader_to_bytes (vlan_set_ether_type v et) ++ rest) 0 = vlan_cfgf v et.
Proof.
  intros Wv E. unfold vlan1_wf in Wv. apply andb_true_iff in Wv. destruct Wv as [P I].
  apply N.ltb_lt in P. apply N.ltb_lt in I.
  set (h := vlan_set_ether_type v et).
  assert (OK : BitFields.Fields.vlan_ok h).
  { unfold BitFields.Fields.vlan_ok, h, vlan_set_ether_type, BitFields.Model.VlanPcp_MAX_U8, BitFields.Model.VlanId_MAX_U16.
    cbn [BitFields.Model.vlan_pcp BitFields.Model.vlan_id BitFields.Model.vlan_ether_type]. lia. }
  pose proof (BitFields.Proofs.vlan_enc_layout h OK) as EL.
  assert (SH : exists b0 b1, BitFields.Model.SingleVlanHeader_to_bytes h =
                             [b0; b1; (et / 256) mod 256; et mod 256]).
  { eexists. eexists. reflexivity. }
  destruct SH as (b0 & b1 & SH). rewrite SH in *. cbn [app]. rewrite vlan_raw, (be16_u16 _ E).
  change [b0; b1; (et / 256) mod 256; et mod 256] with ([b0; b1] ++ [(et / 256) mod 256; et mod 256]) in EL.
  rewrite !(bfield_prefix [b0; b1] [(et / 256) mod 256; et mod 256]) by (cbn [length]; lia).
  rewrite EL. unfold BitFields.Fields.vlan_spec_layout, BitFields.Spec.vlan_layout, h, vlan_set_ether_type.
  cbn [BitFields.Model.vlan_pcp BitFields.Model.vlan_dei BitFields.Model.vlan_id BitFields.Model.vlan_ether_type].
  set (pcp := BitFields.Model.vlan_pcp v). set (dei := BitFields.Spec.b2n (BitFields.Model.vlan_dei v)).
  set (vid := BitFields.Model.vlan_id v). fold pcp in P. fold vid in I.
  change [BitFields.Spec.F 3 pcp; BitFields.Spec.F 1 dei; BitFields.Spec.F 12 vid; BitFields.Spec.F 16 et]
    with ([] ++ BitFields.Spec.F 3 pcp :: [BitFields.Spec.F 1 dei; BitFields.Spec.F 12 vid; BitFields.Spec.F 16 et]) at 1.
  rewrite (lfield [] 3 pcp _ 0) by (try reflexivity; change (2 ^ N.of_nat 3) with 8; exact P).
  change [BitFields.Spec.F 3 pcp; BitFields.Spec.F 1 dei; BitFields.Spec.F 12 vid; BitFields.Spec.F 16 et]
    with ([BitFields.Spec.F 3 pcp] ++ BitFields.Spec.F 1 dei :: [BitFields.Spec.F 12 vid; BitFields.Spec.F 16 et]) at 1.
  rewrite (lfield [BitFields.Spec.F 3 pcp] 1 dei _ 3)
    by (try reflexivity; unfold dei; destruct (BitFields.Model.vlan_dei v); cbv; reflexivity).
  change [BitFields.Spec.F 3 pcp; BitFields.Spec.F 1 dei; BitFields.Spec.F 12 vid; BitFields.Spec.F 16 et]
    with ([BitFields.Spec.F 3 pcp; BitFields.Spec.F 1 dei] ++ BitFields.Spec.F 12 vid :: [BitFields.Spec.F 16 et]).
  rewrite (lfield [BitFields.Spec.F 3 pcp; BitFields.Spec.F 1 dei] 12 vid _ 4)
    by (try reflexivity; change (2 ^ N.of_nat 12) with 4096; exact I).
  unfold dei, pcp, vid.
  unfold vlan_cfgf. destruct (BitFields.Model.vlan_dei v); reflexivity.
Qed.

(* ------------------------------------------------------------------ IPv6 *)
Definition ipv6_cfg (h : BitFields.Model.Ipv6Header) : fl :=
  [(Fversion, FvN 6); (Ftraffic_class, FvN (BitFields.Model.v6_traffic_class h));
   (Fflow_label, FvN (BitFields.Model.v6_flow_label h)); (Fpayload_len, FvN (BitFields.Model.v6_payload_length h));
   (Fnext_header, FvN (BitFields.Model.v6_next_header h)); (Fhop_limit, FvN (BitFields.Model.v6_hop_limit h));
   (Fsrc, FvBytes (BitFields.Model.v6_source h)); (Fdst, FvBytes (BitFields.Model.v6_destination h))].

Lemma ipv6_raw b0 b1 b2 b3 b4 b5 b6 b7 s0 s1 s2 s3 s4 s5 s6 s7 s8 s9 s10 s11 s12 s13 s14 s15
      d0 d1 d2 d3 d4 d5 d6 d7 d8 d9 d10 d11 d12 d13 d14 d15 rest :
  ipv6_spec (b0 :: b1 :: b2 :: b3 :: b4 :: b5 :: b6 :: b7 ::
             s0 :: s1 :: s2 :: s3 :: s4 :: s5 :: s6 :: s7 :: s8 :: s9 :: s10 :: s11 :: s12 :: s13 :: s14 :: s15 ::
             d0 :: d1 :: d2 :: d3 :: d4 :: d5 :: d6 :: d7 :: d8 :: d9 :: d10 :: d11 :: d12 :: d13 :: d14 :: d15 :: rest) 0 =
  [(Fversion, FvN (bfield (bits_of [b0]) 0 4)); (Ftraffic_class, FvN (bfield (bits_of [b0; b1]) 4 8));
   (Fflow_label, FvN (bfield (bits_of [b0; b1; b2; b3]) 12 20)); (Fpayload_len, FvN (be16 b4 b5));
   (Fnext_header, FvN b6); (Fhop_limit, FvN b7);
   (Fsrc, FvBytes [s0; s1; s2; s3; s4; s5; s6; s7; s8; s9; s10; s11; s12; s13; s14; s15]);
   (Fdst, FvBytes [d0; d1; d2; d3; d4; d5; d6; d7; d8; d9; d10; d11; d12; d13; d14; d15])].
Proof. reflexivity. Qed.

Lemma ipv6_eval h rest : ip6_wf h = true -> BitFields.Model.v6_payload_length h < 65536 ->
  BitFields.Model.v6_next_header h < 256 ->
  ipv6_spec (BitFields.Model.Ipv6Header_to_bytes h ++ rest) 0 = ipv6_cfg h.
Proof.
  intros WH PL NH. unfold ip6_wf in WH.
  repeat (apply andb_true_iff in WH; destruct WH as [WH ?]).
  repeat match goal with
         | X : (_ <? _) = true |- _ => apply N.ltb_lt in X
         | X : (_ =? _) = true |- _ => apply N.eqb_eq in X
         | X : bytes_okb _ = true |- _ => apply bytes_okb_spec in X
         end.
  assert (OK : BitFields.Fields.ipv6_ok h).
  { unfold BitFields.Fields.ipv6_ok, BitFields.Model.Ipv6FlowLabel_MAX_U32. repeat split; try assumption; lia. }
  pose proof (BitFields.Proofs.ipv6_enc_layout h OK) as EL.
  destruct h as [tc fl pl nh hop src dst].
  cbn [BitFields.Model.v6_traffic_class BitFields.Model.v6_flow_label BitFields.Model.v6_payload_length
       BitFields.Model.v6_next_header BitFields.Model.v6_hop_limit BitFields.Model.v6_source
       BitFields.Model.v6_destination] in *.
  match goal with L : len src = 16 |- _ => expl src L end.
  match goal with L : len dst = 16 |- _ => expl dst L end.
  unfold BitFields.Fields.ipv6_spec_layout, BitFields.Spec.ipv6_layout in EL.
  cbn [BitFields.Model.v6_traffic_class BitFields.Model.v6_flow_label BitFields.Model.v6_payload_length
       BitFields.Model.v6_next_header BitFields.Model.v6_hop_limit BitFields.Model.v6_source
       BitFields.Model.v6_destination] in EL.
  assert (SH : exists b0 b1 b2 b3 tl, BitFields.Model.Ipv6Header_to_bytes
             (BitFields.Model.mkIpv6 tc fl pl nh hop
                [x; x0; x1; x2; x3; x4; x5; x6; x7; x8; x9; x10; x11; x12; x13; x14]
                [x15; x16; x17; x18; x19; x20; x21; x22; x23; x24; x25; x26; x27; x28; x29; x30]) =
             b0 :: b1 :: b2 :: b3 :: tl /\
             tl = (pl / 256) mod 256 :: pl mod 256 :: nh :: hop ::
                [x; x0; x1; x2; x3; x4; x5; x6; x7; x8; x9; x10; x11; x12; x13; x14] ++
                [x15; x16; x17; x18; x19; x20; x21; x22; x23; x24; x25; x26; x27; x28; x29; x30]).
  { do 5 eexists. split; reflexivity. }
  destruct SH as (b0 & b1 & b2 & b3 & tl & SH & TL). rewrite SH in *. subst tl. cbn [app].
  rewrite ipv6_raw, (be16_u16 _ PL).
  set (tl := (pl / 256) mod 256 :: _) in EL.
  rewrite (bfield_prefix [b0] (b1 :: b2 :: b3 :: tl)) by (cbn [length]; lia).
  rewrite (bfield_prefix [b0; b1] (b2 :: b3 :: tl)) by (cbn [length]; lia).
  rewrite (bfield_prefix [b0; b1; b2; b3] tl) by (cbn [length]; lia).
  cbn [app]. rewrite EL.
  set (oc := BitFields.Spec.octets _).
  change ([BitFields.Spec.F 4 6; BitFields.Spec.F 8 tc; BitFields.Spec.F 20 fl; BitFields.Spec.F 16 pl;
           BitFields.Spec.F 8 nh; BitFields.Spec.F 8 hop] ++ oc)
    with ([] ++ BitFields.Spec.F 4 6 :: ([BitFields.Spec.F 8 tc; BitFields.Spec.F 20 fl; BitFields.Spec.F 16 pl;
           BitFields.Spec.F 8 nh; BitFields.Spec.F 8 hop] ++ oc)) at 1.
  rewrite (lfield [] 4 6 _ 0) by (try reflexivity; cbv; reflexivity).
  change ([BitFields.Spec.F 4 6; BitFields.Spec.F 8 tc; BitFields.Spec.F 20 fl; BitFields.Spec.F 16 pl;
           BitFields.Spec.F 8 nh; BitFields.Spec.F 8 hop] ++ oc)
    with ([BitFields.Spec.F 4 6] ++ BitFields.Spec.F 8 tc :: ([BitFields.Spec.F 20 fl; BitFields.Spec.F 16 pl;
           BitFields.Spec.F 8 nh; BitFields.Spec.F 8 hop] ++ oc)) at 1.
  rewrite (lfield [BitFields.Spec.F 4 6] 8 tc _ 4) by (try reflexivity; change (2 ^ N.of_nat 8) with 256; assumption).
  change ([BitFields.Spec.F 4 6; BitFields.Spec.F 8 tc; BitFields.Spec.F 20 fl; BitFields.Spec.F 16 pl;
           BitFields.Spec.F 8 nh; BitFields.Spec.F 8 hop] ++ oc)
    with ([BitFields.Spec.F 4 6; BitFields.Spec.F 8 tc] ++ BitFields.Spec.F 20 fl :: ([BitFields.Spec.F 16 pl;
           BitFields.Spec.F 8 nh; BitFields.Spec.F 8 hop] ++ oc)).
  rewrite (lfield [BitFields.Spec.F 4 6; BitFields.Spec.F 8 tc] 20 fl _ 12)
    by (try reflexivity; change (2 ^ N.of_nat 20) with 1048576; assumption).
  reflexivity.
Qed.

(* ------------------------------------------------------------------ options behind a fixed part *)
Lemma bytes_n_pre (pre tl : bytes) p n : p = len pre -> bytes_n (pre ++ tl) p n = bytes_n tl 0 n.
Proof.
  intros ->. unfold bytes_n. rewrite <- (N.add_0_r (len pre)), <- bytes_at_drop.
  rewrite ProofsCk.drop_front by reflexivity. reflexivity.
Qed.
Lemma bytes_n_front (o rest : bytes) n : n = len o -> bytes_n (o ++ rest) 0 n = o.
Proof. intros ->. apply (bytes_n_mid [] o rest 0 (len o)); reflexivity. Qed.

(* ------------------------------------------------------------------ IPv4 *)
Definition ipv4_cfg (h : Ipv4.Ipv4Header) : fl :=
  [(Fversion, FvN 4); (Fihl, FvN (5 + Ipv4.i4o_len (Ipv4.i4_options h) / 4));
   (Fdscp, FvN (Ipv4.i4_dscp h)); (Fecn, FvN (Ipv4.i4_ecn h)); (Ftotal_len, FvN (Ipv4.i4_total_len h));
   (Fident, FvN (Ipv4.i4_identification h)); (Fdf, FvB (Ipv4.i4_dont_fragment h));
   (Fmf, FvB (Ipv4.i4_more_fragments h)); (Ffrag_off, FvN (Ipv4.i4_fragment_offset h));
   (Fttl, FvN (Ipv4.i4_time_to_live h)); (Fprotocol, FvN (Ipv4.i4_protocol h));
   (Fchecksum, FvN (Ipv4.i4_header_checksum h));
   (Fsrc, FvN (be_num (Ipv4.i4_source h))); (Fdst, FvN (be_num (Ipv4.i4_destination h)));
   (Foptions, FvBytes (take (Ipv4.i4o_len (Ipv4.i4_options h)) (Ipv4.i4o_buf (Ipv4.i4_options h))))].

Lemma ipv4_raw b0 b1 b2 b3 b4 b5 b6 b7 b8 b9 b10 b11 b12 b13 b14 b15 b16 b17 b18 b19 tl hl :
  ipv4_spec (b0 :: b1 :: b2 :: b3 :: b4 :: b5 :: b6 :: b7 :: b8 :: b9 :: b10 :: b11 :: b12 :: b13 :: b14 :: b15
             :: b16 :: b17 :: b18 :: b19 :: tl) 0 hl =
  [(Fversion, FvN (bfield (bits_of [b0]) 0 4)); (Fihl, FvN (bfield (bits_of [b0]) 4 4));
   (Fdscp, FvN (bfield (bits_of [b1]) 0 6)); (Fecn, FvN (bfield (bits_of [b1]) 6 2));
   (Ftotal_len, FvN (be16 b2 b3)); (Fident, FvN (be16 b4 b5));
   (Fdf, FvB (bfield (bits_of [b6; b7]) 1 1 =? 1)); (Fmf, FvB (bfield (bits_of [b6; b7]) 2 1 =? 1));
   (Ffrag_off, FvN (bfield (bits_of [b6; b7]) 3 13));
   (Fttl, FvN b8); (Fprotocol, FvN b9); (Fchecksum, FvN (be16 b10 b11));
   (Fsrc, FvN (be_num [b12; b13; b14; b15])); (Fdst, FvN (be_num [b16; b17; b18; b19]));
   (Foptions, FvBytes (bytes_n tl 0 (hl - 20)))].
Proof.
  rewrite <- (bytes_n_pre [b0; b1; b2; b3; b4; b5; b6; b7; b8; b9; b10; b11; b12; b13; b14; b15; b16; b17; b18; b19]
                tl 20 (hl - 20) eq_refl).
  reflexivity.
Qed.

Lemma ipv4_eval h hb rest : Ipv4.wf_ip4 h = true -> Ipv4.ip4_to_bytes h = Some hb ->
  ipv4_spec (hb ++ rest) 0 (Ipv4.ip4_header_len h) = ipv4_cfg h.
Proof.
  intros W EB.
  destruct (Ipv4Proofs.wf_ip4_facts h W) as ((R1 & R2 & R3 & R4) & (R5 & R6 & R7 & R8) & _ & WO).
  destruct (Ipv4Proofs.wf_i4o_facts _ WO) as (OL & OM & BL & BO).
  destruct (Ipv4Proofs.ip4_to_bytes_wf h W) as (f & EF & ET). rewrite ET in EB. apply Some_inj in EB. subst hb.
  destruct (Ipv4Proofs.fixed_wf h (Ipv4.i4_header_checksum h) W)
    as (f' & EF' & _ & s0 & s1 & s2 & s3 & d0 & d1 & d2 & d3 & ES & ED & FX).
  rewrite EF in EF'. apply Some_inj in EF'. subst f'. rewrite FX. rewrite <- app_assoc. cbn [app].
  rewrite ipv4_raw. unfold Ipv4.ip4_header_len.
  replace (20 + Ipv4.i4o_len (Ipv4.i4_options h) - 20) with (Ipv4.i4o_len (Ipv4.i4_options h)) by lia.
  rewrite bytes_n_front by (symmetry; apply Ipv4Proofs.len_take_i4o; exact WO).
  rewrite (be16_u16 _ R3), (be16_u16 _ R4), (be16_u16 _ R8).
  (* byte 0 *)
  destruct (Ipv4Proofs.b0_dec (Ipv4.i4o_len (Ipv4.i4_options h)) OL OM) as (A1 & A2 & _ & A4 & _).
  rewrite <- Ipv4Proofs.byte0_is in A1, A2, A4. cbv zeta in A1, A2, A4. unfold shr, band in A1, A2.
  destruct (Parse.FieldsProofs.byte_facts _ A4) as (E1 & E2 & _).
  rewrite <- E1, <- E2, A1.
  assert (IHL : N.land (Ipv4.ip4_byte0 h) 15 = 5 + Ipv4.i4o_len (Ipv4.i4_options h) / 4).
  { clear - A2 OM OL. revert A2. generalize (N.land (Ipv4.ip4_byte0 h) 15). intros q A2.
    set (ol := Ipv4.i4o_len (Ipv4.i4_options h)) in *. dmlia. }
  rewrite IHL.
  (* byte 1 *)
  destruct (Ipv4Proofs.b1_dec (Ipv4.i4_dscp h) (Ipv4.i4_ecn h) R1 R2) as (B1 & B2 & B3 & _).
  rewrite <- Ipv4Proofs.byte1_is in B1, B2, B3. cbv zeta in B1, B2, B3. unfold shr, band in B1, B2.
  destruct (BitFields.Proofs2.raw_fields_ipv4_1 _ B3) as (E3 & E4).
  rewrite <- E3, <- E4, B1, B2.
  (* bytes 6, 7 *)
  pose proof (Ipv4Proofs.frag_hi _ R5) as HI.
  destruct (Ipv4Proofs.b6_dec (Ipv4.i4_dont_fragment h) (Ipv4.i4_more_fragments h) _ HI) as (C1 & C2 & C3 & C4 & _).
  rewrite <- Ipv4Proofs.byte6_is in C1, C2, C3, C4. cbv zeta in C1, C2, C3, C4. unfold band in C1, C2, C3.
  assert (B7 : Ipv4.ip4_byte7 h < 256) by (unfold Ipv4.ip4_byte7; apply N.mod_lt; lia).
  destruct (BitFields.Proofs2.raw_fields_ipv4_67 _ _ C4 B7) as (E5 & E6 & E7).
  rewrite (Parse.FieldsProofs.flag_of_b2n _ _ E5), (Parse.FieldsProofs.flag_of_b2n _ _ E6), <- E7.
  change (BitFields.Model.nonzero (N.land (Ipv4.ip4_byte6 h) 64)) with (nz (N.land (Ipv4.ip4_byte6 h) 64)).
  change (BitFields.Model.nonzero (N.land (Ipv4.ip4_byte6 h) 32)) with (nz (N.land (Ipv4.ip4_byte6 h) 32)).
  rewrite C1, C2, C3. unfold Ipv4.ip4_byte7.
  rewrite (be16_u16 (Ipv4.i4_fragment_offset h)) by lia.
  unfold ipv4_cfg. rewrite ES, ED. reflexivity.
Qed.

(* ------------------------------------------------------------------ TCP *)
Definition tcp_cfg (t : Tcp.TcpHeader) (ck : N) : fl :=
  [(Fsrc_port, FvN (Tcp.source_port t)); (Fdst_port, FvN (Tcp.destination_port t));
   (Fseq, FvN (Tcp.sequence_number t)); (Fack_nr, FvN (Tcp.acknowledgment_number t));
   (Fdata_offset, FvN (5 + Tcp.o_len (Tcp.options t) / 4));
   (Fns, FvB (Tcp.ns t)); (Fcwr, FvB (Tcp.cwr t)); (Fece, FvB (Tcp.ece t)); (Furg, FvB (Tcp.urg t));
   (Fack, FvB (Tcp.ack t)); (Fpsh, FvB (Tcp.psh t)); (Frst, FvB (Tcp.rst t)); (Fsyn, FvB (Tcp.syn t));
   (Ffin, FvB (Tcp.fin t)); (Fwindow, FvN (Tcp.window_size t)); (Fchecksum, FvN ck);
   (Furgent, FvN (Tcp.urgent_pointer t));
   (Foptions, FvBytes (take (Tcp.o_len (Tcp.options t)) (Tcp.o_buf (Tcp.options t))))].

Lemma tcp_raw b0 b1 b2 b3 b4 b5 b6 b7 b8 b9 b10 b11 b12 b13 b14 b15 b16 b17 b18 b19 tl hl :
  tcp_spec (b0 :: b1 :: b2 :: b3 :: b4 :: b5 :: b6 :: b7 :: b8 :: b9 :: b10 :: b11 :: b12 :: b13 :: b14 :: b15
            :: b16 :: b17 :: b18 :: b19 :: tl) 0 hl =
  [(Fsrc_port, FvN (be16 b0 b1)); (Fdst_port, FvN (be16 b2 b3)); (Fseq, FvN (be_num [b4; b5; b6; b7]));
   (Fack_nr, FvN (be_num [b8; b9; b10; b11])); (Fdata_offset, FvN (bfield (bits_of [b12]) 0 4));
   (Fns, FvB (bfield (bits_of [b12]) 7 1 =? 1)); (Fcwr, FvB (bfield (bits_of [b13]) 0 1 =? 1));
   (Fece, FvB (bfield (bits_of [b13]) 1 1 =? 1)); (Furg, FvB (bfield (bits_of [b13]) 2 1 =? 1));
   (Fack, FvB (bfield (bits_of [b13]) 3 1 =? 1)); (Fpsh, FvB (bfield (bits_of [b13]) 4 1 =? 1));
   (Frst, FvB (bfield (bits_of [b13]) 5 1 =? 1)); (Fsyn, FvB (bfield (bits_of [b13]) 6 1 =? 1));
   (Ffin, FvB (bfield (bits_of [b13]) 7 1 =? 1));
   (Fwindow, FvN (be16 b14 b15)); (Fchecksum, FvN (be16 b16 b17)); (Furgent, FvN (be16 b18 b19));
   (Foptions, FvBytes (bytes_n tl 0 (hl - 20)))].
Proof.
  rewrite <- (bytes_n_pre [b0; b1; b2; b3; b4; b5; b6; b7; b8; b9; b10; b11; b12; b13; b14; b15; b16; b17; b18; b19]
                tl 20 (hl - 20) eq_refl).
  reflexivity.
Qed.

Lemma b12_facts d ns : d < 16 ->
  bfield (bits_of [d * 16 + bit ns]) 0 4 = d /\ (bfield (bits_of [d * 16 + bit ns]) 7 1 =? 1) = ns.
Proof.
  intros H.
  assert (C : d = 0 \/ d = 1 \/ d = 2 \/ d = 3 \/ d = 4 \/ d = 5 \/ d = 6 \/ d = 7 \/ d = 8 \/ d = 9 \/ d = 10
              \/ d = 11 \/ d = 12 \/ d = 13 \/ d = 14 \/ d = 15) by lia.
  repeat (destruct C as [->|C]); try subst d; destruct ns; vm_compute; split; reflexivity.
Qed.

Lemma b13_facts cwr ece urg ack psh rst syn fin :
  let b := bit cwr * 128 + bit ece * 64 + bit urg * 32 + bit ack * 16 + bit psh * 8 + bit rst * 4 + bit syn * 2 + bit fin in
  (bfield (bits_of [b]) 0 1 =? 1) = cwr /\ (bfield (bits_of [b]) 1 1 =? 1) = ece /\
  (bfield (bits_of [b]) 2 1 =? 1) = urg /\ (bfield (bits_of [b]) 3 1 =? 1) = ack /\
  (bfield (bits_of [b]) 4 1 =? 1) = psh /\ (bfield (bits_of [b]) 5 1 =? 1) = rst /\
  (bfield (bits_of [b]) 6 1 =? 1) = syn /\ (bfield (bits_of [b]) 7 1 =? 1) = fin.
Proof. destruct cwr, ece, urg, ack, psh, rst, syn, fin; vm_compute; repeat split; reflexivity. Qed.

Lemma be_num_u32 v : v < 4294967296 -> be_num (to_be32 v) = v.
Proof.
  intros H. rewrite <- u32_digits. unfold u32_to_be. rewrite <- Parse.FieldsProofs.be32_num.
  apply u32_be_roundtrip. exact H.
Qed.

Lemma tcp_eval t ck rest : Tcp.wf_tcp t = true -> ck < 65536 ->
  tcp_spec (tcp_wire (tcp_hdr_of t) ck ++ rest) 0 (Tcp.header_len t) = tcp_cfg t ck.
Proof.
  intros W C. destruct (TcpProofs.wf_tcp_facts t W) as (H1 & H2 & H3 & H4 & H5 & H6 & H7 & WO).
  destruct (TcpProofs.opt_wf_facts _ WO) as (OL & OM & BL & BO).
  pose proof (TcpProofs.len_take_opts t W) as LO.
  unfold tcp_wire, tcp_data_offset, tcp_hdr_of.
  cbn [t_sport t_dport t_seq t_ack_no t_ns t_fin t_syn t_rst t_psh t_ack t_urg t_ece t_cwr t_window t_urgent t_options].
  rewrite LO. set (opts := take (Tcp.o_len (Tcp.options t)) (Tcp.o_buf (Tcp.options t))) in *.
  pose proof (be_num_u32 _ H3) as S1. pose proof (be_num_u32 _ H4) as S2.
  unfold w16, w32, to_be16, to_be32 in *. rewrite <- !app_assoc. cbn [app].
  rewrite tcp_raw. unfold Tcp.header_len.
  replace (20 + Tcp.o_len (Tcp.options t) - 20) with (Tcp.o_len (Tcp.options t)) by lia.
  rewrite bytes_n_front by (symmetry; exact LO).
  rewrite (be16_u16 _ H1), (be16_u16 _ H2), (be16_u16 _ H5), (be16_u16 _ H7), (be16_u16 _ C), S1, S2.
  assert (D : 5 + Tcp.o_len (Tcp.options t) / 4 < 16) by (clear - OL; dmlia).
  destruct (b12_facts _ (Tcp.ns t) D) as (F1 & F2). rewrite F1, F2.
  pose proof (b13_facts (Tcp.cwr t) (Tcp.ece t) (Tcp.urg t) (Tcp.ack t) (Tcp.psh t) (Tcp.rst t) (Tcp.syn t) (Tcp.fin t)) as F.
  cbv zeta in F. destruct F as (G0 & G1 & G2 & G3 & G4 & G5 & G6 & G7).
  rewrite G0, G1, G2, G3, G4, G5, G6, G7. reflexivity.
Qed.
