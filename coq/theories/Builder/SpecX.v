(* Builder/SpecX.v -- property C10, second part of the specification side (definitions only):
     - the configured transport header seen as the INPUT value of the protocol
       checksum functions of C09 (Checksum/ProtoTypes.v), so that the C09 theorems
       apply to what the builder computes,
     - which bytes a transport checksum covers (pseudo header) and where its field is,
     - which ether type / ip number has to stand in front of every configured layer,
     - the packet view the wire reference decoder of C03 has to return for a
       configuration with extension headers (generalises `expected` of Builder/Spec.v). *)
From EP Require Import Base.Bytes Checksum.Spec Checksum.ProtoTypes Checksum.ProtoSpec.
From EP Require Import Parse.Types Parse.View.
From EP Require Parse.WireSpec.
From EP Require ExtChain.Spec ExtChain.Model ExtChain.View.
From EP Require Import Builder.Model Builder.Spec.
Local Open Scope N_scope.

(* ------------------------------------------------------------------ C09 input values *)
Definition ip4_of (l : bytes) : option ip4 :=
  match l with [a; b; c; d] => Some (a, b, c, d) | _ => None end.

(* TcpHeader (C08 record, option buffer + length) as the C09 record (visible options) *)
Definition tcp_hdr_of (t : Tcp.TcpHeader) : tcp_hdr :=
  {| t_sport := Tcp.source_port t; t_dport := Tcp.destination_port t;
     t_seq := Tcp.sequence_number t; t_ack_no := Tcp.acknowledgment_number t;
     t_ns := Tcp.ns t; t_fin := Tcp.fin t; t_syn := Tcp.syn t; t_rst := Tcp.rst t;
     t_psh := Tcp.psh t; t_ack := Tcp.ack t; t_urg := Tcp.urg t; t_ece := Tcp.ece t;
     t_cwr := Tcp.cwr t; t_window := Tcp.window_size t; t_urgent := Tcp.urgent_pointer t;
     t_options := take (Tcp.o_len (Tcp.options t)) (Tcp.o_buf (Tcp.options t)) |}.

(* the configured message type as the C09 input value (Model.c09_icmp4 / c09_icmp6) *)
Definition icmp4_of (t : CtlMsg.Spec.Icmpv4Type) : option icmp4_type := Some (c09_icmp4 t).
Definition icmp6_of (t : CtlMsg.Spec.Icmpv6Type) : option icmp6_type := Some (c09_icmp6 t).

(* the TransportHeader value on which update_checksum_ipv4/_ipv6 is called:
   udp.length has been set to `udp_length` before *)
Definition th_of (t : transport_cfg) (udp_length : N) : option transport_hdr :=
  match t with
  | TrNone _ => None
  | TrUdp sp dp => Some (THUdp {| u_sport := sp; u_dport := dp; u_length := udp_length |})
  | TrTcp h => Some (THTcp (tcp_hdr_of h))
  | TrIcmpv4 k => option_map THIcmp4 (icmp4_of k)
  | TrIcmpv6 k => option_map THIcmp6 (icmp6_of k)
  end.

(* the RFC layout (Checksum/ProtoSpec.v) of a transport header with checksum field ck *)
Definition th_wire (th : transport_hdr) (ck : N) : bytes :=
  match th with
  | THUdp h => udp_wire h ck
  | THTcp h => tcp_wire h ck
  | THIcmp4 t => icmp4_wire t ck
  | THIcmp6 t => icmp6_wire t ck
  end.

(* ------------------------------------------------------------------ transport checksums *)
(* offset of the checksum field in the transport header: RFC 768, 9293, 792, 4443 *)
Definition ck_field_off (t : transport_cfg) : N :=
  match t with TrUdp _ _ => 6 | TrTcp _ => 16 | _ => 2 end.

(* the pseudo header in front of a segment of seg_len bytes; None = no checksum
   (raw payload, ARP) or a combination the builder refuses (ICMPv6 in IPv4) *)
Definition ck_pseudo (c : cfg) (seg_len : N) : option bytes :=
  match c_net c, c_transport c with
  | NtIpv4 h _, TrUdp _ _ => Some (pseudo4 (Ipv4.i4_source h) (Ipv4.i4_destination h) 17 seg_len)
  | NtIpv4 h _, TrTcp _ => Some (pseudo4 (Ipv4.i4_source h) (Ipv4.i4_destination h) 6 seg_len)
  | NtIpv4 _ _, TrIcmpv4 _ => Some []
  | NtIpv6 h _, TrUdp _ _ =>
      Some (pseudo6 (BitFields.Model.v6_source h) (BitFields.Model.v6_destination h) seg_len 17)
  | NtIpv6 h _, TrTcp _ =>
      Some (pseudo6 (BitFields.Model.v6_source h) (BitFields.Model.v6_destination h) seg_len 6)
  | NtIpv6 _ _, TrIcmpv4 _ => Some []
  | NtIpv6 h _, TrIcmpv6 _ =>
      Some (pseudo6 (BitFields.Model.v6_source h) (BitFields.Model.v6_destination h) seg_len 58)
  | _, _ => None
  end.

(* the value the RFC prescribes for the field: UDP transmits 0 as 0xffff *)
Definition ck_value (t : transport_cfg) (v : N) : N :=
  match t with TrUdp _ _ => no_zero v | _ => v end.

(* ------------------------------------------------------------------ next-protocol fields *)
(* ether type announced by the link header: the first VLAN tag or the net layer *)
Definition link_announces (c : cfg) : N :=
  match c_vlan c with
  | VlNone => net_ether_type (c_net c)
  | VlSingle _ => 33024                (* 0x8100 customer tag *)
  | VlDouble _ _ => 34984              (* 0x88a8 service tag *)
  end.

(* the extension headers of a configuration in wire (= RFC 8200 4.1) order:
   position, kind, length *)
Definition ext_len6 (x : ExtChain.Model.Exts6) (k : ExtChain.Spec.ext_kind) : option N :=
  match k with
  | ExtChain.Spec.KHopByHop => option_map ExtChain.Model.raw_header_len (ExtChain.Model.hop_by_hop_options x)
  | ExtChain.Spec.KDestOpts => option_map ExtChain.Model.raw_header_len (ExtChain.Model.destination_options x)
  | ExtChain.Spec.KRouting =>
      option_map (fun r => ExtChain.Model.raw_header_len (ExtChain.Model.rt_routing r)) (ExtChain.Model.routing x)
  | ExtChain.Spec.KFragment => option_map ExtChain.Model.frag_header_len (ExtChain.Model.fragment x)
  | ExtChain.Spec.KAuth => option_map ExtChain.Model.auth_header_len (ExtChain.Model.auth x)
  | ExtChain.Spec.KFinalDestOpts =>
      match ExtChain.Model.routing x with
      | Some r => option_map ExtChain.Model.raw_header_len (ExtChain.Model.rt_final_destination_options r)
      | None => None
      end
  end.
Definition ext_layout6 (x : ExtChain.Model.Exts6) : list (ExtChain.Spec.ext_kind * N) :=
  ExtChain.Spec.in_rfc_order (ext_len6 x).
Definition ext_layout4 (x : ExtChain.Model.Exts4) : list (ExtChain.Spec.ext_kind * N) :=
  match ExtChain.Model.auth4 x with
  | Some a => [(ExtChain.Spec.KAuth, ExtChain.Model.auth_header_len a)]
  | None => []
  end.
Definition ext_layout (c : cfg) : list (ExtChain.Spec.ext_kind * N) :=
  match c_net c with
  | NtIpv4 _ x => ext_layout4 x
  | NtIpv6 _ x => ext_layout6 x
  | NtArp _ => []
  end.

(* "every header names the one that follows": `first` is the number announced in
   front of position pos; each extension header of the layout starts with the
   number of its successor, the last one with `last` *)
Fixpoint chain_at (B : N -> N) (pos first : N) (l : list (ExtChain.Spec.ext_kind * N)) (last : N) : Prop :=
  match l with
  | [] => first = last
  | (k, hl) :: r => first = ExtChain.Spec.ip_number_of k /\ chain_at B (pos + hl) (B pos) r last
  end.

(* offset of the IP header field that announces the first header behind it *)
Definition ip_next_field_off (c : cfg) : N :=
  match c_net c with NtIpv4 _ _ => off_net c + 9 | _ => off_net c + 6 end.

(* ------------------------------------------------------------------ extension headers in detail *)
(* what the reference decoder reads in an extension header besides its first byte:
   RFC 8200 4.3/4.4/4.6 Hdr Ext Len (8-octet units, not counting the first 8),
   RFC 8200 4.5 fragment offset / M flag, RFC 4302 2.2 payload len (4-octet units minus 2) *)
Definition ext_hdr_at (B : N -> N) (pos : N) (k : ExtChain.Spec.ext_kind) (hl : N) (fr : bool) : Prop :=
  match k with
  | ExtChain.Spec.KFragment =>
      hl = 8 /\
      (negb (B (pos + 3) mod 2 =? 0) || negb ((B (pos + 2) * 256 + B (pos + 2 + 1)) / 8 =? 0)) = fr
  | ExtChain.Spec.KAuth => B (pos + 1) <> 0 /\ (B (pos + 1) + 2) * 4 = hl /\ 12 <= hl /\ fr = false
  | _ => (B (pos + 1) + 1) * 8 = hl /\ 8 <= hl /\ fr = false
  end.

(* layout entry: kind, length, "this header makes the payload a fragment" *)
Fixpoint chain_full (B : N -> N) (pos first : N) (l : list (ExtChain.Spec.ext_kind * (N * bool))) (last : N) : Prop :=
  match l with
  | [] => first = last
  | (k, (hl, fr)) :: r =>
      first = ExtChain.Spec.ip_number_of k /\ ext_hdr_at B pos k hl fr /\
      chain_full B (pos + hl) (B pos) r last
  end.

Definition ext_info6 (x : ExtChain.Model.Exts6) (k : ExtChain.Spec.ext_kind) : option (N * bool) :=
  match k with
  | ExtChain.Spec.KFragment =>
      option_map (fun f => (8, ExtChain.Model.frag_is_fragmenting_payload f)) (ExtChain.Model.fragment x)
  | _ => option_map (fun l => (l, false)) (ext_len6 x k)
  end.
Definition ext_layout6_full (x : ExtChain.Model.Exts6) : list (ExtChain.Spec.ext_kind * (N * bool)) :=
  ExtChain.Spec.in_rfc_order (ext_info6 x).
Definition ext_layout_full (c : cfg) : list (ExtChain.Spec.ext_kind * (N * bool)) :=
  match c_net c with
  | NtIpv4 _ x =>
      match ExtChain.Model.auth4 x with
      | Some a => [(ExtChain.Spec.KAuth, (ExtChain.Model.auth_header_len a, false))]
      | None => []
      end
  | NtIpv6 _ x => ext_layout6_full x
  | NtArp _ => []
  end.

(* the chain statement needs the extension chain to be linked up to the transport
   number: always for udp / tcp / icmp; for write(ip_number, ..) over IPv6 only when
   ip_number is not itself an extension header number (C12_link_write_order) *)
Definition chain_pre (c : cfg) : bool :=
  match c_net c with
  | NtIpv6 _ _ => negb (ExtChain.Spec.is_ext_number (tr_ip_number (c_transport c)))
  | _ => true
  end.

(* ------------------------------------------------------------------ expected view, extension headers included *)
(* generalises `expected` of Builder/Spec.v (equal to it when no_exts holds:
   ProofsPb.expected_x_no_exts): the IPv4 authentication header window, the IPv6
   extension area (first announced number, total length, fragmenting fragment header) *)
Definition is_fragmented_x (c : cfg) : bool :=
  match c_net c with
  | NtIpv4 h _ => ipv4_frag h
  | NtIpv6 _ x => ExtChain.Model.is_fragmenting_payload x
  | NtArp _ => false
  end.

Definition first_ext_number (c : cfg) : option N :=
  match ext_layout c with
  | (k, _) :: _ => Some (ExtChain.Spec.ip_number_of k)
  | [] => None
  end.

Definition exp_net_x (c : cfg) (total : N) : option vnet :=
  let pw := (off_transport c, total - off_transport c) in
  let n := tr_ip_number (c_transport c) in
  match c_net c with
  | NtIpv4 h x =>
      Some (VIpv4 (off_net c, Ipv4.ip4_header_len h)
              (match ExtChain.Model.auth4 x with
               | Some a => Some (off_exts c, ExtChain.Model.auth_header_len a)
               | None => None
               end)
              (mkVIp n (ipv4_frag h) LsIpv4HeaderTotalLen pw))
  | NtIpv6 _ x =>
      let fr := ExtChain.Model.is_fragmenting_payload x in
      Some (VIpv6 (off_net c, 40) (first_ext_number c) fr (off_exts c, ExtChain.Model.header_len x)
              (mkVIp n fr LsIpv6HeaderPayloadLen pw))
  | NtArp a => Some (VArp (off_net c, arp_packet_len a))
  end.

Definition expected_x (c : cfg) (plen : N) : vpacket :=
  let total := final_size c plen in
  mkVPacket (exp_link c total) (exp_exts c total) (exp_net_x c total)
            (match c_net c with
             | NtArp _ => None
             | _ => if is_fragmented_x c then None else exp_transport c total
             end).

(* the entry point of the reference decoder that matches the link layer of the builder *)
Definition wire_entry (c : cfg) (bs : bytes) : vres :=
  match c_link c with
  | LkEthernet2 _ _ => EP.Parse.WireSpec.wire_ethernet bs
  | LkLinuxSll _ _ _ => EP.Parse.WireSpec.wire_linux_sll bs
  | LkNone => EP.Parse.WireSpec.wire_from_ip bs
  end.

(* ------------------------------------------------------------------ the layers in front of the transport position *)
(* what the decoder has recovered when it reaches the IP header / the transport position *)
Definition link_view (c : cfg) (total : N) : vpacket :=
  mkVPacket (exp_link c total) (exp_exts c total) None None.
Definition upto_net (c : cfg) (plen : N) : vpacket :=
  let total := final_size c plen in
  mkVPacket (exp_link c total) (exp_exts c total) (exp_net_x c total) None.
(* the length field that bounds the IP payload *)
Definition ip_len_src (c : cfg) : len_source :=
  match c_net c with NtIpv4 _ _ => LsIpv4HeaderTotalLen | _ => LsIpv6HeaderPayloadLen end.

(* the number announced in front of the transport position is not one the decoder reads
   as a further extension header: IPv4 -- not 51 (authentication header); IPv6 -- not
   0 / 43 / 44 / 51 / 60.  Always true for udp / tcp / icmpv4 / icmpv6. *)
Definition chain_ok (c : cfg) : bool :=
  match c_net c with
  | NtIpv4 _ _ => negb (tr_ip_number (c_transport c) =? 51)
  | NtIpv6 _ _ => negb (ExtChain.Spec.is_ext_number (tr_ip_number (c_transport c)))
  | NtArp _ => true
  end.

(* the layer named by a refused ICMPv4 timestamp message *)
Definition ts_layer (t : CtlMsg.Spec.Icmpv4Type) : layer :=
  if fst (icmp4_tc t) =? 13 then LyIcmpv4Timestamp else LyIcmpv4TimestampReply.
