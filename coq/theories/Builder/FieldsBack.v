(* Builder/FieldsBack.v -- property C10, audit round 3 (item 9): the header FIELD VALUES that the
   accessors of the strict slicing result return on the built bytes are the supplied values.

   C03 (Parse/Fields.v, FieldsProofs.v): for every strict result sp of the slicer model on bs,
     fields_of_packet sp = Ok (spec_fields bs (view sp))
   (accessor models of the slices stored in sp = the RFC fields at the layers' absolute positions).
   C10_crate_parse_back: on built bytes the slicer model returns Ok sp with view sp = expected_x.
   Here: spec_fields bs (expected_x c |p|) is EVALUATED on the built bytes, layer by layer, to the list
   `cfg_fields` written from the configuration alone.  No new model: composition + evaluation of the
   C03 field specification on the encoders of Builder/Model.v (C08 / C09 / C15 layouts). *)
From Coq Require Import ZArith Lia ZifyN ZifyBool List.
From EP Require Import Base.Bytes Checksum.Spec Checksum.Model Checksum.Proofs.
From EP Require Import Checksum.ProtoTypes Checksum.ProtoSpec.
From EP Require Import Roundtrip.Common Roundtrip.CommonProofs.
From EP Require Roundtrip.Spec Roundtrip.SpecLinkNet Roundtrip.Tcp Roundtrip.TcpProofs Roundtrip.Ipv4 Roundtrip.Ipv4Proofs.
From EP Require CtlMsg.Spec CtlMsg.Model Roundtrip.Icmp4 Roundtrip.Icmp6.
From EP Require ExtChain.Spec ExtChain.Model ExtChain.View ExtChain.Proofs BitFields.Model BitFields.Spec
  BitFields.BitLemmas BitFields.Proofs BitFields.Proofs2.
From EP Require Import Parse.Types Parse.Slices Parse.Cursor Parse.View Parse.WireSpec.
From EP Require Parse.StrictProofs Parse.FieldsProofs.
From EP Require Import Builder.Model Builder.Spec Builder.Proofs Builder.ProofsCk Builder.SpecX Builder.ProofsTr
  Builder.ProofsNx Builder.ProofsPb Builder.ProofsVal Builder.ProofsEx Builder.ProofsCrate.
From EP Require Import Parse.Fields.
Import ListNotations.
Local Open Scope N_scope.

Local Notation bfield := BitFields.Spec.field.
Local Notation bits_of := BitFields.Spec.bits_of.

(* ------------------------------------------------------------------ lists of a known length *)
Lemma len_S {A} (l : list A) n : len l = N.succ n -> exists x r, l = x :: r /\ len r = n.
Proof.
  destruct l as [|x r]; intros H; [rewrite len_nil in H; lia|]. exists x, r. split; [reflexivity|].
  rewrite len_cons in H. lia.
Qed.

Ltac expl l L :=
  let rec go l L :=
    lazymatch type of L with
    | len l = 0 => apply len_0_nil in L; subst l
    | len l = ?n =>
        let x := fresh "x" in let r := fresh "r" in let L' := fresh "L" in
        let k := eval vm_compute in (N.pred n) in
        destruct (len_S l k L) as (x & r & -> & L'); clear L; go r L'
    end in go l L.

(* ------------------------------------------------------------------ the field specification is local *)
Lemma bytes_at_drop bs p n : forall i, bytes_at (drop p bs) i n = bytes_at bs (p + i) n.
Proof.
  induction n as [|n IH]; intros i; cbn [bytes_at]; [reflexivity|].
  rewrite B_drop, IH. now rewrite N.add_assoc.
Qed.

Ltac shift :=
  unfold W, num_at, flag, bits, bytes_n; rewrite ?B_drop, ?bytes_at_drop, ?N.add_assoc, ?N.add_0_r; reflexivity.

Lemma eth_shift bs p : eth_spec bs p = eth_spec (drop p bs) 0.
Proof. unfold eth_spec. shift. Qed.
Lemma sll_shift bs p : sll_spec bs p = sll_spec (drop p bs) 0.
Proof. unfold sll_spec. shift. Qed.
Lemma vlan_shift bs p : vlan_spec bs p = vlan_spec (drop p bs) 0.
Proof. unfold vlan_spec. shift. Qed.
Lemma arp_shift bs p : arp_spec bs p = arp_spec (drop p bs) 0.
Proof. unfold arp_spec. cbv zeta. shift. Qed.
Lemma ipv4_shift bs p hl : ipv4_spec bs p hl = ipv4_spec (drop p bs) 0 hl.
Proof. unfold ipv4_spec. shift. Qed.
Lemma ah_shift bs p l : ah_spec bs p l = ah_spec (drop p bs) 0 l.
Proof. unfold ah_spec. shift. Qed.
Lemma ipv6_shift bs p : ipv6_spec bs p = ipv6_spec (drop p bs) 0.
Proof. unfold ipv6_spec. shift. Qed.
Lemma udp_shift bs p : udp_spec bs p = udp_spec (drop p bs) 0.
Proof. unfold udp_spec. shift. Qed.
Lemma tcp_shift bs p hl : tcp_spec bs p hl = tcp_spec (drop p bs) 0 hl.
Proof. unfold tcp_spec. shift. Qed.
Lemma icmp_shift bs p : icmp_spec bs p = icmp_spec (drop p bs) 0.
Proof. unfold icmp_spec. shift. Qed.
Lemma raw_ext_shift bs p l : raw_ext_spec bs p l = raw_ext_spec (drop p bs) 0 l.
Proof. unfold raw_ext_spec. shift. Qed.
Lemma frag_shift bs p : frag_spec bs p = frag_spec (drop p bs) 0.
Proof. unfold frag_spec. shift. Qed.

(* ------------------------------------------------------------------ helpers *)
Lemma be16_u16 v : v < 65536 -> be16 ((v / 256) mod 256) (v mod 256) = v.
Proof. apply u16_be_roundtrip. Qed.

Lemma bytes_n_take bs p n : p + n <= len bs -> bytes_n bs p n = take n (drop p bs).
Proof.
  intros H. unfold bytes_n. rewrite <- (Parse.FieldsProofs.take_drop_bytes_at bs (N.to_nat n) p) by lia.
  now rewrite N2Nat.id.
Qed.

Lemma bytes_n_mid (pre o rest : bytes) p n : p = len pre -> n = len o -> bytes_n (pre ++ o ++ rest) p n = o.
Proof.
  intros -> ->. rewrite bytes_n_take by (rewrite !len_app; lia).
  rewrite drop_front by reflexivity. apply take_front. reflexivity.
Qed.

Lemma bits_of_len a : length (bits_of a) = (8 * length a)%nat.
Proof.
  induction a as [|b r IH]; [reflexivity|]. rewrite BitFields.BitLemmas.bits_of_cons, app_length, IH.
  rewrite BitFields.BitLemmas.nbits_length. cbn [length]. lia.
Qed.

Lemma bfield_prefix a b off n : (off + n <= 8 * length a)%nat ->
  bfield (bits_of a) off n = bfield (bits_of (a ++ b)) off n.
Proof.
  intros H. rewrite BitFields.BitLemmas.bits_of_app. symmetry. apply BitFields.BitLemmas.field_prefix.
  rewrite bits_of_len. exact H.
Qed.

Lemma lfield l1 w v l2 off : off = BitFields.Spec.layout_width l1 -> v < 2 ^ N.of_nat w ->
  bfield (BitFields.Spec.layout_bits (l1 ++ BitFields.Spec.F w v :: l2)) off w = v.
Proof. intros -> H. rewrite BitFields.BitLemmas.layout_field. apply N.mod_small. exact H. Qed.

(* ------------------------------------------------------------------ Ethernet II *)
Definition eth_cfg (s d : bytes) (et : N) : fl :=
  [(Fdst, FvN (be_num d)); (Fsrc, FvN (be_num s)); (Fether_type, FvN et)].

Lemma eth_raw d0 d1 d2 d3 d4 d5 s0 s1 s2 s3 s4 s5 e0 e1 rest :
  eth_spec (d0 :: d1 :: d2 :: d3 :: d4 :: d5 :: s0 :: s1 :: s2 :: s3 :: s4 :: s5 :: e0 :: e1 :: rest) 0 =
  [(Fdst, FvN (be_num [d0; d1; d2; d3; d4; d5])); (Fsrc, FvN (be_num [s0; s1; s2; s3; s4; s5]));
   (Fether_type, FvN (be16 e0 e1))].
Proof. reflexivity. Qed.

Lemma eth_eval s d et rest : len s = 6 -> len d = 6 -> et < 65536 ->
  eth_spec (eth_to_bytes s d et ++ rest) 0 = eth_cfg s d et.
Proof.
  intros Ls Ld E. expl s Ls. expl d Ld. unfold eth_to_bytes, u16_to_be. cbn [app].
  rewrite eth_raw, (be16_u16 _ E). reflexivity.
Qed.

(* ------------------------------------------------------------------ Linux cooked capture *)
Definition sll_cfg (pt vl : N) (a : bytes) (et : N) : fl :=
  [(Fpacket_type, FvN pt); (Fhw_type, FvN 1); (Faddr_len, FvN vl); (Faddr, FvBytes a); (Fprotocol, FvN et)].

Lemma sll_raw b0 b1 b2 b3 b4 b5 a0 a1 a2 a3 a4 a5 a6 a7 b14 b15 rest :
  sll_spec (b0 :: b1 :: b2 :: b3 :: b4 :: b5 :: a0 :: a1 :: a2 :: a3 :: a4 :: a5 :: a6 :: a7 :: b14 :: b15 :: rest) 0 =
  [(Fpacket_type, FvN (be16 b0 b1)); (Fhw_type, FvN (be16 b2 b3)); (Faddr_len, FvN (be16 b4 b5));
   (Faddr, FvBytes [a0; a1; a2; a3; a4; a5; a6; a7]); (Fprotocol, FvN (be16 b14 b15))].
Proof. reflexivity. Qed.

Lemma sll_eval pt vl a et rest : pt < 65536 -> vl < 65536 -> len a = 8 -> et < 65536 ->
  sll_spec (sll_to_bytes pt vl a et ++ rest) 0 = sll_cfg pt vl a et.
Proof.
  intros P V La E. expl a La. unfold sll_to_bytes, u16_to_be. cbn [app].
  rewrite sll_raw, (be16_u16 _ P), (be16_u16 _ V), (be16_u16 _ E), (be16_u16 1) by lia. reflexivity.
Qed.

(* ------------------------------------------------------------------ UDP *)
Definition udp_cfg (sp dp l ck : N) : fl :=
  [(Fsrc_port, FvN sp); (Fdst_port, FvN dp); (Flength, FvN l); (Fchecksum, FvN ck)].

Lemma udp_raw b0 b1 b2 b3 b4 b5 b6 b7 rest :
  udp_spec (b0 :: b1 :: b2 :: b3 :: b4 :: b5 :: b6 :: b7 :: rest) 0 =
  [(Fsrc_port, FvN (be16 b0 b1)); (Fdst_port, FvN (be16 b2 b3)); (Flength, FvN (be16 b4 b5));
   (Fchecksum, FvN (be16 b6 b7))].
Proof. reflexivity. Qed.

Lemma udp_eval sp dp l ck rest : sp < 65536 -> dp < 65536 -> l < 65536 -> ck < 65536 ->
  udp_spec (udp_wire {| u_sport := sp; u_dport := dp; u_length := l |} ck ++ rest) 0 = udp_cfg sp dp l ck.
Proof.
  intros S D L C. unfold udp_wire, w16, to_be16. cbn [app u_sport u_dport u_length].
  rewrite udp_raw, (be16_u16 _ S), (be16_u16 _ D), (be16_u16 _ L), (be16_u16 _ C). reflexivity.
Qed.

(* ------------------------------------------------------------------ ICMPv4 / ICMPv6 *)
(* w0 = the RFC 792 / 4443 layout of the configured message with a zero checksum field
   (Checksum/ProtoSpec.v icmp4_wire / icmp6_wire): type, code, rest of header *)
Definition icmp_cfg (w0 : bytes) (ck : N) : fl :=
  [(Ftype, FvN (B w0 0)); (Fcode, FvN (B w0 1)); (Fchecksum, FvN ck); (Fbytes4to8, FvBytes (take 4 (drop 4 w0)))].

Lemma icmp_raw b0 b1 b2 b3 b4 b5 b6 b7 rest :
  icmp_spec (b0 :: b1 :: b2 :: b3 :: b4 :: b5 :: b6 :: b7 :: rest) 0 =
  [(Ftype, FvN b0); (Fcode, FvN b1); (Fchecksum, FvN (be16 b2 b3)); (Fbytes4to8, FvBytes [b4; b5; b6; b7])].
Proof. reflexivity. Qed.

Lemma icmp4_eval t ck rest : ck < 65536 ->
  icmp_spec (icmp4_wire t ck ++ rest) 0 = icmp_cfg (icmp4_wire t 0) ck.
Proof.
  intros C. destruct t as [ty code b5 b6 b7 b8|id sq|code|mtu|code gw|id sq|code|ptr|code|id sq o r tr|id sq o r tr];
    try destruct gw as [[[g0 g1] g2] g3];
    unfold icmp4_wire, ip4_bytes, w16, w32, to_be16, to_be32; cbn [app];
    rewrite icmp_raw, (be16_u16 _ C); reflexivity.
Qed.

Lemma icmp6_eval t ck rest : ck < 65536 ->
  icmp_spec (icmp6_wire t ck ++ rest) 0 = icmp_cfg (icmp6_wire t 0) ck.
Proof.
  intros C. destruct t; unfold icmp6_wire, w16, w32, to_be16, to_be32; cbn [app];
    rewrite icmp_raw, (be16_u16 _ C); reflexivity.
Qed.
