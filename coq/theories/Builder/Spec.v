(* Builder/Spec.v -- property C10: what a built packet must look like, written from
   the formats and independent of packet_builder.rs:
     - where each configured layer lies (offsets are sums of the lengths of the
       layers in front of it),
     - the packet view the wire reference decoder of C03 (Parse/WireSpec.v) has to
       return for it,
     - the pseudo headers of RFC 768 / 9293 / 8200 section 8.1 / 4443 section 2.3
       and what "the checksum verifies" means (RFC 1071: the one's complement sum
       over the covered bytes, checksum field included, folds to 0xffff). *)
From EP Require Import Base.Bytes Checksum.Spec Parse.Types Parse.View Builder.Model.
From EP Require CtlMsg.Spec Roundtrip.Icmp4 Roundtrip.Icmp6.
Local Open Scope N_scope.

(* ------------------------------------------------------------------ layout *)
Definition off_vlan (c : cfg) : N := link_len c.
Definition off_net (c : cfg) : N := link_len c + vlan_len c.
Definition ip_header_len (c : cfg) : N :=
  match c_net c with
  | NtIpv4 h _ => Ipv4.ip4_header_len h
  | NtIpv6 _ _ => 40
  | NtArp a => arp_packet_len a
  end.
Definition off_exts (c : cfg) : N := off_net c + ip_header_len c.
Definition off_transport (c : cfg) : N := off_net c + net_len c.
Definition off_payload (c : cfg) : N := off_transport c + transport_len c.

(* ------------------------------------------------------------------ pseudo headers *)
Definition be16b (v : N) : bytes := [(v / 256) mod 256; v mod 256].
Definition be32b (v : N) : bytes :=
  [(v / 16777216) mod 256; (v / 65536) mod 256; (v / 256) mod 256; v mod 256].
(* RFC 768 / RFC 9293 3.1: source, destination, zero, protocol, length *)
Definition pseudo4 (src dst : bytes) (proto l : N) : bytes := src ++ dst ++ [0; proto] ++ be16b l.
(* RFC 8200 8.1: source, destination, upper-layer packet length (32 bit), 3 zero octets, next header *)
Definition pseudo6 (src dst : bytes) (l nh : N) : bytes := src ++ dst ++ be32b l ++ [0; 0; 0; nh].

(* receiver-side verification of an Internet checksum *)
Definition verifies (covered : bytes) : Prop := folds_to_ffff covered = true.

(* the bytes with the 16-bit field at offset k zeroed *)
Definition zero16_at (k : N) (bs : bytes) : bytes := take k bs ++ [0; 0] ++ drop (k + 2) bs.

(* ------------------------------------------------------------------ expected view *)
Definition ipv4_frag (h : Ipv4.Ipv4Header) : bool :=
  Ipv4.i4_more_fragments h || negb (Ipv4.i4_fragment_offset h =? 0).

Definition exp_link (c : cfg) (total : N) : option vlink :=
  match c_link c with
  | LkNone => None
  | LkEthernet2 _ _ => Some (VEthernet2 (0, total))
  | LkLinuxSll _ _ _ => Some (VLinuxSll (0, 16) (0, total))
  end.
Definition exp_exts (c : cfg) (total : N) : list vlink_ext :=
  match c_vlan c with
  | VlNone => []
  | VlSingle _ => [VVlan (off_vlan c, total - off_vlan c)]
  | VlDouble _ _ => [VVlan (off_vlan c, total - off_vlan c); VVlan (off_vlan c + 4, total - (off_vlan c + 4))]
  end.

(* transport window: everything from the transport header to the end *)
Definition exp_transport (c : cfg) (total : N) : option vtransport :=
  let w := (off_transport c, total - off_transport c) in
  match c_transport c with
  | TrNone _ => None
  | TrUdp _ _ => Some (VUdp w)
  | TrTcp h => Some (VTcp (Tcp.header_len h) w)
  | TrIcmpv4 _ => Some (VIcmpv4 w)
  | TrIcmpv6 _ => Some (VIcmpv6 w)
  end.

(* the modelled family of the parse-back theorem: no extension headers *)
Definition no_exts (c : cfg) : bool :=
  match c_net c with
  | NtIpv4 _ x => match ExtChain.Model.auth4 x with None => true | Some _ => false end
  | NtIpv6 _ x =>
      match ExtChain.Model.hop_by_hop_options x, ExtChain.Model.destination_options x, ExtChain.Model.routing x, ExtChain.Model.fragment x, ExtChain.Model.auth x with
      | None, None, None, None, None => true
      | _, _, _, _, _ => false
      end
  | NtArp _ => true
  end.

Definition exp_net (c : cfg) (total : N) : option vnet :=
  let pw := (off_transport c, total - off_transport c) in
  match c_net c with
  | NtIpv4 h _ =>
      Some (VIpv4 (off_net c, Ipv4.ip4_header_len h) None
              (mkVIp (tr_ip_number (c_transport c)) (ipv4_frag h) LsIpv4HeaderTotalLen pw))
  | NtIpv6 _ _ =>
      Some (VIpv6 (off_net c, 40) None false (off_net c + 40, 0)
              (mkVIp (tr_ip_number (c_transport c)) false LsIpv6HeaderPayloadLen pw))
  | NtArp a => Some (VArp (off_net c, arp_packet_len a))
  end.

Definition is_fragmented (c : cfg) : bool :=
  match c_net c with NtIpv4 h _ => ipv4_frag h | _ => false end.

Definition expected (c : cfg) (plen : N) : vpacket :=
  let total := final_size c plen in
  mkVPacket (exp_link c total) (exp_exts c total) (exp_net c total)
            (match c_net c with
             | NtArp _ => None
             | _ => if is_fragmented c then None else exp_transport c total
             end).

(* "given a payload the chosen message type admits": the conditions under which
   strict parsing of the transport layer is determined by the configuration alone *)
(* RFC 792 type and code octets of a configured ICMPv4 message *)
Definition icmp4_tc (t : CtlMsg.Spec.Icmpv4Type) : N * N :=
  match t with
  | CtlMsg.Spec.V4Unknown ty c _ _ _ _ => (ty, c)
  | CtlMsg.Spec.V4EchoReply _ _ => (0, 0)
  | CtlMsg.Spec.V4DestinationUnreachable d => (3, du_code_u8 d)
  | CtlMsg.Spec.V4Redirect c _ _ _ _ => (5, Icmp4.icmp4_redirect_code_u8 c)
  | CtlMsg.Spec.V4EchoRequest _ _ => (8, 0)
  | CtlMsg.Spec.V4TimeExceeded c => (11, Icmp4.icmp4_time_exceeded_code_u8 c)
  | CtlMsg.Spec.V4ParameterProblem (CtlMsg.Spec.PointerIndicatesError _) => (12, 0)
  | CtlMsg.Spec.V4ParameterProblem CtlMsg.Spec.MissingRequiredOption => (12, 1)
  | CtlMsg.Spec.V4ParameterProblem CtlMsg.Spec.BadLength => (12, 2)
  | CtlMsg.Spec.V4TimestampRequest _ => (13, 0)
  | CtlMsg.Spec.V4TimestampReply _ => (14, 0)
  end.
(* ICMPv4 timestamp / timestamp reply messages (type 13 / 14, code 0) are exactly 20 bytes:
   the typed variants TimestampRequest / TimestampReply (20 byte header) admit only the
   EMPTY payload; a raw Unknown{13|14, 0, ..} (8 byte header) admits exactly 12 bytes.
   Every other ICMPv4 kind and every ICMPv6 kind admits any payload. *)
Definition icmp4_admits (t : CtlMsg.Spec.Icmpv4Type) (plen : N) : bool :=
  let tc := icmp4_tc t in
  if ((fst tc =? 13) || (fst tc =? 14)) && (snd tc =? 0)
  then Icmp4.icmp4_type_header_len t + plen =? 20 else true.
Definition raw_number_ok (c : cfg) (n : N) : bool :=
  negb ((n =? 1) || (n =? 6) || (n =? 17) || (n =? 58) || (n =? 51))
  && match c_net c with
     | NtIpv6 _ _ => negb ((n =? 0) || (n =? 43) || (n =? 44) || (n =? 60))
     | _ => true
     end.
Definition payload_admitted (c : cfg) (plen : N) : bool :=
  match c_net c with
  | NtArp _ => true
  | _ =>
    match c_transport c with
    | TrNone n => raw_number_ok c n
    | TrIcmpv4 k => is_fragmented c || icmp4_admits k plen
    | _ => true
    end
  end.

Definition parse_pre (c : cfg) (plen : N) : bool := no_exts c && payload_admitted c plen.

(* ------------------------------------------------------------------ well-formed configurations *)
(* the type invariants of the crate's structs (fixed-size arrays, bounded
   newtypes, option / ICV buffers) and the typestate of the builder API *)
Definition link_wf (l : link_cfg) : bool :=
  match l with
  | LkNone => true
  | LkEthernet2 s d => (len s =? 6) && (len d =? 6) && bytes_okb s && bytes_okb d
  | LkLinuxSll pt vl a => (pt <? 8) && (vl <? 65536) && (len a =? 8) && bytes_okb a
  end.
Definition vlan1_wf (v : BitFields.Model.SingleVlanHeader) : bool :=
  (BitFields.Model.vlan_pcp v <? 8) && (BitFields.Model.vlan_id v <? 4096).
Definition vlan_wf (v : vlan_cfg) : bool :=
  match v with
  | VlNone => true
  | VlSingle a => vlan1_wf a
  | VlDouble a b => vlan1_wf a && vlan1_wf b
  end.
Definition ip6_wf (h : BitFields.Model.Ipv6Header) : bool :=
  (BitFields.Model.v6_traffic_class h <? 256) && (BitFields.Model.v6_flow_label h <? 1048576)
  && (BitFields.Model.v6_hop_limit h <? 256)
  && (len (BitFields.Model.v6_source h) =? 16) && bytes_okb (BitFields.Model.v6_source h)
  && (len (BitFields.Model.v6_destination h) =? 16) && bytes_okb (BitFields.Model.v6_destination h).
Definition arp_wf (a : ArpPacket) : bool :=
  (arp_hw_addr_type a <? 65536) && (arp_proto_addr_type a <? 65536) && (arp_operation a <? 65536)
  && (len (arp_sender_hw a) =? len (arp_target_hw a)) && (len (arp_sender_hw a) <? 256)
  && (len (arp_sender_proto a) =? len (arp_target_proto a)) && (len (arp_sender_proto a) <? 256)
  && bytes_okb (arp_sender_hw a) && bytes_okb (arp_sender_proto a)
  && bytes_okb (arp_target_hw a) && bytes_okb (arp_target_proto a).
Definition net_wf (n : net_cfg) : bool :=
  match n with
  | NtIpv4 h x => Ipv4.wf_ip4 h && ExtChain.Model.exts4_valid x
  | NtIpv6 h x => ip6_wf h && ExtChain.Model.exts6_valid x
  | NtArp a => arp_wf a
  end.
(* the ranges of the Rust field types (u8 / u16 / u32 / [u8;4]); unlike C08's wf_icmp4_type
   a raw Unknown{type, code} MAY name a typed kind -- icmpv4_raw(8, 0, ..) is a legal call *)
Definition icmp4_cfg_wf (t : CtlMsg.Spec.Icmpv4Type) : bool :=
  match t with
  | CtlMsg.Spec.V4Unknown ty c b4 b5 b6 b7 =>
      (ty <? 256) && (c <? 256) && (b4 <? 256) && (b5 <? 256) && (b6 <? 256) && (b7 <? 256)
  | _ => Icmp4.wf_icmp4_type t
  end.
Definition icmp6_cfg_wf (t : CtlMsg.Spec.Icmpv6Type) : bool :=
  match t with
  | CtlMsg.Spec.V6Unknown ty c b4 b5 b6 b7 =>
      (ty <? 256) && (c <? 256) && (b4 <? 256) && (b5 <? 256) && (b6 <? 256) && (b7 <? 256)
  | _ => Icmp6.wf_icmp6_type t
  end.
Definition tr_wf (t : transport_cfg) : bool :=
  match t with
  | TrNone n => n <? 256
  | TrUdp s d => (s <? 65536) && (d <? 65536)
  | TrTcp h => Tcp.wf_tcp h
  | TrIcmpv4 t => icmp4_cfg_wf t
  | TrIcmpv6 t => icmp6_cfg_wf t
  end.
(* typestate: a VLAN header only behind ethernet2, ARP only behind a link layer *)
Definition shape_ok (c : cfg) : bool :=
  match c_vlan c, c_link c with
  | VlNone, _ => true
  | _, LkEthernet2 _ _ => true
  | _, _ => false
  end
  && match c_net c, c_link c with NtArp _, LkNone => false | _, _ => true end.
Definition cfg_wf (c : cfg) : bool :=
  link_wf (c_link c) && vlan_wf (c_vlan c) && net_wf (c_net c) && tr_wf (c_transport c) && shape_ok c.

(* ------------------------------------------------------------------ which configurations can be encoded *)
Inductive outcome := OOk | OErr (e : build_error).
(* payload too large for the IP length field; ICMPv6 in IPv4; an extension header
   chain that the walk from the first next-header value does not cover (C12) *)
Definition spec_outcome (c : cfg) (plen : N) : outcome :=
  let t := c_transport c in
  match c_net c with
  | NtArp _ => OOk
  | NtIpv4 h x =>
      let value := ExtChain.Model.header_len4 x + tr_header_len t + plen in
      let max_allowed := 65535 - 20 - Ipv4.i4o_len (Ipv4.i4_options h) in
      if max_allowed <? value then OErr (EPayloadLen value max_allowed VtIpv4PayloadLength)
      else match t with TrIcmpv6 _ => OErr EIcmpv6InIpv4 | _ => OOk end
  | NtIpv6 h x =>
      let size := ExtChain.Model.header_len x + tr_header_len t + plen in
      if 65535 <? size then OErr (EPayloadLen size 65535 VtIpv6PayloadLength)
      else
        let s := ExtChain.Model.set_next_headers x (tr_ip_number t) in
        match ExtChain.Model.next_header (fst s) (snd s) with
        | ExtChain.Model.Err w => OErr (EIpv6Exts w)
        | _ => OOk
        end
  end.
