(* Builder/ProofsWire.v -- property C10, part 5: sufficient conditions under which the wire
   reference decoder of C03 (Parse/WireSpec.v) accepts a layer, stated about the bytes
   of an arbitrary buffer at absolute positions.  Nothing here mentions the builder. *)
From EP Require Import Base.Bytes Parse.Types Parse.View Parse.WireSpec.
From EP Require ExtChain.Spec.
From EP Require Import Builder.Model Builder.Spec Builder.SpecX.
From Coq Require Import ZArith Lia ZifyN ZifyBool.
Local Open Scope N_scope.

Module XS := EP.ExtChain.Spec.

Ltac ltb_false := match goal with |- context [?a <? ?b] =>
  replace (a <? b) with false by (symmetry; apply N.ltb_ge; lia) end.
Ltac ltb_true := match goal with |- context [?a <? ?b] =>
  replace (a <? b) with true by (symmetry; apply N.ltb_lt; lia) end.
Ltac eqb_false := match goal with |- context [?a =? ?b] =>
  replace (a =? b) with false by (symmetry; apply N.eqb_neq; lia) end.
Ltac eqb_true := match goal with |- context [?a =? ?b] =>
  replace (a =? b) with true by (symmetry; apply N.eqb_eq; lia) end.

Section Accept.
  Variable bs : bytes.

  (* ---------------------------------------------------------------- transport *)
  Lemma wire_udp_ok pk src pos lim : 8 <= lim - pos -> W bs (pos + 4) = lim - pos ->
    wire_udp bs pk src pos lim = VOk (with_tr pk (VUdp (pos, lim - pos))).
  Proof.
    intros H1 H2. unfold wire_udp. cbv zeta. rewrite H2.
    set (a := lim - pos) in *. clearbody a.
    replace (a <? 8) with false by (symmetry; apply N.ltb_ge; lia).
    replace (a <? a) with false by (symmetry; apply N.ltb_ge; lia).
    replace (a =? 0) with false by (symmetry; apply N.eqb_neq; lia).
    reflexivity.
  Qed.

  Lemma wire_tcp_ok pk src pos lim hl : 20 <= hl -> hl <= lim - pos -> B bs (pos + 12) / 16 * 4 = hl ->
    wire_tcp bs pk src pos lim = VOk (with_tr pk (VTcp hl (pos, lim - pos))).
  Proof.
    intros H1 H2 H3. unfold wire_tcp. cbv zeta.
    set (a := lim - pos) in *. clearbody a. set (d := B bs (pos + 12) / 16) in *. clearbody d.
    replace (a <? 20) with false by (symmetry; apply N.ltb_ge; lia).
    replace (d <? 5) with false by (symmetry; apply N.ltb_ge; lia).
    replace (a <? d * 4) with false by (symmetry; apply N.ltb_ge; lia).
    rewrite H3. reflexivity.
  Qed.

  (* RFC 792: timestamp / timestamp reply messages are exactly 20 bytes *)
  Lemma wire_icmp4_ok pk src pos lim : 8 <= lim - pos ->
    (((B bs pos =? 13) || (B bs pos =? 14)) && (B bs (pos + 1) =? 0) = true -> lim - pos = 20) ->
    wire_icmp4 bs pk src pos lim = VOk (with_tr pk (VIcmpv4 (pos, lim - pos))).
  Proof.
    intros H1 H2. unfold wire_icmp4. cbv zeta.
    set (a := lim - pos) in *. clearbody a.
    replace (a <? 8) with false by (symmetry; apply N.ltb_ge; lia).
    destruct (B bs pos =? 13) eqn:E13; destruct (B bs pos =? 14) eqn:E14;
      destruct (B bs (pos + 1) =? 0) eqn:E0; cbn [andb orb negb] in *; try reflexivity;
      rewrite (H2 eq_refl); reflexivity.
  Qed.

  Lemma wire_icmp6_ok pk src pos lim : 8 <= lim - pos -> lim - pos <= 4294967295 ->
    wire_icmp6 pk src pos lim = VOk (with_tr pk (VIcmpv6 (pos, lim - pos))).
  Proof.
    intros H1 H2. unfold wire_icmp6. cbv zeta.
    set (a := lim - pos) in *. clearbody a.
    replace (a <? 8) with false by (symmetry; apply N.ltb_ge; lia).
    replace (4294967295 <? a) with false by (symmetry; apply N.ltb_ge; lia).
    reflexivity.
  Qed.

  (* ---------------------------------------------------------------- authentication header *)
  Lemma wire_ah_ok zero src pos lim hl : pos + hl <= lim ->
    ext_hdr_at (B bs) pos XS.KAuth hl false ->
    wire_ah bs zero src pos lim = AhOk hl (B bs pos).
  Proof.
    intros H1 (H2 & H3 & H4 & _). unfold wire_ah. cbv zeta.
    replace (lim - pos <? 12) with false by (symmetry; apply N.ltb_ge; lia).
    replace (B bs (pos + 1) =? 0) with false by (symmetry; apply N.eqb_neq; exact H2).
    rewrite H3.
    replace (lim - pos <? hl) with false by (symmetry; apply N.ltb_ge; lia).
    reflexivity.
  Qed.

  (* ---------------------------------------------------------------- IPv6 extension chain *)
  Definition sum_len (l : list (XS.ext_kind * (N * bool))) : N :=
    fold_right (fun e a => fst (snd e) + a) 0 l.
  Definition any_frag (l : list (XS.ext_kind * (N * bool))) : bool :=
    existsb (fun e => snd (snd e)) l.
  Definition not_hop (k : XS.ext_kind) : bool := match k with XS.KHopByHop => false | _ => true end.
  Definition no_hop (l : list (XS.ext_kind * (N * bool))) : bool := forallb (fun e => not_hop (fst e)) l.
  Definition final_number (n : N) : Prop := n <> 0 /\ n <> 60 /\ n <> 43 /\ n <> 44 /\ n <> 51.

  Lemma wire_chain_ok src lim l : forall fuel pos first frag last,
    chain_full (B bs) pos first l last -> no_hop l = true -> final_number last ->
    pos + sum_len l <= lim -> (length l < fuel)%nat ->
    wire_chain bs fuel src pos lim first frag = ChOk (pos + sum_len l) last (frag || any_frag l).
  Proof.
    induction l as [|[k [hl fr]] r IH]; intros fuel pos first frag last CH NH FN LE FU.
    - cbn [chain_full] in CH. subst first. destruct FN as (F0 & F60 & F43 & F44 & F51).
      destruct fuel as [|f]; [cbn in FU; lia|]. cbn [wire_chain sum_len fold_right any_frag existsb].
      cbv zeta.
      replace (last =? 0) with false by (symmetry; apply N.eqb_neq; exact F0).
      replace (last =? 60) with false by (symmetry; apply N.eqb_neq; exact F60).
      replace (last =? 43) with false by (symmetry; apply N.eqb_neq; exact F43).
      replace (last =? 44) with false by (symmetry; apply N.eqb_neq; exact F44).
      replace (last =? 51) with false by (symmetry; apply N.eqb_neq; exact F51).
      cbn [orb]. rewrite N.add_0_r, orb_false_r. reflexivity.
    - cbn [chain_full] in CH. destruct CH as (E1 & HA & CH).
      cbn [no_hop forallb fst] in NH. apply andb_true_iff in NH. destruct NH as [NK NH].
      cbn [sum_len fold_right fst snd] in LE |- *. fold (sum_len r) in LE |- *.
      cbn [any_frag existsb snd]. fold (any_frag r).
      destruct fuel as [|f]; [cbn in FU; lia|]. cbn [length] in FU.
      assert (FU' : (length r < f)%nat) by lia.
      specialize (IH f (pos + hl) (B bs pos)).
      cbn [wire_chain]. cbv zeta. subst first.
      destruct k; cbn [not_hop] in NK; try discriminate; cbn [XS.ip_number_of ext_hdr_at] in *.
      + (* destination options *)
        destruct HA as (HL & H8 & ->).
        change (60 =? 0) with false. change ((60 =? 60) || (60 =? 43)) with true. cbv iota.
        replace (lim - pos <? 8) with false by (symmetry; apply N.ltb_ge; lia).
        rewrite HL. replace (lim - pos <? hl) with false by (symmetry; apply N.ltb_ge; lia).
        rewrite (IH frag last CH NH FN) by (try exact FU'; lia).
        rewrite N.add_assoc. reflexivity.
      + (* routing *)
        destruct HA as (HL & H8 & ->).
        change (43 =? 0) with false. change ((43 =? 60) || (43 =? 43)) with true. cbv iota.
        replace (lim - pos <? 8) with false by (symmetry; apply N.ltb_ge; lia).
        rewrite HL. replace (lim - pos <? hl) with false by (symmetry; apply N.ltb_ge; lia).
        rewrite (IH frag last CH NH FN) by (try exact FU'; lia).
        rewrite N.add_assoc. reflexivity.
      + (* fragment *)
        destruct HA as (-> & HF).
        change (44 =? 0) with false. change ((44 =? 60) || (44 =? 43)) with false. change (44 =? 44) with true.
        cbv iota.
        replace (lim - pos <? 8) with false by (symmetry; apply N.ltb_ge; lia).
        unfold W. rewrite HF.
        rewrite (IH (frag || fr) last CH NH FN) by (try exact FU'; lia).
        rewrite N.add_assoc, orb_assoc. reflexivity.
      + (* authentication *)
        pose proof HA as (_ & _ & _ & ->).
        change (51 =? 0) with false. change ((51 =? 60) || (51 =? 43)) with false. change (51 =? 44) with false.
        change (51 =? 51) with true. cbv iota.
        rewrite (wire_ah_ok CeIpv6AuthZeroPayloadLen src pos lim hl) by (try exact HA; lia).
        rewrite (IH frag last CH NH FN) by (try exact FU'; lia).
        rewrite N.add_assoc. reflexivity.
      + (* final destination options *)
        destruct HA as (HL & H8 & ->).
        change (60 =? 0) with false. change ((60 =? 60) || (60 =? 43)) with true. cbv iota.
        replace (lim - pos <? 8) with false by (symmetry; apply N.ltb_ge; lia).
        rewrite HL. replace (lim - pos <? hl) with false by (symmetry; apply N.ltb_ge; lia).
        rewrite (IH frag last CH NH FN) by (try exact FU'; lia).
        rewrite N.add_assoc. reflexivity.
  Qed.

  (* a chain whose only hop-by-hop header (if any) is the first one *)
  Definition hop_first (l : list (XS.ext_kind * (N * bool))) : bool :=
    match l with
    | [] => true
    | (_, _) :: r => no_hop r
    end.

  Lemma wire_exts_ok src lim l fuel pos first last :
    chain_full (B bs) pos first l last -> hop_first l = true -> final_number last ->
    pos + sum_len l <= lim -> (length l < fuel)%nat ->
    wire_exts bs fuel src pos lim first = ChOk (pos + sum_len l) last (any_frag l).
  Proof.
    intros CH HF FN LE FU. unfold wire_exts.
    destruct l as [|[k [hl fr]] r].
    - cbn [chain_full] in CH. subst first. pose proof FN as (F0 & _).
      replace (last =? 0) with false by (symmetry; apply N.eqb_neq; exact F0).
      apply (wire_chain_ok src lim [] fuel pos last false last); try assumption; reflexivity.
    - cbn [hop_first] in HF. destruct k.
      + (* hop-by-hop first *)
        cbn [chain_full XS.ip_number_of ext_hdr_at] in CH. destruct CH as (-> & (HL & H8 & ->) & CH).
        cbn [sum_len fold_right fst snd] in LE |- *. fold (sum_len r) in LE |- *.
        cbn [any_frag existsb snd orb]. fold (any_frag r).
        change (0 =? 0) with true. cbv iota zeta.
        replace (lim - pos <? 8) with false by (symmetry; apply N.ltb_ge; lia).
        rewrite HL. replace (lim - pos <? hl) with false by (symmetry; apply N.ltb_ge; lia).
        cbn [length] in FU.
        rewrite (wire_chain_ok src lim r fuel (pos + hl) (B bs pos) false last CH HF FN) by lia.
        rewrite N.add_assoc. reflexivity.
      + pose proof CH as (E & _). cbn [XS.ip_number_of] in E. subst first. change (60 =? 0) with false. cbv iota.
        rewrite (wire_chain_ok src lim _ fuel pos 60 false last CH); [reflexivity| |assumption..].
        cbn [no_hop forallb fst not_hop andb]. exact HF.
      + pose proof CH as (E & _). cbn [XS.ip_number_of] in E. subst first. change (43 =? 0) with false. cbv iota.
        rewrite (wire_chain_ok src lim _ fuel pos 43 false last CH); [reflexivity| |assumption..].
        cbn [no_hop forallb fst not_hop andb]. exact HF.
      + pose proof CH as (E & _). cbn [XS.ip_number_of] in E. subst first. change (44 =? 0) with false. cbv iota.
        rewrite (wire_chain_ok src lim _ fuel pos 44 false last CH); [reflexivity| |assumption..].
        cbn [no_hop forallb fst not_hop andb]. exact HF.
      + pose proof CH as (E & _). cbn [XS.ip_number_of] in E. subst first. change (51 =? 0) with false. cbv iota.
        rewrite (wire_chain_ok src lim _ fuel pos 51 false last CH); [reflexivity| |assumption..].
        cbn [no_hop forallb fst not_hop andb]. exact HF.
      + pose proof CH as (E & _). cbn [XS.ip_number_of] in E. subst first. change (60 =? 0) with false. cbv iota.
        rewrite (wire_chain_ok src lim _ fuel pos 60 false last CH); [reflexivity| |assumption..].
        cbn [no_hop forallb fst not_hop andb]. exact HF.
  Qed.

  (* every header of a chain has at least one byte: the fuel of the decoder suffices *)
  Lemma chain_len_le Bf l : forall pos first last, chain_full Bf pos first l last ->
    (length l <= N.to_nat (sum_len l))%nat.
  Proof.
    induction l as [|[k [hl fr]] r IH]; intros pos first last CH; [cbn; lia|].
    cbn [chain_full] in CH. destruct CH as (_ & HA & CH). specialize (IH _ _ _ CH).
    cbn [sum_len fold_right fst snd length]. fold (sum_len r).
    assert (1 <= hl) by (destruct k; cbn [ext_hdr_at] in HA; lia). lia.
  Qed.

  (* ---------------------------------------------------------------- transport dispatch *)
  Lemma wire_transport_frag pk ipn src pos lim : wire_transport bs pk ipn true src pos lim = VOk pk.
  Proof. reflexivity. Qed.

  Lemma wire_transport_other pk ipn src pos lim :
    ipn <> 1 -> ipn <> 17 -> ipn <> 6 -> ipn <> 58 -> wire_transport bs pk ipn false src pos lim = VOk pk.
  Proof.
    intros H1 H2 H3 H4. unfold wire_transport.
    replace (ipn =? 1) with false by (symmetry; apply N.eqb_neq; exact H1).
    replace (ipn =? 17) with false by (symmetry; apply N.eqb_neq; exact H2).
    replace (ipn =? 6) with false by (symmetry; apply N.eqb_neq; exact H3).
    replace (ipn =? 58) with false by (symmetry; apply N.eqb_neq; exact H4). reflexivity.
  Qed.

  (* ---------------------------------------------------------------- IPv4 *)
  Lemma ihl_facts ol : ol <= 40 -> ol mod 4 = 0 ->
    (64 + (5 + ol / 4)) / 16 = 4 /\ ((64 + (5 + ol / 4)) mod 16) * 4 = 20 + ol /\ 5 <= (64 + (5 + ol / 4)) mod 16.
  Proof. intros H1 H2. zify; Z.div_mod_to_equations; lia. Qed.

  Lemma wire_ipv4_body_ok pk src pos lim hl : 20 <= hl -> hl <= lim - pos -> W bs (pos + 2) = lim - pos ->
    wire_ipv4_body bs pk src pos lim hl = wire_ipv4_tail bs pk pos hl lim.
  Proof.
    intros H0 H1 H2. unfold wire_ipv4_body. cbv zeta. rewrite H2.
    replace (lim - pos <? hl) with false by (symmetry; apply N.ltb_ge; lia).
    replace (lim - pos <? lim - pos) with false by (symmetry; apply N.ltb_ge; lia).
    replace (pos + (lim - pos)) with lim by lia. reflexivity.
  Qed.

  Lemma wire_ipv4_ok pk src pos lim ol : ol <= 40 -> ol mod 4 = 0 ->
    B bs pos = 64 + (5 + ol / 4) -> 20 + ol <= lim - pos -> W bs (pos + 2) = lim - pos ->
    wire_ipv4 bs pk src pos lim = wire_ipv4_tail bs pk pos (20 + ol) lim /\
    wire_ip bs pk src pos lim = wire_ipv4_tail bs pk pos (20 + ol) lim.
  Proof.
    intros H1 H2 H3 H4 H5. destruct (ihl_facts ol H1 H2) as (V & I & I5).
    unfold wire_ipv4, wire_ip. cbv zeta. rewrite H3, V, I.
    replace (lim - pos <? 20) with false by (symmetry; apply N.ltb_ge; lia).
    replace (lim - pos =? 0) with false by (symmetry; apply N.eqb_neq; lia).
    change (4 =? 4) with true. cbn [negb].
    replace ((64 + (5 + ol / 4)) mod 16 <? 5) with false by (symmetry; apply N.ltb_ge; exact I5).
    replace (lim - pos <? 20 + ol) with false by (symmetry; apply N.ltb_ge; lia).
    cbv iota. split; apply wire_ipv4_body_ok; lia || assumption.
  Qed.

  Lemma wire_ipv4_tail_plain pk pos hl lim proto : B bs (pos + 9) = proto -> proto <> 51 ->
    wire_ipv4_tail bs pk pos hl lim =
      wire_transport bs
        (with_net pk (VIpv4 (pos, hl) None
           (mkVIp proto (ipv4_fragmented bs pos) LsIpv4HeaderTotalLen (pos + hl, lim - (pos + hl)))))
        proto (ipv4_fragmented bs pos) LsIpv4HeaderTotalLen (pos + hl) lim.
  Proof.
    intros H1 H2. unfold wire_ipv4_tail. cbv zeta. rewrite H1.
    replace (proto =? 51) with false by (symmetry; apply N.eqb_neq; exact H2). reflexivity.
  Qed.

  Lemma wire_ipv4_tail_auth pk pos hl lim ahl : B bs (pos + 9) = 51 -> pos + hl + ahl <= lim ->
    ext_hdr_at (B bs) (pos + hl) XS.KAuth ahl false ->
    wire_ipv4_tail bs pk pos hl lim =
      wire_transport bs
        (with_net pk (VIpv4 (pos, hl) (Some (pos + hl, ahl))
           (mkVIp (B bs (pos + hl)) (ipv4_fragmented bs pos) LsIpv4HeaderTotalLen
                  (pos + hl + ahl, lim - (pos + hl + ahl)))))
        (B bs (pos + hl)) (ipv4_fragmented bs pos) LsIpv4HeaderTotalLen (pos + hl + ahl) lim.
  Proof.
    intros H1 H2 H3. unfold wire_ipv4_tail. cbv zeta. rewrite H1. change (51 =? 51) with true. cbv iota.
    rewrite (wire_ah_ok CeAuthZeroPayloadLen LsIpv4HeaderTotalLen (pos + hl) lim ahl) by (try exact H3; lia).
    reflexivity.
  Qed.

  (* ---------------------------------------------------------------- IPv6 *)
  Lemma wire_ipv6_tail_ok pk esrc psrc pos lim l last :
    chain_full (B bs) (pos + 40) (B bs (pos + 6)) l last -> hop_first l = true -> final_number last ->
    pos + 40 + sum_len l <= lim ->
    wire_ipv6_tail bs pk esrc psrc pos lim =
      wire_transport bs
        (with_net pk (VIpv6 (pos, 40) (if sum_len l =? 0 then None else Some (B bs (pos + 6))) (any_frag l)
                        (pos + 40, sum_len l)
                        (mkVIp last (any_frag l) psrc (pos + 40 + sum_len l, lim - (pos + 40 + sum_len l)))))
        last (any_frag l) esrc (pos + 40 + sum_len l) lim.
  Proof.
    intros CH HF FN LE. unfold wire_ipv6_tail.
    pose proof (chain_len_le _ _ _ _ _ CH) as LL.
    rewrite (wire_exts_ok esrc lim l _ (pos + 40) (B bs (pos + 6)) last CH HF FN LE) by lia.
    replace (pos + 40 + sum_len l =? pos + 40) with (sum_len l =? 0).
    2:{ destruct (N.eqb_spec (sum_len l) 0) as [Z|Z]; symmetry; [apply N.eqb_eq|apply N.eqb_neq]; lia. }
    replace (pos + 40 + sum_len l - (pos + 40)) with (sum_len l) by lia. reflexivity.
  Qed.

  Lemma wire_ipv6_ok pk src pos lim : 40 <= lim - pos -> B bs pos / 16 = 6 -> W bs (pos + 4) = lim - pos - 40 ->
    wire_ipv6 bs pk src pos lim = wire_ipv6_tail bs pk LsIpv6HeaderPayloadLen LsIpv6HeaderPayloadLen pos lim /\
    wire_ip bs pk src pos lim = wire_ipv6_tail bs pk LsIpv6HeaderPayloadLen LsIpv6HeaderPayloadLen pos lim.
  Proof.
    intros H1 H2 H3.
    assert (BODY : wire_ipv6_body bs pk src pos lim
                   = wire_ipv6_tail bs pk LsIpv6HeaderPayloadLen LsIpv6HeaderPayloadLen pos lim).
    { unfold wire_ipv6_body. cbv zeta. rewrite H3.
      replace ((lim - pos - 40 =? 0) && (40 <? lim - pos)) with false.
      2:{ symmetry. apply andb_false_iff. destruct (N.eqb_spec (lim - pos - 40) 0) as [Z|Z]; [right|left; reflexivity].
          apply N.ltb_ge. lia. }
      replace (lim - pos <? 40 + (lim - pos - 40)) with false by (symmetry; apply N.ltb_ge; lia).
      replace (pos + 40 + (lim - pos - 40)) with lim by lia. reflexivity. }
    unfold wire_ipv6, wire_ip. cbv zeta. rewrite H2.
    replace (lim - pos <? 40) with false by (symmetry; apply N.ltb_ge; lia).
    replace (lim - pos =? 0) with false by (symmetry; apply N.eqb_neq; lia).
    change (6 =? 6) with true. change (6 =? 4) with false. cbn [negb]. cbv iota. split; exact BODY.
  Qed.

  (* ---------------------------------------------------------------- ARP *)
  Lemma wire_arp_ok pk src pos lim l : 8 <= l -> l <= lim - pos ->
    8 + B bs (pos + 4) * 2 + B bs (pos + 5) * 2 = l ->
    wire_arp bs pk src pos lim = VOk (with_net pk (VArp (pos, l))).
  Proof.
    intros H1 H2 H3. unfold wire_arp. cbv zeta. rewrite H3.
    replace (lim - pos <? 8) with false by (symmetry; apply N.ltb_ge; lia).
    replace (lim - pos <? l) with false by (symmetry; apply N.ltb_ge; lia). reflexivity.
  Qed.

  (* ---------------------------------------------------------------- link extensions *)
  Lemma wire_ether_vlan c pk et src pos lim : is_vlan et = true -> 4 <= lim - pos ->
    wire_ether bs (S c) pk et src pos lim =
      wire_ether bs c (with_ext pk (VVlan (pos, lim - pos))) (W bs (pos + 2)) src (pos + 4) lim.
  Proof.
    intros H1 H2. cbn [wire_ether]. cbv zeta. rewrite H1.
    replace (lim - pos <? 4) with false by (symmetry; apply N.ltb_ge; lia). reflexivity.
  Qed.

  Lemma wire_ether_net cap pk et src pos lim : is_vlan et = false -> et <> 35045 ->
    wire_ether bs cap pk et src pos lim = wire_net bs pk et src pos lim.
  Proof.
    intros H1 H2. destruct cap; cbn [wire_ether]; cbv zeta; rewrite H1;
      replace (et =? 35045) with false by (symmetry; apply N.eqb_neq; exact H2); reflexivity.
  Qed.
End Accept.
