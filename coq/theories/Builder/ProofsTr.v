(* Builder/ProofsTr.v -- property C10, part 3: the TCP / ICMPv4 / ICMPv6 checksums of a
   built packet verify.  Route: (1) the call the builder makes is
   TransportHeader::update_checksum_ipv4/_ipv6 of C09 (Checksum/Proto.v) on exactly the
   header it serialises afterwards and the payload it appends; (2) C09 gives the
   stored value = rfc1071 (pseudo header ++ header with zero field ++ payload);
   (3) RFC 1071 arithmetic: a field filled with that value makes the receiver's sum
   fold to 0xffff. *)
From EP Require Import Base.Bytes Checksum.Spec Checksum.Model Checksum.Proofs.
From EP Require Import Checksum.ProtoTypes Checksum.ProtoSpec.
From EP Require Checksum.Proto Checksum.ProtoProofs.
From EP Require Import Roundtrip.Common Roundtrip.CommonProofs.
From EP Require Roundtrip.Tcp Roundtrip.TcpProofs Roundtrip.Ipv4 Roundtrip.Ipv4Proofs.
From EP Require CtlMsg.Spec Roundtrip.Icmp4 Roundtrip.Icmp6 Roundtrip.Icmp4Proofs Roundtrip.Icmp6Proofs.
From EP Require ExtChain.Spec ExtChain.Model ExtChain.Proofs BitFields.Model.
From EP Require Import Parse.WireSpec.
From EP Require Import Builder.Model Builder.Spec Builder.Proofs Builder.ProofsCk Builder.SpecX.
From Coq Require Import ZArith Lia ZifyN ZifyBool.
Local Open Scope N_scope.

Module CP := EP.Checksum.Proto.
Module CPP := EP.Checksum.ProtoProofs.

(* ------------------------------------------------------------------ bytes at absolute positions *)
Lemma B_app_r (a b : bytes) i : len a <= i -> B (a ++ b) i = B b (i - len a).
Proof.
  intros H. unfold B, len in *. rewrite app_nth2 by lia. f_equal. lia.
Qed.
Lemma B_app_l (a b : bytes) i : i < len a -> B (a ++ b) i = B a i.
Proof. intros H. unfold B, len in *. apply app_nth1. lia. Qed.
Lemma B_drop (bs : bytes) k i : B (drop k bs) i = B bs (k + i).
Proof.
  unfold B, drop. rewrite <- (firstn_skipn (N.to_nat k) bs) at 2.
  destruct (Nat.le_gt_cases (length bs) (N.to_nat k)) as [L|L].
  - rewrite skipn_all2 by exact L. rewrite firstn_all2 by exact L. rewrite app_nil_r.
    rewrite nth_overflow by (cbn; lia). rewrite nth_overflow by lia. reflexivity.
  - rewrite app_nth2; rewrite firstn_length_le by lia; [|lia]. f_equal. lia.
Qed.
Lemma W_drop (bs : bytes) k i : W (drop k bs) i = W bs (k + i).
Proof. unfold W. rewrite !B_drop. rewrite N.add_assoc. reflexivity. Qed.
Lemma B_cons0 a (l : bytes) : B (a :: l) 0 = a. Proof. reflexivity. Qed.
Lemma B_consS a (l : bytes) i : 0 < i -> B (a :: l) i = B l (i - 1).
Proof.
  intros H. unfold B. replace (N.to_nat i) with (S (N.to_nat (i - 1))) by lia. reflexivity.
Qed.

(* ------------------------------------------------------------------ RFC 1071: fill, then verify *)
Lemma sum_w16 v : v < 65536 -> sum_be16 (u16_to_be v) = v.
Proof. apply sum_u16. Qed.

Lemma filled_verifies pre tl ck : even_len pre ->
  ck = rfc1071 (pre ++ [0; 0] ++ tl) ->
  ck < 65536 /\ folds_to_ffff (pre ++ u16_to_be ck ++ tl) = true.
Proof.
  intros E H.
  assert (L : ck < 65536) by (rewrite H; pose proof (rfc1071_le (pre ++ [0; 0] ++ tl)); lia).
  split; [exact L|]. apply verifies_of_stored; [exact E|exact L|]. left.
  rewrite H. unfold rfc1071. rewrite sum_be16_app by exact E.
  rewrite (sum_be16_app [0; 0]) by reflexivity. cbn [sum_be16]. f_equal; f_equal; lia.
Qed.

(* the no-zero form (UDP) *)
Lemma filled_verifies_nz pre tl ck : even_len pre ->
  ck = no_zero (rfc1071 (pre ++ [0; 0] ++ tl)) ->
  ck < 65536 /\ folds_to_ffff (pre ++ u16_to_be ck ++ tl) = true.
Proof.
  intros E H. set (r := rfc1071 (pre ++ [0; 0] ++ tl)) in *.
  assert (R : r <= 65535) by (subst r; apply rfc1071_le).
  assert (L : ck < 65536) by (rewrite H; unfold no_zero; destruct (r =? 0); lia).
  split; [exact L|]. apply verifies_of_stored; [exact E|exact L|].
  assert (S : r = 65535 - fold16 (sum_be16 pre + sum_be16 tl)).
  { subst r. unfold rfc1071. rewrite sum_be16_app by exact E.
    rewrite (sum_be16_app [0; 0]) by reflexivity. cbn [sum_be16]. f_equal; f_equal; lia. }
  pose proof (fold16_range (sum_be16 pre + sum_be16 tl)) as FR.
  unfold no_zero in H. destruct (N.eqb_spec r 0) as [Z|Z].
  - right. split; [exact H|]. lia.
  - left. rewrite H. exact S.
Qed.

(* taking the field out of a segment: zero16_at *)
Lemma zero16_at_app (a tl : bytes) x y k : k = len a ->
  zero16_at k (a ++ x :: y :: tl) = a ++ [0; 0] ++ tl.
Proof.
  intros ->. unfold zero16_at. rewrite ExtChain.Proofs.take_app_len.
  replace (a ++ x :: y :: tl) with ((a ++ [x; y]) ++ tl) by (rewrite <- app_assoc; reflexivity).
  rewrite ExtChain.Proofs.drop_app_eq; [reflexivity|]. rewrite len_app. reflexivity.
Qed.

(* ------------------------------------------------------------------ big-endian digits *)
Lemma u32_digits v : u32_to_be v = to_be32 v.
Proof. unfold u32_to_be, to_be32. rewrite !N.div_div by lia. reflexivity. Qed.
Lemma p4be_P4w v : p4be v = CP.P4w v.
Proof. unfold p4be, CP.P4w. rewrite !N.div_div by lia. reflexivity. Qed.

(* ------------------------------------------------------------------ TCP: the header of C08 as the header of C09 *)
Lemma tcp_hdr_of_ok t : Tcp.wf_tcp t = true -> tcp_hdr_ok (tcp_hdr_of t).
Proof.
  intros W. destruct (TcpProofs.wf_tcp_facts t W) as (H1 & H2 & H3 & H4 & H5 & H6 & H7 & WO).
  destruct (TcpProofs.opt_wf_facts _ WO) as (OL & OM & BL & BO).
  unfold tcp_hdr_ok, tcp_hdr_of. cbn [t_sport t_dport t_seq t_ack_no t_window t_urgent t_options].
  rewrite (TcpProofs.len_take_opts t W).
  repeat split; try assumption. apply bytes_ok_take. exact BO.
Qed.

Lemma tcp_header_len_of t : Tcp.wf_tcp t = true -> tcp_header_len (tcp_hdr_of t) = Tcp.header_len t.
Proof.
  intros W. unfold tcp_header_len, Tcp.header_len, tcp_hdr_of. cbn [t_options].
  rewrite (TcpProofs.len_take_opts t W). reflexivity.
Qed.

Lemma tcp_byte12_of t : Tcp.wf_tcp t = true -> CP.tcp_byte12 (tcp_hdr_of t) = Tcp.byte12 t.
Proof.
  intros W. destruct (TcpProofs.wf_tcp_facts t W) as (_ & _ & _ & _ & _ & _ & _ & WO).
  destruct (TcpProofs.opt_wf_facts _ WO) as (OL & _).
  unfold CP.tcp_byte12, CP.tcp_data_offset_m, Tcp.byte12, Tcp.data_offset, Tcp.opt_data_offset, tcp_hdr_of.
  cbn [t_options t_ns]. rewrite (TcpProofs.len_take_opts t W).
  assert (E : CP.as_u8 (Tcp.o_len (Tcp.options t)) = Tcp.o_len (Tcp.options t))
    by (unfold CP.as_u8; apply N.mod_small; lia).
  rewrite !E. reflexivity.
Qed.
Lemma tcp_byte13_of t : CP.tcp_byte13 (tcp_hdr_of t) = Tcp.byte13 t.
Proof. reflexivity. Qed.

(* the call sequence of the builder model is the one of C09 *)
Lemma tcp_post_of t p : Tcp.wf_tcp t = true ->
  tcp_post t (take (Tcp.o_len (Tcp.options t)) (Tcp.o_buf (Tcp.options t))) p
  = CP.tcp_post_ip (tcp_hdr_of t) p.
Proof.
  intros W. unfold tcp_post, CP.tcp_post_ip. rewrite (tcp_byte12_of t W), tcp_byte13_of.
  rewrite !p4be_P4w. reflexivity.
Qed.

(* what the builder serialises is the RFC 9293 layout of that header *)
Lemma tcp_wire_of t ck : Tcp.wf_tcp t = true -> ck < 65536 ->
  Tcp.fixed_bytes (tcp_set_checksum t ck) ++ take (Tcp.o_len (Tcp.options t)) (Tcp.o_buf (Tcp.options t))
  = tcp_wire (tcp_hdr_of t) ck.
Proof.
  intros W L. pose proof (wf_tcp_set_checksum t ck W L) as W2.
  pose proof (TcpProofs.tcp_spec _ W2) as S. rewrite (TcpProofs.to_bytes_wf _ W2) in S.
  apply Some_inj in S. cbn [tcp_set_checksum Tcp.options] in S. rewrite S. clear S.
  unfold Spec.tcp_layout, tcp_wire, tcp_data_offset, tcp_hdr_of.
  cbn [tcp_set_checksum Tcp.source_port Tcp.destination_port Tcp.sequence_number Tcp.acknowledgment_number
       Tcp.ns Tcp.fin Tcp.syn Tcp.rst Tcp.psh Tcp.ack Tcp.urg Tcp.ece Tcp.cwr Tcp.window_size Tcp.checksum
       Tcp.urgent_pointer Tcp.options
       t_sport t_dport t_seq t_ack_no t_ns t_fin t_syn t_rst t_psh t_ack t_urg t_ece t_cwr t_window t_urgent
       t_options].
  unfold Spec.field, w16, w32. cbn [to_be app].
  rewrite <- !u32_digits. unfold u32_to_be, to_be16. reflexivity.
Qed.

(* ------------------------------------------------------------------ ICMP kinds as C09 message types *)
(* every configured Icmpv4Type / Icmpv6Type: the C08 serialisation (Roundtrip/Icmp4.v,
   Icmp6.v) of the value is the RFC 792 / 4443 / 4861 layout (Checksum/ProtoSpec.v) of
   its C09 counterpart, and the ranges of the Rust field types carry over *)
Lemma icmp4_of_wf k : icmp4_cfg_wf k = true ->
  exists t, icmp4_of k = Some t /\ icmp4_ok t /\ t = c09_icmp4 k /\
            forall ck, Icmp4.icmp4_to_bytes {| Icmp4.icmp4_type := k; Icmp4.icmp4_checksum := ck |}
                       = Some (icmp4_wire t ck).
Proof.
  intros W. exists (c09_icmp4 k). split; [reflexivity|].
  assert (FIN : forall t, icmp4_ok (c09_icmp4 t) ->
     (forall ck, Icmp4.icmp4_to_bytes {| Icmp4.icmp4_type := t; Icmp4.icmp4_checksum := ck |}
                 = Some (icmp4_wire (c09_icmp4 t) ck)) ->
     icmp4_ok (c09_icmp4 t) /\ c09_icmp4 t = c09_icmp4 t /\
     (forall ck, Icmp4.icmp4_to_bytes {| Icmp4.icmp4_type := t; Icmp4.icmp4_checksum := ck |}
                 = Some (icmp4_wire (c09_icmp4 t) ck))) by (intros; repeat split; assumption).
  destruct k as [ty c b4 b5 b6 b7|id sq|d|rc g0 g1 g2 g3|id sq|tc|pp|m|m].
  - cbn [icmp4_cfg_wf] in W. bsplit W. apply FIN; [cbn; tauto|reflexivity].
  - cbn [icmp4_cfg_wf Icmp4.wf_icmp4_type] in W. bsplit W. apply FIN; [cbn; tauto|reflexivity].
  - destruct d; cbn [icmp4_cfg_wf Icmp4.wf_icmp4_type] in W; bsplit W.
    all: apply FIN; [cbn; first [lia | assumption]|intros ck; reflexivity].
  - cbn [icmp4_cfg_wf Icmp4.wf_icmp4_type] in W. bsplit W.
    apply FIN; [|reflexivity]. cbn [c09_icmp4 icmp4_ok]. split; [destruct rc; cbn; lia|].
    unfold ip4_ok, ip4_bytes. repeat (apply bytes_ok_explicit_cons; [assumption|]). apply bytes_ok_nil.
  - cbn [icmp4_cfg_wf Icmp4.wf_icmp4_type] in W. bsplit W. apply FIN; [cbn; tauto|reflexivity].
  - apply FIN; [destruct tc; cbn; first [lia | reflexivity]|reflexivity].
  - destruct pp; cbn [icmp4_cfg_wf Icmp4.wf_icmp4_type] in W; bsplit W;
      (apply FIN; [cbn; first [lia | assumption | reflexivity]|reflexivity]).
  - destruct m as [i s o r x]. cbn [icmp4_cfg_wf Icmp4.wf_icmp4_type] in W. unfold Icmp4.wf_icmp4_ts in W.
    cbn [CtlMsg.Spec.ts_id CtlMsg.Spec.ts_seq CtlMsg.Spec.ts_originate CtlMsg.Spec.ts_receive CtlMsg.Spec.ts_transmit] in W.
    bsplit W. apply FIN; [cbn; tauto|].
    intros ck. cbn [c09_icmp4 icmp4_wire CtlMsg.Spec.ts_id CtlMsg.Spec.ts_seq CtlMsg.Spec.ts_originate CtlMsg.Spec.ts_receive CtlMsg.Spec.ts_transmit].
    unfold w32. rewrite <- !u32_digits. reflexivity.
  - destruct m as [i s o r x]. cbn [icmp4_cfg_wf Icmp4.wf_icmp4_type] in W. unfold Icmp4.wf_icmp4_ts in W.
    cbn [CtlMsg.Spec.ts_id CtlMsg.Spec.ts_seq CtlMsg.Spec.ts_originate CtlMsg.Spec.ts_receive CtlMsg.Spec.ts_transmit] in W.
    bsplit W. apply FIN; [cbn; tauto|].
    intros ck. cbn [c09_icmp4 icmp4_wire CtlMsg.Spec.ts_id CtlMsg.Spec.ts_seq CtlMsg.Spec.ts_originate CtlMsg.Spec.ts_receive CtlMsg.Spec.ts_transmit].
    unfold w32. rewrite <- !u32_digits. reflexivity.
Qed.

Lemma icmp6_of_wf k : icmp6_cfg_wf k = true ->
  exists t, icmp6_of k = Some t /\ icmp6_ok t /\ t = c09_icmp6 k /\
            forall ck, Icmp6.icmp6_to_bytes {| Icmp6.icmp6_type := k; Icmp6.icmp6_checksum := ck |}
                       = Some (icmp6_wire t ck).
Proof.
  intros W. exists (c09_icmp6 k). split; [reflexivity|].
  assert (FIN : forall t, icmp6_ok (c09_icmp6 t) ->
     (forall ck, Icmp6.icmp6_to_bytes {| Icmp6.icmp6_type := t; Icmp6.icmp6_checksum := ck |}
                 = Some (icmp6_wire (c09_icmp6 t) ck)) ->
     icmp6_ok (c09_icmp6 t) /\ c09_icmp6 t = c09_icmp6 t /\
     (forall ck, Icmp6.icmp6_to_bytes {| Icmp6.icmp6_type := t; Icmp6.icmp6_checksum := ck |}
                 = Some (icmp6_wire (c09_icmp6 t) ck))) by (intros; repeat split; assumption).
  destruct k as [ty c b4 b5 b6 b7|dc|mtu|tc|pc ptr|id sq|id sq| |chl m o lt| |r sl o| ];
    cbn [icmp6_cfg_wf Icmp6.wf_icmp6_type] in W; bsplit W.
  - apply FIN; [cbn; tauto|reflexivity].
  - apply FIN; [destruct dc; cbn; first [lia | reflexivity]|reflexivity].
  - apply FIN; [cbn; assumption|]. intros ck. cbn [c09_icmp6 icmp6_wire]. unfold w32. rewrite <- !u32_digits. reflexivity.
  - apply FIN; [destruct tc; cbn; first [lia | reflexivity]|reflexivity].
  - apply FIN; [destruct pc; cbn; split; first [lia | assumption | reflexivity]|]. intros ck. cbn [c09_icmp6 icmp6_wire]. unfold w32. rewrite <- !u32_digits. reflexivity.
  - apply FIN; [cbn; tauto|reflexivity].
  - apply FIN; [cbn; tauto|reflexivity].
  - apply FIN; [exact I|reflexivity].
  - apply FIN; [cbn; tauto|]. intros ck. destruct m, o; reflexivity.
  - apply FIN; [exact I|reflexivity].
  - apply FIN; [exact I|]. intros ck. destruct r, sl, o; reflexivity.
  - apply FIN; [exact I|reflexivity].
Qed.

(* ------------------------------------------------------------------ the builder calls C09's update_checksum *)
(* ... on exactly the header it serialises (th_wire of the same value) and the
   payload it appends *)
Lemma tr_ipv4_is_update e s0 s1 s2 s3 d0 d1 d2 d3 t ul p tb :
  tr_wf t = true -> ul < 65536 ->
  tr_ipv4 e [s0; s1; s2; s3] [d0; d1; d2; d3] t ul p = TOk tb ->
  match th_of t ul with
  | None => tb = [] /\ exists n, t = TrNone n
  | Some th =>
      transport_ok th /\
      exists ck, CP.update_checksum_ipv4 e th (s0, s1, s2, s3) (d0, d1, d2, d3) p = UpdOk ck /\
                 ck < 65536 /\ tb = th_wire th ck
  end.
Proof.
  intros W UL E. destruct t as [n|sp dp|h|k|k]; cbn [tr_ipv4 th_of tr_wf] in *.
  - injection E as E. split; [auto|eauto].
  - bsplit W. split; [unfold transport_ok, udp_hdr_ok; cbn [u_sport u_dport u_length]; tauto|].
    unfold CP.update_checksum_ipv4, CP.udp_calc_checksum_ipv4_raw.
    change (CP.U16MAX - Gen.Consts.UDP_LEN) with 65527.
    destruct (65527 <? len p); [discriminate|]. cbn [p4_of] in E. injection E as E.
    eexists. split; [reflexivity|]. split; [|symmetry; exact E].
    eapply N.le_lt_trans; [apply checksum64_no_zero_le|lia].
  - pose proof (tcp_header_len_le h W) as HL. split; [apply tcp_hdr_of_ok; exact W|].
    replace (65535 <? Tcp.header_len h) with false in E by (symmetry; apply N.ltb_ge; lia).
    unfold CP.update_checksum_ipv4, CP.tcp_calc_checksum_ipv4_raw.
    change (CP.tcp_header_len_m (tcp_hdr_of h)) with (tcp_header_len (tcp_hdr_of h)).
    rewrite (tcp_header_len_of h W). change CP.U16MAX with 65535.
    destruct (65535 - Tcp.header_len h <? len p); [discriminate|].
    cbn [p4_of] in E. rewrite (TcpProofs.as_slice_wf h W) in E.
    rewrite tcp_finish_ok in E by (try assumption; apply checksum64_le). injection E as E.
    eexists. split; [reflexivity|]. split; [eapply N.le_lt_trans; [apply checksum64_le|lia]|].
    rewrite <- E. rewrite (tcp_post_of h p W).
    rewrite CPP.tcp_header_len_u16_val
      by (rewrite <- (tcp_header_len_of h W) in HL; unfold tcp_header_len in HL; lia).
    rewrite (tcp_header_len_of h W).
    apply tcp_wire_of; [exact W|]. eapply N.le_lt_trans; [apply checksum64_le|lia].
  - destruct (icmp4_of_wf k W) as (t & ET & OK & EP & EW). rewrite ET. cbn [option_map].
    split; [exact OK|]. unfold icmp4_emit in E. rewrite EW in E. injection E as E. subst t.
    eexists. split; [reflexivity|].
    split; [unfold CP.icmp4_calc_checksum; eapply N.le_lt_trans; [apply checksum64_le|lia]|].
    symmetry. exact E.
  - discriminate.
Qed.

Lemma tr_ipv6_is_update e s d t ul p tb :
  len s = 16 -> len d = 16 -> tr_wf t = true -> ul < 65536 ->
  tr_ipv6 e s d t ul p = TOk tb ->
  match th_of t ul with
  | None => tb = [] /\ exists n, t = TrNone n
  | Some th =>
      transport_ok th /\
      exists ck, CP.update_checksum_ipv6 e th s d p = UpdOk ck /\ ck < 65536 /\ tb = th_wire th ck
  end.
Proof.
  intros LS LD W UL E. destruct t as [n|sp dp|h|k|k]; cbn [tr_ipv6 th_of tr_wf] in *.
  - injection E as E. split; [auto|eauto].
  - bsplit W. split; [unfold transport_ok, udp_hdr_ok; cbn [u_sport u_dport u_length]; tauto|].
    unfold CP.update_checksum_ipv6, CP.udp_calc_checksum_ipv6_raw.
    change (CP.U32MAX - Gen.Consts.UDP_LEN) with 4294967287.
    destruct (4294967287 <? len p); [discriminate|]. rewrite !p16_of_len in E by assumption. injection E as E.
    eexists. split; [reflexivity|]. split; [|symmetry; exact E].
    eapply N.le_lt_trans; [apply checksum64_no_zero_le|lia].
  - pose proof (tcp_header_len_le h W) as HL. split; [apply tcp_hdr_of_ok; exact W|].
    replace (4294967295 <? Tcp.header_len h) with false in E by (symmetry; apply N.ltb_ge; lia).
    unfold CP.update_checksum_ipv6, CP.tcp_calc_checksum_ipv6_raw.
    change (CP.tcp_header_len_m (tcp_hdr_of h)) with (tcp_header_len (tcp_hdr_of h)).
    rewrite (tcp_header_len_of h W). change CP.U32MAX with 4294967295.
    destruct (4294967295 - Tcp.header_len h <? len p); [discriminate|].
    rewrite !p16_of_len in E by assumption. rewrite (TcpProofs.as_slice_wf h W) in E.
    rewrite tcp_finish_ok in E by (try assumption; apply checksum64_le). injection E as E.
    eexists. split; [reflexivity|]. split; [eapply N.le_lt_trans; [apply checksum64_le|lia]|].
    rewrite <- E. rewrite (tcp_post_of h p W).
    rewrite CPP.tcp_header_len_u16_val
      by (rewrite <- (tcp_header_len_of h W) in HL; unfold tcp_header_len in HL; lia).
    rewrite (tcp_header_len_of h W). rewrite p4be_P4w.
    apply tcp_wire_of; [exact W|]. eapply N.le_lt_trans; [apply checksum64_le|lia].
  - destruct (icmp4_of_wf k W) as (t & ET & OK & EP & EW). rewrite ET. cbn [option_map].
    split; [exact OK|]. unfold icmp4_emit in E. rewrite EW in E. injection E as E. subst t.
    eexists. split; [reflexivity|].
    split; [unfold CP.icmp4_calc_checksum; eapply N.le_lt_trans; [apply checksum64_le|lia]|].
    symmetry. exact E.
  - destruct (icmp6_of_wf k W) as (t & ET & OK & EP & EW). rewrite ET. cbn [option_map].
    split; [exact OK|]. subst t.
    rewrite !p16_of_len in E by assumption.
    unfold CP.update_checksum_ipv6.
    destruct (CP.icmp6_calc_checksum e (c09_icmp6 k) s d p) as [ck|a m|] eqn:EC; try discriminate.
    rewrite EW in E. injection E as E.
    exists ck. split; [reflexivity|]. split; [|symmetry; exact E].
    unfold CP.icmp6_calc_checksum in EC. destruct (_ <? _); [discriminate|]. injection EC as <-.
    eapply N.le_lt_trans; [apply checksum64_le|lia].
Qed.

(* ------------------------------------------------------------------ the field inside the RFC layouts *)
Definition th_ck_off (th : transport_hdr) : N :=
  match th with THUdp _ => 6 | THTcp _ => 16 | _ => 2 end.
Definition th_pre (th : transport_hdr) : bytes := take (th_ck_off th) (th_wire th 0).
Definition th_post (th : transport_hdr) : bytes := drop (th_ck_off th + 2) (th_wire th 0).

Lemma th_wire_split th ck : th_wire th ck = th_pre th ++ w16 ck ++ th_post th.
Proof. destruct th as [h|h|t|t]; [| |destruct t..]; reflexivity. Qed.
Lemma th_pre_len th : len (th_pre th) = th_ck_off th.
Proof. destruct th as [h|h|t|t]; [| |destruct t..]; reflexivity. Qed.
Lemma th_pre_even th : even_len (th_pre th).
Proof. destruct th as [h|h|t|t]; [| |destruct t..]; reflexivity. Qed.
Lemma th_wire_len th ck : len (th_wire th ck) = len (th_wire th 0).
Proof. rewrite !th_wire_split, !len_app. reflexivity. Qed.

Lemma W_u16 (a tl : bytes) v k : k = len a -> v < 65536 -> W (a ++ u16_to_be v ++ tl) k = v.
Proof.
  intros -> L. unfold W. rewrite (B_app_r a _ (len a)) by lia. rewrite (B_app_r a _ (len a + 1)) by lia.
  replace (len a - len a) with 0 by lia. replace (len a + 1 - len a) with 1 by lia.
  unfold u16_to_be. cbn [app]. rewrite B_cons0, B_consS by lia. change (1 - 1) with 0. rewrite B_cons0.
  apply (u16_be_roundtrip v L).
Qed.

(* a field filled with the RFC value: verifies, is where the RFC puts it, and is
   the RFC value of the segment with the field zeroed *)
Lemma wire_filled th ps p ck : even_len ps ->
  ck = rfc1071 (ps ++ th_wire th 0 ++ p) ->
  let seg := th_wire th ck ++ p in
  ck < 65536 /\ folds_to_ffff (ps ++ seg) = true /\ W seg (th_ck_off th) = ck /\
  zero16_at (th_ck_off th) seg = th_wire th 0 ++ p.
Proof.
  intros EV H. cbv zeta.
  assert (F : ck < 65536 /\ folds_to_ffff ((ps ++ th_pre th) ++ u16_to_be ck ++ th_post th ++ p) = true).
  { apply filled_verifies; [apply even_len_app; [exact EV|apply th_pre_even]|].
    rewrite H. rewrite (th_wire_split th 0). rewrite <- !app_assoc. reflexivity. }
  destruct F as [L F]. split; [exact L|].
  rewrite (th_wire_split th ck). unfold w16. change (to_be16 ck) with (u16_to_be ck).
  split; [rewrite <- !app_assoc in F |- *; exact F|]. split.
  - rewrite <- !app_assoc. apply W_u16; [symmetry; apply th_pre_len|exact L].
  - rewrite (th_wire_split th 0). rewrite <- !app_assoc. unfold u16_to_be. cbn [app].
    apply zero16_at_app. symmetry. apply th_pre_len.
Qed.
Lemma wire_filled_nz th ps p ck : even_len ps ->
  ck = no_zero (rfc1071 (ps ++ th_wire th 0 ++ p)) ->
  let seg := th_wire th ck ++ p in
  ck < 65536 /\ folds_to_ffff (ps ++ seg) = true /\ W seg (th_ck_off th) = ck /\
  zero16_at (th_ck_off th) seg = th_wire th 0 ++ p.
Proof.
  intros EV H. cbv zeta.
  assert (F : ck < 65536 /\ folds_to_ffff ((ps ++ th_pre th) ++ u16_to_be ck ++ th_post th ++ p) = true).
  { apply filled_verifies_nz; [apply even_len_app; [exact EV|apply th_pre_even]|].
    rewrite H. rewrite (th_wire_split th 0). rewrite <- !app_assoc. reflexivity. }
  destruct F as [L F]. split; [exact L|].
  rewrite (th_wire_split th ck). unfold w16. change (to_be16 ck) with (u16_to_be ck).
  split; [rewrite <- !app_assoc in F |- *; exact F|]. split.
  - rewrite <- !app_assoc. apply W_u16; [symmetry; apply th_pre_len|exact L].
  - rewrite (th_wire_split th 0). rewrite <- !app_assoc. unfold u16_to_be. cbn [app].
    apply zero16_at_app. symmetry. apply th_pre_len.
Qed.

(* ------------------------------------------------------------------ the segment of a built packet *)
Lemma len_ip6_bytes h : ip6_wf h = true -> len (BitFields.Model.Ipv6Header_to_bytes h) = 40.
Proof.
  intros WH. unfold ip6_wf in WH. bsplit WH.
  unfold BitFields.Model.Ipv6Header_to_bytes. rewrite !len_app.
  repeat match goal with H : len _ = 16 |- _ => rewrite H; clear H end. reflexivity.
Qed.
Lemma ip6_wf_set h pl nh : ip6_wf h = true -> ip6_wf (ip6_set_len_next h pl nh) = true.
Proof. intros H. exact H. Qed.

Lemma seg_shape e c p bs : cfg_wf c = true -> build e c p = BOk bs ->
  let t := c_transport c in
  match c_net c with
  | NtIpv4 h x =>
      exists front tb, bs = front ++ tb ++ p /\ len front = off_transport c /\ len tb = tr_header_len t /\
        tr_header_len t + len p <= 65515 /\
        tr_ipv4 e (Ipv4.i4_source h) (Ipv4.i4_destination h) t (as_u16 (8 + len p)) p = TOk tb
  | NtIpv6 h x =>
      exists front tb, bs = front ++ tb ++ p /\ len front = off_transport c /\ len tb = tr_header_len t /\
        tr_header_len t + len p <= 65535 /\
        tr_ipv6 e (BitFields.Model.v6_source h) (BitFields.Model.v6_destination h) t (as_u16 (8 + len p)) p = TOk tb
  | NtArp a => exists front, bs = front ++ p /\ len front = off_transport c
  end.
Proof.
  intros W E. cbv zeta. destruct (cfg_wf_inv c W) as (WL & WV & WN & WT & WS).
  pose proof (build_ok_shape e c p bs W E) as SH. cbv zeta in SH.
  set (pre := link_bytes c ++ vlan_bytes c) in *. clearbody pre. destruct SH as (LP & SH).
  unfold off_transport, net_len.
  destruct (c_net c) as [h x|h x|a] eqn:EN; cbn [net_wf] in WN.
  - apply andb_true_iff in WN. destruct WN as [WH WX].
    destruct SH as (EF & hb & xb & tb & EB & _ & LH & LX & LT & ETR).
    pose proof (i4o_len_le h WH) as OL.
    exists (pre ++ hb ++ xb), tb. split; [rewrite EB, <- !app_assoc; reflexivity|].
    split; [rewrite !len_app, LP, LH, LX; lia|]. split; [exact LT|]. split; [|exact ETR].
    unfold v4_value, v4_max in EF. lia.
  - apply andb_true_iff in WN. destruct WN as [WH WX].
    destruct SH as (EF & xb & tb & EB & LX & LT & ETR).
    pose proof (len_ip6_bytes (v6_final h x (c_transport c) (len p)) WH) as L6.
    set (H6 := BitFields.Model.Ipv6Header_to_bytes _) in *. clearbody H6.
    exists (pre ++ H6 ++ xb), tb. split; [rewrite EB, <- !app_assoc; reflexivity|].
    split; [rewrite !len_app, LP, L6, LX; lia|]. split; [exact LT|]. split; [|exact ETR].
    unfold v6_size in EF. lia.
  - exists (pre ++ arp_to_bytes a). split; [rewrite SH, <- !app_assoc; reflexivity|].
    rewrite len_app, LP, (arp_bytes_len a WN). reflexivity.
Qed.

(* ------------------------------------------------------------------ per IP version *)
Definition has_ck4 (t : transport_cfg) : bool :=
  match t with TrUdp _ _ | TrTcp _ | TrIcmpv4 _ => true | _ => false end.
Definition has_ck6 (t : transport_cfg) : bool :=
  match t with TrNone _ => false | _ => true end.
Definition ps4 (t : transport_cfg) (s d : bytes) (L : N) : bytes :=
  match t with TrUdp _ _ => pseudo4 s d 17 L | TrTcp _ => pseudo4 s d 6 L | _ => [] end.
Definition ps6 (t : transport_cfg) (s d : bytes) (L : N) : bytes :=
  match t with
  | TrUdp _ _ => pseudo6 s d L 17 | TrTcp _ => pseudo6 s d L 6 | TrIcmpv6 _ => pseudo6 s d L 58
  | _ => []
  end.

Lemma th_ck_off_of t ul th : th_of t ul = Some th -> th_ck_off th = ck_field_off t.
Proof.
  destruct t as [n|sp dp|h|k|k]; cbn [th_of]; intros H; try discriminate.
  - injection H as <-. reflexivity.
  - injection H as <-. reflexivity.
  - destruct (icmp4_of k); [|discriminate]. injection H as <-. reflexivity.
  - destruct (icmp6_of k); [|discriminate]. injection H as <-. reflexivity.
Qed.

Lemma len_th_wire_of t ul th ck : tr_wf t = true -> th_of t ul = Some th ->
  len (th_wire th ck) = tr_header_len t.
Proof.
  destruct t as [n|sp dp|h|k|k]; cbn [th_of tr_wf tr_header_len]; intros W H; try discriminate.
  - injection H as <-. reflexivity.
  - injection H as <-. cbn [th_wire]. rewrite <- (tcp_header_len_of h W).
    unfold tcp_wire, tcp_header_len, w16, w32, to_be16, to_be32, len. rewrite !app_length. cbn [length]. lia.
  - destruct (icmp4_of_wf k W) as (t & ET & _ & _ & EW). rewrite ET in H. injection H as <-.
    cbn [th_wire].
    destruct (Icmp4Proofs.icmp4_ser_agree {| Icmp4.icmp4_type := k; Icmp4.icmp4_checksum := ck |} [])
      as (b & EB & _ & LB).
    rewrite (EW ck) in EB. injection EB as <-. exact LB.
  - destruct (icmp6_of_wf k W) as (t & ET & _ & _ & EW). rewrite ET in H. injection H as <-.
    cbn [th_wire].
    destruct (Icmp6Proofs.icmp6_ser_agree {| Icmp6.icmp6_type := k; Icmp6.icmp6_checksum := ck |} [])
      as (b & EB & _ & LB).
    rewrite (EW ck) in EB. injection EB as <-. exact LB.
Qed.

Lemma ck4 e s0 s1 s2 s3 d0 d1 d2 d3 t p tb :
  tr_wf t = true -> bytes_ok p -> bytes_ok [s0; s1; s2; s3] -> bytes_ok [d0; d1; d2; d3] ->
  8 + len p < 65536 -> has_ck4 t = true ->
  tr_ipv4 e [s0; s1; s2; s3] [d0; d1; d2; d3] t (8 + len p) p = TOk tb ->
  let seg := tb ++ p in
  let ps := ps4 t [s0; s1; s2; s3] [d0; d1; d2; d3] (len seg) in
  let k := ck_field_off t in
  len tb = tr_header_len t /\
  folds_to_ffff (ps ++ seg) = true /\ W seg k = ck_value t (rfc1071 (ps ++ zero16_at k seg)).
Proof.
  intros WT BP BS BD UL HC E. cbv zeta.
  pose proof (tr_ipv4_is_update e s0 s1 s2 s3 d0 d1 d2 d3 t (8 + len p) p tb WT UL E) as U.
  destruct (th_of t (8 + len p)) as [th|] eqn:ETH; [|destruct U as (_ & n & ->); discriminate].
  destruct U as (OK & ck & EU & LCK & ETB).
  rewrite (CPP.update_checksum_ipv4_correct e th (s0, s1, s2, s3) (d0, d1, d2, d3) p OK BS BD BP) in EU.
  pose proof (th_ck_off_of t _ th ETH) as EO.
  pose proof (len_th_wire_of t _ th ck WT ETH) as LW.
  subst tb. split; [exact LW|]. rewrite len_app, LW. rewrite <- EO.
  destruct t as [n|sp dp|h|k|k]; cbn [has_ck4] in HC; try discriminate; cbn [th_of] in ETH.
  - (* UDP *) injection ETH as <-. cbn [update4_spec u_length tr_header_len ps4 ck_value] in *.
    destruct (65527 <? len p); [discriminate|]. injection EU as EU. unfold udp4_spec in EU.
    cbn [u_length] in EU.
    set (th := THUdp _) in *.
    destruct (wire_filled_nz th (pseudo4 [s0; s1; s2; s3] [d0; d1; d2; d3] 17 (8 + len p)) p ck) as (_ & V & WW & Z).
    { reflexivity. } { rewrite <- EU. reflexivity. }
    split; [exact V|]. rewrite WW, Z. rewrite <- EU. reflexivity.
  - (* TCP *) injection ETH as <-. cbn [update4_spec tr_header_len ps4 ck_value] in *.
    rewrite (tcp_header_len_of h WT) in EU.
    destruct (65535 - Tcp.header_len h <? len p); [discriminate|]. injection EU as EU. unfold tcp4_spec in EU.
    rewrite (tcp_header_len_of h WT) in EU.
    set (th := THTcp _) in *.
    destruct (wire_filled th (pseudo4 [s0; s1; s2; s3] [d0; d1; d2; d3] 6 (Tcp.header_len h + len p)) p ck) as (_ & V & WW & Z).
    { reflexivity. } { rewrite <- EU. reflexivity. }
    split; [exact V|]. rewrite WW, Z. rewrite <- EU. reflexivity.
  - (* ICMPv4 *) destruct (icmp4_of k) as [t|]; [|discriminate]. injection ETH as <-.
    cbn [update4_spec tr_header_len ps4 ck_value] in *. injection EU as EU. unfold icmp4_spec in EU.
    set (th := THIcmp4 _) in *.
    destruct (wire_filled th [] p ck) as (_ & V & WW & Z).
    { reflexivity. } { rewrite <- EU. reflexivity. }
    split; [exact V|]. rewrite WW, Z. rewrite <- EU. reflexivity.
Qed.

Lemma even_pseudo6 s d L nh : len s = 16 -> len d = 16 -> even_len (pseudo6 s d L nh).
Proof.
  intros LS LD. unfold pseudo6.
  apply even_len_app; [apply (ProofsCk.even_len_of_len s 8); rewrite LS; reflexivity|].
  apply even_len_app; [apply (ProofsCk.even_len_of_len d 8); rewrite LD; reflexivity|]. reflexivity.
Qed.

Lemma ck6 e s d t p tb :
  tr_wf t = true -> bytes_ok p -> bytes_ok s -> bytes_ok d -> len s = 16 -> len d = 16 ->
  8 + len p < 65536 -> has_ck6 t = true ->
  tr_ipv6 e s d t (8 + len p) p = TOk tb ->
  let seg := tb ++ p in
  let ps := ps6 t s d (len seg) in
  let k := ck_field_off t in
  len tb = tr_header_len t /\
  folds_to_ffff (ps ++ seg) = true /\ W seg k = ck_value t (rfc1071 (ps ++ zero16_at k seg)).
Proof.
  intros WT BP BS BD LS LD UL HC E. cbv zeta.
  pose proof (tr_ipv6_is_update e s d t (8 + len p) p tb LS LD WT UL E) as U.
  destruct (th_of t (8 + len p)) as [th|] eqn:ETH; [|destruct U as (_ & n & ->); discriminate].
  destruct U as (OK & ck & EU & LCK & ETB).
  assert (IS : ip6_ok s) by (split; [exact BS|unfold len in LS; lia]).
  assert (ID : ip6_ok d) by (split; [exact BD|unfold len in LD; lia]).
  rewrite (CPP.update_checksum_ipv6_correct e th s d p OK IS ID BP) in EU.
  pose proof (th_ck_off_of t _ th ETH) as EO.
  pose proof (len_th_wire_of t _ th ck WT ETH) as LW.
  subst tb. split; [exact LW|]. rewrite len_app, LW. rewrite <- EO.
  destruct t as [n|sp dp|h|k|k]; cbn [has_ck6] in HC; try discriminate; cbn [th_of] in ETH.
  - (* UDP *) injection ETH as <-. cbn [update6_spec u_length tr_header_len ps6 ck_value] in *.
    destruct (4294967287 <? len p); [discriminate|]. injection EU as EU. unfold udp6_spec in EU.
    cbn [u_length] in EU.
    set (th := THUdp _) in *.
    destruct (wire_filled_nz th (pseudo6 s d (8 + len p) 17) p ck) as (_ & V & WW & Z).
    { apply even_pseudo6; assumption. } { rewrite <- EU. reflexivity. }
    split; [exact V|]. rewrite WW, Z. rewrite <- EU. reflexivity.
  - (* TCP *) injection ETH as <-. cbn [update6_spec tr_header_len ps6 ck_value] in *.
    rewrite (tcp_header_len_of h WT) in EU.
    destruct (4294967295 - Tcp.header_len h <? len p); [discriminate|]. injection EU as EU. unfold tcp6_spec in EU.
    rewrite (tcp_header_len_of h WT) in EU.
    set (th := THTcp _) in *.
    destruct (wire_filled th (pseudo6 s d (Tcp.header_len h + len p) 6) p ck) as (_ & V & WW & Z).
    { apply even_pseudo6; assumption. } { rewrite <- EU. reflexivity. }
    split; [exact V|]. rewrite WW, Z. rewrite <- EU. reflexivity.
  - (* ICMPv4 *) destruct (icmp4_of k) as [t|]; [|discriminate]. injection ETH as <-.
    cbn [update6_spec tr_header_len ps6 ck_value] in *. injection EU as EU. unfold icmp4_spec in EU.
    set (th := THIcmp4 _) in *.
    destruct (wire_filled th [] p ck) as (_ & V & WW & Z).
    { reflexivity. } { rewrite <- EU. reflexivity. }
    split; [exact V|]. rewrite WW, Z. rewrite <- EU. reflexivity.
  - (* ICMPv6 *) destruct (icmp6_of k) as [t|]; [|discriminate]. injection ETH as <-.
    cbn [update6_spec tr_header_len ps6 ck_value] in *. rewrite (icmp6_hl k) in *.
    destruct (4294967287 <? len p); [discriminate|]. injection EU as EU. unfold icmp6_spec in EU.
    set (th := THIcmp6 _) in *.
    destruct (wire_filled th (pseudo6 s d (8 + len p) 58) p ck) as (_ & V & WW & Z).
    { apply even_pseudo6; assumption. } { rewrite <- EU. reflexivity. }
    split; [exact V|]. rewrite WW, Z. rewrite <- EU. reflexivity.
Qed.

(* ------------------------------------------------------------------ all transport checksums of a built packet *)
Theorem checksums_verify e c p bs : cfg_wf c = true -> bytes_ok p -> build e c p = BOk bs ->
  let seg := drop (off_transport c) bs in
  let k := ck_field_off (c_transport c) in
  match ck_pseudo c (len seg) with
  | None => True
  | Some ph =>
      len seg = tr_header_len (c_transport c) + len p /\ off_transport c + len seg = len bs /\
      k + 2 <= tr_header_len (c_transport c) /\
      verifies (ph ++ seg) /\
      W bs (off_transport c + k) = ck_value (c_transport c) (rfc1071 (ph ++ zero16_at k seg))
  end.
Proof.
  intros W BP E. cbv zeta. destruct (cfg_wf_inv c W) as (WL & WV & WN & WT & WS).
  pose proof (seg_shape e c p bs W E) as SH. cbv zeta in SH. unfold ck_pseudo.
  destruct (c_net c) as [h x|h x|a] eqn:EN; cbn [net_wf] in WN; [| |exact I].
  - (* IPv4 *)
    apply andb_true_iff in WN. destruct WN as [WH WX].
    destruct SH as (front & tb & EB & LF & LT & BND & ETR).
    assert (HL : tr_header_len (c_transport c) <= 60).
    { apply tr_header_len_le. exact WT. }
    assert (UL : 8 + len p < 65536) by lia. rewrite (as_u16_small _ UL) in ETR.
    destruct (Ipv4Proofs.wf_ip4_facts h WH) as (_ & _ & (LS & OS & LD & OD) & _).
    destruct (Ipv4Proofs.len4_explicit _ LS OS) as (s0 & s1 & s2 & s3 & ES & _).
    destruct (Ipv4Proofs.len4_explicit _ LD OD) as (d0 & d1 & d2 & d3 & ED & _).
    rewrite ES, ED in *.
    assert (DR : drop (off_transport c) bs = tb ++ p).
    { rewrite EB. apply drop_front. symmetry. exact LF. }
    rewrite DR.
    assert (LB : len bs = off_transport c + len (tb ++ p)) by (rewrite EB, !len_app; lia).
    destruct (has_ck4 (c_transport c)) eqn:HC; [|destruct (c_transport c); try discriminate; exact I].
    destruct (ck4 e s0 s1 s2 s3 d0 d1 d2 d3 (c_transport c) p tb WT BP OS OD UL HC ETR) as (_ & V & WW).
    rewrite <- W_drop, DR.
    assert (KK : ck_field_off (c_transport c) + 2 <= tr_header_len (c_transport c)).
    { clear - HC. destruct (c_transport c) as [n|sp dp|t|k|k]; cbn [tr_header_len ck_field_off has_ck4] in *;
        try discriminate; try lia; try (icmp_hl; lia). unfold Tcp.header_len. lia. }
    destruct (c_transport c) as [n|sp dp|t|k|k]; cbn [has_ck4] in HC; try discriminate;
      cbn [ps4] in V, WW; (split; [rewrite len_app, LT; reflexivity|]); (split; [clear - LB; lia|]);
      (split; [exact KK|]); (split; [exact V|exact WW]).
  - (* IPv6 *)
    apply andb_true_iff in WN. destruct WN as [WH WX].
    destruct SH as (front & tb & EB & LF & LT & BND & ETR).
    assert (HL : tr_header_len (c_transport c) <= 60).
    { apply tr_header_len_le. exact WT. }
    assert (DR : drop (off_transport c) bs = tb ++ p).
    { rewrite EB. apply drop_front. symmetry. exact LF. }
    rewrite DR.
    assert (LB : len bs = off_transport c + len (tb ++ p)) by (rewrite EB, !len_app; lia).
    destruct (has_ck6 (c_transport c)) eqn:HC; [|destruct (c_transport c); try discriminate; exact I].
    assert (UL : 8 + len p < 65536).
    { clear - HC BND. destruct (c_transport c) as [n|sp dp|t|k|k]; cbn [tr_header_len has_ck6] in *; try discriminate; try lia;
        try (icmp_hl; lia).
      unfold Tcp.header_len in BND. lia. }
    rewrite (as_u16_small _ UL) in ETR.
    unfold ip6_wf in WH. bsplit WH.
    repeat match goal with H : bytes_okb _ = true |- _ => apply bytes_okb_spec in H end.
    match goal with
    | L1 : len (BitFields.Model.v6_source h) = 16, L2 : len (BitFields.Model.v6_destination h) = 16,
      B1 : bytes_ok (BitFields.Model.v6_source h), B2 : bytes_ok (BitFields.Model.v6_destination h) |- _ =>
      destruct (ck6 e _ _ (c_transport c) p tb WT BP B1 B2 L1 L2 UL HC ETR) as (_ & V & WW)
    end.
    rewrite <- W_drop, DR.
    assert (KK : ck_field_off (c_transport c) + 2 <= tr_header_len (c_transport c)).
    { clear - HC. destruct (c_transport c) as [n|sp dp|t|k|k]; cbn [tr_header_len ck_field_off has_ck6] in *;
        try discriminate; try lia; try (icmp_hl; lia). unfold Tcp.header_len. lia. }
    destruct (c_transport c) as [n|sp dp|t|k|k]; cbn [has_ck6] in HC; try discriminate;
      cbn [ps6] in V, WW; (split; [rewrite len_app, LT; reflexivity|]); (split; [clear - LB; lia|]);
      (split; [exact KK|]); (split; [exact V|exact WW]).
Qed.

(* the header the builder serialises IS the RFC layout (Checksum/ProtoSpec.v) of the
   configured header with the stored checksum, followed by exactly the payload *)
Theorem transport_is_rfc_layout e c p bs : cfg_wf c = true -> build e c p = BOk bs ->
  match c_net c with
  | NtArp _ => True
  | _ =>
    match th_of (c_transport c) (8 + len p) with
    | None => drop (off_transport c) bs = p
    | Some th => exists ck, ck < 65536 /\ drop (off_transport c) bs = th_wire th ck ++ p
    end
  end.
Proof.
  intros W E. destruct (cfg_wf_inv c W) as (WL & WV & WN & WT & WS).
  pose proof (seg_shape e c p bs W E) as SH. cbv zeta in SH.
  destruct (c_net c) as [h x|h x|a] eqn:EN; cbn [net_wf] in WN; [| |exact I].
  - apply andb_true_iff in WN. destruct WN as [WH WX].
    destruct SH as (front & tb & EB & LF & LT & BND & ETR).
    assert (UL : 8 + len p < 65536).
    { clear - BND. destruct (c_transport c) as [n|sp dp|t|k|k]; cbn [tr_header_len] in *; try lia; try (icmp_hl; lia);
      unfold Tcp.header_len in BND; lia. }
    rewrite (as_u16_small _ UL) in ETR.
    destruct (Ipv4Proofs.wf_ip4_facts h WH) as (_ & _ & (LS & OS & LD & OD) & _).
    destruct (Ipv4Proofs.len4_explicit _ LS OS) as (s0 & s1 & s2 & s3 & ES & _).
    destruct (Ipv4Proofs.len4_explicit _ LD OD) as (d0 & d1 & d2 & d3 & ED & _).
    rewrite ES, ED in *.
    assert (DR : drop (off_transport c) bs = tb ++ p).
    { rewrite EB. apply drop_front. symmetry. exact LF. }
    pose proof (tr_ipv4_is_update e s0 s1 s2 s3 d0 d1 d2 d3 _ _ p tb WT UL ETR) as U.
    destruct (th_of (c_transport c) (8 + len p)) as [th|].
    + destruct U as (_ & ck & _ & L & ->). exists ck. split; [exact L|exact DR].
    + destruct U as (-> & _). exact DR.
  - apply andb_true_iff in WN. destruct WN as [WH WX].
    destruct SH as (front & tb & EB & LF & LT & BND & ETR).
    assert (DR : drop (off_transport c) bs = tb ++ p).
    { rewrite EB. apply drop_front. symmetry. exact LF. }
    unfold ip6_wf in WH. bsplit WH.
    destruct (N.ltb_spec (8 + len p) 65536) as [UL|UL].
    + rewrite (as_u16_small _ UL) in ETR.
      match goal with
      | L1 : len (BitFields.Model.v6_source h) = 16, L2 : len (BitFields.Model.v6_destination h) = 16 |- _ =>
        pose proof (tr_ipv6_is_update e _ _ _ _ p tb L1 L2 WT UL ETR) as U
      end.
      destruct (th_of (c_transport c) (8 + len p)) as [th|].
      * destruct U as (_ & ck & _ & L & ->). exists ck. split; [exact L|exact DR].
      * destruct U as (-> & _). exact DR.
    + (* only a raw payload can be that long *)
      destruct (c_transport c) as [n|sp dp|t|k|k]; cbn [tr_header_len th_of] in *;
        try (exfalso; clear - UL BND; icmp_hl; lia).
      * cbn [tr_ipv6] in ETR. injection ETR as <-. exact DR.
      * exfalso. clear - UL BND. unfold Tcp.header_len in BND. lia.
Qed.
