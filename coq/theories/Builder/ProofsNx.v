(* Builder/ProofsNx.v -- property C10, part 4: every ether type / protocol / next-header
   field of a built packet names the layer that follows, as facts about the bytes at
   the computed offsets (`B bs i`, `W bs i` of Parse/WireSpec.v), plus the header
   fields the reference decoder reads (version/IHL, length fields, fragment bits,
   extension header lengths).  Uses C12 (write visits the headers in RFC 8200 order,
   linked) and the layouts of C08 / C15. *)
From EP Require Import Base.Bytes Checksum.Spec Checksum.Model Checksum.Proofs.
From EP Require Import Roundtrip.Common Roundtrip.CommonProofs.
From EP Require Roundtrip.Spec Roundtrip.Tcp Roundtrip.TcpProofs Roundtrip.Ipv4 Roundtrip.Ipv4Proofs.
From EP Require ExtChain.Spec ExtChain.Model ExtChain.View ExtChain.Proofs BitFields.Model.
From EP Require Import Parse.WireSpec.
From EP Require Import Builder.Model Builder.Spec Builder.Proofs Builder.ProofsCk Builder.SpecX Builder.ProofsTr.
From Coq Require Import ZArith Lia ZifyN ZifyBool.
Local Open Scope N_scope.

Module XS := EP.ExtChain.Spec.
Module XV := EP.ExtChain.View.

(* ------------------------------------------------------------------ the shape of a build, with the chain bytes *)
Lemma build_shape_x e c p bs : cfg_wf c = true -> build e c p = BOk bs ->
  let t := c_transport c in
  let pre := link_bytes c ++ vlan_bytes c in
  len pre = off_net c /\
  match c_net c with
  | NtIpv4 h x =>
      exists hb xb tb, bs = pre ++ hb ++ xb ++ tb ++ p /\
        Ipv4.ip4_to_bytes (v4_final e h x t (len p)) = Some hb /\ len hb = Ipv4.ip4_header_len h /\
        XM.write4 (fst (XM.set_next_headers4 x (tr_ip_number t))) (snd (XM.set_next_headers4 x (tr_ip_number t)))
          = (xb, XM.Ok tt) /\
        len xb = XM.header_len4 x /\ len tb = tr_header_len t /\ v4_value x t (len p) <= v4_max h
  | NtIpv6 h x =>
      exists xb tb, bs = pre ++ BitFields.Model.Ipv6Header_to_bytes (v6_final h x t (len p)) ++ xb ++ tb ++ p /\
        XM.write (fst (XM.set_next_headers x (tr_ip_number t))) (snd (XM.set_next_headers x (tr_ip_number t)))
          = (xb, XM.Ok tt) /\
        len xb = XM.header_len x /\ len tb = tr_header_len t /\ v6_size x t (len p) <= 65535
  | NtArp a => bs = pre ++ arp_to_bytes a ++ p
  end.
Proof.
  intros W E. cbv zeta. destruct (cfg_wf_inv c W) as (WL & WV & WN & WT & WS).
  pose proof (build_ok_shape e c p bs W E) as SH. cbv zeta in SH. destruct SH as (LP & SH).
  split; [exact LP|].
  unfold build, build_run in E.
  set (pre := link_bytes c ++ vlan_bytes c) in *. clearbody pre.
  destruct (c_net c) as [h x|h x|a] eqn:EN; cbn [net_wf] in WN; [| |exact SH].
  - apply andb_true_iff in WN. destruct WN as [WH WX].
    destruct SH as (EF & _ & _ & tb0 & _ & _ & _ & _ & LT0 & ET0).
    destruct (ipv4_part_fits e h x (c_transport c) p WH WX WT EF) as (hb & xb & EB & LH & EWR & LX & EP).
    rewrite EP in E. clear EP. rewrite ET0 in E.
    injection E as E'. exists hb, xb, tb0. rewrite <- E', <- !app_assoc.
    split; [reflexivity|]. split; [exact EB|]. split; [exact LH|]. split; [exact EWR|].
    split; [exact LX|]. split; [exact LT0|exact EF].
  - apply andb_true_iff in WN. destruct WN as [WH WX].
    destruct SH as (EF & _ & tb0 & _ & _ & LT0 & ET0).
    pose proof (ipv6_part_fits e h x (c_transport c) p WX WT EF) as PF. cbv zeta in PF.
    destruct (XM.next_header _ _) as [n|w| |]; try contradiction.
    + destruct PF as (xb & EWR & LX & EP). rewrite EP in E. clear EP. rewrite ET0 in E.
      set (H6 := BitFields.Model.Ipv6Header_to_bytes (v6_final h x (c_transport c) (len p))) in *. clearbody H6.
      injection E as E'. exists xb, tb0. rewrite <- E', <- !app_assoc.
      split; [reflexivity|]. split; [exact EWR|]. split; [exact LX|]. split; [exact LT0|exact EF].
    + destruct PF as (xb & EP). rewrite EP in E. discriminate.
Qed.

(* ------------------------------------------------------------------ link and VLAN headers *)
Lemma net_et_lt n : net_ether_type n < 65536.
Proof. destruct n; cbn; lia. Qed.

Lemma link_fields c rest : link_wf (c_link c) = true -> shape_ok c = true ->
  let bs := link_bytes c ++ rest in
  match c_link c with
  | LkNone => True
  | LkEthernet2 _ _ => W bs 12 = link_announces c
  | LkLinuxSll pt _ _ => W bs 0 = pt /\ W bs 2 = 1 /\ W bs 14 = net_ether_type (c_net c) /\ c_vlan c = VlNone
  end.
Proof.
  intros WL WS. cbv zeta. unfold link_bytes, link_announces.
  pose proof (net_et_lt (c_net c)) as NE.
  unfold shape_ok in WS. revert WL WS.
  destruct (c_link c) as [|s d|pt vl a]; intros WL WS; [exact I| |]; cbn [link_wf] in WL; bsplit WL.
  - unfold eth_to_bytes.
    replace ((d ++ s ++ u16_to_be
               match c_vlan c with VlNone => net_ether_type (c_net c) | VlSingle _ => 33024 | VlDouble _ _ => 34984 end)
             ++ rest)
      with ((d ++ s) ++ u16_to_be
               match c_vlan c with VlNone => net_ether_type (c_net c) | VlSingle _ => 33024 | VlDouble _ _ => 34984 end
             ++ rest) by (rewrite <- !app_assoc; reflexivity).
    apply W_u16; [rewrite len_app; lia|]. destruct (c_vlan c); lia.
  - destruct (c_vlan c); try discriminate.
    unfold sll_to_bytes.
    match goal with H : len a = 8 |- _ => rename H into LA end.
    split; [|split; [|split; [|reflexivity]]].
    + rewrite <- !app_assoc. apply (W_u16 [] _ pt 0); [reflexivity|lia].
    + replace ((u16_to_be pt ++ u16_to_be 1 ++ u16_to_be vl ++ a ++ u16_to_be (net_ether_type (c_net c))) ++ rest)
        with (u16_to_be pt ++ u16_to_be 1 ++ (u16_to_be vl ++ a ++ u16_to_be (net_ether_type (c_net c)) ++ rest))
        by (rewrite <- !app_assoc; reflexivity).
      apply W_u16; [reflexivity|lia].
    + replace ((u16_to_be pt ++ u16_to_be 1 ++ u16_to_be vl ++ a ++ u16_to_be (net_ether_type (c_net c))) ++ rest)
        with ((u16_to_be pt ++ u16_to_be 1 ++ u16_to_be vl ++ a) ++ u16_to_be (net_ether_type (c_net c)) ++ rest)
        by (rewrite <- !app_assoc; reflexivity).
      apply W_u16; [rewrite !len_app, LA; reflexivity|exact NE].
Qed.

Lemma vlan_to_bytes_et v et rest : et < 65536 ->
  W (BitFields.Model.SingleVlanHeader_to_bytes (vlan_set_ether_type v et) ++ rest) 2 = et.
Proof.
  intros L. unfold BitFields.Model.SingleVlanHeader_to_bytes, vlan_set_ether_type.
  cbn [BitFields.Model.vlan_ether_type BitFields.Model.vlan_id BitFields.Model.vlan_dei BitFields.Model.vlan_pcp].
  unfold BitFields.Model.be16_0, BitFields.Model.be16_1.
  set (b0 := N.lor _ _). set (b1 := BitFields.Model.vlan_id v mod 256).
  change ([b0; b1; (et / 256) mod 256; et mod 256] ++ rest) with ([b0; b1] ++ u16_to_be et ++ rest).
  apply W_u16; [reflexivity|exact L].
Qed.

Lemma vlan_fields c rest :
  let vs := vlan_bytes c ++ rest in
  match c_vlan c with
  | VlNone => True
  | VlSingle _ => W vs 2 = net_ether_type (c_net c)
  | VlDouble _ _ => W vs 2 = 33024 /\ W vs 6 = net_ether_type (c_net c)
  end.
Proof.
  cbv zeta. unfold vlan_bytes. pose proof (net_et_lt (c_net c)) as NE.
  destruct (c_vlan c) as [|v|o i]; [exact I| |].
  - apply vlan_to_bytes_et. exact NE.
  - split.
    + rewrite <- app_assoc. apply vlan_to_bytes_et. lia.
    + rewrite <- app_assoc.
      change 6 with (4 + 2). rewrite <- W_drop.
      rewrite drop_front by reflexivity. apply vlan_to_bytes_et. exact NE.
Qed.

(* ------------------------------------------------------------------ IPv4 header fields (RFC 791 layout, C08) *)
Definition ip4_flags_word (h : Ipv4.Ipv4Header) : N :=
  (Roundtrip.Spec.bit (Ipv4.i4_dont_fragment h) * 2 + Roundtrip.Spec.bit (Ipv4.i4_more_fragments h)) * 8192
  + Ipv4.i4_fragment_offset h.

Lemma ip4_layout_fields h hb rest : Ipv4.wf_ip4 h = true -> Ipv4.ip4_to_bytes h = Some hb ->
  let d := hb ++ rest in
  B d 0 = 64 + (5 + Ipv4.i4o_len (Ipv4.i4_options h) / 4) /\ W d 2 = Ipv4.i4_total_len h /\
  W d 6 = ip4_flags_word h /\ B d 9 = Ipv4.i4_protocol h /\ B d 6 = (ip4_flags_word h / 256) mod 256.
Proof.
  intros WH EB. cbv zeta. rewrite (Ipv4Proofs.ip4_spec h WH) in EB. apply Some_inj in EB. subst hb.
  destruct (Ipv4Proofs.wf_ip4_facts h WH) as ((R1 & R2 & R3 & R4) & (R5 & R6 & R7 & R8) & (LS & OS & LD & OD) & WO).
  unfold Roundtrip.Spec.ipv4_layout, Roundtrip.Spec.field. rewrite (Ipv4Proofs.len_take_i4o _ WO).
  cbn [to_be app].
  set (fw := (Roundtrip.Spec.bit (Ipv4.i4_dont_fragment h) * 2 + Roundtrip.Spec.bit (Ipv4.i4_more_fragments h)) * 8192
             + Ipv4.i4_fragment_offset h).
  assert (FW : fw < 65536).
  { subst fw. destruct (Ipv4.i4_dont_fragment h), (Ipv4.i4_more_fragments h); cbn [Roundtrip.Spec.bit]; lia. }
  split; [reflexivity|]. split; [|split; [|split; reflexivity]].
  - unfold W. change (B _ 2) with ((Ipv4.i4_total_len h / 256) mod 256).
    change (B _ (2 + 1)) with (Ipv4.i4_total_len h mod 256). apply (u16_be_roundtrip _ R3).
  - unfold W. change (B _ 6) with ((fw / 256) mod 256). change (B _ (6 + 1)) with (fw mod 256).
    apply (u16_be_roundtrip _ FW).
Qed.

(* the fragment test of the reference decoder on these two bytes *)
Lemma ip4_frag_bits h : Ipv4.i4_fragment_offset h < 8192 ->
  let w := ip4_flags_word h in
  (negb (((w / 256) mod 256 / 32) mod 2 =? 0) || negb (w mod 8192 =? 0)) = ipv4_frag h.
Proof.
  intros R. cbv zeta. unfold ip4_flags_word, ipv4_frag.
  set (fo := Ipv4.i4_fragment_offset h) in *.
  assert (E1 : forall k, k < 4 -> (((k * 8192 + fo) / 256) mod 256 / 32) mod 2 = k mod 2) by (intros k K; dmlia).
  assert (E2 : forall k, k < 4 -> (k * 8192 + fo) mod 8192 = fo) by (intros k K; dmlia).
  destruct (Ipv4.i4_dont_fragment h), (Ipv4.i4_more_fragments h); cbn [Roundtrip.Spec.bit];
    rewrite E1, E2 by lia; reflexivity.
Qed.

(* ------------------------------------------------------------------ IPv6 header fields (C15 layout) *)
Lemma ip6_first_byte_sweep :
  forallb (fun tc => N.lor (BitFields.Model.shl8 6 4) (N.shiftr tc 4) / 16 =? 6) (CPP.upto 256) = true.
Proof. vm_compute. reflexivity. Qed.

Lemma ip6_layout_fields h rest : ip6_wf h = true -> BitFields.Model.v6_payload_length h < 65536 ->
  let d := BitFields.Model.Ipv6Header_to_bytes h ++ rest in
  B d 0 / 16 = 6 /\ W d 4 = BitFields.Model.v6_payload_length h /\ B d 6 = BitFields.Model.v6_next_header h.
Proof.
  intros WH PL. cbv zeta. unfold ip6_wf in WH. bsplit WH.
  unfold BitFields.Model.Ipv6Header_to_bytes. cbn [app].
  split; [|split; [|reflexivity]].
  - change (B _ 0) with (N.lor (BitFields.Model.shl8 6 4) (N.shiftr (BitFields.Model.v6_traffic_class h) 4)).
    match goal with H : BitFields.Model.v6_traffic_class h < 256 |- _ =>
      pose proof (CPP.sweep1 256 _ ip6_first_byte_sweep _ H) as S end.
    cbv beta in S. apply N.eqb_eq in S. exact S.
  - unfold W. change (B _ 4) with (BitFields.Model.be16_0 (BitFields.Model.v6_payload_length h)).
    change (B _ (4 + 1)) with (BitFields.Model.be16_1 (BitFields.Model.v6_payload_length h)).
    apply (u16_be_roundtrip _ PL).
Qed.

(* ------------------------------------------------------------------ extension chains *)
(* generic: headers written in the order of a kind list, linked through their first bytes *)
Definition order {A} (ks : list XS.ext_kind) (get : XS.ext_kind -> option A) : list (XS.ext_kind * A) :=
  flat_map (fun k => match get k with Some a => [(k, a)] | None => [] end) ks.

Lemma in_rfc_order_is {A} (get : XS.ext_kind -> option A) : XS.in_rfc_order get = order XS.rfc8200_order get.
Proof. reflexivity. Qed.

Section Chain.
  Variables (get_w : XS.ext_kind -> option bytes) (get_nh : XS.ext_kind -> option N)
            (get_i : XS.ext_kind -> option (N * bool)).
  Hypothesis C : forall k,
    match get_w k with
    | Some w => exists nh hl fr tl, get_nh k = Some nh /\ get_i k = Some (hl, fr) /\ w = nh :: tl /\ len w = hl /\
                  forall pre post, ext_hdr_at (B (pre ++ w ++ post)) (len pre) k hl fr
    | None => get_nh k = None /\ get_i k = None
    end.

  Lemma chain_generic ks : forall pre post first last,
    XS.linked first (order ks get_nh) last ->
    chain_full (B (pre ++ concat (map snd (order ks get_w)) ++ post)) (len pre) first (order ks get_i) last.
  Proof.
    induction ks as [|k ks IH]; intros pre post first last L.
    - exact L.
    - unfold order in *. cbn [flat_map] in *. specialize (C k).
      destruct (get_w k) as [w|].
      + destruct C as (nh & hl & fr & tl & E1 & E2 & EW & LW & HA). rewrite E1 in L. rewrite E2.
        cbn [app XS.linked map snd concat chain_full] in *. destruct L as [L1 L2].
        split; [exact L1|]. rewrite <- app_assoc. split; [apply HA|].
        assert (BP : B (pre ++ w ++ concat (map snd (flat_map (fun k0 => match get_w k0 with Some a => [(k0, a)] | None => [] end) ks)) ++ post) (len pre) = nh).
        { rewrite B_app_r by lia. replace (len pre - len pre) with 0 by lia. rewrite EW. reflexivity. }
        rewrite BP. rewrite app_assoc. replace (len pre + hl) with (len (pre ++ w)) by (rewrite len_app, LW; reflexivity).
        apply IH. exact L2.
      + destruct C as (E1 & E2). rewrite E1 in L. rewrite E2. cbn [app]. apply IH. exact L.
  Qed.
End Chain.

(* forgetting the details *)
Lemma chain_full_at Bf l : forall pos first last, chain_full Bf pos first l last ->
  chain_at Bf pos first (map (fun e => (fst e, fst (snd e))) l) last.
Proof.
  induction l as [|[k [hl fr]] r IH]; intros pos first last H; [exact H|].
  cbn [map fst snd chain_at chain_full] in *. destruct H as (H1 & _ & H3). split; [exact H1|]. apply IH. exact H3.
Qed.

(* the wire formats of C12 carry what ext_hdr_at asks for *)
Lemma raw_hdr_at h k pre post : XM.raw_valid h = true ->
  match k with XS.KFragment | XS.KAuth => False | _ => True end ->
  ext_hdr_at (B (pre ++ XV.raw_wire_bytes h ++ post)) (len pre) k (XM.raw_header_len h) false.
Proof.
  intros V K. apply XP.raw_valid_inv in V. destruct V as (_ & HL & HP & _).
  assert (E : B (pre ++ XV.raw_wire_bytes h ++ post) (len pre + 1) = XM.r_header_length h).
  { rewrite B_app_r by lia. replace (len pre + 1 - len pre) with 1 by lia.
    unfold XV.raw_wire_bytes, XS.wire_options_header. cbn [app]. rewrite B_consS by lia. change (1 - 1) with 0.
    rewrite B_cons0. rewrite HP. clear - HL. dmlia. }
  unfold XM.raw_header_len. destruct k; try contradiction; cbn [ext_hdr_at]; rewrite E; repeat split; lia.
Qed.

Lemma frag_bits_sweep :
  forallb (fun off => forallb (fun m =>
     let w := off * 8 + m in
     Bool.eqb (negb ((w mod 256) mod 2 =? 0) || negb (((w / 256) * 256 + w mod 256) / 8 =? 0))
              ((m =? 1) || negb (off =? 0))) (CPP.upto 2)) (CPP.upto 8192) = true.
Proof. vm_compute. reflexivity. Qed.

Lemma frag_hdr_at h pre post : XM.frag_valid h = true ->
  ext_hdr_at (B (pre ++ XV.frag_wire_bytes h ++ post)) (len pre) XS.KFragment 8
             (XM.frag_is_fragmenting_payload h).
Proof.
  intros V. apply XP.frag_valid_inv in V. destruct V as (_ & HO & _).
  cbn [ext_hdr_at]. split; [reflexivity|].
  set (w := XM.f_fragment_offset h * 8 + (if XM.f_more_fragments h then 1 else 0)).
  assert (E : forall i x, nth_error (XV.frag_wire_bytes h) (N.to_nat i) = Some x ->
              B (pre ++ XV.frag_wire_bytes h ++ post) (len pre + i) = x).
  { intros i x H. rewrite B_app_r by lia. replace (len pre + i - len pre) with i by lia.
    unfold B. assert (LT : (N.to_nat i < length (XV.frag_wire_bytes h))%nat) by (apply nth_error_Some; congruence).
    rewrite app_nth1 by exact LT. apply nth_error_nth. exact H. }
  rewrite (E 3 (w mod 256)) by reflexivity. rewrite (E 2 (w / 256)) by reflexivity.
  replace (len pre + 2 + 1) with (len pre + 3) by lia. rewrite (E 3 (w mod 256)) by reflexivity.
  pose proof (CPP.sweep2 8192 2 _ frag_bits_sweep (XM.f_fragment_offset h)
                (if XM.f_more_fragments h then 1 else 0) HO ltac:(destruct (XM.f_more_fragments h); lia)) as S.
  cbv beta zeta in S. fold w in S. apply Bool.eqb_prop in S. rewrite S.
  unfold XM.frag_is_fragmenting_payload. destruct (XM.f_more_fragments h); reflexivity.
Qed.

Lemma auth_hdr_at h pre post : XM.auth_valid h = true ->
  ext_hdr_at (B (pre ++ XV.auth_wire_bytes h ++ post)) (len pre) XS.KAuth (XM.auth_header_len h) false.
Proof.
  intros V. apply XP.auth_valid_inv in V. destruct V as (_ & _ & _ & HL & HI & _).
  assert (E : B (pre ++ XV.auth_wire_bytes h ++ post) (len pre + 1) = XM.a_raw_icv_len h + 1).
  { rewrite B_app_r by lia. replace (len pre + 1 - len pre) with 1 by lia.
    unfold XV.auth_wire_bytes, XS.wire_auth_header. cbn [app]. rewrite B_consS by lia. change (1 - 1) with 0.
    rewrite B_cons0. rewrite HI. clear - HL. dmlia. }
  cbn [ext_hdr_at]. rewrite E. unfold XM.auth_header_len. repeat split; lia.
Qed.

Lemma raw_wire_len h : XM.raw_valid h = true -> len (XV.raw_wire_bytes h) = XM.raw_header_len h.
Proof.
  intros V. apply (XP.raw_to_bytes_len h); [exact V|]. apply XP.raw_wire. exact V.
Qed.
Lemma auth_wire_len h : XM.auth_valid h = true -> len (XV.auth_wire_bytes h) = XM.auth_header_len h.
Proof.
  intros V. unfold XV.auth_wire_bytes. rewrite <- (XP.auth_wire h V). apply XP.auth_bytes_len. exact V.
Qed.
Lemma frag_wire_len h : len (XV.frag_wire_bytes h) = 8.
Proof. reflexivity. Qed.

Lemma raw_C h k : XM.raw_valid h = true ->
  match k with XS.KFragment | XS.KAuth => False | _ => True end ->
  exists nh hl fr tl, Some (XM.r_next_header h) = Some nh /\ Some (XM.raw_header_len h, false) = Some (hl, fr) /\
    XV.raw_wire_bytes h = nh :: tl /\ len (XV.raw_wire_bytes h) = hl /\
    forall pre post, ext_hdr_at (B (pre ++ XV.raw_wire_bytes h ++ post)) (len pre) k hl fr.
Proof.
  intros V K. eexists _, _, _, _. split; [reflexivity|]. split; [reflexivity|]. split; [reflexivity|].
  split; [apply raw_wire_len; exact V|]. intros pre post. apply raw_hdr_at; assumption.
Qed.

Lemma ext_C x : XM.exts6_valid x = true -> forall k,
  match XV.get_wire x k with
  | Some w => exists nh hl fr tl, XV.get_nh x k = Some nh /\ ext_info6 x k = Some (hl, fr) /\ w = nh :: tl /\
                len w = hl /\ forall pre post, ext_hdr_at (B (pre ++ w ++ post)) (len pre) k hl fr
  | None => XV.get_nh x k = None /\ ext_info6 x k = None
  end.
Proof.
  intros V k. apply XP.exts6_valid_inv in V. destruct V as (Vh & Vd & Vr & Vf & Va).
  destruct k; cbn [XV.get_wire XV.get_nh ext_info6 ext_len6].
  - destruct (XM.hop_by_hop_options x) as [h|]; cbn [option_map XM.opt_valid] in *; [|split; reflexivity].
    apply raw_C; [exact Vh|exact I].
  - destruct (XM.destination_options x) as [h|]; cbn [option_map XM.opt_valid] in *; [|split; reflexivity].
    apply raw_C; [exact Vd|exact I].
  - destruct (XM.routing x) as [r|]; cbn [option_map XM.opt_valid] in *; [|split; reflexivity].
    apply XP.routing_valid_inv in Vr. destruct Vr as [Vrt _]. apply raw_C; [exact Vrt|exact I].
  - destruct (XM.fragment x) as [f|]; cbn [option_map XM.opt_valid] in *; [|split; reflexivity].
    eexists _, _, _, _. split; [reflexivity|]. split; [reflexivity|]. split; [reflexivity|].
    split; [reflexivity|]. intros pre post. apply frag_hdr_at. exact Vf.
  - destruct (XM.auth x) as [a|]; cbn [option_map XM.opt_valid] in *; [|split; reflexivity].
    eexists _, _, _, _. split; [reflexivity|]. split; [reflexivity|]. split; [reflexivity|].
    split; [apply auth_wire_len; exact Va|]. intros pre post. apply auth_hdr_at. exact Va.
  - destruct (XM.routing x) as [r|]; cbn [option_map XM.opt_valid] in *; [|split; reflexivity].
    apply XP.routing_valid_inv in Vr. destruct Vr as [_ Vfd].
    destruct (XM.rt_final_destination_options r) as [h|]; cbn [option_map XM.opt_valid] in *; [|split; reflexivity].
    apply raw_C; [exact Vfd|exact I].
Qed.

(* set_next_headers changes the next_header fields only *)
Lemma ext_info6_snh x n k : ext_info6 (fst (XM.set_next_headers x n)) k = ext_info6 x k.
Proof.
  destruct x as [[h|] [d|] [[rt [fd|]]|] [fr|] [a|]]; destruct k; reflexivity.
Qed.
Lemma ext_layout6_full_snh x n : ext_layout6_full (fst (XM.set_next_headers x n)) = ext_layout6_full x.
Proof.
  unfold ext_layout6_full, XS.in_rfc_order, XS.rfc8200_order. cbn [flat_map]. rewrite !ext_info6_snh. reflexivity.
Qed.

Lemma ext_layout6_forget x :
  map (fun e => (fst e, fst (snd e))) (ext_layout6_full x) = ext_layout6 x.
Proof.
  destruct x as [[h|] [d|] [[rt [fd|]]|] [fr|] [a|]]; reflexivity.
Qed.

(* the IPv6 chain of a built packet *)
Lemma chain6 x n pre post : XM.exts6_valid x = true -> n < 256 -> XS.is_ext_number n = false ->
  let s := XM.set_next_headers x n in
  XM.write (fst s) (snd s) = (XV.rfc_order_bytes (fst s), XM.Ok tt) /\
  chain_full (B (pre ++ XV.rfc_order_bytes (fst s) ++ post)) (len pre) (snd s) (ext_layout6_full x) n.
Proof.
  intros V N X. cbv zeta. split; [apply XP.link_write_order; assumption|].
  destruct (snh6_facts x n V N) as (V1 & _ & _).
  rewrite <- (ext_layout6_full_snh x n). unfold ext_layout6_full, XV.rfc_order_bytes. rewrite !in_rfc_order_is.
  apply (chain_generic (XV.get_wire (fst (XM.set_next_headers x n))) (XV.get_nh (fst (XM.set_next_headers x n)))).
  - apply ext_C. exact V1.
  - rewrite <- in_rfc_order_is. apply XP.set_next_headers_linked.
Qed.

(* ------------------------------------------------------------------ the IP header of a built packet, as the decoder reads it *)
Lemma B_at (pre d : bytes) k i : k = len pre -> B (pre ++ d) (k + i) = B d i.
Proof. intros ->. rewrite B_app_r by lia. f_equal. lia. Qed.
Lemma W_at (pre d : bytes) k i : k = len pre -> W (pre ++ d) (k + i) = W d i.
Proof. intros E. unfold W. rewrite <- N.add_assoc. rewrite !(B_at pre d k) by exact E. reflexivity. Qed.

Lemma ip4_built_fields e c p bs h x : cfg_wf c = true -> build e c p = BOk bs -> c_net c = NtIpv4 h x ->
  B bs (off_net c + 0) = 64 + (5 + Ipv4.i4o_len (Ipv4.i4_options h) / 4) /\
  W bs (off_net c + 2) = len bs - off_net c /\
  W bs (off_net c + 6) = ip4_flags_word h /\
  B bs (off_net c + 9) = snd (XM.set_next_headers4 x (tr_ip_number (c_transport c))) /\
  off_net c + Ipv4.ip4_header_len h <= len bs /\ len bs - off_net c < 65536 /\
  Ipv4.i4o_len (Ipv4.i4_options h) <= 40 /\ Ipv4.i4o_len (Ipv4.i4_options h) mod 4 = 0 /\
  Ipv4.i4_fragment_offset h < 8192 /\ B bs (off_net c + 6) = (ip4_flags_word h / 256) mod 256.
Proof.
  intros W E EN. destruct (cfg_wf_inv c W) as (WL & WV & WN & WT & WS).
  rewrite EN in WN. cbn [net_wf] in WN. apply andb_true_iff in WN. destruct WN as [WH WX].
  destruct (ipv4_consistent e c p bs h x W E EN)
    as (WF & _ & _ & TL & LE & LT & PR & _ & _ & _ & _ & _ & _ & OP & DF & MF & FO).
  pose proof (build_shape_x e c p bs W E) as SH. cbv zeta in SH. rewrite EN in SH.
  destruct SH as (LP & hb & xb & tb & EB & EH & LH & _).
  set (pre := link_bytes c ++ vlan_bytes c) in *. clearbody pre.
  destruct (ip4_layout_fields _ hb (xb ++ tb ++ p) WF EH) as (F0 & F2 & F6 & F9 & F6b). cbv zeta in *.
  destruct (Ipv4Proofs.wf_ip4_facts h WH) as (_ & (R5 & _) & _ & WO).
  destruct (Ipv4Proofs.wf_i4o_facts _ WO) as (OL & OM & _).
  rewrite EB. rewrite !(B_at pre), !(W_at pre) by (symmetry; exact LP).
  rewrite F0, F2, F6, F9, F6b.
  rewrite OP, TL, PR. unfold ip4_flags_word. rewrite DF, MF, FO. rewrite <- EB.
  split; [reflexivity|]. split; [reflexivity|]. split; [reflexivity|]. split; [reflexivity|].
  split; [exact LE|]. split; [exact LT|]. split; [exact OL|]. split; [exact OM|]. split; [exact R5|reflexivity].
Qed.

Lemma ip6_built_fields e c p bs h x : cfg_wf c = true -> build e c p = BOk bs -> c_net c = NtIpv6 h x ->
  B bs (off_net c + 0) / 16 = 6 /\
  W bs (off_net c + 4) = len bs - off_net c - 40 /\
  B bs (off_net c + 6) = snd (XM.set_next_headers x (tr_ip_number (c_transport c))) /\
  off_net c + 40 <= len bs /\ len bs - off_net c - 40 < 65536.
Proof.
  intros W E EN. destruct (cfg_wf_inv c W) as (WL & WV & WN & WT & WS).
  rewrite EN in WN. cbn [net_wf] in WN. apply andb_true_iff in WN. destruct WN as [WH WX].
  destruct (ipv6_consistent e c p bs h x W E EN) as (_ & LE & PL & LT & NH & _).
  pose proof (build_shape_x e c p bs W E) as SH. cbv zeta in SH. rewrite EN in SH.
  destruct SH as (LP & xb & tb & EB & _).
  set (pre := link_bytes c ++ vlan_bytes c) in *. clearbody pre.
  set (hf := v6_final h x (c_transport c) (len p)) in *.
  assert (WF : ip6_wf hf = true) by exact WH.
  assert (PLT : BitFields.Model.v6_payload_length hf < 65536) by (rewrite PL; exact LT).
  destruct (ip6_layout_fields hf (xb ++ tb ++ p) WF PLT) as (F0 & F4 & F6). cbv zeta in *.
  rewrite EB. rewrite !(B_at pre), !(W_at pre) by (symmetry; exact LP).
  rewrite F0, F4, F6, PL, NH. rewrite <- EB.
  split; [reflexivity|]. split; [reflexivity|]. split; [reflexivity|]. split; [exact LE|exact LT].
Qed.

(* ------------------------------------------------------------------ the extension chain of a built packet *)
Lemma chain_built e c p bs : cfg_wf c = true -> build e c p = BOk bs -> chain_pre c = true ->
  match c_net c with
  | NtArp _ => True
  | _ => chain_full (B bs) (off_exts c) (B bs (ip_next_field_off c)) (ext_layout_full c)
                    (tr_ip_number (c_transport c))
  end.
Proof.
  intros W E CP. destruct (cfg_wf_inv c W) as (WL & WV & WN & WT & WS).
  pose proof (tr_ip_number_lt _ WT) as NL.
  pose proof (build_shape_x e c p bs W E) as SH. cbv zeta in SH.
  unfold chain_pre in CP. unfold off_exts, ip_header_len, ip_next_field_off, ext_layout_full.
  destruct (c_net c) as [h x|h x|a] eqn:EN; [| |exact I]; cbn [net_wf] in WN;
    apply andb_true_iff in WN; destruct WN as [WH WX].
  - destruct (ip4_built_fields e c p bs h x W E EN) as (_ & _ & _ & F9 & _). rewrite F9.
    destruct SH as (LP & hb & xb & tb & EB & EH & LH & EWR & LX & LT & _).
    set (pre := link_bytes c ++ vlan_bytes c) in *. clearbody pre.
    rewrite (XP.link_write_order4 x _ WX) in EWR. injection EWR as EX.
    destruct x as [[a|]]; cbn [XM.auth4 XM.set_next_headers4 snd fst] in *.
    + unfold XV.rfc_order_bytes4, XS.in_rfc_order, XS.rfc8200_order in EX.
      cbn [flat_map XV.get_wire4 XM.auth4 option_map app map snd concat] in EX.
      set (a1 := XM.auth_set_next_header a (tr_ip_number (c_transport c))) in *.
      assert (V1 : XM.auth_valid a1 = true).
      { apply auth_set_valid; [exact WX|exact NL]. }
      cbn [chain_full]. split; [reflexivity|].
      assert (EB' : bs = (pre ++ hb) ++ XV.auth_wire_bytes a1 ++ (tb ++ p)).
      { rewrite EB, <- EX, <- !app_assoc. reflexivity. }
      assert (LPH : off_net c + Ipv4.ip4_header_len h = len (pre ++ hb)) by (rewrite len_app, LP, LH; reflexivity).
      rewrite LPH, EB'. split; [apply (auth_hdr_at a1 _ _ V1)|].
      rewrite B_app_r by lia. replace (len (pre ++ hb) - len (pre ++ hb)) with 0 by lia. reflexivity.
    + reflexivity.
  - destruct (ip6_built_fields e c p bs h x W E EN) as (_ & _ & F6 & _). rewrite F6.
    destruct SH as (LP & xb & tb & EB & EWR & LX & LT & _).
    set (pre := link_bytes c ++ vlan_bytes c) in *. clearbody pre.
    apply negb_true_iff in CP.
    destruct (chain6 x _ (pre ++ BitFields.Model.Ipv6Header_to_bytes (v6_final h x (c_transport c) (len p)))
                     (tb ++ p) WX NL CP) as (EW2 & CH).
    cbv zeta in EW2, CH. rewrite EW2 in EWR. injection EWR as EX.
    pose proof (len_ip6_bytes (v6_final h x (c_transport c) (len p)) WH) as L6.
    assert (LPH : off_net c + 40 = len (pre ++ BitFields.Model.Ipv6Header_to_bytes (v6_final h x (c_transport c) (len p))))
      by (rewrite len_app, LP, L6; reflexivity).
    rewrite <- app_assoc in CH. rewrite LPH, EB, <- EX. exact CH.
Qed.

Lemma ext_layout_forget c : map (fun e => (fst e, fst (snd e))) (ext_layout_full c) = ext_layout c.
Proof.
  unfold ext_layout_full, ext_layout. destruct (c_net c) as [h x|h x|a]; [|apply ext_layout6_forget|reflexivity].
  unfold ext_layout4. destruct (XM.auth4 x); reflexivity.
Qed.

(* ------------------------------------------------------------------ every field names the layer that follows *)
Lemma bs_prefix e c p bs : cfg_wf c = true -> build e c p = BOk bs ->
  exists rest, bs = link_bytes c ++ vlan_bytes c ++ rest.
Proof.
  intros W E. pose proof (build_ok_shape e c p bs W E) as SH. cbv zeta in SH. destruct SH as (_ & SH).
  destruct (c_net c).
  - destruct SH as (_ & hb & xb & tb & EB & _). eexists. rewrite EB, <- app_assoc. reflexivity.
  - destruct SH as (_ & xb & tb & EB & _). eexists. rewrite EB, <- app_assoc. reflexivity.
  - eexists. rewrite SH, <- app_assoc. reflexivity.
Qed.

Theorem next_protocol_fields e c p bs : cfg_wf c = true -> build e c p = BOk bs ->
  match c_link c with
  | LkNone => True
  | LkEthernet2 _ _ => W bs 12 = link_announces c
  | LkLinuxSll pt _ _ => W bs 0 = pt /\ W bs 2 = 1 /\ W bs 14 = net_ether_type (c_net c) /\ c_vlan c = VlNone
  end /\
  match c_vlan c with
  | VlNone => True
  | VlSingle _ => W bs (off_vlan c + 2) = net_ether_type (c_net c)
  | VlDouble _ _ => W bs (off_vlan c + 2) = 33024 /\ W bs (off_vlan c + 6) = net_ether_type (c_net c)
  end /\
  match c_net c with
  | NtArp _ => True
  | _ => chain_pre c = true ->
         chain_at (B bs) (off_exts c) (B bs (ip_next_field_off c)) (ext_layout c) (tr_ip_number (c_transport c))
  end.
Proof.
  intros W E. destruct (cfg_wf_inv c W) as (WL & WV & WN & WT & WS).
  destruct (bs_prefix e c p bs W E) as (rest & EB).
  split; [|split].
  - rewrite EB. apply (link_fields c (vlan_bytes c ++ rest) WL WS).
  - pose proof (vlan_fields c rest) as VF. cbv zeta in VF.
    unfold off_vlan. rewrite EB. rewrite !(W_at (link_bytes c)) by (symmetry; apply link_bytes_len; exact WL).
    exact VF.
  - pose proof (chain_built e c p bs W E) as CB.
    destruct (c_net c); [| |exact I]; intros CP; specialize (CB CP); apply chain_full_at in CB;
      rewrite ext_layout_forget in CB; exact CB.
Qed.
