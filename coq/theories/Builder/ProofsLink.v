(* Builder/ProofsLink.v -- property C10, audit follow-up part 3: "parsing recovers the supplied
   addresses / tags / ports" stated through DECODERS.  The crate's header decoders (C08 models
   Roundtrip/Eth.v, Sll.v, Vlan.v, Ipv6.v, Arp.v, Udp.v: *_from_slice = slice check + to_header)
   applied to the built bytes at the computed offsets return the configured header structs with
   the derived fields (ether types, lengths, next header) set, and the rest of the packet.
   (IPv4: ProofsCk.ipv4_header_decodes, TCP: ProofsCk.tcp_decodes, ICMP: ProofsEx / ProofsCrate,
   extension headers: ProofsVal.layers_as_configured.) *)
From EP Require Import Base.Bytes Checksum.Spec Checksum.Model Checksum.Proofs.
From EP Require Import Checksum.ProtoTypes Checksum.ProtoSpec.
From EP Require Import Roundtrip.Common Roundtrip.CommonProofs.
From EP Require Roundtrip.Tcp Roundtrip.TcpProofs Roundtrip.Ipv4 Roundtrip.Ipv4Proofs.
From EP Require Roundtrip.Eth Roundtrip.EthProofs Roundtrip.Sll Roundtrip.SllProofs Roundtrip.Vlan Roundtrip.VlanProofs.
From EP Require Roundtrip.Ipv6 Roundtrip.Ipv6Proofs Roundtrip.Arp Roundtrip.ArpProofs Roundtrip.Udp Roundtrip.UdpProofs.
From EP Require CtlMsg.Spec Roundtrip.Icmp4 Roundtrip.Icmp6.
From EP Require ExtChain.Spec ExtChain.Model ExtChain.View ExtChain.Proofs BitFields.Model.
From EP Require Import Builder.Model Builder.Spec Builder.Proofs Builder.ProofsCk Builder.SpecX Builder.ProofsTr
  Builder.ProofsNx Builder.ProofsCrate.
From Coq Require Import ZArith Lia ZifyN ZifyBool.
Local Open Scope N_scope.

(* ------------------------------------------------------------------ the configured structs in the C08 vocabulary *)
Definition eth_of (s d : bytes) (et : N) : Eth.Ethernet2Header :=
  {| Eth.eth_source := s; Eth.eth_destination := d; Eth.eth_ether_type := et |}.
(* PacketBuilder::linux_sll: arp_hrd_type = ArpHardwareId::ETHERNET, protocol type = the ether type *)
Definition sll_of (pt vl : N) (a : bytes) (et : N) : Sll.LinuxSllHeader :=
  {| Sll.sll_packet_type := pt; Sll.sll_arp_hrd_type := 1; Sll.sll_sender_address_valid_length := vl;
     Sll.sll_sender_address := a; Sll.sll_protocol_type := Sll.SllEtherType et |}.
Definition arp_of (a : ArpPacket) : Arp.ArpPacket :=
  {| Arp.arp_hw_addr_type := arp_hw_addr_type a; Arp.arp_proto_addr_type := arp_proto_addr_type a;
     Arp.arp_hw_addr_size := len (arp_sender_hw a); Arp.arp_proto_addr_size := len (arp_sender_proto a);
     Arp.arp_operation := arp_operation a;
     Arp.arp_sender_hw_addr_buf := arp_sender_hw a; Arp.arp_sender_protocol_addr_buf := arp_sender_proto a;
     Arp.arp_target_hw_addr_buf := arp_target_hw a; Arp.arp_target_protocol_addr_buf := arp_target_proto a |}.
Definition udp_of (sp dp l ck : N) : Udp.UdpHeader :=
  {| Udp.udp_source_port := sp; Udp.udp_destination_port := dp; Udp.udp_length := l; Udp.udp_checksum := ck |}.

Lemma eth_of_wf s d et : link_wf (LkEthernet2 s d) = true -> et < 65536 -> Eth.wf_eth (eth_of s d et) = true.
Proof.
  cbn [link_wf]. unfold Eth.wf_eth, eth_of. cbn. intros W E. apply N.ltb_lt in E. rewrite E.
  rewrite !andb_true_iff in W. rewrite !andb_true_iff. intuition.
Qed.

Lemma sll_of_wf pt vl a et : link_wf (LkLinuxSll pt vl a) = true ->
  et = 2048 \/ et = 34525 \/ et = 2054 -> Sll.wf_sll (sll_of pt vl a et) = true.
Proof.
  cbn [link_wf]. intros W E. bsplit W.
  unfold Sll.wf_sll, Sll.sll_in_range, Sll.sll_consistent, sll_of.
  cbn [Sll.sll_packet_type Sll.sll_arp_hrd_type Sll.sll_sender_address_valid_length Sll.sll_sender_address
       Sll.sll_protocol_type Sll.sll_protocol_u16].
  repeat match goal with H : bytes_okb _ = true |- _ => rewrite H; clear H end.
  repeat match goal with H : len _ = 8 |- _ => rewrite H; clear H end.
  replace (pt <=? 7) with true by (symmetry; apply N.leb_le; lia).
  replace (vl <? 65536) with true by (symmetry; apply N.ltb_lt; lia).
  destruct E as [-> | [-> | ->]]; reflexivity.
Qed.

Lemma arp_of_wf a : arp_wf a = true -> Arp.wf_arp (arp_of a) = true.
Proof.
  unfold arp_wf. intros W. bsplit W.
  unfold Arp.wf_arp, Arp.arp_wf_buf, arp_of.
  cbn [Arp.arp_hw_addr_type Arp.arp_proto_addr_type Arp.arp_operation Arp.arp_hw_addr_size Arp.arp_proto_addr_size
       Arp.arp_sender_hw_addr_buf Arp.arp_sender_protocol_addr_buf Arp.arp_target_hw_addr_buf
       Arp.arp_target_protocol_addr_buf].
  repeat match goal with H : bytes_okb _ = true |- _ => rewrite H; clear H end.
  repeat match goal with H : len _ = len _ |- _ => rewrite <- H; clear H end.
  rewrite !N.leb_refl.
  repeat match goal with H : ?x < ?y |- _ =>
    replace (x <? y) with true by (symmetry; apply N.ltb_lt; exact H);
    try replace (x <=? 255) with true by (symmetry; apply N.leb_le; lia); clear H end.
  reflexivity.
Qed.

Lemma arp_enc_of a : arp_wf a = true -> Arp.arp_to_bytes (arp_of a) = Some (arp_to_bytes a) /\ Arp.arp_norm (arp_of a) = arp_of a.
Proof.
  intros W. rewrite (ArpProofs.arp_to_bytes_wf _ (arp_of_wf a W)).
  unfold arp_wf in W. bsplit W.
  assert (T : forall l : bytes, take (len l) l = l) by (intros l; apply take_all; lia).
  split.
  - f_equal. unfold ArpProofs.arp_enc, ArpProofs.arp_sh, ArpProofs.arp_sp, ArpProofs.arp_th, ArpProofs.arp_tp,
      Arp.arp_first8, arp_of, arp_to_bytes.
    cbn [Arp.arp_hw_addr_type Arp.arp_proto_addr_type Arp.arp_operation Arp.arp_hw_addr_size Arp.arp_proto_addr_size
         Arp.arp_sender_hw_addr_buf Arp.arp_sender_protocol_addr_buf Arp.arp_target_hw_addr_buf
         Arp.arp_target_protocol_addr_buf].
    rewrite !T.
    repeat match goal with H : len _ = len _ |- _ => rewrite H; clear H end.
    rewrite !T. rewrite <- !app_assoc. reflexivity.
  - unfold Arp.arp_norm, arp_of.
    cbn [Arp.arp_hw_addr_type Arp.arp_proto_addr_type Arp.arp_operation Arp.arp_hw_addr_size Arp.arp_proto_addr_size
         Arp.arp_sender_hw_addr_buf Arp.arp_sender_protocol_addr_buf Arp.arp_target_hw_addr_buf
         Arp.arp_target_protocol_addr_buf].
    rewrite !T.
    match goal with H : len (arp_sender_hw a) = len _ |- _ => rewrite H at 2 end.
    match goal with H : len (arp_sender_proto a) = len _ |- _ => rewrite H at 2 end.
    rewrite !T. reflexivity.
Qed.

(* ------------------------------------------------------------------ the theorem *)
Definition net_et (c : cfg) : N := net_ether_type (c_net c).

Theorem link_values_back e c p bs : cfg_wf c = true -> build e c p = BOk bs ->
  (* link header: addresses / packet type as supplied, ether type = the layer that follows *)
  match c_link c with
  | LkNone => True
  | LkEthernet2 s d =>
      Eth.eth_from_slice bs = Ok (eth_of s d (link_announces c), drop 14 bs)
  | LkLinuxSll pt vl a =>
      Sll.sll_from_slice bs = Ok (sll_of pt vl a (net_et c), drop 16 bs)
  end /\
  (* VLAN tags: pcp / dei / id as supplied, ether type = the layer that follows *)
  match c_vlan c with
  | VlNone => True
  | VlSingle v =>
      Vlan.vl_from_slice (drop (off_vlan c) bs)
      = Ok (vl_of (vlan_set_ether_type v (net_et c)), drop (off_vlan c + 4) bs)
  | VlDouble o i =>
      Vlan.vl_from_slice (drop (off_vlan c) bs)
      = Ok (vl_of (vlan_set_ether_type o 33024), drop (off_vlan c + 4) bs) /\
      Vlan.vl_from_slice (drop (off_vlan c + 4) bs)
      = Ok (vl_of (vlan_set_ether_type i (net_et c)), drop (off_vlan c + 8) bs)
  end /\
  (* IPv6 header / ARP packet (IPv4: ipv4_header_decodes) *)
  match c_net c with
  | NtIpv4 _ _ => True
  | NtIpv6 h x =>
      Ipv6.ip6_from_slice (drop (off_net c) bs)
      = Ok (ip6_of (v6_final h x (c_transport c) (len p)), drop (off_net c + 40) bs)
  | NtArp a => Arp.arp_from_slice (drop (off_net c) bs) = Ok (arp_of a)
  end /\
  (* UDP header: ports as supplied, length = 8 + |payload|, rest = the payload *)
  match c_net c, c_transport c with
  | NtArp _, _ => True
  | _, TrUdp sp dp =>
      exists ck, ck < 65536 /\
        Udp.udp_from_slice (drop (off_transport c) bs) = Ok (udp_of sp dp (8 + len p) ck, p)
  | _, _ => True
  end.
Proof.
  intros WF E. destruct (cfg_wf_inv c WF) as (WL & WV & WN & WT & WS).
  pose proof (link_bytes_len c WL) as LL. pose proof (vlan_bytes_len c) as LV.
  pose proof (net_et_lt (c_net c)) as NE.
  pose proof (build_shape_x e c p bs WF E) as SH. cbv zeta in SH. destruct SH as (LP & SH).
  destruct (bs_prefix e c p bs WF E) as (rest & EB0).
  assert (NET : net_et c = 2048 \/ net_et c = 34525 \/ net_et c = 2054).
  { unfold net_et. destruct (c_net c); cbn; auto. }
  split; [|split; [|split]].
  - (* link *)
    assert (LA : link_announces c < 65536) by (unfold link_announces; destruct (c_vlan c); lia).
    unfold link_bytes, link_len in *. fold (net_et c) in *.
    destruct (c_link c) as [|s d|pt vl a] eqn:EL; [exact I| |].
    + pose proof (eth_of_wf s d _ WL LA) as WE.
      destruct (EthProofs.eth_dec_enc _ (vlan_bytes c ++ rest) WE) as (D & _).
      assert (EQ : eth_to_bytes s d (link_announces c) = Eth.eth_to_bytes (eth_of s d (link_announces c))) by reflexivity.
      unfold link_announces in EQ at 1. fold (net_et c) in EQ.
      replace (match c_vlan c with VlNone => net_et c | VlSingle _ => 33024 | VlDouble _ _ => 34984 end)
        with (match c_vlan c with VlSingle _ => 33024 | VlDouble _ _ => 34984 | VlNone => net_et c end) in EQ
        by (destruct (c_vlan c); reflexivity).
      rewrite EQ in EB0, LL. rewrite EB0, D. do 2 f_equal.
      symmetry. apply drop_front. symmetry. exact LL.
    + pose proof (sll_of_wf pt vl a _ WL NET) as WE.
      destruct (SllProofs.sll_dec_enc _ (vlan_bytes c ++ rest) WE) as (D & _).
      change (sll_to_bytes pt vl a (net_et c)) with (Sll.sll_to_bytes (sll_of pt vl a (net_et c))) in EB0, LL.
      rewrite EB0, D. do 2 f_equal. symmetry. apply drop_front. symmetry. exact LL.
  - (* VLAN *)
    assert (DV : drop (off_vlan c) bs = vlan_bytes c ++ rest).
    { unfold off_vlan. rewrite EB0. apply drop_front. symmetry. exact LL. }
    assert (DD : forall k, drop (off_vlan c + k) bs = drop k (vlan_bytes c ++ rest)).
    { intros k. rewrite <- DV, drop_drop. reflexivity. }
    rewrite !DD, DV. clear DD DV. unfold vlan_bytes in *. fold (net_et c) in *.
    destruct (c_vlan c) as [|v|o i]; [exact I| |]; cbn [vlan_wf] in WV.
    + rewrite vlan_c15_is_c08.
      destruct (VlanProofs.vl_dec_enc _ rest (vl_of_wf v _ WV NE)) as (D & _). rewrite D.
      reflexivity.
    + apply andb_true_iff in WV. destruct WV as [W1 W2]. rewrite !vlan_c15_is_c08, <- app_assoc.
      destruct (VlanProofs.vl_dec_enc _ (Vlan.vl_to_bytes (vl_of (vlan_set_ether_type i (net_et c))) ++ rest)
                  (vl_of_wf o 33024 W1 ltac:(lia))) as (D1 & _).
      destruct (VlanProofs.vl_dec_enc _ rest (vl_of_wf i _ W2 NE)) as (D2 & _).
      rewrite D1. rewrite (drop_front (Vlan.vl_to_bytes (vl_of (vlan_set_ether_type o 33024)))) by reflexivity.
      rewrite D2. split; reflexivity.
  - (* net *)
    destruct (c_net c) as [h x|h x|a] eqn:EN; cbn [net_wf] in WN; [exact I| |].
    + apply andb_true_iff in WN. destruct WN as [WH WX].
      destruct SH as (xb & tb & EB & EWR & LX & LT & EF).
      destruct (snh6_facts x _ WX (tr_ip_number_lt _ WT)) as (_ & NH & _).
      assert (W6 : Ipv6.wf_ip6 (ip6_of (v6_final h x (c_transport c) (len p))) = true).
      { apply ip6_of_wf; [exact WH| |exact NH].
        unfold v6_final, ip6_set_len_next. cbn [BitFields.Model.v6_payload_length]. apply as_u16_lt. }
      pose proof (Ipv6Proofs.len_ip6_to_bytes _ W6) as L6.
      destruct (Ipv6Proofs.ip6_dec_enc _ (xb ++ tb ++ p) W6) as (D & _).
      rewrite ip6_c15_is_c08 in EB.
      set (H6 := Ipv6.ip6_to_bytes _) in *. clearbody H6.
      assert (DN : drop (off_net c) bs = H6 ++ xb ++ tb ++ p).
      { rewrite EB. apply drop_front. symmetry. exact LP. }
      rewrite <- drop_drop, DN, D. do 2 f_equal. symmetry. apply drop_front. symmetry. exact L6.
    + assert (DN : drop (off_net c) bs = arp_to_bytes a ++ p).
      { rewrite SH. apply drop_front. symmetry. exact LP. }
      rewrite DN. destruct (arp_enc_of a WN) as (EE & NM).
      destruct (ArpProofs.arp_dec_enc _ p (arp_of_wf a WN)) as (en & E1 & _ & D & _).
      rewrite EE in E1. apply Some_inj in E1. subst en. rewrite D, NM. reflexivity.
  - (* UDP *)
    pose proof (transport_is_rfc_layout e c p bs WF E) as TL.
    pose proof (seg_shape e c p bs WF E) as SS. cbv zeta in SS.
    destruct (c_transport c) as [n|sp dp|t|k|k] eqn:ET; try (destruct (c_net c); exact I).
    cbn [th_of tr_header_len tr_wf] in TL, SS, WT. bsplit WT.
    assert (FIN : 8 + len p <= 65535 ->
      (exists ck, ck < 65536 /\ drop (off_transport c) bs =
          th_wire (THUdp {| u_sport := sp; u_dport := dp; u_length := 8 + len p |}) ck ++ p) ->
      exists ck, ck < 65536 /\ Udp.udp_from_slice (drop (off_transport c) bs) = Ok (udp_of sp dp (8 + len p) ck, p)).
    { intros BND (ck & L & DR). exists ck. split; [exact L|]. rewrite DR.
      change (th_wire (THUdp {| u_sport := sp; u_dport := dp; u_length := 8 + len p |}) ck)
        with (Udp.udp_to_bytes (udp_of sp dp (8 + len p) ck)).
      apply UdpProofs.udp_dec_enc. unfold Udp.wf_udp, udp_of. cbn.
      repeat match goal with H : ?x < ?y |- _ => replace (x <? y) with true by (symmetry; apply N.ltb_lt; exact H); clear H end.
      replace (8 + len p <? 65536) with true by (symmetry; apply N.ltb_lt; lia). reflexivity. }
    destruct (c_net c) as [h x|h x|a]; [| |exact I].
    + destruct SS as (_ & _ & _ & _ & _ & BND & _). apply FIN; [lia|exact TL].
    + destruct SS as (_ & _ & _ & _ & _ & BND & _). apply FIN; [lia|exact TL].
Qed.
