(* Builder/ProofsVal.v -- property C10, part 7: the VALUES behind the windows of the
   parse-back theorem.  Every layer of a built packet is the encoding of the configured
   struct with its derived fields set (link / VLAN / ARP encoders of Builder/Model.v and
   C15, extension chains in the RFC wire formats of C12), the crate's extension-header
   decoders (C12 models) give the configured extension headers back, and the bytes from
   off_payload on are exactly the payload. *)
From EP Require Import Base.Bytes Checksum.Model.
From EP Require Import Roundtrip.Common Roundtrip.CommonProofs.
From EP Require Roundtrip.Tcp Roundtrip.Ipv4 Roundtrip.Ipv4Proofs.
From EP Require ExtChain.Spec ExtChain.Model ExtChain.View ExtChain.Proofs BitFields.Model.
From EP Require Import Builder.Model Builder.Spec Builder.Proofs Builder.ProofsCk Builder.SpecX Builder.ProofsTr
  Builder.ProofsNx.
From Coq Require Import ZArith Lia ZifyN ZifyBool.
Local Open Scope N_scope.

Lemma take_front {A} (a b : list A) n : n = len a -> take n (a ++ b) = a.
Proof. intros ->. apply XP.take_app_len. Qed.

Theorem layers_as_configured e c p bs : cfg_wf c = true -> build e c p = BOk bs ->
  let n := tr_ip_number (c_transport c) in
  take (link_len c) bs = link_bytes c /\
  take (vlan_len c) (drop (off_vlan c) bs) = vlan_bytes c /\
  match c_net c with
  | NtIpv4 h x =>
      let s := XM.set_next_headers4 x n in
      take (XM.header_len4 x) (drop (off_exts c) bs) = XV.rfc_order_bytes4 (fst s) /\
      (n <> 51 ->
       XM.from_slice4 (snd s) (take (XM.header_len4 x) (drop (off_exts c) bs)) = XM.Ok (fst s, n, []))
  | NtIpv6 h x =>
      chain_pre c = true ->
      let s := XM.set_next_headers x n in
      take (XM.header_len x) (drop (off_exts c) bs) = XV.rfc_order_bytes (fst s) /\
      XM.from_slice (snd s) (take (XM.header_len x) (drop (off_exts c) bs)) = XM.Ok (fst s, n, [])
  | NtArp a => take (arp_packet_len a) (drop (off_net c) bs) = arp_to_bytes a
  end /\
  drop (off_payload c) bs = p /\ off_payload c + len p = len bs.
Proof.
  intros WF E. cbv zeta. destruct (cfg_wf_inv c WF) as (WL & WV & WN & WT & WS).
  pose proof (tr_ip_number_lt _ WT) as NL.
  pose proof (link_bytes_len c WL) as LL. pose proof (vlan_bytes_len c) as LV.
  pose proof (build_shape_x e c p bs WF E) as SH. cbv zeta in SH. destruct SH as (LP & SH).
  destruct (bs_prefix e c p bs WF E) as (rest & EB0).
  split; [rewrite EB0; apply take_front; symmetry; exact LL|].
  split.
  { unfold off_vlan. rewrite EB0. rewrite drop_front by (symmetry; exact LL). apply take_front. symmetry. exact LV. }
  unfold chain_pre, off_payload, off_transport, off_exts, ip_header_len, net_len, transport_len.
  destruct (c_net c) as [h x|h x|a] eqn:EN; cbn [net_wf] in WN.
  - apply andb_true_iff in WN. destruct WN as [WH WX].
    destruct SH as (hb & xb & tb & EB & EH & LH & EWR & LX & LT & _).
    set (pre := link_bytes c ++ vlan_bytes c) in *. clearbody pre.
    assert (TX : take (XM.header_len4 x) (drop (off_net c + Ipv4.ip4_header_len h) bs) = xb).
    { rewrite EB. replace (pre ++ hb ++ xb ++ tb ++ p) with ((pre ++ hb) ++ xb ++ tb ++ p)
        by (rewrite <- !app_assoc; reflexivity).
      rewrite drop_front by (rewrite len_app, LP, LH; reflexivity). apply take_front. symmetry. exact LX. }
    pose proof (XP.link_write_order4 x (tr_ip_number (c_transport c)) WX) as WO.
    rewrite WO in EWR. injection EWR as EX.
    split; [|split].
    + rewrite TX. split; [symmetry; exact EX|]. intros N51.
      destruct (snh4_facts x _ WX NL) as (V1 & _ & _).
      apply (XP.decode_write4 _ _ xb _ V1).
      * rewrite WO, EX. reflexivity.
      * apply XP.link_walks4.
      * unfold XS.is_ext_number_v4. apply N.eqb_neq. exact N51.
    + rewrite EB. replace (pre ++ hb ++ xb ++ tb ++ p) with ((pre ++ hb ++ xb ++ tb) ++ p)
        by (rewrite <- !app_assoc; reflexivity).
      apply drop_front. rewrite !len_app, LP, LH, LX, LT. lia.
    + rewrite EB, !len_app, LP, LH, LX, LT. lia.
  - apply andb_true_iff in WN. destruct WN as [WH WX].
    destruct SH as (xb & tb & EB & EWR & LX & LT & _).
    set (pre := link_bytes c ++ vlan_bytes c) in *. clearbody pre.
    pose proof (len_ip6_bytes (v6_final h x (c_transport c) (len p)) WH) as L6.
    set (H6 := BitFields.Model.Ipv6Header_to_bytes _) in *. clearbody H6.
    assert (TX : take (XM.header_len x) (drop (off_net c + 40) bs) = xb).
    { rewrite EB. replace (pre ++ H6 ++ xb ++ tb ++ p) with ((pre ++ H6) ++ xb ++ tb ++ p)
        by (rewrite <- !app_assoc; reflexivity).
      rewrite drop_front by (rewrite len_app, LP, L6; reflexivity). apply take_front. symmetry. exact LX. }
    split; [|split].
    + intros CP. apply negb_true_iff in CP. rewrite TX.
      pose proof (XP.link_write_order x (tr_ip_number (c_transport c)) WX CP) as WO.
      rewrite WO in EWR. injection EWR as EX. split; [symmetry; exact EX|].
      destruct (snh6_facts x _ WX NL) as (V1 & _ & _).
      apply (XP.decode_write _ _ xb _ V1).
      * rewrite WO, EX. reflexivity.
      * apply XP.link_walks. exact CP.
      * exact CP.
    + rewrite EB. replace (pre ++ H6 ++ xb ++ tb ++ p) with ((pre ++ H6 ++ xb ++ tb) ++ p)
        by (rewrite <- !app_assoc; reflexivity).
      apply drop_front. rewrite !len_app, LP, L6, LX, LT. lia.
    + rewrite EB, !len_app, LP, L6, LX, LT. lia.
  - set (pre := link_bytes c ++ vlan_bytes c) in *. clearbody pre.
    pose proof (arp_bytes_len a WN) as LA.
    split; [|split].
    + rewrite SH. rewrite drop_front by (symmetry; exact LP). apply take_front. symmetry. exact LA.
    + rewrite SH. replace (pre ++ arp_to_bytes a ++ p) with ((pre ++ arp_to_bytes a) ++ p)
        by (rewrite <- !app_assoc; reflexivity).
      apply drop_front. rewrite !len_app, LP, LA. lia.
    + rewrite SH, !len_app, LP, LA. lia.
Qed.
