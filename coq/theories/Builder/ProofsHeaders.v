(* Builder/ProofsHeaders.v -- property C10, "PacketHeaders on built bytes" (open item of both audits):
   strict parsing INTO THE HEADER STRUCTS accepts a built packet and returns exactly the configured layers.

   Route (composition, no new model):
     crate_parse_back (ProofsCrate.v)   SlicedPacket::from_* on the built bytes = Ok sp, view sp = expected_x
     C04 hdr_agree_* (HdrProofs3.v)     PacketHeaders::from_* agrees (`hagree`) with the slicing algorithm CUT in
                                        front of a "refilled" IPv6 extension header (Cut.from_* true)
     cut_free (CutFree.v)               the cut result is sp as soon as the extension chain meets no filled slot
     built_exts_indep (here)            that holds for EVERY built configuration: the builder writes the extension
                                        headers in the order hop-by-hop, destination options, routing, fragment,
                                        authentication, final destination options (the last only with a routing
                                        header), each at most once, which never meets a filled slot of the struct
                                        (layout6_norefill: all 48 shapes), and chain_built (ProofsNx.v) gives the
                                        byte-level chain
     conv_of_view (HdrOfView.v)         to_header() of sp as a function of its view

   Result: `headers_parse_back`.  `stopped_at_ext = false` for every built configuration the message type
   admits (`built_not_stopped`): struct decoding never stops early on a built packet. *)
From EP Require Import Base.Bytes Checksum.Spec Checksum.Model Checksum.Proofs.
From EP Require Import Checksum.ProtoTypes Checksum.ProtoSpec.
From EP Require Import Roundtrip.Common Roundtrip.CommonProofs.
From EP Require Roundtrip.Spec Roundtrip.Tcp Roundtrip.Ipv4.
From EP Require CtlMsg.Spec CtlMsg.Model Roundtrip.Icmp4 Roundtrip.Icmp6.
From EP Require ExtChain.Spec ExtChain.Model ExtChain.View ExtChain.Proofs BitFields.Model.
From EP Require Import Parse.Types Parse.Slices Parse.Cursor Parse.View Parse.WireSpec
  Parse.HdrModel Parse.HdrView Parse.HdrCut.
From EP Require Parse.StrictProofs Parse.AccessProofs Parse.HdrProofs Parse.HdrProofs3.
From EP Require Builder.CutFree Builder.HdrOfView.
From EP Require Import Builder.Model Builder.Spec Builder.Proofs Builder.ProofsCk Builder.SpecX Builder.ProofsTr
  Builder.ProofsNx Builder.ProofsWire Builder.ProofsPb Builder.ProofsEx Builder.ProofsCrate.
From Coq Require Import ZArith Lia ZifyN ZifyBool List.
Import ListNotations.
Local Open Scope N_scope.

Module CF := EP.Builder.CutFree.
Module HV := EP.Builder.HdrOfView.
Module AP := EP.Parse.AccessProofs.
Module H3 := EP.Parse.HdrProofs3.

(* ------------------------------------------------------------------ the expected struct view *)
(* the ICMPv4 header length as the PARSER determines it (first two octets of the message): a raw
   Unknown{type 13 or 14, code 0} is read as a timestamp message *)
Definition icmp4_parsed_hl (c : cfg) : N :=
  match c_transport c with
  | TrIcmpv4 t =>
      if ((fst (icmp4_tc t) =? 13) || (fst (icmp4_tc t) =? 14)) && (0 =? snd (icmp4_tc t)) then 20 else 8
  | _ => 8
  end.

(* header windows of every configured layer + the innermost payload, derived from the expected view *)
Definition hexpected (c : cfg) (plen : N) : hview := HV.hv_of_view (icmp4_parsed_hl c) (expected_x c plen).

(* the struct-family entry point that matches the link layer of the builder (PacketHeaders has no
   Linux cooked capture entry point) *)
Definition hdr_entry (c : cfg) (bs : bytes) : option (res hpacket) :=
  match c_link c with
  | LkEthernet2 _ _ => Some (PacketHeaders.from_ethernet_slice bs)
  | LkNone => Some (PacketHeaders.from_ip_slice bs)
  | LkLinuxSll _ _ _ => None
  end.

(* two views with the same layers behind the link header *)
Definition same_layers (a b : vpacket) : Prop :=
  HV.link_hdr (v_link a) = HV.link_hdr (v_link b) /\ v_exts a = v_exts b /\ v_net a = v_net b /\
  v_transport a = v_transport b.

Lemma hv_same_layers hl a b : same_layers a b -> HV.hv_of_view hl a = HV.hv_of_view hl b.
Proof. intros (A & B' & C & D). unfold HV.hv_of_view. now rewrite A, B', C, D. Qed.

(* ------------------------------------------------------------------ the builder's extension order meets no filled slot *)
Lemma layout6_norefill x : CF.norefill fill_none (HV.kinds (ext_layout6_full x)) = true.
Proof. destruct x as [[h|] [d|] [[rt [fd|]]|] [fr|] [a|]]; reflexivity. Qed.

Lemma final_not_ext n : final_number n -> is_ext_number n = false /\ n <> IPN_HOP_BY_HOP.
Proof.
  intros (F0 & F60 & F43 & F44 & F51). split; [|exact F0].
  unfold is_ext_number. change IPN_DEST_OPTIONS with 60. change IPN_ROUTE with 43.
  change IPN_FRAG with 44. change IPN_AUTH with 51.
  rewrite !orb_false_iff. repeat split; apply N.eqb_neq; assumption.
Qed.

(* ------------------------------------------------------------------ the cut never happens on a built packet *)
Lemma built_exts_indep e c p bs et sp :
  cfg_wf c = true -> payload_admitted c (len p) = true -> build e c p = BOk bs ->
  AP.entry bs et sp -> same_layers (view sp) (expected_x c (len p)) ->
  CF.exts_indep sp.
Proof.
  intros WF PA E EN (_ & _ & VN & _). destruct (cfg_wf_inv c WF) as (WL & WV & WN & WT & WS).
  pose proof (build_size e c p bs WF E) as SZ.
  unfold view, expected_x in VN. cbv zeta in VN. cbn [v_net] in VN. unfold exp_net_x in VN. cbv zeta in VN.
  destruct (c_net c) as [h x|h x|a] eqn:ENet.
  - intros v nh hp Hnet. rewrite Hnet in VN. discriminate VN.
  - pose proof (admitted_number c (len p) WT PA) as AN. rewrite ENet in AN. destruct AN as (FN & CP).
    pose proof (chain_built e c p bs WF E CP) as CB. rewrite ENet in CB.
    unfold ext_layout_full, ip_next_field_off, off_exts, ip_header_len in CB. rewrite ENet in CB.
    destruct (final_not_ext _ FN) as (FE & F0).
    apply (HV.exts_indep_of_chain bs sp (off_net c) (ext_layout6_full x) (tr_ip_number (c_transport c))).
    + exact (AP.sliced_wf_entry bs et sp EN).
    + intros v Hnet. rewrite Hnet in VN. cbn [option_map view_net] in VN.
      assert (V1 : win_of (v6_header v) = (off_net c, 40)) by congruence.
      assert (V4 : win_of (x6_slice (v6_exts v)) = (off_exts c, XM.header_len x)) by congruence.
      rewrite layout6_sum. unfold off_exts, ip_header_len in V4. rewrite ENet in V4. split; assumption.
    + exact CB.
    + apply layout6_norefill.
    + exact FE.
    + exact F0.
  - intros v nh hp Hnet. rewrite Hnet in VN. discriminate VN.
Qed.

(* ------------------------------------------------------------------ to_header() of the slicing result *)
(* type and code octets of a built ICMPv4 message *)
Lemma icmp4_built_tc e c p bs k : cfg_wf c = true -> build e c p = BOk bs ->
  c_transport c = TrIcmpv4 k -> (forall a, c_net c <> NtArp a) ->
  B bs (off_transport c) = fst (icmp4_tc k) /\ B bs (off_transport c + 1) = snd (icmp4_tc k) /\
  off_transport c + 8 <= len bs.
Proof.
  intros WF E ET NA. pose proof (seg_wire e c p bs WF E) as SW.
  assert (G : exists front tb, bs = front ++ tb ++ p /\ len front = off_transport c /\
                len tb = tr_header_len (c_transport c) /\
                match th_of (c_transport c) (8 + len p) with
                | None => tb = []
                | Some th => exists ck, tb = th_wire th ck
                end).
  { destruct (c_net c) as [h x|h x|a]; [| |now destruct (NA a)];
      destruct SW as (front & tb & EB & LF & LT & _ & TH); exists front, tb; auto. }
  destruct G as (front & tb & EB & LF & LT & TH). rewrite ET in TH, LT.
  cbn [th_of icmp4_of option_map tr_header_len] in TH, LT. destruct TH as (ck & ->). cbn [th_wire] in *.
  destruct (icmp4_fields k ck p) as [T0 T1]. pose proof (icmp4_hl_bounds k) as HB.
  split; [|split].
  - replace (off_transport c) with (off_transport c + 0) by lia. rewrite EB.
    rewrite (B_at front) by (symmetry; exact LF). exact T0.
  - rewrite EB. rewrite (B_at front) by (symmetry; exact LF). exact T1.
  - rewrite EB, !len_app, LF, LT. lia.
Qed.

Lemma built_conv e c p bs et sp :
  cfg_wf c = true -> build e c p = BOk bs ->
  AP.entry bs et sp -> same_layers (view sp) (expected_x c (len p)) ->
  conv sp = Ok (hexpected c (len p)).
Proof.
  intros WF E EN SL. pose proof SL as (_ & _ & VN & VT).
  pose proof (build_size e c p bs WF E) as SZ.
  unfold hexpected. rewrite <- (hv_same_layers _ _ _ SL). apply HV.conv_of_view.
  - unfold view, expected_x in VN. cbv zeta in VN. cbn [v_net] in VN. intros Hn. rewrite Hn in VN.
    unfold exp_net_x in VN. cbv zeta in VN. destruct (c_net c); discriminate VN.
  - intros s Ht. unfold view, expected_x in VT. cbv zeta in VT. cbn [v_transport] in VT. rewrite Ht in VT.
    cbn [option_map view_tr] in VT.
    assert (G : exists k, c_transport c = TrIcmpv4 k /\ (forall a, c_net c <> NtArp a) /\
                  win_of s = (off_transport c, final_size c (len p) - off_transport c)).
    { destruct (c_net c) as [h x|h x|a]; try discriminate VT;
        (destruct (is_fragmented_x c); [discriminate VT|]);
        unfold exp_transport in VT; cbv zeta in VT;
        destruct (c_transport c) as [n|sp' dp|t|k|k]; try discriminate VT;
        exists k; (split; [reflexivity|]); (split; [intros a0 X; discriminate X|congruence]). }
    destruct G as (k & ET & NA & Ws).
    destruct (icmp4_built_tc e c p bs k WF E ET NA) as (T0 & T1 & LB).
    pose proof (AP.sliced_wf_entry bs et sp EN) as Wf.
    pose proof (HV.icmp4_in_buf bs sp s Wf Ht) as Is.
    unfold win_of in Ws. injection Ws as Wo Wl.
    rewrite (HV.icmp4_hl_in_buf bs s Is) by (rewrite Wl, <- SZ; lia).
    rewrite Wo, T0, T1. unfold icmp4_parsed_hl. rewrite ET. reflexivity.
Qed.

(* ------------------------------------------------------------------ the theorem *)
Lemma same_layers_refl a : same_layers a a.
Proof. repeat split. Qed.

Theorem headers_parse_back e c p bs :
  cfg_wf c = true -> bytes_ok p -> payload_admitted c (len p) = true -> build e c p = BOk bs ->
  (forall r, hdr_entry c bs = Some r -> hvres_of_h r = HOk (hexpected c (len p))) /\
  (c_link c = LkNone ->
   hvres_of_h (PacketHeaders.from_ether_type (net_ether_type (c_net c)) bs) = HOk (hexpected c (len p))).
Proof.
  intros WF OKP PA E. pose proof (build_bytes_ok e c p bs WF OKP E) as OKB.
  destruct (crate_parse_back e c p bs WF OKP PA E) as (sp & ES & VS).
  assert (SL : same_layers (view sp) (expected_x c (len p))) by (rewrite VS; apply same_layers_refl).
  split.
  - intros r Hr. unfold hdr_entry in Hr. unfold crate_entry in ES.
    destruct (c_link c) as [|s d|pt vl a] eqn:EL; [| |discriminate Hr]; injection Hr as <-.
    + (* no link header: from_ip_slice *)
      assert (EN : AP.entry bs 0 sp) by (right; right; right; exact ES).
      pose proof (built_exts_indep e c p bs 0 sp WF PA E EN SL) as XI.
      pose proof (built_conv e c p bs 0 sp WF E EN SL) as CV.
      destruct (CF.cut_free bs 0) as (_ & _ & C3). pose proof (C3 sp ES XI) as CT.
      assert (Hf : H3.F11 bs = false).
      { destruct (H3.F11 bs) eqn:Hf; [|reflexivity]. destruct (H3.hdr_f11_both_err bs Hf) as (_ & A).
        destruct (A true) as (er & A'). rewrite A' in CT. discriminate CT. }
      exact (HV.hagree_ok_view _ _ sp _ (H3.hdr_agree_ip bs OKB Hf) CT CV).
    + (* Ethernet II: from_ethernet_slice *)
      assert (EN : AP.entry bs 0 sp) by (left; exact ES).
      pose proof (built_exts_indep e c p bs 0 sp WF PA E EN SL) as XI.
      pose proof (built_conv e c p bs 0 sp WF E EN SL) as CV.
      destruct (CF.cut_free bs 0) as (C1 & _). pose proof (C1 sp ES XI) as CT.
      exact (HV.hagree_ok_view _ _ sp _ (H3.hdr_agree_ethernet bs OKB) CT CV).
  - intros EL. clear sp ES VS SL.
    destruct (crate_parse_back_ether_type e c p bs WF OKP PA E EL) as (sp & ES & VS). cbv zeta in VS.
    set (et := net_ether_type (c_net c)) in *.
    assert (SL : same_layers (view sp) (expected_x c (len p))).
    { rewrite VS. unfold same_layers. cbn [v_link v_exts v_net v_transport].
      unfold expected_x. cbv zeta. cbn [v_link]. unfold exp_link. rewrite EL. repeat split. }
    assert (EN : AP.entry bs et sp) by (right; right; left; exact ES).
    pose proof (built_exts_indep e c p bs et sp WF PA E EN SL) as XI.
    pose proof (built_conv e c p bs et sp WF E EN SL) as CV.
    destruct (CF.cut_free bs et) as (_ & C2 & _). pose proof (C2 sp ES XI) as CT.
    exact (HV.hagree_ok_view _ _ sp _ (H3.hdr_agree_ether_type et bs OKB) CT CV).
Qed.

(* struct decoding never stops early on a built packet: the slicing algorithm cut at a refilled extension
   header IS the slicing algorithm, and its result does not announce an extension header as payload *)
Theorem built_not_stopped e c p bs :
  cfg_wf c = true -> bytes_ok p -> payload_admitted c (len p) = true -> build e c p = BOk bs ->
  match c_link c with
  | LkEthernet2 _ _ =>
      Cut.from_ethernet true bs = SlicedPacket.from_ethernet bs /\
      stopped_at_ext (Cut.from_ethernet true bs) = false
  | LkNone =>
      Cut.from_ip true bs = SlicedPacket.from_ip bs /\ stopped_at_ext (Cut.from_ip true bs) = false /\
      Cut.from_ether_type true (net_ether_type (c_net c)) bs =
        SlicedPacket.from_ether_type (net_ether_type (c_net c)) bs /\
      stopped_at_ext (Cut.from_ether_type true (net_ether_type (c_net c)) bs) = false
  | LkLinuxSll _ _ _ => True
  end.
Proof.
  intros WF OKP PA E. destruct (cfg_wf_inv c WF) as (WL & WV & WN & WT & WS).
  assert (NS : forall sp, same_layers (view sp) (expected_x c (len p)) -> stopped_at_ext (Ok sp) = false).
  { intros sp (_ & _ & VN & _). unfold stopped_at_ext.
    destruct (sp_net sp) as [[v|v|a]|] eqn:Hn; try reflexivity.
    unfold view, expected_x in VN. cbv zeta in VN. cbn [v_net] in VN. rewrite Hn in VN.
    unfold exp_net_x in VN. cbv zeta in VN.
    destruct (c_net c) as [h x|h x|a] eqn:ENet; try discriminate VN.
    cbn [option_map view_net] in VN.
    match type of VN with Some (VIpv6 _ _ _ _ ?pa) = Some (VIpv6 _ _ _ _ ?pb) =>
      assert (VP : pa = pb) by congruence end.
    apply (f_equal vip_number) in VP. cbn [view_ipp vip_number] in VP. rewrite VP.
    pose proof (admitted_number c (len p) WT PA) as AN. rewrite ENet in AN. destruct AN as (FN & _).
    now destruct (final_not_ext _ FN). }
  destruct (c_link c) as [|s d|pt vl a] eqn:EL; [| |exact I].
  - destruct (crate_parse_back e c p bs WF OKP PA E) as (sp & ES & VS). unfold crate_entry in ES. rewrite EL in ES.
    assert (SL : same_layers (view sp) (expected_x c (len p))) by (rewrite VS; apply same_layers_refl).
    assert (EN : AP.entry bs 0 sp) by (right; right; right; exact ES).
    destruct (CF.cut_free bs 0) as (_ & _ & C3).
    rewrite (C3 sp ES (built_exts_indep e c p bs 0 sp WF PA E EN SL)), ES.
    split; [reflexivity|]. split; [now apply NS|].
    destruct (crate_parse_back_ether_type e c p bs WF OKP PA E EL) as (sp2 & ES2 & VS2). cbv zeta in VS2.
    set (et := net_ether_type (c_net c)) in *.
    assert (SL2 : same_layers (view sp2) (expected_x c (len p))).
    { rewrite VS2. unfold same_layers. cbn [v_link v_exts v_net v_transport].
      unfold expected_x. cbv zeta. cbn [v_link]. unfold exp_link. rewrite EL. repeat split. }
    assert (EN2 : AP.entry bs et sp2) by (right; right; left; exact ES2).
    destruct (CF.cut_free bs et) as (_ & C2 & _).
    rewrite (C2 sp2 ES2 (built_exts_indep e c p bs et sp2 WF PA E EN2 SL2)), ES2.
    split; [reflexivity|now apply NS].
  - destruct (crate_parse_back e c p bs WF OKP PA E) as (sp & ES & VS). unfold crate_entry in ES. rewrite EL in ES.
    assert (SL : same_layers (view sp) (expected_x c (len p))) by (rewrite VS; apply same_layers_refl).
    assert (EN : AP.entry bs 0 sp) by (left; exact ES).
    destruct (CF.cut_free bs 0) as (C1 & _).
    rewrite (C1 sp ES (built_exts_indep e c p bs 0 sp WF PA E EN SL)), ES.
    split; [reflexivity|now apply NS].
Qed.
