(* Builder/ProofsCrate.v -- property C10, audit follow-up part 1:
   (1) every byte of a successful build is a byte (< 256) when the payload is
       (`build_bytes_ok`; the configuration side is already part of cfg_wf: addresses,
       option / ICV buffers are bytes_okb there);
   (2) composition with the C03 refinement theorems (Parse/StrictProofs.v: the MODEL OF THE
       CRATE'S SLICER SlicedPacket::from_ethernet / from_linux_sll / from_ip / from_ether_type
       agrees with the wire reference decoder on every byte string of bytes): the crate-side
       slicer model returns Ok with exactly the view `expected_x` on the built bytes
       (`crate_parse_back`, `crate_parse_back_ether_type`);
   (3) the ICMP value theorems of ProofsEx.v restated with the hypothesis that cfg_wf does
       not already give made explicit: only a raw Unknown{type, code} naming a typed kind is
       excluded (`icmp4_value_back_cfg`, `icmp6_value_back_cfg`, `icmp*_wf_gap`). *)
From EP Require Import Base.Bytes Checksum.Spec Checksum.Model Checksum.Proofs.
From EP Require Import Checksum.ProtoTypes Checksum.ProtoSpec.
From EP Require Import Roundtrip.Common Roundtrip.CommonProofs.
From EP Require Roundtrip.Spec Roundtrip.SpecLinkNet Roundtrip.Tcp Roundtrip.TcpProofs Roundtrip.Ipv4 Roundtrip.Ipv4Proofs.
From EP Require Roundtrip.Vlan Roundtrip.VlanProofs Roundtrip.Ipv6 Roundtrip.Ipv6Proofs.
From EP Require CtlMsg.Spec CtlMsg.Model Roundtrip.Icmp4 Roundtrip.Icmp6.
From EP Require ExtChain.Spec ExtChain.Model ExtChain.View ExtChain.Proofs BitFields.Model.
From EP Require Import Parse.Types Parse.Slices Parse.Cursor Parse.View Parse.WireSpec.
From EP Require Parse.StrictProofs.
From EP Require Import Builder.Model Builder.Spec Builder.Proofs Builder.ProofsCk Builder.SpecX Builder.ProofsTr
  Builder.ProofsNx Builder.ProofsPb Builder.ProofsEx.
From Coq Require Import ZArith Lia ZifyN ZifyBool.
Local Open Scope N_scope.

(* ------------------------------------------------------------------ small byte-range facts *)
Lemma ok1 b : b < 256 -> bytes_ok [b].
Proof. intros H. apply bytes_ok_explicit_cons; [exact H|apply bytes_ok_nil]. Qed.

Lemma bytes_ok_app2 a b : bytes_ok a -> bytes_ok b -> bytes_ok (a ++ b).
Proof. intros A B'. apply bytes_ok_app. split; assumption. Qed.

Lemma bytes_ok_field n v : bytes_ok (Roundtrip.Spec.field n v).
Proof. apply bytes_ok_to_be. Qed.

Lemma bytes_ok_w16 v : bytes_ok (w16 v).
Proof. apply bytes_ok_u16_to_be. Qed.
Lemma bytes_ok_w32 v : bytes_ok (w32 v).
Proof.
  unfold w32, to_be32.
  repeat (apply bytes_ok_explicit_cons; [apply N.mod_lt; lia|]). apply bytes_ok_nil.
Qed.

Ltac okb :=
  repeat first
    [ apply bytes_ok_nil
    | apply bytes_ok_field | apply bytes_ok_w16 | apply bytes_ok_w32
    | apply bytes_ok_u16_to_be | apply bytes_ok_u32_to_be
    | assumption
    | apply bytes_ok_app2
    | apply bytes_ok_explicit_cons ].

(* ------------------------------------------------------------------ link / VLAN / ARP *)
Lemma link_bytes_ok c : link_wf (c_link c) = true -> bytes_ok (link_bytes c).
Proof.
  unfold link_bytes. destruct (c_link c) as [|s d|pt vl a]; cbn [link_wf]; intros W.
  - apply bytes_ok_nil.
  - bsplit W. unfold eth_to_bytes.
    repeat match goal with H : bytes_okb _ = true |- _ => apply bytes_okb_spec in H end. okb.
  - bsplit W. unfold sll_to_bytes.
    repeat match goal with H : bytes_okb _ = true |- _ => apply bytes_okb_spec in H end. okb.
Qed.

(* the C15 encoder of a VLAN tag is the C08 encoder of the same header *)
Definition vl_of (v : BitFields.Model.SingleVlanHeader) : Vlan.SingleVlanHeader :=
  {| Vlan.vl_pcp := BitFields.Model.vlan_pcp v;
     Vlan.vl_drop_eligible_indicator := BitFields.Model.vlan_dei v;
     Vlan.vl_vlan_id := BitFields.Model.vlan_id v;
     Vlan.vl_ether_type := BitFields.Model.vlan_ether_type v |}.

Lemma vlan_c15_is_c08 v : BitFields.Model.SingleVlanHeader_to_bytes v = Vlan.vl_to_bytes (vl_of v).
Proof. reflexivity. Qed.

Lemma vl_of_wf v et : vlan1_wf v = true -> et < 65536 -> Vlan.wf_vl (vl_of (vlan_set_ether_type v et)) = true.
Proof.
  unfold vlan1_wf, Vlan.wf_vl, vl_of, vlan_set_ether_type. cbn.
  intros W E. apply N.ltb_lt in E. rewrite E. rewrite andb_true_r. exact W.
Qed.

Lemma vlan1_bytes_ok v et : vlan1_wf v = true -> et < 65536 ->
  bytes_ok (BitFields.Model.SingleVlanHeader_to_bytes (vlan_set_ether_type v et)).
Proof.
  intros W E. rewrite vlan_c15_is_c08, (VlanProofs.vl_spec _ (vl_of_wf v et W E)).
  unfold Roundtrip.SpecLinkNet.vlan_layout. okb.
Qed.

Lemma vlan_bytes_ok c : vlan_wf (c_vlan c) = true -> bytes_ok (vlan_bytes c).
Proof.
  unfold vlan_bytes. pose proof (net_et_lt (c_net c)) as NE.
  destruct (c_vlan c) as [|v|o i]; cbn [vlan_wf]; intros W.
  - apply bytes_ok_nil.
  - apply vlan1_bytes_ok; assumption.
  - apply andb_true_iff in W. destruct W as [W1 W2].
    apply bytes_ok_app2; apply vlan1_bytes_ok; try assumption; lia.
Qed.

Lemma arp_bytes_ok a : arp_wf a = true -> bytes_ok (arp_to_bytes a).
Proof.
  unfold arp_wf, arp_to_bytes. intros W. bsplit W.
  repeat match goal with H : bytes_okb _ = true |- _ => apply bytes_okb_spec in H end. okb.
Qed.

(* ------------------------------------------------------------------ IPv4 / IPv6 headers *)
Lemma ip4_bytes_ok h hb : Ipv4.wf_ip4 h = true -> Ipv4.ip4_to_bytes h = Some hb -> bytes_ok hb.
Proof.
  intros W E. rewrite (Ipv4Proofs.ip4_spec h W) in E. apply Some_inj in E. subst hb.
  destruct (Ipv4Proofs.wf_ip4_facts h W) as ((R1 & R2 & R3 & R4) & (R5 & R6 & R7 & R8) & (LS & OS & LD & OD) & WO).
  destruct (Ipv4Proofs.wf_i4o_facts _ WO) as (OL & OM & BL & BO).
  pose proof (Ipv4Proofs.len_take_i4o _ WO) as LT.
  assert (BT : bytes_ok (take (Ipv4.i4o_len (Ipv4.i4_options h)) (Ipv4.i4o_buf (Ipv4.i4_options h))))
    by (apply bytes_ok_take; exact BO).
  unfold Roundtrip.Spec.ipv4_layout. rewrite LT.
  assert (Q : Ipv4.i4o_len (Ipv4.i4_options h) / 4 <= 10) by (apply N.div_le_upper_bound; lia).
  okb; lia.
Qed.

Definition ip6_of (h : BitFields.Model.Ipv6Header) : Ipv6.Ipv6Header :=
  {| Ipv6.i6_traffic_class := BitFields.Model.v6_traffic_class h;
     Ipv6.i6_flow_label := BitFields.Model.v6_flow_label h;
     Ipv6.i6_payload_length := BitFields.Model.v6_payload_length h;
     Ipv6.i6_next_header := BitFields.Model.v6_next_header h;
     Ipv6.i6_hop_limit := BitFields.Model.v6_hop_limit h;
     Ipv6.i6_source := BitFields.Model.v6_source h;
     Ipv6.i6_destination := BitFields.Model.v6_destination h |}.

Lemma ip6_c15_is_c08 h : BitFields.Model.Ipv6Header_to_bytes h = Ipv6.ip6_to_bytes (ip6_of h).
Proof.
  unfold BitFields.Model.Ipv6Header_to_bytes, Ipv6.ip6_to_bytes, u32_to_be, u16_to_be, ip6_of.
  cbn [Ipv6.i6_traffic_class Ipv6.i6_flow_label Ipv6.i6_payload_length Ipv6.i6_next_header Ipv6.i6_hop_limit
       Ipv6.i6_source Ipv6.i6_destination app].
  unfold BitFields.Model.be32_1, BitFields.Model.be32_2, BitFields.Model.be32_3, BitFields.Model.be16_0,
    BitFields.Model.be16_1, Ipv6.ip6_byte0, Ipv6.ip6_byte1.
  rewrite (N.div_div _ 256 256) by lia. reflexivity.
Qed.

Lemma ip6_of_wf h : ip6_wf h = true -> BitFields.Model.v6_payload_length h < 65536 ->
  BitFields.Model.v6_next_header h < 256 -> Ipv6.wf_ip6 (ip6_of h) = true.
Proof.
  unfold ip6_wf, Ipv6.wf_ip6, ip6_of. cbn. intros W P Nh. apply N.ltb_lt in P, Nh. rewrite P, Nh.
  rewrite !andb_true_iff in W. rewrite !andb_true_iff. intuition.
Qed.

Lemma ip6_bytes_ok h : ip6_wf h = true -> BitFields.Model.v6_payload_length h < 65536 ->
  BitFields.Model.v6_next_header h < 256 -> bytes_ok (BitFields.Model.Ipv6Header_to_bytes h).
Proof.
  intros W P Nh. pose proof (ip6_of_wf h W P Nh) as WF.
  rewrite ip6_c15_is_c08, (Ipv6Proofs.ip6_spec _ WF).
  destruct (Ipv6Proofs.ip6_wf_facts _ WF) as (R1 & R2 & R3 & R4 & R5 & LS & BS & LD & BD).
  unfold Roundtrip.SpecLinkNet.ipv6_layout. okb.
Qed.

(* ------------------------------------------------------------------ extension headers *)
Lemma raw_bytes_ok h bs : XM.raw_valid h = true -> XM.raw_to_bytes h = Some bs -> bytes_ok bs.
Proof.
  intros V E. rewrite (XP.raw_to_bytes_valid h V) in E. apply Some_inj in E. subst bs.
  destruct (XP.raw_valid_inv h V) as (A & B' & _ & C). okb.
Qed.
Lemma frag_bytes_ok h : XM.frag_valid h = true -> bytes_ok (XM.frag_to_bytes h).
Proof.
  intros V. destruct (XP.frag_valid_inv h V) as (A & _ & _).
  unfold XM.frag_to_bytes. apply bytes_ok_explicit_cons; [exact A|].
  apply bytes_ok_explicit_cons; [lia|]. apply bytes_ok_app2; [apply bytes_ok_u16_to_be|apply bytes_ok_w32].
Qed.
Lemma auth_bytes_ok h bs : XM.auth_valid h = true -> XM.auth_to_bytes h = Some bs -> bytes_ok bs.
Proof.
  intros V E. rewrite (XP.auth_to_bytes_valid h V) in E. apply Some_inj in E. subst bs.
  destruct (XP.auth_valid_inv h V) as (A & _ & _ & L & _ & C).
  unfold XP.auth_bytes. cbn [app].
  apply bytes_ok_explicit_cons; [exact A|]. apply bytes_ok_explicit_cons; [lia|].
  apply bytes_ok_explicit_cons; [lia|]. apply bytes_ok_explicit_cons; [lia|].
  apply bytes_ok_app2; [apply bytes_ok_w32|]. apply bytes_ok_app2; [apply bytes_ok_w32|exact C].
Qed.

Lemma write_loop_bytes_ok fuel : forall e nw next rw w,
  XM.exts6_valid e = true -> bytes_ok w -> bytes_ok (fst (XM.write_loop fuel e nw next rw w)).
Proof.
  induction fuel as [|f IH]; intros e nw next rw w V OKW; [exact OKW|].
  pose proof (XP.exts6_valid_inv e V) as (Vh & Vd & Vr & Vf & Va).
  cbn [XM.write_loop].
  destruct (XM.arm_of next).
  - destruct (XM.fl_hop_by_hop_options nw); exact OKW.
  - destruct rw.
    + destruct (XM.fl_final_destination_options nw); [|exact OKW].
      destruct (XM.routing e) as [r|] eqn:ER; [|exact OKW].
      cbn [XM.opt_valid] in Vr. apply XP.routing_valid_inv in Vr. destruct Vr as [Vrt Vfd].
      destruct (XM.rt_final_destination_options r) as [hd|] eqn:EF; [|exact OKW].
      cbn [XM.opt_valid] in Vfd.
      destruct (XM.raw_to_bytes hd) as [bs|] eqn:EB; [|exact OKW].
      apply IH; [exact V|]. apply bytes_ok_app2; [exact OKW|eapply raw_bytes_ok; eassumption].
    + destruct (XM.fl_destination_options nw); [|exact OKW].
      destruct (XM.destination_options e) as [hd|] eqn:ED; [|exact OKW].
      cbn [XM.opt_valid] in Vd.
      destruct (XM.raw_to_bytes hd) as [bs|] eqn:EB; [|exact OKW].
      apply IH; [exact V|]. apply bytes_ok_app2; [exact OKW|eapply raw_bytes_ok; eassumption].
  - destruct (XM.fl_routing nw); [|exact OKW].
    destruct (XM.routing e) as [r|] eqn:ER; [|exact OKW].
    cbn [XM.opt_valid] in Vr. apply XP.routing_valid_inv in Vr. destruct Vr as [Vrt Vfd].
    cbv zeta. destruct (XM.raw_to_bytes (XM.rt_routing r)) as [bs|] eqn:EB; [|exact OKW].
    apply IH; [exact V|]. apply bytes_ok_app2; [exact OKW|eapply raw_bytes_ok; eassumption].
  - destruct (XM.fl_fragment nw); [|exact OKW].
    destruct (XM.fragment e) as [hd|] eqn:EF; [|exact OKW]. cbn [XM.opt_valid] in Vf.
    apply IH; [exact V|]. apply bytes_ok_app2; [exact OKW|apply frag_bytes_ok; exact Vf].
  - destruct (XM.fl_auth nw); [|exact OKW].
    destruct (XM.auth e) as [hd|] eqn:EA; [|exact OKW]. cbn [XM.opt_valid] in Va.
    destruct (XM.auth_to_bytes hd) as [bs|] eqn:EB; [|exact OKW].
    apply IH; [exact V|]. apply bytes_ok_app2; [exact OKW|eapply auth_bytes_ok; eassumption].
  - exact OKW.
Qed.

Lemma write6_bytes_ok e first : XM.exts6_valid e = true -> bytes_ok (fst (XM.write e first)).
Proof.
  intros V. pose proof (XP.exts6_valid_inv e V) as (Vh & _).
  unfold XM.write.
  destruct (XM.IPV6_HOP_BY_HOP =? first).
  - destruct (XM.hop_by_hop_options e) as [hd|] eqn:EH.
    + cbn [XM.opt_valid] in Vh. destruct (XM.raw_to_bytes hd) as [bs|] eqn:EB; [|apply bytes_ok_nil].
      apply write_loop_bytes_ok; [exact V|eapply raw_bytes_ok; eassumption].
    + apply write_loop_bytes_ok; [exact V|apply bytes_ok_nil].
  - apply write_loop_bytes_ok; [exact V|apply bytes_ok_nil].
Qed.

Lemma write4_bytes_ok e first : XM.exts4_valid e = true -> bytes_ok (fst (XM.write4 e first)).
Proof.
  unfold XM.exts4_valid, XM.write4. destruct (XM.auth4 e) as [a|]; cbn [XM.opt_valid]; intros V; [|apply bytes_ok_nil].
  destruct (XM.AUTH =? first); [|apply bytes_ok_nil].
  destruct (XM.auth_to_bytes a) as [bs|] eqn:EB; [|apply bytes_ok_nil].
  eapply auth_bytes_ok; eassumption.
Qed.

(* ------------------------------------------------------------------ transport headers *)
Lemma ip4_bytes_ok_of (a : ip4) : ip4_ok a -> bytes_ok (ip4_bytes a).
Proof. intros H. exact H. Qed.

Lemma th_wire_bytes_ok th ck : transport_ok th -> bytes_ok (th_wire th ck).
Proof.
  destruct th as [h|h|t|t]; cbn [transport_ok th_wire].
  - intros _. unfold udp_wire. okb.
  - intros (A & B' & C & D & E & F & G & H & I').
    unfold tcp_wire, tcp_data_offset.
    assert (Q : len (t_options h) / 4 <= 10) by (apply N.div_le_upper_bound; lia).
    assert (BB : forall b, bit b <= 1) by (intros []; cbn; lia).
    pose proof (BB (t_ns h)). pose proof (BB (t_cwr h)). pose proof (BB (t_ece h)). pose proof (BB (t_urg h)).
    pose proof (BB (t_ack h)). pose proof (BB (t_psh h)). pose proof (BB (t_rst h)). pose proof (BB (t_syn h)).
    pose proof (BB (t_fin h)).
    okb; lia.
  - destruct t; cbn [icmp4_ok icmp4_wire]; intros K; okb; try lia; try tauto.
  - destruct t; cbn [icmp6_ok icmp6_wire]; intros K; okb; try lia; try tauto.
    + destruct managed, other; cbn; lia.
    + destruct router, solicited, override; cbn; lia.
Qed.

Lemma tr4_bytes_ok e s0 s1 s2 s3 d0 d1 d2 d3 t ul p tb : tr_wf t = true -> ul < 65536 ->
  tr_ipv4 e [s0; s1; s2; s3] [d0; d1; d2; d3] t ul p = TOk tb -> bytes_ok tb.
Proof.
  intros W UL E. pose proof (tr_ipv4_is_update e s0 s1 s2 s3 d0 d1 d2 d3 t ul p tb W UL E) as U.
  destruct (th_of t ul) as [th|].
  - destruct U as (TO & ck & _ & _ & ->). apply th_wire_bytes_ok. exact TO.
  - destruct U as (-> & _). apply bytes_ok_nil.
Qed.

Lemma tr6_bytes_ok e s d t ul p tb : len s = 16 -> len d = 16 -> tr_wf t = true -> ul < 65536 ->
  tr_ipv6 e s d t ul p = TOk tb -> bytes_ok tb.
Proof.
  intros LS LD W UL E. pose proof (tr_ipv6_is_update e s d t ul p tb LS LD W UL E) as U.
  destruct (th_of t ul) as [th|].
  - destruct U as (TO & ck & _ & _ & ->). apply th_wire_bytes_ok. exact TO.
  - destruct U as (-> & _). apply bytes_ok_nil.
Qed.

(* ------------------------------------------------------------------ the whole packet *)
(* Premises: cfg_wf (which contains bytes_okb of every address / option / ICV
   buffer of the configuration) and bytes_ok of the payload. *)
Theorem build_bytes_ok e c p bs : cfg_wf c = true -> bytes_ok p -> build e c p = BOk bs -> bytes_ok bs.
Proof.
  intros W OKP E. destruct (cfg_wf_inv c W) as (WL & WV & WN & WT & WS).
  pose proof (build_shape_x e c p bs W E) as SH. cbv zeta in SH. destruct SH as (_ & SH).
  pose proof (link_bytes_ok c WL) as OL. pose proof (vlan_bytes_ok c WV) as OV.
  destruct (c_net c) as [h x|h x|a] eqn:EN; cbn [net_wf] in WN.
  - apply andb_true_iff in WN. destruct WN as [WH WX].
    destruct SH as (hb & xb & tb & -> & EB & LH & EWR & LX & LT & EF).
    destruct (v4_final_wf e h x (c_transport c) (len p) WH WX WT) as (WF & _).
    pose proof (ip4_bytes_ok _ _ WF EB) as OH.
    destruct (snh4_facts x _ WX (tr_ip_number_lt _ WT)) as (V1 & _ & _).
    pose proof (write4_bytes_ok _ (snd (XM.set_next_headers4 x (tr_ip_number (c_transport c)))) V1) as OX.
    rewrite EWR in OX. cbn [fst] in OX.
    pose proof (seg_shape e c p _ W E) as SS. cbv zeta in SS. rewrite EN in SS.
    destruct SS as (front & tb' & EB' & LF & LT' & BND & ETR).
    assert (UL : 8 + len p < 65536).
    { clear - BND. destruct (c_transport c) as [n|sp dp|t|k|k]; cbn [tr_header_len] in *; try lia; try (icmp_hl; lia);
      unfold Tcp.header_len in BND; lia. }
    rewrite (as_u16_small _ UL) in ETR.
    destruct (Ipv4Proofs.wf_ip4_facts h WH) as (_ & _ & (LS & OS & LD & OD) & _).
    destruct (Ipv4Proofs.len4_explicit _ LS OS) as (s0 & s1 & s2 & s3 & ES & _).
    destruct (Ipv4Proofs.len4_explicit _ LD OD) as (d0 & d1 & d2 & d3 & ED & _).
    rewrite ES, ED in ETR.
    pose proof (tr4_bytes_ok e _ _ _ _ _ _ _ _ _ _ p tb' WT UL ETR) as OT.
    assert (tb' = tb).
    { assert (L1 : len front = len ((link_bytes c ++ vlan_bytes c) ++ hb ++ xb)).
      { rewrite LF. unfold off_transport, net_len, off_net. rewrite EN.
        rewrite !len_app, (link_bytes_len c WL), (vlan_bytes_len c), LH, LX. lia. }
      replace ((link_bytes c ++ vlan_bytes c) ++ hb ++ xb ++ tb ++ p)
        with (((link_bytes c ++ vlan_bytes c) ++ hb ++ xb) ++ tb ++ p) in EB' by (rewrite <- !app_assoc; reflexivity).
      apply (f_equal (drop (len front))) in EB'.
      rewrite (drop_front front) in EB' by reflexivity. rewrite L1, (drop_front _ (tb ++ p)) in EB' by reflexivity.
      apply (f_equal (take (len tb))) in EB'.
      rewrite (take_app_len tb) in EB' by reflexivity.
      rewrite (take_app_len tb') in EB' by (rewrite LT, LT'; reflexivity). symmetry. exact EB'. }
    subst tb'. okb.
  - apply andb_true_iff in WN. destruct WN as [WH WX].
    destruct SH as (xb & tb & -> & EWR & LX & LT & EF).
    destruct (snh6_facts x _ WX (tr_ip_number_lt _ WT)) as (V1 & NH & _).
    pose proof (write6_bytes_ok _ (snd (XM.set_next_headers x (tr_ip_number (c_transport c)))) V1) as OX.
    rewrite EWR in OX. cbn [fst] in OX.
    assert (OH : bytes_ok (BitFields.Model.Ipv6Header_to_bytes (v6_final h x (c_transport c) (len p)))).
    { apply ip6_bytes_ok; [exact WH| |exact NH].
      unfold v6_final, ip6_set_len_next. cbn [BitFields.Model.v6_payload_length]. apply as_u16_lt. }
    pose proof (seg_shape e c p _ W E) as SS. cbv zeta in SS. rewrite EN in SS.
    destruct SS as (front & tb' & EB' & LF & LT' & BND & ETR).
    pose proof (len_ip6_bytes (v6_final h x (c_transport c) (len p)) WH) as L6.
    assert (tb' = tb).
    { set (H6 := BitFields.Model.Ipv6Header_to_bytes _) in *. clearbody H6.
      assert (L1 : len front = len ((link_bytes c ++ vlan_bytes c) ++ H6 ++ xb)).
      { rewrite LF. unfold off_transport, net_len, off_net. rewrite EN.
        rewrite !len_app, (link_bytes_len c WL), (vlan_bytes_len c), L6, LX. lia. }
      replace ((link_bytes c ++ vlan_bytes c) ++ H6 ++ xb ++ tb ++ p)
        with (((link_bytes c ++ vlan_bytes c) ++ H6 ++ xb) ++ tb ++ p) in EB' by (rewrite <- !app_assoc; reflexivity).
      apply (f_equal (drop (len front))) in EB'.
      rewrite (drop_front front) in EB' by reflexivity. rewrite L1, (drop_front _ (tb ++ p)) in EB' by reflexivity.
      apply (f_equal (take (len tb))) in EB'.
      rewrite (take_app_len tb) in EB' by reflexivity.
      rewrite (take_app_len tb') in EB' by (rewrite LT, LT'; reflexivity). symmetry. exact EB'. }
    subst tb'.
    assert (OT : bytes_ok tb).
    { unfold ip6_wf in WH. bsplit WH.
      destruct (N.ltb_spec (8 + len p) 65536) as [UL|UL].
      - rewrite (as_u16_small _ UL) in ETR.
        match goal with
        | L1 : len (BitFields.Model.v6_source h) = 16, L2 : len (BitFields.Model.v6_destination h) = 16 |- _ =>
          exact (tr6_bytes_ok e _ _ _ _ p tb L1 L2 WT UL ETR)
        end.
      - destruct (c_transport c) as [n|sp dp|t|k|k]; cbn [tr_header_len th_of] in *;
          try (exfalso; clear - UL BND; icmp_hl; lia).
        + cbn [tr_ipv6] in ETR. injection ETR as <-. apply bytes_ok_nil.
        + exfalso. clear - UL BND. unfold Tcp.header_len in BND. lia. }
    okb.
  - subst bs. pose proof (arp_bytes_ok a WN). okb.
Qed.

(* ------------------------------------------------------------------ the crate's slicer accepts the built bytes *)
(* SlicedPacket::from_ethernet / from_linux_sll / from_ip (models of Parse/Cursor.v, C03),
   chosen by the link layer of the builder like `wire_entry` *)
Definition crate_entry (c : cfg) (bs : bytes) : res sliced_packet :=
  match c_link c with
  | LkEthernet2 _ _ => SlicedPacket.from_ethernet bs
  | LkLinuxSll _ _ _ => SlicedPacket.from_linux_sll bs
  | LkNone => SlicedPacket.from_ip bs
  end.

Lemma vres_of_ok r v : Parse.StrictProofs.res_rel (vres_of r) (VOk v) -> exists sp, r = Ok sp /\ view sp = v.
Proof.
  destruct r as [sp|er|b]; cbn [vres_of Parse.StrictProofs.res_rel].
  - intros H. exists sp. split; [reflexivity|exact H].
  - destruct er; intros [].
  - intros [].
Qed.

Theorem crate_parse_back e c p bs :
  cfg_wf c = true -> bytes_ok p -> payload_admitted c (len p) = true -> build e c p = BOk bs ->
  exists sp, crate_entry c bs = Ok sp /\ view sp = expected_x c (len p).
Proof.
  intros W OKP PA E. pose proof (build_bytes_ok e c p bs W OKP E) as OKB.
  pose proof (parse_back e c p bs W PA E) as PB. unfold wire_entry in PB. unfold crate_entry.
  apply vres_of_ok. rewrite <- PB.
  destruct (c_link c) as [|s d|pt vl a].
  - apply Parse.StrictProofs.from_ip_rel. exact OKB.
  - apply Parse.StrictProofs.from_ethernet_rel. exact OKB.
  - apply Parse.StrictProofs.from_linux_sll_rel. exact OKB.
Qed.

(* a packet built without link layer through SlicedPacket::from_ether_type *)
Theorem crate_parse_back_ether_type e c p bs :
  cfg_wf c = true -> bytes_ok p -> payload_admitted c (len p) = true -> build e c p = BOk bs ->
  c_link c = LkNone ->
  let x := expected_x c (len p) in
  exists sp, SlicedPacket.from_ether_type (net_ether_type (c_net c)) bs = Ok sp /\
    view sp = mkVPacket (Some (VEtherPayload (mkVEp (net_ether_type (c_net c)) LsSlice (0, len bs))))
                        (v_exts x) (v_net x) (v_transport x).
Proof.
  intros W OKP PA E EL. cbv zeta. pose proof (build_bytes_ok e c p bs W OKP E) as OKB.
  pose proof (parse_back_ether_type e c p bs W PA E EL) as PB. cbv zeta in PB.
  apply vres_of_ok. rewrite <- PB. apply Parse.StrictProofs.from_ether_type_rel. exact OKB.
Qed.

(* no slicer entry point hits a Bug value (unchecked read, unwrap, ...) on built bytes,
   whatever the payload admits *)
Theorem crate_never_bug e c p bs et b : cfg_wf c = true -> bytes_ok p -> build e c p = BOk bs ->
  SlicedPacket.from_ethernet bs <> Bug b /\ SlicedPacket.from_linux_sll bs <> Bug b /\
  SlicedPacket.from_ether_type et bs <> Bug b /\ SlicedPacket.from_ip bs <> Bug b.
Proof.
  intros W OKP E. apply Parse.StrictProofs.strict_never_bug. exact (build_bytes_ok e c p bs W OKP E).
Qed.

(* ------------------------------------------------------------------ ICMP value theorems: the hypothesis beyond cfg_wf *)
(* wf_icmp4_type / wf_icmp6_type (C08) = the field ranges of the Rust types (which cfg_wf
   contains) AND "a raw Unknown{type, code} does not name a typed kind".  Only the second
   part is an extra hypothesis: *)
Definition icmp4_raw_names_typed (t : CtlMsg.Spec.Icmpv4Type) : bool :=
  match t with
  | CtlMsg.Spec.V4Unknown ty cd _ _ _ _ => Icmp4.icmp4_typed ty cd
  | _ => false
  end.
Definition icmp6_raw_names_typed (t : CtlMsg.Spec.Icmpv6Type) : bool :=
  match t with
  | CtlMsg.Spec.V6Unknown ty cd _ _ _ _ => Icmp6.icmp6_typed ty cd
  | _ => false
  end.

Lemma icmp4_wf_gap t : icmp4_cfg_wf t = true -> Icmp4.wf_icmp4_type t = negb (icmp4_raw_names_typed t).
Proof.
  destruct t; cbn [icmp4_cfg_wf Icmp4.wf_icmp4_type icmp4_raw_names_typed negb]; intros W;
    try exact W.
  rewrite W. reflexivity.
Qed.
Lemma icmp6_wf_gap t : icmp6_cfg_wf t = true -> Icmp6.wf_icmp6_type t = negb (icmp6_raw_names_typed t).
Proof.
  destruct t; cbn [icmp6_cfg_wf Icmp6.wf_icmp6_type icmp6_raw_names_typed negb]; intros W;
    try exact W.
  rewrite W. reflexivity.
Qed.

(* the (type, code) pairs that have a typed variant -- complete sweeps over 256 x 256 *)
Definition all_pairs : list (N * N) := flat_map (fun t => map (fun c => (t, c)) (nrange 256)) (nrange 256).
Definition icmp4_typed_pairs : list (N * N) :=
  [(0, 0); (3, 0); (3, 1); (3, 2); (3, 3); (3, 4); (3, 5); (3, 6); (3, 7); (3, 8); (3, 9); (3, 10); (3, 11);
   (3, 12); (3, 13); (3, 14); (3, 15); (5, 0); (5, 1); (5, 2); (5, 3); (8, 0); (11, 0); (11, 1); (12, 0);
   (12, 1); (12, 2); (13, 0); (14, 0)].
Definition icmp6_typed_pairs : list (N * N) :=
  [(1, 0); (1, 1); (1, 2); (1, 3); (1, 4); (1, 5); (1, 6); (2, 0); (3, 0); (3, 1); (4, 0); (4, 1); (4, 2);
   (4, 3); (4, 4); (4, 5); (4, 6); (4, 7); (4, 8); (4, 9); (4, 10); (128, 0); (129, 0); (133, 0); (134, 0);
   (135, 0); (136, 0); (137, 0)].
Lemma icmp_typed_pairs_exact :
  filter (fun q => Icmp4.icmp4_typed (fst q) (snd q)) all_pairs = icmp4_typed_pairs /\
  filter (fun q => Icmp6.icmp6_typed (fst q) (snd q)) all_pairs = icmp6_typed_pairs.
Proof. split; vm_compute; reflexivity. Qed.

Theorem icmp4_value_back_cfg e c p bs t : cfg_wf c = true -> build e c p = BOk bs ->
  c_transport c = TrIcmpv4 t -> (forall a, c_net c <> NtArp a) ->
  icmp4_raw_names_typed t = false ->
  exists ck, ck < 65536 /\
    let seg := drop (off_transport c) bs in
    let h := {| Icmp4.icmp4_type := t; Icmp4.icmp4_checksum := ck |} in
    Icmp4.icmp4_read seg = Roundtrip.Common.Ok (h, p) /\
    (Icmp4.icmp4_type_header_len t = 8 \/ p = [] ->
     Icmp4.icmp4_from_slice seg = Roundtrip.Common.Ok (h, p) /\
     CtlMsg.Spec.icmp4 seg = CtlMsg.Spec.Ok (t, Icmp4.icmp4_type_header_len t, p) /\
     CtlMsg.Model.Icmpv4Slice.view seg = CtlMsg.Spec.Ok (t, Icmp4.icmp4_type_header_len t, p)).
Proof.
  intros W E ET NA NT. apply (icmp4_value_back e); try assumption.
  destruct (cfg_wf_inv c W) as (_ & _ & _ & WT & _). rewrite ET in WT. cbn [tr_wf] in WT.
  rewrite (icmp4_wf_gap t WT), NT. reflexivity.
Qed.

Theorem icmp6_value_back_cfg e c p bs t : cfg_wf c = true -> build e c p = BOk bs ->
  c_transport c = TrIcmpv6 t -> (forall a, c_net c <> NtArp a) ->
  icmp6_raw_names_typed t = false ->
  exists ck, ck < 65536 /\
    let seg := drop (off_transport c) bs in
    let h := {| Icmp6.icmp6_type := t; Icmp6.icmp6_checksum := ck |} in
    Icmp6.icmp6_read seg = Roundtrip.Common.Ok (h, p) /\
    Icmp6.icmp6_from_slice seg = Roundtrip.Common.Ok (h, p) /\
    CtlMsg.Spec.icmp6 seg = CtlMsg.Spec.Ok (t, p) /\
    CtlMsg.Model.Icmpv6Slice.view seg = CtlMsg.Spec.Ok (t, p).
Proof.
  intros W E ET NA NT. apply (icmp6_value_back e); try assumption.
  destruct (cfg_wf_inv c W) as (_ & _ & _ & WT & _). rewrite ET in WT. cbn [tr_wf] in WT.
  rewrite (icmp6_wf_gap t WT), NT. reflexivity.
Qed.
