(* Builder/CutFree.v -- when does struct decoding of an IPv6 extension chain NOT stop early?

   C04 relates PacketHeaders to `Cut.from_* true`: the strict slicing algorithm whose IPv6 extension walk ends
   in front of the first header of a kind whose struct slot is already filled (`refilled`, Parse/HdrCut.v).
   This file gives a sufficient condition, stated on the slicing result alone, under which that cut never
   happens, i.e. `Cut.from_* true bs = SlicedPacket.from_* bs`:

     walk_cutfree / exts_cutfree   if the header payload hp of the IPv6 header carries a `chain` (Parse/HdrSlots.v:
                        consecutive well-formed extension headers, each of the kind announced in front of it)
                        whose kinds never hit a filled slot (`norefill fill_none`) and which ends by announcing a
                        number that is no extension header, then the walk with cut = true and the walk with
                        cut = false are the same computation;
     cut_free           lifted over IpSlice / the link-extension loop / the three entry points: if the UNCUT
                        slicing result sp has `exts_indep sp` (for every header payload hp from which the
                        extension area of sp was sliced, the two walks coincide), the cut result is sp.

   Nothing here mentions the builder; Builder/ProofsHeaders.v instantiates it with the layout of a built
   packet. *)
From Coq Require Import ZArith Lia ZifyN ZifyBool List.
From EP Require Import Base.Bytes Parse.Types Parse.Slices Parse.Cursor Parse.View
  Parse.WireSpec Parse.Repr Parse.StrictProofs Parse.Access
  Parse.HdrModel Parse.HdrView Parse.HdrCut Parse.HdrProofs Parse.HdrProofs2 Parse.HdrProofs3.
From EP Require Import Parse.AccessProofs Parse.HdrSlots Parse.HdrSlots2.
Import ListNotations.
Import SlicedPacketCursor.
Import Ipv6ExtIterA.

Local Open Scope N_scope.

(* ---- no header of the chain meets a filled slot ---------------------------------------------------- *)
(* l = the IP numbers of the extension headers in wire order, f = the slots filled in front *)
Fixpoint norefill (f : fill) (l : list N) : bool :=
  match l with
  | [] => true
  | k :: r => negb (refilled f k) && norefill (fill_add f k) r
  end.

Lemma refilled_non_ext f k : is_ext_number k = false -> refilled f k = false.
Proof.
  unfold is_ext_number, refilled. intros H. rewrite !orb_false_iff in H.
  destruct H as (((A & B) & C) & D). rewrite A, B, C, D. reflexivity.
Qed.

(* ---- one header of a chain through the checked constructors ------------------------------------------ *)
Lemma raw_fwd hp k s : wf_raw s -> subU hp k (s_len s) = Ok s ->
  Ipv6RawExtHeaderSlice.from_slice (at_off hp k) = Ok s.
Proof.
  intros (b & E1 & Lb) Hs. pose proof (AccessProofs.subU_inv _ _ _ _ Hs) as (Hl & _).
  unfold Ipv6RawExtHeaderSlice.from_slice. rewrite at_off_len.
  destruct (s_len hp - k <? 8) eqn:E8; [lia|].
  assert (R1 : rdU (at_off hp k) 1 = Ok b).
  { rewrite at_off_rd. rewrite <- (subU_rd hp k _ s 1 Hs) by lia. exact E1. }
  unfold rdU in R1. destruct (rd (snd (at_off hp k)) 1) as [v|]; [|discriminate]. injection R1 as ->.
  cbn [bind]. rewrite <- Lb. destruct (s_len hp - k <? s_len s) eqn:El; [lia|].
  rewrite at_off_subU by lia. rewrite N.add_0_r. exact Hs.
Qed.

Lemma frag_fwd hp k s : wf_frag s -> subU hp k (s_len s) = Ok s ->
  Ipv6FragmentHeaderSlice.from_slice (at_off hp k) = Ok s.
Proof.
  unfold wf_frag. intros L Hs. pose proof (AccessProofs.subU_inv _ _ _ _ Hs) as (Hl & _).
  unfold Ipv6FragmentHeaderSlice.from_slice. rewrite at_off_len.
  destruct (s_len hp - k <? 8) eqn:E8; [lia|].
  rewrite at_off_subU by lia. rewrite N.add_0_r, <- L. exact Hs.
Qed.

Lemma auth_fwd hp k s : wf_ah s -> subU hp k (s_len s) = Ok s ->
  IpAuthHeaderSlice.from_slice (at_off hp k) = Ok s.
Proof.
  intros (p & E1 & P1 & Lp) Hs. pose proof (AccessProofs.subU_inv _ _ _ _ Hs) as (Hl & _).
  unfold IpAuthHeaderSlice.from_slice. rewrite at_off_len.
  destruct (s_len hp - k <? 12) eqn:E12; [lia|].
  rewrite at_off_rd. rewrite <- (subU_rd hp k _ s 1 Hs) by lia. rewrite E1. cbn [bind].
  destruct (p <? 1) eqn:Ep; [lia|]. rewrite <- Lp.
  destruct (s_len hp - k <? s_len s) eqn:El; [lia|].
  rewrite at_off_subU by lia. rewrite N.add_0_r. exact Hs.
Qed.

(* the rest of the walk's step: the new rest starts behind the header *)
Lemma step_rest hp k s : k + s_len s <= s_len hp ->
  (let* n := subN (s_len (at_off hp k)) (s_len s) in subU (at_off hp k) (s_len s) n)
  = Ok (at_off hp (k + s_len s)).
Proof.
  intros Hl. rewrite at_off_len. rewrite subN_ok by lia. cbn [bind].
  replace (s_len hp - k - s_len s) with (s_len (at_off hp k) - s_len s) by (rewrite at_off_len; lia).
  rewrite subU_rest by (rewrite at_off_len; lia).
  change (fst (at_off hp k) + s_len s, drop (s_len s) (snd (at_off hp k))) with (at_off (at_off hp k) (s_len s)).
  now rewrite at_off_at_off.
Qed.

(* ---- the walk along a chain does not depend on `cut` ------------------------------------------------- *)
Lemma walk_cutfree hp : forall L k nh k' nh' fuel sl fr f,
  chain hp k nh L k' nh' -> norefill f (map item_kind L) = true -> is_ext_number nh' = false ->
  Cut.walk true fuel sl (at_off hp k) nh fr f = Cut.walk false fuel sl (at_off hp k) nh fr f.
Proof.
  induction L as [|it r IH]; intros k nh k' nh' fuel sl fr f C NR FN;
    (destruct fuel as [|fu]; [reflexivity|]); cbn [chain] in C; cbn [Cut.walk].
  - destruct C as (-> & ->). rewrite (refilled_non_ext f nh FN). cbn [andb].
    unfold is_ext_number in FN. rewrite !orb_false_iff in FN. destruct FN as (((A & B) & C) & D).
    rewrite A, B, C, D. cbn [orb]. reflexivity.
  - destruct C as (Hk & Wf & Hs & nx & Hn & C).
    cbn [map norefill] in NR. apply andb_true_iff in NR. destruct NR as (NR1 & NR2).
    apply negb_true_iff in NR1. rewrite Hk in NR1, NR2. rewrite NR1. cbn [andb].
    pose proof (AccessProofs.subU_inv _ _ _ _ Hs) as (Hl & _).
    pose proof (step_rest hp k _ Hl) as SR.
    destruct it as [s|s|s|s|s]; cbn [item_kind ext_item_slice item_wf] in *; subst nh.
    + (* a hop-by-hop header behind the first position: rejected by both *)
      change (IPN_HOP_BY_HOP =? IPN_HOP_BY_HOP) with true. reflexivity.
    + (* routing *)
      change (IPN_ROUTE =? IPN_HOP_BY_HOP) with false.
      change ((IPN_ROUTE =? IPN_DEST_OPTIONS) || (IPN_ROUTE =? IPN_ROUTE)) with true. cbv iota.
      destruct (subN sl (s_len (at_off hp k))) as [off|e|b]; cbn [bind]; [|reflexivity|reflexivity].
      rewrite (raw_fwd hp k s Wf Hs). cbn [map_len_err bind].
      apply bind_inv in SR. destruct SR as (n & Sn & Su). rewrite Sn. cbn [bind]. rewrite Su. cbn [bind].
      unfold Ipv6RawExtHeaderSlice.next_header. rewrite Hn. cbn [bind].
      exact (IH _ _ _ _ _ _ _ _ C NR2 FN).
    + (* fragment *)
      change (IPN_FRAG =? IPN_HOP_BY_HOP) with false.
      change ((IPN_FRAG =? IPN_DEST_OPTIONS) || (IPN_FRAG =? IPN_ROUTE)) with false.
      change (IPN_FRAG =? IPN_FRAG) with true. cbv iota.
      destruct (subN sl (s_len (at_off hp k))) as [off|e|b]; cbn [bind]; [|reflexivity|reflexivity].
      rewrite (frag_fwd hp k s Wf Hs). cbn [map_len_err bind].
      apply bind_inv in SR. destruct SR as (n & Sn & Su). rewrite Sn. cbn [bind]. rewrite Su. cbn [bind].
      unfold Ipv6FragmentHeaderSlice.next_header. rewrite Hn. cbn [bind].
      destruct (Ipv6FragmentHeaderSlice.is_fragmenting_payload s) as [fg|e|b]; cbn [bind];
        [|reflexivity|reflexivity].
      exact (IH _ _ _ _ _ _ _ _ C NR2 FN).
    + (* destination options *)
      change (IPN_DEST_OPTIONS =? IPN_HOP_BY_HOP) with false.
      change ((IPN_DEST_OPTIONS =? IPN_DEST_OPTIONS) || (IPN_DEST_OPTIONS =? IPN_ROUTE)) with true. cbv iota.
      destruct (subN sl (s_len (at_off hp k))) as [off|e|b]; cbn [bind]; [|reflexivity|reflexivity].
      rewrite (raw_fwd hp k s Wf Hs). cbn [map_len_err bind].
      apply bind_inv in SR. destruct SR as (n & Sn & Su). rewrite Sn. cbn [bind]. rewrite Su. cbn [bind].
      unfold Ipv6RawExtHeaderSlice.next_header. rewrite Hn. cbn [bind].
      exact (IH _ _ _ _ _ _ _ _ C NR2 FN).
    + (* authentication *)
      change (IPN_AUTH =? IPN_HOP_BY_HOP) with false.
      change ((IPN_AUTH =? IPN_DEST_OPTIONS) || (IPN_AUTH =? IPN_ROUTE)) with false.
      change (IPN_AUTH =? IPN_FRAG) with false. change (IPN_AUTH =? IPN_AUTH) with true. cbv iota.
      destruct (subN sl (s_len (at_off hp k))) as [off|e|b]; cbn [bind]; [|reflexivity|reflexivity].
      rewrite (auth_fwd hp k s Wf Hs). cbn [bind].
      apply bind_inv in SR. destruct SR as (n & Sn & Su). rewrite Sn. cbn [bind]. rewrite Su. cbn [bind].
      unfold IpAuthHeaderSlice.next_header. rewrite Hn. cbn [bind].
      exact (IH _ _ _ _ _ _ _ _ C NR2 FN).
Qed.

(* Ipv6ExtensionsSlice::from_slice: a hop-by-hop header is taken first, outside the walk *)
Lemma exts_cutfree nh0 hp L k' nh' :
  chain hp 0 nh0 L k' nh' -> norefill fill_none (map item_kind L) = true ->
  is_ext_number nh' = false -> nh' <> IPN_HOP_BY_HOP ->
  Cut.exts_from_slice true nh0 hp = Cut.exts_from_slice false nh0 hp.
Proof.
  intros C NR FN N0. unfold Cut.exts_from_slice.
  destruct (IPN_HOP_BY_HOP =? nh0) eqn:E0.
  - apply N.eqb_eq in E0. subst nh0. destruct L as [|it r]; cbn [chain] in C.
    + destruct C as (_ & ->). now destruct N0.
    + destruct C as (Hk & Wf & Hs & nx & Hn & C).
      destruct it as [s|s|s|s|s]; cbn [item_kind] in Hk; try (vm_compute in Hk; discriminate Hk).
      cbn [item_wf ext_item_slice map item_kind norefill] in *.
      change (refilled fill_none IPN_HOP_BY_HOP) with false in NR.
      change (fill_add fill_none IPN_HOP_BY_HOP) with fill_none in NR. cbn [negb andb] in NR.
      pose proof (AccessProofs.subU_inv _ _ _ _ Hs) as (Hl & _).
      pose proof (raw_fwd hp 0 s Wf Hs) as RF. rewrite at_off_0 in RF. rewrite RF. cbn [bind].
      destruct (s_len s <=? s_len hp) eqn:El; [|lia]. cbn [bind].
      unfold Ipv6RawExtHeaderSlice.next_header. rewrite Hn. cbn [bind].
      change (fst hp + s_len s, drop (s_len s) (snd hp)) with (at_off hp (s_len s)).
      rewrite N.add_0_l in C.
      rewrite (walk_cutfree hp r (s_len s) nx k' nh' _ _ false fill_none C NR FN). reflexivity.
  - cbn [bind].
    pose proof (walk_cutfree hp L 0 nh0 k' nh' (S (length (snd hp))) (s_len hp) false fill_none C NR FN) as W.
    rewrite at_off_0 in W. rewrite W. reflexivity.
Qed.

(* ---- lifted over whole packets -------------------------------------------------------------------------- *)
(* for every header payload hp from which the extension area / payload of the IPv6 layer of sp was sliced,
   the cut walk and the uncut walk coincide *)
Definition exts_indep (sp : sliced_packet) : Prop :=
  forall v nh hp, sp_net sp = Some (NtIpv6 v) ->
    Ipv6HeaderSlice.next_header (v6_header v) = Ok nh ->
    Cut.exts_from_slice false nh hp = Ok (v6_exts v, ipp_number (v6_payload v), ipp_slice (v6_payload v)) ->
    Cut.exts_from_slice true nh hp = Cut.exts_from_slice false nh hp.

Lemma v6_finish_header cut s header v : Cut.v6_finish cut s header = Ok v -> v6_header v = header.
Proof.
  unfold Cut.v6_finish. intros H. binv H pl Epl. binv H hps Ehp. destruct hps as (hp, src).
  binv H nh Enh. binv H x Ex. destruct x as ((exts, pn), payload). now injection H as <-.
Qed.

Lemma v6_finish_lift s header v :
  Cut.v6_finish false s header = Ok v ->
  (forall nh hp, Ipv6HeaderSlice.next_header header = Ok nh ->
     Cut.exts_from_slice false nh hp = Ok (v6_exts v, ipp_number (v6_payload v), ipp_slice (v6_payload v)) ->
     Cut.exts_from_slice true nh hp = Cut.exts_from_slice false nh hp) ->
  Cut.v6_finish true s header = Ok v.
Proof.
  unfold Cut.v6_finish. intros H Hx.
  binv H pl Epl. rewrite Epl. cbn [bind]. binv H hps Ehp. rewrite Ehp. cbn [bind]. destruct hps as (hp, src).
  binv H nh Enh. rewrite Enh. cbn [bind].
  binv H x Ex. destruct x as ((exts, pn), payload). injection H as <-.
  cbn [v6_header v6_exts v6_payload ipp_number ipp_slice] in Hx.
  assert (Ex' : Cut.exts_from_slice false nh hp = Ok (exts, pn, payload)).
  { destruct (Cut.exts_from_slice false nh hp) as [a|[e|c]|b]; try discriminate; exact Ex. }
  rewrite (Hx nh hp Enh Ex'), Ex'. cbn [bind]. reflexivity.
Qed.

Lemma slice_ipv6_lift c s sp :
  Cut.slice_ipv6 false c s = Ok sp -> exts_indep sp -> Cut.slice_ipv6 true c s = Ok sp.
Proof.
  unfold Cut.slice_ipv6, Cut.v6_from_slice. intros H HI.
  binv H ip Eip. apply map_len_err_inv in Eip. binv Eip header Eh. rewrite Eh. cbn [bind].
  binv H d Ed. pose proof (dispatch_net _ _ _ H) as Hn. cbn [set_net c_result sp_net] in Hn.
  pose proof (v6_finish_header _ _ _ _ Eip) as Hh.
  rewrite (v6_finish_lift s header ip Eip).
  - cbn [map_len_err bind]. rewrite Ed. cbn [bind]. exact H.
  - intros nh hp Enh Ex. apply (HI ip nh hp); [exact Hn|now rewrite Hh|exact Ex].
Qed.

Lemma slice_ip_lift c s sp :
  Cut.slice_ip false c s = Ok sp -> exts_indep sp -> Cut.slice_ip true c s = Ok sp.
Proof.
  unfold Cut.slice_ip, Cut.ip_from_slice. intros H HI.
  destruct (s_len s =? 0); [exact H|].
  destruct (rdU s 0) as [b0|e|b]; cbn [bind map_len_err] in *; try exact H.
  destruct (N.shiftr b0 4 =? 4); [exact H|].
  destruct (N.shiftr b0 4 =? 6); [|exact H].
  destruct (s_len s <? 40); [exact H|].
  destruct (subU s 0 40) as [header|e|b]; cbn [bind map_len_err] in *; try exact H.
  binv H ip Eip. apply map_len_err_inv in Eip. binv Eip v Ev. injection Eip as <-.
  cbn [IpSlice.payload] in H. binv H d Ed.
  pose proof (dispatch_net _ _ _ H) as Hn. cbn [set_net c_result sp_net] in Hn.
  pose proof (v6_finish_header _ _ _ _ Ev) as Hh.
  rewrite (v6_finish_lift s header v Ev).
  - cbn [map_len_err bind IpSlice.payload]. rewrite Ed. cbn [bind]. exact H.
  - intros nh hp Enh Ex. apply (HI v nh hp); [exact Hn|now rewrite Hh|exact Ex].
Qed.

Lemma loop_lift fuel : forall c ep sp,
  Cut.slice_ether_type_loop false fuel c ep = Ok sp -> exts_indep sp ->
  Cut.slice_ether_type_loop true fuel c ep = Ok sp.
Proof.
  induction fuel as [|f IH]; intros c ep sp H HI; [discriminate|].
  cbn [Cut.slice_ether_type_loop] in *.
  destruct (is_vlan_type (ep_ether_type ep)).
  { destruct (LINK_EXTS_CAP <=? _); [exact H|].
    destruct (map_len_err _ _); cbn [bind] in *; try discriminate.
    destruct (SingleVlanSlice.payload _); cbn [bind] in *; try discriminate.
    destruct (push_ext _ _ _ _); cbn [bind] in *; try discriminate. now apply IH. }
  destruct (ep_ether_type ep =? ET_MACSEC).
  { destruct (LINK_EXTS_CAP <=? _); [exact H|].
    destruct (map_len_err _ _); cbn [bind] in *; try discriminate.
    destruct (Macsec.header_len _); cbn [bind] in *; try discriminate.
    destruct (Macsec.short_len _); cbn [bind] in *; try discriminate.
    destruct (push_ext _ _ _ _); cbn [bind] in *; try discriminate.
    destruct (ms_payload a); [now apply IH|exact H]. }
  destruct (ep_ether_type ep =? ET_ARP); [exact H|].
  destruct (ep_ether_type ep =? ET_IPV4); [exact H|].
  destruct (ep_ether_type ep =? ET_IPV6); [now apply slice_ipv6_lift|exact H].
Qed.

(* the cut slicing result IS the slicing result as soon as the walks coincide on the header payload *)
Theorem cut_free bs et :
  (forall sp, SlicedPacket.from_ethernet bs = Ok sp -> exts_indep sp -> Cut.from_ethernet true bs = Ok sp) /\
  (forall sp, SlicedPacket.from_ether_type et bs = Ok sp -> exts_indep sp ->
     Cut.from_ether_type true et bs = Ok sp) /\
  (forall sp, SlicedPacket.from_ip bs = Ok sp -> exts_indep sp -> Cut.from_ip true bs = Ok sp).
Proof.
  split; [|split]; intros sp H HI.
  - rewrite <- cut_false_from_ethernet in H.
    unfold Cut.from_ethernet, Cut.slice_ethernet2, Cut.slice_ether_type in *.
    destruct (map_len_err _ _); cbn [bind] in *; try discriminate.
    destruct (Ethernet2Slice.payload _); cbn [bind] in *; try discriminate. now apply loop_lift.
  - rewrite <- cut_false_from_ether_type in H. now apply loop_lift.
  - rewrite <- cut_false_from_ip in H. now apply slice_ip_lift.
Qed.
