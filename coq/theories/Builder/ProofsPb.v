(* Builder/ProofsPb.v -- property C10, part 6: the wire reference decoder of C03 accepts a
   built packet and returns exactly the configured layers at their computed offsets
   (`expected_x` of Builder/SpecX.v).  Composition of the byte facts of ProofsNx.v /
   ProofsTr.v (what the builder wrote) with the acceptance lemmas of ProofsWire.v (what
   the decoder needs). *)
From EP Require Import Base.Bytes Checksum.Spec Checksum.Model Checksum.Proofs.
From EP Require Import Checksum.ProtoTypes Checksum.ProtoSpec.
From EP Require Import Roundtrip.Common Roundtrip.CommonProofs.
From EP Require Roundtrip.Spec Roundtrip.Tcp Roundtrip.TcpProofs Roundtrip.Ipv4 Roundtrip.Ipv4Proofs.
From EP Require CtlMsg.Spec Roundtrip.Icmp4 Roundtrip.Icmp6.
From EP Require ExtChain.Spec ExtChain.Model ExtChain.View ExtChain.Proofs BitFields.Model.
From EP Require Import Parse.Types Parse.View Parse.WireSpec.
From EP Require Import Builder.Model Builder.Spec Builder.Proofs Builder.ProofsCk Builder.SpecX Builder.ProofsTr
  Builder.ProofsNx Builder.ProofsWire.
From Coq Require Import ZArith Lia ZifyN ZifyBool.
Local Open Scope N_scope.

(* ------------------------------------------------------------------ the transport header as the decoder reads it *)
Lemma seg_wire e c p bs : cfg_wf c = true -> build e c p = BOk bs ->
  match c_net c with
  | NtArp _ => True
  | _ =>
    exists front tb, bs = front ++ tb ++ p /\ len front = off_transport c /\
      len tb = tr_header_len (c_transport c) /\ tr_header_len (c_transport c) + len p <= 65535 /\
      match th_of (c_transport c) (8 + len p) with
      | None => tb = []
      | Some th => exists ck, tb = th_wire th ck
      end
  end.
Proof.
  intros W E. destruct (cfg_wf_inv c W) as (WL & WV & WN & WT & WS).
  pose proof (seg_shape e c p bs W E) as SH. cbv zeta in SH.
  destruct (c_net c) as [h x|h x|a] eqn:EN; cbn [net_wf] in WN; [| |exact I].
  - apply andb_true_iff in WN. destruct WN as [WH WX].
    destruct SH as (front & tb & EB & LF & LT & BND & ETR).
    exists front, tb. split; [exact EB|]. split; [exact LF|]. split; [exact LT|]. split; [clear - BND; lia|].
    assert (UL : 8 + len p < 65536).
    { clear - BND. destruct (c_transport c) as [n|sp dp|t|k|k]; cbn [tr_header_len] in *; try lia; try (icmp_hl; lia);
      unfold Tcp.header_len in BND; lia. }
    rewrite (as_u16_small _ UL) in ETR.
    destruct (Ipv4Proofs.wf_ip4_facts h WH) as (_ & _ & (LS & OS & LD & OD) & _).
    destruct (Ipv4Proofs.len4_explicit _ LS OS) as (s0 & s1 & s2 & s3 & ES & _).
    destruct (Ipv4Proofs.len4_explicit _ LD OD) as (d0 & d1 & d2 & d3 & ED & _).
    rewrite ES, ED in *.
    pose proof (tr_ipv4_is_update e s0 s1 s2 s3 d0 d1 d2 d3 _ _ p tb WT UL ETR) as U.
    destruct (th_of (c_transport c) (8 + len p)) as [th|].
    + destruct U as (_ & ck & _ & _ & ->). exists ck. reflexivity.
    + destruct U as (-> & _). reflexivity.
  - apply andb_true_iff in WN. destruct WN as [WH WX].
    destruct SH as (front & tb & EB & LF & LT & BND & ETR).
    exists front, tb. split; [exact EB|]. split; [exact LF|]. split; [exact LT|]. split; [exact BND|].
    unfold ip6_wf in WH. bsplit WH.
    destruct (N.ltb_spec (8 + len p) 65536) as [UL|UL].
    + rewrite (as_u16_small _ UL) in ETR.
      match goal with
      | L1 : len (BitFields.Model.v6_source h) = 16, L2 : len (BitFields.Model.v6_destination h) = 16 |- _ =>
        pose proof (tr_ipv6_is_update e _ _ _ _ p tb L1 L2 WT UL ETR) as U
      end.
      destruct (th_of (c_transport c) (8 + len p)) as [th|].
      * destruct U as (_ & ck & _ & _ & ->). exists ck. reflexivity.
      * destruct U as (-> & _). reflexivity.
    + destruct (c_transport c) as [n|sp dp|t|k|k]; cbn [tr_header_len th_of] in *;
        try (exfalso; clear - UL BND; icmp_hl; lia).
      * cbn [tr_ipv6] in ETR. injection ETR as <-. reflexivity.
      * exfalso. clear - UL BND. unfold Tcp.header_len in BND. lia.
Qed.

Lemma tcp_doff_byte ol b : ol <= 40 -> ol mod 4 = 0 -> b <= 1 -> ((5 + ol / 4) * 16 + b) / 16 * 4 = 20 + ol.
Proof. intros H1 H2 H3. zify; Z.div_mod_to_equations; lia. Qed.


Lemma udp_field sp dp ul ck p : ul < 65536 ->
  W (th_wire (THUdp {| u_sport := sp; u_dport := dp; u_length := ul |}) ck ++ p) 4 = ul.
Proof.
  intros L. cbn [th_wire]. unfold udp_wire, w16, to_be16. cbn [u_sport u_dport u_length app].
  unfold W. change (B _ 4) with ((ul / 256) mod 256). change (B _ (4 + 1)) with (ul mod 256).
  apply (u16_be_roundtrip ul L).
Qed.
Lemma tcp_field t ck p : Tcp.wf_tcp t = true ->
  B (th_wire (THTcp (tcp_hdr_of t)) ck ++ p) 12 / 16 * 4 = Tcp.header_len t.
Proof.
  intros WT. destruct (TcpProofs.wf_tcp_facts t WT) as (_ & _ & _ & _ & _ & _ & _ & WO).
  destruct (TcpProofs.opt_wf_facts _ WO) as (OL & OM & _).
  cbn [th_wire]. unfold tcp_wire, w16, w32, to_be16, to_be32. cbn [app].
  change (B _ 12) with (tcp_data_offset (tcp_hdr_of t) * 16 + bit (t_ns (tcp_hdr_of t))).
  unfold tcp_data_offset, tcp_hdr_of. cbn [t_options t_ns]. rewrite (TcpProofs.len_take_opts t WT).
  unfold Tcp.header_len. apply tcp_doff_byte; [exact OL|exact OM|destruct (Tcp.ns t); cbn [bit]; lia].
Qed.
(* type and code octets of every configured ICMPv4 message, as the decoder reads them *)
Lemma icmp4_fields k ck p :
  B (icmp4_wire (c09_icmp4 k) ck ++ p) 0 = fst (icmp4_tc k) /\
  B (icmp4_wire (c09_icmp4 k) ck ++ p) 1 = snd (icmp4_tc k).
Proof.
  destruct k as [ty c b4 b5 b6 b7|id sq|d|rc g0 g1 g2 g3|id sq|tc|pp|m|m];
    try destruct d; try destruct pp; split; reflexivity.
Qed.

(* what wire_transport returns for a configuration *)
Definition tr_done (c : cfg) (total : N) (pk : vpacket) : vpacket :=
  match exp_transport c total with Some v => with_tr pk v | None => pk end.

Lemma wire_transport_built e c p bs : cfg_wf c = true -> build e c p = BOk bs ->
  payload_admitted c (len p) = true ->
  match c_net c with
  | NtArp _ => True
  | _ =>
    off_transport c + tr_header_len (c_transport c) + len p = len bs /\
    forall pk src frag,
      (frag = false -> is_fragmented c = false) ->
      wire_transport bs pk (tr_ip_number (c_transport c)) frag src (off_transport c) (len bs)
      = VOk (if frag then pk else tr_done c (len bs) pk)
  end.
Proof.
  intros WF E PA. destruct (cfg_wf_inv c WF) as (WL & WV & WN & WT & WS).
  pose proof (seg_wire e c p bs WF E) as SW.
  unfold payload_admitted in PA. unfold tr_done, exp_transport.
  destruct (c_net c) as [h x|h x|a] eqn:EN; [| |exact I];
    destruct SW as (front & tb & EB & LF & LT & BND & TH);
    (assert (LB : off_transport c + tr_header_len (c_transport c) + len p = len bs)
       by (rewrite EB, !len_app, LF, LT; lia));
    (split; [exact LB|]); intros pk src frag FR; (destruct frag; [reflexivity|]); specialize (FR eq_refl);
    set (pos := off_transport c) in *; set (lim := len bs) in *;
    assert (DR : forall i, B bs (pos + i) = B (tb ++ p) i)
      by (intros i; rewrite EB; apply B_at; symmetry; exact LF);
    assert (DW : forall i, W bs (pos + i) = W (tb ++ p) i)
      by (intros i; rewrite EB; apply W_at; symmetry; exact LF).
  all: destruct (c_transport c) as [n|sp dp|t|k|k] eqn:ET; cbn [th_of tr_ip_number tr_header_len tr_wf] in *.
  (* raw *)
  1, 6: unfold raw_number_ok in PA; rewrite EN in PA; apply andb_true_iff in PA; destruct PA as [PA _];
        apply negb_true_iff in PA; rewrite !orb_false_iff in PA; destruct PA as ((((P1 & P6) & P17) & P58) & _);
        apply N.eqb_neq in P1, P6, P17, P58; apply wire_transport_other; assumption.
  (* UDP *)
  1, 5: destruct TH as (ck & ->); unfold wire_transport; change (17 =? 1) with false; change (17 =? 17) with true;
        cbv iota; bsplit WT; apply wire_udp_ok; [clear - LB; lia|]; rewrite DW;
        rewrite udp_field by (clear - BND; lia); clear - LB; lia.
  (* TCP *)
  1, 4: destruct TH as (ck & ->); unfold wire_transport; change (6 =? 1) with false; change (6 =? 17) with false;
        change (6 =? 6) with true; cbv iota;
        apply wire_tcp_ok; [unfold Tcp.header_len; clear; lia|clear - LB; lia|]; rewrite DR; apply tcp_field; exact WT.
  (* ICMPv4 *)
  1, 3: destruct (icmp4_of_wf k WT) as (ty & ETY & _ & -> & EW); rewrite ETY in TH; cbn [option_map] in TH;
        destruct TH as (ck & ->); unfold wire_transport; change (1 =? 1) with true; cbv iota;
        destruct (icmp4_fields k ck p) as [T0 T1]; cbn [th_wire] in DR;
        assert (T0' : B bs pos = fst (icmp4_tc k))
          by (replace (B bs pos) with (B bs (pos + 0)) by (f_equal; lia); rewrite DR; exact T0);
        assert (T1' : B bs (pos + 1) = snd (icmp4_tc k)) by (rewrite DR; exact T1);
        pose proof (icmp4_hl_bounds k) as HLB;
        apply wire_icmp4_ok; [clear - LB HLB; lia|]; rewrite T0', T1';
        rewrite FR in PA; cbn [orb] in PA; unfold icmp4_admits in PA; intros ADM;
        rewrite ADM in PA; apply N.eqb_eq in PA; clear - PA LB; lia.
  (* ICMPv6 *)
  - (* in IPv4: refused by the builder *)
    exfalso. pose proof (build_error_iff e c p EIcmpv6InIpv4 WF) as BE.
    assert (SO : spec_outcome c (len p) = OErr EIcmpv6InIpv4 \/ exists er, spec_outcome c (len p) = OErr er).
    { unfold spec_outcome. rewrite EN, ET. destruct (_ <? _); [right; eexists; reflexivity|left; reflexivity]. }
    destruct SO as [SO|(er & SO)].
    + apply BE in SO. rewrite E in SO. discriminate.
    + apply (build_error_iff e c p er WF) in SO. rewrite E in SO. discriminate.
  - destruct (icmp6_of_wf k WT) as (ty & ETY & _ & _ & EW). rewrite ETY in TH. cbn [option_map] in TH.
    destruct TH as (ck & ->). unfold wire_transport. change (58 =? 1) with false. change (58 =? 17) with false.
    change (58 =? 6) with false. change (58 =? 58) with true. cbv iota. rewrite (icmp6_hl k) in *.
    apply wire_icmp6_ok; [clear - LB; lia|]. clear - LB BND. lia.
Qed.

(* ------------------------------------------------------------------ facts about the configured extension layout *)
Lemma layout6_sum x : sum_len (ext_layout6_full x) = XM.header_len x.
Proof.
  destruct x as [[h|] [d|] [[rt [fd|]]|] [fr|] [a|]];
    unfold ext_layout6_full, XS.in_rfc_order, XS.rfc8200_order, XM.header_len, sum_len;
    cbn [flat_map ext_info6 ext_len6 option_map app fold_right fst snd XM.hop_by_hop_options XM.destination_options
         XM.routing XM.fragment XM.auth XM.rt_routing XM.rt_final_destination_options];
    unfold XM.frag_header_len, XM.FRAG_LEN; lia.
Qed.
Lemma layout6_hop_first x : hop_first (ext_layout6_full x) = true.
Proof. destruct x as [[h|] [d|] [[rt [fd|]]|] [fr|] [a|]]; reflexivity. Qed.
Lemma layout6_any_frag x : any_frag (ext_layout6_full x) = XM.is_fragmenting_payload x.
Proof.
  destruct x as [[h|] [d|] [[rt [fd|]]|] [fr|] [a|]]; unfold any_frag, ext_layout6_full, XS.in_rfc_order,
    XS.rfc8200_order, XM.is_fragmenting_payload;
    cbn [flat_map ext_info6 ext_len6 option_map app existsb fst snd XM.hop_by_hop_options XM.destination_options
         XM.routing XM.fragment XM.auth XM.rt_routing XM.rt_final_destination_options orb];
    rewrite ?orb_false_r; reflexivity.
Qed.

Lemma admitted_number c plen : tr_wf (c_transport c) = true -> payload_admitted c plen = true ->
  match c_net c with
  | NtArp _ => True
  | NtIpv4 _ _ => tr_ip_number (c_transport c) <> 51
  | NtIpv6 _ _ => final_number (tr_ip_number (c_transport c)) /\ chain_pre c = true
  end.
Proof.
  intros WT PA. unfold payload_admitted in PA. unfold chain_pre.
  destruct (c_net c) as [h x|h x|a] eqn:EN; [| |exact I].
  - destruct (c_transport c) as [n|sp dp|t|k|k]; cbn [tr_ip_number]; try lia.
    unfold raw_number_ok in PA. rewrite EN in PA. apply andb_true_iff in PA. destruct PA as [PA _].
    apply negb_true_iff in PA. rewrite !orb_false_iff in PA. destruct PA as (_ & P51). apply N.eqb_neq in P51. exact P51.
  - destruct (c_transport c) as [n|sp dp|t|k|k]; cbn [tr_ip_number];
      try (split; [unfold final_number; lia|reflexivity]).
    unfold raw_number_ok in PA. rewrite EN in PA. apply andb_true_iff in PA. destruct PA as [PA PB].
    apply negb_true_iff in PA, PB. rewrite !orb_false_iff in PA, PB.
    destruct PA as (_ & P51). destruct PB as (((P0 & P43) & P44) & P60).
    apply N.eqb_neq in P51, P0, P43, P44, P60.
    split; [unfold final_number; tauto|].
    unfold XS.is_ext_number, XS.rfc8200_order. cbn [map existsb XS.ip_number_of].
    apply negb_true_iff. rewrite !orb_false_iff.
    repeat split; try (apply N.eqb_neq; assumption); reflexivity.
Qed.

(* ------------------------------------------------------------------ the net layer *)
Definition net_done (c : cfg) (total : N) (pk : vpacket) : vpacket :=
  let pk1 := mkVPacket (v_link pk) (v_exts pk) (exp_net_x c total) (v_transport pk) in
  match c_net c with
  | NtArp _ => pk1
  | _ => if is_fragmented_x c then pk1 else tr_done c total pk1
  end.

Lemma net_back_ipv4 e c p bs h x : cfg_wf c = true -> build e c p = BOk bs ->
  payload_admitted c (len p) = true -> c_net c = NtIpv4 h x ->
  forall pk src,
    wire_ipv4 bs pk src (off_net c) (len bs) = VOk (net_done c (len bs) pk) /\
    wire_ip bs pk src (off_net c) (len bs) = VOk (net_done c (len bs) pk).
Proof.
  intros WF E PA EN pk src. destruct (cfg_wf_inv c WF) as (WL & WV & WN & WT & WS).
  destruct (ip4_built_fields e c p bs h x WF E EN) as (F0 & F2 & F6 & F9 & LE & LT & OL & OM & FO & F6b).
  pose proof (wire_transport_built e c p bs WF E PA) as TB. rewrite EN in TB. destruct TB as (LB & TB).
  pose proof (admitted_number c (len p) WT PA) as AN. rewrite EN in AN.
  pose proof (chain_built e c p bs WF E) as CB. unfold chain_pre in CB. rewrite EN in CB. specialize (CB eq_refl).
  unfold ext_layout_full, ip_next_field_off, off_exts, ip_header_len in CB. rewrite EN in CB.
  rewrite N.add_0_r in F0. unfold Ipv4.ip4_header_len in LE, CB.
  set (pos := off_net c) in *. set (lim := len bs) in *. set (ol := Ipv4.i4o_len (Ipv4.i4_options h)) in *.
  assert (FRG : ipv4_fragmented bs pos = ipv4_frag h).
  { unfold ipv4_fragmented. rewrite F6b, F6. apply ip4_frag_bits. exact FO. }
  assert (TAIL : wire_ipv4_tail bs pk pos (20 + ol) lim = VOk (net_done c lim pk)).
  { unfold net_done, exp_net_x, is_fragmented_x. rewrite EN. cbv zeta.
    assert (OT : off_transport c = pos + (20 + ol) + XM.header_len4 x).
    { unfold off_transport, net_len. rewrite EN. unfold Ipv4.ip4_header_len. fold ol. fold pos. clear. lia. }
    unfold off_exts, ip_header_len. rewrite EN. unfold Ipv4.ip4_header_len. fold ol. fold pos.
    destruct x as [[a|]]; cbn [XM.auth4 XM.set_next_headers4 snd XM.header_len4] in *.
    - cbn [chain_full] in CB. destruct CB as (_ & HA & BN).
      rewrite (wire_ipv4_tail_auth bs pk pos (20 + ol) lim (XM.auth_header_len a) F9)
        by (try exact HA; clear - LB OT; pose proof (N.le_0_l (len p)); lia).
      rewrite FRG, BN, <- OT. rewrite TB by (intros FR; unfold is_fragmented; rewrite EN; exact FR).
      destruct (ipv4_frag h); reflexivity.
    - cbn [chain_full] in CB.
      rewrite (wire_ipv4_tail_plain bs pk pos (20 + ol) lim _ F9 AN).
      rewrite N.add_0_r in OT. rewrite FRG, <- OT. rewrite TB by (intros FR; unfold is_fragmented; rewrite EN; exact FR).
      destruct (ipv4_frag h); reflexivity. }
  assert (LE' : 20 + ol <= lim - pos) by (clear - LE; lia).
  destruct (wire_ipv4_ok bs pk src pos lim ol OL OM F0 LE' F2) as (E1 & E2).
  rewrite E1, E2. split; exact TAIL.
Qed.

Lemma first_ext_number6 c h x Bf pos first last : c_net c = NtIpv6 h x ->
  chain_full Bf pos first (ext_layout6_full x) last ->
  first_ext_number c = if XM.header_len x =? 0 then None else Some first.
Proof.
  intros EN CH. unfold first_ext_number, ext_layout. rewrite EN.
  rewrite <- (layout6_sum x). rewrite <- (ext_layout6_forget x).
  destruct (ext_layout6_full x) as [|[k [hl fr]] r]; [reflexivity|].
  cbn [chain_full] in CH. destruct CH as (E1 & HA & _).
  cbn [map fst snd sum_len fold_right]. fold (sum_len r).
  assert (1 <= hl) by (destruct k; cbn [ext_hdr_at] in HA; lia).
  replace (hl + sum_len r =? 0) with false by (symmetry; apply N.eqb_neq; lia).
  rewrite E1. reflexivity.
Qed.

Lemma net_back_ipv6 e c p bs h x : cfg_wf c = true -> build e c p = BOk bs ->
  payload_admitted c (len p) = true -> c_net c = NtIpv6 h x ->
  forall pk src,
    wire_ipv6 bs pk src (off_net c) (len bs) = VOk (net_done c (len bs) pk) /\
    wire_ip bs pk src (off_net c) (len bs) = VOk (net_done c (len bs) pk).
Proof.
  intros WF E PA EN pk src. destruct (cfg_wf_inv c WF) as (WL & WV & WN & WT & WS).
  destruct (ip6_built_fields e c p bs h x WF E EN) as (F0 & F4 & F6 & LE & LT).
  pose proof (wire_transport_built e c p bs WF E PA) as TB. rewrite EN in TB. destruct TB as (LB & TB).
  pose proof (admitted_number c (len p) WT PA) as AN. rewrite EN in AN. destruct AN as (FN & CP).
  pose proof (chain_built e c p bs WF E CP) as CB. rewrite EN in CB.
  unfold ext_layout_full, ip_next_field_off, off_exts, ip_header_len in CB. rewrite EN in CB.
  rewrite N.add_0_r in F0.
  assert (OT : off_transport c = off_net c + 40 + XM.header_len x).
  { unfold off_transport, net_len. rewrite EN. clear. lia. }
  pose proof (first_ext_number6 c h x _ _ _ _ EN CB) as FE.
  set (pos := off_net c) in *. set (lim := len bs) in *.
  assert (LE' : 40 <= lim - pos) by (clear - LE; lia).
  destruct (wire_ipv6_ok bs pk src pos lim LE' F0 F4) as (E1 & E2). rewrite E1, E2.
  assert (TAIL : wire_ipv6_tail bs pk LsIpv6HeaderPayloadLen LsIpv6HeaderPayloadLen pos lim
                 = VOk (net_done c lim pk)).
  { rewrite (wire_ipv6_tail_ok bs pk _ _ pos lim (ext_layout6_full x) (tr_ip_number (c_transport c)) CB
               (layout6_hop_first x) FN)
      by (rewrite layout6_sum; clear - LB OT; pose proof (N.le_0_l (len p)); lia).
    rewrite layout6_sum, layout6_any_frag, <- OT.
    unfold net_done, exp_net_x, is_fragmented_x. rewrite EN. cbv zeta.
    unfold off_exts, ip_header_len. rewrite EN. fold pos. rewrite FE.
    rewrite TB by (intros _; unfold is_fragmented; rewrite EN; reflexivity).
    destruct (XM.is_fragmenting_payload x); reflexivity. }
  split; exact TAIL.
Qed.

Lemma net_back_arp e c p bs a : cfg_wf c = true -> build e c p = BOk bs -> c_net c = NtArp a ->
  forall pk src, wire_arp bs pk src (off_net c) (len bs) = VOk (net_done c (len bs) pk).
Proof.
  intros WF E EN pk src. destruct (cfg_wf_inv c WF) as (WL & WV & WN & WT & WS).
  rewrite EN in WN. cbn [net_wf] in WN.
  pose proof (build_shape_x e c p bs WF E) as SH. cbv zeta in SH. rewrite EN in SH. destruct SH as (LP & EB).
  set (pre := link_bytes c ++ vlan_bytes c) in *. clearbody pre.
  pose proof (arp_bytes_len a WN) as LA.
  unfold net_done, exp_net_x. rewrite EN. cbv zeta.
  assert (L8 : 8 <= arp_packet_len a) by (unfold arp_packet_len; lia).
  apply wire_arp_ok; [exact L8|rewrite EB, !len_app, LP, LA; lia|].
  rewrite EB. rewrite !(B_at pre) by (symmetry; exact LP).
  unfold arp_to_bytes, arp_packet_len. unfold u16_to_be. cbn [app].
  change (B _ 4) with (len (arp_sender_hw a)). change (B _ 5) with (len (arp_sender_proto a)). reflexivity.
Qed.

(* wire_net dispatches on the ether type of the configured net layer *)
Lemma net_back e c p bs : cfg_wf c = true -> build e c p = BOk bs -> payload_admitted c (len p) = true ->
  forall pk src,
    wire_net bs pk (net_ether_type (c_net c)) src (off_net c) (len bs) = VOk (net_done c (len bs) pk) /\
    match c_net c with
    | NtArp _ => True
    | _ => wire_ip bs pk src (off_net c) (len bs) = VOk (net_done c (len bs) pk)
    end.
Proof.
  intros WF E PA pk src. destruct (c_net c) as [h x|h x|a] eqn:EN; cbn [net_ether_type]; unfold wire_net.
  - change (2048 =? 2054) with false. change (2048 =? 2048) with true. cbv iota.
    pose proof (net_back_ipv4 e c p bs h x WF E PA EN pk src) as NB.
    unfold net_done in *. rewrite EN in *. exact NB.
  - change (34525 =? 2054) with false. change (34525 =? 2048) with false. change (34525 =? 34525) with true. cbv iota.
    pose proof (net_back_ipv6 e c p bs h x WF E PA EN pk src) as NB.
    unfold net_done in *. rewrite EN in *. exact NB.
  - change (2054 =? 2054) with true. cbv iota. split; [|exact I].
    pose proof (net_back_arp e c p bs a WF E EN pk src) as NB.
    unfold net_done in *. rewrite EN in *. exact NB.
Qed.

(* ------------------------------------------------------------------ assembling the view *)
Lemma net_done_expected c total lk xs :
  net_done c total (mkVPacket lk xs None None) =
  mkVPacket lk xs (exp_net_x c total)
    (match c_net c with NtArp _ => None | _ => if is_fragmented_x c then None else exp_transport c total end).
Proof.
  unfold net_done, tr_done. cbv zeta. cbn [v_link v_exts v_transport].
  destruct (c_net c); try reflexivity; destruct (is_fragmented_x c); try reflexivity;
    destruct (exp_transport c total); reflexivity.
Qed.

Lemma net_et_plain n : is_vlan (net_ether_type n) = false /\ net_ether_type n <> 35045 /\
  sll_nonstandard (net_ether_type n) = false.
Proof. destruct n; cbn [net_ether_type]; repeat split; try reflexivity; lia. Qed.

(* ------------------------------------------------------------------ parse-back *)
Theorem parse_back e c p bs : cfg_wf c = true -> payload_admitted c (len p) = true ->
  build e c p = BOk bs -> wire_entry c bs = VOk (expected_x c (len p)).
Proof.
  intros WF PA E. destruct (cfg_wf_inv c WF) as (WL & WV & WN & WT & WS).
  pose proof (build_size e c p bs WF E) as SZ.
  pose proof (next_protocol_fields e c p bs WF E) as (LKF & VLF & _).
  pose proof (net_back e c p bs WF E PA) as NB.
  destruct (net_et_plain (c_net c)) as (NV & NM & NS).
  unfold expected_x. cbv zeta. rewrite <- SZ.
  unfold wire_entry, exp_link, exp_exts, off_vlan in *.
  assert (FS : len bs = link_len c + vlan_len c + (net_len c + transport_len c + len p))
    by (rewrite SZ; unfold final_size; clear; lia).
  unfold off_net in NB. unfold link_len, vlan_len in *. unfold shape_ok in WS.
  destruct (c_link c) as [|s d|pt vl a] eqn:EL.
  - (* no link layer: the packet starts with the IP header *)
    destruct (c_vlan c); try discriminate.
    unfold wire_from_ip, n_bs, empty_packet.
    destruct (NB (mkVPacket None [] None None) LsSlice) as (_ & NB2).
    destruct (c_net c) eqn:EN; try discriminate; change (0 + 0) with 0 in NB2; rewrite NB2; apply f_equal;
      rewrite net_done_expected, EN; reflexivity.
  - (* Ethernet II *)
    unfold wire_ethernet, n_bs. replace (len bs <? 14) with false by (symmetry; apply N.ltb_ge; clear - FS; lia).
    rewrite LKF. unfold link_announces.
    destruct (c_vlan c) as [|v|o i] eqn:EV.
    + rewrite (wire_ether_net bs 3 _ _ LsSlice 14 (len bs) NV NM).
      destruct (NB (mkVPacket (Some (VEthernet2 (0, len bs))) [] None None) LsSlice) as (NB1 & _).
      change (14 + 0) with 14 in NB1. rewrite NB1. apply f_equal. apply net_done_expected.
    + rewrite (wire_ether_vlan bs 2 _ 33024 LsSlice 14 (len bs) eq_refl) by (clear - FS; lia).
      change (14 + 2) with 16 in *. rewrite VLF.
      rewrite (wire_ether_net bs 2 _ _ LsSlice (14 + 4) (len bs) NV NM).
      destruct (NB (with_ext (mkVPacket (Some (VEthernet2 (0, len bs))) [] None None) (VVlan (14, len bs - 14)))
                   LsSlice) as (NB1 & _).
      rewrite NB1. apply f_equal. unfold with_ext. cbn [v_link v_exts v_net v_transport app].
      apply net_done_expected.
    + destruct VLF as (VL1 & VL2).
      rewrite (wire_ether_vlan bs 2 _ 34984 LsSlice 14 (len bs) eq_refl) by (clear - FS; lia).
      change (14 + 2) with 16 in *. rewrite VL1.
      rewrite (wire_ether_vlan bs 1 _ 33024 LsSlice (14 + 4) (len bs) eq_refl) by (clear - FS; lia).
      change (14 + 4 + 2) with 20. change (14 + 6) with 20 in VL2. rewrite VL2.
      rewrite (wire_ether_net bs 1 _ _ LsSlice (14 + 4 + 4) (len bs) NV NM).
      destruct (NB (with_ext (with_ext (mkVPacket (Some (VEthernet2 (0, len bs))) [] None None)
                                       (VVlan (14, len bs - 14))) (VVlan (14 + 4, len bs - (14 + 4))))
                   LsSlice) as (NB1 & _).
      change (14 + 4 * 2) with (14 + 4 + 4) in NB1.
      rewrite NB1. apply f_equal. unfold with_ext. cbn [v_link v_exts v_net v_transport app].
      apply net_done_expected.
  - (* Linux cooked capture *)
    destruct LKF as (W0 & W2 & W14 & EV). rewrite EV in *.
    cbn [link_wf] in WL. bsplit WL.
    unfold wire_linux_sll, n_bs. replace (len bs <? 16) with false by (symmetry; apply N.ltb_ge; clear - FS; lia).
    rewrite W0, W2, W14.
    replace (7 <? pt) with false
      by (symmetry; apply N.ltb_ge; match goal with H : pt < 8 |- _ => clear - H; lia end).
    change (sll_hw_supported 1) with true. change (1 =? 1) with true. rewrite NS. cbn [negb andb].
    rewrite (wire_ether_net bs 3 _ _ LsSlice 16 (len bs) NV NM).
    destruct (NB (mkVPacket (Some (VLinuxSll (0, 16) (0, len bs))) [] None None) LsSlice) as (NB1 & _).
    change (16 + 0) with 16 in NB1. rewrite NB1. apply f_equal. apply net_done_expected.
Qed.

(* without extension headers the view is the one of Builder/Spec.v *)
Lemma expected_x_no_exts c plen : no_exts c = true -> expected_x c plen = expected c plen.
Proof.
  unfold no_exts, expected_x, expected, exp_net_x, exp_net, is_fragmented_x, is_fragmented, first_ext_number,
    ext_layout, off_exts, ip_header_len. cbv zeta.
  destruct (c_net c) as [h x|h x|a]; intros NE; try reflexivity.
  - destruct (XM.auth4 x); [discriminate|reflexivity].
  - destruct x as [[hh|] [d|] [r|] [fr|] [a|]]; try discriminate. reflexivity.
Qed.

Corollary parse_back_no_exts e c p bs : cfg_wf c = true -> parse_pre c (len p) = true ->
  build e c p = BOk bs -> wire_entry c bs = VOk (expected c (len p)).
Proof.
  intros WF PP E. unfold parse_pre in PP. apply andb_true_iff in PP. destruct PP as [NE PA].
  rewrite <- (expected_x_no_exts c (len p) NE). apply (parse_back e c p bs WF PA E).
Qed.

(* the packet of a builder without link layer, handed to the ether-type entry point *)
Theorem parse_back_ether_type e c p bs : cfg_wf c = true -> payload_admitted c (len p) = true ->
  build e c p = BOk bs -> c_link c = LkNone ->
  let x := expected_x c (len p) in
  wire_ether_type bs (net_ether_type (c_net c))
  = VOk (mkVPacket (Some (VEtherPayload (mkVEp (net_ether_type (c_net c)) LsSlice (0, len bs))))
                   (v_exts x) (v_net x) (v_transport x)).
Proof.
  intros WF PA E EL. cbv zeta. destruct (cfg_wf_inv c WF) as (WL & WV & WN & WT & WS).
  pose proof (build_size e c p bs WF E) as SZ.
  pose proof (net_back e c p bs WF E PA) as NB.
  destruct (net_et_plain (c_net c)) as (NV & NM & NS).
  unfold shape_ok in WS. rewrite EL in WS.
  assert (EV : c_vlan c = VlNone) by (destruct (c_vlan c); [reflexivity|discriminate..]).
  unfold wire_ether_type, n_bs. rewrite (wire_ether_net bs 3 _ _ LsSlice 0 (len bs) NV NM).
  destruct (NB (mkVPacket (Some (VEtherPayload (mkVEp (net_ether_type (c_net c)) LsSlice (0, len bs)))) [] None None)
               LsSlice) as (NB1 & _).
  unfold off_net, link_len, vlan_len in NB1. rewrite EL, EV in NB1. change (0 + 0) with 0 in NB1.
  rewrite NB1. apply f_equal. rewrite net_done_expected.
  unfold expected_x. cbv zeta. cbn [v_exts v_net v_transport]. rewrite <- SZ.
  unfold exp_exts. rewrite EV. reflexivity.
Qed.
