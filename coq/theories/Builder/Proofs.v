(* Builder/Proofs.v -- property C10, part 1: the shape of a successful build, no
   panic, size(), and the characterisation of the error outcomes.
   Composes C08 (Roundtrip: Ipv4Header / TcpHeader to_bytes), C09 (Checksum) and
   C12 (ExtChain: set_next_headers / write). *)
From EP Require Import Base.Bytes Checksum.Spec Checksum.Model Checksum.Proofs.
From EP Require Import Roundtrip.Common Roundtrip.CommonProofs.
From EP Require Roundtrip.Tcp Roundtrip.TcpProofs Roundtrip.Ipv4 Roundtrip.Ipv4Proofs.
From EP Require CtlMsg.Spec Roundtrip.Icmp4 Roundtrip.Icmp4Proofs Roundtrip.Icmp6 Roundtrip.Icmp6Proofs.
From EP Require Checksum.ProtoTypes Checksum.Proto.
From EP Require ExtChain.Spec ExtChain.Model ExtChain.Proofs BitFields.Model.
From EP Require Import Builder.Model Builder.Spec.
From Coq Require Import ZArith Lia ZifyN ZifyBool.
Local Open Scope N_scope.

Module XM := EP.ExtChain.Model.
Module XP := EP.ExtChain.Proofs.

Ltac dmlia := zify; Z.div_mod_to_equations; lia.

(* ------------------------------------------------------------------ small facts *)
Lemma as_u16_lt v : as_u16 v < 65536.
Proof. unfold as_u16. apply N.mod_lt. lia. Qed.
Lemma as_u16_small v : v < 65536 -> as_u16 v = v.
Proof. unfold as_u16. intros H. apply N.mod_small. exact H. Qed.
Lemma as_u32_small v : v < 4294967296 -> as_u32 v = v.
Proof. unfold as_u32. intros H. apply N.mod_small. exact H. Qed.

Lemma checksum64_le e ps : checksum64 e ps <= 65535.
Proof.
  unfold checksum64.
  assert (H : U64.ones_complement (sum_pieces64 e 0 ps) <= 65535) by (unfold U64.ones_complement; lia).
  destruct (to_be_spec e _ H) as (_ & T & _). exact T.
Qed.
Lemma checksum64_no_zero_le e ps : checksum64_no_zero e ps <= 65535.
Proof.
  unfold checksum64_no_zero, U64.ones_complement_with_no_zero.
  set (v := U64.ones_complement _).
  assert (H : v <= 65535) by (subst v; unfold U64.ones_complement; lia).
  destruct (v =? 0).
  - rewrite to_be_ffff. lia.
  - destruct (to_be_spec e _ H) as (_ & T & _). exact T.
Qed.

Lemma len_u16 v : len (u16_to_be v) = 2. Proof. reflexivity. Qed.

Lemma len6_of (l : bytes) n : (len l =? n) = true -> len l = n.
Proof. apply N.eqb_eq. Qed.

(* ------------------------------------------------------------------ IPv4 header *)
Import Roundtrip.Ipv4 Roundtrip.Ipv4Proofs.

Lemma wf_set_len_proto h tl p : wf_ip4 h = true -> tl < 65536 -> p < 256 ->
  wf_ip4 (ip4_set_len_proto h tl p) = true.
Proof.
  unfold wf_ip4. cbn [ip4_set_len_proto i4_dscp i4_ecn i4_total_len i4_identification i4_fragment_offset
      i4_time_to_live i4_protocol i4_header_checksum i4_source i4_destination i4_options].
  intros W H1 H2. apply N.ltb_lt in H1, H2. rewrite H1, H2.
  rewrite !andb_true_iff in W. rewrite !andb_true_iff. intuition.
Qed.

Lemma ip4_calc_checksum_some e h : wf_ip4 h = true ->
  exists ck, ip4_calc_checksum e h = Some ck /\ ck < 65536.
Proof.
  intros W. destruct (wf_ip4_facts h W) as (_ & _ & (LS & OS & LD & OD) & WO).
  destruct (len4_explicit _ LS OS) as (s0 & s1 & s2 & s3 & ES & _).
  destruct (len4_explicit _ LD OD) as (d0 & d1 & d2 & d3 & ED & _).
  unfold ip4_calc_checksum. rewrite ES, ED, (i4o_as_slice_wf _ WO).
  eexists. split; [reflexivity|].
  eapply N.le_lt_trans; [apply checksum64_le|lia].
Qed.

(* ------------------------------------------------------------------ extension headers *)
Lemma snh4_facts x n : XM.exts4_valid x = true -> n < 256 ->
  XM.exts4_valid (fst (XM.set_next_headers4 x n)) = true /\
  snd (XM.set_next_headers4 x n) < 256 /\
  XM.header_len4 (fst (XM.set_next_headers4 x n)) = XM.header_len4 x.
Proof.
  intros V Hn. destruct x as [[a|]]; cbn in *.
  - split; [|split; [unfold XM.AUTH; lia|reflexivity]].
    unfold XM.exts4_valid, XM.auth_valid in *. cbn in *.
    apply N.ltb_lt in Hn. rewrite Hn. rewrite !andb_true_iff in V. rewrite !andb_true_iff. intuition.
  - split; [reflexivity|split; [exact Hn|reflexivity]].
Qed.

Lemma raw_set_valid h n : XM.raw_valid h = true -> n < 256 -> XM.raw_valid (XM.raw_set_next_header h n) = true.
Proof.
  unfold XM.raw_valid, XM.raw_set_next_header. cbn. intros V Hn. apply N.ltb_lt in Hn. rewrite Hn.
  rewrite !andb_true_iff in V. rewrite !andb_true_iff. intuition.
Qed.
Lemma frag_set_valid h n : XM.frag_valid h = true -> n < 256 -> XM.frag_valid (XM.frag_set_next_header h n) = true.
Proof.
  unfold XM.frag_valid, XM.frag_set_next_header. cbn. intros V Hn. apply N.ltb_lt in Hn. rewrite Hn.
  rewrite !andb_true_iff in V. rewrite !andb_true_iff. intuition.
Qed.
Lemma auth_set_valid h n : XM.auth_valid h = true -> n < 256 -> XM.auth_valid (XM.auth_set_next_header h n) = true.
Proof.
  unfold XM.auth_valid, XM.auth_set_next_header. cbn. intros V Hn. apply N.ltb_lt in Hn. rewrite Hn.
  rewrite !andb_true_iff in V. rewrite !andb_true_iff. intuition.
Qed.

Lemma snh6_facts x n : XM.exts6_valid x = true -> n < 256 ->
  XM.exts6_valid (fst (XM.set_next_headers x n)) = true /\
  snd (XM.set_next_headers x n) < 256 /\
  XM.header_len (fst (XM.set_next_headers x n)) = XM.header_len x.
Proof.
  intros V Hn. apply XP.exts6_valid_inv in V. destruct V as (Vh & Vd & Vr & Vf & Va).
  assert (K : forall m, m = n \/ m = XM.IPV6_DEST_OPTIONS \/ m = XM.AUTH \/ m = XM.IPV6_FRAG
                        \/ m = XM.IPV6_ROUTE \/ m = XM.IPV6_HOP_BY_HOP -> m < 256).
  { intros m [E|[E|[E|[E|[E|E]]]]]; subst m; try exact Hn; vm_compute; reflexivity. }
  destruct x as [[h|] [d|] [[rt [fd|]]|] [fr|] [a|]];
    cbn [XM.opt_valid XM.hop_by_hop_options XM.destination_options XM.routing XM.fragment XM.auth] in Vh, Vd, Vr, Vf, Va;
    try (apply XP.routing_valid_inv in Vr; destruct Vr as [Vrt Vfd];
         cbn [XM.opt_valid XM.rt_routing XM.rt_final_destination_options] in Vrt, Vfd);
    unfold XM.set_next_headers; cbn;
    (split; [|split; [apply K; tauto|reflexivity]]);
    unfold XM.exts6_valid, XM.routing_valid; cbn;
    rewrite ?raw_set_valid, ?frag_set_valid, ?auth_set_valid by (try assumption; apply K; tauto);
    reflexivity.
Qed.

(* ------------------------------------------------------------------ transport headers *)
Lemma tr_ip_number_lt t : tr_wf t = true -> tr_ip_number t < 256.
Proof. destruct t; cbn; intros W; lia. Qed.

Lemma wf_tcp_set_checksum t ck : Tcp.wf_tcp t = true -> ck < 65536 ->
  Tcp.wf_tcp (tcp_set_checksum t ck) = true.
Proof.
  unfold Tcp.wf_tcp, tcp_set_checksum. cbn. intros W H. apply N.ltb_lt in H. rewrite H.
  rewrite !andb_true_iff in W. rewrite !andb_true_iff. intuition.
Qed.

Lemma tcp_finish_ok t ck : Tcp.wf_tcp t = true -> ck <= 65535 ->
  tcp_finish t ck =
    TOk (Tcp.fixed_bytes (tcp_set_checksum t ck)
         ++ take (Tcp.o_len (Tcp.options t)) (Tcp.o_buf (Tcp.options t))).
Proof.
  intros W H. unfold tcp_finish.
  rewrite (TcpProofs.to_bytes_wf (tcp_set_checksum t ck)) by (apply wf_tcp_set_checksum; [assumption|lia]).
  reflexivity.
Qed.

Lemma tcp_header_len_le t : Tcp.wf_tcp t = true -> Tcp.header_len t <= 60.
Proof.
  intros W. destruct (TcpProofs.wf_tcp_facts t W) as (_ & _ & _ & _ & _ & _ & _ & WO).
  destruct (TcpProofs.opt_wf_facts _ WO) as (OL & _). unfold Tcp.header_len. lia.
Qed.

(* ICMP: header lengths and serialisation, from the C08 models *)
Lemma icmp4_hl_cases t : Icmp4.icmp4_type_header_len t = 8 \/ Icmp4.icmp4_type_header_len t = 20.
Proof. destruct t; cbn [Icmp4.icmp4_type_header_len]; auto. Qed.
Lemma icmp4_hl_bounds t : 8 <= Icmp4.icmp4_type_header_len t /\ Icmp4.icmp4_type_header_len t <= 20.
Proof. destruct (icmp4_hl_cases t) as [-> | ->]; lia. Qed.
Lemma icmp6_hl t : Icmp6.icmp6_type_header_len t = 8.
Proof. destruct t; reflexivity. Qed.

Lemma icmp4_emit_ok e t p : exists b, icmp4_emit e t p = Some b /\ len b = Icmp4.icmp4_type_header_len t.
Proof.
  unfold icmp4_emit.
  destruct (Icmp4Proofs.icmp4_ser_agree
              {| Icmp4.icmp4_type := t;
                 Icmp4.icmp4_checksum := Checksum.Proto.icmp4_calc_checksum e (c09_icmp4 t) p |} [])
    as (b & E & _ & L).
  exists b. split; [exact E|exact L].
Qed.
Lemma icmp6_to_bytes_ok t ck :
  exists b, Icmp6.icmp6_to_bytes {| Icmp6.icmp6_type := t; Icmp6.icmp6_checksum := ck |} = Some b /\ len b = 8.
Proof.
  destruct (Icmp6Proofs.icmp6_ser_agree {| Icmp6.icmp6_type := t; Icmp6.icmp6_checksum := ck |} [])
    as (b & E & _ & L).
  exists b. split; [exact E|]. rewrite L. unfold Icmp6.icmp6_header_len. cbn [Icmp6.icmp6_type]. apply icmp6_hl.
Qed.
Lemma icmp6_ck_ok e t s d p : len p <= 4294967287 ->
  exists ck, Checksum.Proto.icmp6_calc_checksum e (c09_icmp6 t) s d p = ProtoTypes.COk ck /\ ck <= 65535.
Proof.
  intros L. unfold Checksum.Proto.icmp6_calc_checksum, Checksum.Proto.icmp6_header_len.
  change (Checksum.Proto.U32MAX - 8) with 4294967287.
  replace (4294967287 <? len p) with false by (symmetry; apply N.ltb_ge; exact L).
  eexists. split; [reflexivity|]. apply checksum64_le.
Qed.

(* bring the header-length facts of every ICMP type variable in the context into reach of lia *)
Ltac icmp_hl :=
  repeat match goal with
  | k : CtlMsg.Spec.Icmpv4Type |- _ =>
      lazymatch goal with
      | _ : 8 <= Icmp4.icmp4_type_header_len k /\ _ |- _ => fail
      | _ => pose proof (icmp4_hl_bounds k)
      end
  end;
  repeat match goal with
  | k : CtlMsg.Spec.Icmpv6Type |- _ => rewrite (icmp6_hl k) in *
  end.

Lemma tr_header_len_le t : tr_wf t = true -> tr_header_len t <= 60.
Proof.
  destruct t as [n|sp dp|h|k|k]; cbn [tr_header_len tr_wf]; intros W; try lia.
  - apply tcp_header_len_le. exact W.
  - icmp_hl. lia.
  - icmp_hl. lia.
Qed.

Definition is_icmpv6 (t : transport_cfg) : bool := match t with TrIcmpv6 _ => true | _ => false end.

Lemma tr_ipv4_ok e s0 s1 s2 s3 d0 d1 d2 d3 t ul p :
  tr_wf t = true -> is_icmpv6 t = false -> tr_header_len t + len p <= 65515 ->
  exists tb, tr_ipv4 e [s0; s1; s2; s3] [d0; d1; d2; d3] t ul p = TOk tb /\ len tb = tr_header_len t.
Proof.
  intros W NI F. destruct t as [n|sp dp|h|k|k]; cbn [tr_ipv4 tr_header_len] in *; try discriminate.
  - eexists; split; reflexivity.
  - replace (65527 <? len p) with false by (symmetry; apply N.ltb_ge; lia).
    cbn [p4_of]. eexists; split; reflexivity.
  - pose proof (tcp_header_len_le h W) as HL.
    replace (65535 <? Tcp.header_len h) with false by (symmetry; apply N.ltb_ge; lia).
    replace (65535 - Tcp.header_len h <? len p) with false by (symmetry; apply N.ltb_ge; lia).
    cbn [p4_of]. rewrite (TcpProofs.as_slice_wf h W).
    rewrite tcp_finish_ok by (try assumption; apply checksum64_le).
    eexists; split; [reflexivity|].
    rewrite len_app, TcpProofs.len_fixed, (TcpProofs.len_take_opts h W). reflexivity.
  - destruct (icmp4_emit_ok e k p) as (b & E & L). rewrite E. eexists; split; [reflexivity|exact L].
Qed.

Lemma p16_of_len l : len l = 16 -> p16_of l = Some (P16 l).
Proof. intros H. unfold p16_of. rewrite H. reflexivity. Qed.

Lemma tr_ipv6_ok e s d t ul p :
  len s = 16 -> len d = 16 ->
  tr_wf t = true -> tr_header_len t + len p <= 65535 ->
  exists tb, tr_ipv6 e s d t ul p = TOk tb /\ len tb = tr_header_len t.
Proof.
  intros LS LD W F. destruct t as [n|sp dp|h|k|k]; cbn [tr_ipv6 tr_header_len] in *.
  - eexists; split; reflexivity.
  - replace (4294967287 <? len p) with false by (symmetry; apply N.ltb_ge; lia).
    rewrite !p16_of_len by assumption. eexists; split; reflexivity.
  - pose proof (tcp_header_len_le h W) as HL.
    replace (4294967295 <? Tcp.header_len h) with false by (symmetry; apply N.ltb_ge; lia).
    replace (4294967295 - Tcp.header_len h <? len p) with false by (symmetry; apply N.ltb_ge; lia).
    rewrite !p16_of_len by assumption. rewrite (TcpProofs.as_slice_wf h W).
    rewrite tcp_finish_ok by (try assumption; apply checksum64_le).
    eexists; split; [reflexivity|].
    rewrite len_app, TcpProofs.len_fixed, (TcpProofs.len_take_opts h W). reflexivity.
  - destruct (icmp4_emit_ok e k p) as (b & E & L). rewrite E. eexists; split; [reflexivity|exact L].
  - rewrite (icmp6_hl k) in *. rewrite !p16_of_len by assumption.
    destruct (icmp6_ck_ok e k s d p) as (ck & EC & _); [lia|]. rewrite EC.
    destruct (icmp6_to_bytes_ok k ck) as (b & E & L).
    rewrite E. eexists; split; [reflexivity|exact L].
Qed.

(* ------------------------------------------------------------------ net part *)
Definition v4_value (x : XM.Exts4) (t : transport_cfg) (plen : N) : N :=
  XM.header_len4 x + tr_header_len t + plen.
Definition v4_max (h : Ipv4Header) : N := 65535 - 20 - i4o_len (i4_options h).
Definition v6_size (x : XM.Exts6) (t : transport_cfg) (plen : N) : N :=
  XM.header_len x + tr_header_len t + plen.

Lemma i4o_len_le h : wf_ip4 h = true -> i4o_len (i4_options h) <= 40.
Proof.
  intros W. destruct (wf_ip4_facts h W) as (_ & _ & _ & WO).
  destruct (wf_i4o_facts _ WO) as (OL & _). exact OL.
Qed.

Lemma ipv4_part_too_big e h x t p : wf_ip4 h = true -> v4_max h < v4_value x t (len p) ->
  ipv4_part e h x t p = (VdErr (EPayloadLen (v4_value x t (len p)) (v4_max h) VtIpv4PayloadLength), [], []).
Proof.
  intros W F. pose proof (i4o_len_le h W) as OL. unfold ipv4_part, v4_value, v4_max in *.
  replace (65515 <? i4o_len (i4_options h)) with false by (symmetry; apply N.ltb_ge; lia).
  replace (65535 - i4o_len (i4_options h) - 20) with (65535 - 20 - i4o_len (i4_options h)) by lia.
  apply N.ltb_lt in F. rewrite F. reflexivity.
Qed.

(* the header that is serialised *)
Definition v4_final (e : endian) (h : Ipv4Header) (x : XM.Exts4) (t : transport_cfg) (plen : N)
  : Ipv4Header :=
  let h1 := ip4_set_len_proto h (as_u16 (ip4_header_len h + v4_value x t plen))
                              (snd (XM.set_next_headers4 x (tr_ip_number t))) in
  match ip4_calc_checksum e h1 with
  | Some ck => ip4_set_checksum h1 ck
  | None => h1
  end.

Lemma v4_final_wf e h x t plen : wf_ip4 h = true -> XM.exts4_valid x = true -> tr_wf t = true ->
  wf_ip4 (v4_final e h x t plen) = true /\
  exists ck, ip4_calc_checksum e (ip4_set_len_proto h (as_u16 (ip4_header_len h + v4_value x t plen))
                                    (snd (XM.set_next_headers4 x (tr_ip_number t)))) = Some ck /\ ck < 65536.
Proof.
  intros W V T. destruct (snh4_facts x _ V (tr_ip_number_lt t T)) as (_ & P & _).
  pose proof (wf_set_len_proto h _ _ W (as_u16_lt (ip4_header_len h + v4_value x t plen)) P) as W1.
  destruct (ip4_calc_checksum_some e _ W1) as (ck & E & L).
  unfold v4_final. cbv zeta. rewrite E. split; [apply wf_set_checksum; [exact W1|exact L]|].
  exists ck. split; [reflexivity|exact L].
Qed.

Lemma ipv4_part_fits e h x t p : wf_ip4 h = true -> XM.exts4_valid x = true -> tr_wf t = true ->
  v4_value x t (len p) <= v4_max h ->
  exists hb xb, ip4_to_bytes (v4_final e h x t (len p)) = Some hb /\ len hb = ip4_header_len h /\
    XM.write4 (fst (XM.set_next_headers4 x (tr_ip_number t))) (snd (XM.set_next_headers4 x (tr_ip_number t)))
      = (xb, XM.Ok tt) /\ len xb = XM.header_len4 x /\
    ipv4_part e h x t p =
      match tr_ipv4 e (i4_source h) (i4_destination h) t (as_u16 (8 + len p)) p with
      | TOk tb => (VdOk, hb ++ xb, tb)
      | TErr er => (VdErr er, hb ++ xb, [])
      | TPanic s => (VdPanic s, hb ++ xb, [])
      end.
Proof.
  intros W V T F. pose proof (i4o_len_le h W) as OL.
  destruct (v4_final_wf e h x t (len p) W V T) as (WF & ck & ECK & LCK).
  destruct (ip4_ser_agree (v4_final e h x t (len p)) [] WF) as (hb & EB & _ & LB).
  destruct (snh4_facts x _ V (tr_ip_number_lt t T)) as (V1 & P & HL).
  pose proof (XP.link_write_order4 x (tr_ip_number t) V) as WO.
  eexists hb, _.
  split; [exact EB|]. split.
  { rewrite LB. unfold v4_final. rewrite ECK. reflexivity. }
  split; [exact WO|]. split.
  { rewrite <- HL. eapply XP.write4_len; [exact V1|exact WO]. }
  unfold ipv4_part. unfold v4_value, v4_max in *.
  replace (65515 <? i4o_len (i4_options h)) with false by (symmetry; apply N.ltb_ge; lia).
  replace (65535 - i4o_len (i4_options h) - 20 <? XM.header_len4 x + tr_header_len t + len p)
    with false by (symmetry; apply N.ltb_ge; lia).
  cbv zeta. rewrite ECK.
  unfold v4_final, v4_value in EB. rewrite ECK in EB. rewrite EB. rewrite WO. reflexivity.
Qed.

Lemma ipv6_part_too_big e h x t p : 65535 < v6_size x t (len p) ->
  ipv6_part e h x t p = (VdErr (EPayloadLen (v6_size x t (len p)) 65535 VtIpv6PayloadLength), [], []).
Proof.
  intros F. unfold ipv6_part, v6_size in *. apply N.ltb_lt in F. rewrite F. reflexivity.
Qed.

Definition v6_final (h : BitFields.Model.Ipv6Header) (x : XM.Exts6) (t : transport_cfg) (plen : N) :=
  ip6_set_len_next h (as_u16 (v6_size x t plen)) (snd (XM.set_next_headers x (tr_ip_number t))).

Lemma ipv6_part_fits e h x t p : XM.exts6_valid x = true -> tr_wf t = true ->
  v6_size x t (len p) <= 65535 ->
  let s := XM.set_next_headers x (tr_ip_number t) in
  let hb := BitFields.Model.Ipv6Header_to_bytes (v6_final h x t (len p)) in
  match XM.next_header (fst s) (snd s) with
  | XM.Ok _ =>
      exists xb, XM.write (fst s) (snd s) = (xb, XM.Ok tt) /\ len xb = XM.header_len x /\
        ipv6_part e h x t p =
          match tr_ipv6 e (BitFields.Model.v6_source h) (BitFields.Model.v6_destination h) t
                        (as_u16 (8 + len p)) p with
          | TOk tb => (VdOk, hb ++ xb, tb)
          | TErr er => (VdErr er, hb ++ xb, [])
          | TPanic s => (VdPanic s, hb ++ xb, [])
          end
  | XM.Err w => exists xb, ipv6_part e h x t p = (VdErr (EIpv6Exts w), hb ++ xb, [])
  | _ => False
  end.
Proof.
  intros V T F s hb.
  destruct (snh6_facts x _ V (tr_ip_number_lt t T)) as (V1 & P & HL).
  pose proof (XP.write_iff_walk (fst s) (snd s) V1) as WW.
  unfold ipv6_part. unfold v6_size in F.
  replace (65535 <? XM.header_len x + tr_header_len t + len p) with false by (symmetry; apply N.ltb_ge; lia).
  cbv zeta. fold s. fold (v6_size x t (len p)). fold (v6_final h x t (len p)). fold hb.
  destruct (XM.write (fst s) (snd s)) as [xb r] eqn:EW. cbn [snd] in WW.
  destruct (XM.next_header (fst s) (snd s)) as [n|w| |]; try contradiction.
  - subst r. exists xb. split; [reflexivity|]. split.
    + rewrite <- HL. eapply XP.write_len; [exact V1|exact EW].
    + reflexivity.
  - subst r. exists xb. reflexivity.
Qed.

(* ------------------------------------------------------------------ whole packet *)
Lemma link_bytes_len c : link_wf (c_link c) = true -> len (link_bytes c) = link_len c.
Proof.
  unfold link_bytes, link_len. destruct (c_link c) as [|s d|pt vl a]; cbn [link_wf]; intros W.
  - reflexivity.
  - bsplit W. unfold eth_to_bytes. rewrite !len_app.
    repeat match goal with H : len _ = 6 |- _ => rewrite H; clear H end. reflexivity.
  - bsplit W. unfold sll_to_bytes. rewrite !len_app.
    repeat match goal with H : len _ = 8 |- _ => rewrite H; clear H end. reflexivity.
Qed.
Lemma vlan_bytes_len c : len (vlan_bytes c) = vlan_len c.
Proof. unfold vlan_bytes, vlan_len. destruct (c_vlan c); reflexivity. Qed.

Lemma arp_bytes_len a : arp_wf a = true -> len (arp_to_bytes a) = arp_packet_len a.
Proof.
  unfold arp_wf, arp_to_bytes, arp_packet_len. intros W. bsplit W.
  rewrite !len_app. cbn [len]. 
  repeat match goal with H : len _ = len _ |- _ => rewrite <- H; clear H end.
  change (len (u16_to_be (arp_hw_addr_type a))) with 2.
  change (len (u16_to_be (arp_proto_addr_type a))) with 2.
  change (len (u16_to_be (arp_operation a))) with 2.
  change (len [len (arp_sender_hw a); len (arp_sender_proto a)]) with 2. lia.
Qed.

Lemma cfg_wf_inv c : cfg_wf c = true ->
  link_wf (c_link c) = true /\ vlan_wf (c_vlan c) = true /\ net_wf (c_net c) = true /\
  tr_wf (c_transport c) = true /\ shape_ok c = true.
Proof. unfold cfg_wf. rewrite !andb_true_iff. tauto. Qed.

Lemma build_of_run e c p v bs : build_run e c p = (v, bs) ->
  build e c p = match v with VdOk => BOk bs | VdErr er => BErr er | VdPanic s => BPanic s end.
Proof. unfold build. intros E. rewrite E. reflexivity. Qed.

Theorem build_outcome e c p : cfg_wf c = true ->
  match spec_outcome c (len p) with
  | OOk => exists bs, build e c p = BOk bs /\ len bs = final_size c (len p)
  | OErr er => build e c p = BErr er
  end.
Proof.
  intros W. destruct (cfg_wf_inv c W) as (WL & WV & WN & WT & WS).
  pose proof (link_bytes_len c WL) as LL. pose proof (vlan_bytes_len c) as LV.
  unfold spec_outcome, build, build_run, final_size, net_len, transport_len.
  destruct (c_net c) as [h x|h x|a] eqn:EN; cbn [net_wf] in WN.
  - (* IPv4 *)
    apply andb_true_iff in WN. destruct WN as [WH WX].
    fold (v4_value x (c_transport c) (len p)). fold (v4_max h).
    destruct (v4_max h <? v4_value x (c_transport c) (len p)) eqn:EF.
    + apply N.ltb_lt in EF. rewrite (ipv4_part_too_big e h x _ p WH EF). reflexivity.
    + apply N.ltb_ge in EF.
      destruct (ipv4_part_fits e h x (c_transport c) p WH WX WT EF) as (hb & xb & _ & LH & _ & LX & EP).
      rewrite EP. clear EP.
      destruct (wf_ip4_facts h WH) as (_ & _ & (LS & OS & LD & OD) & _).
      destruct (len4_explicit _ LS OS) as (s0 & s1 & s2 & s3 & ES & _).
      destruct (len4_explicit _ LD OD) as (d0 & d1 & d2 & d3 & ED & _).
      rewrite ES, ED.
      destruct (is_icmpv6 (c_transport c)) eqn:EI.
      * destruct (c_transport c); try discriminate. reflexivity.
      * assert (B : tr_header_len (c_transport c) + len p <= 65515).
        { unfold v4_value, v4_max in EF. lia. }
        destruct (tr_ipv4_ok e s0 s1 s2 s3 d0 d1 d2 d3 (c_transport c) (as_u16 (8 + len p)) p WT EI B)
          as (tb & ET & LT).
        rewrite ET.
        replace (match c_transport c with TrIcmpv6 _ => OErr EIcmpv6InIpv4 | _ => OOk end) with OOk
          by (destruct (c_transport c); try reflexivity; discriminate).
        eexists. split; [reflexivity|]. rewrite !len_app, LL, LV, LH, LX, LT. lia.
  - (* IPv6 *)
    apply andb_true_iff in WN. destruct WN as [WH WX].
    fold (v6_size x (c_transport c) (len p)).
    destruct (65535 <? v6_size x (c_transport c) (len p)) eqn:EF.
    + apply N.ltb_lt in EF. rewrite (ipv6_part_too_big e h x _ p EF). reflexivity.
    + apply N.ltb_ge in EF.
      pose proof (ipv6_part_fits e h x (c_transport c) p WX WT EF) as PF. cbv zeta in PF.
      destruct (XM.next_header (fst (XM.set_next_headers x (tr_ip_number (c_transport c))))
                               (snd (XM.set_next_headers x (tr_ip_number (c_transport c))))) as [n|w| |];
        try contradiction.
      * destruct PF as (xb & _ & LX & EP). rewrite EP. clear EP.
        unfold ip6_wf in WH. bsplit WH.
        assert (B : tr_header_len (c_transport c) + len p <= 65535) by (unfold v6_size in EF; lia).
        match goal with
        | H1 : len (BitFields.Model.v6_source h) = 16, H2 : len (BitFields.Model.v6_destination h) = 16 |- _ =>
          destruct (tr_ipv6_ok e _ _ (c_transport c) (as_u16 (8 + len p)) p H1 H2 WT B) as (tb & ET & LT)
        end.
        rewrite ET. eexists. split; [reflexivity|].
        rewrite !len_app, LL, LV, LX, LT.
        assert (LB : len (BitFields.Model.Ipv6Header_to_bytes (v6_final h x (c_transport c) (len p))) = 40).
        { unfold BitFields.Model.Ipv6Header_to_bytes, v6_final, ip6_set_len_next. cbn [BitFields.Model.v6_source BitFields.Model.v6_destination].
          rewrite !len_app.
          repeat match goal with H : len _ = 16 |- _ => rewrite H; clear H end. reflexivity. }
        rewrite LB. lia.
      * destruct PF as (xb & EP). rewrite EP. reflexivity.
  - (* ARP *)
    eexists. split; [reflexivity|]. rewrite !len_app, LL, LV, (arp_bytes_len a WN). lia.
Qed.

(* ------------------------------------------------------------------ corollaries *)
Theorem build_size e c p bs : cfg_wf c = true -> build e c p = BOk bs -> len bs = final_size c (len p).
Proof.
  intros W E. pose proof (build_outcome e c p W) as O.
  destruct (spec_outcome c (len p)).
  - destruct O as (bs' & E' & L). rewrite E in E'. inversion E'. subst bs'. exact L.
  - rewrite E in O. discriminate.
Qed.

Theorem build_never_panics e c p s : cfg_wf c = true -> build e c p <> BPanic s.
Proof.
  intros W E. pose proof (build_outcome e c p W) as O.
  destruct (spec_outcome c (len p)).
  - destruct O as (bs' & E' & L). rewrite E in E'. discriminate.
  - rewrite E in O. discriminate.
Qed.

Theorem build_error_iff e c p er : cfg_wf c = true ->
  (build e c p = BErr er <-> spec_outcome c (len p) = OErr er).
Proof.
  intros W. pose proof (build_outcome e c p W) as O.
  destruct (spec_outcome c (len p)) as [|er'].
  - destruct O as (bs' & E' & L). rewrite E'. split; discriminate.
  - rewrite O. split; intros H; inversion H; reflexivity.
Qed.

(* the three kinds of unencodable configurations, and nothing else *)
Definition ip_payload_len (c : cfg) (plen : N) : N :=
  match c_net c with
  | NtIpv4 _ x => v4_value x (c_transport c) plen
  | NtIpv6 _ x => v6_size x (c_transport c) plen
  | NtArp _ => 0
  end.
Definition ip_payload_max (c : cfg) : N :=
  match c_net c with
  | NtIpv4 h _ => v4_max h
  | _ => 65535
  end.

Theorem errors_classified c plen er : cfg_wf c = true -> spec_outcome c plen = OErr er ->
  (exists vt, er = EPayloadLen (ip_payload_len c plen) (ip_payload_max c) vt /\
              ip_payload_max c < ip_payload_len c plen) \/
  (er = EIcmpv6InIpv4 /\ is_icmpv6 (c_transport c) = true /\ exists h x, c_net c = NtIpv4 h x) \/
  (exists w k, er = EIpv6Exts w /\ c_transport c = TrNone k /\ ExtChain.Spec.is_ext_number k = true).
Proof.
  intros W. unfold spec_outcome, ip_payload_len, ip_payload_max.
  destruct (c_net c) as [h x|h x|a] eqn:EN; try discriminate.
  - fold (v4_value x (c_transport c) plen). fold (v4_max h).
    destruct (v4_max h <? v4_value x (c_transport c) plen) eqn:EF.
    + intros H. inversion H. left. eexists. split; [reflexivity|]. apply N.ltb_lt. exact EF.
    + destruct (c_transport c) eqn:ET; try discriminate.
      intros H. inversion H. right. left. split; [reflexivity|]. split; [reflexivity|]. eauto.
  - fold (v6_size x (c_transport c) plen).
    destruct (65535 <? v6_size x (c_transport c) plen) eqn:EF.
    + intros H. inversion H. left. eexists. split; [reflexivity|]. apply N.ltb_lt. exact EF.
    + destruct (ExtChain.Spec.is_ext_number (tr_ip_number (c_transport c))) eqn:EX.
      * destruct (c_transport c) as [k| | | |] eqn:ET; try (vm_compute in EX; discriminate).
        destruct (XM.next_header _ _) as [n|w| |]; try discriminate.
        intros H. inversion H. right. right. exists w, k. split; [reflexivity|]. split; [reflexivity|exact EX].
      * rewrite (XP.link_walks x _ EX). discriminate.
Qed.

(* with a transport header the chain is always linked: no walk error *)
Theorem no_walk_error_with_transport c plen w : cfg_wf c = true ->
  (forall k, c_transport c <> TrNone k) -> spec_outcome c plen <> OErr (EIpv6Exts w) /\
  spec_outcome c plen <> OErr (EIpv4Exts w).
Proof.
  intros W NR. split; intros H.
  - destruct (errors_classified c plen _ W H) as [(vt & E & _)|[(E & _)|(w' & k & E & ET & _)]];
      try discriminate. exact (NR k ET).
  - destruct (errors_classified c plen _ W H) as [(vt & E & _)|[(E & _)|(w' & k & E & ET & _)]];
      discriminate.
Qed.
