(* Builder/ProofsEx.v -- property C10, part 8:
   (1) typed ICMP kinds: the crate's decoders (C08 models Icmpv4Header/Icmpv6Header
       ::from_slice / read) and the RFC-table decoders of C17 (CtlMsg/Spec.v) applied to the
       transport segment of a built packet return the CONFIGURED message type with all its
       fields, the stored checksum and exactly the payload -- for every Icmpv4Type /
       Icmpv6Type variant; the one payload-length side condition (ICMPv4 TimestampRequest /
       TimestampReply: the message is exactly 20 bytes, payload must be empty) is made
       explicit and its failure side is proved as well;
   (2) the cases `payload_admitted` excludes, as theorems: what the reference decoder DOES
       return there (link / VLAN / IP layers as configured, then its transport stage on the
       emitted bytes; the exact Len error for timestamp messages of the wrong size), and
       witnesses that the full parse-back equation fails there. *)
From EP Require Import Base.Bytes Checksum.Spec Checksum.Model Checksum.Proofs.
From EP Require Import Checksum.ProtoTypes Checksum.ProtoSpec.
From EP Require Import Roundtrip.Common Roundtrip.CommonProofs.
From EP Require Roundtrip.Spec Roundtrip.Tcp Roundtrip.TcpProofs Roundtrip.Ipv4 Roundtrip.Ipv4Proofs.
From EP Require CtlMsg.Spec CtlMsg.Model CtlMsg.Proofs.
From EP Require Roundtrip.Icmp4 Roundtrip.Icmp4Proofs Roundtrip.Icmp6 Roundtrip.Icmp6Proofs.
From EP Require ExtChain.Spec ExtChain.Model ExtChain.View ExtChain.Proofs BitFields.Model.
From EP Require Import Parse.Types Parse.View Parse.WireSpec.
From EP Require Import Builder.Model Builder.Spec Builder.Proofs Builder.ProofsCk Builder.SpecX Builder.ProofsTr
  Builder.ProofsNx Builder.ProofsWire Builder.ProofsPb.
From Coq Require Import ZArith Lia ZifyN ZifyBool.
Local Open Scope N_scope.

(* ================================================================== typed ICMP kinds: values *)
Lemma icmp4_segment e c p bs t : cfg_wf c = true -> build e c p = BOk bs ->
  c_transport c = TrIcmpv4 t -> (forall a, c_net c <> NtArp a) ->
  exists ck, ck < 65536 /\
    Icmp4.icmp4_to_bytes {| Icmp4.icmp4_type := t; Icmp4.icmp4_checksum := ck |}
      = Some (icmp4_wire (c09_icmp4 t) ck) /\
    drop (off_transport c) bs = icmp4_wire (c09_icmp4 t) ck ++ p.
Proof.
  intros WF E ET NA. destruct (cfg_wf_inv c WF) as (_ & _ & _ & WT & _).
  pose proof (transport_is_rfc_layout e c p bs WF E) as TL.
  rewrite ET in TL, WT. cbn [th_of icmp4_of option_map tr_wf] in TL, WT.
  destruct (icmp4_of_wf t WT) as (t' & _ & _ & -> & EW).
  destruct (c_net c) as [h x|h x|a]; [| |exfalso; exact (NA a eq_refl)];
    destruct TL as (ck & L & DR); exists ck; (split; [exact L|]); (split; [apply EW|exact DR]).
Qed.

Lemma icmp6_segment e c p bs t : cfg_wf c = true -> build e c p = BOk bs ->
  c_transport c = TrIcmpv6 t -> (forall a, c_net c <> NtArp a) ->
  exists ck, ck < 65536 /\
    Icmp6.icmp6_to_bytes {| Icmp6.icmp6_type := t; Icmp6.icmp6_checksum := ck |}
      = Some (icmp6_wire (c09_icmp6 t) ck) /\
    drop (off_transport c) bs = icmp6_wire (c09_icmp6 t) ck ++ p /\ 8 + len p <= 65535.
Proof.
  intros WF E ET NA. destruct (cfg_wf_inv c WF) as (_ & _ & _ & WT & _).
  pose proof (transport_is_rfc_layout e c p bs WF E) as TL.
  pose proof (seg_shape e c p bs WF E) as SH. cbv zeta in SH.
  rewrite ET in TL, WT, SH. cbn [th_of icmp6_of option_map tr_wf tr_header_len] in TL, WT, SH.
  rewrite (icmp6_hl t) in SH.
  destruct (icmp6_of_wf t WT) as (t' & _ & _ & -> & EW).
  destruct (c_net c) as [h x|h x|a]; [| |exfalso; exact (NA a eq_refl)];
    destruct TL as (ck & L & DR); destruct SH as (_ & _ & _ & _ & _ & BND & _);
    exists ck; (split; [exact L|]); (split; [apply EW|]); (split; [exact DR|]); clear - BND; lia.
Qed.

(* every ICMPv4 kind.  wf_icmp4_type (C08): the ranges of the Rust field types, and a raw
   Unknown{type, code} does not name a typed kind (icmpv4_raw(8, 0, ..) decodes as EchoRequest
   -- the typed reading of the same bytes, which is what CtlMsg.Spec.icmp4 says for ANY bytes).
   Side condition: header_len = 8 (every kind but the two timestamp kinds) or empty payload. *)
Theorem icmp4_value_back e c p bs t : cfg_wf c = true -> build e c p = BOk bs ->
  c_transport c = TrIcmpv4 t -> (forall a, c_net c <> NtArp a) ->
  Icmp4.wf_icmp4_type t = true ->
  exists ck, ck < 65536 /\
    let seg := drop (off_transport c) bs in
    let h := {| Icmp4.icmp4_type := t; Icmp4.icmp4_checksum := ck |} in
    Icmp4.icmp4_read seg = Roundtrip.Common.Ok (h, p) /\
    (Icmp4.icmp4_type_header_len t = 8 \/ p = [] ->
     Icmp4.icmp4_from_slice seg = Roundtrip.Common.Ok (h, p) /\
     CtlMsg.Spec.icmp4 seg = CtlMsg.Spec.Ok (t, Icmp4.icmp4_type_header_len t, p) /\
     CtlMsg.Model.Icmpv4Slice.view seg = CtlMsg.Spec.Ok (t, Icmp4.icmp4_type_header_len t, p)).
Proof.
  intros WF E ET NA WT.
  destruct (icmp4_segment e c p bs t WF E ET NA) as (ck & L & EB & DR).
  exists ck. split; [exact L|]. cbv zeta. rewrite DR.
  assert (WH : Icmp4.wf_icmp4 {| Icmp4.icmp4_type := t; Icmp4.icmp4_checksum := ck |} = true).
  { unfold Icmp4.wf_icmp4. cbn [Icmp4.icmp4_type Icmp4.icmp4_checksum]. rewrite WT.
    apply N.ltb_lt in L. rewrite L. reflexivity. }
  destruct (Icmp4Proofs.icmp4_dec_enc _ WH) as (e' & EB' & _ & _ & RD & FS).
  rewrite EB in EB'. injection EB' as <-.
  split; [apply RD|]. intros SC.
  specialize (FS p SC). split; [exact FS|].
  pose proof (Icmp4Proofs.icmp4_from_slice_spec _ _ _ FS) as SP.
  unfold Icmp4.icmp4_header_len in SP. cbn [Icmp4.icmp4_type] in SP.
  split; [exact SP|]. rewrite CtlMsg.Proofs.icmp4_eq. exact SP.
Qed.

(* the failure side of the side condition: a TimestampRequest / TimestampReply with a
   non-empty payload is a message of 20 + |payload| bytes with type 13 / 14 code 0 --
   the typed view refuses it (RFC 792: the message is exactly 20 octets) *)
Theorem icmp4_timestamp_payload_rejected e c p bs t : cfg_wf c = true -> build e c p = BOk bs ->
  c_transport c = TrIcmpv4 t -> (forall a, c_net c <> NtArp a) ->
  Icmp4.icmp4_type_header_len t = 20 -> p <> [] ->
  let seg := drop (off_transport c) bs in
  len seg = 20 + len p /\
  CtlMsg.Model.Icmpv4Slice.view seg =
    CtlMsg.Spec.ErrLen (CtlMsg.Spec.mkLenError 20 (20 + len p) CtlMsg.Spec.LsSlice
      (if fst (icmp4_tc t) =? 13 then CtlMsg.Spec.LIcmpv4Timestamp else CtlMsg.Spec.LIcmpv4TimestampReply) 0) /\
  Icmp4.icmp4_from_slice seg = Roundtrip.Common.Err Roundtrip.Common.ELen.
Proof.
  intros WF E ET NA HL NE. cbv zeta.
  destruct (icmp4_segment e c p bs t WF E ET NA) as (ck & L & EB & DR).
  rewrite DR.
  assert (LP : 0 < len p) by (destruct p; [contradiction|rewrite len_cons; lia]).
  destruct t as [ty cd b4 b5 b6 b7|id sq|d|rc g0 g1 g2 g3|id sq|tc|pp|m|m];
    cbn [Icmp4.icmp4_type_header_len] in HL; try discriminate HL.
  all: destruct m as [i s o r x];
    cbn [c09_icmp4 icmp4_wire icmp4_tc fst CtlMsg.Spec.ts_id CtlMsg.Spec.ts_seq CtlMsg.Spec.ts_originate
         CtlMsg.Spec.ts_receive CtlMsg.Spec.ts_transmit];
    unfold w16, w32, to_be16, to_be32; cbn [app];
    match goal with |- len ?l = _ /\ _ =>
      assert (LL : len l = 20 + len p) by (rewrite !len_cons; lia) end;
    (split; [exact LL|]);
    assert (N8 : (20 + len p <? 8) = false) by (apply N.ltb_ge; lia);
    assert (N20 : (20 + len p =? 20) = false) by (apply N.eqb_neq; lia).
  - split.
    + rewrite CtlMsg.Proofs.icmp4_eq. unfold CtlMsg.Spec.icmp4. rewrite LL, N8.
      change (CtlMsg.Spec.byte_at _ 0) with 13. change (CtlMsg.Spec.byte_at _ 1) with 0.
      change (CtlMsg.Spec.lookup 13 0 CtlMsg.Spec.icmp4_fixed_table)
        with (Some (20, CtlMsg.Spec.LIcmpv4Timestamp, CtlMsg.Spec.V4TimestampRequest)).
      cbv beta iota. rewrite N20. reflexivity.
    + unfold Icmp4.icmp4_from_slice.
      pose proof (CtlMsg.Proofs.icmp4_cases 13 0 ((ck / 256) mod 256) (ck mod 256)
                    ((i / 256) mod 256) (i mod 256) ((s / 256) mod 256) (s mod 256)) as C.
      match goal with |- context [CtlMsg.Model.Icmpv4Slice.from_slice (_ :: _ :: _ :: _ :: _ :: _ :: _ :: _ :: ?r)] =>
        specialize (C r) end.
      cbv zeta in C.
      change (CtlMsg.Spec.lookup 13 0 CtlMsg.Spec.icmp4_fixed_table)
        with (Some (20, CtlMsg.Spec.LIcmpv4Timestamp, CtlMsg.Spec.V4TimestampRequest)) in C.
      destruct C as (_ & _ & Hf & _). rewrite Hf, LL, N8, N20. reflexivity.
  - split.
    + rewrite CtlMsg.Proofs.icmp4_eq. unfold CtlMsg.Spec.icmp4. rewrite LL, N8.
      change (CtlMsg.Spec.byte_at _ 0) with 14. change (CtlMsg.Spec.byte_at _ 1) with 0.
      change (CtlMsg.Spec.lookup 14 0 CtlMsg.Spec.icmp4_fixed_table)
        with (Some (20, CtlMsg.Spec.LIcmpv4TimestampReply, CtlMsg.Spec.V4TimestampReply)).
      cbv beta iota. rewrite N20. reflexivity.
    + unfold Icmp4.icmp4_from_slice.
      pose proof (CtlMsg.Proofs.icmp4_cases 14 0 ((ck / 256) mod 256) (ck mod 256)
                    ((i / 256) mod 256) (i mod 256) ((s / 256) mod 256) (s mod 256)) as C.
      match goal with |- context [CtlMsg.Model.Icmpv4Slice.from_slice (_ :: _ :: _ :: _ :: _ :: _ :: _ :: _ :: ?r)] =>
        specialize (C r) end.
      cbv zeta in C.
      change (CtlMsg.Spec.lookup 14 0 CtlMsg.Spec.icmp4_fixed_table)
        with (Some (20, CtlMsg.Spec.LIcmpv4TimestampReply, CtlMsg.Spec.V4TimestampReply)) in C.
      destruct C as (_ & _ & Hf & _). rewrite Hf, LL, N8, N20. reflexivity.
Qed.

(* every ICMPv6 kind, every payload (the IPv6 payload length bounds the message far below
   the 2^32-1 limit of Icmpv6Slice::from_slice): no side condition *)
Theorem icmp6_value_back e c p bs t : cfg_wf c = true -> build e c p = BOk bs ->
  c_transport c = TrIcmpv6 t -> (forall a, c_net c <> NtArp a) ->
  Icmp6.wf_icmp6_type t = true ->
  exists ck, ck < 65536 /\
    let seg := drop (off_transport c) bs in
    let h := {| Icmp6.icmp6_type := t; Icmp6.icmp6_checksum := ck |} in
    Icmp6.icmp6_read seg = Roundtrip.Common.Ok (h, p) /\
    Icmp6.icmp6_from_slice seg = Roundtrip.Common.Ok (h, p) /\
    CtlMsg.Spec.icmp6 seg = CtlMsg.Spec.Ok (t, p) /\
    CtlMsg.Model.Icmpv6Slice.view seg = CtlMsg.Spec.Ok (t, p).
Proof.
  intros WF E ET NA WT.
  destruct (icmp6_segment e c p bs t WF E ET NA) as (ck & L & EB & DR & BND).
  exists ck. split; [exact L|]. cbv zeta. rewrite DR.
  assert (WH : Icmp6.wf_icmp6 {| Icmp6.icmp6_type := t; Icmp6.icmp6_checksum := ck |} = true).
  { unfold Icmp6.wf_icmp6. cbn [Icmp6.icmp6_type Icmp6.icmp6_checksum]. rewrite WT.
    apply N.ltb_lt in L. rewrite L. reflexivity. }
  destruct (Icmp6Proofs.icmp6_dec_enc _ WH) as (e' & EB' & _ & _ & RD & FS).
  rewrite EB in EB'. injection EB' as <-.
  split; [apply RD|].
  assert (FS' := FS p ltac:(clear - BND; lia)). split; [exact FS'|].
  pose proof (Icmp6Proofs.icmp6_from_slice_spec _ _ _ FS') as SP. cbn [Icmp6.icmp6_type] in SP.
  split; [exact SP|]. rewrite CtlMsg.Proofs.icmp6_eq. exact SP.
Qed.

(* ================================================================== the excluded cases *)
(* ---- link and VLAN layers: always as configured *)
Lemma link_back e c p bs : cfg_wf c = true -> build e c p = BOk bs ->
  wire_entry c bs =
    match c_link c with
    | LkNone => wire_ip bs (link_view c (len bs)) LsSlice (off_net c) (len bs)
    | _ => wire_net bs (link_view c (len bs)) (net_ether_type (c_net c)) LsSlice (off_net c) (len bs)
    end.
Proof.
  intros WF E. destruct (cfg_wf_inv c WF) as (WL & WV & WN & WT & WS).
  pose proof (build_size e c p bs WF E) as SZ.
  pose proof (next_protocol_fields e c p bs WF E) as (LKF & VLF & _).
  destruct (net_et_plain (c_net c)) as (NV & NM & NS).
  unfold wire_entry, link_view, exp_link, exp_exts, off_vlan, off_net in *.
  assert (FS : len bs = link_len c + vlan_len c + (net_len c + transport_len c + len p))
    by (rewrite SZ; unfold final_size; clear; lia).
  unfold link_len, vlan_len in *. unfold shape_ok in WS.
  destruct (c_link c) as [|s d|pt vl a] eqn:EL.
  - destruct (c_vlan c); try discriminate. reflexivity.
  - unfold wire_ethernet, n_bs. replace (len bs <? 14) with false by (symmetry; apply N.ltb_ge; clear - FS; lia).
    rewrite LKF. unfold link_announces.
    destruct (c_vlan c) as [|v|o i] eqn:EV.
    + rewrite (wire_ether_net bs 3 _ _ LsSlice 14 (len bs) NV NM). reflexivity.
    + rewrite (wire_ether_vlan bs 2 _ 33024 LsSlice 14 (len bs) eq_refl) by (clear - FS; lia).
      change (14 + 2) with 16 in *. rewrite VLF.
      rewrite (wire_ether_net bs 2 _ _ LsSlice (14 + 4) (len bs) NV NM). reflexivity.
    + destruct VLF as (VL1 & VL2).
      rewrite (wire_ether_vlan bs 2 _ 34984 LsSlice 14 (len bs) eq_refl) by (clear - FS; lia).
      change (14 + 2) with 16 in *. rewrite VL1.
      rewrite (wire_ether_vlan bs 1 _ 33024 LsSlice (14 + 4) (len bs) eq_refl) by (clear - FS; lia).
      change (14 + 4 + 2) with 20. change (14 + 6) with 20 in VL2. rewrite VL2.
      rewrite (wire_ether_net bs 1 _ _ LsSlice (14 + 4 + 4) (len bs) NV NM). reflexivity.
  - destruct LKF as (W0 & W2 & W14 & EV). rewrite EV in *.
    cbn [link_wf] in WL. bsplit WL.
    unfold wire_linux_sll, n_bs. replace (len bs <? 16) with false by (symmetry; apply N.ltb_ge; clear - FS; lia).
    rewrite W0, W2, W14.
    replace (7 <? pt) with false
      by (symmetry; apply N.ltb_ge; match goal with H : pt < 8 |- _ => clear - H; lia end).
    change (sll_hw_supported 1) with true. change (1 =? 1) with true. rewrite NS. cbn [negb andb].
    rewrite (wire_ether_net bs 3 _ _ LsSlice 16 (len bs) NV NM). reflexivity.
Qed.

(* ---- the fixed IP header: always accepted, the decoder continues with the extension /
   transport stage over exactly the rest of the packet *)
Lemma ip_gen_ipv4 e c p bs h x : cfg_wf c = true -> build e c p = BOk bs -> c_net c = NtIpv4 h x ->
  forall pk src,
    wire_ipv4 bs pk src (off_net c) (len bs) = wire_ipv4_tail bs pk (off_net c) (Ipv4.ip4_header_len h) (len bs) /\
    wire_ip bs pk src (off_net c) (len bs) = wire_ipv4_tail bs pk (off_net c) (Ipv4.ip4_header_len h) (len bs).
Proof.
  intros WF E EN pk src.
  destruct (ip4_built_fields e c p bs h x WF E EN) as (F0 & F2 & F6 & F9 & LE & LT & OL & OM & FO & F6b).
  rewrite N.add_0_r in F0. unfold Ipv4.ip4_header_len in *.
  assert (LE' : 20 + Ipv4.i4o_len (Ipv4.i4_options h) <= len bs - off_net c) by (clear - LE; lia).
  exact (wire_ipv4_ok bs pk src (off_net c) (len bs) _ OL OM F0 LE' F2).
Qed.

Lemma ip_gen_ipv6 e c p bs h x : cfg_wf c = true -> build e c p = BOk bs -> c_net c = NtIpv6 h x ->
  forall pk src,
    wire_ipv6 bs pk src (off_net c) (len bs)
      = wire_ipv6_tail bs pk LsIpv6HeaderPayloadLen LsIpv6HeaderPayloadLen (off_net c) (len bs) /\
    wire_ip bs pk src (off_net c) (len bs)
      = wire_ipv6_tail bs pk LsIpv6HeaderPayloadLen LsIpv6HeaderPayloadLen (off_net c) (len bs).
Proof.
  intros WF E EN pk src.
  destruct (ip6_built_fields e c p bs h x WF E EN) as (F0 & F4 & F6 & LE & LT).
  rewrite N.add_0_r in F0.
  assert (LE' : 40 <= len bs - off_net c) by (clear - LE; lia).
  exact (wire_ipv6_ok bs pk src (off_net c) (len bs) LE' F0 F4).
Qed.

Lemma wire_net_ip4 bs pk src pos lim : wire_net bs pk 2048 src pos lim = wire_ipv4 bs pk src pos lim.
Proof. reflexivity. Qed.
Lemma wire_net_ip6 bs pk src pos lim : wire_net bs pk 34525 src pos lim = wire_ipv6 bs pk src pos lim.
Proof. reflexivity. Qed.

Theorem parse_back_upto_ip e c p bs : cfg_wf c = true -> build e c p = BOk bs ->
  match c_net c with
  | NtIpv4 h _ =>
      wire_entry c bs = wire_ipv4_tail bs (link_view c (len bs)) (off_net c) (Ipv4.ip4_header_len h) (len bs)
  | NtIpv6 _ _ =>
      wire_entry c bs = wire_ipv6_tail bs (link_view c (len bs)) LsIpv6HeaderPayloadLen LsIpv6HeaderPayloadLen
                                       (off_net c) (len bs)
  | NtArp _ => wire_entry c bs = VOk (expected_x c (len p))
  end.
Proof.
  intros WF E. pose proof (link_back e c p bs WF E) as LB.
  destruct (c_net c) as [h x|h x|a] eqn:EN.
  - destruct (ip_gen_ipv4 e c p bs h x WF E EN (link_view c (len bs)) LsSlice) as (E1 & E2).
    rewrite LB. cbn [net_ether_type]. rewrite wire_net_ip4. destruct (c_link c); assumption.
  - destruct (ip_gen_ipv6 e c p bs h x WF E EN (link_view c (len bs)) LsSlice) as (E1 & E2).
    rewrite LB. cbn [net_ether_type]. rewrite wire_net_ip6. destruct (c_link c); assumption.
  - apply (parse_back e c p bs WF); [|exact E]. unfold payload_admitted. rewrite EN. reflexivity.
Qed.

(* ---- up to the transport position: needs only that the announced number is not read as
   a further extension header (chain_ok) *)
Lemma seg_len e c p bs : cfg_wf c = true -> build e c p = BOk bs -> (forall a, c_net c <> NtArp a) ->
  off_transport c + tr_header_len (c_transport c) + len p = len bs.
Proof.
  intros WF E NA. pose proof (seg_shape e c p bs WF E) as SH. cbv zeta in SH.
  destruct (c_net c) as [h x|h x|a]; [| |exfalso; exact (NA a eq_refl)];
    destruct SH as (front & tb & EB & LF & LT & _); rewrite EB, !len_app, LF, LT; lia.
Qed.

Lemma net_gen_ipv4 e c p bs h x : cfg_wf c = true -> build e c p = BOk bs -> c_net c = NtIpv4 h x ->
  tr_ip_number (c_transport c) <> 51 ->
  forall pk,
    wire_ipv4_tail bs pk (off_net c) (Ipv4.ip4_header_len h) (len bs) =
    wire_transport bs (mkVPacket (v_link pk) (v_exts pk) (exp_net_x c (len bs)) (v_transport pk))
      (tr_ip_number (c_transport c)) (ipv4_frag h) LsIpv4HeaderTotalLen (off_transport c) (len bs).
Proof.
  intros WF E EN AN pk. destruct (cfg_wf_inv c WF) as (WL & WV & WN & WT & WS).
  destruct (ip4_built_fields e c p bs h x WF E EN) as (F0 & F2 & F6 & F9 & LE & LT & OL & OM & FO & F6b).
  assert (LB : off_transport c + tr_header_len (c_transport c) + len p = len bs)
    by (apply (seg_len e c p bs WF E); intros a; rewrite EN; discriminate).
  pose proof (chain_built e c p bs WF E) as CB. unfold chain_pre in CB. rewrite EN in CB. specialize (CB eq_refl).
  unfold ext_layout_full, ip_next_field_off, off_exts, ip_header_len in CB. rewrite EN in CB.
  unfold Ipv4.ip4_header_len in *.
  set (pos := off_net c) in *. set (lim := len bs) in *. set (ol := Ipv4.i4o_len (Ipv4.i4_options h)) in *.
  assert (FRG : ipv4_fragmented bs pos = ipv4_frag h).
  { unfold ipv4_fragmented. rewrite F6b, F6. apply ip4_frag_bits. exact FO. }
  unfold exp_net_x. rewrite EN. cbv zeta.
  assert (OT : off_transport c = pos + (20 + ol) + XM.header_len4 x).
  { unfold off_transport, net_len. rewrite EN. unfold Ipv4.ip4_header_len. fold ol. fold pos. clear. lia. }
  unfold off_exts, ip_header_len. rewrite EN. unfold Ipv4.ip4_header_len. fold ol. fold pos.
  destruct x as [[a|]]; cbn [XM.auth4 XM.set_next_headers4 snd XM.header_len4] in *.
  - cbn [chain_full] in CB. destruct CB as (_ & HA & BN).
    rewrite (wire_ipv4_tail_auth bs pk pos (20 + ol) lim (XM.auth_header_len a) F9)
      by (try exact HA; clear - LB OT; pose proof (N.le_0_l (len p)); lia).
    rewrite FRG, BN, <- OT. reflexivity.
  - cbn [chain_full] in CB.
    rewrite (wire_ipv4_tail_plain bs pk pos (20 + ol) lim _ F9 AN).
    rewrite N.add_0_r in OT. rewrite FRG, <- OT. reflexivity.
Qed.

Lemma net_gen_ipv6 e c p bs h x : cfg_wf c = true -> build e c p = BOk bs -> c_net c = NtIpv6 h x ->
  chain_pre c = true ->
  forall pk,
    wire_ipv6_tail bs pk LsIpv6HeaderPayloadLen LsIpv6HeaderPayloadLen (off_net c) (len bs) =
    wire_transport bs (mkVPacket (v_link pk) (v_exts pk) (exp_net_x c (len bs)) (v_transport pk))
      (tr_ip_number (c_transport c)) (XM.is_fragmenting_payload x) LsIpv6HeaderPayloadLen
      (off_transport c) (len bs).
Proof.
  intros WF E EN CP pk. destruct (cfg_wf_inv c WF) as (WL & WV & WN & WT & WS).
  destruct (ip6_built_fields e c p bs h x WF E EN) as (F0 & F4 & F6 & LE & LT).
  assert (LB : off_transport c + tr_header_len (c_transport c) + len p = len bs)
    by (apply (seg_len e c p bs WF E); intros a; rewrite EN; discriminate).
  assert (FN : final_number (tr_ip_number (c_transport c))).
  { unfold chain_pre in CP. rewrite EN in CP. apply negb_true_iff in CP.
    unfold XS.is_ext_number, XS.rfc8200_order in CP. cbn [map existsb XS.ip_number_of] in CP.
    rewrite !orb_false_iff in CP. unfold final_number.
    repeat match goal with H : _ /\ _ |- _ => destruct H end.
    repeat match goal with H : (_ =? _) = false |- _ => apply N.eqb_neq in H end.
    repeat split; intros Q; rewrite Q in *; congruence. }
  pose proof (chain_built e c p bs WF E CP) as CB. rewrite EN in CB.
  unfold ext_layout_full, ip_next_field_off, off_exts, ip_header_len in CB. rewrite EN in CB.
  assert (OT : off_transport c = off_net c + 40 + XM.header_len x).
  { unfold off_transport, net_len. rewrite EN. clear. lia. }
  pose proof (first_ext_number6 c h x _ _ _ _ EN CB) as FE.
  set (pos := off_net c) in *. set (lim := len bs) in *.
  rewrite (wire_ipv6_tail_ok bs pk _ _ pos lim (ext_layout6_full x) (tr_ip_number (c_transport c)) CB
             (layout6_hop_first x) FN)
    by (rewrite layout6_sum; clear - LB OT; pose proof (N.le_0_l (len p)); lia).
  rewrite layout6_sum, layout6_any_frag, <- OT.
  unfold exp_net_x. rewrite EN. cbv zeta.
  unfold off_exts, ip_header_len. rewrite EN. fold pos. rewrite FE. reflexivity.
Qed.

Theorem parse_back_upto_transport e c p bs : cfg_wf c = true -> build e c p = BOk bs -> chain_ok c = true ->
  match c_net c with
  | NtArp _ => True
  | _ =>
    off_transport c + tr_header_len (c_transport c) + len p = len bs /\
    wire_entry c bs =
      wire_transport bs (upto_net c (len p)) (tr_ip_number (c_transport c)) (is_fragmented_x c) (ip_len_src c)
                     (off_transport c) (len bs)
  end.
Proof.
  intros WF E CO. pose proof (parse_back_upto_ip e c p bs WF E) as UI.
  pose proof (build_size e c p bs WF E) as SZ.
  unfold chain_ok in CO. unfold upto_net, is_fragmented_x, ip_len_src. cbv zeta. rewrite <- SZ.
  destruct (c_net c) as [h x|h x|a] eqn:EN; [| |exact I].
  - split; [apply (seg_len e c p bs WF E); intros a; rewrite EN; discriminate|].
    rewrite UI. apply negb_true_iff, N.eqb_neq in CO.
    rewrite (net_gen_ipv4 e c p bs h x WF E EN CO). reflexivity.
  - split; [apply (seg_len e c p bs WF E); intros a; rewrite EN; discriminate|].
    rewrite UI.
    assert (CP : chain_pre c = true) by (unfold chain_pre; rewrite EN; exact CO).
    rewrite (net_gen_ipv6 e c p bs h x WF E EN CP). reflexivity.
Qed.

(* ---- ICMPv4 timestamp / timestamp reply of the wrong size: the decoder's answer.
   Covers the typed TimestampRequest / TimestampReply with ANY non-empty payload and the raw
   Unknown{13|14, 0, ..} with a payload other than 12 bytes. *)
Theorem timestamp_wrong_size_rejected e c p bs t : cfg_wf c = true -> build e c p = BOk bs ->
  c_transport c = TrIcmpv4 t -> (forall a, c_net c <> NtArp a) ->
  is_fragmented_x c = false -> icmp4_admits t (len p) = false ->
  wire_entry c bs =
    cut 20 (Icmp4.icmp4_type_header_len t + len p) (ip_len_src c) (ts_layer t) (off_transport c).
Proof.
  intros WF E ET NA NF AD.
  assert (CO : chain_ok c = true).
  { unfold chain_ok. rewrite ET. cbn [tr_ip_number]. destruct (c_net c); reflexivity. }
  pose proof (parse_back_upto_transport e c p bs WF E CO) as UT.
  destruct (icmp4_segment e c p bs t WF E ET NA) as (ck & _ & _ & DR).
  destruct (icmp4_fields t ck p) as [T0 T1]. rewrite <- DR in T0, T1. rewrite B_drop in T0, T1.
  rewrite N.add_0_r in T0.
  assert (UT' : off_transport c + Icmp4.icmp4_type_header_len t + len p = len bs /\
                wire_entry c bs = wire_transport bs (upto_net c (len p)) 1 false (ip_len_src c)
                                                 (off_transport c) (len bs)).
  { rewrite ET, NF in UT. cbn [tr_header_len tr_ip_number] in UT.
    destruct (c_net c) as [h x|h x|a]; [exact UT|exact UT|exfalso; exact (NA a eq_refl)]. }
  destruct UT' as (LB & ->).
  unfold wire_transport. change (1 =? 1) with true. cbv iota.
  unfold wire_icmp4. cbv zeta. rewrite T0, T1.
  pose proof (icmp4_hl_bounds t) as HB.
  replace (len bs - off_transport c) with (Icmp4.icmp4_type_header_len t + len p) by (clear - LB; lia).
  replace (Icmp4.icmp4_type_header_len t + len p <? 8) with false by (symmetry; apply N.ltb_ge; clear - HB; lia).
  unfold icmp4_admits in AD. unfold ts_layer.
  destruct (fst (icmp4_tc t) =? 13) eqn:E13; destruct (fst (icmp4_tc t) =? 14) eqn:E14;
    destruct (snd (icmp4_tc t) =? 0) eqn:E0; cbn [andb orb] in AD; try discriminate AD;
    rewrite AD; reflexivity.
Qed.

(* ================================================================== the exclusions are necessary *)
(* witnesses (vm_compute): for every excluded ip number a well-formed configuration that builds
   and whose packet the reference decoder does NOT read back as the configured view *)
Definition wit_ip4 : Ipv4.Ipv4Header :=
  {| Ipv4.i4_dscp := 0; Ipv4.i4_ecn := 0; Ipv4.i4_total_len := 0; Ipv4.i4_identification := 0;
     Ipv4.i4_dont_fragment := true; Ipv4.i4_more_fragments := false; Ipv4.i4_fragment_offset := 0;
     Ipv4.i4_time_to_live := 20; Ipv4.i4_protocol := 255; Ipv4.i4_header_checksum := 0;
     Ipv4.i4_source := [192; 168; 1; 1]; Ipv4.i4_destination := [192; 168; 1; 2];
     Ipv4.i4_options := {| Ipv4.i4o_len := 0; Ipv4.i4o_buf := repeat 0 40 |} |}.
Definition wit_ip6 : BitFields.Model.Ipv6Header :=
  BitFields.Model.mkIpv6 0 0 0 0 64 [32;1;13;184;0;0;0;0;0;0;0;0;0;0;0;1] [254;128;0;0;0;0;0;0;2;0;0;255;254;0;0;9].
Definition wit_cfg4 (t : transport_cfg) : cfg :=
  mkCfg (LkEthernet2 [1; 2; 3; 4; 5; 6] [7; 8; 9; 10; 11; 12]) (VlSingle (BitFields.Model.mkVlan 0 false 5 0))
        (NtIpv4 wit_ip4 (XM.mkExts4 None)) t.
Definition wit_cfg6 (t : transport_cfg) : cfg :=
  mkCfg LkNone VlNone (NtIpv6 wit_ip6 XM.exts6_default) t.
Definition wit_payload : bytes := [1; 2; 3].

(* "wf, not admitted, builds, and the decoder's answer differs from the configured view" *)
Definition refutes (c : cfg) (p : bytes) : Prop :=
  cfg_wf c = true /\ payload_admitted c (len p) = false /\
  match build LE c p with
  | BOk bs => wire_entry c bs <> VOk (expected_x c (len p))
  | _ => False
  end.

Lemma parse_back_refuted_raw4 :
  Forall (fun n => refutes (wit_cfg4 (TrNone n)) wit_payload) [1; 6; 17; 58; 51].
Proof. repeat constructor; vm_compute; discriminate. Qed.

Lemma parse_back_refuted_raw6 :
  Forall (fun n => refutes (wit_cfg6 (TrNone n)) wit_payload) [1; 6; 17; 58; 51; 0; 43; 44; 60].
Proof. repeat constructor; vm_compute; discriminate. Qed.

Definition wit_ts : CtlMsg.Spec.TimestampMessage := CtlMsg.Spec.mkTimestamp 1 2 3 4 5.
Lemma parse_back_refuted_timestamp :
  refutes (wit_cfg4 (TrIcmpv4 (CtlMsg.Spec.V4TimestampRequest wit_ts))) wit_payload /\
  refutes (wit_cfg4 (TrIcmpv4 (CtlMsg.Spec.V4TimestampReply wit_ts))) [9] /\
  refutes (wit_cfg4 (TrIcmpv4 (CtlMsg.Spec.V4Unknown 13 0 0 1 0 2))) wit_payload /\
  refutes (wit_cfg6 (TrIcmpv4 (CtlMsg.Spec.V4Unknown 14 0 0 1 0 2))) (repeat 7 13).
Proof. repeat split; vm_compute; discriminate. Qed.
