(* Roundtrip/TcpProofs.v -- C08 for TcpHeader *)
From EP Require Import Base.Bytes Roundtrip.Common Roundtrip.CommonProofs Roundtrip.Tcp.
From Coq Require Import ZArith Lia ZifyN.
Local Open Scope N_scope.

(* ---- byte level facts (complete sweeps) ---- *)
Definition byte12_of (ol : N) (n : bool) : N :=
  let value := band (shl8 (as_u8 (5 + shr ol 2)) 4) 240 in if n then bor value 1 else value.
Definition byte13_of (f s r p a u e c : bool) : N :=
  let v := 0 in
  let v := if f then bor v 1 else v in
  let v := if s then bor v 2 else v in
  let v := if r then bor v 4 else v in
  let v := if p then bor v 8 else v in
  let v := if a then bor v 16 else v in
  let v := if u then bor v 32 else v in
  let v := if e then bor v 64 else v in
  let v := if c then bor v 128 else v in v.

Lemma byte12_is h : byte12 h = byte12_of (o_len (options h)) (ns h).
Proof. reflexivity. Qed.
Lemma byte13_is h : byte13 h = byte13_of (fin h) (syn h) (rst h) (psh h) (ack h) (urg h) (ece h) (cwr h).
Proof. reflexivity. Qed.

Definition P12 (ol : N) : bool :=
  if ol mod 4 =? 0 then
    all_bool (fun n =>
      let b := byte12_of ol n in
      (shr (band b 240) 2 =? 20 + ol) && (shr (band b 240) 4 * 4 =? 20 + ol)
      && Bool.eqb (nz (band b 1)) n && (b <? 256) && (shl8 (shr (band b 240) 4 - 5) 2 =? ol)
      && negb (shr (band b 240) 4 <? 5))
  else true.
Lemma sweep12 : all_below 41 P12 = true.
Proof. vm_compute. reflexivity. Qed.

Lemma byte12_dec ol n : ol <= 40 -> ol mod 4 = 0 ->
  let b := byte12_of ol n in
  shr (band b 240) 2 = 20 + ol /\ shr (band b 240) 4 * 4 = 20 + ol /\ nz (band b 1) = n /\ b < 256
  /\ shl8 (shr (band b 240) 4 - 5) 2 = ol /\ (shr (band b 240) 4 <? 5) = false.
Proof.
  intros H1 H2. pose proof (all_below_spec 41 P12 sweep12 ol ltac:(lia)) as S.
  unfold P12 in S. rewrite H2 in S. change (0 =? 0) with true in S. cbv iota in S.
  pose proof (all_bool_spec _ S n) as S'. cbv beta in S'. bsplit S'.
  apply negb_true_iff in S'1.
  cbv zeta. repeat split; assumption.
Qed.

Lemma byte13_dec f s r p a u e c :
  let b := byte13_of f s r p a u e c in
  nz (band b 1) = f /\ nz (band b 2) = s /\ nz (band b 4) = r /\ nz (band b 8) = p /\
  nz (band b 16) = a /\ nz (band b 32) = u /\ nz (band b 64) = e /\ nz (band b 128) = c /\ b < 256.
Proof. destruct f, s, r, p, a, u, e, c; vm_compute; repeat split; reflexivity. Qed.

Definition Q12 (b : N) : bool :=
  let hl := shr (band b 240) 2 in
  if hl <? 20 then true
  else (byte12_of (as_u8 (hl - 20)) (nz (band b 1)) =? N.land b 241)
       && (shr (band b 240) 4 * 4 =? hl) && (hl <=? 60) && ((hl - 20) mod 4 =? 0)
       && (shl8 (shr (band b 240) 4 - 5) 2 =? hl - 20) && negb (shr (band b 240) 4 <? 5).
Lemma sweepQ12 : all_below 256 Q12 = true.
Proof. vm_compute. reflexivity. Qed.

Definition Q12' (b : N) : bool :=
  let d := shr (band b 240) 4 in
  (d <? 5) || negb (shr (band b 240) 2 <? 20).
Lemma sweepQ12' : all_below 256 Q12' = true.
Proof. vm_compute. reflexivity. Qed.

Definition Q13 (b : N) : bool :=
  byte13_of (nz (band b 1)) (nz (band b 2)) (nz (band b 4)) (nz (band b 8))
            (nz (band b 16)) (nz (band b 32)) (nz (band b 64)) (nz (band b 128)) =? b.
Lemma sweepQ13 : all_below 256 Q13 = true.
Proof. vm_compute. reflexivity. Qed.

(* ---- structure ---- *)
Lemma len_fixed h : len (fixed_bytes h) = 20.
Proof. reflexivity. Qed.

Lemma fixed_explicit h : fixed_bytes h =
  [(source_port h / 256) mod 256; source_port h mod 256;
   (destination_port h / 256) mod 256; destination_port h mod 256;
   (sequence_number h / 256 / 256 / 256) mod 256; (sequence_number h / 256 / 256) mod 256;
   (sequence_number h / 256) mod 256; sequence_number h mod 256;
   (acknowledgment_number h / 256 / 256 / 256) mod 256; (acknowledgment_number h / 256 / 256) mod 256;
   (acknowledgment_number h / 256) mod 256; acknowledgment_number h mod 256;
   byte12 h; byte13 h;
   (window_size h / 256) mod 256; window_size h mod 256;
   (checksum h / 256) mod 256; checksum h mod 256;
   (urgent_pointer h / 256) mod 256; urgent_pointer h mod 256].
Proof. reflexivity. Qed.


Lemma opt_wf_facts o : wf_opt o = true ->
  o_len o <= 40 /\ o_len o mod 4 = 0 /\ len (o_buf o) = 40 /\ bytes_ok (o_buf o).
Proof. unfold wf_opt. intros W. bsplit W. repeat split; try assumption. apply bytes_okb_spec; assumption. Qed.

Lemma wf_tcp_facts h : wf_tcp h = true ->
  source_port h < 65536 /\ destination_port h < 65536 /\ sequence_number h < 4294967296 /\
  acknowledgment_number h < 4294967296 /\ window_size h < 65536 /\ checksum h < 65536 /\
  urgent_pointer h < 65536 /\ wf_opt (options h) = true.
Proof. unfold wf_tcp. intros W. bsplit W. repeat split; assumption. Qed.

Lemma to_bytes_wf h : wf_tcp h = true ->
  to_bytes h = Some (fixed_bytes h ++ take (o_len (options h)) (o_buf (options h))).
Proof.
  intros W. destruct (wf_tcp_facts h W) as (_ & _ & _ & _ & _ & _ & _ & WO).
  destruct (opt_wf_facts _ WO) as (OL & OM & BL & BO).
  unfold to_bytes, header_len. rewrite len_app, len_fixed, BL.
  replace (20 + 40 <=? 60) with true by (symmetry; apply N.leb_le; lia).
  replace (20 + o_len (options h) <=? 20 + 40) with true by (symmetry; apply N.leb_le; lia).
  cbn [andb]. f_equal. apply take_app_more. rewrite len_fixed. reflexivity.
Qed.

Lemma as_slice_wf h : wf_tcp h = true ->
  opt_as_slice (options h) = Some (take (o_len (options h)) (o_buf (options h))).
Proof.
  intros W. destruct (wf_tcp_facts h W) as (_ & _ & _ & _ & _ & _ & _ & WO).
  destruct (opt_wf_facts _ WO) as (OL & OM & BL & BO).
  unfold opt_as_slice. rewrite BL.
  replace (o_len (options h) <=? 40) with true by (symmetry; apply N.leb_le; lia). reflexivity.
Qed.

Lemma len_take_opts h : wf_tcp h = true -> len (take (o_len (options h)) (o_buf (options h))) = o_len (options h).
Proof.
  intros W. destruct (wf_tcp_facts h W) as (_ & _ & _ & _ & _ & _ & _ & WO).
  destruct (opt_wf_facts _ WO) as (OL & OM & BL & BO).
  rewrite len_take, BL. lia.
Qed.

Theorem tcp_ser_agree h out : wf_tcp h = true ->
  exists e, to_bytes h = Some e /\ write out h = Some (out ++ e) /\ len e = header_len h.
Proof.
  intros W. exists (fixed_bytes h ++ take (o_len (options h)) (o_buf (options h))).
  split; [apply to_bytes_wf; assumption|]. split.
  - unfold write. rewrite (as_slice_wf h W).
    destruct (N.eqb_spec (len (take (o_len (options h)) (o_buf (options h)))) 0) as [E|E]; [|reflexivity].
    apply len_0_nil in E. rewrite E. reflexivity.
  - rewrite len_app, len_fixed, (len_take_opts h W). reflexivity.
Qed.

(* slice_from_slice on  F ++ O ++ rest  *)
Lemma slice_from_slice_app F O rest b12 :
  len F = 20 -> rd F 12 = Some b12 -> shr (band b12 240) 2 = 20 + len O ->
  slice_from_slice (F ++ O ++ rest) = Ok (F ++ O).
Proof.
  intros LF R H. unfold slice_from_slice.
  rewrite !len_app, LF.
  replace (20 + (len O + len rest) <? 20) with false by (symmetry; apply N.ltb_ge; lia).
  assert (R' : rd (F ++ O ++ rest) 12 = Some b12).
  { unfold rd in *. rewrite nth_error_app1; [assumption|]. apply nth_error_Some. congruence. }
  rewrite R', H.
  replace (20 + len O <? 20) with false by (symmetry; apply N.ltb_ge; lia).
  replace (20 + (len O + len rest) <? 20 + len O) with false by (symmetry; apply N.ltb_ge; lia).
  f_equal. rewrite app_assoc. apply take_app_len. rewrite len_app, LF. reflexivity.
Qed.

Lemma slice_range_app F O n m : len F = n -> m = n + len O -> slice_range (F ++ O) n m = Some O.
Proof.
  intros LF ->. unfold slice_range. rewrite len_app, LF.
  replace (n <=? n + len O) with true by (symmetry; apply N.leb_le; lia).
  replace (n + len O <=? n + len O) with true by (symmetry; apply N.leb_le; lia).
  cbn [andb]. f_equal. rewrite (drop_app_len F O n) by (symmetry; exact LF).
  apply take_all. lia.
Qed.


Theorem tcp_dec_enc h rest : wf_tcp h = true ->
  exists e, to_bytes h = Some e /\ from_slice (e ++ rest) = Ok (norm h, rest)
            /\ read (e ++ rest) = Ok (norm h, rest) /\ tcp_eqb (norm h) h = true.
Proof.
  intros W. destruct (wf_tcp_facts h W) as (R1 & R2 & R3 & R4 & R5 & R6 & R7 & WO).
  destruct (opt_wf_facts _ WO) as (OL & OM & BL & BO).
  set (O := take (o_len (options h)) (o_buf (options h))).
  assert (LO : len O = o_len (options h)) by (apply len_take_opts; assumption).
  exists (fixed_bytes h ++ O). split; [apply to_bytes_wf; assumption|].
  destruct (byte12_dec (o_len (options h)) (ns h) OL OM) as (D1 & D2 & D3 & D4 & D5 & D6).
  destruct (byte13_dec (fin h) (syn h) (rst h) (psh h) (ack h) (urg h) (ece h) (cwr h))
    as (F1 & F2 & F3 & F4 & F5 & F6 & F7 & F8 & F9).
  rewrite <- byte12_is in D1, D2, D3, D4, D5, D6. rewrite <- byte13_is in F1, F2, F3, F4, F5, F6, F7, F8, F9.
  cbv zeta in *.
  assert (HDR : to_header (fixed_bytes h ++ O) = Ok (norm h)).
  { assert (SR : slice_range (fixed_bytes h ++ O) 20 (shr (band (byte12 h) 240) 4 * 4) = Some O).
    { apply slice_range_app; [apply len_fixed|]. rewrite D2, LO. reflexivity. }
    revert SR. rewrite fixed_explicit. cbn [app]. intros SR.
    unfold to_header. rewrite SR.
    replace (40 <? len O) with false by (symmetry; apply N.ltb_ge; lia).
    f_equal. unfold norm, norm_opt.
    rewrite !u16_be_roundtrip, !u32_be_roundtrip by assumption.
    rewrite D3, F1, F2, F3, F4, F5, F6, F7, F8. fold O. rewrite LO.
    unfold as_u8. rewrite (N.mod_small (o_len (options h))) by lia. reflexivity. }
  split; [|split].
  - unfold from_slice. rewrite <- app_assoc.
    rewrite (slice_from_slice_app (fixed_bytes h) O rest (byte12 h)); [|apply len_fixed|reflexivity|rewrite D1, LO; reflexivity].
    rewrite HDR. unfold slice_from. rewrite !len_app, len_fixed.
    replace (20 + len O <=? 20 + (len O + len rest)) with true by (symmetry; apply N.leb_le; lia).
    rewrite app_assoc, (drop_app_len (fixed_bytes h ++ O) rest) by (rewrite len_app, len_fixed; reflexivity).
    reflexivity.
  - unfold read, read_exact. rewrite <- app_assoc, !len_app, len_fixed.
    replace (20 + (len O + len rest) <? 20) with false by (symmetry; apply N.ltb_ge; lia).
    rewrite (take_app_len (fixed_bytes h)) by (symmetry; apply len_fixed).
    rewrite (drop_app_len (fixed_bytes h)) by (symmetry; apply len_fixed).
    rewrite fixed_explicit. cbv iota beta.
    rewrite D6, D5.
    destruct (N.ltb_spec 0 (o_len (options h))) as [Hpos|Hz].
    + replace (o_len (options h) <=? 40) with true by (symmetry; apply N.leb_le; lia).
      rewrite len_app, LO.
      replace (o_len (options h) + len rest <? o_len (options h)) with false by (symmetry; apply N.ltb_ge; lia).
      rewrite (take_app_len O rest) by (symmetry; exact LO).
      rewrite (drop_app_len O rest) by (symmetry; exact LO).
      f_equal. unfold norm, norm_opt.
      rewrite !u16_be_roundtrip, !u32_be_roundtrip by assumption.
      rewrite D3, F1, F2, F3, F4, F5, F6, F7, F8. reflexivity.
    + assert (Z : o_len (options h) = 0) by lia.
      assert (ON : O = []) by (apply len_0_nil; lia). rewrite ON. cbn [app].
      f_equal. unfold norm, norm_opt.
      rewrite !u16_be_roundtrip, !u32_be_roundtrip by assumption.
      rewrite D3, F1, F2, F3, F4, F5, F6, F7, F8. fold O. rewrite ON, Z. reflexivity.
  - unfold tcp_eqb, norm. cbn [source_port destination_port sequence_number acknowledgment_number
      ns fin syn rst psh ack urg ece cwr window_size checksum urgent_pointer options].
    rewrite !N.eqb_refl, !Bool.eqb_reflx. cbn [andb].
    unfold opt_eqb. rewrite (as_slice_wf h W). unfold opt_as_slice, norm_opt. cbn [o_len o_buf].
    fold O. rewrite len_app, LO, len_zeros.
    replace (o_len (options h) <=? o_len (options h) + (40 - o_len (options h))) with true by (symmetry; apply N.leb_le; lia).
    rewrite (take_app_len O) by (symmetry; exact LO). apply bytes_eqb_refl.
Qed.

Lemma Q12_facts b : b < 256 -> (shr (band b 240) 2 <? 20) = false ->
  let hl := shr (band b 240) 2 in
  byte12_of (as_u8 (hl - 20)) (nz (band b 1)) = N.land b 241 /\ shr (band b 240) 4 * 4 = hl
  /\ hl <= 60 /\ (hl - 20) mod 4 = 0.
Proof.
  intros Hb Hh. pose proof (all_byte Q12 sweepQ12 b Hb) as S. unfold Q12 in S.
  cbv zeta in S. rewrite Hh in S. bsplit S. cbv zeta. repeat split; assumption.
Qed.

Lemma Q13_fact b : b < 256 ->
  byte13_of (nz (band b 1)) (nz (band b 2)) (nz (band b 4)) (nz (band b 8))
            (nz (band b 16)) (nz (band b 32)) (nz (band b 64)) (nz (band b 128)) = b.
Proof. intros Hb. pose proof (all_byte Q13 sweepQ13 b Hb) as S. unfold Q13 in S. now apply N.eqb_eq in S. Qed.

Theorem tcp_enc_dec bs h rest : bytes_ok bs -> from_slice bs = Ok (h, rest) ->
  wf_tcp h = true /\ norm h = h /\
  exists e, to_bytes h = Some e /\ bs = take (header_len h) bs ++ rest
            /\ agree (keep_mask (header_len h)) e (take (header_len h) bs)
            /\ from_slice e = Ok (h, []).
Proof.
  intros OK H. unfold from_slice, slice_from_slice in H.
  destruct (len bs <? 20) eqn:L; [discriminate|].
  destruct bs as [|b0 [|b1 [|b2 [|b3 [|b4 [|b5 [|b6 [|b7 [|b8 [|b9 [|b10 [|b11 [|b12 [|b13 [|b14
    [|b15 [|b16 [|b17 [|b18 [|b19 r]]]]]]]]]]]]]]]]]]]]; try (vm_compute in L; discriminate).
  clear L.
  match type of H with context [rd ?s 12] => change (rd s 12) with (Some b12) in H end.
  cbv iota beta zeta in H.
  destruct (shr (band b12 240) 2 <? 20) eqn:L1; [discriminate|].
  set (hl := shr (band b12 240) 2) in *.
  set (bs := b0 :: b1 :: b2 :: b3 :: b4 :: b5 :: b6 :: b7 :: b8 :: b9 :: b10 :: b11 :: b12 :: b13
             :: b14 :: b15 :: b16 :: b17 :: b18 :: b19 :: r) in *.
  destruct (len bs <? hl) eqn:L2; [discriminate|].
  apply N.ltb_ge in L2. pose proof L1 as L1'. apply N.ltb_ge in L1'.
  pose proof OK as OK'. unfold bs in OK'. bytes_ok_split OK'.
  destruct (Q12_facts b12 B11 L1) as (Q1 & Q2 & Q3 & Q4). fold hl in Q1, Q2, Q3, Q4.
  set (F := [b0; b1; b2; b3; b4; b5; b6; b7; b8; b9; b10; b11; b12; b13; b14; b15; b16; b17; b18; b19]).
  assert (EB : bs = F ++ r) by reflexivity.
  set (O := take (hl - 20) r).
  assert (LR : hl - 20 <= len r).
  { rewrite EB, len_app in L2. change (len F) with 20 in L2. clear - L2 L1'. lia. }
  assert (LO : len O = hl - 20) by (unfold O; rewrite len_take; clear - LR; lia).
  assert (TK : take hl bs = F ++ O).
  { rewrite EB. apply take_app_more. change (len F) with 20. clear - L1'. lia. }
  assert (BOo : bytes_ok O) by (unfold O; apply bytes_ok_take; exact OK').
  rewrite TK in H.
  assert (SR : slice_range (F ++ O) 20 (shr (band b12 240) 4 * 4) = Some O).
  { apply slice_range_app; [reflexivity|]. rewrite Q2, LO. clear - L1'. lia. }
  unfold F in SR, H. cbn [app] in SR, H. unfold to_header in H. rewrite SR in H.
  replace (40 <? len O) with false in H by (symmetry; apply N.ltb_ge; clear - LO Q3; lia).
  unfold slice_from in H.
  match type of H with context [len ?s <=? len bs] => replace (len s) with hl in H end.
  2:{ change (hl = len (F ++ O)). rewrite len_app, LO. change (len F) with 20. clear - L1'. lia. }
  replace (hl <=? len bs) with true in H by (symmetry; apply N.leb_le; exact L2).
  injection H as Hh Hrest.
  assert (Hl : header_len h = hl).
  { rewrite <- Hh. unfold header_len. cbn [options o_len]. unfold as_u8. rewrite LO.
    rewrite N.mod_small by (clear - Q3; lia). clear - L1'. lia. }
  assert (WF : wf_tcp h = true).
  { rewrite <- Hh. unfold wf_tcp, wf_opt.
    cbn [source_port destination_port sequence_number acknowledgment_number
      window_size checksum urgent_pointer options o_len o_buf].
    pose proof (be16_bound b0 b1 B B0) as X1. pose proof (be16_bound b2 b3 B1 B2) as X2.
    pose proof (be32_bound b4 b5 b6 b7 B3 B4 B5 B6) as X3.
    pose proof (be32_bound b8 b9 b10 b11 B7 B8 B9 B10) as X4.
    pose proof (be16_bound b14 b15 B13 B14) as X5. pose proof (be16_bound b16 b17 B15 B16) as X6.
    pose proof (be16_bound b18 b19 B17 B18) as X7.
    apply N.ltb_lt in X1, X2, X3, X4, X5, X6, X7. rewrite X1, X2, X3, X4, X5, X6, X7. cbn [andb].
    unfold as_u8. rewrite LO, (N.mod_small (hl - 20)) by (clear - Q3; lia).
    replace (hl - 20 <=? 40) with true by (symmetry; apply N.leb_le; clear - Q3; lia).
    rewrite Q4. change (0 =? 0) with true.
    rewrite len_app, LO, len_zeros.
    replace (hl - 20 + (40 - (hl - 20)) =? 40) with true by (symmetry; apply N.eqb_eq; clear - Q3; lia).
    cbn [andb]. apply bytes_okb_spec. apply bytes_ok_app. split; [exact BOo|apply bytes_ok_zeros]. }
  assert (NM : norm h = h).
  { rewrite <- Hh. unfold norm, norm_opt.
    cbn [source_port destination_port sequence_number acknowledgment_number ns fin syn rst psh ack urg
      ece cwr window_size checksum urgent_pointer options o_len o_buf].
    unfold as_u8. rewrite LO, (N.mod_small (hl - 20)) by (clear - Q3; lia).
    rewrite (take_app_len O) by (symmetry; exact LO). reflexivity. }
  split; [exact WF|]. split; [exact NM|].
  destruct (tcp_dec_enc h [] WF) as (e & E1 & E2 & _ & _).
  exists e. split; [exact E1|]. rewrite Hl.
  split; [rewrite <- Hrest; symmetry; apply take_drop|].
  rewrite app_nil_r, NM in E2. split; [|exact E2].
  rewrite (to_bytes_wf h WF) in E1. apply Some_inj in E1. rewrite <- E1, TK.
  apply agree_of_masked.
  - unfold keep_mask. rewrite !len_app, !len_ones, LO. change (len F) with 20. change (len [241]) with 1.
    clear - L1'. lia.
  - assert (FX : fixed_bytes h = [b0; b1; b2; b3; b4; b5; b6; b7; b8; b9; b10; b11; N.land b12 241; b13;
                                  b14; b15; b16; b17; b18; b19]).
    { rewrite fixed_explicit, byte12_is, byte13_is. rewrite <- Hh.
      cbn [source_port destination_port sequence_number acknowledgment_number ns fin syn rst psh ack urg
        ece cwr window_size checksum urgent_pointer options o_len o_buf].
      rewrite LO, Q1, (Q13_fact b13 B12).
      pose proof (u16_to_be_be16 b0 b1 B B0) as Y1. pose proof (u16_to_be_be16 b2 b3 B1 B2) as Y2.
      pose proof (u32_to_be_be32 b4 b5 b6 b7 B3 B4 B5 B6) as Y3.
      pose proof (u32_to_be_be32 b8 b9 b10 b11 B7 B8 B9 B10) as Y4.
      pose proof (u16_to_be_be16 b14 b15 B13 B14) as Y5. pose proof (u16_to_be_be16 b16 b17 B15 B16) as Y6.
      pose proof (u16_to_be_be16 b18 b19 B17 B18) as Y7.
      unfold u16_to_be, u32_to_be in Y1, Y2, Y3, Y4, Y5, Y6, Y7.
      injection Y1 as -> ->. injection Y2 as -> ->. injection Y3 as -> -> -> ->. injection Y4 as -> -> -> ->.
      injection Y5 as -> ->. injection Y6 as -> ->. injection Y7 as -> ->. reflexivity. }
    rewrite FX, <- Hh. cbn [options o_len o_buf]. unfold as_u8. rewrite LO, (N.mod_small (hl - 20)) by (clear - Q3; lia).
    rewrite (take_app_len O) by (symmetry; exact LO).
    unfold keep_mask.
    change F with ([b0; b1; b2; b3; b4; b5; b6; b7; b8; b9; b10; b11] ++ [b12] ++ [b13; b14; b15; b16; b17; b18; b19]).
    rewrite <- !app_assoc.
    change 12 with (len [b0; b1; b2; b3; b4; b5; b6; b7; b8; b9; b10; b11]).
    rewrite masked_ones_app by (repeat (apply bytes_ok_explicit_cons; [assumption|]); constructor).
    rewrite (masked_app [241] _ [b12]) by reflexivity.
    replace (hl - 13) with (len ([b13; b14; b15; b16; b17; b18; b19] ++ O)) by (rewrite len_app, LO; change (len [b13; b14; b15; b16; b17; b18; b19]) with 7; clear - L1'; lia).
    rewrite masked_ones by (repeat (apply bytes_ok_explicit_cons; [assumption|]); exact BOo).
    reflexivity.
Qed.

(* ---- the serialiser writes the RFC 793 layout ---- *)
From EP Require Import Roundtrip.Spec.

Definition S12 (ol : N) : bool :=
  if ol mod 4 =? 0 then all_bool (fun n => byte12_of ol n =? (5 + ol / 4) * 16 + bit n) else true.
Lemma sweepS12 : all_below 41 S12 = true.
Proof. vm_compute. reflexivity. Qed.

Lemma byte13_spec f s r p a u e c :
  byte13_of f s r p a u e c =
  bit c * 128 + bit e * 64 + bit u * 32 + bit a * 16 + bit p * 8 + bit r * 4 + bit s * 2 + bit f.
Proof. destruct f, s, r, p, a, u, e, c; vm_compute; reflexivity. Qed.

Theorem tcp_spec h : wf_tcp h = true ->
  to_bytes h = Some (tcp_layout (source_port h) (destination_port h) (sequence_number h)
    (acknowledgment_number h) (ns h) (cwr h) (ece h) (urg h) (ack h) (psh h) (rst h) (syn h) (fin h)
    (window_size h) (checksum h) (urgent_pointer h) (take (o_len (options h)) (o_buf (options h)))).
Proof.
  intros W. rewrite (to_bytes_wf h W). f_equal.
  destruct (wf_tcp_facts h W) as (_ & _ & _ & _ & _ & _ & _ & WO).
  destruct (opt_wf_facts _ WO) as (OL & OM & BL & BO).
  unfold tcp_layout. rewrite (len_take_opts h W).
  rewrite <- byte13_spec, <- byte13_is.
  pose proof (all_below_spec 41 S12 sweepS12 (o_len (options h)) ltac:(clear - OL; lia)) as S.
  unfold S12 in S. rewrite OM in S. change (0 =? 0) with true in S. cbv iota in S.
  pose proof (all_bool_spec _ S (ns h)) as S'. cbv beta in S'. apply N.eqb_eq in S'.
  rewrite <- S', <- byte12_is. reflexivity.
Qed.

(* TcpOptions::try_from_slice yields a well-formed buffer that starts with the data *)
Definition T40 (n : N) : bool :=
  let l := as_u8 n in
  let r := as_u8 (shl8 (shr l 2) 2 + (if nz (band l 3) then 4 else 0)) in
  (r <=? 40) && (r mod 4 =? 0) && (n <=? r) && (r <? n + 4).
Lemma sweepT40 : all_below 41 T40 = true.
Proof. vm_compute. reflexivity. Qed.

Lemma try_from_slice_wf s o : bytes_ok s -> opt_try_from_slice s = Some o ->
  wf_opt o = true /\ len s <= o_len o < len s + 4 /\ take (len s) (o_buf o) = s.
Proof.
  intros OK H. unfold opt_try_from_slice in H.
  destruct (40 <? len s) eqn:L; [discriminate|]. apply N.ltb_ge in L.
  apply Some_inj in H. subst o. cbn [o_len o_buf].
  pose proof (all_below_spec 41 T40 sweepT40 (len s) ltac:(clear - L; lia)) as S.
  unfold T40 in S. cbv zeta in S.
  set (r := as_u8 (shl8 (shr (as_u8 (len s)) 2) 2 + (if nz (band (as_u8 (len s)) 3) then 4 else 0))) in *.
  assert (Fs : r <= 40 /\ r mod 4 = 0 /\ len s <= r /\ r < len s + 4).
  { bsplit S. repeat split; assumption. }
  destruct Fs as (T1 & T2 & T3 & T4).
  split; [|split].
  - unfold wf_opt. cbn [o_len o_buf].
    replace (r <=? 40) with true by (symmetry; apply N.leb_le; exact T1). rewrite T2.
    change (0 =? 0) with true. cbn [andb].
    rewrite len_app, len_zeros.
    replace (len s + (40 - len s) =? 40) with true by (symmetry; apply N.eqb_eq; clear - L; lia).
    cbn [andb]. apply bytes_okb_spec, bytes_ok_app. split; [assumption|apply bytes_ok_zeros].
  - clear - T3 T4. lia.
  - apply take_app_len. reflexivity.
Qed.
