(* Roundtrip/IpHeadersIdem.v -- round 3 (c08id), audit top-12 item 12 (a):
   EXACT idempotence of decode . write . decode for IpHeaders.
   C08_IpHeaders_enc_dec returns `iph_written en h` (the value with the header checksum that
   Ipv4Header::write recomputes).  Here: for a DECODED value (buffers already zero behind the visible
   part: ip4_norm / x4_norm are the identity on it) `iph_written en h = h` holds exactly when the header
   checksum field -- which is bytes 10-11 of the wire -- is the one calc_header_checksum() computes, and
   decode(write(decode bs)) = decode bs holds exactly then.  Only compositions of existing models. *)
From EP Require Import Base.Bytes Checksum.Model.
From EP Require Import Roundtrip.Common Roundtrip.CommonProofs.
From EP Require Import Roundtrip.Ipv4 Roundtrip.Ipv4Proofs Roundtrip.Ipv6 Roundtrip.Ipv6Proofs.
From EP Require Import Roundtrip.Auth Roundtrip.AuthProofs Roundtrip.Exts4 Roundtrip.Exts4Proofs.
From EP Require Import Roundtrip.IpHeaders Roundtrip.IpHeadersProofs.
From EP Require ExtChain.Model Roundtrip.Exts6Proofs.
From Coq Require Import ZArith Lia ZifyN.
Local Open Scope N_scope.

(* the header checksum as it stands on the wire: bytes 10-11 (IPv4 only) *)
Definition iph_wire_checksum (bs : bytes) : option N :=
  match rd bs 10, rd bs 11 with
  | Some a, Some b => Some (be16 a b)
  | _, _ => None
  end.

Lemma ip4_set_checksum_eq_iff h ck : ip4_set_checksum h ck = h <-> i4_header_checksum h = ck.
Proof.
  split; intros H.
  - apply (f_equal i4_header_checksum) in H. cbn [ip4_set_checksum i4_header_checksum] in H. congruence.
  - destruct h as [a1 a2 a3 a4 a5 a6 a7 a8 a9 a10 a11 a12 a13]. cbn in H. subst. reflexivity.
Qed.

Lemma ip4_norm_set_checksum h ck : ip4_norm (ip4_set_checksum h ck) = ip4_set_checksum (ip4_norm h) ck.
Proof. reflexivity. Qed.

Lemma v4_tail_shape hd A h p : v4_tail hd A = Ok (h, p) ->
  exists e n r, h = IpV4 hd e /\ x4_from_slice (i4_protocol hd) A = Ok (e, n, r).
Proof.
  unfold v4_tail. destruct (x4_from_slice (i4_protocol hd) A) as [[[e n] r]|]; [|discriminate].
  intros H. apply Ok_inj in H. injection H as <- _. eauto.
Qed.

Lemma v6_tail_shape hd A ls h p : v6_tail hd A ls = Ok (h, p) -> exists e, h = IpV6 hd e.
Proof.
  unfold v6_tail. destruct (of_x6 _) as [[[e n] r]|]; [|discriminate].
  intros H. apply Ok_inj in H. injection H as <- _. eauto.
Qed.

(* what a successful decode says about an IPv4 value: header and extensions come from the two part
   decoders (so they are normal and well-formed) and the checksum field is the wire's *)
Lemma iph_from_ipv4_slice_parts bs h p : bytes_ok bs -> iph_from_ipv4_slice bs = Ok (h, p) ->
  exists hd e, h = IpV4 hd e /\ wf_ip4 hd = true /\ ip4_norm hd = hd /\ x4_norm e = e
    /\ iph_wire_checksum bs = Some (i4_header_checksum hd).
Proof.
  intros OK H. unfold iph_from_ipv4_slice in H.
  destruct (ip4_from_slice bs) as [[hd hrest]|] eqn:D4; [|discriminate].
  destruct (ip4_enc_dec bs hd hrest OK D4) as (W & NM & e0 & E0 & SPL & AG & _).
  cbv zeta in H.
  destruct (ip4_header_len hd <=? i4_total_len hd); [|discriminate].
  destruct (len hrest <? i4_total_len hd - ip4_header_len hd) eqn:T2; [discriminate|]. ltb_t T2.
  rewrite slice_range_eq in H by lia. rewrite N.sub_0_r, drop_0 in H.
  destruct (v4_tail_shape _ _ _ _ H) as (e & n & r & -> & DX).
  assert (OKH : bytes_ok hrest) by (rewrite SPL in OK; apply bytes_ok_app in OK; tauto).
  destruct (x4_enc_dec _ _ e n r (bytes_ok_take _ _ OKH) DX) as (_ & NX & _).
  exists hd, e. repeat split; try assumption.
  (* the checksum field = bytes 10-11 *)
  destruct (ip4_from_slice_inv bs hd hrest D4) as (b0 & _ & _ & I & L20 & LH & TH & _).
  set (hl := band b0 15 * 4) in *. ltb_t I. assert (HL : 20 <= hl) by (subst hl; lia).
  unfold iph_wire_checksum.
  rewrite <- (Exts6Proofs.rd_take_lt' bs hl 10) by lia. rewrite <- (Exts6Proofs.rd_take_lt' bs hl 11) by lia.
  unfold ip4_to_header in TH.
  destruct (take hl bs) as [|c0 [|c1 [|c2 [|c3 [|c4 [|c5 [|c6 [|c7 [|c8 [|c9 [|c10 [|c11 [|c12 [|c13 [|c14
    [|c15 [|c16 [|c17 [|c18 [|c19 os]]]]]]]]]]]]]]]]]]]]; try discriminate.
  destruct (40 <? len os); [discriminate|]. apply Ok_inj in TH. subst hd. reflexivity.
Qed.

Lemma iph_from_ipv6_slice_shape bs h p : iph_from_ipv6_slice bs = Ok (h, p) -> exists hd e, h = IpV6 hd e.
Proof.
  unfold iph_from_ipv6_slice. destruct (ip6_from_slice bs) as [[hd hr]|]; [|discriminate].
  destruct (_ && _).
  - intros H. destruct (v6_tail_shape _ _ _ _ _ H) as (e & ->). eauto.
  - cbv zeta. destruct (_ <? _); [discriminate|]. destruct (slice_range _ _ _); [|discriminate].
    intros H. destruct (v6_tail_shape _ _ _ _ _ H) as (e & ->). eauto.
Qed.

(* ---------------------------------------------------------------- (a) the written value IS the value *)
Theorem iph_written_exact en bs h p : bytes_ok bs -> iph_from_slice bs = Ok (h, p) ->
  (iph_checksum_ok en h = true <-> iph_written en h = h)
  /\ (forall hd e, h = IpV4 hd e -> iph_wire_checksum bs = Some (i4_header_checksum hd)).
Proof.
  intros OK H. destruct (iph_from_slice_version bs _ H) as (b0 & R0 & [[V D]|[V D]]).
  - destruct (iph_from_ipv4_slice_parts bs h p OK D) as (hd & e & -> & W & NM & NX & WC).
    split; [|intros hd' e' E; injection E as <- <-; exact WC].
    destruct (iph_calc_checksum_some en hd W) as (ck & ECK & _).
    unfold iph_checksum_ok, iph_written. rewrite ECK, ip4_norm_set_checksum, NM, NX. split; intros Q.
    + ltb_t Q. f_equal. apply ip4_set_checksum_eq_iff. exact Q.
    + injection Q as Q. apply N.eqb_eq. apply (f_equal i4_header_checksum) in Q.
      cbn [ip4_set_checksum i4_header_checksum] in Q. congruence.
  - destruct (iph_from_ipv6_slice_shape bs h p D) as (hd & e & ->).
    split; [split; reflexivity|discriminate].
Qed.

(* decode . write . decode = decode  <->  the wire checksum is correct *)
Theorem iph_idempotent en bs h p : bytes_ok bs -> iph_from_slice bs = Ok (h, p) ->
  exists w cons t, iph_write en h = (w, XM.Ok tt) /\ len w = iph_header_len h
    /\ bs = cons ++ ipp_payload p ++ t /\ len cons = iph_header_len h
    /\ iph_reencodes en h cons w
    /\ (iph_from_slice (w ++ ipp_payload p ++ t) = Ok (h, p) <-> iph_checksum_ok en h = true).
Proof.
  intros OK H. destruct (iph_enc_dec en bs h p OK H) as (_ & _ & w & cons & t & EW & LW & SP & LC & RE & D).
  destruct (iph_written_exact en bs h p OK H) as [IFF _].
  exists w, cons, t. repeat split; try assumption.
  - intros D'. rewrite D in D'. apply Ok_inj in D'. injection D' as D'. apply IFF. exact D'.
  - intros CK. rewrite D. apply IFF in CK. rewrite CK. reflexivity.
Qed.

(* ================================================================== positional masks for IpHeaders *)
(* (b) carried over to IpHeaders: the IPv6 half of iph_reencodes used the relation Exts6Proofs.hdr_eq;
   with Roundtrip/Exts6Mask.v the extension area is compared under the positional mask x6_keep_mask. *)
From EP Require Roundtrip.Exts6Mask.

Definition iph_reencodes_pos (en : endian) (h : IpHeaders) (cons w : bytes) : Prop :=
  match h with
  | IpV4 hd e => iph_reencodes en h cons w        (* byte masks + checksum bytes 10-11 already *)
  | IpV6 hd e =>
    exists xb, w = ip6_to_bytes hd ++ xb /\ take 40 cons = ip6_to_bytes hd
      /\ XM.write e (i6_next_header hd) = (xb, XM.Ok tt)
      /\ agree (Exts6Mask.x6_keep_mask e (i6_next_header hd)) xb (drop 40 cons)
  end.

(* ONE mask for the whole of IpHeaders (valid when the wire checksum is right; otherwise bytes 10-11 differ
   too: iph_reencodes) *)
Definition iph_keep_mask (h : IpHeaders) : bytes :=
  match h with
  | IpV4 hd e => ip4_keep_mask (ip4_header_len hd) ++ x4_keep_mask e
  | IpV6 hd e => ones 40 ++ Exts6Mask.x6_keep_mask e (i6_next_header hd)
  end.

Lemma app_len_inj {A} (a b x y : list A) : a ++ x = b ++ y -> len a = len b -> a = b.
Proof.
  intros E L. apply (f_equal (take (len a))) in E. rewrite XP.take_app_len in E.
  rewrite L, XP.take_app_len in E. exact E.
Qed.

Lemma iph_from_ipv6_slice_area bs hd e p : bytes_ok bs -> iph_from_ipv6_slice bs = Ok (IpV6 hd e, p) ->
  exists A t, bs = ip6_to_bytes hd ++ A ++ t /\ bytes_ok A
    /\ XM.from_slice (i6_next_header hd) A = XM.Ok (e, ipp_ip_number p, ipp_payload p).
Proof.
  intros OK H. unfold iph_from_ipv6_slice in H.
  destruct (ip6_from_slice bs) as [[hd' hrest]|] eqn:D6; [|discriminate].
  destruct (ip6_enc_dec bs hd' hrest OK D6) as (W & SPL & L40 & _).
  assert (OKH : bytes_ok hrest) by (rewrite SPL in OK; apply bytes_ok_app in OK; tauto).
  assert (TAIL : forall A ls, v6_tail hd' A ls = Ok (IpV6 hd e, p) ->
            hd' = hd /\ XM.from_slice (i6_next_header hd) A = XM.Ok (e, ipp_ip_number p, ipp_payload p)).
  { intros A ls T. unfold v6_tail in T.
    destruct (of_x6 (XM.from_slice (i6_next_header hd') A)) as [[[e' n'] r']|] eqn:D; [|discriminate].
    apply of_x6_ok in D. apply Ok_inj in T. injection T as -> -> <-. split; [reflexivity|exact D]. }
  destruct ((0 =? i6_payload_length hd') && (40 <? len bs)).
  - destruct (TAIL _ _ H) as [-> D]. exists hrest, []. rewrite app_nil_r. auto.
  - cbv zeta in H. destruct (len hrest <? i6_payload_length hd') eqn:T; [discriminate|]. ltb_t T.
    rewrite slice_range_eq in H by lia. rewrite N.sub_0_r, drop_0 in H.
    destruct (TAIL _ _ H) as [-> D].
    exists (take (i6_payload_length hd) hrest), (drop (i6_payload_length hd) hrest).
    rewrite take_drop. split; [exact SPL|]. split; [apply bytes_ok_take; exact OKH|exact D].
Qed.

Theorem iph_enc_dec_mask en bs h p : bytes_ok bs -> iph_from_slice bs = Ok (h, p) ->
  exists w cons t, iph_write en h = (w, XM.Ok tt) /\ len w = iph_header_len h
    /\ bs = cons ++ ipp_payload p ++ t /\ len cons = iph_header_len h
    /\ iph_reencodes_pos en h cons w
    /\ len (iph_keep_mask h) = iph_header_len h
    /\ (iph_checksum_ok en h = true -> agree (iph_keep_mask h) w cons).
Proof.
  intros OK H. destruct (iph_enc_dec en bs h p OK H) as (PW & _ & w & cons & t & EW & LW & SP & LC & RE & _).
  exists w, cons, t. split; [exact EW|]. split; [exact LW|]. split; [exact SP|]. split; [exact LC|].
  destruct h as [hd e|hd e].
  - (* IPv4 *)
    unfold iph_parts_wf in PW. apply andb_true_iff in PW. destruct PW as [W WX].
    split; [exact RE|].
    destruct RE as (e0 & ck & xb & E0 & AG & ECK & EWB & EXB & AGX).
    assert (LM : len (iph_keep_mask (IpV4 hd e)) = iph_header_len (IpV4 hd e)).
    { destruct AG as (A1 & _ & _). destruct AGX as (A2 & _ & _). cbn [iph_keep_mask iph_header_len].
      rewrite len_app, <- A1, <- A2.
      destruct (ip4_ser_agree hd [] W) as (e1 & E1 & _ & L1). rewrite E0 in E1. apply Some_inj in E1. subst e1.
      rewrite L1. f_equal. cbn [iph_header_len] in LW. rewrite EWB, !len_app in LW.
      assert (L10 : len (take 10 e0 ++ u16_to_be ck ++ drop 12 e0) = len e0).
      { destruct (iph_calc_checksum_some en hd W) as (ck' & ECK' & LCK). rewrite ECK in ECK'. apply Some_inj in ECK'.
        subst ck'. pose proof (ip4_set_checksum_bytes hd ck e0 W LCK E0) as SB.
        destruct (ip4_ser_agree _ [] (wf_set_checksum hd ck W LCK)) as (e2 & E2 & _ & L2).
        rewrite SB in E2. apply Some_inj in E2. subst e2. rewrite L2. unfold ip4_header_len in *. cbn. lia. }
      rewrite !len_app in L10. lia. }
    split; [exact LM|].
    intros CK. unfold iph_checksum_ok in CK. rewrite ECK in CK. ltb_t CK.
    destruct (iph_calc_checksum_some en hd W) as (ck' & ECK' & LCK). rewrite ECK in ECK'. apply Some_inj in ECK'.
    subst ck'. pose proof (ip4_set_checksum_bytes hd ck e0 W LCK E0) as SB.
    rewrite (proj2 (ip4_set_checksum_eq_iff hd ck) CK), E0 in SB. apply Some_inj in SB.
    rewrite EWB, <- SB. cbn [iph_keep_mask].
    rewrite <- (take_drop (ip4_header_len hd) cons). exact (Exts6Mask.agree_app _ _ _ _ _ _ AG AGX).
  - (* IPv6 *)
    destruct RE as (xb & EWB & T40 & EXW & HE).
    destruct (iph_from_slice_version bs _ H) as (b0 & R0 & [[V D]|[V D]]).
    { destruct (iph_from_ipv4_slice_parts bs _ p OK D) as (hd4 & e4 & E4 & _). discriminate. }
    destruct (iph_from_ipv6_slice_area bs hd e p OK D) as (A & t' & SPA & OKA & DX).
    destruct (Exts6Mask.exts6_enc_dec_mask _ A e _ _ OKA DX) as (V6 & xb' & cons' & EXW' & _ & SPX & AGM & _ & LXB & _).
    rewrite EXW in EXW'. injection EXW' as <-.
    assert (LC' : len cons' = XM.header_len e) by (rewrite <- (agree_len _ _ _ AGM); exact LXB).
    assert (L40 : len (ip6_to_bytes hd) = 40).
    { rewrite <- T40. rewrite len_take. cbn [iph_header_len] in LC. lia. }
    assert (EC : cons = ip6_to_bytes hd ++ cons').
    { apply (app_len_inj cons (ip6_to_bytes hd ++ cons') (ipp_payload p ++ t) (ipp_payload p ++ t')).
      - rewrite <- SP, SPA, SPX, <- !app_assoc. reflexivity.
      - rewrite len_app, L40, LC', LC. reflexivity. }
    assert (D40 : drop 40 cons = cons') by (rewrite EC; apply XP.drop_app_eq; symmetry; exact L40).
    assert (AG2 : agree (Exts6Mask.x6_keep_mask e (i6_next_header hd)) xb (drop 40 cons)) by (rewrite D40; exact AGM).
    split; [exists xb; split; [exact EWB|split; [exact T40|split; [exact EXW|exact AG2]]]|].
    assert (A40 : agree (ones 40) (ip6_to_bytes hd) (ip6_to_bytes hd)).
    { repeat split; rewrite ?len_ones; exact L40. }
    split.
    { cbn [iph_keep_mask iph_header_len]. rewrite len_app, len_ones. destruct AGM as (M1 & _). rewrite <- M1, LXB.
      reflexivity. }
    intros _. cbn [iph_keep_mask]. rewrite EWB. rewrite EC at 1. rewrite <- D40.
    apply Exts6Mask.agree_app; assumption.
Qed.

(* ================================================================== one mask, every accepted input *)
(* without the checksum hypothesis: the IPv4 mask with bytes 10-11 (the header checksum, which write
   recomputes) cleared as well *)
Lemma masked_firstn m : forall k a, masked (firstn m k) (firstn m a) = firstn m (masked k a).
Proof.
  induction m as [|m IH]; intros [|x k] [|y a]; cbn [firstn masked]; try reflexivity.
  rewrite IH. reflexivity.
Qed.
Lemma masked_skipn m : forall k a, masked (skipn m k) (skipn m a) = skipn m (masked k a).
Proof.
  induction m as [|m IH]; intros [|x k] [|y a]; cbn [skipn masked]; try reflexivity;
    try (destruct (skipn m a); reflexivity); try (destruct (skipn m k); reflexivity).
  apply IH.
Qed.

Definition clear_10_11 (k : bytes) : bytes := take 10 k ++ [0; 0] ++ drop 12 k.

Lemma agree_clear_10_11 k a c x : agree k a c -> 12 <= len k -> len x = 2 ->
  agree (clear_10_11 k) (take 10 a ++ x ++ drop 12 a) c.
Proof.
  intros (LA & LC & M) L12 LX. unfold agree, clear_10_11.
  rewrite !len_app, !len_take, !len_drop, LX. change (len [0; 0]) with 2.
  split; [lia|]. split; [lia|].
  rewrite <- (take_drop 10 c) at 1. rewrite <- (take_drop 2 (drop 10 c)). rewrite drop_drop. change (10 + 2) with 12.
  destruct x as [|x0 [|x1 [|x2 x]]]; try (rewrite ?len_cons, ?len_nil in LX; lia).
  assert (T2 : exists c0 c1, take 2 (drop 10 c) = [c0; c1]).
  { assert (L : len (take 2 (drop 10 c)) = 2) by (rewrite len_take, len_drop; lia).
    destruct (take 2 (drop 10 c)) as [|c0 [|c1 [|c2 r]]]; try (rewrite ?len_cons, ?len_nil in L; lia). eauto. }
  destruct T2 as (c0 & c1 & ->).
  rewrite !masked_app.
  - unfold take, drop. rewrite !masked_firstn, !masked_skipn, M. cbn [masked]. rewrite !N.land_0_r. reflexivity.
  - reflexivity.
  - apply Nat2N.inj. fold (len (take 10 k)) (len (take 10 c)). rewrite !len_take. lia.
  - reflexivity.
  - apply Nat2N.inj. fold (len (take 10 k)) (len (take 10 a)). rewrite !len_take. lia.
Qed.

(* the mask of IpHeaders for EVERY accepted byte string: ok = "the wire checksum is right" *)
Definition iph_keep_mask_ck (ok : bool) (h : IpHeaders) : bytes :=
  match h with
  | IpV4 hd e => (if ok then ip4_keep_mask (ip4_header_len hd) else clear_10_11 (ip4_keep_mask (ip4_header_len hd)))
                 ++ x4_keep_mask e
  | IpV6 hd e => ones 40 ++ Exts6Mask.x6_keep_mask e (i6_next_header hd)
  end.

Theorem iph_enc_dec_mask_any en bs h p : bytes_ok bs -> iph_from_slice bs = Ok (h, p) ->
  exists w cons t, iph_write en h = (w, XM.Ok tt) /\ bs = cons ++ ipp_payload p ++ t
    /\ agree (iph_keep_mask_ck (iph_checksum_ok en h) h) w cons.
Proof.
  intros OK H. destruct (iph_enc_dec_mask en bs h p OK H) as (w & cons & t & EW & LW & SP & LC & RE & LM & AGK).
  exists w, cons, t. split; [exact EW|]. split; [exact SP|].
  destruct (iph_checksum_ok en h) eqn:CK.
  - specialize (AGK eq_refl). destruct h; exact AGK.
  - destruct h as [hd e|hd e]; [|discriminate CK].
    cbn [iph_reencodes_pos iph_reencodes] in RE.
    destruct RE as (e0 & ck & xb & E0 & AG & ECK & EWB & EXB & AGX).
    cbn [iph_keep_mask_ck]. rewrite EWB. rewrite <- (take_drop (ip4_header_len hd) cons).
    apply Exts6Mask.agree_app; [|exact AGX].
    apply agree_clear_10_11; [exact AG| |reflexivity].
    unfold ip4_keep_mask, ip4_header_len. rewrite !len_app, !len_ones. change (len [127]) with 1. lia.
Qed.
