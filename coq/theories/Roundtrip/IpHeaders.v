(* Roundtrip/IpHeaders.v -- model of etherparse IpHeaders (net/ip_headers.rs):
     enum IpHeaders { Ipv4(Ipv4Header, Ipv4Extensions), Ipv6(Ipv6Header, Ipv6Extensions) }
   from_slice (version dispatch), from_ipv4_slice, from_ipv6_slice, read, write, header_len,
   next_header, set_next_headers, set_payload_len, is_fragmenting_payload.

   COMPOSED from the existing models, nothing of them is repeated here:
     Ipv4Header / Ipv4HeaderSlice      Roundtrip/Ipv4.v      (C08, first round)
     Ipv6Header / Ipv6HeaderSlice      Roundtrip/Ipv6.v      (extend-c08a)
     IpAuthHeader, Ipv4Extensions      Roundtrip/Auth.v, Roundtrip/Exts4.v (extend-c08a)
     Ipv6Extensions                    ExtChain/Model.v      (C12: Exts6, from_slice, write, next_header, ...)
     Ipv6Extensions::read_limited      ExtChain/ReadModel.v  (C12: read6 true)
     LimitedReader, Cursor             IoFault/Model.v (limrd, lr_new, lr_read_exact), ExtChain.ReadModel.cursor
   New here (no model existed): IpAuthHeader::read_limited / Ipv4Extensions::read_limited on the
   Roundtrip IpAuthHeader (ah_read_limited, x4_read_limited: the reader-side twins of Auth.ah_read /
   Exts4.x4_read, over C12's reader primitives rd_exact / start_layer), Ipv4Extensions::next_header /
   set_next_headers on the Roundtrip struct, Ipv4Header::{is_fragmenting_payload, set_payload_len,
   max_payload_len}, Ipv6Header::set_payload_length.

   Results of the decoders: Roundtrip.Common.res (ELen / EContent / EIo; EOOB, EPanic = partial
   primitives: unchecked read outside, slice index panic, usize underflow, the Panic / OutOfFuel
   outcomes of the C12 model -- shown unreachable).  Error CONTENTS are property C07's.
   Results of the walkers (next_header, write): C12's res with err::ip_exts::ExtsWalkError =
   ExtChain.Model.ip_walk_error.  usize is unbounded N except in set_payload_len's checked_add. *)
From EP Require Import Base.Bytes Roundtrip.Common Checksum.Model.
From EP Require Import Roundtrip.Ipv4 Roundtrip.Ipv6 Roundtrip.Auth Roundtrip.Exts4.
From EP Require IoFault.Spec IoFault.Model ExtChain.Spec ExtChain.Model ExtChain.ReadModel.
Local Open Scope N_scope.

(* C12's / C16's definitions are used qualified (Roundtrip.Common and ExtChain.Model both have
   `res`, `Ok`, `Err`, `slice_from`); no module aliases: monolithic extraction cannot handle them *)

Inductive IpHeaders :=
| IpV4 (header : Ipv4Header) (exts : Ipv4Extensions)
| IpV6 (header : Ipv6Header) (exts : ExtChain.Model.Exts6).

(* LenSource as it appears in IpPayloadSlice *)
Inductive LenSource := LsSlice | LsIpv4HeaderTotalLen | LsIpv6HeaderPayloadLen.

Record IpPayload := {
  ipp_ip_number : N;
  ipp_fragmented : bool;
  ipp_len_source : LenSource;
  ipp_payload : bytes }.

(* content error codes of this file (err::ip::HeaderError / ip_exts): what C07 checks in detail *)
Definition C_UNSUPPORTED_VERSION (v : N) : derr := EContent (1000 + v).
Definition C_HOP_NOT_AT_START : derr := EContent 1.
Definition C_AUTH_ZERO_LEN : derr := EContent 0.

(* Ipv4Header::is_fragmenting_payload *)
Definition ip4_is_fragmenting_payload (h : Ipv4Header) : bool :=
  i4_more_fragments h || nz (i4_fragment_offset h).

(* err::ipv6_exts::HeaderSliceError -> derr; Panic / OutOfFuel of the C12 model -> EPanic *)
Definition of_x6 {A} (r : ExtChain.Model.res ExtChain.Model.hdr_slice_error A) : res A :=
  match r with
  | ExtChain.Model.Ok a => Ok a
  | ExtChain.Model.Err (ExtChain.Model.HLen _) => Err ELen
  | ExtChain.Model.Err ExtChain.Model.HHopByHopNotAtStart => Err C_HOP_NOT_AT_START
  | ExtChain.Model.Err ExtChain.Model.HIpAuthZeroPayloadLen => Err C_AUTH_ZERO_LEN
  | ExtChain.Model.Panic => Err EPanic
  | ExtChain.Model.OutOfFuel => Err EPanic
  end.

(* ---------------------------------------------------------------- the two tails shared by the
   three slice decoders (the Rust text repeats them; same statements) *)

(* let (exts, next, rest) = Ipv4Extensions::from_slice(header.protocol, rest).map_err(..)?;
   Ok((IpHeaders::Ipv4(header, exts), IpPayloadSlice{ next, header.is_fragmenting_payload(),
       Ipv4HeaderTotalLen, rest })) *)
Definition v4_tail (header : Ipv4Header) (rest : bytes) : res (IpHeaders * IpPayload) :=
  match x4_from_slice (i4_protocol header) rest with
  | Err e => Err e
  | Ok (exts, next_protocol, rest') =>
    Ok (IpV4 header exts,
        {| ipp_ip_number := next_protocol; ipp_fragmented := ip4_is_fragmenting_payload header;
           ipp_len_source := LsIpv4HeaderTotalLen; ipp_payload := rest' |})
  end.

(* let (exts, next_header, rest) = Ipv6Extensions::from_slice(header.next_header, header_payload).map_err(..)?;
   Ok((IpHeaders::Ipv6(header, exts), IpPayloadSlice{ next_header, exts.is_fragmenting_payload(), len_source, rest })) *)
Definition v6_tail (header : Ipv6Header) (header_payload : bytes) (len_source : LenSource)
  : res (IpHeaders * IpPayload) :=
  match of_x6 (ExtChain.Model.from_slice (i6_next_header header) header_payload) with
  | Err e => Err e
  | Ok (exts, next_header, rest) =>
    Ok (IpV6 header exts,
        {| ipp_ip_number := next_header; ipp_fragmented := ExtChain.Model.is_fragmenting_payload exts;
           ipp_len_source := len_source; ipp_payload := rest |})
  end.

(* ---------------------------------------------------------------- IpHeaders::from_slice *)
Definition iph_from_slice (slice : bytes) : res (IpHeaders * IpPayload) :=
  if len slice =? 0 then Err ELen                       (* slice.is_empty() *)
  else
    match rd slice 0 with
    | None => Err EPanic                                (* slice[0] *)
    | Some b0 =>
      let version := shr b0 4 in
      if version =? 4 then
        if len slice <? 20 then Err ELen
        else
          let ihl := band b0 15 in                      (* get_unchecked(0) & 0xf *)
          if ihl <? 5 then Err (EContent ihl)
          else
            let header_len := ihl * 4 in
            if len slice <? header_len then Err ELen
            else
              (* Ipv4HeaderSlice::from_slice_unchecked(from_raw_parts(ptr, header_len)).to_header() *)
              match ip4_to_header (take header_len slice) with
              | Err e => Err e
              | Ok header =>
                let total_len := i4_total_len header in
                if total_len <? header_len then Err ELen          (* Ipv4HeaderTotalLen / Ipv4Packet *)
                else if len slice <? total_len then Err ELen       (* Slice / Ipv4Packet *)
                else
                  (* from_raw_parts(ptr.add(header_len), total_len - header_len) *)
                  match slice_range slice header_len total_len with
                  | None => Err EOOB
                  | Some rest => v4_tail header rest
                  end
              end
      else if version =? 6 then
        if len slice <? 40 then Err ELen
        else
          (* Ipv6HeaderSlice::from_slice_unchecked(from_raw_parts(ptr, 40)).to_header() *)
          match ip6_to_header (take 40 slice) with
          | Err e => Err e
          | Ok header =>
            if (0 =? i6_payload_length header) && (40 <? len slice) then
              (* jumbogram work-around: everything behind the header *)
              match slice_range slice 40 (len slice) with
              | None => Err EOOB
              | Some header_payload => v6_tail header header_payload LsSlice
              end
            else
              let payload_len := i6_payload_length header in
              let expected_len := 40 + payload_len in
              if len slice <? expected_len then Err ELen            (* Slice / Ipv6Packet *)
              else
                match slice_range slice 40 (40 + payload_len) with
                | None => Err EOOB
                | Some header_payload => v6_tail header header_payload LsIpv6HeaderPayloadLen
                end
          end
      else Err (C_UNSUPPORTED_VERSION version)
    end.

(* ---------------------------------------------------------------- IpHeaders::from_ipv4_slice *)
Definition iph_from_ipv4_slice (slice : bytes) : res (IpHeaders * IpPayload) :=
  match ip4_from_slice slice with                       (* Ipv4Header::from_slice(slice).map_err(..)? *)
  | Err e => Err e
  | Ok (header, header_rest) =>
    let total_len := i4_total_len header in
    let header_len := ip4_header_len header in
    if header_len <=? total_len then
      let payload_len := total_len - header_len in
      if len header_rest <? payload_len then Err ELen   (* payload_len > header_rest.len() *)
      else
        (* from_raw_parts(header_rest.as_ptr(), payload_len) *)
        match slice_range header_rest 0 payload_len with
        | None => Err EOOB
        | Some header_rest' => v4_tail header header_rest'
        end
    else Err ELen
  end.

(* ---------------------------------------------------------------- IpHeaders::from_ipv6_slice *)
Definition iph_from_ipv6_slice (slice : bytes) : res (IpHeaders * IpPayload) :=
  match ip6_from_slice slice with                       (* Ipv6Header::from_slice(slice).map_err(..)? *)
  | Err e => Err e
  | Ok (header, header_rest) =>
    if (0 =? i6_payload_length header) && (40 <? len slice) then
      v6_tail header header_rest LsSlice
    else
      let payload_len := i6_payload_length header in
      if len header_rest <? payload_len then Err ELen
      else
        match slice_range header_rest 0 payload_len with
        | None => Err EOOB
        | Some header_payload => v6_tail header header_payload LsIpv6HeaderPayloadLen
        end
  end.

(* ---------------------------------------------------------------- readers behind a LimitedReader *)
(* IpAuthHeader::read_limited on the Roundtrip struct (twin of Auth.ah_read): reader.start_layer(IpAuthHeader);
   read_exact(12); payload_len >= 1; read_exact(&mut buffer[..(payload_len - 1) * 4]) *)
Definition ah_read_limited (st : IoFault.Model.rstate) : IoFault.Model.qres IpAuthHeader * IoFault.Model.rstate :=
  ExtChain.ReadModel.qbind (ExtChain.ReadModel.start_layer true IoFault.Model.L_AUTH st) (fun _ st =>
  ExtChain.ReadModel.qbind (ExtChain.ReadModel.rd_exact st 12) (fun start st =>
    match start with
    | [b0; b1; _; _; b4; b5; b6; b7; b8; b9; b10; b11] =>
      if b1 <? 1 then (IoFault.Model.QContent IoFault.Model.CAuthZeroLen, st)
      else
        let n := (b1 - 1) * 4 in
        if AH_MAX_ICV_LEN <? n then (IoFault.Model.QBad, st)        (* &mut buffer[..n] *)
        else ExtChain.ReadModel.qbind (ExtChain.ReadModel.rd_exact st n) (fun icv st =>
               (IoFault.Model.QOk {| ah_next_header := b0; ah_spi := be32 b4 b5 b6 b7;
                          ah_sequence_number := be32 b8 b9 b10 b11;
                          ah_raw_icv_len := b1 - 1;
                          ah_raw_icv_buffer := icv ++ zeros (AH_MAX_ICV_LEN - n) |}, st))
    | _ => (IoFault.Model.QBad, st)
    end)).

(* Ipv4Extensions::read_limited *)
Definition x4_read_limited (st : IoFault.Model.rstate) (start_ip_number : N)
  : IoFault.Model.qres (Ipv4Extensions * N) * IoFault.Model.rstate :=
  if X4_AUTH =? start_ip_number then
    ExtChain.ReadModel.qbind (ah_read_limited st) (fun header st =>
      (IoFault.Model.QOk ({| x4_auth := Some header |}, ah_next_header header), st))
  else (IoFault.Model.QOk ({| x4_auth := None |}, start_ip_number), st).

(* what is left in the Cursor, and the error mapping of IpHeaders::read
   (Io -> Io, Len -> Len, Content -> Content(Ipv4Ext / Ipv6Ext)) *)
Definition of_q {A} (r : IoFault.Model.qres A * IoFault.Model.rstate) : res (A * bytes) :=
  match r with
  | (IoFault.Model.QOk a, st) => Ok (a, IoFault.Spec.src_data (IoFault.Model.rs_src st))
  | (IoFault.Model.QIo _, _) => Err EIo
  | (IoFault.Model.QLen _, _) => Err ELen
  | (IoFault.Model.QContent IoFault.Model.CHopNotAtStart, _) => Err C_HOP_NOT_AT_START
  | (IoFault.Model.QContent IoFault.Model.CAuthZeroLen, _) => Err C_AUTH_ZERO_LEN
  | (IoFault.Model.QContent _, _) => Err EPanic
  | (IoFault.Model.QUnderflow, _) => Err EPanic
  | (IoFault.Model.QBad, _) => Err EPanic
  | (IoFault.Model.QFuel, _) => Err EPanic
  end.

(* LimitedReader::new(reader, max_len, len_source, layer_offset, layer) around the Cursor at r *)
Definition limited (r : bytes) (max_len len_source layer_offset layer : N) : IoFault.Model.rstate :=
  IoFault.Model.mk_rstate (ExtChain.ReadModel.cursor r) (Some (IoFault.Model.lr_new max_len len_source layer_offset layer)).

(* ---------------------------------------------------------------- IpHeaders::read *)
Definition iph_read (r : bytes) : res (IpHeaders * N * bytes) :=
  match read_exact r 1 with                              (* let mut buf = [0; 1]; read_exact *)
  | Err e => Err e
  | Ok (buf, r1) =>
    match buf with
    | [value] =>
      let version := shr value 4 in
      if version =? 4 then
        let ihl := band value 15 in
        if ihl <? 5 then Err (EContent ihl)
        else
          let header_len := ihl * 4 in                   (* u16::from(ihl) * 4 *)
          if 60 <? header_len then Err EPanic            (* &mut buffer[1..header_len], buffer: [u8; 60] *)
          else
            match read_exact r1 (header_len - 1) with
            | Err e => Err e
            | Ok (more, r2) =>
              (* Ipv4HeaderSlice::from_slice_unchecked(&buffer[..header_len]).to_header() *)
              match ip4_to_header (value :: more) with
              | Err e => Err e
              | Ok header =>
                let total_len := i4_total_len header in
                if total_len <? header_len then Err ELen
                else
                  match of_q (x4_read_limited
                                (limited r2 (total_len - header_len) IoFault.Model.LS_IPV4_TOTAL header_len IoFault.Model.L_IPV4H)
                                (i4_protocol header)) with
                  | Err e => Err e
                  | Ok ((ext, next), r3) => Ok (IpV4 header ext, next, r3)
                  end
              end
            end
      else if version =? 6 then
        match ip6_read_without_version r1 (band value 15) with
        | Err e => Err e
        | Ok (header, r2) =>
          match of_q (ExtChain.ReadModel.read6 true (i6_next_header header)
                        (limited r2 (i6_payload_length header) IoFault.Model.LS_IPV6_PAYLOAD (ip6_header_len header)
                                 IoFault.Model.L_IPV6H)) with
          | Err e => Err e
          | Ok ((ext, next), r3) => Ok (IpV6 header ext, next, r3)
          end
        end
      else Err (C_UNSUPPORTED_VERSION version)
    | _ => Err EOOB
    end
  end.

(* ---------------------------------------------------------------- IpHeaders::write (into an empty Vec) *)
(* the Vec content (also after an error: the IP header has gone out before the extensions are
   looked at) and the result.  ExtChain.Model.Panic = an undefined / panicking primitive of a part
   (to_bytes of an ill-formed header). *)
Definition iph_write (en : endian) (h : IpHeaders) : bytes * ExtChain.Model.res ExtChain.Model.ip_walk_error unit :=
  match h with
  | IpV4 header extensions =>
    match ip4_write en [] header with                    (* header.write(writer): recomputes the checksum *)
    | None => ([], ExtChain.Model.Panic)
    | Some out =>
      match x4_write out extensions (i4_protocol header) with
      | Ok out' => (out', ExtChain.Model.Ok tt)
      | Err (EContent _) => (out, ExtChain.Model.Err (ExtChain.Model.Ipv4Exts (ExtChain.Model.ExtNotReferenced ExtChain.Model.AUTH)))
      | Err _ => (out, ExtChain.Model.Panic)
      end
    end
  | IpV6 header extensions =>
    let out := ip6_write [] header in
    match ExtChain.Model.write extensions (i6_next_header header) with
    | (bs, r) => (out ++ bs, ExtChain.Model.map_err ExtChain.Model.Ipv6Exts r)
    end
  end.

(* IpHeaders::header_len *)
Definition iph_header_len (h : IpHeaders) : N :=
  match h with
  | IpV4 header extensions => ip4_header_len header + x4_header_len extensions
  | IpV6 _ extensions => 40 + ExtChain.Model.header_len extensions
  end.

(* Ipv4Extensions::next_header on the Roundtrip struct *)
Definition x4_next_header (e : Ipv4Extensions) (first_next_header : N) : ExtChain.Model.res ExtChain.Model.walk_error N :=
  match x4_auth e with
  | Some a =>
    if first_next_header =? X4_AUTH then ExtChain.Model.Ok (ah_next_header a)
    else ExtChain.Model.Err (ExtChain.Model.ExtNotReferenced ExtChain.Model.AUTH)
  | None => ExtChain.Model.Ok first_next_header
  end.

(* IpHeaders::next_header *)
Definition iph_next_header (h : IpHeaders) : ExtChain.Model.res ExtChain.Model.ip_walk_error N :=
  match h with
  | IpV4 header extensions => ExtChain.Model.map_err ExtChain.Model.Ipv4Exts (x4_next_header extensions (i4_protocol header))
  | IpV6 header extensions => ExtChain.Model.map_err ExtChain.Model.Ipv6Exts (ExtChain.Model.next_header extensions (i6_next_header header))
  end.

Definition ah_set_next_header (h : IpAuthHeader) (n : N) : IpAuthHeader :=
  {| ah_next_header := n; ah_spi := ah_spi h; ah_sequence_number := ah_sequence_number h;
     ah_raw_icv_len := ah_raw_icv_len h; ah_raw_icv_buffer := ah_raw_icv_buffer h |}.

(* Ipv4Extensions::set_next_headers *)
Definition x4_set_next_headers (e : Ipv4Extensions) (last_protocol_number : N) : Ipv4Extensions * N :=
  match x4_auth e with
  | Some header => ({| x4_auth := Some (ah_set_next_header header last_protocol_number) |}, X4_AUTH)
  | None => ({| x4_auth := None |}, last_protocol_number)
  end.

Definition ip4_set_protocol (h : Ipv4Header) (p : N) : Ipv4Header :=
  {| i4_dscp := i4_dscp h; i4_ecn := i4_ecn h; i4_total_len := i4_total_len h;
     i4_identification := i4_identification h; i4_dont_fragment := i4_dont_fragment h;
     i4_more_fragments := i4_more_fragments h; i4_fragment_offset := i4_fragment_offset h;
     i4_time_to_live := i4_time_to_live h; i4_protocol := p;
     i4_header_checksum := i4_header_checksum h; i4_source := i4_source h;
     i4_destination := i4_destination h; i4_options := i4_options h |}.
Definition ip4_set_total_len (h : Ipv4Header) (t : N) : Ipv4Header :=
  {| i4_dscp := i4_dscp h; i4_ecn := i4_ecn h; i4_total_len := t;
     i4_identification := i4_identification h; i4_dont_fragment := i4_dont_fragment h;
     i4_more_fragments := i4_more_fragments h; i4_fragment_offset := i4_fragment_offset h;
     i4_time_to_live := i4_time_to_live h; i4_protocol := i4_protocol h;
     i4_header_checksum := i4_header_checksum h; i4_source := i4_source h;
     i4_destination := i4_destination h; i4_options := i4_options h |}.
Definition ip6_set_next_header (h : Ipv6Header) (n : N) : Ipv6Header :=
  {| i6_traffic_class := i6_traffic_class h; i6_flow_label := i6_flow_label h;
     i6_payload_length := i6_payload_length h; i6_next_header := n; i6_hop_limit := i6_hop_limit h;
     i6_source := i6_source h; i6_destination := i6_destination h |}.
Definition ip6_set_payload_len (h : Ipv6Header) (l : N) : Ipv6Header :=
  {| i6_traffic_class := i6_traffic_class h; i6_flow_label := i6_flow_label h;
     i6_payload_length := l; i6_next_header := i6_next_header h; i6_hop_limit := i6_hop_limit h;
     i6_source := i6_source h; i6_destination := i6_destination h |}.

(* IpHeaders::set_next_headers: updated value and the returned EtherType *)
Definition iph_set_next_headers (h : IpHeaders) (last_next_header : N) : IpHeaders * N :=
  match h with
  | IpV4 header extensions =>
    let '(e', p) := x4_set_next_headers extensions last_next_header in
    (IpV4 (ip4_set_protocol header p) e', ExtChain.Model.ETHER_IPV4)
  | IpV6 header extensions =>
    let '(e', n) := ExtChain.Model.set_next_headers extensions last_next_header in
    (IpV6 (ip6_set_next_header header n) e', ExtChain.Model.ETHER_IPV6)
  end.

(* Ipv4Header::max_payload_len (u16) / set_payload_len; Ipv6Header::set_payload_length.
   None = Err(ValueTooBigError) (contents: property C14) *)
Definition USIZE_MAX : N := 18446744073709551615.
Definition ip4_max_payload_len (h : Ipv4Header) : N := 65535 - i4o_len (i4_options h) - 20.
Definition ip4_set_payload_len (h : Ipv4Header) (value : N) : option Ipv4Header :=
  if ip4_max_payload_len h <? value then None
  else Some (ip4_set_total_len h (as_u16 (ip4_header_len h + value))).
Definition ip6_set_payload_length (h : Ipv6Header) (size : N) : option Ipv6Header :=
  if 65535 <? size then None else Some (ip6_set_payload_len h (as_u16 size)).

(* IpHeaders::set_payload_len: len.checked_add(exts.header_len()) on usize *)
Definition iph_set_payload_len (h : IpHeaders) (l : N) : option IpHeaders :=
  match h with
  | IpV4 header exts =>
    let complete_len := l + x4_header_len exts in
    if USIZE_MAX <? complete_len then None
    else match ip4_set_payload_len header complete_len with
         | Some header' => Some (IpV4 header' exts)
         | None => None
         end
  | IpV6 header exts =>
    let complete_len := l + ExtChain.Model.header_len exts in
    if USIZE_MAX <? complete_len then None
    else match ip6_set_payload_length header complete_len with
         | Some header' => Some (IpV6 header' exts)
         | None => None
         end
  end.

(* IpHeaders::is_fragmenting_payload *)
Definition iph_is_fragmenting_payload (h : IpHeaders) : bool :=
  match h with
  | IpV4 header _ => ip4_is_fragmenting_payload header
  | IpV6 _ exts => ExtChain.Model.is_fragmenting_payload exts
  end.

(* ---------------------------------------------------------------- statement vocabulary *)
(* derive(PartialEq): the parts' PartialEq (Ipv4Options / IpAuthHeader compare the visible slices;
   the Exts6 model already is the visible part) *)
Definition iph_eq (a b : IpHeaders) : Prop :=
  match a, b with
  | IpV4 h1 e1, IpV4 h2 e2 => ip4_eqb h1 h2 = true /\ x4_eqb e1 e2 = true
  | IpV6 h1 e1, IpV6 h2 e2 => h1 = h2 /\ e1 = e2
  | _, _ => False
  end.

(* the number behind the headers *)
Definition iph_final (h : IpHeaders) : N :=
  match iph_next_header h with ExtChain.Model.Ok n => n | _ => 0 end.

(* the length the IP header announces for the whole packet; None: IPv6 payload_length 0
   ("up to the end of the data", RFC 2675 work-around of the slice decoders) *)
Definition iph_announced (h : IpHeaders) : option N :=
  match h with
  | IpV4 header _ => Some (i4_total_len header)
  | IpV6 header _ => if i6_payload_length header =? 0 then None else Some (40 + i6_payload_length header)
  end.

(* well-formed: the parts are (field ranges, buffer sizes: the Rust type invariants), the chain is
   linked from the IP header's protocol / next_header field to a number that is not an extension
   header (what set_next_headers establishes; for IPv4 only "AH present <=> protocol = 51"), and the
   length field covers the headers (what set_payload_len establishes): total_len >= header_len, IPv6
   payload_length >= length of the extensions (so 0 only without extensions). *)
Definition iph_wf (h : IpHeaders) : bool :=
  match h with
  | IpV4 header exts =>
    wf_ip4 header && wf_x4 exts && x4_linked (i4_protocol header) exts
    && (ip4_header_len header + x4_header_len exts <=? i4_total_len header)
  | IpV6 header exts =>
    wf_ip6 header && ExtChain.Model.exts6_valid exts
    && match ExtChain.Model.next_header exts (i6_next_header header) with
       | ExtChain.Model.Ok n => negb (ExtChain.Spec.is_ext_number n)
       | _ => false
       end
    && (ExtChain.Model.header_len exts <=? i6_payload_length header)
  end.

(* the value the decoders return for the bytes `write` emits: header checksum as written
   (Ipv4Header::write recomputes it), option / ICV buffers zero behind the visible part *)
Definition iph_written (en : endian) (h : IpHeaders) : IpHeaders :=
  match h with
  | IpV4 header exts =>
    IpV4 (ip4_norm (ip4_set_checksum header
                      (match ip4_calc_checksum en header with Some ck => ck | None => 0 end)))
         (x4_norm exts)
  | IpV6 header exts => IpV6 header exts
  end.

(* the header checksum field is the one Ipv4Header::write computes *)
Definition iph_checksum_ok (en : endian) (h : IpHeaders) : bool :=
  match h with
  | IpV4 header _ =>
    match ip4_calc_checksum en header with Some ck => i4_header_checksum header =? ck | None => false end
  | IpV6 _ _ => true
  end.

(* the parts satisfy their Rust type invariants (nothing about links or lengths) *)
Definition iph_parts_wf (h : IpHeaders) : bool :=
  match h with
  | IpV4 header exts => wf_ip4 header && wf_x4 exts
  | IpV6 header exts => wf_ip6 header && ExtChain.Model.exts6_valid exts
  end.
(* the version-specific slice decoder for h's version *)
Definition iph_from_version_slice (h : IpHeaders) : bytes -> res (IpHeaders * IpPayload) :=
  match h with IpV4 _ _ => iph_from_ipv4_slice | IpV6 _ _ => iph_from_ipv6_slice end.

(* what from_slice reports about the payload behind a well-formed h: the slice is
   write(h) ++ payload ++ t, t = bytes behind the announced packet (cut off by the decoder) *)
Definition iph_payload_desc (h : IpHeaders) (payload : bytes) : IpPayload :=
  {| ipp_ip_number := iph_final h;
     ipp_fragmented := iph_is_fragmenting_payload h;
     ipp_len_source :=
       match h with
       | IpV4 _ _ => LsIpv4HeaderTotalLen
       | IpV6 header _ =>
         if (0 =? i6_payload_length header) && (0 <? len payload) then LsSlice else LsIpv6HeaderPayloadLen
       end;
     ipp_payload := payload |}.
(* "payload of the announced length": the length field covers exactly headers + payload; when the
   IPv6 payload_length is 0 everything up to the end of the slice is payload *)
Definition iph_payload_fits (h : IpHeaders) (payload t : bytes) : Prop :=
  match iph_announced h with
  | Some a => iph_header_len h + len payload = a
  | None => t = []
  end.
(* the reader (Cursor) holds the bytes the LimitedReader of IpHeaders::read may be asked for:
   hypothesis of C12's read_limited theorems (budget within the data); IPv4 needs nothing *)
Definition iph_read_room (h : IpHeaders) (rest : bytes) : Prop :=
  match h with
  | IpV4 _ _ => True
  | IpV6 header exts => i6_payload_length header - ExtChain.Model.header_len exts <= len rest
  end.

(* ---------------------------------------------------------------- helpers of the model runner
   (ocaml/run_c08_iph.ml.in): results as numbers, so that the runner does not depend on how the
   monolithic extraction renames the constructors of the second `res` type *)
Definition walk_err_code (e : ExtChain.Model.walk_error) : N * N :=
  match e with
  | ExtChain.Model.HopByHopNotAtStart => (1, 0)
  | ExtChain.Model.ExtNotReferenced m => (2, m)
  end.
(* (version 0|4|6, kind 0 ok | 1 hop-by-hop not at start | 2 not referenced | 9 panic / fuel, value) *)
Definition walk_code {A} (val : A -> N) (r : ExtChain.Model.res ExtChain.Model.ip_walk_error A) : N * N * N :=
  match r with
  | ExtChain.Model.Ok a => (0, 0, val a)
  | ExtChain.Model.Err (ExtChain.Model.Ipv4Exts e) => (4, fst (walk_err_code e), snd (walk_err_code e))
  | ExtChain.Model.Err (ExtChain.Model.Ipv6Exts e) => (6, fst (walk_err_code e), snd (walk_err_code e))
  | ExtChain.Model.Panic => (0, 9, 0)
  | ExtChain.Model.OutOfFuel => (0, 9, 1)
  end.
Definition iph_next_header_code (h : IpHeaders) : N * N * N := walk_code (fun n => n) (iph_next_header h).
Definition iph_write_code (en : endian) (h : IpHeaders) : bytes * (N * N * N) :=
  (fst (iph_write en h), walk_code (fun _ => 0) (snd (iph_write en h))).
Definition ls_code (l : LenSource) : N :=
  match l with LsSlice => 0 | LsIpv4HeaderTotalLen => 4 | LsIpv6HeaderPayloadLen => 6 end.
