(* Roundtrip/IpHeadersBuild.v -- the crate's own setters establish iph_wf:
   for every IpHeaders value whose parts are in range, set_next_headers(n) followed by a successful
   set_payload_len(k) yields a well-formed value (Roundtrip/IpHeaders.v: iph_wf) that announces exactly
   header_len + k bytes and walks to n -- so the hypotheses of C08_IpHeaders_dec_enc are what a user
   of the public API gets.  Linking of the IPv6 chain: property C12 (ExtChain.Proofs.link_walks). *)
From EP Require Import Base.Bytes Roundtrip.Common Roundtrip.CommonProofs Roundtrip.LinkNetLemmas.
From EP Require Import Roundtrip.Ipv4 Roundtrip.Ipv4Proofs Roundtrip.Ipv6 Roundtrip.Ipv6Proofs.
From EP Require Import Roundtrip.Auth Roundtrip.AuthProofs Roundtrip.Exts4 Roundtrip.Exts4Proofs.
From EP Require Import Roundtrip.IpHeaders Roundtrip.IpHeadersProofs.
From EP Require ExtChain.Spec ExtChain.Model ExtChain.Proofs.
From Coq Require Import ZArith Lia ZifyN.
Local Open Scope N_scope.

Module XM := EP.ExtChain.Model.
Module XP := EP.ExtChain.Proofs.
Module XS := EP.ExtChain.Spec.

(* ---- set_next_headers keeps the parts in range (same case split as Builder/Proofs.v snh6_facts) ---- *)
Lemma raw_set_valid h n : XM.raw_valid h = true -> n < 256 -> XM.raw_valid (XM.raw_set_next_header h n) = true.
Proof.
  unfold XM.raw_valid, XM.raw_set_next_header. cbn. intros V Hn. apply N.ltb_lt in Hn. rewrite Hn.
  rewrite !andb_true_iff in V. rewrite !andb_true_iff. intuition.
Qed.
Lemma frag_set_valid h n : XM.frag_valid h = true -> n < 256 -> XM.frag_valid (XM.frag_set_next_header h n) = true.
Proof.
  unfold XM.frag_valid, XM.frag_set_next_header. cbn. intros V Hn. apply N.ltb_lt in Hn. rewrite Hn.
  rewrite !andb_true_iff in V. rewrite !andb_true_iff. intuition.
Qed.
Lemma auth_set_valid h n : XM.auth_valid h = true -> n < 256 -> XM.auth_valid (XM.auth_set_next_header h n) = true.
Proof.
  unfold XM.auth_valid, XM.auth_set_next_header. cbn. intros V Hn. apply N.ltb_lt in Hn. rewrite Hn.
  rewrite !andb_true_iff in V. rewrite !andb_true_iff. intuition.
Qed.

Lemma set_next_headers_facts x n : XM.exts6_valid x = true -> n < 256 ->
  XM.exts6_valid (fst (XM.set_next_headers x n)) = true /\
  snd (XM.set_next_headers x n) < 256 /\
  XM.header_len (fst (XM.set_next_headers x n)) = XM.header_len x.
Proof.
  intros V Hn. apply XP.exts6_valid_inv in V. destruct V as (Vh & Vd & Vr & Vf & Va).
  assert (K : forall m, m = n \/ m = XM.IPV6_DEST_OPTIONS \/ m = XM.AUTH \/ m = XM.IPV6_FRAG
                        \/ m = XM.IPV6_ROUTE \/ m = XM.IPV6_HOP_BY_HOP -> m < 256).
  { intros m [E|[E|[E|[E|[E|E]]]]]; subst m; try exact Hn; vm_compute; reflexivity. }
  destruct x as [[h|] [d|] [[rt [fd|]]|] [fr|] [a|]];
    cbn [XM.opt_valid XM.hop_by_hop_options XM.destination_options XM.routing XM.fragment XM.auth] in Vh, Vd, Vr, Vf, Va;
    try (apply XP.routing_valid_inv in Vr; destruct Vr as [Vrt Vfd];
         cbn [XM.opt_valid XM.rt_routing XM.rt_final_destination_options] in Vrt, Vfd);
    unfold XM.set_next_headers; cbn;
    (split; [|split; [apply K; tauto|reflexivity]]);
    unfold XM.exts6_valid, XM.routing_valid; cbn;
    rewrite ?raw_set_valid, ?frag_set_valid, ?auth_set_valid by (try assumption; apply K; tauto);
    reflexivity.
Qed.

Lemma wf_ip4_set h p t : wf_ip4 h = true -> p < 256 -> t < 65536 ->
  wf_ip4 (ip4_set_total_len (ip4_set_protocol h p) t) = true.
Proof.
  unfold wf_ip4, ip4_set_total_len, ip4_set_protocol. cbn. intros W Hp Ht. apply N.ltb_lt in Hp, Ht.
  rewrite Hp, Ht. rewrite !andb_true_iff in W. rewrite !andb_true_iff. intuition.
Qed.
Lemma wf_ip6_set h n l : wf_ip6 h = true -> n < 256 -> l < 65536 ->
  wf_ip6 (ip6_set_payload_len (ip6_set_next_header h n) l) = true.
Proof.
  unfold wf_ip6, ip6_set_payload_len, ip6_set_next_header. cbn. intros W Hn Hl. apply N.ltb_lt in Hn, Hl.
  rewrite Hn, Hl. rewrite !andb_true_iff in W. rewrite !andb_true_iff. intuition.
Qed.
Lemma wf_ah_set h n : wf_ah h = true -> n < 256 -> wf_ah (ah_set_next_header h n) = true.
Proof.
  unfold wf_ah, ah_set_next_header. cbn. intros W Hn. apply N.ltb_lt in Hn. rewrite Hn.
  rewrite !andb_true_iff in W. rewrite !andb_true_iff. intuition.
Qed.

(* the condition on the last number: not an extension header of the version (an IPv4 chain without
   authentication header must not end on 51; with one, any number) *)
Definition iph_last_ok (h : IpHeaders) (n : N) : bool :=
  (n <? 256) &&
  match h with
  | IpV4 _ e => match x4_auth e with Some _ => true | None => negb (n =? 51) end
  | IpV6 _ _ => negb (XS.is_ext_number n)
  end.

Theorem iph_built_wf h n k h' : iph_parts_wf h = true -> iph_last_ok h n = true ->
  iph_set_payload_len (fst (iph_set_next_headers h n)) k = Some h' ->
  iph_wf h' = true /\ iph_final h' = n /\ iph_header_len h' = iph_header_len h
  /\ iph_announced h' = (match h' with
                         | IpV6 _ _ => if iph_header_len h' - 40 + k =? 0 then None else Some (iph_header_len h' + k)
                         | IpV4 _ _ => Some (iph_header_len h' + k)
                         end).
Proof.
  intros PW LO SP. unfold iph_last_ok in LO. apply andb_true_iff in LO. destruct LO as [Hn LO]. ltb_t Hn.
  destruct h as [hd e|hd e]; unfold iph_parts_wf in PW; apply andb_true_iff in PW; destruct PW as [W V].
  - (* IPv4 *)
    unfold iph_set_next_headers, x4_set_next_headers in SP.
    destruct (wf_ip4_facts hd W) as (_ & _ & _ & WO). destruct (wf_i4o_facts _ WO) as (OL & _).
    destruct (x4_auth e) as [a|] eqn:EA; cbn [fst] in SP; unfold iph_set_payload_len in SP.
    + unfold x4_header_len in SP. cbn [x4_auth] in SP.
      destruct (USIZE_MAX <? _); [discriminate|].
      unfold ip4_set_payload_len in SP.
      destruct (ip4_max_payload_len _ <? _) eqn:MX; [discriminate|]. ltb_t MX.
      apply Some_inj in SP. subst h'.
      unfold ip4_max_payload_len in MX. cbn [ip4_set_protocol i4_options] in MX.
      unfold wf_x4 in V. rewrite EA in V.
      set (t := as_u16 _).
      assert (T : t = ip4_header_len hd + (k + ah_header_len a)).
      { subst t. unfold as_u16. apply N.mod_small. unfold ip4_header_len in *. cbn [ip4_set_protocol i4_options].
        change (ah_header_len (ah_set_next_header a n)) with (ah_header_len a) in *. lia. }
      change (ah_header_len (ah_set_next_header a n)) with (ah_header_len a) in *.
      assert (TL : t < 65536) by (rewrite T; unfold ip4_header_len; lia).
      split.
      { unfold iph_wf. rewrite (wf_ip4_set hd X4_AUTH t W ltac:(unfold X4_AUTH; lia) TL).
        unfold wf_x4, x4_linked, x4_header_len. cbn [x4_auth i4_protocol ip4_set_total_len ip4_set_protocol].
        rewrite (wf_ah_set a n V Hn). change (X4_AUTH =? X4_AUTH) with true. cbn [andb].
        apply N.leb_le. change (ah_header_len (ah_set_next_header a n)) with (ah_header_len a).
        change (ip4_header_len (ip4_set_total_len (ip4_set_protocol hd X4_AUTH) t)) with (ip4_header_len hd).
        cbn [i4_total_len ip4_set_total_len]. rewrite T. lia. }
      split; [reflexivity|]. split; [unfold iph_header_len, x4_header_len; rewrite EA; reflexivity|].
      unfold iph_announced, iph_header_len, x4_header_len. cbn [x4_auth i4_total_len ip4_set_total_len].
      change (ah_header_len (ah_set_next_header a n)) with (ah_header_len a).
      change (ip4_header_len (ip4_set_total_len (ip4_set_protocol hd X4_AUTH) t)) with (ip4_header_len hd).
      f_equal. lia.
    + unfold x4_header_len in SP. cbn [x4_auth] in SP.
      destruct (USIZE_MAX <? _); [discriminate|].
      unfold ip4_set_payload_len in SP.
      destruct (ip4_max_payload_len _ <? _) eqn:MX; [discriminate|]. ltb_t MX.
      apply Some_inj in SP. subst h'.
      unfold ip4_max_payload_len in MX. cbn [ip4_set_protocol i4_options] in MX.
      set (t := as_u16 _).
      assert (T : t = ip4_header_len hd + (k + 0)).
      { subst t. unfold as_u16. apply N.mod_small. unfold ip4_header_len in *. cbn [ip4_set_protocol i4_options]. lia. }
      assert (TL : t < 65536) by (rewrite T; unfold ip4_header_len; lia).
      destruct (n =? 51) eqn:N51; [discriminate|].
      split.
      { unfold iph_wf. rewrite (wf_ip4_set hd n t W Hn TL).
        unfold wf_x4, x4_linked, x4_header_len. cbn [x4_auth i4_protocol ip4_set_total_len ip4_set_protocol].
        unfold X4_AUTH. rewrite (N.eqb_sym 51 n), N51. cbn [andb negb].
        apply N.leb_le. change (ip4_header_len (ip4_set_total_len (ip4_set_protocol hd n) t)) with (ip4_header_len hd).
        cbn [i4_total_len ip4_set_total_len]. rewrite T. lia. }
      split; [reflexivity|]. split; [unfold iph_header_len, x4_header_len; rewrite EA; reflexivity|].
      unfold iph_announced, iph_header_len, x4_header_len. cbn [x4_auth i4_total_len ip4_set_total_len].
      change (ip4_header_len (ip4_set_total_len (ip4_set_protocol hd n) t)) with (ip4_header_len hd).
      f_equal. lia.
  - (* IPv6 *)
    destruct (XS.is_ext_number n) eqn:NE; [discriminate|].
    unfold iph_set_next_headers in SP.
    destruct (set_next_headers_facts e n V Hn) as (V' & N' & HL').
    pose proof (XP.link_walks e n NE) as LW.
    destruct (XM.set_next_headers e n) as [e' nh'] eqn:SN. cbn [fst snd] in *.
    unfold iph_set_payload_len in SP. destruct (USIZE_MAX <? _); [discriminate|].
    unfold ip6_set_payload_length in SP.
    destruct (65535 <? k + XM.header_len e') eqn:MX; [discriminate|]. ltb_t MX.
    apply Some_inj in SP. subst h'.
    assert (T : as_u16 (k + XM.header_len e') = k + XM.header_len e') by (unfold as_u16; apply N.mod_small; lia).
    rewrite T.
    split.
    { unfold iph_wf. rewrite (wf_ip6_set hd nh' (k + XM.header_len e') W N' ltac:(lia)). rewrite V'.
      cbn [i6_next_header i6_payload_length ip6_set_payload_len ip6_set_next_header]. rewrite LW, NE.
      cbn [andb negb]. apply N.leb_le. lia. }
    split; [unfold iph_final, iph_next_header; cbn [i6_next_header ip6_set_payload_len ip6_set_next_header];
            rewrite LW; reflexivity|].
    split; [unfold iph_header_len; rewrite HL'; reflexivity|].
    unfold iph_announced, iph_header_len. cbn [i6_payload_length ip6_set_payload_len].
    replace (40 + XM.header_len e' - 40 + k) with (k + XM.header_len e') by lia.
    destruct (k + XM.header_len e' =? 0); [reflexivity|]. f_equal. lia.
Qed.
