(* Roundtrip/Spec.v -- the wire layouts as the RFCs draw them, written with
   plain arithmetic (multiplication by powers of two, big-endian digits) and no
   reference to the Rust code.  These are the oracles of the correspondence run
   and the right-hand sides of the `*_spec` theorems. *)
From EP Require Import Base.Bytes Roundtrip.Common.
Local Open Scope N_scope.

(* big-endian field of n octets *)
Definition field (n : nat) (v : N) : bytes := to_be n v.
Definition bit (b : bool) : N := if b then 1 else 0.

(* RFC 793 section 3.1 (+ RFC 3168 CWR/ECE, RFC 3540 NS):
    0                   1                   2                   3
   |          Source Port          |       Destination Port        |
   |                        Sequence Number                        |
   |                    Acknowledgment Number                      |
   | Offset| Rsrvd |N|C|E|U|A|P|R|S|F|            Window           |
   |           Checksum            |         Urgent Pointer        |
   |                    Options                    |    Padding    |
   Data Offset = number of 32 bit words in the header. *)
Definition tcp_layout (sp dp sq ak : N) (ns cwr ece urg ack psh rst syn fin : bool)
           (win ck up : N) (opts : bytes) : bytes :=
  field 2 sp ++ field 2 dp ++ field 4 sq ++ field 4 ak
  ++ [(5 + len opts / 4) * 16 + bit ns;
      bit cwr * 128 + bit ece * 64 + bit urg * 32 + bit ack * 16 + bit psh * 8 + bit rst * 4
      + bit syn * 2 + bit fin]
  ++ field 2 win ++ field 2 ck ++ field 2 up ++ opts.

(* RFC 791 section 3.1 (+ RFC 2474 DSCP, RFC 3168 ECN):
   |Version|  IHL  |    DSCP   |ECN|          Total Length         |
   |         Identification        |0|D|M|     Fragment Offset     |
   |  Time to Live |    Protocol   |         Header Checksum       |
   |                       Source Address                          |
   |                    Destination Address                        |
   |                    Options                    |    Padding    |
   IHL = header length in 32 bit words. *)
Definition ipv4_layout (dscp ecn tl id : N) (df mf : bool) (fo ttl proto ck : N)
           (src dst opts : bytes) : bytes :=
  [4 * 16 + (5 + len opts / 4); dscp * 4 + ecn] ++ field 2 tl ++ field 2 id
  ++ field 2 ((bit df * 2 + bit mf) * 8192 + fo)
  ++ [ttl; proto] ++ field 2 ck ++ src ++ dst ++ opts.

(* RFC 8200 section 4.5, fragment header:
   |  Next Header  |   Reserved    |      Fragment Offset    |Res|M|
   |                         Identification                        | *)
Definition frag_layout (nh fo : N) (mf : bool) (id : N) : bytes :=
  [nh; 0] ++ field 2 (fo * 8 + bit mf) ++ field 4 id.
