(* Roundtrip/Igmp.v -- model of etherparse IgmpHeader / IgmpType: to_bytes (ArrayVec<u8,12>,
   set_len(8) for the 8-byte kinds), header_len, from_slice.  IgmpHeader has no
   write / write_to_slice / read.  The DECODING side (IgmpHeader::from_slice, header_len)
   is the C17 model CtlMsg/Model.v (module Igmp), imported unchanged; the value
   vocabulary (IgmpType) is the one of CtlMsg/Spec.v. *)
From EP Require Import Base.Bytes.
From EP Require Import CtlMsg.Spec CtlMsg.Model.
From EP Require Import Roundtrip.Common.
Local Open Scope N_scope.

Record IgmpHeader := { igmp_type : IgmpType; igmp_checksum : N }.

(* IgmpHeader::header_len *)
Definition igmp_header_len (h : IgmpHeader) : N := Igmp.header_len (igmp_type h).

(* ArrayVec::from([u8; 12]) followed by set_len(n) *)
Definition igmp_set_len (arr : bytes) (n : N) : option bytes :=
  if n <=? len arr then Some (take n arr) else None.

(* the common shape of the seven arms: 8 bytes + 4 zeros, set_len(8) *)
Definition igmp_arm8 (ck : bytes) (b0 b1 b4 b5 b6 b7 : N) : option bytes :=
  match ck with
  | [c0; c1] => igmp_set_len [b0; b1; c0; c1; b4; b5; b6; b7; 0; 0; 0; 0] 8
  | _ => None
  end.

(* IgmpHeader::to_bytes *)
Definition igmp_to_bytes (h : IgmpHeader) : option bytes :=
  let c := u16_to_be (igmp_checksum h) in
  match igmp_type h with
  | IgMembershipQuery max_response_time g0 g1 g2 g3 => igmp_arm8 c 17 max_response_time g0 g1 g2 g3
  | IgMembershipQueryWithSources max_response_code g0 g1 g2 g3 raw_byte_8 qqic num_of_sources =>
    match c, u16_to_be num_of_sources with
    | [c0; c1], [n0; n1] => Some [17; max_response_code; c0; c1; g0; g1; g2; g3; raw_byte_8; qqic; n0; n1]
    | _, _ => None
    end
  | IgMembershipReportV1 g0 g1 g2 g3 => igmp_arm8 c 18 0 g0 g1 g2 g3      (* byte 1: unused *)
  | IgMembershipReportV2 g0 g1 g2 g3 => igmp_arm8 c 22 0 g0 g1 g2 g3      (* "Max Resp Time" unused *)
  | IgMembershipReportV3 f0 f1 num_of_records =>
    match u16_to_be num_of_records with
    | [n0; n1] => igmp_arm8 c 34 0 f0 f1 n0 n1                            (* byte 1: reserved *)
    | _ => None
    end
  | IgLeaveGroup g0 g1 g2 g3 => igmp_arm8 c 23 0 g0 g1 g2 g3              (* "Max Resp Time" unused *)
  | IgUnknown t raw_byte_1 b4 b5 b6 b7 => igmp_arm8 c t raw_byte_1 b4 b5 b6 b7
  end.

(* IgmpHeader::from_slice (C17 model), repackaged as (header, rest) *)
Definition igmp_from_slice (s : bytes) : res (IgmpHeader * bytes) :=
  match Igmp.from_slice s with
  | CtlMsg.Spec.Ok (ty, ck, rest) => Ok ({| igmp_type := ty; igmp_checksum := ck |}, rest)
  | CtlMsg.Spec.ErrLen _ => Err ELen
  | CtlMsg.Spec.UB _ => Err EOOB
  end.

(* well-formed: fields in the range of their Rust type; the raw variant only for type
   numbers without typed variant (0x11, 0x12, 0x16, 0x17, 0x22 have one) *)
Definition igmp_typed (t : N) : bool :=
  (t =? 17) || (match lookup1 t igmp_table with Some _ => true | None => false end).
Definition wf_igmp_type (ty : IgmpType) : bool :=
  match ty with
  | IgMembershipQuery m g0 g1 g2 g3 => (m <? 256) && (g0 <? 256) && (g1 <? 256) && (g2 <? 256) && (g3 <? 256)
  | IgMembershipQueryWithSources m g0 g1 g2 g3 r8 q n =>
    (m <? 256) && (g0 <? 256) && (g1 <? 256) && (g2 <? 256) && (g3 <? 256) && (r8 <? 256) && (q <? 256)
    && (n <? 65536)
  | IgMembershipReportV1 g0 g1 g2 g3 | IgMembershipReportV2 g0 g1 g2 g3 | IgLeaveGroup g0 g1 g2 g3 =>
    (g0 <? 256) && (g1 <? 256) && (g2 <? 256) && (g3 <? 256)
  | IgMembershipReportV3 f0 f1 n => (f0 <? 256) && (f1 <? 256) && (n <? 65536)
  | IgUnknown t r1 b4 b5 b6 b7 =>
    (t <? 256) && (r1 <? 256) && (b4 <? 256) && (b5 <? 256) && (b6 <? 256) && (b7 <? 256)
    && negb (igmp_typed t)
  end.
Definition wf_igmp (h : IgmpHeader) : bool := wf_igmp_type (igmp_type h) && (igmp_checksum h <? 65536).

(* the 8-byte query: an encoding followed by more bytes is a DIFFERENT message
   (IGMPv3 query with sources when >= 4 bytes follow, rejected when 1-3 follow) *)
Definition igmp_is_query8 (ty : IgmpType) : bool :=
  match ty with IgMembershipQuery _ _ _ _ _ => true | _ => false end.

(* bits that survive decode -> encode: byte 1 (max resp time / reserved) of the v1/v2/v3
   reports and of leave group is written as 0 *)
Definition igmp_keep_mask (t n : N) : bytes :=
  [255; (if (t =? 18) || (t =? 22) || (t =? 23) || (t =? 34) then 0 else 255)] ++ ones (n - 2).
