(* Roundtrip/Sll.v -- model of etherparse LinuxSllHeader / LinuxSllHeaderSlice
   (link/linux_sll_header.rs, linux_sll_header_slice.rs, linux_sll_packet_type.rs,
   linux_sll_protocol_type.rs, linux_nonstandard_ether_type.rs): to_bytes, write,
   write_to_slice, header_len, from_slice, from_bytes, read, and the content rules
   (LinuxSllPacketType::try_from, LinuxSllProtocolType::try_from, LinuxNonstandardEtherType::try_from).
   Prefix sll_.  Constants are the literals of the crate (ArpHardwareId::{ETHERNET=1, FRAD=770,
   IPGRE=778, IEEE80211_RADIOTAP=803, NETLINK=824}, LinuxSllPacketType::MAX_VAL=7); the
   correspondence run enumerates them and their neighbours. *)
From EP Require Import Base.Bytes Roundtrip.Common.
Local Open Scope N_scope.

Inductive SllProtocolType :=
| SllIgnored (v : N)
| SllNetlink (v : N)                (* NetlinkProtocolType(u16) *)
| SllGre (v : N)                    (* GenericRoutingEncapsulationProtocolType(u16) *)
| SllEtherType (v : N)              (* EtherType(EtherType) *)
| SllNonstd (v : N).                (* LinuxNonstandardEtherType(LinuxNonstandardEtherType) *)

Record LinuxSllHeader := {
  sll_packet_type : N;                    (* LinuxSllPacketType(u16), private field, 0..=7 *)
  sll_arp_hrd_type : N;                   (* ArpHardwareId(u16) *)
  sll_sender_address_valid_length : N;    (* u16 *)
  sll_sender_address : bytes;             (* [u8;8] *)
  sll_protocol_type : SllProtocolType }.

Definition sll_header_len (h : LinuxSllHeader) : N := 16.

(* LinuxSllPacketType::try_from(u16): 0..=7 => Ok, 8..=u16::MAX => Err *)
Definition sll_packet_type_try_from (v : N) : option N := if v <=? 7 then Some v else None.

(* LinuxNonstandardEtherType::try_from(u16): the exhaustive range match, top to bottom *)
Definition sll_nonstd_try_from (v : N) : option N :=
  if v =? 0 then None
  else if v <=? 9 then Some v               (* 0x0001 ..= 0x0009 *)
  else if v <=? 11 then None                (* 0x000A ..= 0x000B *)
  else if v <=? 14 then Some v              (* 0x000C ..= 0x000E *)
  else if v =? 15 then None                 (* 0x000F *)
  else if v <=? 17 then Some v              (* 0x0010, 0x0011 *)
  else if v <=? 20 then None                (* 0x0012 ..= 0x0014 *)
  else if v <=? 28 then Some v              (* 0x0015 ..= 0x001C *)
  else if v <=? 244 then None               (* 0x001D ..= 0x00F4 *)
  else if v <=? 250 then Some v             (* 0x00F5 ..= 0x00FA *)
  else None.                                (* 0x00FB ..= u16::MAX *)

(* LinuxSllProtocolType::try_from((ArpHardwareId, u16)) *)
Definition sll_protocol_try_from (hrd v : N) : option SllProtocolType :=
  if hrd =? 824 then Some (SllNetlink v)          (* NETLINK *)
  else if hrd =? 778 then Some (SllGre v)         (* IPGRE *)
  else if hrd =? 803 then Some (SllIgnored v)     (* IEEE80211_RADIOTAP *)
  else if hrd =? 770 then Some (SllIgnored v)     (* FRAD *)
  else if hrd =? 1 then                           (* ETHERNET *)
    match sll_nonstd_try_from v with
    | Some n => Some (SllNonstd n)
    | None => Some (SllEtherType v)
    end
  else None.

(* u16::from(LinuxSllProtocolType) *)
Definition sll_protocol_u16 (p : SllProtocolType) : N :=
  match p with SllIgnored v | SllNetlink v | SllGre v | SllEtherType v | SllNonstd v => v end.

Definition sll_to_bytes (h : LinuxSllHeader) : bytes :=
  u16_to_be (sll_packet_type h) ++ u16_to_be (sll_arp_hrd_type h)
  ++ u16_to_be (sll_sender_address_valid_length h) ++ sll_sender_address h
  ++ u16_to_be (sll_protocol_u16 (sll_protocol_type h)).

Definition sll_write (out : bytes) (h : LinuxSllHeader) : bytes := out ++ sll_to_bytes h.

Definition sll_write_to_slice (slice : bytes) (h : LinuxSllHeader) : res (bytes * bytes) :=
  if len slice <? 16 then Err ELen
  else if negb (len (sll_to_bytes h) =? 16) then Err EPanic
  else Ok (sll_to_bytes h ++ drop 16 slice, drop 16 slice).

(* from_bytes([u8;16]); EContent 0 = UnsupportedPacketTypeField, EContent 1 = UnsupportedArpHardwareId *)
Definition sll_from_bytes (b : bytes) : res LinuxSllHeader :=
  match b with
  | [b0; b1; b2; b3; b4; b5; b6; b7; b8; b9; b10; b11; b12; b13; b14; b15] =>
    match sll_packet_type_try_from (be16 b0 b1) with
    | None => Err (EContent 0)
    | Some pt =>
      let hrd := be16 b2 b3 in
      match sll_protocol_try_from hrd (be16 b14 b15) with
      | None => Err (EContent 1)
      | Some p =>
        Ok {| sll_packet_type := pt; sll_arp_hrd_type := hrd;
              sll_sender_address_valid_length := be16 b4 b5;
              sll_sender_address := [b6; b7; b8; b9; b10; b11; b12; b13];
              sll_protocol_type := p |}
      end
    end
  | _ => Err EPanic
  end.

(* LinuxSllHeaderSlice::from_slice: unchecked u16 reads at 0, 2, 14 after the length check *)
Definition sll_rd16 (s : bytes) (i j : N) : option N :=
  match rd s i, rd s j with Some a, Some b => Some (be16 a b) | _, _ => None end.

Definition sll_slice_from_slice (s : bytes) : res bytes :=
  if len s <? 16 then Err ELen
  else match sll_rd16 s 0 1, sll_rd16 s 2 3, sll_rd16 s 14 15 with
       | Some ptv, Some hrd, Some prv =>
         match sll_packet_type_try_from ptv with
         | None => Err (EContent 0)
         | Some _ =>
           match sll_protocol_try_from hrd prv with
           | None => Err (EContent 1)
           | Some _ => Ok (take 16 s)
           end
         end
       | _, _, _ => Err EOOB
       end.

(* to_header: accessors; try_from(..).unwrap_unchecked() is undefined on Err (EOOB) *)
Definition sll_to_header (s : bytes) : res LinuxSllHeader :=
  match sll_rd16 s 0 1, sll_rd16 s 2 3, sll_rd16 s 4 5, slice_range s 6 14, sll_rd16 s 14 15 with
  | Some ptv, Some hrd, Some savl, Some addr, Some prv =>
    match sll_packet_type_try_from ptv, sll_protocol_try_from hrd prv with
    | Some pt, Some p =>
      Ok {| sll_packet_type := pt; sll_arp_hrd_type := hrd; sll_sender_address_valid_length := savl;
            sll_sender_address := addr; sll_protocol_type := p |}
    | _, _ => Err EOOB
    end
  | _, _, _, _, _ => Err EOOB
  end.

Definition sll_from_slice (s : bytes) : res (LinuxSllHeader * bytes) :=
  match sll_slice_from_slice s with
  | Err e => Err e
  | Ok hs =>
    match sll_to_header hs with
    | Err e => Err e
    | Ok h => match slice_from s 16 with
              | None => Err EPanic
              | Some rest => Ok (h, rest)
              end
    end
  end.

(* read: read_exact(16); LinuxSllHeader::from_bytes(buffer)? *)
Definition sll_read (r : bytes) : res (LinuxSllHeader * bytes) :=
  match read_exact r 16 with
  | Err e => Err e
  | Ok (buf, r1) => match sll_from_bytes buf with
                    | Err e => Err e
                    | Ok h => Ok (h, r1)
                    end
  end.

(* field ranges of the Rust types *)
Definition sll_in_range (h : LinuxSllHeader) : bool :=
  (sll_packet_type h <=? 7) && (sll_arp_hrd_type h <? 65536)
  && (sll_sender_address_valid_length h <? 65536)
  && (len (sll_sender_address h) =? 8) && bytes_okb (sll_sender_address h)
  && (sll_protocol_u16 (sll_protocol_type h) <? 65536).

(* "typed variants used wherever a number has one, fields mutually consistent": the protocol
   type variant is the one that belongs to the ARP hardware id (which must be a supported one),
   LinuxNonstandardEtherType holds one of its constants, EtherType none of them *)
Definition sll_consistent (h : LinuxSllHeader) : bool :=
  let hrd := sll_arp_hrd_type h in
  match sll_protocol_type h with
  | SllNetlink _ => hrd =? 824
  | SllGre _ => hrd =? 778
  | SllIgnored _ => (hrd =? 803) || (hrd =? 770)
  | SllNonstd v => (hrd =? 1) && (match sll_nonstd_try_from v with Some _ => true | None => false end)
  | SllEtherType v => (hrd =? 1) && (match sll_nonstd_try_from v with Some _ => false | None => true end)
  end.

Definition wf_sll (h : LinuxSllHeader) : bool := sll_in_range h && sll_consistent h.
