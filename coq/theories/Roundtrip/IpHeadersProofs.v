(* Roundtrip/IpHeadersProofs.v -- lemmas for the IpHeaders model (Roundtrip/IpHeaders.v). *)
From EP Require Import Base.Bytes Checksum.Spec Checksum.Model Checksum.Proofs.
From EP Require Import Roundtrip.Common Roundtrip.CommonProofs Roundtrip.LinkNetLemmas.
From EP Require Import Roundtrip.Ipv4 Roundtrip.Ipv4Proofs Roundtrip.Ipv6 Roundtrip.Ipv6Proofs.
From EP Require Import Roundtrip.Auth Roundtrip.AuthProofs Roundtrip.Exts4 Roundtrip.Exts4Proofs.
From EP Require Import Roundtrip.IpHeaders.
From EP Require IoFault.Spec IoFault.Model ExtChain.Spec ExtChain.Model ExtChain.Proofs ExtChain.ReadModel
  ExtChain.ReadView ExtChain.ReadProofs Roundtrip.Exts6Proofs.
From Coq Require Import ZArith Lia ZifyN.
Local Open Scope N_scope.

Ltac ltb_t H := first [apply N.ltb_lt in H | apply N.ltb_ge in H | apply N.leb_le in H | apply N.leb_gt in H
                       | apply N.eqb_eq in H | apply N.eqb_neq in H].

(* ---------------------------------------------------------------- small facts *)
Lemma band15_lt b : band b 15 < 16.
Proof. unfold band. change 15 with (N.ones 4). rewrite N.land_ones. apply N.mod_lt. discriminate. Qed.

Lemma slice_range_eq (s : bytes) a b : a <= b -> b <= len s -> slice_range s a b = Some (take (b - a) (drop a s)).
Proof.
  intros H1 H2. unfold slice_range. rewrite (leb_true _ _ H1), (leb_true _ _ H2). reflexivity.
Qed.

Lemma iph_checksum64_le e ps : checksum64 e ps <= 65535.
Proof.
  unfold checksum64.
  assert (H : U64.ones_complement (sum_pieces64 e 0 ps) <= 65535) by (unfold U64.ones_complement; lia).
  destruct (to_be_spec e _ H) as (_ & T & _). exact T.
Qed.

Lemma iph_calc_checksum_some e h : wf_ip4 h = true ->
  exists ck, ip4_calc_checksum e h = Some ck /\ ck < 65536.
Proof.
  intros W. destruct (wf_ip4_facts h W) as (_ & _ & (LS & OS & LD & OD) & WO).
  destruct (Ipv4Proofs.len4_explicit _ LS OS) as (s0 & s1 & s2 & s3 & ES & _).
  destruct (Ipv4Proofs.len4_explicit _ LD OD) as (d0 & d1 & d2 & d3 & ED & _).
  unfold ip4_calc_checksum. rewrite ES, ED, (i4o_as_slice_wf _ WO).
  eexists. split; [reflexivity|].
  eapply N.le_lt_trans; [apply iph_checksum64_le|lia].
Qed.

(* ---------------------------------------------------------------- Ipv4Header::from_slice, inverted *)
Lemma ip4_from_slice_inv s h rest : ip4_from_slice s = Ok (h, rest) ->
  exists b0, rd s 0 = Some b0 /\ shr b0 4 = 4 /\ (band b0 15 <? 5) = false /\ 20 <= len s
    /\ band b0 15 * 4 <= len s /\ ip4_to_header (take (band b0 15 * 4) s) = Ok h
    /\ ip4_header_len h = band b0 15 * 4 /\ rest = drop (band b0 15 * 4) s.
Proof.
  unfold ip4_from_slice, ip4_slice_from_slice.
  destruct (len s <? 20) eqn:L20; [discriminate|]. ltb_t L20.
  destruct (rd s 0) as [b0|] eqn:R0; [|discriminate].
  destruct (shr b0 4 =? 4) eqn:V; cbn [negb]; [|discriminate]. ltb_t V.
  destruct (band b0 15 <? 5) eqn:I; [discriminate|].
  set (hl := band b0 15 * 4).
  destruct (len s <? hl) eqn:LH; [discriminate|]. ltb_t LH.
  destruct (ip4_to_header (take hl s)) as [hd|e] eqn:TH; [|discriminate].
  destruct (slice_from s (ip4_header_len hd)) as [r|] eqn:SF; [|discriminate].
  intros H. apply Ok_inj in H. injection H as <- <-.
  assert (HL : ip4_header_len hd = hl).
  { pose proof (band15_lt b0) as B. ltb_t I.
    assert (LT : len (take hl s) = hl) by (rewrite len_take; lia).
    unfold ip4_to_header in TH.
    destruct (take hl s) as [|c0 [|c1 [|c2 [|c3 [|c4 [|c5 [|c6 [|c7 [|c8 [|c9 [|c10 [|c11 [|c12 [|c13 [|c14
      [|c15 [|c16 [|c17 [|c18 [|c19 os]]]]]]]]]]]]]]]]]]]]; try discriminate.
    destruct (40 <? len os) eqn:LO; [discriminate|].
    apply Ok_inj in TH. subst hd. unfold ip4_header_len. cbn [i4_options i4o_len].
    rewrite !len_cons in LT. unfold as_u8. rewrite N.mod_small by (subst hl; lia). lia. }
  exists b0. repeat split; try assumption; try reflexivity.
  unfold slice_from in SF. rewrite HL in SF. destruct (hl <=? len s); [|discriminate]. injection SF as <-. reflexivity.
Qed.

Lemma ip4_to_header_len t h : ip4_to_header t = Ok h -> len t <= 60 -> ip4_header_len h = len t.
Proof.
  unfold ip4_to_header. intros TH L.
  destruct t as [|c0 [|c1 [|c2 [|c3 [|c4 [|c5 [|c6 [|c7 [|c8 [|c9 [|c10 [|c11 [|c12 [|c13 [|c14
      [|c15 [|c16 [|c17 [|c18 [|c19 os]]]]]]]]]]]]]]]]]]]]; try discriminate.
  destruct (40 <? len os) eqn:LO; [discriminate|].
  apply Ok_inj in TH. subst h. unfold ip4_header_len. cbn [i4_options i4o_len].
  rewrite !len_cons in *. unfold as_u8. rewrite N.mod_small by lia. lia.
Qed.

(* ---------------------------------------------------------------- dispatch = specific *)
Theorem iph_dispatch_v4 s b0 : rd s 0 = Some b0 -> shr b0 4 = 4 -> iph_from_slice s = iph_from_ipv4_slice s.
Proof.
  intros R0 V. pose proof (rd_Some_lt _ _ _ R0) as L1.
  unfold iph_from_slice, iph_from_ipv4_slice, ip4_from_slice, ip4_slice_from_slice.
  replace (len s =? 0) with false by (symmetry; apply N.eqb_neq; lia).
  rewrite R0, V. change (4 =? 4) with true. cbn [negb].
  destruct (len s <? 20) eqn:L20; [reflexivity|]. ltb_t L20.
  destruct (band b0 15 <? 5) eqn:I; [reflexivity|].
  set (hl := band b0 15 * 4).
  assert (HB : hl <= 60) by (pose proof (band15_lt b0); subst hl; lia).
  destruct (len s <? hl) eqn:LH; [reflexivity|]. ltb_t LH.
  destruct (ip4_to_header (take hl s)) as [hd|e] eqn:TH; [|reflexivity].
  assert (HL : ip4_header_len hd = hl).
  { rewrite (ip4_to_header_len _ _ TH); rewrite len_take; lia. }
  rewrite HL. unfold slice_from. rewrite (leb_true _ _ LH). cbv beta iota zeta. rewrite HL.
  destruct (i4_total_len hd <? hl) eqn:T1.
  - ltb_t T1. replace (hl <=? i4_total_len hd) with false by (symmetry; apply N.leb_gt; lia). reflexivity.
  - ltb_t T1. rewrite (leb_true _ _ T1). rewrite len_drop.
    destruct (len s <? i4_total_len hd) eqn:T2.
    + ltb_t T2. replace (len s - hl <? i4_total_len hd - hl) with true by (symmetry; apply N.ltb_lt; lia). reflexivity.
    + ltb_t T2. replace (len s - hl <? i4_total_len hd - hl) with false by (symmetry; apply N.ltb_ge; lia).
      rewrite slice_range_eq by lia. rewrite slice_range_eq by (rewrite ?len_drop; lia).
      rewrite N.sub_0_r, drop_0. reflexivity.
Qed.

Theorem iph_dispatch_v6 s b0 : rd s 0 = Some b0 -> shr b0 4 = 6 -> iph_from_slice s = iph_from_ipv6_slice s.
Proof.
  intros R0 V. pose proof (rd_Some_lt _ _ _ R0) as L1.
  unfold iph_from_slice, iph_from_ipv6_slice, ip6_from_slice, ip6_slice_from_slice.
  replace (len s =? 0) with false by (symmetry; apply N.eqb_neq; lia).
  rewrite R0, V. change (6 =? 4) with false. change (6 =? 6) with true. cbn [negb].
  destruct (len s <? 40) eqn:L40; [reflexivity|]. ltb_t L40.
  destruct (ip6_to_header (take 40 s)) as [hd|e] eqn:TH; [|reflexivity].
  unfold slice_from. rewrite (leb_true _ _ L40).
  destruct ((0 =? i6_payload_length hd) && (40 <? len s)) eqn:Z.
  - rewrite slice_range_eq by lia.
    rewrite (take_all (drop 40 s)) by (rewrite len_drop; lia). reflexivity.
  - rewrite len_drop.
    destruct (len s <? 40 + i6_payload_length hd) eqn:T2.
    + ltb_t T2. replace (len s - 40 <? i6_payload_length hd) with true by (symmetry; apply N.ltb_lt; lia). reflexivity.
    + ltb_t T2. replace (len s - 40 <? i6_payload_length hd) with false by (symmetry; apply N.ltb_ge; lia).
      rewrite slice_range_eq by lia. rewrite slice_range_eq by (rewrite ?len_drop; lia).
      rewrite N.sub_0_r, drop_0. replace (40 + i6_payload_length hd - 40) with (i6_payload_length hd) by lia.
      reflexivity.
Qed.

Theorem iph_dispatch_other s b0 : rd s 0 = Some b0 -> shr b0 4 <> 4 -> shr b0 4 <> 6 ->
  iph_from_slice s = Err (C_UNSUPPORTED_VERSION (shr b0 4)).
Proof.
  intros R0 V4 V6. pose proof (rd_Some_lt _ _ _ R0) as L1. unfold iph_from_slice.
  replace (len s =? 0) with false by (symmetry; apply N.eqb_neq; lia). rewrite R0.
  apply N.eqb_neq in V4, V6. rewrite V4, V6. reflexivity.
Qed.

(* ---------------------------------------------------------------- the LimitedReader around a Cursor *)
Module XM := EP.ExtChain.Model.
Module XR := EP.ExtChain.ReadModel.
Module XV := EP.ExtChain.ReadView.
Module XRP := EP.ExtChain.ReadProofs.
Module IOM := EP.IoFault.Model.
Module IOS := EP.IoFault.Spec.
Module IOP := EP.IoFault.Proofs.

Lemma limited_is_st r mx ls off ly :
  limited r mx ls off ly = XV.mk_st r 65536 0 (XV.MLim (IOM.lr_new mx ls off ly)).
Proof. reflexivity. Qed.

(* read_exact through a LimitedReader whose budget and whose data both cover n bytes
   (ExtChain.ReadProofs.rd_exact_ok wants budget <= data; not needed for one successful call) *)
Lemma rd_exact_lim d c p r n : 1 <= c -> IOM.lr_read r <= IOM.lr_max r ->
  n <= IOM.lr_max r - IOM.lr_read r -> n <= len d ->
  XR.rd_exact (XV.mk_st d c p (XV.MLim r)) n =
  (IOM.QOk (take n d),
   XV.mk_st (drop n d) c (p + n)
     (XV.MLim (IOM.mk_limrd (IOM.lr_max r) (IOM.lr_source r) (IOM.lr_layer r) (IOM.lr_off r) (IOM.lr_read r + n)))).
Proof.
  intros Hc H1 H2 H3. unfold XR.rd_exact, XV.mk_st. cbn [IOM.rs_lim IOM.rs_src].
  rewrite IOP.lr_read_exact_within by (cbn [IOS.src_chunk]; assumption).
  cbn [IOS.src_data IOS.src_chunk IOS.src_err IOS.src_pulled]. rewrite (leb_true _ _ H3). reflexivity.
Qed.

Lemma start_layer_lim d c p r layer : IOM.lr_read r <= IOM.lr_max r ->
  XR.start_layer true layer (XV.mk_st d c p (XV.MLim r)) =
  (IOM.QOk tt, XV.mk_st d c p (XV.MLim (IOM.mk_limrd (IOM.lr_max r - IOM.lr_read r) (IOM.lr_source r) layer
                                         (IOM.lr_off r + IOM.lr_read r) 0))).
Proof.
  intros H. unfold XR.start_layer, XV.mk_st. cbn [IOM.rs_lim IOM.rs_src].
  unfold IOM.lr_start_layer, IOM.checked_sub. rewrite (leb_true _ _ H). reflexivity.
Qed.

(* IpAuthHeader::read_limited returns what IpAuthHeader::read returns when the budget covers the header *)
Lemma ah_read_limited_of_read d c p r h rest : 1 <= c -> IOM.lr_read r <= IOM.lr_max r ->
  ah_read d = Ok (h, rest) -> ah_header_len h <= IOM.lr_max r - IOM.lr_read r ->
  exists r', ah_read_limited (XV.mk_st d c p (XV.MLim r)) =
             (IOM.QOk h, XV.mk_st rest c (p + ah_header_len h) (XV.MLim r')).
Proof.
  intros Hc Hr RD HB. unfold ah_read in RD. unfold read_exact in RD.
  destruct (len d <? 12) eqn:L12; [discriminate|]. ltb_t L12.
  destruct (take 12 d) as [|b0 [|b1 [|b2 [|b3 [|b4 [|b5 [|b6 [|b7 [|b8 [|b9 [|b10 [|b11 [|x t]]]]]]]]]]]]] eqn:T12;
    try discriminate.
  destruct (b1 <? 1) eqn:Z; [discriminate|].
  set (n := (b1 - 1) * 4) in *.
  destruct (AH_MAX_ICV_LEN <? n) eqn:MX; [discriminate|].
  destruct (len (drop 12 d) <? n) eqn:LN; [discriminate|]. ltb_t LN.
  apply Ok_inj in RD. injection RD as <- <-.
  unfold ah_header_len in HB. cbn [ah_raw_icv_len] in HB. fold n in HB.
  unfold ah_read_limited.
  rewrite start_layer_lim by exact Hr. cbn [XR.qbind].
  rewrite rd_exact_lim; cbn [IOM.lr_read IOM.lr_max]; try lia.
  cbn [XR.qbind]. rewrite T12. rewrite Z. fold n. rewrite MX.
  rewrite rd_exact_lim; cbn [IOM.lr_read IOM.lr_max]; try lia.
  cbn [XR.qbind]. eexists. unfold ah_header_len. cbn [ah_raw_icv_len]. fold n.
  rewrite N.add_assoc. reflexivity.
Qed.

Lemma x4_read_limited_of_read d c p r start e n rest : 1 <= c -> IOM.lr_read r <= IOM.lr_max r ->
  x4_read d start = Ok (e, n, rest) -> x4_header_len e <= IOM.lr_max r - IOM.lr_read r ->
  of_q (x4_read_limited (XV.mk_st d c p (XV.MLim r)) start) = Ok ((e, n), rest).
Proof.
  intros Hc Hr RD HB. unfold x4_read in RD. unfold x4_read_limited.
  destruct (X4_AUTH =? start).
  - destruct (ah_read d) as [[h r1]|err] eqn:A; [|discriminate].
    apply Ok_inj in RD. injection RD as <- <- <-.
    unfold x4_header_len in HB. cbn [x4_auth] in HB.
    destruct (ah_read_limited_of_read d c p r h r1 Hc Hr A HB) as (r' & E). rewrite E. reflexivity.
  - apply Ok_inj in RD. injection RD as <- <- <-. reflexivity.
Qed.

(* ---------------------------------------------------------------- IPv4: write *)
Lemma x4_write_unique e start out b1 b2 :
  x4_write [] e start = Ok b1 -> x4_write out e start = Ok b2 -> b2 = out ++ b1.
Proof.
  unfold x4_write. destruct (x4_auth e) as [h|].
  - destruct (X4_AUTH =? start); [|discriminate]. destruct (ah_to_bytes h); [|discriminate].
    intros H1 H2. apply Ok_inj in H1, H2. subst. reflexivity.
  - intros H1 H2. apply Ok_inj in H1, H2. subst. symmetry. apply app_nil_r.
Qed.

Lemma iph_write_v4 en hd e : wf_ip4 hd = true -> wf_x4 e = true -> x4_linked (i4_protocol hd) e = true ->
  exists ck hb xb, ip4_calc_checksum en hd = Some ck /\ ck < 65536
    /\ ip4_to_bytes (ip4_set_checksum hd ck) = Some hb /\ len hb = ip4_header_len hd
    /\ x4_write [] e (i4_protocol hd) = Ok xb /\ len xb = x4_header_len e
    /\ iph_write en (IpV4 hd e) = (hb ++ xb, XM.Ok tt).
Proof.
  intros W WX LK.
  destruct (iph_calc_checksum_some en hd W) as (ck & ECK & LCK).
  destruct (ip4_write_recomputes en hd [] W) as (ck' & ECK' & HW & _).
  rewrite ECK in ECK'. apply Some_inj in ECK'. subst ck'.
  destruct (HW LCK) as (hb & ETB & EW). cbn [app] in EW.
  pose proof (wf_set_checksum hd ck W LCK) as W2.
  destruct (ip4_ser_agree (ip4_set_checksum hd ck) [] W2) as (hb' & ETB' & _ & LHB).
  rewrite ETB in ETB'. apply Some_inj in ETB'. subst hb'.
  destruct (x4_ser_agree e [] (i4_protocol hd) WX LK) as (xb & EX & LX & _). cbn [app] in EX.
  destruct (x4_ser_agree e hb (i4_protocol hd) WX LK) as (xb2 & EX2 & _ & _).
  pose proof (x4_write_unique _ _ _ _ _ EX EX2) as U.
  exists ck, hb, xb. repeat split; try assumption.
  unfold iph_write. rewrite EW, EX2, U. reflexivity.
Qed.

(* the number behind a linked IPv4 chain *)
Lemma x4_next_header_linked e start : x4_linked start e = true ->
  x4_next_header e start = XM.Ok (x4_final start e).
Proof.
  unfold x4_linked, x4_next_header, x4_final. destruct (x4_auth e) as [a|]; [|reflexivity].
  intros H. ltb_t H. rewrite <- H. reflexivity.
Qed.

(* ---------------------------------------------------------------- IPv4: decode (write h ++ payload ++ t) *)
Lemma iph_wf_v4 hd e : iph_wf (IpV4 hd e) = true ->
  wf_ip4 hd = true /\ wf_x4 e = true /\ x4_linked (i4_protocol hd) e = true
  /\ ip4_header_len hd + x4_header_len e <= i4_total_len hd.
Proof. unfold iph_wf. intros W. bsplit W. repeat split; try assumption. Qed.

Theorem iph_dec_enc_v4 en hd e : iph_wf (IpV4 hd e) = true ->
  exists w, iph_write en (IpV4 hd e) = (w, XM.Ok tt) /\ len w = iph_header_len (IpV4 hd e)
    /\ (forall payload t, iph_payload_fits (IpV4 hd e) payload t ->
          iph_from_slice (w ++ payload ++ t) = Ok (iph_written en (IpV4 hd e), iph_payload_desc (IpV4 hd e) payload)
          /\ iph_from_ipv4_slice (w ++ payload ++ t)
             = Ok (iph_written en (IpV4 hd e), iph_payload_desc (IpV4 hd e) payload))
    /\ (forall rest, iph_read (w ++ rest) = Ok (iph_written en (IpV4 hd e), iph_final (IpV4 hd e), rest)).
Proof.
  intros WF. destruct (iph_wf_v4 hd e WF) as (W & WX & LK & LEN).
  destruct (iph_write_v4 en hd e W WX LK) as (ck & hb & xb & ECK & LCK & ETB & LHB & EX & LXB & EW).
  pose proof (wf_set_checksum hd ck W LCK) as W2.
  set (hd' := ip4_set_checksum hd ck) in *.
  assert (DEC : forall R, ip4_from_slice (hb ++ R) = Ok (ip4_norm hd', R)).
  { intros R. destruct (ip4_dec_enc hd' R W2) as (e0 & E0 & D & _). rewrite ETB in E0. apply Some_inj in E0.
    subst e0. exact D. }
  assert (XDEC : forall R, x4_from_slice (i4_protocol hd) (xb ++ R) = Ok (x4_norm e, x4_final (i4_protocol hd) e, R)
                           /\ x4_read (xb ++ R) (i4_protocol hd) = Ok (x4_norm e, x4_final (i4_protocol hd) e, R)).
  { intros R. destruct (x4_dec_enc e (i4_protocol hd) R WX LK) as (b & EB & D1 & D2 & _).
    rewrite EX in EB. apply Ok_inj in EB. subst b. split; assumption. }
  assert (WR : iph_written en (IpV4 hd e) = IpV4 (ip4_norm hd') (x4_norm e)).
  { unfold iph_written. rewrite ECK. reflexivity. }
  assert (FIN : iph_final (IpV4 hd e) = x4_final (i4_protocol hd) e).
  { unfold iph_final, iph_next_header. rewrite (x4_next_header_linked _ _ LK). reflexivity. }
  exists (hb ++ xb). split; [exact EW|]. split; [rewrite len_app, LHB, LXB; reflexivity|].
  (* facts about the first byte, through the inversion of Ipv4Header::from_slice *)
  destruct (ip4_from_slice_inv _ _ _ (DEC [])) as (b0 & R0 & V & I & _ & _ & TH & HL & _).
  rewrite app_nil_r in R0, TH.
  assert (HLn : ip4_header_len (ip4_norm hd') = ip4_header_len hd) by reflexivity.
  rewrite HLn in HL.
  assert (L20 : 20 <= len hb) by (rewrite LHB; unfold ip4_header_len; lia).
  assert (THb : ip4_to_header hb = Ok (ip4_norm hd')).
  { rewrite <- TH. f_equal. symmetry. apply take_all. rewrite LHB, HL. lia. }
  split.
  - intros payload t FIT. unfold iph_payload_fits, iph_announced, iph_header_len in FIT.
    assert (S4 : iph_from_ipv4_slice ((hb ++ xb) ++ payload ++ t)
                 = Ok (iph_written en (IpV4 hd e), iph_payload_desc (IpV4 hd e) payload)).
    { rewrite <- app_assoc. unfold iph_from_ipv4_slice. rewrite DEC. cbv zeta.
      rewrite HLn. change (i4_total_len (ip4_norm hd')) with (i4_total_len hd).
      rewrite (leb_true (ip4_header_len hd) (i4_total_len hd)) by lia.
      rewrite !len_app, LXB.
      rewrite (ltb_false (x4_header_len e + (len payload + len t)) (i4_total_len hd - ip4_header_len hd)) by lia.
      rewrite slice_range_eq by (rewrite ?len_app, ?LXB; lia).
      rewrite N.sub_0_r, drop_0.
      replace (take (i4_total_len hd - ip4_header_len hd) (xb ++ payload ++ t)) with (xb ++ payload).
      2:{ rewrite (app_assoc xb payload t). symmetry. apply take_app_len. rewrite len_app, LXB. lia. }
      unfold v4_tail. change (i4_protocol (ip4_norm hd')) with (i4_protocol hd).
      rewrite (proj1 (XDEC payload)). rewrite WR. unfold iph_payload_desc. rewrite FIN. reflexivity. }
    split; [|exact S4]. rewrite <- S4. apply (iph_dispatch_v4 _ b0); [|exact V].
    rewrite <- app_assoc. rewrite Exts6Proofs.rd_app_lt by lia. exact R0.
  - intros rest. rewrite <- app_assoc.
    destruct hb as [|c0 hb'] eqn:EHB; [rewrite len_nil in L20; lia|].
    assert (c0 = b0) by (unfold rd in R0; cbn in R0; congruence). subst c0.
    unfold iph_read. cbn [app]. unfold read_exact at 1. rewrite len_cons.
    rewrite (ltb_false (1 + len (hb' ++ xb ++ rest)) 1) by lia.
    change (take 1 (b0 :: hb' ++ xb ++ rest)) with [b0]. change (drop 1 (b0 :: hb' ++ xb ++ rest)) with (hb' ++ xb ++ rest).
    cbv beta iota zeta. rewrite V. change (4 =? 4) with true. cbv beta iota. rewrite I.
    rewrite len_cons in LHB.
    pose proof (band15_lt b0) as B15.
    rewrite (ltb_false 60 (band b0 15 * 4)) by lia.
    rewrite (read_exact_app' hb' (xb ++ rest)) by lia.
    rewrite THb. change (i4_total_len (ip4_norm hd')) with (i4_total_len hd).
    rewrite (ltb_false (i4_total_len hd) (band b0 15 * 4)) by lia.
    rewrite limited_is_st. change (i4_protocol (ip4_norm hd')) with (i4_protocol hd).
    assert (XHL : x4_header_len (x4_norm e) = x4_header_len e)
      by (unfold x4_header_len, x4_norm; destruct (x4_auth e); reflexivity).
    erewrite x4_read_limited_of_read;
      [ | lia | cbn; lia | exact (proj2 (XDEC rest)) | cbn [IOM.lr_new IOM.lr_max IOM.lr_read]; lia ].
    rewrite WR, FIN. reflexivity.
Qed.

(* ---------------------------------------------------------------- IPv6: the written extension bytes are bytes *)
Module XP := EP.ExtChain.Proofs.
Module XS := EP.ExtChain.Spec.

Lemma bytes_ok_mod256 x : byte_ok (x mod 256).
Proof. unfold byte_ok. apply N.mod_lt. discriminate. Qed.
Lemma bytes_ok_to_be16 v : bytes_ok (to_be16 v).
Proof. unfold to_be16. repeat (apply Forall_cons; [apply bytes_ok_mod256|]). apply Forall_nil. Qed.
Lemma bytes_ok_to_be32 v : bytes_ok (to_be32 v).
Proof. unfold to_be32. repeat (apply Forall_cons; [apply bytes_ok_mod256|]). apply Forall_nil. Qed.

Lemma raw_to_bytes_ok h bs : XM.raw_valid h = true -> XM.raw_to_bytes h = Some bs -> bytes_ok bs.
Proof.
  intros V E. rewrite (XP.raw_to_bytes_valid h V) in E. apply Some_inj in E. subst bs.
  destruct (XP.raw_valid_inv h V) as (A & B & _ & D).
  apply Forall_cons; [exact A|]. apply Forall_cons; [exact B|]. exact D.
Qed.
Lemma frag_to_bytes_ok h : XM.frag_valid h = true -> bytes_ok (XM.frag_to_bytes h).
Proof.
  intros V. destruct (XP.frag_valid_inv h V) as (A & _ & _). unfold XM.frag_to_bytes.
  apply bytes_ok_app. split; [|apply bytes_ok_app; split; [apply bytes_ok_to_be16|apply bytes_ok_to_be32]].
  apply Forall_cons; [exact A|]. apply Forall_cons; [unfold byte_ok; lia|]. apply Forall_nil.
Qed.
Lemma auth_to_bytes_ok h bs : XM.auth_valid h = true -> XM.auth_to_bytes h = Some bs -> bytes_ok bs.
Proof.
  intros V E. destruct (XP.auth_valid_inv h V) as (A & _ & _ & B & _ & D). unfold XM.auth_to_bytes in E.
  destruct (XM.a_raw_icv_len h + 1 <? 256); [|discriminate]. apply Some_inj in E. subst bs.
  apply bytes_ok_app. split.
  - repeat (apply Forall_cons; [unfold byte_ok; lia|]). apply Forall_nil.
  - apply bytes_ok_app. split; [apply bytes_ok_to_be32|]. apply bytes_ok_app. split; [apply bytes_ok_to_be32|exact D].
Qed.

Lemma write_loop_bytes_ok fuel : forall e nw next rw w, XM.exts6_valid e = true -> bytes_ok w ->
  bytes_ok (fst (XM.write_loop fuel e nw next rw w)).
Proof.
  induction fuel as [|f IH]; intros e nw next rw w V OK; cbn [XM.write_loop]; [exact OK|].
  destruct (XP.exts6_valid_inv e V) as (Vh & Vd & Vr & Vf & Va).
  destruct (XM.arm_of next).
  - destruct (XM.fl_hop_by_hop_options nw); exact OK.
  - destruct rw.
    + destruct (XM.fl_final_destination_options nw); [|exact OK].
      destruct (XM.routing e) as [r|]; [|exact OK]. cbn [XM.opt_valid] in Vr.
      destruct (XP.routing_valid_inv r Vr) as (_ & Vfd).
      destruct (XM.rt_final_destination_options r) as [h|]; [|exact OK]. cbn [XM.opt_valid] in Vfd.
      destruct (XM.raw_to_bytes h) as [bs|] eqn:E; [|exact OK].
      apply IH; [exact V|]. apply bytes_ok_app. split; [exact OK|]. eapply raw_to_bytes_ok; eassumption.
    + destruct (XM.fl_destination_options nw); [|exact OK].
      destruct (XM.destination_options e) as [h|]; [|exact OK]. cbn [XM.opt_valid] in Vd.
      destruct (XM.raw_to_bytes h) as [bs|] eqn:E; [|exact OK].
      apply IH; [exact V|]. apply bytes_ok_app. split; [exact OK|]. eapply raw_to_bytes_ok; eassumption.
  - destruct (XM.fl_routing nw); [|exact OK].
    destruct (XM.routing e) as [r|]; [|exact OK]. cbn [XM.opt_valid] in Vr.
    destruct (XP.routing_valid_inv r Vr) as (Vrt & _). cbv zeta.
    destruct (XM.raw_to_bytes (XM.rt_routing r)) as [bs|] eqn:E; [|exact OK].
    apply IH; [exact V|]. apply bytes_ok_app. split; [exact OK|]. eapply raw_to_bytes_ok; eassumption.
  - destruct (XM.fl_fragment nw); [|exact OK].
    destruct (XM.fragment e) as [h|]; [|exact OK]. cbn [XM.opt_valid] in Vf.
    apply IH; [exact V|]. apply bytes_ok_app. split; [exact OK|]. apply frag_to_bytes_ok. exact Vf.
  - destruct (XM.fl_auth nw); [|exact OK].
    destruct (XM.auth e) as [h|]; [|exact OK]. cbn [XM.opt_valid] in Va.
    destruct (XM.auth_to_bytes h) as [bs|] eqn:E; [|exact OK].
    apply IH; [exact V|]. apply bytes_ok_app. split; [exact OK|]. eapply auth_to_bytes_ok; eassumption.
  - exact OK.
Qed.

Lemma write_bytes_ok e first : XM.exts6_valid e = true -> bytes_ok (fst (XM.write e first)).
Proof.
  intros V. unfold XM.write. destruct (XP.exts6_valid_inv e V) as (Vh & _).
  destruct (XM.IPV6_HOP_BY_HOP =? first).
  - destruct (XM.hop_by_hop_options e) as [h|].
    + cbn [XM.opt_valid] in Vh. destruct (XM.raw_to_bytes h) as [bs|] eqn:E; [|apply Forall_nil].
      apply write_loop_bytes_ok; [exact V|]. eapply raw_to_bytes_ok; eassumption.
    + apply write_loop_bytes_ok; [exact V|apply Forall_nil].
  - apply write_loop_bytes_ok; [exact V|apply Forall_nil].
Qed.

(* ---------------------------------------------------------------- IPv6: write, decode *)
Lemma iph_wf_v6 hd e : iph_wf (IpV6 hd e) = true ->
  wf_ip6 hd = true /\ XM.exts6_valid e = true
  /\ (exists n, XM.next_header e (i6_next_header hd) = XM.Ok n /\ XS.is_ext_number n = false)
  /\ XM.header_len e <= i6_payload_length hd.
Proof.
  unfold iph_wf. intros W. bsplit W. repeat split; try assumption.
  destruct (XM.next_header e (i6_next_header hd)) as [n| | |]; try discriminate.
  exists n. split; [reflexivity|]. destruct (XS.is_ext_number n); [discriminate|reflexivity].
Qed.

Lemma iph_write_v6 en hd e n : XM.exts6_valid e = true -> XM.next_header e (i6_next_header hd) = XM.Ok n ->
  exists xb, XM.write e (i6_next_header hd) = (xb, XM.Ok tt) /\ len xb = XM.header_len e /\ bytes_ok xb
    /\ iph_write en (IpV6 hd e) = (ip6_to_bytes hd ++ xb, XM.Ok tt).
Proof.
  intros V NH. pose proof (XP.write_iff_walk e (i6_next_header hd) V) as WW. rewrite NH in WW.
  destruct (XM.write e (i6_next_header hd)) as [xb r] eqn:EW. cbn [snd] in WW. subst r.
  exists xb. split; [reflexivity|]. split; [eapply XP.write_len; eassumption|].
  split; [pose proof (write_bytes_ok e (i6_next_header hd) V) as B; rewrite EW in B; exact B|].
  unfold iph_write, ip6_write. rewrite EW. reflexivity.
Qed.

Lemma ip6_read_inv r h r' : ip6_read r = Ok (h, r') ->
  exists v0 r1, read_exact r 1 = Ok ([v0], r1) /\ shr v0 4 = 6
    /\ ip6_read_without_version r1 (band v0 15) = Ok (h, r').
Proof.
  unfold ip6_read. destruct (read_exact r 1) as [[value r1]|]; [|discriminate].
  destruct value as [|v0 [|? ?]]; try discriminate.
  destruct (shr v0 4 =? 6) eqn:V; cbn [negb]; [|discriminate]. ltb_t V.
  intros H. exists v0, r1. repeat split; assumption.
Qed.

Lemma view_lim_new d mx ls off ly : XV.view d (XV.MLim (IOM.lr_new mx ls off ly)) = take mx d.
Proof. unfold XV.view, XV.avail, IOM.lr_new. cbn [IOM.lr_max IOM.lr_read]. rewrite N.sub_0_r. reflexivity. Qed.

Theorem iph_dec_enc_v6 en hd e : iph_wf (IpV6 hd e) = true ->
  exists w, iph_write en (IpV6 hd e) = (w, XM.Ok tt) /\ len w = iph_header_len (IpV6 hd e)
    /\ (forall payload t, iph_payload_fits (IpV6 hd e) payload t ->
          iph_from_slice (w ++ payload ++ t) = Ok (IpV6 hd e, iph_payload_desc (IpV6 hd e) payload)
          /\ iph_from_ipv6_slice (w ++ payload ++ t) = Ok (IpV6 hd e, iph_payload_desc (IpV6 hd e) payload))
    /\ (forall rest, bytes_ok rest -> iph_read_room (IpV6 hd e) rest ->
          iph_read (w ++ rest) = Ok (IpV6 hd e, iph_final (IpV6 hd e), rest)).
Proof.
  intros WF. destruct (iph_wf_v6 hd e WF) as (W & V & (n & NH & NE) & LEN).
  destruct (iph_write_v6 en hd e n V NH) as (xb & EW & LXB & BXB & EIW).
  pose proof (len_ip6_to_bytes hd W) as LHB.
  assert (XDEC : forall R, XM.from_slice (i6_next_header hd) (xb ++ R) = XM.Ok (e, n, R)).
  { intros R. apply (Exts6Proofs.exts6_dec_enc e (i6_next_header hd) xb n R V EW NH NE). }
  assert (FIN : iph_final (IpV6 hd e) = n).
  { unfold iph_final, iph_next_header. rewrite NH. reflexivity. }
  exists ((ip6_to_bytes hd) ++ xb). split; [exact EIW|]. split; [rewrite len_app, LHB, LXB; reflexivity|].
  destruct (ip6_wf_facts hd W) as (_ & _ & PL & _).
  split.
  - intros payload t FIT. unfold iph_payload_fits, iph_announced, iph_header_len in FIT.
    assert (S6 : iph_from_ipv6_slice (((ip6_to_bytes hd) ++ xb) ++ payload ++ t)
                 = Ok (IpV6 hd e, iph_payload_desc (IpV6 hd e) payload)).
    { rewrite <- app_assoc. unfold iph_from_ipv6_slice.
      rewrite (proj1 (ip6_dec_enc hd (xb ++ payload ++ t) W)).
      unfold iph_payload_desc. rewrite FIN. cbn [iph_is_fragmenting_payload].
      rewrite !len_app, LHB, LXB.
      destruct (i6_payload_length hd =? 0) eqn:Z.
      - ltb_t Z. rewrite Z in *. subst t.
        assert (XL0 : XM.header_len e = 0) by lia. rewrite XL0 in *.
        apply len_0_nil in LXB. subst xb. cbn [app]. rewrite app_nil_r. change (0 =? 0) with true.
        cbn [andb len]. change (len (@nil N)) with 0. rewrite N.add_0_r.
        destruct (0 <? len payload) eqn:P.
        + ltb_t P. replace (40 <? 40 + (0 + len payload)) with true by (symmetry; apply N.ltb_lt; lia).
          unfold v6_tail. pose proof (XDEC payload) as X1. cbn [app] in X1. rewrite X1. reflexivity.
        + ltb_t P. assert (len payload = 0) by lia. apply len_0_nil in H. subst payload.
          cbn [len length N.of_nat]. change (40 <? 40 + (0 + 0)) with false. cbv zeta. cbn [andb].
          change (len (@nil N) <? 0) with false. cbv iota.
          change (slice_range [] 0 0) with (Some (@nil N)). cbv iota.
          unfold v6_tail. pose proof (XDEC []) as X1. cbn [app] in X1. rewrite X1. reflexivity.
      - assert (Z' : (0 =? i6_payload_length hd) = false) by (rewrite N.eqb_sym; exact Z). rewrite Z'.
        cbn [andb]. cbv zeta. ltb_t Z.
        rewrite (ltb_false (XM.header_len e + (len payload + len t)) (i6_payload_length hd)) by lia.
        rewrite slice_range_eq by (rewrite ?len_app, ?LXB; lia).
        rewrite N.sub_0_r, drop_0.
        replace (take (i6_payload_length hd) (xb ++ payload ++ t)) with (xb ++ payload).
        2:{ rewrite (app_assoc xb payload t). symmetry. apply take_app_len. rewrite len_app, LXB. lia. }
        unfold v6_tail. rewrite (XDEC payload). reflexivity. }
    split; [|exact S6]. rewrite <- S6.
    destruct (ip6_read_inv _ _ _ (proj2 (ip6_dec_enc hd [] W))) as (v0 & r1 & RE & V6 & _).
    rewrite app_nil_r in RE.
    apply (iph_dispatch_v6 _ v0); [|exact V6].
    unfold read_exact in RE. destruct (len (ip6_to_bytes hd) <? 1); [discriminate|]. apply Ok_inj in RE.
    injection RE as T1 _. rewrite <- app_assoc. subst v0. reflexivity.
  - intros rest BR ROOM. unfold iph_read_room in ROOM. rewrite <- app_assoc.
    destruct (ip6_read_inv _ _ _ (proj2 (ip6_dec_enc hd (xb ++ rest) W))) as (v0 & r1 & RE & V6 & RW).
    unfold iph_read. rewrite RE. cbv beta iota zeta.
    rewrite V6. change (6 =? 4) with false. change (6 =? 6) with true. cbv iota. rewrite RW.
    rewrite limited_is_st.
    set (r := IOM.lr_new (i6_payload_length hd) IOM.LS_IPV6_PAYLOAD (ip6_header_len hd) IOM.L_IPV6H).
    assert (MOK : XV.m_ok (xb ++ rest) (XV.MLim r)).
    { cbn [XV.m_ok r IOM.lr_new IOM.lr_read IOM.lr_max]. rewrite len_app, LXB. lia. }
    assert (BD : bytes_ok (xb ++ rest)) by (apply bytes_ok_app; split; assumption).
    assert (VW : XV.view (xb ++ rest) (XV.MLim r) = xb ++ take (i6_payload_length hd - XM.header_len e) rest).
    { unfold r. rewrite view_lim_new. apply take_app_more. rewrite LXB. lia. }
    pose proof (XDEC (take (i6_payload_length hd - XM.header_len e) rest)) as FS. rewrite <- VW in FS.
    destruct (XRP.read6_eq_from_slice (xb ++ rest) 65536 0 (XV.MLim r) (i6_next_header hd) e n _
                ltac:(lia) BD MOK FS) as (m' & k & EV & KA & R6 & V' & MOK' & LM).
    cbn [XV.lim_of] in R6. rewrite R6. unfold of_q, XV.mk_st. cbn [IOM.rs_src IOS.src_data].
    (* k = header_len e: what is still visible behind the k consumed bytes is the rest of the view *)
    assert (K : k = XM.header_len e).
    { rewrite VW in EV. assert (L := f_equal len EV).
      rewrite !len_app, !len_take, !len_app, ?len_take, LXB in L.
      cbn [XV.avail r IOM.lr_new IOM.lr_max IOM.lr_read] in KA. lia. }
    rewrite K, <- LXB. rewrite drop_app_len by reflexivity. rewrite FIN. reflexivity.
Qed.

(* ---------------------------------------------------------------- both versions *)
Theorem iph_dec_enc en h : iph_wf h = true ->
  exists w, iph_write en h = (w, XM.Ok tt) /\ len w = iph_header_len h
    /\ (forall payload t, iph_payload_fits h payload t ->
          iph_from_slice (w ++ payload ++ t) = Ok (iph_written en h, iph_payload_desc h payload)
          /\ iph_from_version_slice h (w ++ payload ++ t) = Ok (iph_written en h, iph_payload_desc h payload))
    /\ (forall rest, bytes_ok rest -> iph_read_room h rest ->
          iph_read (w ++ rest) = Ok (iph_written en h, iph_final h, rest)).
Proof.
  intros WF. destruct h as [hd e|hd e].
  - destruct (iph_dec_enc_v4 en hd e WF) as (w & A & B & C & D). exists w. repeat split; try assumption.
    + apply (C payload t H).
    + apply (C payload t H).
    + intros rest _ _. apply D.
  - destruct (iph_dec_enc_v6 en hd e WF) as (w & A & B & C & D). exists w. repeat split; try assumption.
    + apply (C payload t H).
    + apply (C payload t H).
Qed.

(* the decoded value is the written one; it equals h (PartialEq) when the checksum field is consistent *)
Theorem iph_written_eq en h : iph_wf h = true -> iph_checksum_ok en h = true -> iph_eq (iph_written en h) h.
Proof.
  intros WF CK. destruct h as [hd e|hd e]; [|split; reflexivity].
  destruct (iph_wf_v4 hd e WF) as (W & WX & LK & _).
  unfold iph_checksum_ok in CK. unfold iph_written, iph_eq.
  destruct (ip4_calc_checksum en hd) as [ck|]; [|discriminate]. ltb_t CK.
  assert (E : ip4_set_checksum hd ck = hd) by (destruct hd; cbn in *; subst; reflexivity).
  rewrite E. split.
  - destruct (ip4_dec_enc hd [] W) as (_ & _ & _ & _ & Q). exact Q.
  - destruct (x4_dec_enc e (i4_protocol hd) [] WX LK) as (_ & _ & _ & _ & Q). exact Q.
Qed.

(* ---------------------------------------------------------------- write succeeds iff the chain walks *)
Lemma x4_write_iff_walk e start out : wf_x4 e = true ->
  match x4_next_header e start with
  | XM.Ok n => exists b, x4_write out e start = Ok (out ++ b) /\ len b = x4_header_len e
  | XM.Err x => x = XM.ExtNotReferenced XM.AUTH /\ x4_write out e start = Err (EContent 0)
  | _ => False
  end.
Proof.
  unfold wf_x4, x4_next_header, x4_write, x4_header_len. destruct (x4_auth e) as [h|]; intros W.
  - rewrite (N.eqb_sym X4_AUTH start). destruct (start =? X4_AUTH).
    + destruct (ah_ser_agree h [] W) as (b & EB & _ & LB). rewrite EB. exists b. split; [reflexivity|exact LB].
    + split; reflexivity.
  - exists []. split; [symmetry; f_equal; apply app_nil_r|reflexivity].
Qed.

Theorem iph_write_iff_walk en h : iph_parts_wf h = true ->
  match iph_next_header h with
  | XM.Ok n => snd (iph_write en h) = XM.Ok tt /\ len (fst (iph_write en h)) = iph_header_len h
  | XM.Err x => snd (iph_write en h) = XM.Err x
  | XM.Panic | XM.OutOfFuel => False
  end.
Proof.
  intros PW. destruct h as [hd e|hd e]; unfold iph_parts_wf in PW; apply andb_true_iff in PW.
  - destruct PW as [W WX].
    destruct (iph_calc_checksum_some en hd W) as (ck & ECK & LCK).
    destruct (ip4_write_recomputes en hd [] W) as (ck' & ECK' & HW & _).
    rewrite ECK in ECK'. apply Some_inj in ECK'. subst ck'.
    destruct (HW LCK) as (hb & ETB & EW). cbn [app] in EW.
    pose proof (wf_set_checksum hd ck W LCK) as W2.
    destruct (ip4_ser_agree (ip4_set_checksum hd ck) [] W2) as (hb' & ETB' & _ & LHB).
    rewrite ETB in ETB'. apply Some_inj in ETB'. subst hb'.
    pose proof (x4_write_iff_walk e (i4_protocol hd) hb WX) as XW.
    unfold iph_next_header, iph_write. rewrite EW.
    destruct (x4_next_header e (i4_protocol hd)) as [n|x| |]; cbn [XM.map_err]; try contradiction.
    + destruct XW as (b & EB & LB). rewrite EB. cbn [fst snd]. split; [reflexivity|].
      rewrite len_app, LHB, LB. reflexivity.
    + destruct XW as (-> & EB). rewrite EB. reflexivity.
  - destruct PW as [W V].
    pose proof (XP.write_iff_walk e (i6_next_header hd) V) as WW.
    unfold iph_next_header, iph_write, ip6_write. cbn [app].
    destruct (XM.write e (i6_next_header hd)) as [xb r] eqn:EW. cbn [snd] in WW.
    destruct (XM.next_header e (i6_next_header hd)) as [n|x| |]; cbn [XM.map_err fst snd]; try contradiction.
    + subst r. split; [reflexivity|]. rewrite len_app, (len_ip6_to_bytes hd W), (XP.write_len e _ xb V EW). reflexivity.
    + subst r. reflexivity.
Qed.

(* ---------------------------------------------------------------- decode -> encode *)
(* Ipv4Header::write = to_bytes with bytes 10-11 replaced by the computed checksum *)
Lemma ip4_set_checksum_bytes h ck e0 : wf_ip4 h = true -> ck < 65536 -> ip4_to_bytes h = Some e0 ->
  ip4_to_bytes (ip4_set_checksum h ck) = Some (take 10 e0 ++ u16_to_be ck ++ drop 12 e0).
Proof.
  intros W LCK E0. pose proof (wf_set_checksum h ck W LCK) as W2.
  destruct (ip4_to_bytes_wf h W) as (f & EF & ET). rewrite ET in E0. apply Some_inj in E0. subst e0.
  destruct (ip4_to_bytes_wf _ W2) as (f2 & EF2 & ET2). rewrite ET2. f_equal.
  destruct (fixed_wf h (i4_header_checksum h) W) as (f' & EF' & _ & s0 & s1 & s2 & s3 & d0 & d1 & d2 & d3 & ES & ED & FX).
  rewrite EF in EF'. apply Some_inj in EF'. subst f'.
  destruct (fixed_wf (ip4_set_checksum h ck) ck W2) as (f3 & EF3 & _ & t0 & t1 & t2 & t3 & u0 & u1 & u2 & u3 & ES' & ED' & FX').
  cbn [ip4_set_checksum i4_header_checksum] in EF2. rewrite EF2 in EF3. apply Some_inj in EF3. subst f3.
  cbn [ip4_set_checksum i4_source i4_destination] in ES', ED'. rewrite ES in ES'. rewrite ED in ED'.
  inversion ES'; inversion ED'; subst t0 t1 t2 t3 u0 u1 u2 u3.
  rewrite FX, FX'. reflexivity.
Qed.

(* how the bytes `write` emits for a decoded value relate to the bytes that were consumed *)
Definition iph_reencodes (en : endian) (h : IpHeaders) (cons w : bytes) : Prop :=
  match h with
  | IpV4 hd e =>
    exists e0 ck xb,
      ip4_to_bytes hd = Some e0 /\ agree (ip4_keep_mask (ip4_header_len hd)) e0 (take (ip4_header_len hd) cons)
      /\ ip4_calc_checksum en hd = Some ck
      /\ w = (take 10 e0 ++ u16_to_be ck ++ drop 12 e0) ++ xb
      /\ x4_write [] e (i4_protocol hd) = Ok xb
      /\ agree (x4_keep_mask e) xb (drop (ip4_header_len hd) cons)
  | IpV6 hd e =>
    exists xb, w = ip6_to_bytes hd ++ xb /\ take 40 cons = ip6_to_bytes hd
      /\ XM.write e (i6_next_header hd) = (xb, XM.Ok tt) /\ Exts6Proofs.hdr_eq xb (drop 40 cons)
  end.

Lemma x4_norm_header_len e : x4_header_len (x4_norm e) = x4_header_len e.
Proof. unfold x4_header_len, x4_norm. destruct (x4_auth e); reflexivity. Qed.

Lemma agree_len k a b : agree k a b -> len a = len b.
Proof. intros (A & B & _). congruence. Qed.

Theorem iph_enc_dec_v4 en bs h p : bytes_ok bs -> iph_from_ipv4_slice bs = Ok (h, p) ->
  iph_wf h = true
  /\ exists w cons t, iph_write en h = (w, XM.Ok tt) /\ len w = iph_header_len h
      /\ bs = cons ++ ipp_payload p ++ t /\ len cons = iph_header_len h
      /\ iph_payload_fits h (ipp_payload p) t /\ p = iph_payload_desc h (ipp_payload p)
      /\ iph_reencodes en h cons w.
Proof.
  intros OK H. unfold iph_from_ipv4_slice in H.
  destruct (ip4_from_slice bs) as [[hd hrest]|] eqn:D4; [|discriminate].
  destruct (ip4_enc_dec bs hd hrest OK D4) as (W & NM & e0 & E0 & SPL & AG & _).
  cbv zeta in H.
  destruct (ip4_header_len hd <=? i4_total_len hd) eqn:T1; [|discriminate]. ltb_t T1.
  set (hl := ip4_header_len hd) in *. set (pl := i4_total_len hd - hl) in *.
  destruct (len hrest <? pl) eqn:T2; [discriminate|]. ltb_t T2.
  rewrite slice_range_eq in H by lia. rewrite N.sub_0_r, drop_0 in H.
  unfold v4_tail in H.
  destruct (x4_from_slice (i4_protocol hd) (take pl hrest)) as [[[e nx] rest']|] eqn:DX; [|discriminate].
  apply Ok_inj in H. injection H as <- <-. cbn [ipp_payload].
  assert (OKH : bytes_ok hrest).
  { rewrite SPL in OK. apply bytes_ok_app in OK. tauto. }
  destruct (x4_enc_dec (i4_protocol hd) (take pl hrest) e nx rest' (bytes_ok_take _ _ OKH) DX)
    as (WX & NX & LK & FN & xb & EXB & SPX & AGX & _).
  set (xl := x4_header_len e) in *.
  assert (LA : len (take pl hrest) = pl) by (rewrite len_take; lia).
  assert (LXB : len xb = xl).
  { destruct (x4_ser_agree e [] (i4_protocol hd) WX LK) as (b & EB & LB & _). cbn [app] in EB.
    rewrite EXB in EB. apply Ok_inj in EB. subst b. exact LB. }
  assert (LTX : len (take xl (take pl hrest)) = xl).
  { rewrite <- (agree_len _ _ _ AGX). exact LXB. }
  assert (LR : xl + len rest' = pl).
  { assert (L := f_equal len SPX). rewrite len_app, LTX, LA in L. lia. }
  assert (LHC : len (take hl bs) = hl).
  { rewrite <- (agree_len _ _ _ AG). destruct (ip4_ser_agree hd [] W) as (e1 & E1 & _ & L1).
    rewrite E0 in E1. apply Some_inj in E1. subst e1. exact L1. }
  assert (WF : iph_wf (IpV4 hd e) = true).
  { unfold iph_wf. rewrite W, WX, LK. cbn [andb]. apply N.leb_le. fold hl xl. lia. }
  split; [exact WF|].
  destruct (iph_write_v4 en hd e W WX LK) as (ck & hb & xb2 & ECK & LCK & ETB & LHB & EX2 & LX2 & EW).
  rewrite EXB in EX2. apply Ok_inj in EX2. subst xb2.
  exists (hb ++ xb), (take hl bs ++ take xl (take pl hrest)), (drop pl hrest).
  split; [exact EW|]. split; [rewrite len_app, LHB, LXB; reflexivity|].
  split.
  { rewrite <- app_assoc. rewrite SPL at 1. f_equal. rewrite (app_assoc _ rest'). rewrite <- SPX.
    symmetry. apply take_drop. }
  split; [rewrite len_app, LHC, LTX; reflexivity|].
  split; [unfold iph_payload_fits, iph_announced, iph_header_len; fold hl xl; lia|].
  split.
  { unfold iph_payload_desc. cbn [ipp_payload iph_is_fragmenting_payload].
    unfold iph_final, iph_next_header. rewrite (x4_next_header_linked _ _ LK). cbn [XM.map_err]. rewrite FN.
    reflexivity. }
  unfold iph_reencodes. exists e0, ck, xb.
  rewrite (ip4_set_checksum_bytes hd ck e0 W LCK E0) in ETB. apply Some_inj in ETB.
  fold hl. rewrite take_app_len by (symmetry; exact LHC). rewrite drop_app_len by (symmetry; exact LHC).
  split; [exact E0|]. split; [exact AG|]. split; [exact ECK|]. split; [rewrite <- ETB; reflexivity|].
  split; [exact EXB|exact AGX].
Qed.

Lemma of_x6_ok {A} (r : XM.res XM.hdr_slice_error A) a : of_x6 r = Ok a -> r = XM.Ok a.
Proof.
  destruct r as [x|[l| |]| |]; cbn; intros H; try discriminate. apply Ok_inj in H. subst. reflexivity.
Qed.

Lemma v6_tail_enc_dec hd A ls h p : bytes_ok A -> v6_tail hd A ls = Ok (h, p) ->
  exists e n rest' xb cons',
    h = IpV6 hd e
    /\ p = {| ipp_ip_number := n; ipp_fragmented := XM.is_fragmenting_payload e; ipp_len_source := ls;
              ipp_payload := rest' |}
    /\ XM.exts6_valid e = true /\ XM.write e (i6_next_header hd) = (xb, XM.Ok tt)
    /\ XM.next_header e (i6_next_header hd) = XM.Ok n
    /\ A = cons' ++ rest' /\ Exts6Proofs.hdr_eq xb cons' /\ len xb = XM.header_len e /\ len cons' = XM.header_len e
    /\ (forall t ls', v6_tail hd (xb ++ t) ls' =
          Ok (IpV6 hd e, {| ipp_ip_number := n; ipp_fragmented := XM.is_fragmenting_payload e;
                            ipp_len_source := ls'; ipp_payload := t |})).
Proof.
  intros OK H. unfold v6_tail in H.
  destruct (of_x6 (XM.from_slice (i6_next_header hd) A)) as [[[e n] rest']|] eqn:D; [|discriminate].
  apply of_x6_ok in D. apply Ok_inj in H. injection H as <- <-.
  destruct (Exts6Proofs.exts6_enc_dec (i6_next_header hd) A e n rest' OK D)
    as (V & xb & cons' & EW & NH & SP & HE & LX & RE).
  exists e, n, rest', xb, cons'. repeat split; try assumption.
  - rewrite <- (Exts6Proofs.hdr_eq_len _ _ HE). exact LX.
  - intros t ls'. unfold v6_tail. rewrite (RE t). reflexivity.
Qed.

Theorem iph_enc_dec_v6 en bs h p : bytes_ok bs -> iph_from_ipv6_slice bs = Ok (h, p) ->
  iph_parts_wf h = true /\ iph_next_header h = XM.Ok (ipp_ip_number p)
  /\ exists w cons t, iph_write en h = (w, XM.Ok tt) /\ len w = iph_header_len h
      /\ bs = cons ++ ipp_payload p ++ t /\ len cons = iph_header_len h
      /\ iph_reencodes en h cons w
      /\ iph_from_ipv6_slice (w ++ ipp_payload p ++ t) = Ok (h, p).
Proof.
  intros OK H. unfold iph_from_ipv6_slice in H.
  destruct (ip6_from_slice bs) as [[hd hrest]|] eqn:D6; [|discriminate].
  destruct (ip6_enc_dec bs hd hrest OK D6) as (W & SPL & L40 & _).
  assert (OKH : bytes_ok hrest) by (rewrite SPL in OK; apply bytes_ok_app in OK; tauto).
  assert (LBS : len bs = 40 + len hrest) by (rewrite SPL at 1; rewrite len_app, L40; reflexivity).
  (* the extension area A, what is cut off behind it, and the len source *)
  assert (CASES : exists A t ls, hrest = A ++ t /\ v6_tail hd A ls = Ok (h, p) /\ bytes_ok A
            /\ forall A', len A' = len A ->
                 iph_from_ipv6_slice (ip6_to_bytes hd ++ A' ++ t) = v6_tail hd A' ls).
  { destruct ((0 =? i6_payload_length hd) && (40 <? len bs)) eqn:Z.
    - exists hrest, [], LsSlice. split; [symmetry; apply app_nil_r|]. split; [exact H|]. split; [exact OKH|].
      intros A' LA. unfold iph_from_ipv6_slice. rewrite (proj1 (ip6_dec_enc hd (A' ++ []) W)).
      rewrite !len_app, L40, LA. cbn [len length N.of_nat]. rewrite N.add_0_r. rewrite <- LBS. rewrite Z.
      rewrite app_nil_r. reflexivity.
    - cbv zeta in H. destruct (len hrest <? i6_payload_length hd) eqn:T; [discriminate|]. ltb_t T.
      rewrite slice_range_eq in H by lia. rewrite N.sub_0_r, drop_0 in H.
      exists (take (i6_payload_length hd) hrest), (drop (i6_payload_length hd) hrest), LsIpv6HeaderPayloadLen.
      split; [symmetry; apply take_drop|]. split; [exact H|]. split; [apply bytes_ok_take; exact OKH|].
      intros A' LA. rewrite len_take in LA.
      unfold iph_from_ipv6_slice. rewrite (proj1 (ip6_dec_enc hd _ W)).
      assert (LL : len (ip6_to_bytes hd ++ A' ++ drop (i6_payload_length hd) hrest) = len bs).
      { rewrite !len_app, L40, LA, len_drop, LBS. lia. }
      rewrite LL, Z. cbv zeta. rewrite len_app, LA, len_drop.
      rewrite (ltb_false _ (i6_payload_length hd)) by lia.
      rewrite slice_range_eq by (rewrite ?len_app, ?LA, ?len_drop; lia). rewrite N.sub_0_r, drop_0.
      rewrite take_app_len by lia. reflexivity. }
  destruct CASES as (A & t & ls & SPA & TL & OKA & RE).
  destruct (v6_tail_enc_dec hd A ls h p OKA TL) as (e & n & rest' & xb & cons' & -> & -> & V & EW & NH & SP & HE & LX & LC & RT).
  cbn [ipp_payload ipp_ip_number].
  split; [unfold iph_parts_wf; rewrite W, V; reflexivity|].
  split; [unfold iph_next_header; rewrite NH; reflexivity|].
  exists (ip6_to_bytes hd ++ xb), (ip6_to_bytes hd ++ cons'), t.
  split; [unfold iph_write, ip6_write; rewrite EW; reflexivity|].
  split; [unfold iph_header_len; rewrite len_app, L40, LX; reflexivity|].
  split; [rewrite <- app_assoc; rewrite SPL at 1; f_equal; rewrite SPA, SP, <- app_assoc; reflexivity|].
  split; [unfold iph_header_len; rewrite len_app, L40, LC; reflexivity|].
  split.
  { unfold iph_reencodes. exists xb. split; [reflexivity|].
    rewrite take_app_len by (symmetry; exact L40). rewrite drop_app_len by (symmetry; exact L40).
    repeat split; assumption. }
  rewrite <- app_assoc. rewrite (app_assoc xb rest' t). rewrite RE.
  - apply RT.
  - rewrite SP, !len_app, LX, LC. reflexivity.
Qed.

Lemma iph_from_slice_version bs r : iph_from_slice bs = Ok r ->
  exists b0, rd bs 0 = Some b0 /\
    ((shr b0 4 = 4 /\ iph_from_ipv4_slice bs = Ok r) \/ (shr b0 4 = 6 /\ iph_from_ipv6_slice bs = Ok r)).
Proof.
  intros H. pose proof H as H0. unfold iph_from_slice in H0.
  destruct (len bs =? 0); [discriminate|]. destruct (rd bs 0) as [b0|] eqn:R0; [|discriminate].
  exists b0. split; [reflexivity|].
  destruct (shr b0 4 =? 4) eqn:V4.
  - ltb_t V4. left. split; [exact V4|]. rewrite <- (iph_dispatch_v4 bs b0 R0 V4). exact H.
  - destruct (shr b0 4 =? 6) eqn:V6; [|discriminate].
    ltb_t V6. right. split; [exact V6|]. rewrite <- (iph_dispatch_v6 bs b0 R0 V6). exact H.
Qed.

Lemma ip6_first_byte hd R : wf_ip6 hd = true ->
  exists v0, rd (ip6_to_bytes hd ++ R) 0 = Some v0 /\ shr v0 4 = 6.
Proof.
  intros W. destruct (ip6_read_inv _ _ _ (proj2 (ip6_dec_enc hd [] W))) as (v0 & r1 & RE & V6 & _).
  rewrite app_nil_r in RE. exists v0. split; [|exact V6].
  unfold read_exact in RE. destruct (len (ip6_to_bytes hd) <? 1); [discriminate|]. apply Ok_inj in RE.
  injection RE as T1 _. subst v0. reflexivity.
Qed.

Theorem iph_enc_dec en bs h p : bytes_ok bs -> iph_from_slice bs = Ok (h, p) ->
  iph_parts_wf h = true /\ iph_next_header h = XM.Ok (ipp_ip_number p)
  /\ exists w cons t, iph_write en h = (w, XM.Ok tt) /\ len w = iph_header_len h
      /\ bs = cons ++ ipp_payload p ++ t /\ len cons = iph_header_len h
      /\ iph_reencodes en h cons w
      /\ iph_from_slice (w ++ ipp_payload p ++ t) = Ok (iph_written en h, p).
Proof.
  intros OK H. destruct (iph_from_slice_version bs _ H) as (b0 & R0 & [[V D]|[V D]]).
  - destruct (iph_enc_dec_v4 en bs h p OK D) as (WF & w & cons & t & EW & LW & SP & LC & FIT & PD & RE).
    assert (exists hd e, h = IpV4 hd e) as (hd & e & ->).
    { unfold iph_from_ipv4_slice, v4_tail in D. destruct (ip4_from_slice bs) as [[hd hr]|]; [|discriminate].
      cbv zeta in D. destruct (_ <=? _); [|discriminate]. destruct (_ <? _); [discriminate|].
      destruct (slice_range _ _ _); [|discriminate]. destruct (x4_from_slice _ _) as [[[e nx] r']|]; [|discriminate].
      apply Ok_inj in D. injection D as <- _. eauto. }
    destruct (iph_wf_v4 hd e WF) as (W & WX & LK & _).
    split; [unfold iph_parts_wf; rewrite W, WX; reflexivity|].
    split.
    { rewrite PD. unfold iph_payload_desc, iph_final. cbn [ipp_ip_number].
      unfold iph_next_header. rewrite (x4_next_header_linked _ _ LK). reflexivity. }
    exists w, cons, t. repeat split; try assumption.
    destruct (iph_dec_enc_v4 en hd e WF) as (w' & EW' & _ & C & _). rewrite EW in EW'. injection EW' as <-.
    rewrite PD at 2. apply (C _ _ FIT).
  - destruct (iph_enc_dec_v6 en bs h p OK D) as (PW & NH & w & cons & t & EW & LW & SP & LC & RE & RD).
    split; [exact PW|]. split; [exact NH|]. exists w, cons, t. repeat split; try assumption.
    destruct h as [hd e|hd e]; [destruct RE as (e0 & ck & xb & _); unfold iph_from_ipv6_slice in D|].
    + destruct (ip6_from_slice bs) as [[hd6 hr]|]; [|discriminate].
      destruct (_ && _); [unfold v6_tail in D|cbv zeta in D; destruct (_ <? _); [discriminate|];
        destruct (slice_range _ _ _); [unfold v6_tail in D|discriminate]];
      destruct (of_x6 _) as [[[? ?] ?]|]; discriminate.
    + unfold iph_written. rewrite <- RD.
      destruct RE as (xb & -> & _). unfold iph_parts_wf in PW. apply andb_true_iff in PW. destruct PW as [W _].
      rewrite <- app_assoc. destruct (ip6_first_byte hd (xb ++ ipp_payload p ++ t) W) as (v0 & RV & V6).
      apply (iph_dispatch_v6 _ v0 RV V6).
Qed.
