(* Roundtrip/Auth.v -- model of etherparse IpAuthHeader / IpAuthHeaderSlice
   (net/ip_auth_header.rs, net/ip_auth_header_slice.rs): new, raw_icv, to_bytes,
   write, header_len, from_slice (IpAuthHeaderSlice::from_slice + to_header), read,
   PartialEq.  IpAuthHeader has no write_to_slice.  Prefix ah_. *)
From EP Require Import Base.Bytes Roundtrip.Common.
Local Open Scope N_scope.

Record IpAuthHeader := {
  ah_next_header : N;          (* IpNumber(u8) *)
  ah_spi : N;                  (* u32 *)
  ah_sequence_number : N;      (* u32 *)
  ah_raw_icv_len : N;          (* u8, private: length of the ICV in 4-octet units *)
  ah_raw_icv_buffer : bytes }. (* [u8; 0xfe*4] *)

Definition AH_MAX_ICV_LEN : N := 1016.   (* 0xfe * 4 *)
Definition AH_MAX_LEN : N := 1028.       (* 4 * (0xff + 2) *)

(* raw_icv: &self.raw_icv_buffer[..usize::from(self.raw_icv_len) * 4] -- panics beyond the buffer *)
Definition ah_raw_icv (h : IpAuthHeader) : option bytes :=
  slice_range (ah_raw_icv_buffer h) 0 (ah_raw_icv_len h * 4).

(* IpAuthHeader::new : None = Err(IcvLenError) *)
Definition ah_new (nh spi sq : N) (icv : bytes) : option IpAuthHeader :=
  if AH_MAX_ICV_LEN <? len icv then None
  else if negb (len icv mod 4 =? 0) then None
  else Some {| ah_next_header := nh; ah_spi := spi; ah_sequence_number := sq;
               ah_raw_icv_len := as_u8 (len icv / 4);
               ah_raw_icv_buffer := icv ++ zeros (AH_MAX_ICV_LEN - len icv) |}.

(* set_raw_icv: copies into the front of the buffer, keeps the bytes behind (None = Err) *)
Definition ah_set_raw_icv (h : IpAuthHeader) (icv : bytes) : option IpAuthHeader :=
  if AH_MAX_ICV_LEN <? len icv then None
  else if negb (len icv mod 4 =? 0) then None
  else if len (ah_raw_icv_buffer h) <? len icv then None     (* buffer[..len] out of range *)
  else Some {| ah_next_header := ah_next_header h; ah_spi := ah_spi h;
               ah_sequence_number := ah_sequence_number h;
               ah_raw_icv_len := as_u8 (len icv / 4);
               ah_raw_icv_buffer := icv ++ drop (len icv) (ah_raw_icv_buffer h) |}.

(* PartialEq: fields and raw_icv() == raw_icv() *)
Definition ah_eqb (a b : IpAuthHeader) : bool :=
  (ah_next_header a =? ah_next_header b) && (ah_spi a =? ah_spi b)
  && (ah_sequence_number a =? ah_sequence_number b)
  && match ah_raw_icv a, ah_raw_icv b with
     | Some x, Some y => bytes_eqb x y
     | _, _ => false
     end.

Definition ah_header_len (h : IpAuthHeader) : N := 12 + ah_raw_icv_len h * 4.

(* the 12 fixed bytes, same expression in write() and to_bytes(); `raw_icv_len + 1`
   is u8 arithmetic: overflow (debug panic / release wrap) = None *)
Definition ah_fixed (h : IpAuthHeader) : option bytes :=
  if 256 <=? ah_raw_icv_len h + 1 then None
  else Some ([ah_next_header h; ah_raw_icv_len h + 1; 0; 0] ++ u32_to_be (ah_spi h)
             ++ u32_to_be (ah_sequence_number h)).

(* to_bytes: ArrayVec<1028>: extend(12 bytes) (panics beyond the capacity), extend(raw_icv_buffer),
   unsafe set_len(header_len) -- undefined beyond the initialised part *)
Definition ah_to_bytes (h : IpAuthHeader) : option bytes :=
  match ah_fixed h with
  | None => None
  | Some f =>
    let all := f ++ ah_raw_icv_buffer h in
    if (len all <=? AH_MAX_LEN) && (ah_header_len h <=? len all) then Some (take (ah_header_len h) all) else None
  end.

(* write to a Vec: write_all(fixed); write_all(self.raw_icv()) *)
Definition ah_write (out : bytes) (h : IpAuthHeader) : option bytes :=
  match ah_fixed h, ah_raw_icv h with
  | Some f, Some icv => Some (out ++ f ++ icv)
  | _, _ => None
  end.

(* IpAuthHeaderSlice::from_slice; EContent 0 = ZeroPayloadLen *)
Definition ah_slice_from_slice (s : bytes) : res bytes :=
  if len s <? 12 then Err ELen
  else match rd s 1 with
       | None => Err EOOB
       | Some pl =>
         if pl <? 1 then Err (EContent 0)
         else let l := (pl + 2) * 4 in
              if len s <? l then Err ELen else Ok (take l s)
       end.

(* IpAuthHeaderSlice::to_header: unchecked reads at 0, 4..7, 8..11; raw_icv = &slice[12..];
   IpAuthHeader::new(..).unwrap() *)
Definition ah_to_header (s : bytes) : res IpAuthHeader :=
  match s with
  | b0 :: _ :: _ :: _ :: b4 :: b5 :: b6 :: b7 :: b8 :: b9 :: b10 :: b11 :: _ =>
    match slice_from s 12 with
    | None => Err EPanic
    | Some icv =>
      match ah_new b0 (be32 b4 b5 b6 b7) (be32 b8 b9 b10 b11) icv with
      | None => Err EPanic
      | Some h => Ok h
      end
    end
  | _ => Err EOOB
  end.

(* IpAuthHeader::from_slice *)
Definition ah_from_slice (s : bytes) : res (IpAuthHeader * bytes) :=
  match ah_slice_from_slice s with
  | Err e => Err e
  | Ok hs =>
    match slice_from s (len hs) with
    | None => Err EPanic
    | Some rest => match ah_to_header hs with
                   | Err e => Err e
                   | Ok h => Ok (h, rest)
                   end
    end
  end.

(* IpAuthHeader::read *)
Definition ah_read (r : bytes) : res (IpAuthHeader * bytes) :=
  match read_exact r 12 with
  | Err e => Err e
  | Ok (start, r1) =>
    match start with
    | [b0; b1; _; _; b4; b5; b6; b7; b8; b9; b10; b11] =>
      if b1 <? 1 then Err (EContent 0)
      else
        let n := (b1 - 1) * 4 in
        if AH_MAX_ICV_LEN <? n then Err EPanic      (* &mut buffer[..n] *)
        else match read_exact r1 n with
             | Err e => Err e
             | Ok (icv, r2) =>
               Ok ({| ah_next_header := b0; ah_spi := be32 b4 b5 b6 b7;
                      ah_sequence_number := be32 b8 b9 b10 b11;
                      ah_raw_icv_len := b1 - 1;
                      ah_raw_icv_buffer := icv ++ zeros (AH_MAX_ICV_LEN - n) |}, r2)
             end
    | _ => Err EOOB
    end
  end.

(* well-formed: fields in the range of their Rust types; raw_icv_len <= 0xfe and the
   buffer a [u8; 1016] (what new / set_raw_icv / the decoders guarantee; the field is private) *)
Definition wf_ah (h : IpAuthHeader) : bool :=
  (ah_next_header h <? 256) && (ah_spi h <? 4294967296) && (ah_sequence_number h <? 4294967296)
  && (ah_raw_icv_len h <=? 254) && (len (ah_raw_icv_buffer h) =? 1016) && bytes_okb (ah_raw_icv_buffer h).

(* the value a decoder returns for h: buffer bytes behind the ICV are zero
   (set_raw_icv with a shorter ICV leaves stale bytes there; PartialEq ignores them) *)
Definition ah_norm (h : IpAuthHeader) : IpAuthHeader :=
  {| ah_next_header := ah_next_header h; ah_spi := ah_spi h; ah_sequence_number := ah_sequence_number h;
     ah_raw_icv_len := ah_raw_icv_len h;
     ah_raw_icv_buffer := take (ah_raw_icv_len h * 4) (ah_raw_icv_buffer h)
                          ++ zeros (1016 - ah_raw_icv_len h * 4) |}.

(* reserved: bytes 2-3 *)
Definition ah_keep_mask (hl : N) : bytes := [255; 255; 0; 0] ++ ones (hl - 4).
