(* Roundtrip/EthProofs.v -- C08 for Ethernet2Header *)
From EP Require Import Base.Bytes Roundtrip.Common Roundtrip.CommonProofs Roundtrip.LinkNetLemmas Roundtrip.Eth.
From Coq Require Import ZArith Lia ZifyN.
Local Open Scope N_scope.

Lemma eth_wf_facts h : wf_eth h = true ->
  len (eth_source h) = 6 /\ bytes_ok (eth_source h) /\ len (eth_destination h) = 6
  /\ bytes_ok (eth_destination h) /\ eth_ether_type h < 65536.
Proof. unfold wf_eth. intros W. bsplit W. repeat split; try assumption; apply bytes_okb_spec; assumption. Qed.

Lemma len_eth_to_bytes h : wf_eth h = true -> len (eth_to_bytes h) = 14.
Proof.
  intros W. destruct (eth_wf_facts h W) as (LS & _ & LD & _ & _).
  unfold eth_to_bytes. rewrite !len_app, LS, LD. reflexivity.
Qed.

(* to_bytes = write = write_to_slice (into any slice of at least 14 bytes; shorter slices are refused) *)
Theorem eth_ser_agree h out slice : wf_eth h = true ->
  eth_write out h = out ++ eth_to_bytes h /\ len (eth_to_bytes h) = eth_header_len h
  /\ (14 <= len slice -> eth_write_to_slice slice h = Ok (eth_to_bytes h ++ drop 14 slice, drop 14 slice))
  /\ (len slice < 14 -> eth_write_to_slice slice h = Err ELen).
Proof.
  intros W. pose proof (len_eth_to_bytes h W) as L. split; [reflexivity|]. split; [exact L|]. split; intros H.
  - unfold eth_write_to_slice. rewrite L, (ltb_false _ _ H). reflexivity.
  - unfold eth_write_to_slice. apply N.ltb_lt in H. rewrite H. reflexivity.
Qed.

Lemma eth_explicit h : wf_eth h = true -> exists d0 d1 d2 d3 d4 d5 s0 s1 s2 s3 s4 s5,
  eth_destination h = [d0; d1; d2; d3; d4; d5] /\ eth_source h = [s0; s1; s2; s3; s4; s5].
Proof.
  intros W. destruct (eth_wf_facts h W) as (LS & _ & LD & _ & _).
  destruct (len6_explicit _ LD) as (d0 & d1 & d2 & d3 & d4 & d5 & ED).
  destruct (len6_explicit _ LS) as (s0 & s1 & s2 & s3 & s4 & s5 & ES).
  exists d0, d1, d2, d3, d4, d5, s0, s1, s2, s3, s4, s5. split; assumption.
Qed.

Ltac eth_compute_slices :=
  repeat match goal with
  | |- context [slice_range ?s ?a ?b] =>
    let v := eval vm_compute in (slice_range s a b) in change (slice_range s a b) with v
  end.

Theorem eth_dec_enc h rest : wf_eth h = true ->
  eth_from_slice (eth_to_bytes h ++ rest) = Ok (h, rest) /\ eth_read (eth_to_bytes h ++ rest) = Ok (h, rest)
  /\ eth_from_bytes (eth_to_bytes h) = Ok h.
Proof.
  intros W. pose proof (len_eth_to_bytes h W) as L.
  destruct (eth_wf_facts h W) as (_ & _ & _ & _ & RE).
  assert (HD : eth_to_header (eth_to_bytes h) = Ok h /\ eth_from_bytes (eth_to_bytes h) = Ok h).
  { destruct (eth_explicit h W) as (d0 & d1 & d2 & d3 & d4 & d5 & s0 & s1 & s2 & s3 & s4 & s5 & ED & ES).
    destruct h as [src dst et]. cbn [eth_destination eth_source eth_ether_type] in *. subst src dst.
    unfold eth_to_bytes, u16_to_be. cbn [eth_destination eth_source eth_ether_type app].
    set (e0 := (et / 256) mod 256). set (e1 := et mod 256).
    assert (EE : be16 e0 e1 = et) by (apply u16_be_roundtrip; exact RE).
    clearbody e0 e1. split.
    - unfold eth_to_header. eth_compute_slices. cbv iota beta. rewrite EE. reflexivity.
    - unfold eth_from_bytes. rewrite EE. reflexivity. }
  destruct HD as [HD HB]. split; [|split; [|exact HB]].
  - unfold eth_from_slice, eth_slice_from_slice, slice_from. rewrite len_app, L.
    rewrite (ltb_false (14 + len rest) 14) by lia. rewrite (leb_true 14 (14 + len rest)) by lia.
    rewrite (take_app_len (eth_to_bytes h)) by (symmetry; exact L).
    rewrite (drop_app_len (eth_to_bytes h)) by (symmetry; exact L). rewrite HD. reflexivity.
  - unfold eth_read, read_exact. rewrite len_app, L. rewrite (ltb_false (14 + len rest) 14) by lia.
    rewrite (take_app_len (eth_to_bytes h)) by (symmetry; exact L).
    rewrite (drop_app_len (eth_to_bytes h)) by (symmetry; exact L). rewrite HD. reflexivity.
Qed.

(* no reserved bits: exact reproduction of the 14 consumed bytes *)
Theorem eth_enc_dec bs h rest : bytes_ok bs -> eth_from_slice bs = Ok (h, rest) ->
  wf_eth h = true /\ bs = eth_to_bytes h ++ rest /\ len (eth_to_bytes h) = 14
  /\ eth_from_slice (eth_to_bytes h) = Ok (h, []).
Proof.
  intros OK H. unfold eth_from_slice, eth_slice_from_slice in H.
  destruct (len bs <? 14) eqn:L; [discriminate|].
  destruct bs as [|b0 [|b1 [|b2 [|b3 [|b4 [|b5 [|b6 [|b7 [|b8 [|b9 [|b10 [|b11 [|b12 [|b13 r]]]]]]]]]]]]]];
    try (vm_compute in L; discriminate).
  clear L.
  change (take 14 (b0 :: b1 :: b2 :: b3 :: b4 :: b5 :: b6 :: b7 :: b8 :: b9 :: b10 :: b11 :: b12 :: b13 :: r))
    with [b0; b1; b2; b3; b4; b5; b6; b7; b8; b9; b10; b11; b12; b13] in H.
  unfold eth_to_header in H. revert H. eth_compute_slices. cbv iota beta. unfold slice_from.
  rewrite !len_cons. rewrite (leb_true 14 _) by lia.
  match goal with |- context [drop 14 ?s] => change (drop 14 s) with r end.
  intros H. apply Ok_inj in H. apply pair_equal_spec in H. destruct H as [Hh Hrest]. subst rest.
  pose proof OK as OK'. bytes_ok_split OK'.
  pose proof (u16_to_be_be16 b12 b13 B11 B12) as EE. pose proof (be16_bound b12 b13 B11 B12) as EB.
  assert (WF : wf_eth h = true).
  { rewrite <- Hh. unfold wf_eth. cbn [eth_source eth_destination eth_ether_type].
    apply N.ltb_lt in EB. rewrite EB.
    change (len [b6; b7; b8; b9; b10; b11] =? 6) with true. change (len [b0; b1; b2; b3; b4; b5] =? 6) with true.
    cbn [andb].
    assert (X1 : bytes_okb [b6; b7; b8; b9; b10; b11] = true)
      by (apply bytes_okb_spec; repeat (apply bytes_ok_explicit_cons; [assumption|]); constructor).
    assert (X2 : bytes_okb [b0; b1; b2; b3; b4; b5] = true)
      by (apply bytes_okb_spec; repeat (apply bytes_ok_explicit_cons; [assumption|]); constructor).
    rewrite X1, X2. reflexivity. }
  split; [exact WF|]. split; [|split].
  - rewrite <- Hh. unfold eth_to_bytes. cbn [eth_source eth_destination eth_ether_type]. rewrite EE. reflexivity.
  - apply len_eth_to_bytes. exact WF.
  - destruct (eth_dec_enc h [] WF) as [E _]. rewrite app_nil_r in E. exact E.
Qed.

From EP Require Import Roundtrip.Spec Roundtrip.SpecLinkNet.
Theorem eth_spec h : eth_to_bytes h = eth_layout (eth_destination h) (eth_source h) (eth_ether_type h).
Proof. reflexivity. Qed.
